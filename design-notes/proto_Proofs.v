From Coq Require Import QArith Qcanon ZArith List Bool Lqa Lia.
Require Import Num Match.
Import ListNotations.
Open Scope Qc_scope.

Definition legs_qty (ls : list leg) : Qc := qsum (map lg_qty ls).
Lemma qsum_app a b : qsum (a ++ b) = qsum a + qsum b.
Proof. unfold qsum. induction a as [|x a IH]; cbn [app fold_right]; [ring|]. rewrite IH. ring. Qed.
Lemma legs_qty_app a b : legs_qty (a ++ b) = legs_qty a + legs_qty b.
Proof. unfold legs_qty. rewrite map_app. apply qsum_app. Qed.
Lemma legs_qty_nil : legs_qty [] = 0. Proof. reflexivity. Qed.
Lemma legs_qty_one l : legs_qty [l] = lg_qty l. Proof. unfold legs_qty, qsum; cbn [map fold_right]. ring. Qed.

Lemma bnb_step_qty offs d e R rem cl :
  legs_qty (fst (fst (bnb_step offs d e R rem cl))) = rem - snd (fst (bnb_step offs d e R rem cl)).
Proof.
  unfold bnb_step. destruct (hasbuy e); cbn [fst snd]; [|rewrite legs_qty_nil; ring].
  match goal with |- context[if qltb 0 ?f then _ else _] => destruct (qltb 0 f) end; cbn [fst snd].
  - rewrite legs_qty_one. cbn [lg_qty mk_leg]. ring.
  - rewrite legs_qty_nil; ring.
Qed.

Lemma bnb_qty offs d fut : forall R rem cl,
  legs_qty (fst (fst (bnb offs d fut R rem cl))) = rem - snd (fst (bnb offs d fut R rem cl)).
Proof.
  induction fut as [|e r IH]; intros R rem cl; cbn [bnb].
  - cbn [fst snd]. rewrite legs_qty_nil; ring.
  - destruct (negb (qltb 0 rem)); [cbn [fst snd]; rewrite legs_qty_nil; ring|].
    destruct (dt e - dt d >? 30)%Z; [cbn [fst snd]; rewrite legs_qty_nil; ring|].
    cbn [fst snd]. rewrite legs_qty_app, IH, bnb_step_qty. ring.
Qed.
Print Assumptions bnb_qty.

Lemma qmin_cases x y : (x <= y /\ qmin x y = x) \/ (y < x /\ qmin x y = y).
Proof. unfold qmin. destruct (qleb_spec x y) as [H|H]; [left; auto|right; split; auto]. qc2q. lra. Qed.

Lemma bnb_step_rem offs d e R rem cl : 0 <= rem -> 0 < R ->
  0 <= snd (fst (bnb_step offs d e R rem cl)) /\ snd (fst (bnb_step offs d e R rem cl)) <= rem.
Proof.
  intros Hrem HR. unfold bnb_step. destruct (hasbuy e); cbn [fst snd]; [|split; qc2q; lra].
  match goal with |- context[if qltb 0 ?f then _ else _] => remember f as free eqn:Efree; destruct (qltb_spec 0 free) as [Hf|Hf] end;
    cbn [fst snd]; [|split; qc2q; lra].
  assert (Hdiv : 0 <= free / R) by (qc2q; apply Qle_shift_div_l; lra).
  destruct (qmin_cases rem (free / R)) as [[Hm ->]|[Hm ->]]; split; qc2q; lra.
Qed.

Lemma bnb_rem offs d fut : forall R rem cl,
  0 <= rem -> 0 < R -> (forall e, In e fut -> 0 < ratio e) ->
  0 <= snd (fst (bnb offs d fut R rem cl)) /\ snd (fst (bnb offs d fut R rem cl)) <= rem.
Proof.
  induction fut as [|e r IH]; intros R rem cl Hrem HR Hrat; cbn [bnb].
  - cbn [fst snd]. split; qc2q; lra.
  - destruct (negb (qltb 0 rem)); [cbn [fst snd]; split; qc2q; lra|].
    destruct (dt e - dt d >? 30)%Z; [cbn [fst snd]; split; qc2q; lra|].
    cbn [fst snd].
    destruct (bnb_step_rem offs d e R rem cl Hrem HR) as [H1 H2].
    assert (0 < R * ratio e) as HR'.
    { assert (0 < ratio e) by (apply Hrat; left; reflexivity). qc2q. nra. }
    destruct (IH (R * ratio e) _ (snd (bnb_step offs d e R rem cl)) H1 HR' (fun e' He' => Hrat e' (or_intror He'))) as [A B].
    split; [exact A|]. qc2q. lra.
Qed.
Print Assumptions bnb_rem.
