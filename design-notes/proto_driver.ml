open Mdl
(* --- Z / positive from decimal strings --- *)
let rec pos_of_int n = if n = 1 then XH else if n land 1 = 0 then XO (pos_of_int (n lsr 1)) else XI (pos_of_int (n lsr 1))
let z_of_int n = if n = 0 then Z0 else if n > 0 then Zpos (pos_of_int n) else Zneg (pos_of_int (-n))
let z10 = z_of_int 10
let z_of_string s =
  let neg = String.length s > 0 && s.[0] = '-' in
  let s = if neg then String.sub s 1 (String.length s - 1) else s in
  let acc = ref Z0 in
  String.iter (fun c -> acc := Z.add (Z.mul !acc z10) (z_of_int (Char.code c - 48))) s;
  if neg then Z.opp !acc else !acc
let string_of_pos p =
  (* convert via repeated div by 10 using Z.div_eucl *)
  let rec go z acc = match z with Z0 -> acc | _ ->
    let (q, r) = Z.div_eucl z z10 in
    let d = (match r with Z0 -> 0 | Zpos p -> let rec ip = function XH -> 1 | XO p -> 2*ip p | XI p -> 2*ip p+1 in ip p | Zneg _ -> 0) in
    go q (string_of_int d ^ acc) in
  match p with Z0 -> "0" | _ -> go p ""
let string_of_z z = match z with Z0 -> "0" | Zpos _ -> string_of_pos z | Zneg p -> "-" ^ string_of_pos (Zpos p)
let qc_of_string s = (* "num/den" *)
  match String.split_on_char '/' s with
  | [n; d] -> let dz = z_of_string d in
      (match dz with Zpos p -> q2Qc { qnum = z_of_string n; qden = p } | _ -> failwith "den")
  | [n] -> q2Qc { qnum = z_of_string n; qden = XH }
  | _ -> failwith "qc"
let string_of_qc (q : qc) = let q = this q in string_of_z q.qnum ^ "/" ^ string_of_z (Zpos q.qden)
let rule_s = function SameDay -> "SameDay" | BnB -> "BedAndBreakfast" | S104 -> "Section104"
(* input: lines "D date bq bcost hasbuy sq sgross sfees hassell ratio nevs [C x | A x]..." ; "RUN" ends a case *)
let () =
  let days = ref [] in
  (try while true do
    let line = input_line stdin in
    let t = String.split_on_char ' ' (String.trim line) in
    match t with
    | "D" :: dt :: bq :: bc :: hb :: sq :: sg :: sf :: hs :: ratio :: rest ->
        let rec evs = function "C" :: x :: r -> Cap (qc_of_string x) :: evs r | "A" :: x :: r -> Acc (qc_of_string x) :: evs r | _ -> [] in
        days := { dt = z_of_string dt; bq = qc_of_string bq; bcost = qc_of_string bc; hasbuy = (hb = "1");
                  sq = qc_of_string sq; sgross = qc_of_string sg; sfees = qc_of_string sf; hassell = (hs = "1");
                  evs = evs rest; ratio = qc_of_string ratio } :: !days
    | ["RUN"; name] ->
        (match run (List.rev !days) with
         | Inl e -> Printf.printf "RESULT %s ERR %s\n" name (match e with ECapExceeds d -> "CapExceeds " ^ string_of_z d | EResvExceeds d -> "ResvExceeds " ^ string_of_z d | EExceedsHolding d -> "ExceedsHolding " ^ string_of_z d | ENoPrior d -> "NoPrior " ^ string_of_z d | EUnmatched d -> "Unmatched " ^ string_of_z d)
         | Inr s ->
            Printf.printf "RESULT %s OK pool %s %s %b\n" name (string_of_qc s.m_pq) (string_of_qc s.m_pc) s.m_pooled;
            List.iter (fun l -> Printf.printf "LEG %s %s %s %s %s %s %s %s\n" (string_of_z l.lg_sell) (rule_s l.lg_rule) (string_of_qc l.lg_qty)
              (match l.lg_acq with Some d -> string_of_z d | None -> "-") (string_of_qc l.lg_cost) (string_of_qc l.lg_gross) (string_of_qc l.lg_net) (string_of_qc l.lg_gain)) s.m_legs);
        days := []
    | _ -> ()
  done with End_of_file -> ())
