import random, sys, os, datetime, collections
from cmp import compare
from fractions import Fraction as F
def gen(rng, events=True, splits=True):
    base=datetime.date(2024,1,1)
    n=rng.randint(3,9)
    lines=[]
    ticks=['AAA'] if rng.random()<0.7 else ['AAA','BBB']
    day=0; held={t:0 for t in ticks}
    for i in range(n):
        day+=rng.choice([0,0,1,1,2,5,10,29,30,31,40])
        t=rng.choice(ticks); d=(base+datetime.timedelta(days=day)).isoformat()
        r=rng.random()
        q=rng.choice([1,2,5,10,10,20,25,50,100]); p=rng.choice(['1','2','2.5','3','7','10.10'])
        f=rng.choice(['','',' FEES 1',' FEES 2.50'])
        if r<0.45 or held[t]==0:
            lines.append(f"{d} BUY {t} {q} @ {p}{f}"); held[t]+=q
        elif r<0.85:
            q=min(q,held[t]) if rng.random()<0.9 else q
            lines.append(f"{d} SELL {t} {q} @ {p}{f}"); held[t]=max(0,held[t]-q)
        elif r<0.92 and splits:
            k=rng.choice(['SPLIT','UNSPLIT']); ra=rng.choice(['2','4','5','10'])
            lines.append(f"{d} {k} {t} RATIO {ra}")
            held[t]=held[t]*int(ra) if k=='SPLIT' else held[t]//int(ra)
        elif events:
            k=rng.choice(['CAPRETURN','ACCUMULATION'])
            lines.append(f"{d} {k} {t} {max(1,held[t])} TOTAL {rng.choice(['1','5','10'])}")
        else:
            lines.append(f"{d} BUY {t} {q} @ {p}{f}"); held[t]+=q
    if rng.random()<0.3: rng.shuffle(lines)
    return lines
if __name__=='__main__':
    cgt=sys.argv[1]; seed=int(sys.argv[2]); N=int(sys.argv[3]); ev=sys.argv[4]=='1'; sp=sys.argv[5]=='1'
    rng=random.Random(seed); buckets=collections.Counter(); ex={}
    for i in range(N):
        lines=gen(rng,ev,sp); open('/tmp/scratch/m/case.cgt','w').write('\n'.join(lines)+'\n')
        r=compare(cgt,'/tmp/scratch/m/case.cgt'); k=r.split(' ')[0]
        buckets[k]+=1
        if k not in('same','both-err') and len([1 for kk in ex if kk.startswith(k)])<4: ex[k+str(i)]=(lines,r[:300])
    print(buckets)
    for k,v in ex.items(): print(k); print('\n'.join(v[0])); print(v[1]); print()
