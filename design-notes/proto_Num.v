From Coq Require Import QArith Qcanon Lqa Lia List.
Import ListNotations.
Open Scope Qc_scope.

(* bridge: Qc facts -> Q facts, then lra *)
Lemma this_plus x y : (this (x + y) == this x + this y)%Q.
Proof. unfold Qcplus, Q2Qc; cbn [this]. apply Qred_correct. Qed.
Lemma this_mult x y : (this (x * y) == this x * this y)%Q.
Proof. unfold Qcmult, Q2Qc; cbn [this]. apply Qred_correct. Qed.
Lemma this_opp x : (this (- x) == - this x)%Q.
Proof. unfold Qcopp, Q2Qc; cbn [this]. apply Qred_correct. Qed.
Lemma this_minus x y : (this (x - y) == this x - this y)%Q.
Proof. unfold Qcminus. rewrite this_plus, this_opp. reflexivity. Qed.
Lemma this_inv x : (this (/ x) == / this x)%Q.
Proof. unfold Qcinv, Q2Qc; cbn [this]. apply Qred_correct. Qed.
Lemma this_div x y : (this (x / y) == this x / this y)%Q.
Proof. unfold Qcdiv. rewrite this_mult, this_inv. reflexivity. Qed.
Lemma this_0 : (this 0 == 0)%Q. Proof. reflexivity. Qed.
Lemma this_1 : (this 1 == 1)%Q. Proof. reflexivity. Qed.
Lemma Qc_eq_iff x y : x = y <-> (this x == this y)%Q.
Proof. split; [intros ->; reflexivity | apply Qc_is_canon]. Qed.
Lemma Qc_le_iff x y : x <= y <-> (this x <= this y)%Q. Proof. reflexivity. Qed.
Lemma Qc_lt_iff x y : x < y <-> (this x < this y)%Q. Proof. reflexivity. Qed.

Ltac qc2q :=
  unfold Qcle, Qclt in *;
  repeat match goal with
  | H : @eq Qc _ _ |- _ => apply Qc_eq_iff in H
  | H : ~ @eq Qc _ _ |- _ => rewrite Qc_eq_iff in H
  end;
  try match goal with
  | |- @eq Qc _ _ => apply Qc_eq_iff
  end;
  repeat (rewrite ?this_plus, ?this_mult, ?this_opp, ?this_minus, ?this_div, ?this_inv in * );
  cbn [this Q2Qc] in *; rewrite ?Qred_correct in *.

Definition qleb (x y : Qc) : bool := Qle_bool (this x) (this y).
Definition qltb (x y : Qc) : bool := negb (Qle_bool (this y) (this x)).
Definition qeqb (x y : Qc) : bool := Qeq_bool (this x) (this y).
Lemma qleb_spec x y : reflect (x <= y) (qleb x y).
Proof. unfold qleb. destruct (Qle_bool (this x) (this y)) eqn:E; constructor.
 - apply Qle_bool_iff in E. exact E.
 - intro H. apply Qle_bool_iff in H. congruence. Qed.
Lemma qltb_spec x y : reflect (x < y) (qltb x y).
Proof. unfold qltb. destruct (Qle_bool (this y) (this x)) eqn:E; constructor; cbn.
 - apply Qle_bool_iff in E. intro H. apply Qc_lt_iff in H. unfold Qclt in H. lra.
 - unfold Qclt. destruct (Qlt_le_dec (this x) (this y)); auto. apply Qle_bool_iff in q. congruence. Qed.
Definition qmin (x y : Qc) : Qc := if qleb x y then x else y.

