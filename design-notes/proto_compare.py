import sys, re, json, subprocess, datetime
from fractions import Fraction as F
from collections import defaultdict
def parse_cgt(path):
    txs=[]
    for line in open(path):
        line=line.split('#')[0].strip()
        if not line: continue
        t=line.split()
        d=datetime.date.fromisoformat(t[0]).toordinal(); kind=t[1].upper(); tick=t[2].upper()
        def money(i):
            v=F(t[i]); cur='GBP'
            if i+1<len(t) and re.fullmatch(r'[A-Za-z]{3}',t[i+1]) and t[i+1].upper() not in('TAX','BUY'): cur=t[i+1].upper()
            if cur!='GBP': raise ValueError('fx')
            return v
        def opt(key):
            up=[x.upper() for x in t]
            return money(up.index(key)+1) if key in up else F(0)
        if kind in('BUY','SELL'): txs.append((d,tick,kind,F(t[3]),money(5),opt('FEES')))
        elif kind=='DIVIDEND': pass
        elif kind=='ACCUMULATION': txs.append((d,tick,'ACC',opt('TOTAL')))
        elif kind=='CAPRETURN': txs.append((d,tick,'CAP',opt('TOTAL')-opt('FEES')))
        elif kind=='SPLIT': txs.append((d,tick,'SPLIT',F(t[4])))
        elif kind=='UNSPLIT': txs.append((d,tick,'UNSPLIT',F(t[4])))
    return txs
def fr(x): return f"{x.numerator}/{x.denominator}"
def model_input(txs):
    per=defaultdict(lambda: defaultdict(lambda: dict(bq=F(0),bc=F(0),hb=0,sq=F(0),sg=F(0),sf=F(0),hs=0,ratio=F(1),evs=[])))
    for t in sorted(txs,key=lambda t:t[0]):
        d=per[t[1]][t[0]]
        if t[2]=='BUY': d['bq']+=t[3]; d['bc']+=t[3]*t[4]+t[5]; d['hb']=1
        elif t[2]=='SELL': d['sq']+=t[3]; d['sg']+=t[3]*t[4]; d['sf']+=t[5]; d['hs']=1
        elif t[2]=='ACC': d['evs']+=['A',fr(t[3])]
        elif t[2]=='CAP': d['evs']+=['C',fr(t[3])]
        elif t[2]=='SPLIT': d['ratio']*=t[3]
        elif t[2]=='UNSPLIT':
            if t[3]!=0: d['ratio']/=t[3]
    out=[]
    for tick in sorted(per):
        for dt in sorted(per[tick]):
            d=per[tick][dt]
            out.append(' '.join(['D',str(dt),fr(d['bq']),fr(d['bc']),str(d['hb']),fr(d['sq']),fr(d['sg']),fr(d['sf']),str(d['hs']),fr(d['ratio'])]+d['evs']))
        out.append('RUN '+tick)
    return '\n'.join(out)+'\n'
def run_model(txs):
    p=subprocess.run(['./drv'],input=model_input(txs),capture_output=True,text=True)
    res={}; cur=None
    for line in p.stdout.splitlines():
        t=line.split()
        if t[0]=='RESULT':
            cur=t[1]; res[cur]={'ok':t[2]=='OK','legs':[],'raw':line}
            if t[2]=='OK': res[cur]['pool']=(F(t[4]),F(t[5]),t[6]=='true')
        else:
            res[cur]['legs'].append((int(t[1]),t[2],F(t[3]),None if t[4]=='-' else int(t[4]),F(t[5]),F(t[6]),F(t[7]),F(t[8])))
    return res
def run_cli(cgt,path):
    p=subprocess.run([cgt,'report',path,'--format','json'],capture_output=True,text=True,env={'RUST_BACKTRACE':'0','HOME':'/root'})
    if p.returncode!=0: return None,p.stderr.strip().splitlines()[0]
    return json.loads(p.stdout),None
def compare(cgt,path):
    try: txs=parse_cgt(path)
    except ValueError: return 'skip-fx'
    m=run_model(txs); r,err=run_cli(cgt,path)
    if r is None:
        bad=[k for k,v in m.items() if not v['ok']]
        return 'both-err' if bad else f'CLI-ERR-ONLY {err}'
    if any(not v['ok'] for v in m.values()): return 'MODEL-ERR-ONLY '+str([v['raw'] for v in m.values() if not v['ok']])
    cl=defaultdict(list)
    for y in r['tax_years']:
        for d in y['disposals']:
            for mt in d['matches']:
                cl[d['ticker']].append((datetime.date.fromisoformat(d['date']).toordinal(),mt['rule'],F(mt['quantity']),datetime.date.fromisoformat(mt['acquisition_date']).toordinal() if 'acquisition_date' in mt else None,F(mt['allowable_cost']),F(mt['gain_or_loss'])))
    diffs=[]
    for tick,v in m.items():
        ml=[(l[0],l[1],l[2],l[3],l[4],l[7]) for l in v['legs']]
        c=cl.get(tick,[])
        if len(ml)!=len(c): diffs.append((tick,'nlegs',len(ml),len(c))); continue
        for a,b in zip(ml,c):
            if a[0]!=b[0] or a[1]!=b[1] or a[3]!=b[3] or abs(a[2]-b[2])>F(1,10**9) or abs(a[4]-b[4])>F(6,1000) or abs(a[5]-b[5])>F(6,1000):
                diffs.append((tick,[str(x) if not isinstance(x,F) else float(x) for x in a],[str(x) if not isinstance(x,F) else float(x) for x in b]))
    hold={h['ticker']:(F(h['quantity']),F(h['total_cost'])) for h in r['holdings']}
    for tick,v in m.items():
        pq,pc,pooled=v['pool']
        if pooled!=(tick in hold): diffs.append((tick,'pooled',pooled)); continue
        if pooled and (abs(hold[tick][0]-pq)>F(1,10**9) or abs(hold[tick][1]-pc)>F(6,1000)): diffs.append((tick,'pool',float(pq),float(pc),[float(x) for x in hold[tick]]))
    return 'same' if not diffs else 'DIFF '+str(diffs)
if __name__=='__main__':
    cgt=sys.argv[1]
    for p in sys.argv[2:]:
        print(p.split('/')[-1], compare(cgt,p))
