From Coq Require Import QArith Qcanon ZArith List Bool.
Require Import Num.
Import ListNotations.
Open Scope Qc_scope.

Inductive ev := Cap (net : Qc) | Acc (v : Qc).

Record day := {
  dt : Z;
  bq : Qc; bcost : Qc; hasbuy : bool;
  sq : Qc; sgross : Qc; sfees : Qc; hassell : bool;
  evs : list ev;
  ratio : Qc }.

Definition qdiv0 (a b : Qc) : Qc := if qeqb b 0 then 0 else a / b.
Definition qmax (x y : Qc) : Qc := if qleb x y then y else x.
Definition qsum (l : list Qc) : Qc := fold_right Qcplus 0 l.

(* ---------- cost-offset pre-pass ---------- *)
Record plot := { pl_dt : Z; pl_amt : Qc; pl_base : Qc; pl_off : Qc; pl_cons : Qc }.
Definition pl_held (l : plot) := pl_amt l - pl_cons l.
Definition pl_adj (l : plot) := pl_base l + pl_off l.

Definition total_held (ls : list plot) := qsum (map pl_held ls).
Definition total_adj_cost (ls : list plot) :=
  qsum (map (fun l => if qltb 0 (pl_held l) then pl_adj l else 0) ls).
Definition apply_adj (ls : list plot) (a : Qc) : list plot :=
  let th := total_held ls in
  if qeqb th 0 then ls else
  map (fun l => if qltb 0 (pl_held l)
                then {| pl_dt := pl_dt l; pl_amt := pl_amt l; pl_base := pl_base l;
                        pl_off := pl_off l + a * (pl_held l / th); pl_cons := pl_cons l |}
                else l) ls.

Inductive err := ECapExceeds (d : Z) | EResvExceeds (d : Z) | EExceedsHolding (d : Z) | ENoPrior (d : Z) | EUnmatched (d : Z).

Fixpoint apply_evs (started : bool) (d : Z) (ls : list plot) (es : list ev) : err + list plot :=
  match es with
  | [] => inr ls
  | Cap net :: r =>
      if started then
        if qltb (total_adj_cost ls) net then inl (ECapExceeds d)
        else apply_evs started d (apply_adj ls (- net)) r
      else apply_evs started d ls r
  | Acc v :: r =>
      if started then apply_evs started d (apply_adj ls v) r else apply_evs started d ls r
  end.

(* consume FIFO from lots strictly before date d *)
Fixpoint consume_before (d : Z) (ls : list plot) (rem : Qc) : list plot :=
  match ls with
  | [] => []
  | l :: r =>
      if (pl_dt l <? d)%Z && qltb 0 rem then
        let av := pl_held l in
        if qltb 0 av then
          let c := qmin rem av in
          {| pl_dt := pl_dt l; pl_amt := pl_amt l; pl_base := pl_base l; pl_off := pl_off l; pl_cons := pl_cons l + c |}
            :: consume_before d r (rem - c)
        else l :: consume_before d r rem
      else l :: consume_before d r rem
  end.
Fixpoint consume_on (d : Z) (ls : list plot) (m : Qc) : list plot :=
  match ls with
  | [] => []
  | l :: r => if (pl_dt l =? d)%Z
              then {| pl_dt := pl_dt l; pl_amt := pl_amt l; pl_base := pl_base l; pl_off := pl_off l; pl_cons := pl_cons l + m |} :: r
              else l :: consume_on d r m
  end.
Definition avail_on (d : Z) (ls : list plot) : Qc :=
  qsum (map (fun l => if (pl_dt l =? d)%Z then pl_held l else 0) ls).

Fixpoint prepass (started : bool) (ls : list plot) (ds : list day) : err + list plot :=
  match ds with
  | [] => inr ls
  | d :: r =>
      match apply_evs started (dt d) ls (evs d) with
      | inl e => inl e
      | inr ls1 =>
          let ls2 := if hasbuy d then ls1 ++ [{| pl_dt := dt d; pl_amt := bq d; pl_base := bcost d; pl_off := 0; pl_cons := 0 |}] else ls1 in
          let started' := started || hasbuy d in
          let ls3 :=
            if hassell d && started' then
              let av := avail_on (dt d) ls2 in
              if qltb 0 av then
                let m := qmin (sq d) av in
                let ls' := consume_on (dt d) ls2 m in
                let rem := sq d - m in
                if qltb 0 rem then consume_before (dt d) ls' rem else ls'
              else consume_before (dt d) ls2 (sq d)
            else ls2 in
          prepass started' ls3 r
      end
  end.

Definition offset_of (ls : list plot) (d : Z) : Qc :=
  qsum (map (fun l => if (pl_dt l =? d)%Z then pl_off l else 0) ls).

(* ---------- main pass ---------- *)
Inductive rule := SameDay | BnB | S104.
Record leg := { lg_sell : Z; lg_rule : rule; lg_qty : Qc; lg_acq : option Z; lg_cost : Qc;
                lg_gross : Qc; lg_net : Qc; lg_gain : Qc }.

Definition claim_of (cl : list (Z * Qc)) (d : Z) : Qc :=
  qsum (map (fun p => if (fst p =? d)%Z then snd p else 0) cl).

Definition mk_leg (d : day) (r : rule) (m : Qc) (acq : option Z) (cost : Qc) : leg :=
  let price := qdiv0 (sgross d) (sq d) in
  let gross := m * price in
  let fees := sfees d * (m / sq d) in
  {| lg_sell := dt d; lg_rule := r; lg_qty := m; lg_acq := acq; lg_cost := cost;
     lg_gross := gross; lg_net := gross - fees; lg_gain := gross - fees - cost |}.

(* B&B scan over the later days; R = cumulative ratio from sell day to the candidate day (exclusive of candidate's own ratio) *)
Definition bnb_step (offs : list plot) (d e : day) (R rem : Qc) (cl : list (Z * Qc))
  : list leg * Qc * list (Z * Qc) :=
  if hasbuy e then
    let free := qmax 0 (bq e - qmin (bq e) (if hassell e then sq e else 0) - claim_of cl (dt e)) in
    if qltb 0 free then
      let ms := qmin rem (free / R) in
      let mb := ms * R in
      let u := qdiv0 (bcost e + offset_of offs (dt e)) (bq e) in
      ([mk_leg d BnB ms (Some (dt e)) (mb * u)], rem - ms, (dt e, mb) :: cl)
    else ([], rem, cl)
  else ([], rem, cl).

Fixpoint bnb (offs : list plot) (d : day) (fut : list day) (R : Qc) (rem : Qc) (cl : list (Z * Qc))
  : list leg * Qc * list (Z * Qc) :=
  match fut with
  | [] => ([], rem, cl)
  | e :: r =>
      if negb (qltb 0 rem) then ([], rem, cl) else
      if (dt e - dt d >? 30)%Z then ([], rem, cl) else
      let s1 := bnb_step offs d e R rem cl in
      let s2 := bnb offs d r (R * ratio e) (snd (fst s1)) (snd s1) in
      (fst (fst s1) ++ fst (fst s2), snd (fst s2), snd s2)
  end.

Record mst := { m_pq : Qc; m_pc : Qc; m_pooled : bool; m_cl : list (Z * Qc); m_legs : list leg; m_pos : Qc }.

Definition split_day_ratio_applies_to_own_day := true.

Fixpoint mainpass (offs : list plot) (s : mst) (ds : list day) : err + mst :=
  match ds with
  | [] => inr s
  | d :: r =>
      let resv := if hasbuy d then claim_of (m_cl s) (dt d) else 0 in
      if hasbuy d && qltb (bq d) resv then inl (EResvExceeds (dt d)) else
      let u := qdiv0 (bcost d + offset_of offs (dt d)) (bq d) in
      let avail0 := if hasbuy d then bq d - resv else 0 in
      let pos1 := if hasbuy d then m_pos s + bq d else m_pos s in
      let sell_res :=
        if hassell d then
          if qltb pos1 (sq d) then inl (EExceedsHolding (dt d)) else
          if qltb (avail0 + m_pq s) (sq d) then inl (EExceedsHolding (dt d)) else
          let rem0 := sq d in
          let '(l1, rem1, av1) :=
            if qltb 0 avail0 && qltb 0 rem0 && negb (qeqb (sq d) 0)
            then let m := qmin rem0 avail0 in ([mk_leg d SameDay m (Some (dt d)) (m * u)], rem0 - m, avail0 - m)
            else ([], rem0, avail0) in
          let '(l2, rem2, cl2) :=
            if qeqb (sq d) 0 then ([], rem1, m_cl s)
            else bnb offs d r (if split_day_ratio_applies_to_own_day then ratio d else 1) rem1 (m_cl s) in
          let '(l3, rem3, pq3, pc3) :=
            if qltb 0 rem2 && m_pooled s && negb (qeqb (m_pq s) 0) && negb (qeqb (sq d) 0) then
              let m := qmin rem2 (m_pq s) in
              let c := m * (m_pc s / m_pq s) in
              ([mk_leg d S104 m None c], rem2 - m, m_pq s - m, m_pc s - c)
            else ([], rem2, m_pq s, m_pc s) in
          if qltb 0 rem3 then inl (if qeqb rem3 (sq d) then ENoPrior (dt d) else EUnmatched (dt d))
          else inr (l1 ++ l2 ++ l3, av1, cl2, pq3, pc3)
        else inr ([], avail0, m_cl s, m_pq s, m_pc s) in
      match sell_res with
      | inl e => inl e
      | inr (legs, av, cl, pq, pc) =>
          let '(pq', pc', pooled') :=
            if hasbuy d && qltb 0 av then (pq + av, pc + av * u, true) else (pq, pc, m_pooled s) in
          mainpass offs {| m_pq := pq' * ratio d; m_pc := pc'; m_pooled := pooled'; m_cl := cl; m_legs := m_legs s ++ legs; m_pos := (if hassell d then pos1 - sq d else pos1) * ratio d |} r
      end
  end.

Definition run (ds : list day) : err + mst :=
  match prepass false [] ds with
  | inl e => inl e
  | inr offs => mainpass offs {| m_pq := 0; m_pc := 0; m_pooled := false; m_cl := []; m_legs := []; m_pos := 0 |} ds
  end.
