(* Hand-written glue around the extracted model: reads cases, converts decimal strings
   to the extracted number types, calls one model entry point per RUN line, prints one
   JSON line per result.  Trusted, kept small. *)
open Model

let rec pos_of_int n = if n = 1 then XH else if n land 1 = 0 then XO (pos_of_int (n lsr 1)) else XI (pos_of_int (n lsr 1))
let z_of_int n = if n = 0 then Z0 else if n > 0 then Zpos (pos_of_int n) else Zneg (pos_of_int (-n))
let z10 = z_of_int 10
let z_of_string s =
  let neg = String.length s > 0 && s.[0] = '-' in
  let s = if neg then String.sub s 1 (String.length s - 1) else s in
  let acc = ref Z0 in
  String.iter (fun c -> acc := Z.add (Z.mul !acc z10) (z_of_int (Char.code c - 48))) s;
  if neg then Z.opp !acc else !acc
let rec int_of_pos = function XH -> 1 | XO p -> 2 * int_of_pos p | XI p -> 2 * int_of_pos p + 1
let string_of_znat z =
  let rec go z acc = match z with Z0 -> acc | _ ->
    let (q, r) = Z.div_eucl z z10 in
    let d = (match r with Z0 -> 0 | Zpos p -> int_of_pos p | Zneg _ -> 0) in
    go q (string_of_int d ^ acc) in
  match z with Z0 -> "0" | _ -> go z ""
let string_of_z z = match z with Z0 -> "0" | Zpos _ -> string_of_znat z | Zneg p -> "-" ^ string_of_znat (Zpos p)
let qc_of_string s =
  match String.split_on_char '/' s with
  | [n; d] -> (match z_of_string d with Zpos p -> q2Qc { qnum = z_of_string n; qden = p } | _ -> failwith "den")
  | [n] -> q2Qc { qnum = z_of_string n; qden = XH }
  | _ -> failwith "qc"
let string_of_qc (q : qc) = let q = this q in
  match q.qden with XH -> string_of_z q.qnum | d -> string_of_z q.qnum ^ "/" ^ string_of_z (Zpos d)
let rec nat_of_int n = if n = 0 then O else S (nat_of_int (n - 1))

(* OCaml string <-> extracted Coq string *)
let ascii_of_char c = let n = Char.code c in let b i = (n lsr i) land 1 = 1 in
  Ascii (b 0, b 1, b 2, b 3, b 4, b 5, b 6, b 7)
let char_of_ascii (Ascii (b0,b1,b2,b3,b4,b5,b6,b7)) =
  let v b i = if b then 1 lsl i else 0 in
  Char.chr (v b0 0 + v b1 1 + v b2 2 + v b3 3 + v b4 4 + v b5 5 + v b6 6 + v b7 7)
let coq_of_string (s : Stdlib.String.t) = let r = ref EmptyString in
  for i = String.length s - 1 downto 0 do r := String (ascii_of_char s.[i], !r) done; !r
let rec string_of_coq = function EmptyString -> "" | String (a, r) -> String.make 1 (char_of_ascii a) ^ string_of_coq r

let jq q = "\"" ^ string_of_qc q ^ "\""
let js s = "\"" ^ String.escaped s ^ "\""
let jlist f l = "[" ^ String.concat "," (List.map f l) ^ "]"
let rule_s = function SameDay -> "SameDay" | BnB -> "BedAndBreakfast" | S104 -> "Section104"
let jleg (l : leg) = Printf.sprintf "{\"rule\":%s,\"qty\":%s,\"acq\":%s,\"cost\":%s,\"gross\":%s,\"net\":%s,\"gain\":%s}"
  (js (rule_s l.lg_rule)) (jq l.lg_qty) (match l.lg_acq with Some d -> string_of_z d | None -> "null")
  (jq l.lg_cost) (jq l.lg_gross) (jq l.lg_net) (jq l.lg_gain)
let jdisp (d : disposal) = Printf.sprintf "{\"date\":%s,\"tick\":%s,\"qty\":%s,\"gross\":%s,\"net\":%s,\"legs\":%s}"
  (string_of_z d.d_date) (js (string_of_coq d.d_tick)) (jq d.d_qty) (jq d.d_gross) (jq d.d_net) (jlist jleg d.d_legs)
let jyear (y : ysum) = Printf.sprintf "{\"year\":%s,\"gain\":%s,\"loss\":%s,\"net\":%s,\"exempt\":%s,\"taxable\":%s,\"div_income\":%s,\"div_tax\":%s,\"disposals\":%s}"
  (string_of_z y.y_year) (jq y.y_gain) (jq y.y_loss) (jq y.y_net) (jq y.y_exempt) (jq (y_taxable y))
  (jq y.y_div_income) (jq y.y_div_tax) (jlist jdisp y.y_disposals)
let jhold (h : holding) = Printf.sprintf "{\"tick\":%s,\"qty\":%s,\"cost\":%s}" (js (string_of_coq h.h_tick)) (jq h.h_qty) (jq h.h_cost)
let err_s = function
  | ECapExceeds d -> ("CapExceeds", d) | EResvExceeds d -> ("ResvExceeds", d) | EExceedsHolding d -> ("ExceedsHolding", d)
  | ENoPrior d -> ("NoPrior", d) | EUnmatched d -> ("Unmatched", d) | ECrashDivZero d -> ("CrashDivZero", d)
let jrerr = function
  | RMatch (t, e) -> let (k, d) = err_s e in Printf.sprintf "{\"kind\":%s,\"tick\":%s,\"date\":%s}" (js k) (js (string_of_coq t)) (string_of_z d)
  | RTaxYear z -> Printf.sprintf "{\"kind\":\"TaxYear\",\"date\":%s}" (string_of_z z)
  | RNoExemption y -> Printf.sprintf "{\"kind\":\"NoExemption\",\"year\":%s}" (string_of_z y)
  | RBadYear y -> Printf.sprintf "{\"kind\":\"BadYear\",\"year\":%s}" (string_of_z y)

(* bytes <-> extracted `list ascii` *)
let text_of_string (s : Stdlib.String.t) = List.init (String.length s) (fun i -> ascii_of_char s.[i])
let string_of_text (t : ascii list) = let b = Buffer.create 64 in List.iter (fun a -> Buffer.add_char b (char_of_ascii a)) t; Buffer.contents b
let unhex (h : Stdlib.String.t) = Stdlib.String.init (String.length h / 2) (fun i -> Char.chr (int_of_string ("0x" ^ String.sub h (2 * i) 2)))
let hex (s : Stdlib.String.t) = let b = Buffer.create 64 in String.iter (fun c -> Buffer.add_string b (Printf.sprintf "%02x" (Char.code c))) s; Buffer.contents b
let rec n_of_z = function Z0 -> N0 | Zpos p -> Npos p | Zneg _ -> N0
let perr_s = function EGrammar -> "Grammar" | EDate -> "Date" | EDecimalUnsupported -> "Unsupported" | ECurrency -> "Currency"
let currencies : (Stdlib.String.t, unit) Hashtbl.t = Hashtbl.create 256
let valid_cur (t : ascii list) = Hashtbl.mem currencies (string_of_text t)
let mk_dec m sc = { d_mant = n_of_z (z_of_string m); d_scale = nat_of_int (int_of_string sc) }
let mk_money m sc cur = { m_amt = mk_dec m sc; m_cur = text_of_string cur }

let opt_field (f : Stdlib.String.t) = if f = "-" then None else Some (text_of_string (unhex (String.sub f 1 (String.length f - 1))))
let req_field (f : Stdlib.String.t) = match opt_field f with Some t -> t | None -> []
let serr_s = function EInvalidTransaction -> "InvalidTransaction" | EInvalidDate -> "InvalidDate" | EInvalidAmount -> "InvalidAmount"
  | EMissingFmv -> "MissingFmv" | EUnsupported -> "Unsupported"
let rec int_of_nat = function O -> 0 | S k -> 1 + int_of_nat k

let loaderr_s = function BadFileName -> "BadFileName" | BadPeriod -> "BadPeriod" | PeriodMismatch -> "PeriodMismatch"
  | NonPositiveRate c -> "NonPositiveRate " ^ string_of_text c
let jop (o : qc op) = match o with
  | Buy (a, p, f) -> Printf.sprintf "[\"BUY\",%s,%s,%s]" (jq a) (jq p) (jq f)
  | Sell (a, p, f) -> Printf.sprintf "[\"SELL\",%s,%s,%s]" (jq a) (jq p) (jq f)
  | Dividend (v, x) -> Printf.sprintf "[\"DIVIDEND\",%s,%s]" (jq v) (jq x)
  | CapReturn (a, v, f) -> Printf.sprintf "[\"CAPRETURN\",%s,%s,%s]" (jq a) (jq v) (jq f)
  | Accumulation (a, v, x) -> Printf.sprintf "[\"ACCUMULATION\",%s,%s,%s]" (jq a) (jq v) (jq x)
  | Split r -> Printf.sprintf "[\"SPLIT\",%s]" (jq r)
  | Unsplit r -> Printf.sprintf "[\"UNSPLIT\",%s]" (jq r)

let () =
  let fxc = ref [] and ftx = ref [] and rfiles = ref [] and cur_rates = ref [] in
  let rows = ref [] and awards = ref None and cur_details = ref [] in
  let dtx = ref [] in
  let fr = ref [] and fe = ref [] and fnw = ref [] and pt = ref [] and orc = ref [] in
  let md = ref [] and mj = ref [] and mc = ref [] and mds = ref [] in
  let txs = ref [] and exs = ref [] and yf = ref None and id = ref "" in
  let reset () = txs := []; exs := []; yf := None in
  (try while true do
    let line = input_line stdin in
    let t = String.split_on_char ' ' (String.trim line) in
    let q = qc_of_string in
    match t with
    | ["CASE"; i] -> reset (); dtx := []; fr := []; fe := []; fnw := []; pt := []; orc := []; md := []; mj := []; mc := []; mds := []; rows := []; fxc := []; ftx := []; rfiles := []; cur_rates := []; awards := None; cur_details := []; id := i
    | ["FX"; c; y; m; r] -> fxc := (((text_of_string c, z_of_string y), z_of_string m), qc_of_string r) :: !fxc
    | "FTX" :: y :: m :: d :: tick :: rest ->
        let a v c = { am_val = qc_of_string v; am_cur = text_of_string c } in
        let o = (match rest with
          | ["BUY"; q; v; vc; x; xc] -> Buy (qc_of_string q, a v vc, a x xc)
          | ["SELL"; q; v; vc; x; xc] -> Sell (qc_of_string q, a v vc, a x xc)
          | ["DIVIDEND"; v; vc; x; xc] -> Dividend (a v vc, a x xc)
          | ["CAPRETURN"; q; v; vc; x; xc] -> CapReturn (qc_of_string q, a v vc, a x xc)
          | ["ACCUMULATION"; q; v; vc; x; xc] -> Accumulation (qc_of_string q, a v vc, a x xc)
          | ["SPLIT"; r] -> Split (qc_of_string r)
          | ["UNSPLIT"; r] -> Unsplit (qc_of_string r)
          | _ -> failwith ("bad ftx: " ^ line)) in
        ftx := { ft_date = { dy = z_of_string y; dm = z_of_string m; dd = z_of_string d }; ft_tick = coq_of_string tick; ft_op = o } :: !ftx
    | ["RUN"; "validate"] ->
        let ops = List.map (fun (t : qc txn) -> t.t_op) (List.rev !txs) in
        let ls = error_lines (S O) ops in
        Printf.printf "{\"id\":%s,\"is_valid\":%b,\"error_lines\":[%s]}\n" (js !id) (not (has_errors ops))
          (String.concat "," (List.map (fun n -> string_of_int (int_of_nat n)) ls))
    | ["RUN"; "fx_convert"] ->
        (match ledger_to_gbp !fxc (List.rev !ftx) with
         | Inl (MissingFx (c, y, m)) -> Printf.printf "{\"id\":%s,\"ok\":false,\"cur\":%s,\"year\":%s,\"month\":%s}\n" (js !id) (js (string_of_text c)) (string_of_z y) (string_of_z m)
         | Inr gs -> Printf.printf "{\"id\":%s,\"ok\":true,\"ops\":%s}\n" (js !id) (jlist (fun (g : qc txn) -> jop g.t_op) gs))
    | ["RF"; mtime; ny; nm; py; pm] ->
        (* a rate file closes the RR lines written before it; "-" marks an unreadable name / period *)
        let ym a b = if a = "-" then None else Some (z_of_string a, z_of_string b) in
        rfiles := { f_mtime = z_of_string mtime; f_name_ym = ym ny nm; f_period_ym = ym py pm; f_rates = List.rev !cur_rates } :: !rfiles;
        cur_rates := []
    | ["RR"; c; r] -> cur_rates := (text_of_string c, qc_of_string r) :: !cur_rates
    | "RUN" :: "fx_load" :: queries ->
        (match load_with_overrides !fxc (List.rev !rfiles) with
         | Inl e -> Printf.printf "{\"id\":%s,\"ok\":false,\"why\":%s}\n" (js !id) (js (loaderr_s e))
         | Inr c ->
            let ans = List.map (fun q -> match String.split_on_char ':' q with
              | [cc; y; m] -> (match lookup c ((text_of_string cc, z_of_string y), z_of_string m) with Some r -> jq r | None -> "null")
              | _ -> "null") queries in
            Printf.printf "{\"id\":%s,\"ok\":true,\"rates\":[%s]}\n" (js !id) (String.concat "," ans))
    | ["ROW"; a; d; sy; de; q; p; f; am] ->
        rows := { r_action = opt_field a; r_date = opt_field d; r_symbol = opt_field sy; r_desc = opt_field de;
                  r_qty = opt_field q; r_price = opt_field p; r_fees = opt_field f; r_amount = opt_field am } :: !rows
    | ["AWARDS"] -> awards := Some []
    | ["AD"; fp; vd; vf] -> cur_details := { a_fmv_price = opt_field fp; a_vest_date = opt_field vd; a_vest_fmv = opt_field vf } :: !cur_details
    | ["AW"; d; a; sy] ->
        (* an award record closes the AD lines written before it *)
        let aw = { aw_date = req_field d; aw_action = opt_field a; aw_symbol = req_field sy; aw_details = List.rev !cur_details } in
        cur_details := [];
        awards := Some (aw :: (match !awards with Some l -> l | None -> []))
    | ["RUN"; "schwab"] ->
        (match convert lookback0 (List.rev !rows) (match !awards with Some l -> Some (List.rev l) | None -> None) with
         | Err e -> Printf.printf "{\"id\":%s,\"ok\":false,\"kind\":%s}\n" (js !id) (js (serr_s e))
         | Ok o -> Printf.printf "{\"id\":%s,\"ok\":true,\"lines_hex\":%s,\"warnings\":%d,\"skipped\":%d}\n" (js !id)
                     (jlist (fun l -> js (hex (string_of_text l))) o.o_lines) (int_of_nat o.o_warnings) (int_of_nat o.o_skipped))
    | ["RUN"; "fmt"; kind; arg] ->
        (* one display function applied to one value; result as hex text *)
        let out = (match kind with
          | "gbp" -> string_of_text (format_gbp (qc_of_string arg))
          | "jsonmoney" -> string_of_qc (json_money (qc_of_string arg))
          | "trim" -> string_of_text (trim_decimal (text_of_string arg))
          | "taxyear" -> string_of_text (format_tax_year (z_of_string arg))
          | "date" -> (match String.split_on_char '-' arg with
                       | [y; m; d] -> string_of_text (format_date { dy = z_of_string y; dm = z_of_string m; dd = z_of_string d })
                       | _ -> failwith "date")
          | "readgbp" -> (match read_pence (text_of_string (unhex arg)) with
                          | Some (neg, p) -> (if neg then "-" else "") ^ string_of_z (match p with N0 -> Z0 | Npos q -> Zpos q)
                          | None -> "none")
          | _ -> failwith ("fmt kind " ^ kind)) in
        Printf.printf "{\"id\":%s,\"out_hex\":%s}\n" (js !id) (js (hex out))
    | "CUR" :: codes -> List.iter (fun c -> Hashtbl.replace currencies c ()) codes
    | ["RUN"; "dsl_parse"; h] ->
        (match parse valid_cur (text_of_string (unhex (String.sub h 1 (String.length h - 1)))) with
         | Inl (n, e) -> let rec ni = function O -> 0 | S k -> 1 + ni k in
             Printf.printf "{\"id\":%s,\"ok\":false,\"line\":%d,\"why\":%s}\n" (js !id) (ni n) (js (perr_s e))
         | Inr ts -> Printf.printf "{\"id\":%s,\"ok\":true,\"txns\":%s,\"printed_hex\":%s}\n" (js !id)
             (jlist (fun t -> js (string_of_text (show_txn t))) ts) (js (hex (string_of_text (print_txns ts)))))
    | "DTX" :: y :: m :: d :: tick :: rest ->
        let date = { dy = z_of_string y; dm = z_of_string m; dd = z_of_string d } in
        let o = (match rest with
          | ["BUY"; qm; qs; vm; vs; vc; xm; xs; xc] -> DBuy (mk_dec qm qs, mk_money vm vs vc, mk_money xm xs xc)
          | ["SELL"; qm; qs; vm; vs; vc; xm; xs; xc] -> DSell (mk_dec qm qs, mk_money vm vs vc, mk_money xm xs xc)
          | ["DIVIDEND"; vm; vs; vc; xm; xs; xc] -> DDividend (mk_money vm vs vc, mk_money xm xs xc)
          | ["ACCUMULATION"; qm; qs; vm; vs; vc; xm; xs; xc] -> DAccumulation (mk_dec qm qs, mk_money vm vs vc, mk_money xm xs xc)
          | ["CAPRETURN"; qm; qs; vm; vs; vc; xm; xs; xc] -> DCapReturn (mk_dec qm qs, mk_money vm vs vc, mk_money xm xs xc)
          | ["SPLIT"; qm; qs] -> DSplit (mk_dec qm qs)
          | ["UNSPLIT"; qm; qs] -> DUnsplit (mk_dec qm qs)
          | _ -> failwith ("bad dtx: " ^ line)) in
        dtx := { x_date = date; x_tick = text_of_string tick; x_op = o } :: !dtx
    | ["RUN"; "dsl_print"] ->
        let ts = List.rev !dtx in
        let printed = print_txns ts in
        let back = parse valid_cur printed in
        Printf.printf "{\"id\":%s,\"orig\":%s,\"norm\":%s,\"printed_hex\":%s,\"back\":%s}\n" (js !id)
          (jlist (fun t -> js (string_of_text (show_txn t))) ts)
          (jlist (fun t -> js (string_of_text (show_txn (norm_txn t)))) ts)
          (js (hex (string_of_text printed)))
          (match back with
           | Inl (n, e) -> let rec ni = function O -> 0 | S k -> 1 + ni k in Printf.sprintf "{\"ok\":false,\"line\":%d,\"why\":%s}" (ni n) (js (perr_s e))
           | Inr b -> Printf.sprintf "{\"ok\":true,\"txns\":%s,\"printed_again_hex\":%s}" (jlist (fun t -> js (string_of_text (show_txn t))) b) (js (hex (string_of_text (print_txns b)))))
    | ["RUN"; "json_write"] ->
        (* the tree the JSON serialiser writes for the DTX transactions, as JSON text with hex-coded strings *)
        let rec jtxt = function
          | JStr s -> js (hex (string_of_text s))
          | JObj fs -> "{" ^ String.concat "," (List.map (fun (k, v) -> js (hex (string_of_text k)) ^ ":" ^ jtxt v) fs) ^ "}"
          | JOther -> "null" in
        Printf.printf "{\"id\":%s,\"trees\":%s}\n" (js !id) (jlist (fun t -> jtxt (to_json t)) (List.rev !dtx))
    | "RUN" :: "json_read" :: toks ->
        (* tokens: L<n> then n values; value = S<hex> | X | O<n> followed by n pairs K<hex> value *)
        let toks = ref toks in
        let next () = match !toks with t :: r -> toks := r; t | [] -> failwith "json_read: short" in
        let body t = String.sub t 1 (String.length t - 1) in
        let rec value () =
          let t = next () in
          match t.[0] with
          | 'S' -> JStr (text_of_string (unhex (body t)))
          | 'X' -> JOther
          | 'O' -> let n = int_of_string (body t) in
                   let rec fields k = if k = 0 then [] else
                     let kt = next () in let key = text_of_string (unhex (body kt)) in
                     let v = value () in (key, v) :: fields (k - 1) in
                   JObj (fields n)
          | _ -> failwith ("json_read token " ^ t) in
        let n = int_of_string (body (next ())) in
        let rec vals k = if k = 0 then [] else let v = value () in v :: vals (k - 1) in
        let js_ = vals n in
        (match read_txns valid_cur js_ with
         | JOk ts -> Printf.printf "{\"id\":%s,\"res\":\"ok\",\"txns\":%s}\n" (js !id) (jlist (fun t -> js (string_of_text (show_txn t))) ts)
         | JReject -> Printf.printf "{\"id\":%s,\"res\":\"reject\"}\n" (js !id)
         | JUnmodelled -> Printf.printf "{\"id\":%s,\"res\":\"unmodelled\"}\n" (js !id))
    | ["FR"; p; c] -> fr := (unhex (String.sub p 1 (String.length p - 1)), unhex (String.sub c 1 (String.length c - 1))) :: !fr
    | ["FE"; p] -> fe := unhex (String.sub p 1 (String.length p - 1)) :: !fe
    | ["FNW"; p] -> fnw := unhex (String.sub p 1 (String.length p - 1)) :: !fnw
    | ["PT"; c; ok] -> pt := (unhex (String.sub c 1 (String.length c - 1)), ok = "1") :: !pt
    | "OR" :: kvs -> orc := List.map (fun kv -> match String.index_opt kv '=' with
                                        | Some i -> (String.sub kv 0 i, String.sub kv (i + 1) (String.length kv - i - 1))
                                        | None -> (kv, "")) kvs
    | "RUN" :: (("cli_report" | "cli_parse" | "cli_convert") as which) :: cargs ->
        (* the command layer on a described file system with described outcomes of the computations *)
        let hx f = if f = "-" then None else Some (text_of_string (unhex (String.sub f 1 (String.length f - 1)))) in
        let flag k = (try List.assoc k !orc = "1" with Not_found -> false) in
        let txt k = (try hx (List.assoc k !orc) with Not_found -> None) in
        let unknown = ref [] in
        let fs = { f_read = (fun p -> try Some (text_of_string (List.assoc (string_of_text p) !fr)) with Not_found -> None);
                   f_exists = (fun p -> List.mem (string_of_text p) !fe);
                   f_can_write = (fun p -> not (List.mem (string_of_text p) !fnw)) } in
        let parse c = (match List.assoc_opt (string_of_text c) !pt with
                       | Some true -> Some () | Some false -> None
                       | None -> unknown := hex (string_of_text c) :: !unknown; None) in
        let files f = if f = "-" then [] else List.map (fun h -> text_of_string (unhex (String.sub h 1 (String.length h - 1)))) (String.split_on_char ',' f) in
        let (effs, st) = (match which, cargs with
          | "cli_report", [f; y; fm; o; fx] ->
              report_cmd parse (fun _ -> if flag "fx" then Some () else None) (if flag "cfg" then Some () else None)
                (fun () _ () () -> if flag "calc" then Some () else None)
                (fun () -> txt "plain") (fun () -> txt "json") (fun () -> txt "pdf")
                fs (files f) (if y = "-" then None else Some (n_of_z (z_of_string y)))
                (match fm with "plain" -> Plain | "json" -> Json | _ -> Pdf) (hx o) (hx fx)
          | "cli_parse", [f; sc] -> parse_cmd parse (fun () -> txt "tojson") (txt "schema") fs (files f) (sc = "1")
          | "cli_convert", [e; a; o] ->
              convert_cmd (fun _ _ -> txt "conv") fs (match hx e with Some t -> t | None -> []) (hx a) (hx o)
          | _ -> failwith ("bad cli line: " ^ line)) in
        let je = function
          | Out b -> Printf.sprintf "{\"out\":%s}" (js (hex (string_of_text b)))
          | Write (p, b) -> Printf.sprintf "{\"write\":%s,\"bytes\":%s}" (js (hex (string_of_text p))) (js (hex (string_of_text b))) in
        Printf.printf "{\"id\":%s,\"ok\":%b,\"effects\":%s,\"unknown_content\":%s}\n" (js !id) (st = Exit0) (jlist je effs) (jlist js !unknown)
    | ["MD"; c; n] -> md := (unhex (String.sub c 1 (String.length c - 1)), int_of_string n) :: !md
    | ["MJ"; c; n] -> mj := (unhex (String.sub c 1 (String.length c - 1)), int_of_string n) :: !mj
    | ["MC"; y; ok] -> mc := (y, ok = "1") :: !mc
    | ["MDS"; ya; y; m; d; tk] -> mds := (ya, ({ dy = z_of_string y; dm = z_of_string m; dd = z_of_string d }, text_of_string (unhex (String.sub tk 1 (String.length tk - 1))))) :: !mds
    | "RUN" :: "mcp_tool" :: which :: targs ->
        (* the MCP tool layer on described outcomes of the readers and the calculator: MD/MJ give the number of transactions the DSL / JSON
           reader finds in a text (-1: refused), MC whether calculate succeeds for a year argument, MDS the disposals its report lists *)
        let hx f = text_of_string (unhex (String.sub f 1 (String.length f - 1))) in
        let unknown = ref [] in
        let look tbl tag c = (match List.assoc_opt (string_of_text c) !tbl with
                              | Some n when n >= 0 -> Some (tag, n) | Some _ -> None
                              | None -> unknown := hex (string_of_text c) :: !unknown; None) in
        let pd = look md "dsl" and pj = look mj "json" in
        let ykey = function None -> "-" | Some z -> string_of_z z in
        let calc _ y = (match List.assoc_opt (ykey y) !mc with Some true -> Some (ykey y) | Some false -> None | None -> unknown := ("year:" ^ ykey y) :: !unknown; None) in
        let disps ya = List.rev (List.filter_map (fun (k, v) -> if k = ya then Some v else None) !mds) in
        let out = (match which, targs with
          | "parse", [t] -> (match parse_input pd pj (hx t) with
                             | TOk (tag, n) -> Printf.sprintf "\"res\":\"ok\",\"reader\":%s,\"count\":%d" (js tag) n
                             | TErr -> "\"res\":\"err\"" | TUnmodelled -> "\"res\":\"unmodelled\"")
          | "calc", [t; y] -> (match calculate_tool pd pj (fun (_, n) -> n = 0) calc (hx t) (if y = "-" then None else Some (z_of_string y)) with
                               | TOk ya -> Printf.sprintf "\"res\":\"ok\",\"year_arg\":%s" (js ya)
                               | TErr -> "\"res\":\"err\"" | TUnmodelled -> "\"res\":\"unmodelled\"")
          | "explain", [t; d; tk] -> (match explain_tool pd pj (fun (_, n) -> n = 0) calc disps fst snd (hx t) (hx d) (hx tk) with
                               | TOk (dt, tick) -> Printf.sprintf "\"res\":\"ok\",\"date\":\"%s-%s-%s\",\"tick\":%s" (string_of_z dt.dy) (string_of_z dt.dm) (string_of_z dt.dd) (js (hex (string_of_text tick)))
                               | TErr -> "\"res\":\"err\"" | TUnmodelled -> "\"res\":\"unmodelled\"")
          | _ -> failwith ("bad mcp_tool line: " ^ line)) in
        Printf.printf "{\"id\":%s,%s,\"unknown\":%s}\n" (js !id) out (jlist js !unknown)
    | ["X"; y; v] -> exs := (z_of_string y, q v) :: !exs
    | ["Y"; y] -> yf := Some (z_of_string y)
    | "T" :: d :: tick :: rest ->
        let o = (match rest with
          | ["BUY"; a; p; f] -> Buy (q a, q p, q f)
          | ["SELL"; a; p; f] -> Sell (q a, q p, q f)
          | ["DIV"; v; x] -> Dividend (q v, q x)
          | ["CAP"; a; v; f] -> CapReturn (q a, q v, q f)
          | ["ACC"; a; v; x] -> Accumulation (q a, q v, q x)
          | ["SPLIT"; r] -> Split (q r)
          | ["UNSPLIT"; r] -> Unsplit (q r)
          | _ -> failwith ("bad op: " ^ line)) in
        txs := { t_date = z_of_string d; t_tick = coq_of_string tick; t_op = o } :: !txs
    | ["RUN"; "report"] ->
        (match report_of p0 (List.rev !exs) !yf (List.rev !txs) with
         | Inl es -> Printf.printf "{\"id\":%s,\"ok\":false,\"errors\":%s}\n" (js !id) (jlist jrerr es)
         | Inr r -> Printf.printf "{\"id\":%s,\"ok\":true,\"years\":%s,\"holdings\":%s}\n" (js !id) (jlist jyear r.r_years) (jlist jhold r.r_holdings))
    | ["RUN"; "pipeline"; h] ->
        (* from the ledger's text to its report in one call of the extracted model: reader, decimals, rates (FX lines), matcher, summaries *)
        let text = text_of_string (unhex (String.sub h 1 (String.length h - 1))) in
        (match pipeline valid_cur !fxc (List.rev !exs) !yf text with
         | Inl (PParse (n, e)) -> Printf.printf "{\"id\":%s,\"ok\":false,\"stage\":\"parse\",\"line\":%d,\"why\":%s}\n" (js !id) (int_of_nat n) (js (perr_s e))
         | Inl (PFx (MissingFx (c, y, m))) -> Printf.printf "{\"id\":%s,\"ok\":false,\"stage\":\"fx\",\"cur\":%s,\"year\":%s,\"month\":%s}\n" (js !id) (js (string_of_text c)) (string_of_z y) (string_of_z m)
         | Inl (PCalc es) -> Printf.printf "{\"id\":%s,\"ok\":false,\"stage\":\"calc\",\"errors\":%s}\n" (js !id) (jlist jrerr es)
         | Inr r -> Printf.printf "{\"id\":%s,\"ok\":true,\"years\":%s,\"holdings\":%s}\n" (js !id) (jlist jyear r.r_years) (jlist jhold r.r_holdings))
    | ["RUN"; "dates"; lo; hi] ->
        (* for every day number in [lo,hi]: civil date, validity, round trip, tax year *)
        let lo = int_of_string lo and hi = int_of_string hi in
        for n = lo to hi do
          let z = z_of_int n in
          let c = civil_of_days z in
          Printf.printf "%d %s %s %s %b %s %s\n" n (string_of_z c.dy) (string_of_z c.dm) (string_of_z c.dd)
            (valid_date c) (string_of_z (days_of_civil c))
            (match tax_year_of_days p0 z with Some y -> string_of_z y | None -> "-")
        done
    | [] | [""] -> ()
    | _ -> failwith ("bad line: " ^ line)
  done with End_of_file -> ())
