//! PDF side of the correspondence harness (kept apart: Typst is a heavy dependency).
//! Reads JSON cases {"id","dsl"} and prints the text runs of the compiled PDF document obtained
//! through the verif-hooks feature of cgt-formatter-pdf, grouped into visual lines.
use cgt_core::Config;
use cgt_core::calculator::calculate;
use cgt_core::parser::parse_file;
use serde_json::{Value, json};
use std::io::{BufRead, Write};
use std::panic::{AssertUnwindSafe, catch_unwind};

fn run(case: &Value, fx: &cgt_money::FxCache) -> Value {
    let dsl = case.get("dsl").and_then(|v| v.as_str()).unwrap_or("");
    let txs = match parse_file(dsl) {
        Ok(t) => t,
        Err(e) => return json!({"ok": false, "stage": "parse", "error": e.to_string()}),
    };
    let cfg = match Config::embedded() {
        Ok(c) => c,
        Err(e) => return json!({"ok": false, "stage": "config", "error": e.to_string()}),
    };
    let report = match calculate(&txs, None, Some(fx), &cfg) {
        Ok(r) => r,
        Err(e) => return json!({"ok": false, "stage": "calculate", "error": e.to_string()}),
    };
    match cgt_formatter_pdf::verif_text_runs(&report) {
        Ok(mut runs) => {
            let frame_order: Vec<String> = runs.iter().map(|r| r.3.clone()).collect();
            // group runs into lines: same page, y within half a point; order by x
            runs.sort_by(|a, b| {
                a.0.cmp(&b.0)
                    .then(a.1.partial_cmp(&b.1).unwrap_or(std::cmp::Ordering::Equal))
                    .then(a.2.partial_cmp(&b.2).unwrap_or(std::cmp::Ordering::Equal))
            });
            let mut lines: Vec<(usize, f64, Vec<(f64, String)>)> = Vec::new();
            for (p, y, x, t) in runs {
                match lines.last_mut() {
                    Some(l) if l.0 == p && (l.1 - y).abs() < 0.5 => l.2.push((x, t)),
                    _ => lines.push((p, y, vec![(x, t)])),
                }
            }
            let out: Vec<Value> = lines
                .into_iter()
                .map(|(p, _, mut cells)| {
                    cells.sort_by(|a, b| a.0.partial_cmp(&b.0).unwrap_or(std::cmp::Ordering::Equal));
                    json!({"page": p, "cells": cells.into_iter().map(|c| c.1).collect::<Vec<_>>()})
                })
                .collect();
            let pdf_ok = cgt_formatter_pdf::format(&report).map(|b| b.len()).unwrap_or(0);
            json!({"ok": true, "lines": out, "runs": frame_order, "pdf_bytes": pdf_ok})
        }
        Err(e) => json!({"ok": false, "stage": "pdf", "error": e.to_string()}),
    }
}

fn main() {
    std::panic::set_hook(Box::new(|_| {}));
    let fx = cgt_money::load_default_cache().unwrap_or_default();
    let stdin = std::io::stdin();
    let mut out = std::io::stdout().lock();
    for line in stdin.lock().lines() {
        let Ok(line) = line else { break };
        if line.trim().is_empty() {
            continue;
        }
        let case: Value = serde_json::from_str(&line).unwrap_or(Value::Null);
        let id = case.get("id").cloned().unwrap_or(Value::Null);
        let mut v = match catch_unwind(AssertUnwindSafe(|| run(&case, &fx))) {
            Ok(v) => v,
            Err(_) => json!({"ok": false, "stage": "panic", "error": "panic"}),
        };
        v["id"] = id;
        let _ = writeln!(out, "{}", v);
    }
}
