(* C07 - Tax years.  Statements only. *)
From Coq Require Import QArith Qcanon ZArith List Bool String.
Require Import CGT.Model.Num CGT.Model.Date CGT.Model.Ledger CGT.Model.Match CGT.Model.Agg CGT.Model.Report CGT.Model.Config
               CGT.Proofs.DateFacts CGT.Proofs.SliceFacts CGT.Proofs.SortFacts.
Import ListNotations.
Open Scope Z_scope.

(* For every day number from 1899-01-01 to 2101-12-31 (complete sweep of the finite range):
   the civil date is valid and round-trips, and the tax year Y satisfies
   6 April Y <= day <= 5 April Y+1 with 1900 <= Y <= 2100; no tax year exactly outside that span. *)
Theorem C07_boundaries_sweep : forall z, 693231 <= z < 693231 + 74144 -> day_ok z = true.
Proof. exact day_ok_range. Qed.

(* For every Y from 1900 to 2100 and every day in that range: the year filter's test "6 April Y <= day <= 5 April Y+1"
   holds exactly when TaxPeriod::from_date assigns the day to tax year Y (so every such day lies in exactly one year). *)
Theorem C07_boundaries : forall y z, 1900 <= y <= 2100 -> 693231 <= z < 693231 + 74144 ->
  ((days_of_civil {| dy := y; dm := 4; dd := 6 |} <=? z) && (z <=? days_of_civil {| dy := y + 1; dm := 4; dd := 5 |}))
  = match tax_year_of_gen 4 6 1900 2100 (civil_of_days z) with Some y' => y' =? y | None => false end.
Proof. exact range_is_year. Qed.

(* the constants regenerated from the source are the 6 April / 5 April / 1900..2100 of the property *)
Theorem C07_constants : p_bm P0 = 4 /\ p_bd P0 = 6 /\ p_em P0 = 4 /\ p_ed P0 = 5 /\ p_ymin P0 = 1900 /\ p_ymax P0 = 2100.
Proof. repeat split; reflexivity. Qed.

(* A report restricted to year Y is the slice of the all-years report: same holdings (they reflect the whole history),
   exactly one summary, equal to the summary the all-years report has for Y when Y has disposals, and empty of disposals
   otherwise; both are computed from the same full-history disposal list. *)
Theorem C07_filter_is_slice : forall cfg l y r_all r_y, 1900 <= y <= 2100 ->
  dated_in_sweep (sort_disposals (sec_disposals P0 (eval_all P0 l))) ->
  report_of P0 cfg None l = inr r_all -> report_of P0 cfg (Some y) l = inr r_y ->
  let ds := sort_disposals (sec_disposals P0 (eval_all P0 l)) in
  r_holdings r_y = r_holdings r_all /\
  r_years r_y = [ysum_for P0 cfg l ds y] /\
  (In y (years_of P0 ds) -> In (ysum_for P0 cfg l ds y) (r_years r_all)) /\
  (~ In y (years_of P0 ds) -> y_disposals (ysum_for P0 cfg l ds y) = []).
Proof. exact filter_is_slice. Qed.

(* tax years are listed in strictly ascending order *)
Theorem C07_years_ascending : forall l, Sorted.StronglySorted (fun a b => a < b) (sort_uniq Z.compare l).
Proof. exact sort_dates_sorted. Qed.

Print Assumptions C07_boundaries_sweep.
Print Assumptions C07_boundaries.
Print Assumptions C07_constants.
Print Assumptions C07_filter_is_slice.
Print Assumptions C07_years_ascending.
