(* C07 - Tax years.  Statements only. *)
From Coq Require Import ZArith List Bool.
Require Import CGT.Model.Date CGT.Proofs.DateFacts.
Open Scope Z_scope.

(* For every day number from 1899-01-01 to 2101-12-31 (complete sweep of the finite range):
   the civil date is valid and round-trips, and the tax year Y satisfies
   6 April Y <= day <= 5 April Y+1 with 1900 <= Y <= 2100; no tax year exactly outside that span. *)
Theorem C07_boundaries_sweep : forall z, 693231 <= z < 693231 + 74144 -> day_ok z = true.
Proof. exact day_ok_range. Qed.
Print Assumptions C07_boundaries_sweep.
