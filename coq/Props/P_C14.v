(* C14 - Transactions survive DSL and JSON round trips.  Statements only. *)
From Coq Require Import ZArith NArith List Bool Ascii String Lia.
Require Import CGT.Model.Date CGT.Model.Dsl CGT.Proofs.DslFacts CGT.Proofs.DecFacts CGT.Proofs.DslRound.
Import ListNotations.
Open Scope N_scope.

(* For EVERY decimal the decimal type holds (mantissa < 2^96, scale <= 28 - all 2^96 x 29 of them):
   reading the text print_dec wrote, followed by anything that is not a digit or a point, yields the same
   mantissa and the same scale (trailing zeros preserved). *)
Theorem C14_dec_roundtrip : forall d rest, dec_ok d = true -> stops rest ->
  exists ip fp, lex_decimal (print_dec d ++ rest) = Some (ip, fp, rest) /\ parse_dec ip fp = DOk d.
Proof. exact lex_print_dec. Qed.

(* Writing is insensitive to exactly what a round trip may change (the currency label of a zero fee or
   tax), and that normalisation is idempotent: hence writing the read-back list gives the same text. *)
Theorem C14_print_ignores_zero_label : forall ts, print_txns (map norm_txn ts) = print_txns ts.
Proof. exact print_txns_norm. Qed.
Theorem C14_norm_idempotent : forall t, norm_txn (norm_txn t) = norm_txn t.
Proof. exact norm_txn_idem. Qed.

Example C14_witness_max : dec_ok {| d_mant := 79228162514264337593543950335; d_scale := 28 |} = true /\
  print_dec {| d_mant := 79228162514264337593543950335; d_scale := 28 |} = T "7.9228162514264337593543950335".
Proof. split; vm_compute; reflexivity. Qed.
Example C14_witness_zeros : print_dec {| d_mant := 1500; d_scale := 3 |} = T "1.500" /\ print_dec {| d_mant := 0; d_scale := 2 |} = T "0.00".
Proof. split; vm_compute; reflexivity. Qed.

Print Assumptions C14_dec_roundtrip.
Print Assumptions C14_print_ignores_zero_label.
Print Assumptions C14_norm_idempotent.

(* The whole DSL round trip, for transaction lists of any length: every transaction the code can hold and write
   (valid date in years 0..9999, non-empty upper-case alphanumeric ticker, decimals within 96 bits and 28 places,
   three-letter upper-case currency codes the table accepts - TAX and BUY are keywords, not codes) is read back from
   the written text exactly, except that a zero fee or tax, which the writer omits, comes back as zero GBP. *)
Theorem C14_dsl_roundtrip : forall (valid_cur : text -> bool) (ts : list dtxn),
  Forall (wf_txn valid_cur) ts -> parse valid_cur (print_txns ts) = inr (map norm_txn ts).
Proof. exact parse_print. Qed.
Print Assumptions C14_dsl_roundtrip.

(* one line at a time: nothing about a line depends on its neighbours *)
Theorem C14_line_roundtrip : forall (valid_cur : text -> bool) (t : dtxn),
  wf_txn valid_cur t -> parse_line valid_cur (print_txn t) = LTx (norm_txn t) None.
Proof. exact parse_line_print. Qed.
Print Assumptions C14_line_roundtrip.

(* non-vacuity: a purchase in a foreign currency with a fee, a dividend without tax and a split are well-formed, and are read back *)
Definition c14_usd : text := T "USD".
Definition c14_ex : list dtxn :=
  [ {| x_date := {| dy := 2024; dm := 2; dd := 29 |}; x_tick := T "BRK9";
       x_op := DBuy {| d_mant := 1500; d_scale := 3 |} {| m_amt := {| d_mant := 12345; d_scale := 2 |}; m_cur := c14_usd |}
                    {| m_amt := {| d_mant := 5; d_scale := 1 |}; m_cur := GBP |} |};
    {| x_date := {| dy := 2024; dm := 12; dd := 31 |}; x_tick := T "X";
       x_op := DDividend {| m_amt := {| d_mant := 100; d_scale := 0 |}; m_cur := GBP |} {| m_amt := {| d_mant := 0; d_scale := 2 |}; m_cur := c14_usd |} |};
    {| x_date := {| dy := 2025; dm := 1; dd := 1 |}; x_tick := T "X"; x_op := DSplit {| d_mant := 25; d_scale := 1 |} |} ].
Example C14_roundtrip_applies : Forall (wf_txn (fun _ => true)) c14_ex /\
  parse (fun _ => true) (print_txns c14_ex) = inr (map norm_txn c14_ex) /\ map norm_txn c14_ex <> c14_ex.
Proof.
  assert (Hc : forall a b e, is_upper a = true -> is_upper b = true -> is_upper e = true -> [a; b; e] <> KW_TAX -> [a; b; e] <> KW_BUY ->
               wf_cur (fun _ => true) [a; b; e]).
  { intros a b e Ha Hb He H1 H2. exists a, b, e. repeat split; assumption. }
  assert (Husd : wf_cur (fun _ => true) c14_usd) by (apply Hc; try reflexivity; discriminate).
  assert (Hgbp : wf_cur (fun _ => true) GBP) by (apply Hc; try reflexivity; discriminate).
  split; [|split; [vm_compute; reflexivity|discriminate]].
  repeat constructor; try reflexivity; try discriminate; cbn; try lia; assumption.
Qed.
