(* C14 - Transactions survive DSL and JSON round trips.  Statements only. *)
From Coq Require Import ZArith NArith List Bool Ascii String Lia.
Require Import CGT.Model.Date CGT.Model.Dsl CGT.Model.Json CGT.Proofs.DslFacts CGT.Proofs.DecFacts CGT.Proofs.DslRound CGT.Proofs.JsonRound CGT.Generated.JsonSchema.
Require Import CGT.Model.Ledger CGT.Model.Report CGT.Model.Fx CGT.Model.Pipeline CGT.Proofs.PipelineFacts.
Import ListNotations.
Open Scope N_scope.

(* For EVERY decimal the decimal type holds (mantissa < 2^96, scale <= 28 - all 2^96 x 29 of them):
   reading the text print_dec wrote, followed by anything that is not a digit or a point, yields the same
   mantissa and the same scale (trailing zeros preserved). *)
Theorem C14_dec_roundtrip : forall d rest, dec_ok d = true -> stops rest ->
  exists ip fp, lex_decimal (print_dec d ++ rest) = Some (ip, fp, rest) /\ parse_dec ip fp = DOk d.
Proof. exact lex_print_dec. Qed.

(* Writing is insensitive to exactly what a round trip may change (the currency label of a zero fee or
   tax), and that normalisation is idempotent: hence writing the read-back list gives the same text. *)
Theorem C14_print_ignores_zero_label : forall ts, print_txns (map norm_txn ts) = print_txns ts.
Proof. exact print_txns_norm. Qed.
Theorem C14_norm_idempotent : forall t, norm_txn (norm_txn t) = norm_txn t.
Proof. exact norm_txn_idem. Qed.

Example C14_witness_max : dec_ok {| d_mant := 79228162514264337593543950335; d_scale := 28 |} = true /\
  print_dec {| d_mant := 79228162514264337593543950335; d_scale := 28 |} = T "7.9228162514264337593543950335".
Proof. split; vm_compute; reflexivity. Qed.
Example C14_witness_zeros : print_dec {| d_mant := 1500; d_scale := 3 |} = T "1.500" /\ print_dec {| d_mant := 0; d_scale := 2 |} = T "0.00".
Proof. split; vm_compute; reflexivity. Qed.

Print Assumptions C14_dec_roundtrip.
Print Assumptions C14_print_ignores_zero_label.
Print Assumptions C14_norm_idempotent.

(* The whole DSL round trip, for transaction lists of any length: every transaction the code can hold and write
   (valid date in years 0..9999, non-empty upper-case alphanumeric ticker, decimals within 96 bits and 28 places,
   three-letter upper-case currency codes the table accepts - TAX and BUY are keywords, not codes) is read back from
   the written text exactly, except that a zero fee or tax, which the writer omits, comes back as zero GBP. *)
Theorem C14_dsl_roundtrip : forall (valid_cur : text -> bool) (ts : list dtxn),
  Forall (wf_txn valid_cur) ts -> parse valid_cur (print_txns ts) = inr (map norm_txn ts).
Proof. exact parse_print. Qed.
Print Assumptions C14_dsl_roundtrip.

(* one line at a time: nothing about a line depends on its neighbours *)
Theorem C14_line_roundtrip : forall (valid_cur : text -> bool) (t : dtxn),
  wf_txn valid_cur t -> parse_line valid_cur (print_txn t) = LTx (norm_txn t) None.
Proof. exact parse_line_print. Qed.
Print Assumptions C14_line_roundtrip.

(* non-vacuity: a purchase in a foreign currency with a fee, a dividend without tax and a split are well-formed, and are read back *)
Definition c14_usd : text := T "USD".
Definition c14_ex : list dtxn :=
  [ {| x_date := {| dy := 2024; dm := 2; dd := 29 |}; x_tick := T "BRK9";
       x_op := DBuy {| d_mant := 1500; d_scale := 3 |} {| m_amt := {| d_mant := 12345; d_scale := 2 |}; m_cur := c14_usd |}
                    {| m_amt := {| d_mant := 5; d_scale := 1 |}; m_cur := GBP |} |};
    {| x_date := {| dy := 2024; dm := 12; dd := 31 |}; x_tick := T "X";
       x_op := DDividend {| m_amt := {| d_mant := 100; d_scale := 0 |}; m_cur := GBP |} {| m_amt := {| d_mant := 0; d_scale := 2 |}; m_cur := c14_usd |} |};
    {| x_date := {| dy := 2025; dm := 1; dd := 1 |}; x_tick := T "X"; x_op := DSplit {| d_mant := 25; d_scale := 1 |} |} ].
Example C14_roundtrip_applies : Forall (wf_txn (fun _ => true)) c14_ex /\
  parse (fun _ => true) (print_txns c14_ex) = inr (map norm_txn c14_ex) /\ map norm_txn c14_ex <> c14_ex.
Proof.
  assert (Hc : forall a b e, is_upper a = true -> is_upper b = true -> is_upper e = true -> [a; b; e] <> KW_TAX -> [a; b; e] <> KW_BUY ->
               wf_cur (fun _ => true) [a; b; e]).
  { intros a b e Ha Hb He H1 H2. exists a, b, e. repeat split; assumption. }
  assert (Husd : wf_cur (fun _ => true) c14_usd) by (apply Hc; try reflexivity; discriminate).
  assert (Hgbp : wf_cur (fun _ => true) GBP) by (apply Hc; try reflexivity; discriminate).
  split; [|split; [vm_compute; reflexivity|discriminate]].
  repeat constructor; try reflexivity; try discriminate; cbn; try lia; assumption.
Qed.

(* The JSON round trip, for transaction lists of any length: every transaction with a valid date in years 0..9999, an
   ASCII ticker without lower-case letters, decimals within 96 bits and 28 places, positive quantities and ratios and
   currency codes the table accepts is read back from the tree the serialiser writes EXACTLY - the currency label of a
   zero fee or tax included (the JSON writer always writes the {amount, currency} object).  The tree <-> text layer is
   serde_json's and is outside the model. *)
Theorem C14_json_roundtrip : forall (valid_cur : text -> bool) (ts : list dtxn),
  Forall (jwf_txn valid_cur) ts -> read_txns valid_cur (map to_json ts) = JOk ts.
Proof. exact json_list_roundtrip. Qed.
Print Assumptions C14_json_roundtrip.
Theorem C14_json_one : forall (valid_cur : text -> bool) (t : dtxn), jwf_txn valid_cur t -> read_txn valid_cur (to_json t) = JOk t.
Proof. exact json_roundtrip. Qed.
Print Assumptions C14_json_one.

(* hence the two renderings of one list are read back to the same transactions up to that zero label, so the reports
   computed from them are computed from the same data *)
Theorem C14_dsl_and_json_agree : forall (valid_cur : text -> bool) (ts : list dtxn),
  Forall (wf_txn valid_cur) ts -> Forall (jwf_txn valid_cur) ts ->
  exists back, read_txns valid_cur (map to_json ts) = JOk back /\ parse valid_cur (print_txns ts) = inr (map norm_txn back).
Proof. intros vc ts H1 H2. exists ts. split; [exact (json_list_roundtrip vc ts H2)|exact (parse_print vc ts H1)]. Qed.
Print Assumptions C14_dsl_and_json_agree.

(* non-vacuity: the same three transactions meet the JSON hypotheses too, and the zero dividend tax keeps its USD label *)
Example C14_json_applies : Forall (jwf_txn (fun _ => true)) c14_ex /\ read_txns (fun _ => true) (map to_json c14_ex) = JOk c14_ex.
Proof.
  split; [|vm_compute; reflexivity].
  repeat constructor; try reflexivity; try discriminate; cbn; lia.
Qed.
(* the reader's positivity check is live: a zero quantity is refused *)
Example C14_json_refuses_zero :
  read_txn (fun _ => true) (to_json {| x_date := {| dy := 2024; dm := 2; dd := 29 |}; x_tick := T "X";
     x_op := DBuy dec0 {| m_amt := dec0; m_cur := GBP |} {| m_amt := dec0; m_cur := GBP |} |}) = JReject.
Proof. vm_compute. reflexivity. Qed.

(* The keys of the JSON model are those the serde attributes declare: coq/Generated/JsonSchema.v is rewritten from models.rs and amount.rs
   on every run (the tag, the fields beside the flattened operation, every variant's action name and fields with their #[serde(default)]
   marks, the two keys CurrencyAmount writes).  The comparison is by sets - the order of variants and of fields in the source is immaterial
   to JSON: every variant the source declares is one the model writes and conversely, under the same action name and with the same set of
   keys, and a variant's defaulted keys are exactly the one key the model's reader treats as optional.  A renamed key, a new or dropped
   variant, field or default breaks this theorem. *)
Definition c14_m0 : money := {| m_amt := dec0; m_cur := GBP |}.
Definition c14_ops : list dop :=
  [DBuy dec0 c14_m0 c14_m0; DSell dec0 c14_m0 c14_m0; DDividend c14_m0 c14_m0; DAccumulation dec0 c14_m0 c14_m0;
   DCapReturn dec0 c14_m0 c14_m0; DSplit dec0; DUnsplit dec0].
Definition subset (a b : list text) : bool := forallb (fun k => existsb (teqb k) b) a.
Definition same_set (a b : list text) : bool := subset a b && subset b a.
Definition model_action (o : dop) : text := match jlookup K_ACTION (j_op o) with Some (JStr a) => a | _ => [] end.
Definition model_keys (o : dop) : list text := map fst (j_op o).
Definition model_optional (o : dop) : list text := if has_optional o then [last (model_keys o) []] else [].
Definition declared_keys (e : string * list (string * bool)) : list text := T g_json_tag :: map (fun f => T (fst f)) (snd e).
Definition declared_optional (e : string * list (string * bool)) : list text := map (fun f => T (fst f)) (filter snd (snd e)).
Definition variant_matches (o : dop) (e : string * list (string * bool)) : bool :=
  teqb (T (fst e)) (model_action o) && same_set (declared_keys e) (model_keys o) && same_set (declared_optional e) (model_optional o).
Definition schema_agrees : bool :=
  forallb (fun o => existsb (variant_matches o) g_json_ops) c14_ops &&
  forallb (fun e => existsb (fun o => variant_matches o e) c14_ops) g_json_ops &&
  Nat.eqb (List.length g_json_ops) (List.length c14_ops) &&
  same_set (map T g_json_txn_fields) [K_DATE; K_TICKER] && same_set (map T g_json_money_fields) [K_AMOUNT; K_CURRENCY].
Theorem C14_json_schema :
  schema_agrees = true /\
  (forall t, exists rest, to_json t = JObj ((K_DATE, JStr (print_date (x_date t))) :: (K_TICKER, JStr (x_tick t)) :: rest)) /\
  (forall m, exists a c, j_money m = JObj [(K_AMOUNT, a); (K_CURRENCY, c)]).
Proof.
  split; [vm_compute; reflexivity|]. split.
  - intros t. eexists. reflexivity.
  - intros m. eexists. eexists. reflexivity.
Qed.
Print Assumptions C14_json_schema.
(* and the defaults mean what the reader model does with an absent key: the only optional field of a variant is its last, and without it
   the transaction reads back with zero pounds there *)
Theorem C14_json_optional_default : forall (valid_cur : text -> bool) (t : dtxn), jwf_txn valid_cur t -> has_optional (x_op t) = true ->
  read_txn valid_cur (JObj ((K_DATE, JStr (print_date (x_date t))) :: (K_TICKER, JStr (x_tick t)) :: removelast (j_op (x_op t)))) =
  JOk {| x_date := x_date t; x_tick := x_tick t; x_op := without_optional (x_op t) |}.
Proof. exact json_optional_default. Qed.
Print Assumptions C14_json_optional_default.

(* the lenient side of the reader, as the property's mechanism names it: the action's letter case is free (ASCII), CAP_RETURN is CAPRETURN,
   a plain string is an amount in pounds *)
Theorem C14_json_action_case : forall (valid_cur : text -> bool) a a' rest,
  is_ascii_text a = true -> is_ascii_text a' = true -> upper_text a = upper_text a' ->
  read_op valid_cur ((K_ACTION, JStr a) :: rest) = read_op valid_cur ((K_ACTION, JStr a') :: rest).
Proof. exact json_action_case. Qed.
Print Assumptions C14_json_action_case.
Theorem C14_json_cap_return_alias : forall (valid_cur : text -> bool) rest,
  read_op valid_cur ((K_ACTION, JStr A_CAP_RETURN) :: rest) = read_op valid_cur ((K_ACTION, JStr KW_CAPRETURN) :: rest).
Proof. exact json_cap_return_alias. Qed.
Print Assumptions C14_json_cap_return_alias.
Theorem C14_json_plain_string_is_pounds : forall (valid_cur : text -> bool) d, dec_ok d = true ->
  read_money valid_cur (j_dec d) = JOk {| m_amt := d; m_cur := GBP |}.
Proof. exact read_money_plain. Qed.
Print Assumptions C14_json_plain_string_is_pounds.

(* unknown keys are ignored by the reader: a key that is none of its nine, appended to a transaction object that does not already
   have it, changes nothing - whatever value it carries *)
Theorem C14_json_unknown_key_ignored : forall (valid_cur : text -> bool) fs k v,
  unknown_key k = true -> has_key k fs = false -> read_txn valid_cur (JObj (fs ++ [(k, v)])) = read_txn valid_cur (JObj fs).
Proof. exact json_unknown_key_ignored. Qed.
Print Assumptions C14_json_unknown_key_ignored.
Example C14_unknown_key_applies : unknown_key (T "note") = true /\ unknown_key (T "Amount") = true /\ unknown_key (T "amount") = false.
Proof. repeat split; reflexivity. Qed.

(* "Hence a ledger, its DSL rendering and its JSON rendering all produce the same report": in the models, with the whole path from text to report
   (Model/Pipeline.v: reader, exact value of each decimal, conversion to pounds at the monthly rates, matcher, summaries).  For every list of
   well-formed transactions whose own amounts convert (every currency it uses has a rate for the month - a zero fee included), any rates, exemption
   table and year filter: the report read from the DSL rendering is the report of the list, and the list read back from the JSON rendering has that
   same report.  The premise is needed: a zero fee in a currency without a rate stops the list itself while its DSL rendering, which drops the fee,
   goes through - the exception the property's wording makes. *)
Theorem C14_same_report : forall (valid_cur : text -> bool) (rates : cache) (cfg : exemptions) (year : option Z) (ts : list dtxn) (l : list gtxn),
  Forall (wf_txn valid_cur) ts -> Forall (jwf_txn valid_cur) ts -> ledger_to_gbp rates (map fx_of_dtxn ts) = inr l ->
  pipeline valid_cur rates cfg year (print_txns ts) = after_parse rates cfg year ts /\
  (exists back, read_txns valid_cur (map to_json ts) = JOk back /\ after_parse rates cfg year back = after_parse rates cfg year ts).
Proof. exact renderings_same_report. Qed.
Print Assumptions C14_same_report.
