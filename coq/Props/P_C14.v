(* C14 - Transactions survive DSL and JSON round trips.  Statements only. *)
From Coq Require Import ZArith NArith List Bool Ascii String.
Require Import CGT.Model.Date CGT.Model.Dsl CGT.Proofs.DslFacts CGT.Proofs.DecFacts.
Import ListNotations.
Open Scope N_scope.

(* For EVERY decimal the decimal type holds (mantissa < 2^96, scale <= 28 - all 2^96 x 29 of them):
   reading the text print_dec wrote, followed by anything that is not a digit or a point, yields the same
   mantissa and the same scale (trailing zeros preserved). *)
Theorem C14_dec_roundtrip : forall d rest, dec_ok d = true -> stops rest ->
  exists ip fp, lex_decimal (print_dec d ++ rest) = Some (ip, fp, rest) /\ parse_dec ip fp = DOk d.
Proof. exact lex_print_dec. Qed.

(* Writing is insensitive to exactly what a round trip may change (the currency label of a zero fee or
   tax), and that normalisation is idempotent: hence writing the read-back list gives the same text. *)
Theorem C14_print_ignores_zero_label : forall ts, print_txns (map norm_txn ts) = print_txns ts.
Proof. exact print_txns_norm. Qed.
Theorem C14_norm_idempotent : forall t, norm_txn (norm_txn t) = norm_txn t.
Proof. exact norm_txn_idem. Qed.

Example C14_witness_max : dec_ok {| d_mant := 79228162514264337593543950335; d_scale := 28 |} = true /\
  print_dec {| d_mant := 79228162514264337593543950335; d_scale := 28 |} = T "7.9228162514264337593543950335".
Proof. split; vm_compute; reflexivity. Qed.
Example C14_witness_zeros : print_dec {| d_mant := 1500; d_scale := 3 |} = T "1.500" /\ print_dec {| d_mant := 0; d_scale := 2 |} = T "0.00".
Proof. split; vm_compute; reflexivity. Qed.

Print Assumptions C14_dec_roundtrip.
Print Assumptions C14_print_ignores_zero_label.
Print Assumptions C14_norm_idempotent.
