(* C02 - Shares are conserved.  Statements only; proofs live in CGT.Proofs. *)
From Coq Require Import QArith Qcanon ZArith List Bool Sorted.
Require Import CGT.Model.Num CGT.Model.Match CGT.Proofs.MatchFacts CGT.Proofs.MatchInv CGT.Proofs.MatchUse CGT.Proofs.Examples.
Require Import CGT.Model.Ledger CGT.Model.Agg CGT.Model.Report CGT.Model.Validate CGT.Proofs.ReportAdd CGT.Proofs.ValidWf.
From Coq Require Import String.
Open Scope Qc_scope.
Import ListNotations.
Open Scope Qc_scope.

(* The 30-day legs of a look-ahead add up to exactly what it removed from the remainder. *)
Theorem C02_bnb_legs_sum : forall w offs d fut R rem cl,
  legs_qty (b_legs (bnb w offs d fut R rem cl)) = rem - b_rem (bnb w offs d fut R rem cl).
Proof. exact bnb_qty. Qed.

(* For every accepted, well-formed, date-sorted security ledger: the reported disposals are
   exactly the sale days, in order, and the legs of each add up to the quantity sold that day. *)
Theorem C02_legs_sum : forall w ds s, wf_days ds -> sorted_days ds -> run w ds = inr s ->
  Forall2 (fun (x : Z * list leg) (d : day) => fst x = dt d /\ legs_qty (snd x) = sq d)
          (m_disp s) (filter hassell ds).
Proof. exact run_legs_sum. Qed.

(* The closing holding is all acquisitions minus all disposals, each rescaled by the splits of its own
   day and of every later day; and it is never negative. *)
Theorem C02_closing_holding : forall w ds s, wf_days ds -> sorted_days ds -> run w ds = inr s ->
  m_pq s = holding_sum ds /\ 0 <= m_pq s.
Proof. exact run_closing_holding. Qed.

(* During the run the shares claimed on a future purchase day by earlier disposals never exceed what
   that day has left after its own same-day disposal (so same-day + 30-day matches on it never exceed
   what was acquired); the invariant every reachable state satisfies. *)
Theorem C02_invariant_step : forall w offs s d rest,
  wf_day d -> ratios_pos rest -> NoDup (dates rest) -> Inv s (d :: rest) ->
  forall s', day_step w offs s d rest = inr s' -> Inv s' rest.
Proof.
  intros w offs s d rest H1 H2 H3 H4 s' E.
  destruct (day_step_ok w offs s d rest H1 H2 H3 H4) as [(_ & _ & E')|(_ & s'' & E' & HI & _)].
  - rewrite E in E'. discriminate.
  - rewrite E in E'. injection E' as <-. exact HI.
Qed.

(* No acquisition is over-used.  For every purchase day e of an accepted ledger: the quantity of the Same Day leg of
   e's own disposal (legs is that disposal's leg list, or [] when e has none) plus claim_of (m_cl s) (dt e) - the total,
   in day-e units, that all earlier disposals took from e's purchase under the 30-day rule (every 30-day leg to e records
   its matched quantity times the split ratio there, theorem C01_bnb_leg) - is at most the quantity bought on e. *)
Theorem C02_acquisition_not_overused : forall w ds s, wf_days ds -> sorted_days ds -> run w ds = inr s ->
  forall e, In e ds -> hasbuy e = true ->
  exists legs, (In (dt e, legs) (m_disp s) \/ legs = []) /\ sd_qty legs + claim_of (m_cl s) (dt e) <= bq e.
Proof.
  intros w ds s Hwf Hs Hr e He Hb. unfold run in Hr. destruct (prepass false [] ds) as [er|offs]; [discriminate|].
  exact (mainpass_use w offs ds mst0 s Hwf Hs (Inv0 ds) Hr e He Hb).
Qed.

(* For EVERY ledger the standalone validator passes (no hypothesis on order, dates, securities or sizes) and every security of it that
   the matcher accepts: the disposals are the sale days, their legs add up to the quantity sold, and the closing holding is
   acquisitions less disposals rescaled by the later splits, never negative. *)
Theorem C02_validated_ledgers : forall P l s st, has_errors (map t_op l) = false -> sr_res (eval_tick P l s) = inr st ->
  Forall2 (fun (x : Z * list leg) (d : day) => fst x = dt d /\ legs_qty (snd x) = sq d) (m_disp st) (filter hassell (days_of_tick l s)) /\
  m_pq st = holding_sum (days_of_tick l s) /\ 0 <= m_pq st.
Proof.
  intros P l s st Hv Hr. destruct (validated_days l s Hv) as [W S]. unfold eval_tick in Hr. cbn [sr_res] in Hr.
  split; [exact (run_legs_sum _ _ _ W S Hr)|exact (run_closing_holding _ _ _ W S Hr)].
Qed.
Print Assumptions C02_validated_ledgers.

(* non-vacuity: a ledger with a same-day leg, a 30-day leg across a split and pool legs meets the hypotheses *)
Example C02_witness : wf_days ex1 /\ sorted_days ex1 /\
  exists s, run 30 ex1 = inr s /\ List.length (m_disp s) = 3%nat /\ qeqb (m_pq s) (qz 115) = true.
Proof. split; [exact ex1_wf|]. split; [exact ex1_sorted|exact ex1_runs]. Qed.

Print Assumptions C02_bnb_legs_sum.
Print Assumptions C02_legs_sum.
Print Assumptions C02_closing_holding.
Print Assumptions C02_invariant_step.
Print Assumptions C02_acquisition_not_overused.
