(* C02 - Shares are conserved.  Statements only; proofs live in CGT.Proofs. *)
From Coq Require Import QArith Qcanon ZArith List Bool.
Require Import CGT.Model.Num CGT.Model.Match CGT.Proofs.MatchFacts.
Import ListNotations.
Open Scope Qc_scope.

(* The 30-day legs of a look-ahead add up to exactly what it removed from the remainder. *)
Theorem C02_bnb_legs_sum : forall w offs d fut R rem cl,
  legs_qty (b_legs (bnb w offs d fut R rem cl)) = rem - b_rem (bnb w offs d fut R rem cl).
Proof. exact bnb_qty. Qed.
Print Assumptions C02_bnb_legs_sum.
