(* C08 - Foreign amounts convert at the HMRC rate of their own month, or the run fails.  Statements only. *)
From Coq Require Import QArith Qcanon ZArith NArith List Bool Ascii String.
Require Import CGT.Model.Num CGT.Model.Date CGT.Model.Ledger CGT.Model.Dsl CGT.Model.Schwab CGT.Model.Fx CGT.Proofs.FxFacts.
Import ListNotations.
Open Scope Qc_scope.

(* GBP amounts are used unchanged; a foreign amount is divided by the rate of ITS currency in the calendar
   year and month of ITS transaction's date, and a missing rate is an error naming exactly those. *)
Theorem C08_gbp_unchanged : forall c d a, is_gbp (am_cur a) = true -> amount_to_gbp c d a = inr (am_val a).
Proof. exact amount_gbp. Qed.
Theorem C08_own_month : forall c d a, is_gbp (am_cur a) = false ->
  amount_to_gbp c d a = match lookup c (am_cur a, dy d, dm d) with
                        | Some rate => inr (am_val a / rate)
                        | None => inl (MissingFx (am_cur a) (dy d) (dm d)) end.
Proof. exact amount_foreign. Qed.

(* every monetary field of every kind of operation is converted that way (no field is left behind) *)
Theorem C08_field_key : forall c d o o', op_to_gbp c d o = inr o' ->
  match o, o' with
  | Buy q p f, Buy q' p' f' => q = q' /\ amount_to_gbp c d p = inr p' /\ amount_to_gbp c d f = inr f'
  | Sell q p f, Sell q' p' f' => q = q' /\ amount_to_gbp c d p = inr p' /\ amount_to_gbp c d f = inr f'
  | Dividend tv tx, Dividend tv' tx' => amount_to_gbp c d tv = inr tv' /\ amount_to_gbp c d tx = inr tx'
  | Accumulation q tv tx, Accumulation q' tv' tx' => q = q' /\ amount_to_gbp c d tv = inr tv' /\ amount_to_gbp c d tx = inr tx'
  | CapReturn q tv f, CapReturn q' tv' f' => q = q' /\ amount_to_gbp c d tv = inr tv' /\ amount_to_gbp c d f = inr f'
  | Split r, Split r' => r = r'
  | Unsplit r, Unsplit r' => r = r'
  | _, _ => False
  end.
Proof. exact op_fields. Qed.

(* a needed absent rate makes the operation (hence the run) fail with a MissingFx for the transaction's own month;
   an amount is never silently treated as GBP *)
Theorem C08_missing_rate : forall c d o, (exists a, In a (match o with
    | Buy _ p f | Sell _ p f => [p; f] | Dividend tv tx => [tv; tx]
    | Accumulation _ tv tx => [tv; tx] | CapReturn _ tv f => [tv; f] | _ => [] end) /\
    is_gbp (am_cur a) = false /\ lookup c (am_cur a, dy d, dm d) = None) ->
  exists cur, op_to_gbp c d o = inl (MissingFx cur (dy d) (dm d)).
Proof. exact op_missing. Qed.

(* a rates file replaces the rate for exactly its own month and the currencies it lists, and nothing else;
   it is accepted only if its period agrees with its name and every rate is positive *)
Theorem C08_override_local : forall c f c' k, load_file c f = inr c' ->
  (forall y m, f_name_ym f = Some (y, m) -> snd (fst k) <> y \/ snd k <> m \/ ~ In (fst (fst k)) (map fst (f_rates f))) ->
  lookup c' k = lookup c k.
Proof. exact load_file_local. Qed.
Theorem C08_file_checks : forall c f c', load_file c f = inr c' ->
  exists y m, f_name_ym f = Some (y, m) /\ f_period_ym f = Some (y, m) /\ forall code r, In (code, r) (f_rates f) -> 0 < r.
Proof. exact load_file_checks. Qed.

Print Assumptions C08_gbp_unchanged.
Print Assumptions C08_own_month.
Print Assumptions C08_field_key.
Print Assumptions C08_missing_rate.
Print Assumptions C08_override_local.
Print Assumptions C08_file_checks.
