(* C15 - Every input yields either a complete report or a clean error, never a crash.  Statements only.
   Absence of panics, aborts and hangs in the compiled program is explored by the correspondence check, not proved. *)
From Coq Require Import QArith Qcanon ZArith List Bool Sorted String.
Require Import CGT.Model.Num CGT.Model.Ledger CGT.Model.Match CGT.Model.Validate
               CGT.Proofs.ValidateFacts CGT.Proofs.MatchInv CGT.Proofs.Examples
               CGT.Model.Dsl CGT.Model.Json CGT.Model.Cli CGT.Proofs.CliFacts.
Require CGT.Model.Report CGT.Model.Fx CGT.Model.Pipeline CGT.Proofs.CliFiles CGT.Proofs.CliPipeline.
Import ListNotations.
Open Scope Qc_scope.

(* The validator reports an error exactly when some quantity is zero or negative, some price, fee or total
   value is negative, or a split ratio is not positive (kind by kind as the code examines them). *)
Theorem C15_validator_spec : forall ts, has_errors ts = true <->
  exists o, In o ts /\
    match o with
    | Buy q p f | Sell q p f => q <= 0 \/ p < 0 \/ f < 0
    | CapReturn q tv f => q <= 0 \/ tv < 0 \/ f < 0
    | Dividend tv _ => tv < 0
    | Accumulation q tv _ => q <= 0 \/ tv < 0
    | Split r | Unsplit r => r <= 0
    end.
Proof. exact has_errors_spec. Qed.

(* For well-formed, date-sorted days the matcher model ends in a result or in one of two named errors:
   an over-large capital return (pre-pass) or a sale exceeding the holding; no division by zero, no
   reservation overflow, no unmatched remainder can occur. *)
Theorem C15_named_outcomes : forall w ds, wf_days ds -> sorted_days ds ->
  (exists s, run w ds = inr s) \/ (exists z, run w ds = inl (EExceedsHolding z)) \/
  (exists e, prepass false [] ds = inl e /\ run w ds = inl e).
Proof.
  intros w ds Hwf Hs. destruct (prepass false [] ds) as [e|offs] eqn:Hp.
  - right. right. exists e. split; [reflexivity|]. unfold run. rewrite Hp. reflexivity.
  - pose proof (run_accepts_iff_covered w ds offs Hwf Hs Hp) as H.
    destruct (first_uncovered 0 ds) as [z|]; [right; left; exists z; exact H|left; exact H].
Qed.

Example C15_witness : wf_days ex1 /\ sorted_days ex1.
Proof. split; [exact ex1_wf|exact ex1_sorted]. Qed.

Print Assumptions C15_validator_spec.
Print Assumptions C15_named_outcomes.

(* The command layer (main.rs: parse, report, convert; Model/Cli.v).  For ANY parser, rate loader, configuration,
   calculator, formatters and converter - functions that return a result or fail - any file system and any command line:
   a command that fails has printed nothing on standard output and written no file (so an --output path is untouched);
   the only file a report writes is its --output path or, without one, the default PDF path, and the default PDF path is
   never written when it exists; a command that succeeds has run every stage to its end and its single output is the
   formatter's complete result - there is no partial report. *)
Section C15_cli.
  Context {Txs Fx Cfg Rep : Type}.
  Context (parse : text -> option Txs) (to_json : Txs -> option text) (schema : option text)
          (load_fx : option path -> option Fx) (load_cfg : option Cfg)
          (calc : Txs -> option N -> Fx -> Cfg -> option Rep)
          (fmt_plain fmt_json fmt_pdf : Rep -> option text)
          (convert : text -> option text -> option text).
  Notation report := (report_cmd parse load_fx load_cfg calc fmt_plain fmt_json fmt_pdf).

  Theorem C15_cli_failure_has_no_effect : forall fs files year fmt output fx sc ex aw,
    (snd (report fs files year fmt output fx) = ExitErr -> fst (report fs files year fmt output fx) = []) /\
    (snd (parse_cmd parse to_json schema fs files sc) = ExitErr -> fst (parse_cmd parse to_json schema fs files sc) = []) /\
    (snd (convert_cmd convert fs ex aw output) = ExitErr -> fst (convert_cmd convert fs ex aw output) = []).
  Proof.
    intros. split; [apply report_failure_silent|split; [apply parse_failure_silent|apply convert_failure_silent]].
  Qed.

  Theorem C15_cli_writes_only_its_target : forall fs files year fmt output fx p b,
    In (Write p b) (fst (report fs files year fmt output fx)) -> p = target files output /\ f_can_write fs p = true.
  Proof. exact (report_writes_only_target parse load_fx load_cfg calc fmt_plain fmt_json fmt_pdf). Qed.

  Theorem C15_default_pdf_never_replaces : forall fs files year fmt fx p b,
    In (Write p b) (fst (report fs files year fmt None fx)) -> f_exists fs p = false.
  Proof. exact (default_pdf_never_replaces parse load_fx load_cfg calc fmt_plain fmt_json fmt_pdf). Qed.

  Theorem C15_existing_default_pdf_refused : forall fs files year fx,
    f_exists fs (default_pdf files) = true -> report fs files year Pdf None fx = fail.
  Proof. exact (report_refuses_existing_default parse load_fx load_cfg calc fmt_plain fmt_json fmt_pdf). Qed.

  Theorem C15_cli_success_is_complete : forall fs files year fmt output fx,
    snd (report fs files year fmt output fx) = Exit0 ->
    exists cs rates txs cfg rep c,
      read_all fs files = Some cs /\ load_fx fx = Some rates /\ parse (join_nl cs) = Some txs /\ load_cfg = Some cfg /\
      calc txs year rates cfg = Some rep /\ rendered fmt_plain fmt_json fmt_pdf fmt rep = Some c /\
      fst (report fs files year fmt output fx) =
         match fmt, output with
         | Pdf, _ => [Write (target files output) c; Out (PDF_WRITTEN ++ target files output ++ NL)]
         | Plain, None => [Out (c ++ [])] | Json, None => [Out (c ++ NL)]
         | _, Some p => [Write p c]
         end.
  Proof. exact (report_success_complete parse load_fx load_cfg calc fmt_plain fmt_json fmt_pdf). Qed.
End C15_cli.
Print Assumptions C15_cli_failure_has_no_effect.
Print Assumptions C15_cli_writes_only_its_target.
Print Assumptions C15_default_pdf_never_replaces.
Print Assumptions C15_existing_default_pdf_refused.
Print Assumptions C15_cli_success_is_complete.

(* non-vacuity: with computations that succeed, a report to standard output succeeds and prints the whole text; with a
   calculator that fails, the same command line fails and prints nothing; an existing a.pdf is left alone *)
Definition c15_fs (existing : list path) : fsys :=
  {| f_read := fun p => if existsb (Json.teqb p) [T "a.cgt"%string] then Some (T "x"%string) else None;
     f_exists := fun p => existsb (Json.teqb p) existing; f_can_write := fun _ => true |}.
Example C15_cli_applies :
  let ok := report_cmd (fun t => Some t) (fun _ => Some tt) (Some tt) (fun t _ _ _ => Some t) (fun r => Some (r ++ T "!"%string)) (fun r => Some r) (fun r => Some r) in
  let bad := report_cmd (fun t => Some t) (fun _ => Some tt) (Some tt) (fun (t : text) _ _ _ => @None text) (fun r => Some r) (fun r => Some r) (fun r => Some r) in
  ok (c15_fs []) [T "a.cgt"%string] None Plain None None = ([Out (T "x!"%string)], Exit0) /\
  bad (c15_fs []) [T "a.cgt"%string] None Plain None None = ([], ExitErr) /\
  ok (c15_fs []) [T "nope.cgt"%string] None Plain None None = ([], ExitErr) /\
  ok (c15_fs []) [T "a.cgt"%string] None Pdf None None = ([Write (T "a.pdf"%string) (T "x"%string); Out (T "PDF written to a.pdf"%string ++ NL)], Exit0) /\
  ok (c15_fs [T "a.pdf"%string]) [T "a.cgt"%string] None Pdf None None = ([], ExitErr).
Proof. repeat split; vm_compute; reflexivity. Qed.

(* The command layer over the models of the computations themselves: with the DSL reader model as the parser and the models' conversion, matcher and
   summaries as the calculator, `report` on any files is the pipeline (Model/Pipeline.v) applied to the files' contents joined by a newline, followed by
   the chosen formatter and the single output - for any rate loader, configuration loader and formatters.  Together with C15_cli_failure_has_no_effect
   and C15_cli_success_is_complete: whatever the pipeline refuses (a line that does not parse, a missing rate, an uncovered sale, an over-large capital
   return, an unconfigured year) leaves standard output and every file untouched. *)
Theorem C15_cli_report_is_pipeline : forall valid_cur load_fx load_cfg fmt_plain fmt_json fmt_pdf fs files year fmt output fx,
  report_cmd (CliFiles.parse_opt valid_cur) load_fx load_cfg CliPipeline.calc_of_models fmt_plain fmt_json fmt_pdf fs files year fmt output fx =
  report_cmd (fun s => Some s) load_fx load_cfg (CliPipeline.calc_of_pipeline valid_cur) fmt_plain fmt_json fmt_pdf fs files year fmt output fx.
Proof. exact CliPipeline.report_is_pipeline. Qed.
Print Assumptions C15_cli_report_is_pipeline.
