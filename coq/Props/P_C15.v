(* C15 - Every input yields either a complete report or a clean error, never a crash.  Statements only.
   Absence of panics, aborts and hangs in the compiled program is explored by the correspondence check, not proved. *)
From Coq Require Import QArith Qcanon ZArith List Bool Sorted.
Require Import CGT.Model.Num CGT.Model.Ledger CGT.Model.Match CGT.Model.Validate
               CGT.Proofs.ValidateFacts CGT.Proofs.MatchInv CGT.Proofs.Examples.
Import ListNotations.
Open Scope Qc_scope.

(* The validator reports an error exactly when some quantity is zero or negative, some price, fee or total
   value is negative, or a split ratio is not positive (kind by kind as the code examines them). *)
Theorem C15_validator_spec : forall ts, has_errors ts = true <->
  exists o, In o ts /\
    match o with
    | Buy q p f | Sell q p f => q <= 0 \/ p < 0 \/ f < 0
    | CapReturn q tv f => q <= 0 \/ tv < 0 \/ f < 0
    | Dividend tv _ => tv < 0
    | Accumulation q tv _ => q <= 0 \/ tv < 0
    | Split r | Unsplit r => r <= 0
    end.
Proof. exact has_errors_spec. Qed.

(* For well-formed, date-sorted days the matcher model ends in a result or in one of two named errors:
   an over-large capital return (pre-pass) or a sale exceeding the holding; no division by zero, no
   reservation overflow, no unmatched remainder can occur. *)
Theorem C15_named_outcomes : forall w ds, wf_days ds -> sorted_days ds ->
  (exists s, run w ds = inr s) \/ (exists z, run w ds = inl (EExceedsHolding z)) \/
  (exists e, prepass false [] ds = inl e /\ run w ds = inl e).
Proof.
  intros w ds Hwf Hs. destruct (prepass false [] ds) as [e|offs] eqn:Hp.
  - right. right. exists e. split; [reflexivity|]. unfold run. rewrite Hp. reflexivity.
  - pose proof (run_accepts_iff_covered w ds offs Hwf Hs Hp) as H.
    destruct (first_uncovered 0 ds) as [z|]; [right; left; exists z; exact H|left; exact H].
Qed.

Example C15_witness : wf_days ex1 /\ sorted_days ex1.
Proof. split; [exact ex1_wf|exact ex1_sorted]. Qed.

Print Assumptions C15_validator_spec.
Print Assumptions C15_named_outcomes.
