(* C05 - A report exactly when every sale is covered.  Statements only. *)
From Coq Require Import QArith Qcanon ZArith List Bool.
Require Import CGT.Model.Num CGT.Model.Match CGT.Proofs.MatchFacts.
Import ListNotations.
Open Scope Qc_scope.

(* A sale larger than the position (acquisitions less disposals, rescaled) is refused
   with an error carrying the sale's date, whatever later purchases exist. *)
Theorem C05_beyond_position_refused : forall w offs s d fut avail0 pos1,
  pos1 < sq d -> sell_step w offs s d fut avail0 pos1 = inl (EExceedsHolding (dt d)).
Proof. exact sell_step_position. Qed.
Print Assumptions C05_beyond_position_refused.
