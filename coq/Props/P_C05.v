(* C05 - A report exactly when every sale is covered.  Statements only. *)
From Coq Require Import QArith Qcanon ZArith List Bool Sorted.
Require Import CGT.Model.Num CGT.Model.Match CGT.Proofs.MatchFacts CGT.Proofs.MatchInv CGT.Proofs.Examples.
Require Import CGT.Model.Ledger CGT.Model.Agg CGT.Model.Report CGT.Model.Validate CGT.Proofs.ReportAdd CGT.Proofs.ValidWf.
From Coq Require Import String.
Open Scope Qc_scope.
Import ListNotations.
Open Scope Qc_scope.

(* first_uncovered pos ds: walking the days in order with the position (acquisitions less disposals,
   rescaled by each day's splits), the date of the first sale day whose sales exceed the position
   including that day's purchases; None when every sale is covered. *)

(* A sale larger than the position is refused with an error carrying the sale's date,
   whatever later purchases exist. *)
Theorem C05_beyond_position_refused : forall w offs s d fut avail0 pos1,
  pos1 < sq d -> sell_step w offs s d fut avail0 pos1 = inl (EExceedsHolding (dt d)).
Proof. exact sell_step_position. Qed.

(* With no other obstacle (the cost pre-pass accepts the capital returns), a well-formed date-sorted
   security ledger is accepted if and only if every sale is covered; otherwise the error is
   ExceedsHolding at the date of the first uncovered sale.  Covered ledgers are never refused
   (no reservation, unmatched-remainder or division error can occur); a later repurchase never helps. *)
Theorem C05_accepted_iff_covered : forall w ds offs,
  wf_days ds -> sorted_days ds -> prepass false [] ds = inr offs ->
  match first_uncovered 0 ds with
  | Some z => run w ds = inl (EExceedsHolding z)
  | None => exists s, run w ds = inr s
  end.
Proof. exact run_accepts_iff_covered. Qed.

(* For every validated ledger and each of its securities (capital returns permitting): accepted exactly when every sale is covered. *)
Theorem C05_validated_ledgers : forall P l s offs, has_errors (map t_op l) = false ->
  prepass false [] (days_of_tick l s) = inr offs ->
  match first_uncovered 0 (days_of_tick l s) with
  | Some z => sr_res (eval_tick P l s) = inl (EExceedsHolding z)
  | None => exists st, sr_res (eval_tick P l s) = inr st
  end.
Proof.
  intros P l s offs Hv Hp. destruct (validated_days l s Hv) as [W S]. unfold eval_tick. cbn [sr_res].
  exact (run_accepts_iff_covered (p_window P) _ offs W S Hp).
Qed.
Print Assumptions C05_validated_ledgers.

Example C05_witness_covered : wf_days ex1 /\ sorted_days ex1 /\ first_uncovered 0 ex1 = None.
Proof. split; [exact ex1_wf|]. split; [exact ex1_sorted|vm_compute; reflexivity]. Qed.
(* duplicated sale whose first copy is matched to a later repurchase: refused at the second sale *)
Example C05_witness_uncovered : wf_days ex_uncovered /\ sorted_days ex_uncovered /\
  first_uncovered 0 ex_uncovered = Some 32%Z /\ run 30 ex_uncovered = inl (EExceedsHolding 32).
Proof. split; [exact ex_uncovered_wf|]. split; [exact ex_uncovered_sorted|exact ex_uncovered_refused]. Qed.

Print Assumptions C05_beyond_position_refused.
Print Assumptions C05_accepted_iff_covered.
