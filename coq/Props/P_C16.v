(* C16 - Deterministic, canonically ordered output.  Statements only.
   Byte-equality across process executions is observed by the correspondence check, not proved: the theorems
   cover the one source of nondeterminism in the code, the iteration order of hash maps. *)
From Coq Require Import QArith Qcanon ZArith List Bool String Permutation Sorted.
Require Import CGT.Model.Num CGT.Model.Ledger CGT.Model.Match CGT.Model.Agg CGT.Model.Report
               CGT.Proofs.SortFacts CGT.Proofs.LedgerFacts.
Import ListNotations.

(* Sorting distinct keys by a strict total order gives a result that depends only on the SET of keys: whatever
   order a hash map yields its entries in, the sorted list of dates / tickers / tax years is the same. *)
Theorem C16_dates_canonical : forall l l', Permutation l l' -> sort_uniq Z.compare l = sort_uniq Z.compare l'.
Proof. exact sort_dates_perm. Qed.
Theorem C16_tickers_canonical : forall l l', Permutation l l' -> sort_uniq String.compare l = sort_uniq String.compare l'.
Proof. exact sort_tickers_perm. Qed.

(* Orders of the report: tax years (and a security's days) strictly ascending; disposals strictly ascending by
   date, then ticker. *)
Theorem C16_years_ascending : forall l, StronglySorted (fun a b => (a < b)%Z) (sort_uniq Z.compare l).
Proof. exact sort_dates_sorted. Qed.
Theorem C16_disposals_ordered : forall l, StronglySorted (fun a b => disp_cmp a b = Lt) (sort_disposals l).
Proof. exact sort_disposals_sorted. Qed.

(* and the report as a whole does not depend on the order in which the lines (hence map entries) arrive *)
Theorem C16_order_independent : forall P cfg yf l l', Permutation l l' -> events_order_free l ->
  report_of P cfg yf l = report_of P cfg yf l'.
Proof. exact report_of_perm. Qed.

Print Assumptions C16_dates_canonical.
Print Assumptions C16_tickers_canonical.
Print Assumptions C16_years_ascending.
Print Assumptions C16_disposals_ordered.
Print Assumptions C16_order_independent.
