(* C17 - Front-ends present the same figures.  Statements only. *)
From Coq Require Import QArith Qcanon ZArith NArith List Bool Ascii String.
Require Import CGT.Model.Num CGT.Model.Date CGT.Model.Dsl CGT.Model.Fmt CGT.Proofs.FmtFacts CGT.Proofs.FmtDates CGT.Proofs.FmtQty CGT.Proofs.DecFacts.
Import ListNotations.

(* The pence that format_gbp prints, with their sign, are exactly the value rounded to two places with
   midpoints away from zero - for every rational value. *)
Theorem C17_gbp_value : forall x : Qc, signed_pence x = round_half_away 2 x.
Proof. exact gbp_value. Qed.

(* The printed shape (-?)£d{1,3}(,ddd)*.dd reads back to exactly those pence and that sign, so the
   string determines the rounded value: no two front-ends using it can disagree about a figure. *)
Theorem C17_gbp_reads_back : forall x : Qc, (pence_abs x < 10 ^ 42)%N ->
  read_pence (format_gbp x) = Some (pence_neg x, pence_abs x).
Proof. intros x H. unfold format_gbp. apply read_format_pence. exact H. Qed.

(* the JSON report shows the same rounding *)
Theorem C17_json_money : forall x : Qc, json_money x = round_half_away 2 x.
Proof. reflexivity. Qed.
(* regenerated from the source: the JSON serialiser rounds to 2 places, midpoints away from zero *)
Require Import CGT.Generated.Params.
Theorem C17_json_rounding_constants : json_money_places = 2%Z /\ json_money_away = 1%Z /\ gbp_places = 2%Z /\ gbp_away = 1%Z.
Proof. repeat split; reflexivity. Qed.

(* midpoints, negatives, millions *)
Example C17_midpoints :
  format_gbp (Q2Qc (1005 # 1000)) = POUND ++ T "1.01" /\
  format_gbp (Q2Qc (125 # 1000)) = POUND ++ T "0.13" /\
  format_gbp (Q2Qc (-125 # 1000)) = MINUS ++ POUND ++ T "0.13" /\
  format_gbp (Q2Qc (1234567005 # 1000)) = POUND ++ T "1,234,567.01" /\
  format_gbp (Q2Qc (-1 # 1000)) = POUND ++ T "0.00" /\
  format_gbp (Q2Qc (1000 # 1)) = POUND ++ T "1,000.00".
Proof. repeat split; vm_compute; reflexivity. Qed.
Example C17_dates : format_date {| dy := 2024; dm := 4; dd := 5 |} = T "05/04/2024" /\
  format_tax_year 2023 = T "2023/24" /\ format_tax_year 1999 = T "1999/00".
Proof. repeat split; vm_compute; reflexivity. Qed.
Example C17_quantity_exact : format_dec_trimmed {| d_mant := 1500; d_scale := 3 |} = T "1.5" /\
  format_dec_trimmed {| d_mant := 100; d_scale := 0 |} = T "100" /\
  format_dec_trimmed {| d_mant := 123456789; d_scale := 9 |} = T "0.123456789".
Proof. repeat split; vm_compute; reflexivity. Qed.

(* Quantities are shown exactly.  The trimmed text of any decimal the type holds (trailing zeros and a bare point removed),
   followed by anything that is not a digit or a point, reads back as a decimal of the same value (mant = mant' * 10^(scale - scale')),
   and it shows no trailing zero. *)
Theorem C17_quantity_exact_all : forall d rest, dec_ok d = true -> stops rest ->
  exists ip fp d', lex_decimal (format_dec_trimmed d ++ rest) = Some (ip, fp, rest) /\ parse_dec ip fp = DOk d' /\
    (d_scale d' <= d_scale d)%nat /\ d_mant d = (d_mant d' * 10 ^ N.of_nat (d_scale d - d_scale d'))%N /\
    (fp = [] \/ exists f c, fp = f ++ [c] /\ is0 c = false).
Proof. exact trimmed_exact. Qed.

(* Dates read DD/MM/YYYY and tax years YYYY/YY: the shown text determines the date / the year. *)
Theorem C17_date_format : forall d, (0 <= dy d <= 9999)%Z -> (0 <= dm d < 100)%Z -> (0 <= dd d < 100)%Z -> read_dmy (format_date d) = Some d.
Proof. exact read_format_date. Qed.
Theorem C17_tax_year_format : forall y, (0 <= y <= 9999)%Z -> read_tax_year (format_tax_year y) = Some (y, ((y + 1) mod 100)%Z).
Proof. exact read_format_tax_year. Qed.

Print Assumptions C17_quantity_exact_all.
Print Assumptions C17_date_format.
Print Assumptions C17_tax_year_format.
Print Assumptions C17_gbp_value.
Print Assumptions C17_gbp_reads_back.
Print Assumptions C17_json_money.
Print Assumptions C17_json_rounding_constants.
