(* C01 - Same Day, then 30-day, then Section 104.  Statements only. *)
From Coq Require Import QArith Qcanon ZArith List Bool Sorted.
Require Import CGT.Model.Num CGT.Model.Match CGT.Proofs.NumFacts CGT.Proofs.MatchFacts CGT.Proofs.MatchInv
               CGT.Proofs.MatchOrder CGT.Proofs.MatchGreedy CGT.Proofs.ReportAdd CGT.Proofs.Examples.
Require Import CGT.Model.Agg CGT.Model.Report.
Import ListNotations.
Open Scope Qc_scope.

(* Every leg the look-ahead from sale day d produces is a 30-day leg to a purchase day
   e of the future list with dt e - dt d <= window (so D+31 is never used). *)
Theorem C01_window_bnb : forall w offs d fut R rem cl l,
  In l (b_legs (bnb w offs d fut R rem cl)) ->
  lg_rule l = BnB /\ lg_sell l = dt d /\
  exists e, In e fut /\ lg_acq l = Some (dt e) /\ hasbuy e = true /\ (dt e - dt d <= w)%Z.
Proof. exact bnb_legs. Qed.

(* For every accepted date-sorted security ledger, the legs of each disposal on day z are:
   at most one Same Day leg (acquisition date z), then 30-day legs whose acquisition dates e satisfy
   0 < e - z <= window and strictly increase (earliest first), then at most one Section 104 leg. *)
Theorem C01_order : forall w ds s, sorted_days ds -> run w ds = inr s ->
  Forall (fun x : Z * list leg =>
    exists sd bb pl, snd x = sd ++ bb ++ pl /\
      (List.length sd <= 1)%nat /\
      Forall (fun l => lg_rule l = SameDay /\ lg_acq l = Some (fst x) /\ lg_sell l = fst x) sd /\
      Forall (fun l => lg_rule l = BnB /\ lg_sell l = fst x /\
                       exists e, lg_acq l = Some e /\ (0 < e - fst x <= w)%Z) bb /\
      StronglySorted (fun a b => (acq_z a < acq_z b)%Z) bb /\
      (List.length pl <= 1)%nat /\
      Forall (fun l => lg_rule l = S104 /\ lg_acq l = None /\ lg_sell l = fst x) pl)
    (m_disp s).
Proof. exact run_legs_shape. Qed.

(* Same-day priority / claims disjoint: in every reachable state the shares claimed on a future
   purchase day e by all earlier disposals together are at most bq e - min(bq e, sq e): what e's own
   same-day disposal needs is never taken, and no share is claimed twice. *)
Theorem C01_same_day_priority : forall s rest e, Inv s rest -> In e rest -> hasbuy e = true ->
  0 <= claim_of (m_cl s) (dt e) /\ claim_of (m_cl s) (dt e) <= bq e - qmin (bq e) (qmax 0 (sq' e)).
Proof. intros s rest e HI He Hb. destruct (inv_claims s rest HI e He) as [A _]. exact (A Hb). Qed.

(* quantities and costs of the three kinds of leg *)
Theorem C01_same_day_leg : forall offs d avail0, 0 < avail0 -> 0 < sq d ->
  fst (fst (same_day_step offs d avail0)) =
    [mk_leg d SameDay (qmin (sq d) avail0) (Some (dt d)) (qmin (sq d) avail0 * unit_cost offs d)].
Proof.
  intros offs d avail0 Ha Hs. unfold same_day_step.
  destruct (qltb_spec 0 avail0) as [_|N]; [|contradiction].
  destruct (qltb_spec 0 (sq d)) as [_|N]; [|contradiction]. reflexivity.
Qed.
Theorem C01_bnb_leg : forall offs d e R rem cl, hasbuy e = true -> 0 < free_of e cl ->
  b_legs (bnb_step offs d e R rem cl) =
    [mk_leg d BnB (qmin rem (free_of e cl / R)) (Some (dt e)) (qmin rem (free_of e cl / R) * R * unit_cost offs e)] /\
  b_cl (bnb_step offs d e R rem cl) = (dt e, qmin rem (free_of e cl / R) * R) :: cl.
Proof.
  intros offs d e R rem cl Hb Hf. unfold bnb_step. rewrite Hb.
  destruct (qltb_spec 0 (free_of e cl)) as [_|N]; [|contradiction]. cbn [andb b_legs b_cl]. split; reflexivity.
Qed.
Theorem C01_pool_leg : forall d s rem, 0 < rem -> m_pooled s = true -> m_pq s <> 0 -> sq d <> 0 ->
  fst (fst (pool_step d s rem)) = [mk_leg d S104 (qmin rem (m_pq s)) None (qmin rem (m_pq s) * (m_pc s / m_pq s))].
Proof.
  intros d s rem Hr Hp Hq Hs. unfold pool_step. rewrite Hp.
  destruct (qltb_spec 0 rem) as [_|N]; [|contradiction].
  destruct (qeqb_spec (m_pq s) 0) as [E|_]; [contradiction|].
  destruct (qeqb_spec (sq d) 0) as [E|_]; [contradiction|]. reflexivity.
Qed.

(* Earliest first, and nothing skipped.  (1) If the look-ahead identifies part of a disposal with a later acquisition, every
   earlier acquisition day of the list has no free shares left (free = not needed for that day's own disposals, not already
   claimed).  (2) If anything of the disposal is left over for the Section 104 pool, every acquisition day inside the window has
   no free shares left.  For future lists of any length. *)
Theorem C01_earliest_first : forall w offs d pre e1 post R rem cl, 0 <= rem -> 0 < R ->
  ratios_pos (pre ++ e1 :: post) -> sorted_days (pre ++ e1 :: post) -> hasbuy e1 = true ->
  (exists l z, In l (b_legs (bnb w offs d (pre ++ e1 :: post) R rem cl)) /\ lg_acq l = Some z /\ In z (dates post)) ->
  free_of e1 (b_cl (bnb w offs d (pre ++ e1 :: post) R rem cl)) = 0.
Proof. exact bnb_earliest_first. Qed.
Theorem C01_pool_only_after_window_exhausted : forall w offs d fut R rem cl, 0 <= rem -> 0 < R -> ratios_pos fut -> sorted_days fut ->
  0 < b_rem (bnb w offs d fut R rem cl) ->
  forall e, In e fut -> hasbuy e = true -> (dt e - dt d <= w)%Z -> free_of e (b_cl (bnb w offs d fut R rem cl)) = 0.
Proof. exact bnb_exhaustive. Qed.
Print Assumptions C01_earliest_first.
Print Assumptions C01_pool_only_after_window_exhausted.

(* The day records the report model builds from ANY ledger are sorted by date, so the order theorem holds for every security of
   every ledger the model accepts - no hypothesis on the input is left. *)
Theorem C01_days_always_sorted : forall l, sorted_days (days_of l).
Proof. exact days_of_sorted. Qed.
Theorem C01_order_every_ledger : forall P l s st, sr_res (eval_tick P l s) = inr st ->
  Forall (fun x => legs_shape (p_window P) (fst x) (snd x)) (m_disp st).
Proof. exact eval_legs_shape. Qed.
Print Assumptions C01_days_always_sorted.
Print Assumptions C01_order_every_ledger.

Example C01_witness : sorted_days ex1 /\ exists s, run 30 ex1 = inr s /\ List.length (m_disp s) = 3%nat.
Proof. split; [exact ex1_sorted|]. destruct ex1_runs as (s & E & L & _). exists s. split; assumption. Qed.

Print Assumptions C01_window_bnb.
Print Assumptions C01_order.
Print Assumptions C01_same_day_priority.
Print Assumptions C01_same_day_leg.
Print Assumptions C01_bnb_leg.
Print Assumptions C01_pool_leg.
