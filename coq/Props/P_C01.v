(* C01 - Same Day, then 30-day, then Section 104.  Statements only. *)
From Coq Require Import QArith Qcanon ZArith List Bool.
Require Import CGT.Model.Num CGT.Model.Match CGT.Proofs.MatchFacts.
Import ListNotations.
Open Scope Qc_scope.

(* Every leg the look-ahead from sale day d produces is a 30-day leg to a purchase day
   e of the future list with dt e - dt d <= window (so D+31 is never used). *)
Theorem C01_window_bnb : forall w offs d fut R rem cl l,
  In l (b_legs (bnb w offs d fut R rem cl)) ->
  lg_rule l = BnB /\ lg_sell l = dt d /\
  exists e, In e fut /\ lg_acq l = Some (dt e) /\ hasbuy e = true /\ (dt e - dt d <= w)%Z.
Proof. exact bnb_legs. Qed.
Print Assumptions C01_window_bnb.
