(* C12 - Earlier figures do not change when later transactions are added.  Statements only. *)
From Coq Require Import QArith Qcanon ZArith List Bool.
Require Import CGT.Model.Num CGT.Model.Match CGT.Proofs.MatchFacts.
Import ListNotations.
Open Scope Qc_scope.

(* The look-ahead from sale day d never reads days more than `w` days later. *)
Theorem C12_lookahead_bounded : forall w offs d fut1 fut2 R rem cl,
  (forall e, In e fut2 -> (dt e - dt d > w)%Z) ->
  bnb w offs d (fut1 ++ fut2) R rem cl = bnb w offs d fut1 R rem cl.
Proof. exact bnb_beyond. Qed.
Print Assumptions C12_lookahead_bounded.
