(* C12 - Earlier figures do not change when later transactions are added.  Statements only. *)
From Coq Require Import QArith Qcanon ZArith List Bool Lia.
Require Import CGT.Model.Num CGT.Model.Match CGT.Proofs.MatchFacts CGT.Proofs.MatchInv CGT.Proofs.MatchPrefix.
Import ListNotations.
Open Scope Qc_scope.

(* The look-ahead from sale day d never reads days more than `w` days later. *)
Theorem C12_lookahead_bounded : forall w offs d fut1 fut2 R rem cl,
  (forall e, In e fut2 -> (dt e - dt d > w)%Z) ->
  bnb w offs d (fut1 ++ fut2) R rem cl = bnb w offs d fut1 R rem cl.
Proof. exact bnb_beyond. Qed.

(* Appending days of a security that are more than w (= 30) days after every day of the prefix and carry no
   capital-return / accumulation events:
   - if the prefix is refused, the extended history is refused with the same error;
   - if the prefix is accepted, either the extended history is accepted and its disposals are exactly the prefix's
     disposals (same dates, legs, quantities, costs, proceeds, gains - the same list) followed by disposals dated in
     the continuation, or it is refused with an error whose date lies in the continuation - never because of the
     earlier period. *)
Theorem C12_prefix_stable : forall w p far, no_events far ->
  (forall d e, In d p -> In e far -> (dt e - dt d > w)%Z) ->
  match run w p with
  | inl e => run w (p ++ far) = inl e
  | inr sp =>
      match run w (p ++ far) with
      | inl e => In (err_date e) (dates far)
      | inr s' => exists L, m_disp s' = m_disp sp ++ L /\ Forall (fun x => In (fst x) (dates far)) L
      end
  end.
Proof. exact run_prefix_stable. Qed.

(* non-vacuity: a prefix with a disposal, and a continuation 31 days later that sells more than is held *)
Example C12_witness :
  let p := [ {| dt := 0; bq := Q2Qc 10; bcost := Q2Qc 10; hasbuy := true; sq := 0; sgross := 0; sfees := 0; hassell := false; evs := []; ratio := 1 |};
             {| dt := 5; bq := 0; bcost := 0; hasbuy := false; sq := Q2Qc 4; sgross := Q2Qc 8; sfees := 0; hassell := true; evs := []; ratio := 1 |} ] in
  let far := [ {| dt := 36; bq := Q2Qc 3; bcost := Q2Qc 9; hasbuy := true; sq := 0; sgross := 0; sfees := 0; hassell := false; evs := []; ratio := 1 |};
               {| dt := 70; bq := 0; bcost := 0; hasbuy := false; sq := Q2Qc 100; sgross := Q2Qc 100; sfees := 0; hassell := true; evs := []; ratio := 1 |} ] in
  no_events far /\ (forall d e, In d p -> In e far -> (dt e - dt d > 30)%Z) /\
  (exists sp, run 30 p = inr sp) /\ run 30 (p ++ far) = inl (EExceedsHolding 70).
Proof.
  cbn zeta. split; [intros e [<-|[<-|[]]]; reflexivity|]. split.
  - intros d e [<-|[<-|[]]] [<-|[<-|[]]]; cbn; lia.
  - split; [eexists; vm_compute; reflexivity|vm_compute; reflexivity].
Qed.

Print Assumptions C12_lookahead_bounded.
Print Assumptions C12_prefix_stable.
