(* C12 - Earlier figures do not change when later transactions are added.  Statements only. *)
From Coq Require Import QArith Qcanon ZArith List Bool Lia.
Require Import CGT.Model.Num CGT.Model.Match CGT.Proofs.MatchFacts CGT.Proofs.MatchInv CGT.Proofs.MatchPrefix CGT.Proofs.MatchFinal.
Import ListNotations.
Open Scope Qc_scope.

(* The look-ahead from sale day d never reads days more than `w` days later. *)
Theorem C12_lookahead_bounded : forall w offs d fut1 fut2 R rem cl,
  (forall e, In e fut2 -> (dt e - dt d > w)%Z) ->
  bnb w offs d (fut1 ++ fut2) R rem cl = bnb w offs d fut1 R rem cl.
Proof. exact bnb_beyond. Qed.

(* Appending days of a security that are more than w (= 30) days after every day of the prefix and carry no
   capital-return / accumulation events:
   - if the prefix is refused, the extended history is refused with the same error;
   - if the prefix is accepted, either the extended history is accepted and its disposals are exactly the prefix's
     disposals (same dates, legs, quantities, costs, proceeds, gains - the same list) followed by disposals dated in
     the continuation, or it is refused with an error whose date lies in the continuation - never because of the
     earlier period. *)
Theorem C12_prefix_stable : forall w p far, no_events far ->
  (forall d e, In d p -> In e far -> (dt e - dt d > w)%Z) ->
  match run w p with
  | inl e => run w (p ++ far) = inl e
  | inr sp =>
      match run w (p ++ far) with
      | inl e => In (err_date e) (dates far)
      | inr s' => exists L, m_disp s' = m_disp sp ++ L /\ Forall (fun x => In (fst x) (dates far)) L
      end
  end.
Proof. exact run_prefix_stable. Qed.

(* non-vacuity: a prefix with a disposal, and a continuation 31 days later that sells more than is held *)
Example C12_witness :
  let p := [ {| dt := 0; bq := Q2Qc 10; bcost := Q2Qc 10; hasbuy := true; sq := 0; sgross := 0; sfees := 0; hassell := false; evs := []; ratio := 1 |};
             {| dt := 5; bq := 0; bcost := 0; hasbuy := false; sq := Q2Qc 4; sgross := Q2Qc 8; sfees := 0; hassell := true; evs := []; ratio := 1 |} ] in
  let far := [ {| dt := 36; bq := Q2Qc 3; bcost := Q2Qc 9; hasbuy := true; sq := 0; sgross := 0; sfees := 0; hassell := false; evs := []; ratio := 1 |};
               {| dt := 70; bq := 0; bcost := 0; hasbuy := false; sq := Q2Qc 100; sgross := Q2Qc 100; sfees := 0; hassell := true; evs := []; ratio := 1 |} ] in
  no_events far /\ (forall d e, In d p -> In e far -> (dt e - dt d > 30)%Z) /\
  (exists sp, run 30 p = inr sp) /\ run 30 (p ++ far) = inl (EExceedsHolding 70).
Proof.
  cbn zeta. split; [intros e [<-|[<-|[]]]; reflexivity|]. split.
  - intros d e [<-|[<-|[]]] [<-|[<-|[]]]; cbn; lia.
  - split; [eexists; vm_compute; reflexivity|vm_compute; reflexivity].
Qed.

(* The property in its own form: the disposals of a leading part `pre` are final once every day up to w (= 30) days after them is
   present - WHATEVER lies in between.  `mid` may contain days within 30 days of the appended `far` days; only the days of `pre` must
   be more than w days before every appended day.  mp_pre is the main pass over pre (its look-aheads reading the rest of pre, then mid);
   its result is the same with and without `far`: a refusal inside pre is the refusal of both histories; otherwise the disposals recorded
   for pre's days (m_disp sp) are a common prefix of both histories' disposal lists, what follows is dated in mid (resp. mid or far), and
   the extended history can only be refused on a day of mid or far. *)
Theorem C12_disposals_final : forall w pre mid far, no_events far -> (forall d e, In d pre -> In e far -> (dt e - dt d > w)%Z) ->
  forall offs, prepass false [] (pre ++ mid) = inr offs ->
  match mp_pre w offs mst0 pre mid with
  | inl e => run w (pre ++ mid) = inl e /\ run w (pre ++ mid ++ far) = inl e
  | inr sp =>
      (forall s1, run w (pre ++ mid) = inr s1 -> exists L, m_disp s1 = m_disp sp ++ L /\ Forall (fun x => In (fst x) (dates mid)) L) /\
      (forall s2, run w (pre ++ mid ++ far) = inr s2 -> exists L, m_disp s2 = m_disp sp ++ L /\ Forall (fun x => In (fst x) (dates (mid ++ far))) L) /\
      (forall e, run w (pre ++ mid ++ far) = inl e -> In (err_date e) (dates (mid ++ far)))
  end.
Proof. exact disposals_final. Qed.

(* non-vacuity: a sale on day 5; a purchase on day 20 in between; appended: a purchase on day 36 (31 days after the sale, only 16 after day 20) *)
Example C12_final_witness :
  let mk z b bc hb s sg hs := {| dt := z; bq := Q2Qc (inject_Z b); bcost := Q2Qc (inject_Z bc); hasbuy := hb; sq := Q2Qc (inject_Z s); sgross := Q2Qc (inject_Z sg);
                                 sfees := 0; hassell := hs; evs := []; ratio := 1 |} in
  let pre := [mk 0%Z 10%Z 10%Z true 0%Z 0%Z false; mk 5%Z 0%Z 0%Z false 4%Z 8%Z true] in
  let mid := [mk 20%Z 2%Z 6%Z true 0%Z 0%Z false] in
  let far := [mk 36%Z 3%Z 9%Z true 0%Z 0%Z false] in
  no_events far /\ (forall d e, In d pre -> In e far -> (dt e - dt d > 30)%Z) /\ (exists d e, In d mid /\ In e far /\ (dt e - dt d <= 30)%Z) /\
  (exists offs sp, prepass false [] (pre ++ mid) = inr offs /\ mp_pre 30 offs mst0 pre mid = inr sp /\ List.length (m_disp sp) = 1%nat).
Proof.
  cbv zeta. split; [intros e [<-|[]]; reflexivity|]. split; [intros d e [<-|[<-|[]]] [<-|[]]; cbn; lia|].
  split; [eexists; eexists; split; [left; reflexivity|split; [left; reflexivity|cbn; lia]]|].
  eexists. eexists. split; [vm_compute; reflexivity|]. split; [vm_compute; reflexivity|reflexivity].
Qed.

Print Assumptions C12_disposals_final.
Print Assumptions C12_lookahead_bounded.
Print Assumptions C12_prefix_stable.
