(* C09 - Securities are independent.  Statements only. *)
From Coq Require Import QArith Qcanon ZArith List Bool String.
Require Import CGT.Model.Num CGT.Model.Ledger CGT.Model.Match CGT.Model.Agg CGT.Model.Report
               CGT.Proofs.AggFacts CGT.Proofs.LedgerFacts.
Import ListNotations.

(* The days of security s computed from the whole ledger are those computed from s's lines alone,
   and lines of other securities added to a ledger leave them unchanged. *)
Theorem C09_projection_days : forall l s, days_of_tick (filter (of_tick s) l) s = days_of_tick l s.
Proof. exact days_of_tick_proj. Qed.
Theorem C09_other_lines_inert : forall l l' s, (forall t, In t l' -> of_tick s t = false) ->
  days_of_tick (l ++ l') s = days_of_tick l s.
Proof. exact days_of_tick_other. Qed.

(* Hence the evaluation of s (its error, or its disposals, legs, costs and closing pool) in the whole ledger
   equals its evaluation alone, and is unaffected by any lines of other securities. *)
Theorem C09_projection : forall P l s, eval_tick P (filter (of_tick s) l) s = eval_tick P l s.
Proof. exact eval_tick_proj. Qed.
Theorem C09_other_securities_inert : forall P l l' s, (forall t, In t l' -> of_tick s t = false) ->
  eval_tick P (l ++ l') s = eval_tick P l s.
Proof. exact eval_tick_other. Qed.

Print Assumptions C09_projection_days.
Print Assumptions C09_other_lines_inert.
Print Assumptions C09_projection.
Print Assumptions C09_other_securities_inert.
