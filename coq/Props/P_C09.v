(* C09 - Securities are independent.  Statements only. *)
From Coq Require Import QArith Qcanon ZArith List Bool String.
Require Import CGT.Model.Num CGT.Model.Ledger CGT.Model.Match CGT.Model.Agg CGT.Model.Report
               CGT.Proofs.AggFacts CGT.Proofs.LedgerFacts CGT.Proofs.ReportAdd.
Import ListNotations.

(* The days of security s computed from the whole ledger are those computed from s's lines alone,
   and lines of other securities added to a ledger leave them unchanged. *)
Theorem C09_projection_days : forall l s, days_of_tick (filter (of_tick s) l) s = days_of_tick l s.
Proof. exact days_of_tick_proj. Qed.
Theorem C09_other_lines_inert : forall l l' s, (forall t, In t l' -> of_tick s t = false) ->
  days_of_tick (l ++ l') s = days_of_tick l s.
Proof. exact days_of_tick_other. Qed.

(* Hence the evaluation of s (its error, or its disposals, legs, costs and closing pool) in the whole ledger
   equals its evaluation alone, and is unaffected by any lines of other securities. *)
Theorem C09_projection : forall P l s, eval_tick P (filter (of_tick s) l) s = eval_tick P l s.
Proof. exact eval_tick_proj. Qed.
Theorem C09_other_securities_inert : forall P l l' s, (forall t, In t l' -> of_tick s t = false) ->
  eval_tick P (l ++ l') s = eval_tick P l s.
Proof. exact eval_tick_other. Qed.

(* The report of the whole is the combination of the securities' own reports: its disposals are, up to the order in which they are
   listed, those each security yields from its own lines (none lost to the sort, none merged), and every tax year's total gain and
   total loss are the sums over the securities of the gains and losses of that security's own disposals in that year. *)
Theorem C09_disposals_combine : forall P l,
  Permutation.Permutation (flat_map (fun s => tick_disposals P (filter (of_tick s) l) s) (tickers_of l))
                          (sort_disposals (sec_disposals P (eval_all P l))).
Proof.
  intros P l. erewrite flat_map_ext; [apply sorted_disposals_perm|]. intros s. apply tick_disposals_proj.
Qed.
Theorem C09_year_totals_add : forall P cfg l R y, report_of P cfg None l = inr R -> In y (r_years R) ->
  y_gain y = qsum (map (fun s => qsum (map gain_part (disposals_in P (y_year y) (tick_disposals P (filter (of_tick s) l) s)))) (tickers_of l)) /\
  y_loss y = qsum (map (fun s => qsum (map loss_part (disposals_in P (y_year y) (tick_disposals P (filter (of_tick s) l) s)))) (tickers_of l)) /\
  y_net y = (y_gain y - y_loss y)%Qc.
Proof. exact year_totals_additive. Qed.

Print Assumptions C09_disposals_combine.
Print Assumptions C09_year_totals_add.
Print Assumptions C09_projection_days.
Print Assumptions C09_other_lines_inert.
Print Assumptions C09_projection.
Print Assumptions C09_other_securities_inert.
