(* C11 - Capital returns and accumulations move cost by exactly their amount.  Statements only. *)
From Coq Require Import QArith Qcanon ZArith List Bool Sorted.
Require Import CGT.Model.Num CGT.Model.Match CGT.Proofs.MatchFacts CGT.Proofs.MatchInv CGT.Proofs.MatchCost CGT.Proofs.PrepassFacts.
Require Import CGT.Model.Ledger CGT.Model.Agg CGT.Model.Report CGT.Model.Validate CGT.Proofs.ReportAdd CGT.Proofs.ValidWf.
From Coq Require Import String.
Import ListNotations.
Open Scope Qc_scope.

(* An adjustment a is apportioned in full: the offsets of the lots held rise by exactly a in total. *)
Theorem C11_adjustment_exact : forall ls a, (forall l, In l ls -> 0 <= pl_held l) -> total_held ls <> 0 ->
  offs_total (apply_adj ls a) = offs_total ls + a.
Proof. exact apply_adj_total. Qed.

(* The events of one day: when they are accepted, the total of the offsets moves by exactly the sum of their net
   amounts (accumulation +, capital return -) if the security has been bought and shares are held, and by nothing
   otherwise; the number of shares each lot holds is untouched. *)
Theorem C11_day_events_exact : forall started d es ls ls' b, lots_ok ls b -> apply_evs started d ls es = inr ls' ->
  offs_total ls' = offs_total ls + (if started && negb (qeqb (total_held ls) 0) then qsum (map ev_amount es) else 0) /\
  map pl_held ls' = map pl_held ls /\ lots_ok ls' b.
Proof. exact apply_evs_total. Qed.

(* Over the whole history: the lot offsets add up to exactly the events that took effect. *)
Theorem C11_offsets_total : forall ds started ls ls', wf_days ds -> sorted_days ds ->
  (forall d, In d ds -> lots_ok ls (dt d)) -> prepass started ls ds = inr ls' ->
  offs_total ls' = offs_total ls + effective_total started ls ds.
Proof. exact prepass_total. Qed.

(* ... for every ledger the validator passes and each of its securities: when the cost pre-pass accepts the events, the offsets it
   hands to the lots add up to exactly the net amounts of the events that took effect - no more, no less. *)
Theorem C11_validated_ledgers : forall l s offs, has_errors (map t_op l) = false ->
  prepass false [] (days_of_tick l s) = inr offs -> offs_total offs = effective_total false [] (days_of_tick l s).
Proof.
  intros l s offs Hv Hp. destruct (validated_days l s Hv) as [W S].
  assert (L : forall d, In d (days_of_tick l s) -> lots_ok [] (dt d)) by (intros d _; split; [intros x []|split; [constructor|intros x []]]).
  rewrite (prepass_total _ false [] offs W S L Hp). unfold offs_total. cbn [map]. rewrite CGT.Proofs.NumFacts.qsum_nil. ring.
Qed.
Print Assumptions C11_validated_ledgers.

(* An accumulation and a capital return of equal net amount cancel lot by lot. *)
Theorem C11_cancel : forall ls a, apply_adj (apply_adj ls a) (- a) = ls.
Proof. exact apply_adj_cancel. Qed.

(* A capital return larger than the adjusted cost of the lots still held is refused. *)
Theorem C11_refusal : forall d ls net r, qltb (total_adj_cost ls) net = true ->
  apply_evs true d ls (Cap net :: r) = inl (ECapExceeds d).
Proof. intros d ls net r H. cbn [apply_evs]. rewrite H. reflexivity. Qed.

(* Negative allowable cost CAN be reported (the code apportions by share count but tests the summed cost): a
   witness on the model, which copies the code here - the known finding kf_lot_cost_below_share. *)
Definition c11_lots : list plot :=
  [ {| pl_dt := 1; pl_amt := Q2Qc 1; pl_base := Q2Qc 1000; pl_off := 0; pl_cons := 0 |};
    {| pl_dt := 2; pl_amt := Q2Qc 1000; pl_base := Q2Qc 1; pl_off := 0; pl_cons := Q2Qc 500 |} ].
Theorem C11_nonneg_cost_refuted : exists ls', apply_evs true 3 c11_lots [Cap (Q2Qc 900)] = inr ls' /\
  existsb (fun l => qltb (pl_adj l) 0) ls' = true.
Proof. eexists. split; vm_compute; reflexivity. Qed.

Print Assumptions C11_adjustment_exact.
Print Assumptions C11_day_events_exact.
Print Assumptions C11_offsets_total.
Print Assumptions C11_cancel.
Print Assumptions C11_refusal.
Print Assumptions C11_nonneg_cost_refuted.
