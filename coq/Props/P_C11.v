(* C11 - Capital returns and accumulations move cost by exactly their amount.  Statements only. *)
From Coq Require Import QArith Qcanon ZArith List Bool.
Require Import CGT.Model.Num CGT.Model.Match CGT.Proofs.MatchFacts.
Import ListNotations.
Open Scope Qc_scope.

(* An adjustment a is apportioned in full: the offsets of the lots held rise by exactly a in total. *)
Theorem C11_adjustment_exact : forall ls a, (forall l, In l ls -> 0 <= pl_held l) -> total_held ls <> 0 ->
  offs_total (apply_adj ls a) = offs_total ls + a.
Proof. exact apply_adj_total. Qed.
Print Assumptions C11_adjustment_exact.
