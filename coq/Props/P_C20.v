(* C20 - The MCP server answers every request, statelessly.  Statements only.
   The specification is the stateless server `serve`; that the running server conforms to it (one answer per id,
   same answer for the same request in every session, alive until EOF) is observed by the correspondence check. *)
From Coq Require Import ZArith List Bool.
Require Import CGT.Model.Date CGT.Model.Mcp CGT.Proofs.McpFacts.
Require Import CGT.Model.Agg CGT.Model.Report CGT.Model.Config CGT.Proofs.DateFacts CGT.Proofs.SliceFacts CGT.Proofs.McpExplain.
Import ListNotations.

(* for every finite request sequence the answers are in bijection with the requests that carry an id, in order *)
Theorem C20_one_response_each : forall (Req Ans Id : Type) (handle : Req -> Ans) (id_of : Req -> option Id) rs,
  map fst (serve handle id_of rs) = ids id_of rs.
Proof. intros. apply serve_ids. Qed.
(* what came before never changes an answer: the answers to a ++ b are those to a followed by those to b alone *)
Theorem C20_history_free : forall (Req Ans Id : Type) (handle : Req -> Ans) (id_of : Req -> option Id) a b,
  serve handle id_of (a ++ b) = serve handle id_of a ++ serve handle id_of b.
Proof. intros. apply serve_app. Qed.
Theorem C20_answer_depends_on_request_only : forall (Req Ans Id : Type) (handle : Req -> Ans) (id_of : Req -> option Id) rs i a,
  In (i, a) (serve handle id_of rs) -> exists r, In r rs /\ id_of r = Some i /\ a = handle r.
Proof. intros Req Ans Id handle id_of rs i a. apply serve_answer. Qed.

(* explain_matching asks for the report of the tax year TaxPeriod::from_date assigns to the disposal date,
   so every disposal listed by calculate_report lies in the year explain_matching computes *)
Theorem C20_explain_year : forall d ymin ymax y, tax_year_of_gen 4 6 ymin ymax d = Some y -> explain_year d = y.
Proof. exact explain_year_is_tax_year. Qed.

(* explain_matching can explain every disposal calculate_report lists (report model): whichever tax year's summary of the all-years
   report a disposal x appears in, the report filtered to the year explain_matching derives from x's date lists x, under the same year. *)
Theorem C20_explain_finds_every_disposal : forall cfg l r_all ys x r_y,
  dated_in_sweep (sort_disposals (sec_disposals P0 (eval_all P0 l))) ->
  report_of P0 cfg None l = inr r_all -> In ys (r_years r_all) -> In x (y_disposals ys) ->
  report_of P0 cfg (Some (explain_year (civil_of_days (d_date x)))) l = inr r_y ->
  exists ys', r_years r_y = [ys'] /\ In x (y_disposals ys') /\ y_year ys' = y_year ys.
Proof. exact explain_finds. Qed.
Print Assumptions C20_explain_finds_every_disposal.

Print Assumptions C20_one_response_each.
Print Assumptions C20_history_free.
Print Assumptions C20_answer_depends_on_request_only.
Print Assumptions C20_explain_year.
