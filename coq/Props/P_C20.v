(* C20 - The MCP server answers every request, statelessly.  Statements only.
   The specification is the stateless server `serve`; that the running server conforms to it (one answer per id,
   same answer for the same request in every session, alive until EOF) is observed by the correspondence check. *)
From Coq Require Import ZArith List Bool.
Require Import CGT.Model.Date CGT.Model.Mcp CGT.Proofs.McpFacts.
Require CGT.Model.Dsl.
Require Import CGT.Model.McpTools CGT.Proofs.McpToolsFacts CGT.Proofs.McpEndToEnd.
From Coq Require Import String.
Require Import CGT.Model.Agg CGT.Model.Report CGT.Model.Config CGT.Proofs.DateFacts CGT.Proofs.SliceFacts CGT.Proofs.McpExplain.
Import ListNotations.

(* for every finite request sequence the answers are in bijection with the requests that carry an id, in order *)
Theorem C20_one_response_each : forall (Req Ans Id : Type) (handle : Req -> Ans) (id_of : Req -> option Id) rs,
  map fst (serve handle id_of rs) = ids id_of rs.
Proof. intros. apply serve_ids. Qed.
(* what came before never changes an answer: the answers to a ++ b are those to a followed by those to b alone *)
Theorem C20_history_free : forall (Req Ans Id : Type) (handle : Req -> Ans) (id_of : Req -> option Id) a b,
  serve handle id_of (a ++ b) = serve handle id_of a ++ serve handle id_of b.
Proof. intros. apply serve_app. Qed.
Theorem C20_answer_depends_on_request_only : forall (Req Ans Id : Type) (handle : Req -> Ans) (id_of : Req -> option Id) rs i a,
  In (i, a) (serve handle id_of rs) -> exists r, In r rs /\ id_of r = Some i /\ a = handle r.
Proof. intros Req Ans Id handle id_of rs i a. apply serve_answer. Qed.

(* explain_matching asks for the report of the tax year TaxPeriod::from_date assigns to the disposal date,
   so every disposal listed by calculate_report lies in the year explain_matching computes *)
Theorem C20_explain_year : forall d ymin ymax y, tax_year_of_gen 4 6 ymin ymax d = Some y -> explain_year d = y.
Proof. exact explain_year_is_tax_year. Qed.

(* explain_matching can explain every disposal calculate_report lists (report model): whichever tax year's summary of the all-years
   report a disposal x appears in, the report filtered to the year explain_matching derives from x's date lists x, under the same year. *)
Theorem C20_explain_finds_every_disposal : forall cfg l r_all ys x r_y,
  dated_in_sweep (sort_disposals (sec_disposals P0 (eval_all P0 l))) ->
  report_of P0 cfg None l = inr r_all -> In ys (r_years r_all) -> In x (y_disposals ys) ->
  report_of P0 cfg (Some (explain_year (civil_of_days (d_date x)))) l = inr r_y ->
  exists ys', r_years r_y = [ys'] /\ In x (y_disposals ys') /\ y_year ys' = y_year ys.
Proof. exact explain_finds. Qed.
Print Assumptions C20_explain_finds_every_disposal.

Print Assumptions C20_one_response_each.
Print Assumptions C20_history_free.
Print Assumptions C20_answer_depends_on_request_only.
Print Assumptions C20_explain_year.

(* The tool layer (Model/McpTools.v), for ANY DSL reader, JSON reader, calculator and list of disposals a report carries: *)
Section C20_tools.
  Context {Txs Rep Disp : Type}.
  Context (parse_dsl parse_json : Dsl.text -> option Txs) (is_empty : Txs -> bool) (calc : Txs -> option Z -> option Rep)
          (disposals : Rep -> list Disp) (d_date : Disp -> Date.date) (d_tick : Disp -> Dsl.text).

  (* white space around the transactions argument - any run of HT LF VT FF CR and spaces before and after - changes no tool's answer:
     each tool sees the argument only through the trimmed text *)
  Theorem C20_outer_space_is_ignored : forall a s b y, all_space a -> all_space b ->
    parse_input parse_dsl parse_json (a ++ s ++ b) = parse_input parse_dsl parse_json s /\
    calculate_tool parse_dsl parse_json is_empty calc (a ++ s ++ b) y = calculate_tool parse_dsl parse_json is_empty calc s y.
  Proof.
    intros a s b y Ha Hb. split; [apply parse_input_trim|apply calculate_trim]; apply trim_pad; assumption.
  Qed.

  (* JSON is chosen exactly by a leading '[' of the trimmed text; an empty list is refused by calculate_report *)
  Theorem C20_input_sniffing : forall s, edge_unmodelled (trim s) = false ->
    parse_input parse_dsl parse_json s =
    match (if starts_with_bracket (trim s) then parse_json (trim s) else parse_dsl (trim s)) with Some x => TOk x | None => TErr end.
  Proof. exact (sniff parse_dsl parse_json). Qed.
  Theorem C20_empty_list_refused : forall s y txs, parse_input parse_dsl parse_json s = TOk txs -> is_empty txs = true ->
    calculate_tool parse_dsl parse_json is_empty calc s y = TErr.
  Proof. exact (calculate_refuses_empty parse_dsl parse_json is_empty calc). Qed.

  (* explain_matching finds every disposal that calculate_report of the derived tax year lists, in any letter case of the ticker,
     and answers only with disposals of that report *)
  Theorem C20_explain_tool_finds_listed : forall s ds tk d r x,
    read_iso_date ds = TOk d -> calculate_tool parse_dsl parse_json is_empty calc s (Some (explain_year d)) = TOk r ->
    In x (disposals r) -> d_date x = d -> Dsl.upper_text (d_tick x) = Dsl.upper_text tk ->
    exists x', explain_tool parse_dsl parse_json is_empty calc disposals d_date d_tick s ds tk = TOk x' /\
               In x' (disposals r) /\ d_date x' = d /\ tick_eq_ci (d_tick x') tk = true.
  Proof. exact (explain_finds_listed parse_dsl parse_json is_empty calc disposals d_date d_tick). Qed.
  Theorem C20_explain_tool_only_listed : forall s ds tk x,
    explain_tool parse_dsl parse_json is_empty calc disposals d_date d_tick s ds tk = TOk x ->
    exists d r, read_iso_date ds = TOk d /\ calculate_tool parse_dsl parse_json is_empty calc s (Some (explain_year d)) = TOk r /\
                In x (disposals r) /\ d_date x = d.
  Proof. exact (explain_only_listed parse_dsl parse_json is_empty calc disposals d_date d_tick). Qed.
End C20_tools.
Print Assumptions C20_outer_space_is_ignored.
Print Assumptions C20_input_sniffing.
Print Assumptions C20_empty_list_refused.
Print Assumptions C20_explain_tool_finds_listed.
Print Assumptions C20_explain_tool_only_listed.

Example C20_trim_applies :
  let sp := [Dsl.ch 32; Dsl.ch 10; Dsl.ch 9; Dsl.ch 13; Dsl.ch 12] in
  trim (sp ++ Dsl.T "[1]" ++ sp) = Dsl.T "[1]" /\ starts_with_bracket (trim (sp ++ Dsl.T "[1]")) = true /\
  all_space sp /\ trim [] = [] /\ trim (sp ++ Dsl.T "a b" ++ sp) = Dsl.T "a b".
Proof. cbv zeta. repeat split; vm_compute; reflexivity. Qed.

(* the date argument of explain_matching: the strict shape is read, a well-shaped impossible date is refused, looser shapes are left to chrono *)
Example C20_explain_date_shapes :
  read_iso_date (Dsl.T "2024-06-01") = TOk {| dy := 2024; dm := 6; dd := 1 |} /\ read_iso_date (Dsl.T "2023-02-29") = TErr /\
  read_iso_date (Dsl.T "2024-6-1") = TUnmodelled /\ explain_year {| dy := 2024; dm := 4; dd := 5 |} = 2023%Z /\ explain_year {| dy := 2024; dm := 4; dd := 6 |} = 2024%Z.
Proof. repeat split; vm_compute; reflexivity. Qed.
(* non-vacuity of the tool-layer theorems: with readers that accept, a calculator that lists one disposal and a lower-case ticker asked for,
   explain_tool answers with that disposal; with an empty list calculate_tool refuses *)
Example C20_tools_apply :
  let pd := fun s : Dsl.text => Some (List.length s) in let pj := fun _ : Dsl.text => @None nat in
  let calc := fun (n : nat) (y : option Z) => Some y in
  let disp := fun (_ : option Z) => [({| dy := 2024; dm := 6; dd := 1 |}, Dsl.T "VOD")] in
  explain_tool pd pj (fun n => Nat.eqb n 0) calc disp fst snd (Dsl.T " x ") (Dsl.T "2024-06-01") (Dsl.T "vod") = TOk ({| dy := 2024; dm := 6; dd := 1 |}, Dsl.T "VOD") /\
  calculate_tool pd pj (fun n => Nat.eqb n 0) calc (Dsl.T "  ") None = TErr /\
  explain_tool pd pj (fun n => Nat.eqb n 0) calc disp fst snd (Dsl.T "x") (Dsl.T "2024-06-01") (Dsl.T "BP") = TErr.
Proof. cbv zeta. repeat split; vm_compute; reflexivity. Qed.

(* The two layers together: the tool layer over the report model.  For ANY readers: if the transactions argument is read as the ledger l, every
   disposal x that the all-years report of l lists is explained when explain_matching is asked with x's date (YYYY-MM-DD) and x's ticker in any letter
   case - provided the report of the derived tax year can be computed at all (its exemption is configured), which is the property's own premise that
   calculate_report lists the disposal. *)
Theorem C20_explain_end_to_end : forall cfg (parse_dsl parse_json : Dsl.text -> option (list Ledger.gtxn)) s ds tk l r_all ys x r_y,
  parse_input parse_dsl parse_json s = TOk l -> no_txns l = false ->
  dated_in_sweep (sort_disposals (sec_disposals P0 (eval_all P0 l))) ->
  report_of P0 cfg None l = inr r_all -> In ys (r_years r_all) -> In x (y_disposals ys) ->
  report_of P0 cfg (Some (explain_year (disp_date x))) l = inr r_y ->
  read_iso_date ds = TOk (disp_date x) -> Dsl.upper_text (disp_tick x) = Dsl.upper_text tk ->
  exists x', explain_tool parse_dsl parse_json no_txns (calc_model cfg) listed disp_date disp_tick s ds tk = TOk x' /\
             disp_date x' = disp_date x /\ tick_eq_ci (disp_tick x') tk = true.
Proof. exact explain_end_to_end. Qed.
Print Assumptions C20_explain_end_to_end.
