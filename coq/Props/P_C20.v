(* C20 - The MCP server answers every request, statelessly.  Statements only.
   The specification is the stateless server `serve`; that the running server conforms to it (one answer per id,
   same answer for the same request in every session, alive until EOF) is observed by the correspondence check. *)
From Coq Require Import ZArith List Bool.
Require Import CGT.Model.Date CGT.Model.Mcp CGT.Proofs.McpFacts.
Import ListNotations.

(* for every finite request sequence the answers are in bijection with the requests that carry an id, in order *)
Theorem C20_one_response_each : forall (Req Ans Id : Type) (handle : Req -> Ans) (id_of : Req -> option Id) rs,
  map fst (serve handle id_of rs) = ids id_of rs.
Proof. intros. apply serve_ids. Qed.
(* what came before never changes an answer: the answers to a ++ b are those to a followed by those to b alone *)
Theorem C20_history_free : forall (Req Ans Id : Type) (handle : Req -> Ans) (id_of : Req -> option Id) a b,
  serve handle id_of (a ++ b) = serve handle id_of a ++ serve handle id_of b.
Proof. intros. apply serve_app. Qed.
Theorem C20_answer_depends_on_request_only : forall (Req Ans Id : Type) (handle : Req -> Ans) (id_of : Req -> option Id) rs i a,
  In (i, a) (serve handle id_of rs) -> exists r, In r rs /\ id_of r = Some i /\ a = handle r.
Proof. intros Req Ans Id handle id_of rs i a. apply serve_answer. Qed.

(* explain_matching asks for the report of the tax year TaxPeriod::from_date assigns to the disposal date,
   so every disposal listed by calculate_report lies in the year explain_matching computes *)
Theorem C20_explain_year : forall d ymin ymax y, tax_year_of_gen 4 6 ymin ymax d = Some y -> explain_year d = y.
Proof. exact explain_year_is_tax_year. Qed.

Print Assumptions C20_one_response_each.
Print Assumptions C20_history_free.
Print Assumptions C20_answer_depends_on_request_only.
Print Assumptions C20_explain_year.
