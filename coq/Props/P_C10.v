(* C10 - Splits only rescale.  Statements only. *)
From Coq Require Import QArith Qcanon ZArith List Bool.
Require Import CGT.Model.Num CGT.Model.Ledger CGT.Model.Agg CGT.Proofs.AggFacts.
Open Scope Qc_scope.

Theorem C10_split_unsplit_cancel : forall r, r <> 0 -> ratio_of (Split r) * ratio_of (Unsplit r) = 1.
Proof. exact ratio_split_unsplit. Qed.
Print Assumptions C10_split_unsplit_cancel.
