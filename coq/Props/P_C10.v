(* C10 - Splits only rescale.  Statements only. *)
From Coq Require Import QArith Qcanon ZArith List Bool.
Require Import CGT.Model.Num CGT.Model.Ledger CGT.Model.Agg CGT.Model.Match CGT.Proofs.AggFacts CGT.Proofs.MatchInv
  CGT.Proofs.MatchGauge CGT.Proofs.Examples.
Require Import CGT.Model.Report CGT.Model.Validate CGT.Model.Config CGT.Proofs.LedgerRescale.
From Coq Require Import String.
Import ListNotations.
Open Scope Qc_scope.

Theorem C10_split_unsplit_cancel : forall r, r <> 0 -> ratio_of (Split r) * ratio_of (Unsplit r) = 1.
Proof. exact ratio_split_unsplit. Qed.
Print Assumptions C10_split_unsplit_cancel.

(* Change of units.  Measure day z's share counts in units scaled by any positive factor g z (gend after the last day), each
   day's split ratio becoming ratio * g(next day) / g(day): the run is refused on the same day for the same reason or accepted
   in both cases, and then every money figure (each leg's cost, gross and net proceeds and gain, the pool's cost) is the same,
   each leg's quantity is multiplied by its sale day's factor, and the closing pool by gend.  For ledgers without capital
   events (with them the law fails for model and code alike: known finding D5). *)
Theorem C10_change_of_units : forall (g : Z -> Qc) (gend : Qc) (w : Z) (ds : list day),
  (forall z, 0 < g z) -> ratios_pos ds -> noev ds ->
  match run w ds, run w (gauge g gend ds) with
  | inl e, inl e' => e = e'
  | inr s, inr s' =>
      m_pq s' = m_pq s * gend /\ m_pc s' = m_pc s /\ m_pooled s' = m_pooled s /\
      (forall z, claim_of (m_cl s') z = claim_of (m_cl s) z * g z) /\
      m_disp s' = map (fun p => (fst p, map (scale_leg (g (fst p))) (snd p))) (m_disp s) /\ m_pos s' = m_pos s * gend
  | _, _ => False
  end.
Proof. exact run_gauge. Qed.
Print Assumptions C10_change_of_units.

Theorem C10_scaled_leg_money : forall c l,
  lg_qty (scale_leg c l) = lg_qty l * c /\ lg_cost (scale_leg c l) = lg_cost l /\ lg_gross (scale_leg c l) = lg_gross l /\
  lg_net (scale_leg c l) = lg_net l /\ lg_gain (scale_leg c l) = lg_gain l /\ lg_rule (scale_leg c l) = lg_rule l /\
  lg_acq (scale_leg c l) = lg_acq l /\ lg_sell (scale_leg c l) = lg_sell l.
Proof. intros c l. repeat split. Qed.
Print Assumptions C10_scaled_leg_money.

(* The property's own transformation: the ledger rewritten in post-split units (quantities up to and including the split day D
   multiplied by r, the factor r removed from that day's ratio). *)
Theorem C10_rescale : forall (w D : Z) (r : Qc) (ds : list day),
  0 < r -> sorted_days ds -> In D (dates ds) -> ratios_pos ds -> noev ds ->
  match run w ds, run w (map (rescale_day D r) ds) with
  | inl e, inl e' => e = e'
  | inr s, inr s' =>
      m_pq s' = m_pq s * 1 /\ m_pc s' = m_pc s /\ m_pooled s' = m_pooled s /\
      (forall z, claim_of (m_cl s') z = claim_of (m_cl s) z * split_gauge D r z) /\
      m_disp s' = map (fun p => (fst p, map (scale_leg (if (fst p <=? D)%Z then r else 1)) (snd p))) (m_disp s) /\ m_pos s' = m_pos s * 1
  | _, _ => False
  end.
Proof. exact run_split_rescale. Qed.
Print Assumptions C10_rescale.

(* The property's own words, at the level of ledgers.  l = a ++ sp :: b where sp is a SPLIT of security s with ratio r > 0 on date D;
   l' is the ledger rewritten in post-split units: every BUY and SELL of s dated on or before D has its quantity multiplied by r and its
   unit price divided by r (fees unchanged), the SPLIT line is removed, nothing else changes.  Provided the validator passes l, s has no
   capital-return / accumulation lines (known finding D5 otherwise) and another line of s carries the date D:
   s is refused in l' exactly when it is refused in l, on the same day for the same reason; otherwise the pool's cost and every leg's
   cost, proceeds and gain are the same, the closing pool is the same, and each leg's quantity is multiplied by r up to D and
   unchanged afterwards; and every other security evaluates exactly as before. *)
Theorem C10_ledger_rescale : forall (s : string) (D : Z) (r : Qc) (a b : list gtxn) (sp : gtxn) P, 0 < r ->
  t_date sp = D -> of_tick s sp = true -> t_op sp = Split r ->
  (forall t, In t (a ++ b) -> of_tick s t = true -> no_event_op (t_op t) = true) ->
  In D (map t_date (filter (of_tick s) (a ++ b))) ->
  has_errors (map t_op (a ++ sp :: b)) = false ->
  match sr_res (eval_tick P (a ++ sp :: b) s), sr_res (eval_tick P (map (rescale_line s D r) (a ++ b)) s) with
  | inl e, inl e' => e = e'
  | inr st, inr st' =>
      m_pq st' = m_pq st * 1 /\ m_pc st' = m_pc st /\ m_pooled st' = m_pooled st /\
      (forall z, claim_of (m_cl st') z = claim_of (m_cl st) z * split_gauge D r z) /\
      m_disp st' = map (fun p => (fst p, map (scale_leg (if (fst p <=? D)%Z then r else 1)) (snd p))) (m_disp st) /\ m_pos st' = m_pos st * 1
  | _, _ => False
  end.
Proof. intros s D r a b sp P Hr H1 H2 H3 H4 H5 H6. exact (ledger_rescale s D r Hr a b sp H1 H2 H3 H4 H5 P H6). Qed.
Theorem C10_ledger_rescale_others : forall (s : string) (D : Z) (r : Qc) (a b : list gtxn) (sp : gtxn) P s2,
  of_tick s sp = true -> s2 <> s ->
  eval_tick P (map (rescale_line s D r) (a ++ b)) s2 = eval_tick P (a ++ sp :: b) s2.
Proof. intros s D r a b sp P s2 H Hne. exact (ledger_rescale_others s D r a b sp H P s2 Hne). Qed.
(* non-vacuity at ledger level: BUY 100 @ 1; on the split day SELL 30 @ 2 and SPLIT 2; then BUY 20 @ 3 two days later (a 30-day match across the split) *)
Definition c10_q (z : Z) : Qc := Q2Qc (inject_Z z).
Definition c10_a : list gtxn := [ {| t_date := 10; t_tick := "A"; t_op := Buy (c10_q 100) (c10_q 1) 0 |}; {| t_date := 41; t_tick := "A"; t_op := Sell (c10_q 30) (c10_q 2) 0 |} ].
Definition c10_sp : gtxn := {| t_date := 41; t_tick := "A"; t_op := Split (c10_q 2) |}.
Definition c10_b : list gtxn := [ {| t_date := 43; t_tick := "A"; t_op := Buy (c10_q 20) (c10_q 3) 0 |}; {| t_date := 50; t_tick := "B"; t_op := Buy (c10_q 5) (c10_q 1) 0 |} ].
Example C10_ledger_rescale_applies :
  0 < c10_q 2 /\ (forall t, In t (c10_a ++ c10_b) -> of_tick "A" t = true -> no_event_op (t_op t) = true) /\
  In 41%Z (map t_date (filter (of_tick "A") (c10_a ++ c10_b))) /\ has_errors (map t_op (c10_a ++ c10_sp :: c10_b)) = false /\
  (exists st, sr_res (eval_tick P0 (c10_a ++ c10_sp :: c10_b) "A") = inr st /\ List.length (m_disp st) = 1%nat) /\
  (exists st', sr_res (eval_tick P0 (map (rescale_line "A" 41 (c10_q 2)) (c10_a ++ c10_b)) "A") = inr st').
Proof.
  split; [reflexivity|]. split; [intros t Ht _; cbn [c10_a c10_b app In] in Ht; repeat (destruct Ht as [<-|Ht]; [reflexivity|]); destruct Ht|].
  split; [vm_compute; tauto|]. split; [vm_compute; reflexivity|].
  split; [eexists; split; [vm_compute; reflexivity|reflexivity]|eexists; vm_compute; reflexivity].
Qed.
Print Assumptions C10_ledger_rescale.
Print Assumptions C10_ledger_rescale_others.

(* non-vacuity: ex1 has a split on day 31 with a sale that day matched to a purchase after the split; it is accepted and so is its rescaling *)
Example C10_rescale_applies :
  sorted_days ex1 /\ In 31%Z (dates ex1) /\ ratios_pos ex1 /\ noev ex1 /\
  (exists s, run 30 ex1 = inr s) /\ (exists s', run 30 (map (rescale_day 31 (qz 2)) ex1) = inr s').
Proof.
  split; [exact ex1_sorted|]. split; [cbn; tauto|].
  split; [intros d Hd; apply (ex1_wf d Hd)|].
  split; [intros d Hd; cbn [ex1 In] in Hd; repeat (destruct Hd as [<-|Hd]; [reflexivity|]); destruct Hd|].
  split; eexists; vm_compute; reflexivity.
Qed.
