(* C10 - Splits only rescale.  Statements only. *)
From Coq Require Import QArith Qcanon ZArith List Bool.
Require Import CGT.Model.Num CGT.Model.Ledger CGT.Model.Agg CGT.Model.Match CGT.Proofs.AggFacts CGT.Proofs.MatchInv
  CGT.Proofs.MatchGauge CGT.Proofs.Examples.
Import ListNotations.
Open Scope Qc_scope.

Theorem C10_split_unsplit_cancel : forall r, r <> 0 -> ratio_of (Split r) * ratio_of (Unsplit r) = 1.
Proof. exact ratio_split_unsplit. Qed.
Print Assumptions C10_split_unsplit_cancel.

(* Change of units.  Measure day z's share counts in units scaled by any positive factor g z (gend after the last day), each
   day's split ratio becoming ratio * g(next day) / g(day): the run is refused on the same day for the same reason or accepted
   in both cases, and then every money figure (each leg's cost, gross and net proceeds and gain, the pool's cost) is the same,
   each leg's quantity is multiplied by its sale day's factor, and the closing pool by gend.  For ledgers without capital
   events (with them the law fails for model and code alike: known finding D5). *)
Theorem C10_change_of_units : forall (g : Z -> Qc) (gend : Qc) (w : Z) (ds : list day),
  (forall z, 0 < g z) -> ratios_pos ds -> noev ds ->
  match run w ds, run w (gauge g gend ds) with
  | inl e, inl e' => e = e'
  | inr s, inr s' =>
      m_pq s' = m_pq s * gend /\ m_pc s' = m_pc s /\ m_pooled s' = m_pooled s /\
      (forall z, claim_of (m_cl s') z = claim_of (m_cl s) z * g z) /\
      m_disp s' = map (fun p => (fst p, map (scale_leg (g (fst p))) (snd p))) (m_disp s) /\ m_pos s' = m_pos s * gend
  | _, _ => False
  end.
Proof. exact run_gauge. Qed.
Print Assumptions C10_change_of_units.

Theorem C10_scaled_leg_money : forall c l,
  lg_qty (scale_leg c l) = lg_qty l * c /\ lg_cost (scale_leg c l) = lg_cost l /\ lg_gross (scale_leg c l) = lg_gross l /\
  lg_net (scale_leg c l) = lg_net l /\ lg_gain (scale_leg c l) = lg_gain l /\ lg_rule (scale_leg c l) = lg_rule l /\
  lg_acq (scale_leg c l) = lg_acq l /\ lg_sell (scale_leg c l) = lg_sell l.
Proof. intros c l. repeat split. Qed.
Print Assumptions C10_scaled_leg_money.

(* The property's own transformation: the ledger rewritten in post-split units (quantities up to and including the split day D
   multiplied by r, the factor r removed from that day's ratio). *)
Theorem C10_rescale : forall (w D : Z) (r : Qc) (ds : list day),
  0 < r -> sorted_days ds -> In D (dates ds) -> ratios_pos ds -> noev ds ->
  match run w ds, run w (map (rescale_day D r) ds) with
  | inl e, inl e' => e = e'
  | inr s, inr s' =>
      m_pq s' = m_pq s * 1 /\ m_pc s' = m_pc s /\ m_pooled s' = m_pooled s /\
      (forall z, claim_of (m_cl s') z = claim_of (m_cl s) z * split_gauge D r z) /\
      m_disp s' = map (fun p => (fst p, map (scale_leg (if (fst p <=? D)%Z then r else 1)) (snd p))) (m_disp s) /\ m_pos s' = m_pos s * 1
  | _, _ => False
  end.
Proof. exact run_split_rescale. Qed.
Print Assumptions C10_rescale.

(* non-vacuity: ex1 has a split on day 31 with a sale that day matched to a purchase after the split; it is accepted and so is its rescaling *)
Example C10_rescale_applies :
  sorted_days ex1 /\ In 31%Z (dates ex1) /\ ratios_pos ex1 /\ noev ex1 /\
  (exists s, run 30 ex1 = inr s) /\ (exists s', run 30 (map (rescale_day 31 (qz 2)) ex1) = inr s').
Proof.
  split; [exact ex1_sorted|]. split; [cbn; tauto|].
  split; [intros d Hd; apply (ex1_wf d Hd)|].
  split; [intros d Hd; cbn [ex1 In] in Hd; repeat (destruct Hd as [<-|Hd]; [reflexivity|]); destruct Hd|].
  split; eexists; vm_compute; reflexivity.
Qed.
