(* C18 - Schwab conversion keeps every relevant row and emits valid DSL.  Statements only. *)
From Coq Require Import ZArith NArith List Bool Ascii String Permutation Lia.
Require Import CGT.Model.Date CGT.Model.Dsl CGT.Model.Schwab CGT.Proofs.DslFacts CGT.Proofs.SchwabFacts CGT.Proofs.SchwabConserve CGT.Proofs.SchwabTax.
Require Import CGT.Proofs.DslRound CGT.Proofs.SchwabValid CGT.Proofs.SchwabValid2.
From Coq Require Import QArith.
Import ListNotations.

(* Whatever the free-text fields contain (quotes, '#', CR, LF, tabs ...), a comment line emitted by the
   converter is a blank line for the DSL reader: the text cannot leave its comment. *)
Theorem C18_comment_cannot_escape : forall valid_cur s, parse_line valid_cur (comment_line s) = LBlank.
Proof. exact comment_line_blank. Qed.

(* The chronological sort only rearranges the converted transactions (none lost, none duplicated). *)
Theorem C18_sort_conserves : forall l : list cgt, Permutation l (sort_stable cgt_cmp l).
Proof. intros. apply sort_stable_perm. Qed.

(* A Cancel Sell removes exactly one matching Sell and nothing else; if none matches nothing is removed. *)
Theorem C18_cancel_removes_one : forall c l l', remove_first (is_cancelled c) l = Some l' ->
  exists x, is_cancelled c x = true /\ Permutation l (x :: l').
Proof. intros c l l'. apply remove_first_spec. Qed.
Theorem C18_cancel_unmatched : forall c l, remove_first (is_cancelled c) l = None ->
  forallb (fun x => negb (is_cancelled c x)) l = true.
Proof. intros c l. apply remove_first_none. Qed.

(* Conservation through the whole converter, for exports of any length.  `demanded` lists what the property asks for each decoded
   row: one BUY for a Buy row, one SELL for a Sell row (same date, symbol, quantity, price, fees), one BUY at the vest date and
   vest-date value for an RSU row, nothing for any other row.  Whenever the converter accepts an export, the trades among its
   output lines are - up to order - exactly those, less the sells in `removed`; every removed sell is identical to some Cancel Sell
   row, and there are at most as many of them as Cancel Sell rows (one removal per cancel, `apply_cancels_spec`).  Nothing else is
   dropped and nothing is added. *)
Theorem C18_trades_conserved : forall lb rows aws o, convert lb rows aws = Ok o ->
  exists awards items sorted header removed,
    decode_all rows = Ok items /\
    o_lines o = header ++ flat_map cgt_lines sorted /\
    Permutation (flat_map (demanded lb awards) items) (removed ++ filter is_trade sorted) /\
    (List.length removed <= List.length (flat_map cancels_of items))%nat /\
    Forall (fun x => exists c, In c (flat_map cancels_of items) /\ is_cancelled c x = true) removed.
Proof. exact convert_conserves. Qed.

(* each cancellation removes one sell or is counted once as unmatched: removed + unmatched = cancels *)
Theorem C18_cancels_accounted : forall cs out w out' w', apply_cancels out cs w = (out', w') ->
  exists removed, Permutation out (removed ++ out') /\ (w <= w')%nat /\ (List.length removed + (w' - w) = List.length cs)%nat /\
                  Forall (fun x => exists c, In c cs /\ is_cancelled c x = true) removed.
Proof. exact apply_cancels_spec. Qed.

(* Dividends and withholding keep their totals: for every accepted export, the withholding carried by the emitted DIVIDEND lines
   plus the withholding surfaced as "no dividend on that day" comments (each of which is among the output lines) equals the
   withholding the NRA rows state (rows with a symbol and an amount; amounts added exactly as decimals). *)
Theorem C18_withholding_kept : forall lb rows aws o, convert lb rows aws = Ok o ->
  exists items sorted orphans header,
    decode_all rows = Ok items /\ o_lines o = header ++ flat_map cgt_lines sorted /\
    (forall e, In e orphans -> In (CComment (orphan_comment e)) sorted) /\
    (out_tax sorted + tot orphans == nra_total items)%Q.
Proof. exact convert_keeps_withholding. Qed.
Print Assumptions C18_withholding_kept.

(* non-vacuity: two identical sells, one cancel, a purchase and an irrelevant row - accepted; one sell and the purchase remain *)
Definition c18_row (a d s q p f : string) : row :=
  {| r_action := Some (T a); r_date := Some (T d); r_symbol := Some (T s); r_desc := Some (T "x # y");
     r_qty := Some (T q); r_price := Some (T p); r_fees := Some (T f); r_amount := None |}.
Definition c18_rows : list row :=
  [ c18_row "Sell" "03/05/2024" "ACME" "10" "$12.50" "$0.10"; c18_row "Cancel Sell" "03/05/2024" "ACME" "10" "$12.50" "";
    c18_row "Buy" "01/02/2024" "ACME" "100" "$10.00" "$1.00"; c18_row "Sell" "03/05/2024" "ACME" "10" "$12.50" "$0.10";
    c18_row "Wire Sent" "03/06/2024" "" "" "" "" ].
Example C18_conservation_applies : exists o, convert 7 c18_rows None = Ok o /\
  map string_of_list_ascii (skipn 4 (o_lines o)) =
    ["2024-01-02 BUY ACME 100 @ 10.00 USD FEES 1.00 USD"%string; "2024-03-05 SELL ACME 10 @ 12.50 USD FEES 0.10 USD"%string] /\ o_skipped o = 1%nat.
Proof. eexists. split; [vm_compute; reflexivity|]. split; reflexivity. Qed.

Print Assumptions C18_trades_conserved.
Print Assumptions C18_cancels_accounted.
Print Assumptions C18_comment_cannot_escape.
Print Assumptions C18_sort_conserves.
Print Assumptions C18_cancel_removes_one.
Print Assumptions C18_cancel_unmatched.

(* "The output is valid DSL": every trade and dividend line the converter writes is the DSL writer's own rendering of the transaction the record denotes
   (BUY / SELL with quantity, price in USD and a FEES clause only for a positive fee; DIVIDEND with its total and a TAX clause only for positive withholding), so the
   reader model reads it back; comment lines and the empty header line are blank lines.  Hence, for every export the converter accepts, the output is a header
   followed by the lines of the emitted records, and whenever those records are well-formed (a real date in years 0..9999, a non-empty upper-case alphanumeric
   symbol, non-negative quantity and price, figures the decimal type holds - the clause's own premise) the whole text parses, to exactly the transactions the
   records denote, in the output's order.  C18_output_is_valid_dsl_partial states the premise on the emitted records; C18_output_is_valid_dsl below derives it from the
   decoded export. *)
Theorem C18_lines_are_the_writers : forall d sym q p e c a tax, s_neg q = false -> s_neg p = false -> s_neg a = false ->
  trade_line KW_BUY d sym q p e = print_txn {| x_date := d; x_tick := sym; x_op := DBuy (s_dec q) (usd p) (charge e) |} /\
  txn_of_cgt (CBuy d sym q p e c) = Some {| x_date := d; x_tick := sym; x_op := DBuy (s_dec q) (usd p) (charge e) |} /\
  trade_line KW_SELL d sym q p e = print_txn {| x_date := d; x_tick := sym; x_op := DSell (s_dec q) (usd p) (charge e) |} /\
  dividend_line d sym a tax = print_txn {| x_date := d; x_tick := sym; x_op := DDividend (usd a) (charge tax) |}.
Proof.
  intros d sym q p e c a tax Hq Hp Ha. destruct (trade_line_buy d sym q p e c Hq Hp) as [E1 E2].
  split; [exact E1|]. split; [exact E2|]. split; [exact (trade_line_sell d sym q p e Hq Hp)|exact (dividend_line_print d sym a tax Ha)].
Qed.
Print Assumptions C18_lines_are_the_writers.
Theorem C18_output_is_valid_dsl_partial : forall valid_cur lb rows aws o, convert lb rows aws = Ok o ->
  exists header records, o_lines o = header ++ flat_map cgt_lines records /\
    (Forall (cgt_ok valid_cur) records -> parse valid_cur (join_lines (o_lines o)) = inr (flat_map denotes records)).
Proof. exact convert_output_parses. Qed.
Print Assumptions C18_output_is_valid_dsl_partial.
(* non-vacuity: the records of the example export above are well-formed and its output parses *)
Example C18_valid_dsl_applies : exists o, convert 7 c18_rows None = Ok o /\
  exists ts, parse (fun _ => true) (join_lines (o_lines o)) = inr ts /\ ts <> [].
Proof. eexists. split; [vm_compute; reflexivity|]. eexists. split; [vm_compute; reflexivity|discriminate]. Qed.

(* The clause in full, from the decoded export.  For every export the converter accepts: if its trade rows (Buy, Sell, Cancel Sell), vest rows and dividend rows carry
   real dates in years 0..9999, non-empty upper-case alphanumeric symbols, non-negative quantities and prices and figures the decimal type holds, the awards map (when an
   awards file is given) holds non-negative representable values on real dates, and the day totals of withholding are representable, then the output text parses in the
   reader model - to exactly the transactions the emitted records denote, in the output's order - and every emitted record is well-formed.  (USD and GBP must be codes the
   currency table accepts.)  Chronological order of the output is C18_sort_conserves together with the model's comparator; the premises on decoded rows are what "alphanumeric
   symbols and non-negative quantities and prices" means after decoding. *)
Theorem C18_output_is_valid_dsl : forall valid_cur, wf_cur valid_cur USD -> wf_cur valid_cur GBP ->
  forall lb rows aws o items,
  decode_all rows = Ok items -> Forall item_ok items -> taxes_ok (collect_taxes items []) ->
  (forall a m, aws = Some a -> build_awards a [] = Ok m -> amap_ok m) ->
  convert lb rows aws = Ok o ->
  exists records, Forall (cgt_ok valid_cur) records /\ parse valid_cur (join_lines (o_lines o)) = inr (flat_map denotes records).
Proof. exact convert_valid. Qed.
Print Assumptions C18_output_is_valid_dsl.

(* non-vacuity: the example export above meets every premise (with a currency table that accepts every code) *)
Example C18_valid_dsl_premises_hold : exists items, decode_all c18_rows = Ok items /\ Forall item_ok items /\ taxes_ok (collect_taxes items []) /\
  wf_cur (fun _ => true) USD /\ wf_cur (fun _ => true) GBP.
Proof.
  eexists. split; [vm_compute; reflexivity|]. split; [|split; [constructor|]].
  - repeat constructor; cbn; try reflexivity; try discriminate; try lia.
  - split; eexists; eexists; eexists; (split; [reflexivity|]); repeat split; try reflexivity; discriminate.
Qed.
