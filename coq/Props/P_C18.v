(* C18 - Schwab conversion keeps every relevant row and emits valid DSL.  Statements only. *)
From Coq Require Import ZArith NArith List Bool Ascii String Permutation.
Require Import CGT.Model.Date CGT.Model.Dsl CGT.Model.Schwab CGT.Proofs.DslFacts CGT.Proofs.SchwabFacts.
Import ListNotations.

(* Whatever the free-text fields contain (quotes, '#', CR, LF, tabs ...), a comment line emitted by the
   converter is a blank line for the DSL reader: the text cannot leave its comment. *)
Theorem C18_comment_cannot_escape : forall valid_cur s, parse_line valid_cur (comment_line s) = LBlank.
Proof. exact comment_line_blank. Qed.

(* The chronological sort only rearranges the converted transactions (none lost, none duplicated). *)
Theorem C18_sort_conserves : forall l : list cgt, Permutation l (sort_stable cgt_cmp l).
Proof. intros. apply sort_stable_perm. Qed.

(* A Cancel Sell removes exactly one matching Sell and nothing else; if none matches nothing is removed. *)
Theorem C18_cancel_removes_one : forall c l l', remove_first (is_cancelled c) l = Some l' ->
  exists x, is_cancelled c x = true /\ Permutation l (x :: l').
Proof. intros c l l'. apply remove_first_spec. Qed.
Theorem C18_cancel_unmatched : forall c l, remove_first (is_cancelled c) l = None ->
  forallb (fun x => negb (is_cancelled c x)) l = true.
Proof. intros c l. apply remove_first_none. Qed.

Print Assumptions C18_comment_cannot_escape.
Print Assumptions C18_sort_conserves.
Print Assumptions C18_cancel_removes_one.
Print Assumptions C18_cancel_unmatched.
