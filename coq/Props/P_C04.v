(* C04 - Report arithmetic is self-consistent.  Statements only. *)
From Coq Require Import QArith Qcanon ZArith List Bool.
Require Import CGT.Model.Num CGT.Model.Match CGT.Model.Report CGT.Proofs.MatchFacts.
Import ListNotations.
Open Scope Qc_scope.

Theorem C04_leg_gain : forall d r m acq c,
  lg_gain (mk_leg d r m acq c) = lg_net (mk_leg d r m acq c) - c.
Proof. exact mk_leg_gain. Qed.
Print Assumptions C04_leg_gain.
