(* C04 - Report arithmetic is self-consistent from legs to tax-year totals.  Statements only. *)
From Coq Require Import QArith Qcanon ZArith List Bool Sorted.
Require Import CGT.Model.Num CGT.Model.Ledger CGT.Model.Match CGT.Model.Agg CGT.Model.Report
               CGT.Proofs.MatchFacts CGT.Proofs.MatchInv CGT.Proofs.ReportFacts CGT.Proofs.RoundFacts CGT.Proofs.Examples.
Require Import CGT.Model.Validate CGT.Proofs.ReportAdd CGT.Proofs.ValidWf.
Import ListNotations.
Open Scope Qc_scope.

Theorem C04_leg_gain : forall d r m acq c,
  lg_gain (mk_leg d r m acq c) = lg_net (mk_leg d r m acq c) - c.
Proof. exact mk_leg_gain. Qed.

(* For every accepted, well-formed, date-sorted security ledger and every sale day d, the disposal reported for d:
   its legs' quantities sum to the quantity sold, their gross proceeds sum to quantity x price of that day's sales
   (sgross), their net proceeds to gross minus the sale fees, and their gains to net proceeds minus their total
   allowable cost (all exactly, before the 10-place rounding of the displayed disposal figures). *)
Theorem C04_disposal_arithmetic : forall w ds s, wf_days ds -> sorted_days ds -> run w ds = inr s ->
  Forall2 (fun (x : Z * list leg) (d : day) =>
     fst x = dt d /\
     qsum (map lg_qty (snd x)) = sq d /\
     qsum (map lg_gross (snd x)) = sgross d /\
     qsum (map lg_net (snd x)) = sgross d - sfees d /\
     qsum (map lg_gain (snd x)) = sgross d - sfees d - qsum (map lg_cost (snd x)))
    (m_disp s) (filter hassell ds).
Proof. exact run_disposals_arith. Qed.

(* ... for every validated ledger and each of its securities *)
Theorem C04_validated_ledgers : forall P l s st, has_errors (map t_op l) = false -> sr_res (eval_tick P l s) = inr st ->
  Forall2 (fun (x : Z * list leg) (d : day) =>
     fst x = dt d /\ qsum (map lg_qty (snd x)) = sq d /\ qsum (map lg_gross (snd x)) = sgross d /\
     qsum (map lg_net (snd x)) = sgross d - sfees d /\
     qsum (map lg_gain (snd x)) = sgross d - sfees d - qsum (map lg_cost (snd x)))
    (m_disp st) (filter hassell (days_of_tick l s)).
Proof.
  intros P l s st Hv Hr. destruct (validated_days l s Hv) as [W S]. unfold eval_tick in Hr. cbn [sr_res] in Hr.
  exact (run_disposals_arith _ _ _ W S Hr).
Qed.
Print Assumptions C04_validated_ledgers.

(* the 10-place rounding of a disposal's gross and net figure moves it by at most 5e-11 *)
Theorem C04_rounding_bound : forall n x,
  - (Qc_of_Z 1 / (Qc_of_Z 2 * Qc_of_Z (pow10 n))) <= round_half_even n x - x /\
  round_half_even n x - x <= Qc_of_Z 1 / (Qc_of_Z 2 * Qc_of_Z (pow10 n)).
Proof. exact round_half_even_close. Qed.

(* year totals: net = total gain - total loss = the sum of the disposals' results; gains and losses are the positive
   and the negative parts; taxable = max(0, net - exemption); the count is the number of disposals *)
Theorem C04_year_net : forall P l ex y ds, y_net (mk_ysum P l ex y ds) = qsum (map d_gain ds).
Proof. exact year_net. Qed.
Theorem C04_year_definitions : forall P l ex y ds,
  y_gain (mk_ysum P l ex y ds) = qsum (map gain_part ds) /\ y_loss (mk_ysum P l ex y ds) = qsum (map loss_part ds) /\
  y_net (mk_ysum P l ex y ds) = y_gain (mk_ysum P l ex y ds) - y_loss (mk_ysum P l ex y ds) /\
  y_exempt (mk_ysum P l ex y ds) = ex /\
  y_taxable (mk_ysum P l ex y ds) = qmax 0 (y_net (mk_ysum P l ex y ds) - ex) /\
  y_count (mk_ysum P l ex y ds) = List.length ds.
Proof. intros. repeat split. Qed.
Theorem C04_gain_loss_parts : forall d, gain_part d - loss_part d = d_gain d /\ 0 <= gain_part d /\ 0 <= loss_part d.
Proof. intros d. split; [apply gain_loss_parts|apply year_parts_nonneg]. Qed.

(* an unconfigured tax year is an error, never a zero exemption *)
Theorem C04_exemption_required : forall cfg ys, ex_errors cfg ys = [] -> forall y, In y ys -> exists v, lookup_ex cfg y = Some v.
Proof. exact ex_errors_none. Qed.

Example C04_witness : wf_days ex1 /\ sorted_days ex1 /\ exists s, run 30 ex1 = inr s.
Proof. split; [exact ex1_wf|]. split; [exact ex1_sorted|]. destruct ex1_runs as (s & E & _). exists s. exact E. Qed.

Print Assumptions C04_leg_gain.
Print Assumptions C04_disposal_arithmetic.
Print Assumptions C04_rounding_bound.
Print Assumptions C04_year_net.
Print Assumptions C04_year_definitions.
Print Assumptions C04_gain_loss_parts.
Print Assumptions C04_exemption_required.
