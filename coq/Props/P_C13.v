(* C13 - Layout, comments, case and line endings never change what is parsed.  Statements only. *)
From Coq Require Import ZArith NArith List Bool Ascii String.
Require Import CGT.Model.Date CGT.Model.Dsl CGT.Proofs.DslFacts CGT.Proofs.DslCase.
Import ListNotations.
Open Scope N_scope.

(* A line of blanks, or blanks followed by a '#' comment, contributes nothing; leading blanks never matter. *)
Theorem C13_blank_line : forall valid_cur ws, forallb is_ws ws = true -> parse_line valid_cur ws = LBlank.
Proof. exact parse_line_blank. Qed.
Theorem C13_comment_line : forall valid_cur ws body, forallb is_ws ws = true ->
  forallb (fun c => negb (is_nl c)) body = true -> parse_line valid_cur (ws ++ ch 35 :: body) = LBlank.
Proof. exact parse_line_comment. Qed.
Theorem C13_leading_blanks : forall valid_cur ws seg, forallb is_ws ws = true ->
  parse_line valid_cur (ws ++ seg) = parse_line valid_cur seg.
Proof. exact parse_line_leading. Qed.

(* LF, CRLF and CR (not followed by LF) terminate a segment in exactly the same way, so the list of
   segments - and hence everything parsed - does not depend on the line-ending convention. *)
Theorem C13_line_endings : forall seg rest, no_nl seg ->
  split_lines [] (seg ++ LF ++ rest) = seg :: split_lines [] rest /\
  split_lines [] (seg ++ CRLF ++ rest) = seg :: split_lines [] rest /\
  ((forall c r, rest = c :: r -> code c <> 10) -> split_lines [] (seg ++ CR ++ rest) = seg :: split_lines [] rest).
Proof.
  intros seg rest H. split; [apply split_lines_LF; exact H|]. split; [apply split_lines_CRLF; exact H|].
  intros Hr. apply split_lines_CR; assumption.
Qed.

(* Nothing is silently skipped: when a text is accepted, every segment is a blank/comment line or a
   transaction, and the transactions returned are exactly as many as the transaction segments. *)
Theorem C13_nothing_skipped : forall valid_cur s ts, parse valid_cur s = inr ts ->
  List.length ts = List.length (filter is_tx (map (parse_line valid_cur) (split_lines [] s))) /\
  Forall (fun l => l <> LFail) (map (parse_line valid_cur) (split_lines [] s)).
Proof. exact parse_nothing_skipped. Qed.

(* Letter case: two texts that differ only in the case of letters (keywords, currency codes, tickers, even comments) are read
   identically - same transactions, or the same offending line and reason.  For every text, of any length. *)
Theorem C13_letter_case : forall valid_cur s s', map upper s = map upper s' -> parse valid_cur s = parse valid_cur s'.
Proof. exact parse_case_insensitive. Qed.
Example C13_letter_case_applies :
  let a := T "2024-02-29 buy brk9 1.5 @ 10 usd fees 0.5 # Note" in
  let b := T "2024-02-29 BUY Brk9 1.5 @ 10 USD Fees 0.5 # nOTE" in
  map upper a = map upper b /\ exists t, parse (fun _ => true) a = inr [t] /\ x_tick t = T "BRK9".
Proof. cbv zeta. split; [reflexivity|]. eexists. split; [vm_compute; reflexivity|reflexivity]. Qed.

Print Assumptions C13_letter_case.
Print Assumptions C13_blank_line.
Print Assumptions C13_comment_line.
Print Assumptions C13_leading_blanks.
Print Assumptions C13_line_endings.
Print Assumptions C13_nothing_skipped.
