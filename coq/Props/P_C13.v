(* C13 - Layout, comments, case and line endings never change what is parsed.  Statements only. *)
From Coq Require Import ZArith NArith List Bool Ascii String Lia.
Require Import CGT.Model.Date CGT.Model.Dsl CGT.Proofs.DslFacts CGT.Proofs.DslRound CGT.Proofs.DslCase CGT.Proofs.DslLayout.
Require Import CGT.Generated.Grammar.
Require CGT.Model.Report CGT.Model.Fx CGT.Model.Pipeline CGT.Proofs.PipelineFacts.
Import ListNotations.
Open Scope N_scope.

(* A line of blanks, or blanks followed by a '#' comment, contributes nothing; leading blanks never matter. *)
Theorem C13_blank_line : forall valid_cur ws, forallb is_ws ws = true -> parse_line valid_cur ws = LBlank.
Proof. exact parse_line_blank. Qed.
Theorem C13_comment_line : forall valid_cur ws body, forallb is_ws ws = true ->
  forallb (fun c => negb (is_nl c)) body = true -> parse_line valid_cur (ws ++ ch 35 :: body) = LBlank.
Proof. exact parse_line_comment. Qed.
Theorem C13_leading_blanks : forall valid_cur ws seg, forallb is_ws ws = true ->
  parse_line valid_cur (ws ++ seg) = parse_line valid_cur seg.
Proof. exact parse_line_leading. Qed.

(* LF, CRLF and CR (not followed by LF) terminate a segment in exactly the same way, so the list of
   segments - and hence everything parsed - does not depend on the line-ending convention. *)
Theorem C13_line_endings : forall seg rest, no_nl seg ->
  split_lines [] (seg ++ LF ++ rest) = seg :: split_lines [] rest /\
  split_lines [] (seg ++ CRLF ++ rest) = seg :: split_lines [] rest /\
  ((forall c r, rest = c :: r -> code c <> 10) -> split_lines [] (seg ++ CR ++ rest) = seg :: split_lines [] rest).
Proof.
  intros seg rest H. split; [apply split_lines_LF; exact H|]. split; [apply split_lines_CRLF; exact H|].
  intros Hr. apply split_lines_CR; assumption.
Qed.

(* Nothing is silently skipped: when a text is accepted, every segment is a blank/comment line or a
   transaction, and the transactions returned are exactly as many as the transaction segments. *)
Theorem C13_nothing_skipped : forall valid_cur s ts, parse valid_cur s = inr ts ->
  List.length ts = List.length (filter is_tx (map (parse_line valid_cur) (split_lines [] s))) /\
  Forall (fun l => l <> LFail) (map (parse_line valid_cur) (split_lines [] s)).
Proof. exact parse_nothing_skipped. Qed.

(* The tokens of the reader model are those of the grammar file: coq/Generated/Grammar.v is rewritten from parser.pest on every run
   (command keywords, clause keywords, the words a currency code may not start with, the
   blank characters and the line terminators, each set sorted: the order of alternatives is immaterial, no keyword being a prefix of another);
   a grammar that no longer has these tokens breaks this theorem. *)
Theorem C13_grammar_tokens :
  map T g_commands = [KW_ACCUMULATION; KW_BUY; KW_CAPRETURN; KW_DIVIDEND; KW_SELL; KW_SPLIT; KW_UNSPLIT] /\
  map (fun c => T (snd c)) g_clauses = [AT; KW_TOTAL; KW_FEES; KW_TAX; KW_RATIO] /\
  map T g_currency_excl = [KW_BUY; KW_FEES; KW_RATIO; KW_SELL; KW_TAX; KW_TOTAL] /\
  g_whitespace = [[9]; [32]] /\ g_newline = [[10]; [13]; [13; 10]] /\
  (forall c, is_ws c = true <-> In [code c] [[32]; [9]]) /\ (forall c, is_nl c = true <-> In (code c) [10; 13]).
Proof.
  repeat split; try reflexivity; unfold is_ws, is_nl; intros H.
  - apply orb_true_iff in H. destruct H as [H|H]; apply N.eqb_eq in H; rewrite H; cbn; tauto.
  - cbn in H. destruct H as [H|[H|[]]]; injection H as <-; reflexivity.
  - apply orb_true_iff in H. destruct H as [H|H]; apply N.eqb_eq in H; rewrite H; cbn; tauto.
  - cbn in H. destruct H as [<-|[<-|[]]]; reflexivity.
Qed.
Print Assumptions C13_grammar_tokens.

(* Letter case: two texts that differ only in the case of letters (keywords, currency codes, tickers, even comments) are read
   identically - same transactions, or the same offending line and reason.  For every text, of any length. *)
Theorem C13_letter_case : forall valid_cur s s', map upper s = map upper s' -> parse valid_cur s = parse valid_cur s'.
Proof. exact parse_case_insensitive. Qed.
Example C13_letter_case_applies :
  let a := T "2024-02-29 buy brk9 1.5 @ 10 usd fees 0.5 # Note" in
  let b := T "2024-02-29 BUY Brk9 1.5 @ 10 USD Fees 0.5 # nOTE" in
  map upper a = map upper b /\ exists t, parse (fun _ => true) a = inr [t] /\ x_tick t = T "BRK9".
Proof. cbv zeta. split; [reflexivity|]. eexists. split; [vm_compute; reflexivity|reflexivity]. Qed.

(* Layout.  A file is any sequence of lines, each either a blank/comment line or a well-formed transaction written with: any
   leading blanks; any non-empty run of spaces and tabs at each place where the writer puts one space (chosen independently,
   deco.d_sep); GBP omitted or not after each amount in pounds (d_omit); an absent FEES/TAX clause for a zero amount; any trailing
   blanks and '#' comment (d_tail); each line ended by LF, CRLF or a lone CR (a CR not being followed by an LF), the last line
   ended or not; and the whole in any letter case.  What is read is exactly the list of transactions, in order - for every such
   file, of any length.  (A zero fee or tax comes back as zero GBP.) *)
Theorem C13_layout : forall (valid_cur : text -> bool) (its : list (item * term)) (last : item) (s : text),
  Forall (fun p => item_ok valid_cur (fst p)) its -> item_ok valid_cur last -> terms_ok its last ->
  map upper s = map upper (file_text its last) ->
  parse valid_cur s = inr (List.concat (map item_txn (map fst its ++ [last]))).
Proof. exact parse_file_any_case. Qed.

(* non-vacuity: two transactions laid out with tabs, trailing comments, an omitted GBP, a comment line, CRLF / CR / LF endings, lower case *)
Definition c13_dc : deco :=
  {| d_lead := T "  "; d_sep := fun i => if Nat.even i then T " " else [ch 9; ch 32]; d_omit := fun _ => true; d_tail := T "   # paid by wire" |}.
Definition c13_t1 : dtxn :=
  {| x_date := {| dy := 2024; dm := 2; dd := 29 |}; x_tick := T "BRK9";
     x_op := DBuy {| d_mant := 1500; d_scale := 3 |} {| m_amt := {| d_mant := 12345; d_scale := 2 |}; m_cur := GBP |}
                  {| m_amt := {| d_mant := 5; d_scale := 1 |}; m_cur := T "USD" |} |}.
Definition c13_t2 : dtxn := {| x_date := {| dy := 2025; dm := 1; dd := 1 |}; x_tick := T "X"; x_op := DSplit {| d_mant := 25; d_scale := 1 |} |}.
Definition c13_items : list (item * term) := [ (ITx c13_dc c13_t1, TCRLF); (IBlank (T "# a comment line"), TCR); (ITx c13_dc c13_t2, TLF) ].
Example C13_layout_applies :
  Forall (fun p => item_ok (fun _ => true) (fst p)) c13_items /\ item_ok (fun _ => true) (IBlank []) /\ terms_ok c13_items (IBlank []) /\
  parse (fun _ => true) (map (fun c => if is_upper c then ascii_of_N (code c + 32) else c) (file_text c13_items (IBlank []))) = inr [c13_t1; c13_t2].
Proof.
  assert (Hc : forall a b e, is_upper a = true -> is_upper b = true -> is_upper e = true -> [a; b; e] <> KW_TAX -> [a; b; e] <> KW_BUY ->
               wf_cur (fun _ => true) [a; b; e]).
  { intros a b e Ha Hb He H1 H2. exists a, b, e. repeat split; assumption. }
  assert (Husd : wf_cur (fun _ => true) (T "USD")) by (apply Hc; try reflexivity; discriminate).
  assert (Hgbp : wf_cur (fun _ => true) GBP) by (apply Hc; try reflexivity; discriminate).
  assert (Hdc : deco_ok c13_dc).
  { split; [reflexivity|]. split; [intros i; cbn [c13_dc d_sep]; destruct (Nat.even i); split; first [reflexivity|discriminate]|].
    split; [reflexivity|]. split; [left; reflexivity|reflexivity]. }
  split; [|split; [split; reflexivity|split; [|vm_compute; reflexivity]]].
  - assert (W1 : wf_txn (fun _ => true) c13_t1) by (repeat split; cbn; try reflexivity; try discriminate; try lia; assumption).
    assert (W2 : wf_txn (fun _ => true) c13_t2) by (repeat split; cbn; try reflexivity; try discriminate; try lia; assumption).
    constructor; [split; [exact Hdc|exact W1]|]. constructor; [split; reflexivity|]. constructor; [split; [exact Hdc|exact W2]|constructor].
  - cbn [terms_ok c13_items]. repeat split; try discriminate. intros _ c r E. vm_compute in E. injection E as <- _. discriminate.
Qed.

Print Assumptions C13_layout.
Print Assumptions C13_letter_case.
Print Assumptions C13_blank_line.
Print Assumptions C13_comment_line.
Print Assumptions C13_leading_blanks.
Print Assumptions C13_line_endings.
Print Assumptions C13_nothing_skipped.

(* ... and therefore the report: the whole path from text to report (Model/Pipeline.v) sees a text only through the transactions read from it, so two
   texts that differ only in letter case - or in anything else the reader is proved insensitive to above - give the same report or the same error, for
   any rates, exemptions and year filter *)
Theorem C13_report_depends_on_parse_only : forall valid_cur rates cfg year s s',
  parse valid_cur s = parse valid_cur s' -> Pipeline.pipeline valid_cur rates cfg year s = Pipeline.pipeline valid_cur rates cfg year s'.
Proof. exact PipelineFacts.pipeline_same_parse. Qed.
Theorem C13_report_letter_case : forall valid_cur rates cfg year s s',
  map upper s = map upper s' -> Pipeline.pipeline valid_cur rates cfg year s = Pipeline.pipeline valid_cur rates cfg year s'.
Proof. exact PipelineFacts.pipeline_letter_case. Qed.
Print Assumptions C13_report_depends_on_parse_only.
Print Assumptions C13_report_letter_case.
