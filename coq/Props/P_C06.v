(* C06 - Line order, file split and fill splitting do not matter.  Statements only. *)
From Coq Require Import QArith Qcanon ZArith List Bool String Permutation.
Require Import CGT.Model.Num CGT.Model.Date CGT.Model.Ledger CGT.Model.Match CGT.Model.Agg CGT.Model.Report CGT.Model.Config
               CGT.Proofs.AggFacts CGT.Proofs.LedgerFacts.
Require Import CGT.Proofs.FillFacts.
Require Import CGT.Model.Dsl CGT.Proofs.DslFiles CGT.Proofs.CliFiles.
Require CGT.Model.Cli.
From Coq Require Import Ascii.
Import ListNotations.
Open Scope Qc_scope.

(* A day record depends only on the multiset of lines (events excepted: they are kept in line order). *)
Theorem C06_day_record_perm : forall l l' z, Permutation l l' ->
  let a := mk_day l z in let b := mk_day l' z in
  dt a = dt b /\ bq a = bq b /\ bcost a = bcost b /\ hasbuy a = hasbuy b /\
  sq a = sq b /\ sgross a = sgross b /\ sfees a = sfees b /\ hassell a = hassell b /\ ratio a = ratio b.
Proof. exact mk_day_perm. Qed.

(* The whole report (errors, disposals, legs, year totals, holdings) of any permutation of the lines is the
   same, for every configuration and year filter, provided no security has two CAPRETURN/ACCUMULATION lines
   on one day (those are applied in line order - the known finding kf_same_day_mixed_events). Distributing the
   lines over several files is a special case: the CLI concatenates the files. *)
Theorem C06_perm : forall P cfg yf l l', Permutation l l' -> events_order_free l ->
  report_of P cfg yf l = report_of P cfg yf l'.
Proof. exact report_of_perm. Qed.

(* Fill splitting: a purchase (or a sale) recorded as two same-day fills of the same security with the same total quantity,
   consideration (quantity x price) and fees gives the same report - wherever in the ledger the lines stand; by repetition, any
   number of fills. *)
Theorem C06_buy_fills : forall P cfg yf a b d s q p f q1 p1 f1 q2 p2 f2,
  q1 + q2 = q -> q1 * p1 + q2 * p2 = q * p -> f1 + f2 = f ->
  report_of P cfg yf (a ++ {| t_date := d; t_tick := s; t_op := Buy q p f |} :: b) =
  report_of P cfg yf (a ++ {| t_date := d; t_tick := s; t_op := Buy q1 p1 f1 |} :: {| t_date := d; t_tick := s; t_op := Buy q2 p2 f2 |} :: b).
Proof. intros. apply report_of_fill. apply buy_fills; assumption. Qed.
Theorem C06_sell_fills : forall P cfg yf a b d s q p f q1 p1 f1 q2 p2 f2,
  q1 + q2 = q -> q1 * p1 + q2 * p2 = q * p -> f1 + f2 = f ->
  report_of P cfg yf (a ++ {| t_date := d; t_tick := s; t_op := Sell q p f |} :: b) =
  report_of P cfg yf (a ++ {| t_date := d; t_tick := s; t_op := Sell q1 p1 f1 |} :: {| t_date := d; t_tick := s; t_op := Sell q2 p2 f2 |} :: b).
Proof. intros. apply report_of_fill. apply sell_fills; assumption. Qed.
Print Assumptions C06_buy_fills.
Print Assumptions C06_sell_fills.

(* File split: the CLI joins its input files with a newline.  If each of two files is read successfully, the joined text is read as the
   first list followed by the second - whatever the first file ends with (no final newline, LF, CRLF, or a lone CR that merges with the
   joining LF); by repetition, any number of files.  With C06_perm, how the lines are distributed over files does not matter. *)
Theorem C06_file_join : forall valid_cur s1 s2 t1 t2, parse valid_cur s1 = inr t1 -> parse valid_cur s2 = inr t2 ->
  parse valid_cur (s1 ++ ch 10 :: s2) = inr (t1 ++ t2).
Proof. exact parse_join. Qed.
Print Assumptions C06_file_join.

(* Any number of files, through the command layer (Model/Cli.v): if the files are all readable and each is read successfully, `report` over
   them does exactly what it would do with the concatenation of their transaction lists - for any rate loader, configuration, calculator and
   formatters, any year, format and output path. *)
Theorem C06_files_join : forall valid_cur cs ts, Forall2 (fun c t => parse valid_cur c = inr t) cs ts ->
  parse valid_cur (Cli.join_nl cs) = inr (List.concat ts).
Proof. exact parse_join_all. Qed.
Print Assumptions C06_files_join.
Theorem C06_report_over_files : forall valid_cur (Fx Cfg Rep : Type) (load_fx : option Cli.path -> option Fx) (load_cfg : option Cfg)
    (calc : list dtxn -> option N -> Fx -> Cfg -> option Rep) (fmt_plain fmt_json fmt_pdf : Rep -> option text)
    fs files year fmt output fx cs ts,
  Cli.read_all fs files = Some cs -> Forall2 (fun c t => parse valid_cur c = inr t) cs ts ->
  Cli.report_cmd (parse_opt valid_cur) load_fx load_cfg calc fmt_plain fmt_json fmt_pdf fs files year fmt output fx =
  Cli.report_cmd (fun _ => Some (List.concat ts)) load_fx load_cfg calc fmt_plain fmt_json fmt_pdf fs files year fmt output fx.
Proof. intros vc Fx Cfg Rep lf lc calc f1 f2 f3 fs files year fmt output fx cs ts Hr Hp. exact (report_over_files vc lf lc calc f1 f2 f3 fs files year fmt output fx cs ts Hr Hp). Qed.
Print Assumptions C06_report_over_files.
Example C06_files_join_applies :
  let a := T "2024-01-01 BUY A 10 @ 1" in let b := T "2024-06-01 SELL A 5 @ 2 # sold\n" in let c := T "" in
  exists ta tb, parse (fun _ => true) a = inr [ta] /\ parse (fun _ => true) b = inr [tb] /\ parse (fun _ => true) c = inr [] /\
                parse (fun _ => true) (Cli.join_nl [a; c; b]) = inr [ta; tb].
Proof. cbv zeta. eexists. eexists. repeat split; vm_compute; reflexivity. Qed.

(* non-vacuity: a two-security ledger with a same-day purchase and sale, reversed *)
Definition c06_ledger : list gtxn :=
  [ {| t_date := 738886; t_tick := "A"; t_op := Buy (Q2Qc 100) (Q2Qc 1) (Q2Qc 0) |};
    {| t_date := 738917; t_tick := "B"; t_op := Buy (Q2Qc 5) (Q2Qc 2) (Q2Qc 0) |};
    {| t_date := 738917; t_tick := "A"; t_op := Sell (Q2Qc 30) (Q2Qc 2) (Q2Qc (1 # 2)) |};
    {| t_date := 738917; t_tick := "A"; t_op := Buy (Q2Qc 10) (Q2Qc 3) (Q2Qc 0) |} ].
Example C06_witness : events_order_free c06_ledger /\
  exists r, report_of P0 [(2023%Z, Q2Qc 6000)] None c06_ledger = inr r /\
            report_of P0 [(2023%Z, Q2Qc 6000)] None (rev c06_ledger) = inr r.
Proof.
  split.
  - intros s z. unfold c06_ledger.
    assert (forall l, (forall t, In t l -> evs_of (t_op t) = []) -> flat_map evs_of (map t_op l) = []) as Hnil.
    { induction l as [|t r IH]; intros H; cbn [map flat_map]; [reflexivity|]. rewrite (H t (or_introl eq_refl)), IH; [reflexivity|]. intros x Hx. apply H. right. exact Hx. }
    rewrite Hnil; [cbn; auto|]. intros t Ht. apply filter_In in Ht. destruct Ht as [Ht _]. apply filter_In in Ht. destruct Ht as [Ht _].
    cbn [In] in Ht. repeat (destruct Ht as [<-|Ht]; [reflexivity|]). destruct Ht.
  - eexists. split; [vm_compute; reflexivity|]. vm_compute. reflexivity.
Qed.

Print Assumptions C06_day_record_perm.
Print Assumptions C06_perm.
