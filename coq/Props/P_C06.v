(* C06 - Line order, file split and fill splitting do not matter.  Statements only. *)
From Coq Require Import QArith Qcanon ZArith List Bool Permutation.
Require Import CGT.Model.Num CGT.Model.Ledger CGT.Model.Match CGT.Model.Agg CGT.Proofs.AggFacts.
Import ListNotations.
Open Scope Qc_scope.

(* A day record depends only on the multiset of lines (events excepted: they are kept in line order). *)
Theorem C06_day_record_perm : forall l l' z, Permutation l l' ->
  let a := mk_day l z in let b := mk_day l' z in
  dt a = dt b /\ bq a = bq b /\ bcost a = bcost b /\ hasbuy a = hasbuy b /\
  sq a = sq b /\ sgross a = sgross b /\ sfees a = sfees b /\ hassell a = hassell b /\ ratio a = ratio b.
Proof. exact mk_day_perm. Qed.
Print Assumptions C06_day_record_perm.
