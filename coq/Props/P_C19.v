(* C19 - RSU vests use the nearest vest date within seven days back, never a guess.  Statements only. *)
From Coq Require Import ZArith NArith List Bool Ascii String.
Require Import CGT.Model.Date CGT.Model.Dsl CGT.Model.Schwab CGT.Model.Config CGT.Proofs.SchwabFacts.
Open Scope Z_scope.

(* the look-back window regenerated from awards.rs is the 7 days the property states *)
Theorem C19_window_is_seven : lookback0 = 7%nat.
Proof. reflexivity. Qed.

(* For every awards map, symbol and deposit day z: the lookup returns value v dated e exactly when
   (upper-cased symbol, e) has entry v, z-7 <= e <= z, and no entry exists for any later day up to z:
   the deposit date itself if present, else the closest earlier day at most 7 days back; never a day
   after the deposit, never one more than 7 days before it. *)
Theorem C19_lookup : forall m sym z v e,
  get_fmv 7 m sym z = Some (v, e) <->
  amap_get m (upper_text sym, e) = Some v /\ z - 7 <= e <= z /\
  forall e', e < e' <= z -> amap_get m (upper_text sym, e') = None.
Proof. intros. apply (get_fmv_spec 7). Qed.

(* and it fails exactly when the eight days z-7..z have no entry for the symbol: never a guess *)
Theorem C19_missing : forall m sym z,
  get_fmv 7 m sym z = None <-> forall e, z - 7 <= e <= z -> amap_get m (upper_text sym, e) = None.
Proof. intros. apply (get_fmv_none 7). Qed.

Print Assumptions C19_window_is_seven.
Print Assumptions C19_lookup.
Print Assumptions C19_missing.
