(* C19 - RSU vests use the nearest vest date within seven days back, never a guess.  Statements only. *)
From Coq Require Import ZArith NArith List Bool Ascii String.
Require Import CGT.Model.Date CGT.Model.Dsl CGT.Model.Schwab CGT.Model.Config CGT.Proofs.SchwabFacts CGT.Proofs.SchwabAwards.
Open Scope Z_scope.

(* the look-back window regenerated from awards.rs is the 7 days the property states *)
Theorem C19_window_is_seven : lookback0 = 7%nat.
Proof. reflexivity. Qed.

(* For every awards map, symbol and deposit day z: the lookup returns value v dated e exactly when
   (upper-cased symbol, e) has entry v, z-7 <= e <= z, and no entry exists for any later day up to z:
   the deposit date itself if present, else the closest earlier day at most 7 days back; never a day
   after the deposit, never one more than 7 days before it. *)
Theorem C19_lookup : forall m sym z v e,
  get_fmv 7 m sym z = Some (v, e) <->
  amap_get m (upper_text sym, e) = Some v /\ z - 7 <= e <= z /\
  forall e', e < e' <= z -> amap_get m (upper_text sym, e') = None.
Proof. intros. apply (get_fmv_spec 7). Qed.

(* and it fails exactly when the eight days z-7..z have no entry for the symbol: never a guess *)
Theorem C19_missing : forall m sym z,
  get_fmv 7 m sym z = None <-> forall e, z - 7 <= e <= z -> amap_get m (upper_text sym, e) = None.
Proof. intros. apply (get_fmv_none 7). Qed.

(* Within one awards record the vest-date market value is preferred over the fallback price: the record's details are folded into
   the table; `ins` is true exactly when some detail carries a vest-date value, and only when there is none is the record's
   (first) fallback price stored.  For records with any number of details. *)
Theorem C19_vest_value_preferred : forall a r m m' parent, award_date (aw_date a) = Ok parent -> aw_details a <> nil ->
  build_awards (a :: r) m = Ok m' ->
  exists m1 fb ins, award_details (upper_text (aw_symbol a)) parent (aw_details a) m None false = Ok (m1, fb, ins) /\
    ins = existsb (vest_entry parent) (aw_details a) /\
    build_awards r (if ins then m1 else match fb with Some (dt, f) => amap_put m (upper_text (aw_symbol a), days_of_civil dt) f | None => m end) = Ok m'.
Proof. exact record_prefers_vest. Qed.
Print Assumptions C19_vest_value_preferred.

Print Assumptions C19_window_is_seven.
Print Assumptions C19_lookup.
Print Assumptions C19_missing.
