(* C03 - Allowable expenditure is conserved.  Statements only. *)
From Coq Require Import QArith Qcanon ZArith List Bool.
Require Import CGT.Model.Num CGT.Model.Match CGT.Proofs.MatchFacts.
Import ListNotations.
Open Scope Qc_scope.

(* Removal from the pool at average cost: the leg's cost plus what stays equals what was there. *)
Theorem C03_pool_removal_conserves : forall d s rem,
  legs_cost (fst (fst (pool_step d s rem))) + snd (snd (pool_step d s rem)) = m_pc s.
Proof. exact pool_step_cost. Qed.
Print Assumptions C03_pool_removal_conserves.
