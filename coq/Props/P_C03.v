(* C03 - Allowable expenditure is conserved.  Statements only. *)
From Coq Require Import QArith Qcanon ZArith List Bool Sorted.
Require Import CGT.Model.Num CGT.Model.Match CGT.Proofs.MatchFacts CGT.Proofs.MatchInv CGT.Proofs.MatchCost CGT.Proofs.PrepassFacts CGT.Proofs.Examples.
Require Import CGT.Model.Ledger CGT.Model.Agg CGT.Model.Report CGT.Model.Validate CGT.Proofs.ReportAdd CGT.Proofs.ValidWf.
From Coq Require Import String.
Open Scope Qc_scope.
Import ListNotations.
Open Scope Qc_scope.

(* Removal from the pool at average cost: the leg's cost plus what stays equals what was there. *)
Theorem C03_pool_removal_conserves : forall d s rem,
  legs_cost (fst (fst (pool_step d s rem))) + snd (snd (pool_step d s rem)) = m_pc s.
Proof. exact pool_step_cost. Qed.

(* For every accepted, well-formed, date-sorted security ledger: the allowable cost of all legs of all
   disposals plus the cost left in the closing pool equals the total cost of all purchases
   (quantity x price + fees, bcost) plus the cost offsets the pre-pass attached to them
   (accumulations less capital returns that took effect).  Each pound is used exactly once whichever
   rule matched the shares: same-day, 30-day (claimed ahead, across splits) or pool. *)
Theorem C03_cost_conservation : forall w ds offs s, wf_days ds -> sorted_days ds ->
  prepass false [] ds = inr offs -> run w ds = inr s ->
  qsum (map (fun x : Z * list leg => qsum (map lg_cost (snd x))) (m_disp s)) + m_pc s
  = qsum (map (fun d => if hasbuy d then bcost d + offset_of offs (dt d) else 0) ds).
Proof. exact run_cost_conservation. Qed.

(* The property as stated: the allowable cost of all legs plus the cost left in the closing pool equals the
   total cost of all acquisitions (quantity x price + fees) plus the accumulation amounts minus the net capital
   returns THAT TOOK EFFECT (effective_total: the security had been bought and shares were held, by the pre-pass's
   own bookkeeping, when the event arrived). *)
Theorem C03_full_conservation : forall w ds offs s, wf_days ds -> sorted_days ds ->
  prepass false [] ds = inr offs -> run w ds = inr s ->
  qsum (map (fun x : Z * list leg => qsum (map lg_cost (snd x))) (m_disp s)) + m_pc s
  = qsum (map bcost' ds) + effective_total false [] ds.
Proof. exact run_full_conservation. Qed.

(* ... for every validated ledger and each of its securities *)
Theorem C03_validated_ledgers : forall P l s offs st, has_errors (map t_op l) = false ->
  prepass false [] (days_of_tick l s) = inr offs -> sr_res (eval_tick P l s) = inr st ->
  qsum (map (fun x : Z * list leg => qsum (map lg_cost (snd x))) (m_disp st)) + m_pc st
  = qsum (map bcost' (days_of_tick l s)) + effective_total false [] (days_of_tick l s).
Proof.
  intros P l s offs st Hv Hp Hr. destruct (validated_days l s Hv) as [W S]. unfold eval_tick in Hr. cbn [sr_res] in Hr.
  exact (run_full_conservation (p_window P) _ offs st W S Hp Hr).
Qed.
Print Assumptions C03_validated_ledgers.

(* one adjustment (capital return / accumulation) is apportioned in full over the lots held *)
Theorem C03_adjustment_exact : forall ls a, (forall l, In l ls -> 0 <= pl_held l) -> total_held ls <> 0 ->
  offs_total (apply_adj ls a) = offs_total ls + a.
Proof. exact apply_adj_total. Qed.

Example C03_witness : wf_days ex1 /\ sorted_days ex1 /\ exists offs s, prepass false [] ex1 = inr offs /\ run 30 ex1 = inr s.
Proof. split; [exact ex1_wf|]. split; [exact ex1_sorted|]. eexists. eexists. split; vm_compute; reflexivity. Qed.

Print Assumptions C03_pool_removal_conserves.
Print Assumptions C03_cost_conservation.
Print Assumptions C03_adjustment_exact.
Print Assumptions C03_full_conservation.
