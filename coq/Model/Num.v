(* Exact rational arithmetic helpers. Definitions only plus the qc2q bridge
   (a tactic and the seven rewriting lemmas it needs). *)
From Coq Require Import QArith Qcanon Qround ZArith List Bool Lqa Lia.
Import ListNotations.
Open Scope Qc_scope.

Definition qleb (x y : Qc) : bool := Qle_bool (this x) (this y).
Definition qltb (x y : Qc) : bool := negb (Qle_bool (this y) (this x)).
Definition qeqb (x y : Qc) : bool := Qeq_bool (this x) (this y).
Definition qmin (x y : Qc) : Qc := if qleb x y then x else y.
Definition qmax (x y : Qc) : Qc := if qleb x y then y else x.
Definition qabs (x : Qc) : Qc := if qleb 0 x then x else - x.
Definition qsum (l : list Qc) : Qc := fold_right Qcplus 0 l.
Definition qprod (l : list Qc) : Qc := fold_right Qcmult 1 l.
(* division as the code guards it: callers that test the divisor first *)
Definition qdiv0 (a b : Qc) : Qc := if qeqb b 0 then 0 else a / b.

Definition Qc_of_Z (z : Z) : Qc := Q2Qc (inject_Z z).
Definition pow10 (n : nat) : Z := Z.pow 10 (Z.of_nat n).

(* floor and the two roundings used by the code, at n decimal places *)
Definition qfloor (x : Qc) : Z := Qfloor (this x).
(* half away from zero: sign(x) * floor(|x|*10^n + 1/2) / 10^n *)
Definition round_half_away (n : nat) (x : Qc) : Qc :=
  let s := Qc_of_Z (pow10 n) in
  let a := qabs x * s in
  let r := Qc_of_Z (qfloor (a + Q2Qc (1 # 2))) / s in
  if qleb 0 x then r else - r.
(* half to even (rust_decimal round_dp): floor(a), +1 if frac > 1/2 or (= 1/2 and floor odd) *)
Definition round_half_even (n : nat) (x : Qc) : Qc :=
  let s := Qc_of_Z (pow10 n) in
  let a := qabs x * s in
  let f := qfloor a in
  let fr := a - Qc_of_Z f in
  let h := Q2Qc (1 # 2) in
  let up := if qltb h fr then true else if qeqb fr h then Z.odd f else false in
  let r := Qc_of_Z (if up then f + 1 else f)%Z / s in
  if qleb 0 x then r else - r.

(* ---------- bridge: Qc facts -> Q facts, then lra ---------- *)
Lemma this_plus x y : (this (x + y) == this x + this y)%Q.
Proof. unfold Qcplus, Q2Qc; cbn [this]. apply Qred_correct. Qed.
Lemma this_mult x y : (this (x * y) == this x * this y)%Q.
Proof. unfold Qcmult, Q2Qc; cbn [this]. apply Qred_correct. Qed.
Lemma this_opp x : (this (- x) == - this x)%Q.
Proof. unfold Qcopp, Q2Qc; cbn [this]. apply Qred_correct. Qed.
Lemma this_minus x y : (this (x - y) == this x - this y)%Q.
Proof. unfold Qcminus. rewrite this_plus, this_opp. reflexivity. Qed.
Lemma this_inv x : (this (/ x) == / this x)%Q.
Proof. unfold Qcinv, Q2Qc; cbn [this]. apply Qred_correct. Qed.
Lemma this_div x y : (this (x / y) == this x / this y)%Q.
Proof. unfold Qcdiv. rewrite this_mult, this_inv. reflexivity. Qed.
Lemma Qc_eq_iff x y : x = y <-> (this x == this y)%Q.
Proof. split; [intros ->; reflexivity | apply Qc_is_canon]. Qed.

Ltac qc2q :=
  unfold Qcle, Qclt in *;
  repeat match goal with
  | H : @eq Qc _ _ |- _ => apply Qc_eq_iff in H
  | H : ~ @eq Qc _ _ |- _ => rewrite Qc_eq_iff in H
  end;
  try match goal with
  | |- @eq Qc _ _ => apply Qc_eq_iff
  | |- ~ @eq Qc _ _ => rewrite Qc_eq_iff
  end;
  repeat (rewrite ?this_plus, ?this_mult, ?this_opp, ?this_minus, ?this_div, ?this_inv in * );
  cbn [this Q2Qc] in *; rewrite ?Qred_correct in *.
