(* Model of the Schwab converter (cgt-converter/src/schwab, output.rs) on rows after JSON decoding.
   Definitions only.  A field is `Some s` when the JSON member is a string, `None` when it is absent
   or not a string; trimming and the empty-string filter are part of the model. *)
From Coq Require Import ZArith NArith List Bool Ascii String.
Require Import CGT.Model.Date CGT.Model.Dsl.
Import ListNotations.
Open Scope N_scope.

(* ---------- signed decimals and Schwab's amount spellings ---------- *)
Record sdec := { s_neg : bool; s_dec : dec }.
Definition sdec_is_zero (x : sdec) : bool := d_mant (s_dec x) =? 0.
Definition sabs (x : sdec) : sdec := {| s_neg := false; s_dec := s_dec x |}.
Definition print_sdec (x : sdec) : text := (if s_neg x then [ch 45] else []) ++ print_dec (s_dec x).

(* addition of non-negative decimals (withholding amounts of one day) *)
Definition pow10N (n : nat) : N := N.pow 10 (N.of_nat n).
Definition dec_add (a b : dec) : dec :=
  let sc := Nat.max (d_scale a) (d_scale b) in
  {| d_mant := d_mant a * pow10N (sc - d_scale a) + d_mant b * pow10N (sc - d_scale b); d_scale := sc |}.
(* positive?  (exp > 0, tax > 0) *)
Definition sdec_pos (x : sdec) : bool := negb (s_neg x) && negb (sdec_is_zero x).

Definition is_space (c : ascii) : bool := (code c =? 32) || ((9 <=? code c) && (code c <=? 13)).
Fixpoint ltrim (s : text) : text := match s with c :: r => if is_space c then ltrim r else s | [] => [] end.
Definition trim (s : text) : text := rev (ltrim (rev (ltrim s))).

Inductive ares := AErr | ANone | ASome (x : sdec) | AUnsupported.
Definition is_amount_char (c : ascii) : bool := is_digit c || (code c =? 46) || (code c =? 45) || (code c =? 43) || (code c =? 95).
(* parse_dollar_amount: trim; "" and "--" are blanks; drop '$' and ','; then Decimal::from_str.
   Modelled exactly for -?digits(.digits)? within 96 bits / 28 places; any character that can never be part of a
   decimal is an error; the remaining spellings (+5, 1_000, .5, 5., -0) are outside the model. *)
Definition parse_amount (raw : text) : ares :=
  let t := trim raw in
  match t with
  | [] => ANone
  | _ =>
    if (match t with [a; b] => (code a =? 45) && (code b =? 45) | _ => false end) then ANone else
    let cleaned := filter (fun c => negb ((code c =? 36) || (code c =? 44))) t in
    if negb (forallb is_amount_char cleaned) then AErr else
    let neg := match cleaned with c :: _ => code c =? 45 | [] => false end in
    let body := if neg then tl cleaned else cleaned in
    match lex_decimal body with
    | Some (ip, fp, []) =>
        match parse_dec ip fp with
        | DOk d => if neg && (d_mant d =? 0) then AUnsupported else ASome {| s_neg := neg; s_dec := d |}
        | DUnsupported => AUnsupported
        end
    | _ => match cleaned with [] => AErr | _ => AUnsupported end
    end
  end.

(* ---------- dates: MM/DD/YYYY, "X as of MM/DD/YYYY", "as of MM/DD/YYYY" ---------- *)
Definition AS_OF_MID : text := T " as of ".
Definition AS_OF_PRE : text := T "as of ".
Fixpoint is_prefix (p s : text) : option text :=
  match p, s with
  | [], _ => Some s
  | a :: pr, b :: sr => if code a =? code b then is_prefix pr sr else None
  | _ :: _, [] => None
  end.
(* the text after the FIRST occurrence of pat *)
Fixpoint after_first (pat s : text) : option text :=
  match s with
  | [] => match pat with [] => Some [] | _ => None end
  | c :: r => match is_prefix pat s with Some rest => Some rest | None => after_first pat r end
  end.

Inductive dres := DateOk (d : date) | DateErr | DateUnsupported.
(* chrono %m/%d/%Y on a trimmed string: 1-2 digits, '/', 1-2 digits, '/', 1-4 digits, end *)
Definition parse_mdy (s : text) : dres :=
  let m := fst (span is_digit s) in let r1 := snd (span is_digit s) in
  match r1 with
  | c1 :: r1' =>
      if negb (code c1 =? 47) then (if existsb is_space s then DateUnsupported else DateErr) else
      let d := fst (span is_digit r1') in let r2 := snd (span is_digit r1') in
      match r2 with
      | c2 :: r2' =>
          if negb (code c2 =? 47) then (if existsb is_space s then DateUnsupported else DateErr) else
          let y := fst (span is_digit r2') in let r3 := snd (span is_digit r2') in
          match r3 with
          | [] =>
              let lm := List.length m in let ld := List.length d in let ly := List.length y in
              if (Nat.leb 1 lm && Nat.leb lm 2 && Nat.leb 1 ld && Nat.leb ld 2 && Nat.leb 1 ly && Nat.leb ly 4) then
                let x := {| dy := Z.of_N (digits_val 0 y); dm := Z.of_N (digits_val 0 m); dd := Z.of_N (digits_val 0 d) |} in
                if valid_date x then DateOk x else DateErr
              else DateErr
          | _ => if existsb is_space s then DateUnsupported else DateErr
          end
      | [] => DateErr
      end
  | [] => DateErr
  end.
Definition parse_schwab_date (raw : text) : dres :=
  let t := trim raw in
  match after_first AS_OF_MID t with
  | Some rest => parse_mdy (trim rest)
  | None => match is_prefix AS_OF_PRE t with
            | Some rest => parse_mdy rest
            | None => parse_mdy t
            end
  end.

(* ---------- rows ---------- *)
Record row := { r_action : option text; r_date : option text; r_symbol : option text; r_desc : option text;
                r_qty : option text; r_price : option text; r_fees : option text; r_amount : option text }.
(* get_optional_string: a string member, trimmed, non-empty *)
Definition field (f : option text) : option text :=
  match f with Some s => match trim s with [] => None | t => Some t end | None => None end.

Inductive serr := EInvalidTransaction | EInvalidDate | EInvalidAmount | EMissingFmv | EUnsupported.
Inductive res (A : Type) := Ok (a : A) | Err (e : serr).
Arguments Ok {A}. Arguments Err {A}.

Inductive action :=
| ABuy | ASell | ACancelSell | AStockPlan | ADividendLike | AStockSplit | ANraTax | ANonCgt.
Definition text_eqb (a b : text) : bool := match is_prefix a b with Some [] => true | _ => false end.
Definition classify (a : text) : option action :=
  if text_eqb (T "Buy") a then Some ABuy else if text_eqb (T "Sell") a then Some ASell
  else if text_eqb (T "Cancel Sell") a then Some ACancelSell
  else if text_eqb (T "Stock Plan Activity") a then Some AStockPlan
  else if text_eqb (T "Cash Dividend") a || text_eqb (T "Qualified Dividend") a
       || text_eqb (T "Short Term Cap Gain") a || text_eqb (T "Long Term Cap Gain") a then Some ADividendLike
  else if text_eqb (T "Stock Split") a then Some AStockSplit
  else if text_eqb (T "NRA Tax Adj") a || text_eqb (T "NRA Withholding") a then Some ANraTax
  else if text_eqb (T "Adjustment") a || text_eqb (T "Credit Interest") a || text_eqb (T "Journal") a
       || text_eqb (T "Misc Cash Entry") a || text_eqb (T "MoneyLink Transfer") a || text_eqb (T "Service Fee") a
       || text_eqb (T "Wire Funds Adj") a || text_eqb (T "Wire Sent") a then Some ANonCgt
  else None.

(* decoded rows *)
Inductive item :=
| ITrade (a : action) (d : date) (sym : text) (q p : sdec) (fees : option sdec)
| IStockPlan (d : date) (sym : text) (q : sdec)
| IDividend (d : date) (sym : text) (amount : option sdec)
| ISplit (d : date) (sym : text)
| INra (d : date) (sym : option text) (amount : option sdec)
| INonCgt
| IUnknown (r : row).

Definition req_amount (f : option text) : res sdec :=
  match field f with
  | None => Err EInvalidTransaction
  | Some s => match parse_amount s with
              | AErr => Err EInvalidAmount | ANone => Err EInvalidTransaction
              | ASome x => Ok x | AUnsupported => Err EUnsupported end
  end.
Definition opt_amount (f : option text) : res (option sdec) :=
  match field f with
  | None => Ok None
  | Some s => match parse_amount s with
              | AErr => Err EInvalidAmount | ANone => Ok None
              | ASome x => Ok (Some x) | AUnsupported => Err EUnsupported end
  end.
Definition req_date (s : text) : res date :=
  match parse_schwab_date s with DateOk d => Ok d | DateErr => Err EInvalidDate | DateUnsupported => Err EUnsupported end.

(* parse_common_fields: Date required, Symbol required, then the date is parsed *)
Definition common (r : row) : res (date * text) :=
  match field (r_date r) with
  | None => Err EInvalidTransaction
  | Some ds => match field (r_symbol r) with
               | None => Err EInvalidTransaction
               | Some sym => match req_date ds with Ok d => Ok (d, sym) | Err e => Err e end
               end
  end.

Definition decode (r : row) : res item :=
  match field (r_action r) with
  | None => Err EInvalidTransaction
  | Some a =>
      match classify a with
      | None => Ok (IUnknown r)
      | Some ANonCgt => Ok INonCgt
      | Some ANraTax =>
          match field (r_date r) with
          | None => Err EInvalidTransaction
          | Some ds => match req_date ds with
                       | Err e => Err e
                       | Ok d => match opt_amount (r_amount r) with Err e => Err e | Ok am => Ok (INra d (field (r_symbol r)) am) end
                       end
          end
      | Some AStockSplit => match common r with Err e => Err e | Ok (d, sym) => Ok (ISplit d sym) end
      | Some ADividendLike =>
          match common r with Err e => Err e | Ok (d, sym) =>
          match opt_amount (r_amount r) with Err e => Err e | Ok am => Ok (IDividend d sym am) end end
      | Some AStockPlan =>
          match common r with Err e => Err e | Ok (d, sym) =>
          match req_amount (r_qty r) with Err e => Err e | Ok q => Ok (IStockPlan d sym q) end end
      | Some a' =>
          match common r with Err e => Err e | Ok (d, sym) =>
          match req_amount (r_qty r) with Err e => Err e | Ok q =>
          match req_amount (r_price r) with Err e => Err e | Ok p =>
          match opt_amount (r_fees r) with Err e => Err e | Ok f => Ok (ITrade a' d sym q p f) end end end end
      end
  end.

Fixpoint decode_all (rs : list row) : res (list item) :=
  match rs with
  | [] => Ok []
  | r :: rest => match decode r with
                 | Err e => Err e
                 | Ok i => match decode_all rest with Err e => Err e | Ok is => Ok (i :: is) end
                 end
  end.

(* ---------- awards ---------- *)
Record adetail := { a_fmv_price : option text; a_vest_date : option text; a_vest_fmv : option text }.
Record award := { aw_date : text; aw_action : option text; aw_symbol : text; aw_details : list adetail }.
Definition amap := list ((text * Z) * sdec).         (* (upper symbol, day number) -> FMV; later entries win *)
Definition key_eqb (a b : text * Z) : bool := text_eqb (fst a) (fst b) && (snd a =? snd b)%Z.
Fixpoint amap_get (m : amap) (k : text * Z) : option sdec :=
  match m with [] => None | (k', v) :: r => if key_eqb k' k then Some v else amap_get r k end.
Definition amap_put (m : amap) (k : text * Z) (v : sdec) : amap := (k, v) :: m.   (* newest first: it shadows *)

Inductive aclass := AVesting | ANonVesting | AUnknownAction.
Definition classify_award (a : option text) : aclass :=
  match a with
  | None => AUnknownAction
  | Some s => let t := trim s in
      if text_eqb (T "Deposit") t || text_eqb (T "Lapse") t || text_eqb (T "Sale") t || text_eqb (T "Forced Quick Sell") t then AVesting
      else if text_eqb (T "Wire Transfer") t || text_eqb (T "Tax Withholding") t || text_eqb (T "Tax Reversal") t
              || text_eqb (T "Forced Disbursement") t then ANonVesting
      else AUnknownAction
  end.
(* parse_award_date: chrono %m/%d/%Y on the raw string (no trimming) *)
Definition award_date (s : text) : res date :=
  match parse_mdy s with DateOk d => Ok d | DateErr => Err EInvalidDate | DateUnsupported => Err EUnsupported end.
Definition amount_of (s : text) : res (option sdec) :=
  match parse_amount s with AErr => Err EInvalidAmount | ANone => Ok None | ASome x => Ok (Some x) | AUnsupported => Err EUnsupported end.

(* extract_award_fmv: (date, fmv, is_vest) *)
Definition extract (d : adetail) (parent : date) : res (option date * option sdec * bool) :=
  match a_vest_fmv d with
  | Some vf =>
      match (match a_vest_date d with Some vd => award_date vd | None => Ok parent end) with
      | Err e => Err e
      | Ok vdate => match amount_of vf with Err e => Err e | Ok f => Ok (Some vdate, f, true) end
      end
  | None =>
      match a_fmv_price d with
      | Some fp => match amount_of fp with Err e => Err e | Ok f => Ok (Some parent, f, false) end
      | None => Ok (None, None, false)
      end
  end.

(* the loop over one record's details: map, fallback, inserted *)
Fixpoint award_details (sym : text) (parent : date) (ds : list adetail) (m : amap)
                       (fallback : option (date * sdec)) (inserted : bool) : res (amap * option (date * sdec) * bool) :=
  match ds with
  | [] => Ok (m, fallback, inserted)
  | d :: r =>
      match extract d parent with
      | Err e => Err e
      | Ok (Some dt, Some f, is_vest) =>
          let m' := if is_vest then amap_put m (sym, days_of_civil dt) f else m in
          award_details sym parent r m' (match fallback with None => Some (dt, f) | Some _ => fallback end) (inserted || is_vest)
      | Ok _ => award_details sym parent r m fallback inserted
      end
  end.

Fixpoint build_awards (aws : list award) (m : amap) : res amap :=
  match aws with
  | [] => Ok m
  | a :: r =>
      match award_date (aw_date a) with
      | Err e => Err e
      | Ok parent =>
          match aw_details a with
          | [] => match classify_award (aw_action a) with
                  | AVesting => Err EInvalidTransaction
                  | _ => build_awards r m
                  end
          | ds =>
              match award_details (upper_text (aw_symbol a)) parent ds m None false with
              | Err e => Err e
              | Ok (m1, fb, ins) =>
                  let m2 := if ins then m1 else match fb with Some (dt, f) => amap_put m1 (upper_text (aw_symbol a), days_of_civil dt) f | None => m1 end in
                  build_awards r m2
              end
          end
      end
  end.

(* get_fmv: the exact date, else the closest earlier date at most `lookback` days back *)
Fixpoint lookback_from (m : amap) (sym : text) (z : Z) (k : nat) (back : Z) : option (sdec * Z) :=
  match k with
  | O => None
  | S k' => match amap_get m (sym, z - back)%Z with
            | Some v => Some (v, (z - back)%Z)
            | None => lookback_from m sym z k' (back + 1)%Z
            end
  end.
Definition get_fmv (lookback : nat) (m : amap) (sym : text) (z : Z) : option (sdec * Z) :=
  lookback_from m (upper_text sym) z (S lookback) 0%Z.

(* ---------- conversion ---------- *)
Inductive cgt :=
| CBuy (d : date) (sym : text) (q p exp : sdec) (comment : option text)
| CSell (d : date) (sym : text) (q p exp : sdec)
| CDividend (d : date) (sym : text) (amount tax : sdec)
| CComment (c : text).
Definition szero : sdec := {| s_neg := false; s_dec := {| d_mant := 0; d_scale := 0 |} |}.
Definition sdec_eqb (a b : sdec) : bool :=
  (* Decimal equality is numeric *)
  let sc := Nat.max (d_scale (s_dec a)) (d_scale (s_dec b)) in
  let ma := d_mant (s_dec a) * pow10N (sc - d_scale (s_dec a)) in
  let mb := d_mant (s_dec b) * pow10N (sc - d_scale (s_dec b)) in
  (ma =? mb) && (Bool.eqb (s_neg a) (s_neg b) || (ma =? 0)).

(* tax table: (day, symbol) -> summed |amount| *)
Definition taxes := list ((Z * text) * dec).
Fixpoint tax_add (t : taxes) (z : Z) (sym : text) (a : dec) : taxes :=
  match t with
  | [] => [((z, sym), a)]
  | ((z', s'), v) :: r => if (z' =? z)%Z && text_eqb s' sym then ((z', s'), dec_add v a) :: r else ((z', s'), v) :: tax_add r z sym a
  end.
Fixpoint tax_take (t : taxes) (z : Z) (sym : text) : option dec * taxes :=
  match t with
  | [] => (None, [])
  | ((z', s'), v) :: r => if (z' =? z)%Z && text_eqb s' sym then (Some v, r)
                          else let x := tax_take r z sym in (fst x, ((z', s'), v) :: snd x)
  end.
Fixpoint collect_taxes (is : list item) (t : taxes) : taxes :=
  match is with
  | [] => t
  | INra d (Some sym) (Some a) :: r => collect_taxes r (tax_add t (days_of_civil d) sym (s_dec a))
  | _ :: r => collect_taxes r t
  end.

Definition unknown_comment (r : row) : text :=
  let action := match field (r_action r) with Some a => a | None => T "Unknown" end in
  let sym := match field (r_symbol r) with Some s => s | None => [] end in
  let desc := match field (r_desc r) with Some s => s | None => [] end in
  let dstr := match field (r_date r) with
              | Some ds => match parse_schwab_date ds with DateOk d => print_date d | _ => ds end
              | None => [] end in
  T "SKIPPED: " ++ action ++ T " - " ++ sym ++ T " on " ++ dstr ++ T " (" ++ desc ++ T ")".

Record pstate := { p_out : list cgt; p_skipped : nat; p_taxes : taxes; p_cancels : list (date * text * sdec * sdec);
                   p_warnings : nat }.

Section Convert.
  Context (lookback : nat) (awards : option amap).

  Definition step (st : pstate) (i : item) : res pstate :=
    match i with
    | ITrade ABuy d sym q p f =>
        Ok {| p_out := p_out st ++ [CBuy d sym q p (match f with Some x => x | None => szero end) None];
              p_skipped := p_skipped st; p_taxes := p_taxes st; p_cancels := p_cancels st; p_warnings := p_warnings st |}
    | ITrade ASell d sym q p f =>
        Ok {| p_out := p_out st ++ [CSell d sym q p (match f with Some x => x | None => szero end)];
              p_skipped := p_skipped st; p_taxes := p_taxes st; p_cancels := p_cancels st; p_warnings := p_warnings st |}
    | ITrade _ d sym q p f =>       (* Cancel Sell *)
        Ok {| p_out := p_out st; p_skipped := p_skipped st; p_taxes := p_taxes st;
              p_cancels := p_cancels st ++ [(d, sym, q, p)]; p_warnings := p_warnings st |}
    | IStockPlan d sym q =>
        match awards with
        | None => Err EMissingFmv
        | Some m =>
            match get_fmv lookback m sym (days_of_civil d) with
            | None => Err EMissingFmv
            | Some (fmv, vz) =>
                Ok {| p_out := p_out st ++ [CBuy (civil_of_days vz) sym q fmv szero (Some (T "RSU Vesting - FMV from awards file"))];
                      p_skipped := p_skipped st; p_taxes := p_taxes st; p_cancels := p_cancels st; p_warnings := p_warnings st |}
            end
        end
    | IDividend d sym (Some a) =>
        let x := tax_take (p_taxes st) (days_of_civil d) sym in
        Ok {| p_out := p_out st ++ [CDividend d sym (sabs a) {| s_neg := false; s_dec := match fst x with Some v => v | None => {| d_mant := 0; d_scale := 0 |} end |}];
              p_skipped := p_skipped st; p_taxes := snd x; p_cancels := p_cancels st; p_warnings := p_warnings st |}
    | IDividend _ _ None => Ok st
    | ISplit d sym =>
        Ok {| p_out := p_out st ++ [CComment (T "UNSUPPORTED: Stock split for " ++ sym ++ T " on " ++ print_date d ++
                                              T " - please add SPLIT transaction manually with correct ratio")];
              p_skipped := S (p_skipped st); p_taxes := p_taxes st; p_cancels := p_cancels st; p_warnings := p_warnings st |}
    | INra _ _ _ => Ok st
    | INonCgt => Ok {| p_out := p_out st; p_skipped := S (p_skipped st); p_taxes := p_taxes st; p_cancels := p_cancels st; p_warnings := p_warnings st |}
    | IUnknown r =>
        Ok {| p_out := p_out st ++ [CComment (unknown_comment r)]; p_skipped := S (p_skipped st); p_taxes := p_taxes st;
              p_cancels := p_cancels st; p_warnings := S (p_warnings st) |}
    end.

  Fixpoint steps (st : pstate) (is : list item) : res pstate :=
    match is with
    | [] => Ok st
    | i :: r => match step st i with Err e => Err e | Ok st' => steps st' r end
    end.
End Convert.

(* leftover withholdings, in (date, symbol) order *)
Definition tax_key_cmp (a b : (Z * text) * dec) : comparison :=
  match (fst (fst a) ?= fst (fst b))%Z with
  | Eq => String.compare (string_of_list_ascii (snd (fst a))) (string_of_list_ascii (snd (fst b)))
  | c => c
  end.
Fixpoint insert_sorted {A} (cmp : A -> A -> comparison) (x : A) (l : list A) : list A :=
  match l with
  | [] => [x]
  | y :: r => match cmp x y with Gt => y :: insert_sorted cmp x r | _ => x :: l end
  end.
Definition sort_stable {A} (cmp : A -> A -> comparison) (l : list A) : list A := fold_right (insert_sorted cmp) [] l.

Definition orphan_comment (e : (Z * text) * dec) : text :=
  T "SKIPPED: NRA withholding of " ++ print_dec (snd e) ++ T " USD for " ++ snd (fst e) ++ T " on " ++
  print_date (civil_of_days (fst (fst e))) ++ T " has no dividend on that day".

(* apply_cancellations: each cancel removes the first identical sell, else a warning *)
Definition is_cancelled (c : date * text * sdec * sdec) (t : cgt) : bool :=
  match t with
  | CSell d sym q p _ => (days_of_civil d =? days_of_civil (fst (fst (fst c))))%Z && text_eqb sym (snd (fst (fst c)))
                         && sdec_eqb q (snd (fst c)) && sdec_eqb p (snd c)
  | _ => false
  end.
Fixpoint remove_first (f : cgt -> bool) (l : list cgt) : option (list cgt) :=
  match l with
  | [] => None
  | x :: r => if f x then Some r else match remove_first f r with Some r' => Some (x :: r') | None => None end
  end.
Fixpoint apply_cancels (out : list cgt) (cs : list (date * text * sdec * sdec)) (warn : nat) : list cgt * nat :=
  match cs with
  | [] => (out, warn)
  | c :: r => match remove_first (is_cancelled c) out with
              | Some out' => apply_cancels out' r warn
              | None => apply_cancels out r (S warn)
              end
  end.

(* chronological stable sort, comments (no date) first *)
Definition cgt_key (t : cgt) : option Z :=
  match t with
  | CBuy d _ _ _ _ _ | CSell d _ _ _ _ | CDividend d _ _ _ => Some (days_of_civil d)
  | CComment _ => None
  end.
Definition cgt_cmp (a b : cgt) : comparison :=
  match cgt_key a, cgt_key b with
  | None, None => Eq | None, Some _ => Lt | Some _, None => Gt
  | Some x, Some y => (x ?= y)%Z
  end.

(* ---------- output ---------- *)
Definition sanitize (s : text) : text := map (fun c => if is_nl c then ch 32 else c) s.
Definition comment_line (s : text) : text := T "# " ++ sanitize s.
Definition USD : text := T "USD".
Definition trade_line (kw : text) (d : date) (sym : text) (q p exp : sdec) : text :=
  print_date d ++ SP ++ kw ++ SP ++ sym ++ SP ++ print_sdec q ++ T " @ " ++ print_sdec p ++ SP ++ USD ++
  (if sdec_pos exp then T " FEES " ++ print_sdec exp ++ SP ++ USD else []).
Definition dividend_line (d : date) (sym : text) (a tax : sdec) : text :=
  print_date d ++ T " DIVIDEND " ++ sym ++ T " TOTAL " ++ print_sdec a ++ SP ++ USD ++
  (if sdec_pos tax then T " TAX " ++ print_sdec tax ++ SP ++ USD else []).
Definition cgt_lines (t : cgt) : list text :=
  match t with
  | CBuy d sym q p e c => (match c with Some c' => [comment_line c'] | None => [] end) ++ [trade_line KW_BUY d sym q p e]
  | CSell d sym q p e => [trade_line KW_SELL d sym q p e]
  | CDividend d sym a tax => [dividend_line d sym a tax]
  | CComment c => [comment_line c]
  end.
Definition nat_text (n : nat) : text := digits_of (N.of_nat n).

Record output := { o_lines : list text; o_warnings : nat; o_skipped : nat }.

Definition convert (lookback : nat) (rows : list row) (aws : option (list award)) : res output :=
  match (match aws with Some a => match build_awards a [] with Ok m => Ok (Some m) | Err e => Err e end | None => Ok None end) with
  | Err e => Err e
  | Ok awards =>
      match decode_all rows with
      | Err e => Err e
      | Ok items =>
          let has_spa := existsb (fun i => match i with IStockPlan _ _ _ => true | _ => false end) items in
          let w0 := match awards with None => if has_spa then 1%nat else 0%nat | Some _ => 0%nat end in
          let st0 := {| p_out := []; p_skipped := 0; p_taxes := collect_taxes items []; p_cancels := []; p_warnings := w0 |} in
          match steps lookback awards st0 items with
          | Err e => Err e
          | Ok st =>
              let orphans := sort_stable tax_key_cmp (p_taxes st) in
              let out1 := p_out st ++ map (fun e => CComment (orphan_comment e)) orphans in
              let x := apply_cancels out1 (p_cancels st) (p_warnings st + List.length orphans) in
              let sorted := sort_stable cgt_cmp (fst x) in
              let skipped := (p_skipped st + List.length orphans)%nat in
              let header := [comment_line (T "Converted from Charles Schwab export");
                             comment_line (T "Source files: transactions.json" ++ (match aws with Some _ => T ", awards.json" | None => [] end))] ++
                            (if Nat.ltb 0 skipped then [comment_line (T "SKIPPED: " ++ nat_text skipped ++ T " transactions not CGT-relevant")] else []) ++
                            [[]] in
              Ok {| o_lines := header ++ flat_map cgt_lines sorted; o_warnings := snd x; o_skipped := skipped |}
          end
      end
  end.
