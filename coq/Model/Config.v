(* The parameter record instantiated with the constants regenerated from the source. *)
From Coq Require Import ZArith.
Require Import CGT.Generated.Params CGT.Model.Report.
Definition P0 : params :=
  {| p_window := bnb_window; p_bm := ty_month; p_bd := ty_day; p_em := ty_end_month; p_ed := ty_end_day;
     p_ymin := ty_min; p_ymax := ty_max; p_round := Z.to_nat disp_round |}.

(* the RSU look-back window in days, regenerated from awards.rs *)
Definition lookback0 : nat := Z.to_nat fmv_lookback.
