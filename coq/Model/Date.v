(* Civil calendar: proleptic Gregorian, day numbers as chrono's num_days_from_ce
   (0001-01-01 = 1). Definitions only. *)
From Coq Require Import ZArith Bool.
Open Scope Z_scope.

Record date := { dy : Z; dm : Z; dd : Z }.

Definition is_leap (y : Z) : bool :=
  ((y mod 4 =? 0) && negb (y mod 100 =? 0)) || (y mod 400 =? 0).
Definition days_in_month (y m : Z) : Z :=
  if (m =? 2) then (if is_leap y then 29 else 28)
  else if (m =? 4) || (m =? 6) || (m =? 9) || (m =? 11) then 30 else 31.
Definition valid_date (x : date) : bool :=
  (1 <=? dm x) && (dm x <=? 12) && (1 <=? dd x) && (dd x <=? days_in_month (dy x) (dm x)).

(* days from civil (Hinnant), shifted so that 0001-01-01 = 1 *)
Definition days_of_civil (x : date) : Z :=
  let y := if dm x <=? 2 then dy x - 1 else dy x in
  let era := y / 400 in
  let yoe := y - era * 400 in
  let mp := if dm x >? 2 then dm x - 3 else dm x + 9 in
  let doy := (153 * mp + 2) / 5 + dd x - 1 in
  let doe := yoe * 365 + yoe / 4 - yoe / 100 + doy in
  era * 146097 + doe - 305.

Definition civil_of_days (n : Z) : date :=
  let z := n + 305 in
  let era := z / 146097 in
  let doe := z - era * 146097 in
  let yoe := (doe - doe / 1460 + doe / 36524 - doe / 146096) / 365 in
  let y := yoe + era * 400 in
  let doy := doe - (365 * yoe + yoe / 4 - yoe / 100) in
  let mp := (5 * doy + 2) / 153 in
  let d := doy - (153 * mp + 2) / 5 + 1 in
  let m := if mp <? 10 then mp + 3 else mp - 9 in
  {| dy := if m <=? 2 then y + 1 else y; dm := m; dd := d |}.

Definition date_compare (a b : date) : comparison :=
  match dy a ?= dy b with
  | Eq => match dm a ?= dm b with Eq => dd a ?= dd b | c => c end
  | c => c
  end.
Definition date_leb (a b : date) : bool := match date_compare a b with Gt => false | _ => true end.
Definition date_ltb (a b : date) : bool := match date_compare a b with Lt => true | _ => false end.

(* TaxPeriod::from_date: Some start-year, None for every error the code raises
   (year not representable as u16, or outside MIN..MAX). The constants are
   regenerated from the source into Generated/Params.v and passed in. *)
Definition tax_year_of_gen (bm bd ymin ymax : Z) (x : date) : option Z :=
  let before := (dm x <? bm) || ((dm x =? bm) && (dd x <? bd)) in
  let sy := if before then dy x - 1 else dy x in
  if (sy <? 0) || (65535 <? sy) then None
  else if (ymin <=? sy) && (sy <=? ymax) then Some sy else None.
