(* The JSON form of a transaction: models.rs (Transaction / Operation serde impls, action normalisation, positivity
   checks) and cgt-money amount.rs (CurrencyAmount as {amount,currency} or a plain GBP string), at the level of JSON
   value trees.  serde_json's text <-> tree layer is library code and is not modelled.  Definitions only. *)
From Coq Require Import ZArith NArith List Bool Ascii String.
Require Import CGT.Model.Date CGT.Model.Dsl.
Import ListNotations.
Open Scope N_scope.

(* a JSON value as far as a transaction needs it: strings, objects, and everything else (numbers, null, booleans, arrays) *)
Inductive jv := JStr (s : text) | JObj (fs : list (text * jv)) | JOther.

Fixpoint teqb (a b : text) : bool :=
  match a, b with
  | [], [] => true
  | x :: a', y :: b' => (code x =? code y) && teqb a' b'
  | _, _ => false
  end.
Fixpoint jlookup (k : text) (fs : list (text * jv)) : option jv :=
  match fs with [] => None | (k', v) :: r => if teqb k k' then Some v else jlookup k r end.
Definition has_key (k : text) (fs : list (text * jv)) : bool := match jlookup k fs with Some _ => true | None => false end.
Fixpoint has_dup (fs : list (text * jv)) : bool :=
  match fs with [] => false | (k, _) :: r => has_key k r || has_dup r end.

(* ---------- the writer: #[derive(Serialize)] on Transaction (flattened, tagged operation), CurrencyAmount::serialize ---------- *)
Definition K_DATE := T "date". Definition K_TICKER := T "ticker". Definition K_ACTION := T "action".
Definition K_AMOUNT := T "amount". Definition K_PRICE := T "price". Definition K_FEES := T "fees".
Definition K_TOTAL_VALUE := T "total_value". Definition K_TAX_PAID := T "tax_paid". Definition K_RATIO := T "ratio".
Definition K_CURRENCY := T "currency". Definition K_GBP := T "gbp".
Definition A_CAP_RETURN := T "CAP_RETURN".

Definition j_dec (d : dec) : jv := JStr (print_dec d).
Definition j_money (m : money) : jv := JObj [(K_AMOUNT, j_dec (m_amt m)); (K_CURRENCY, JStr (m_cur m))].
Definition j_op (o : dop) : list (text * jv) :=
  match o with
  | DBuy q p f => [(K_ACTION, JStr KW_BUY); (K_AMOUNT, j_dec q); (K_PRICE, j_money p); (K_FEES, j_money f)]
  | DSell q p f => [(K_ACTION, JStr KW_SELL); (K_AMOUNT, j_dec q); (K_PRICE, j_money p); (K_FEES, j_money f)]
  | DDividend tv tx => [(K_ACTION, JStr KW_DIVIDEND); (K_TOTAL_VALUE, j_money tv); (K_TAX_PAID, j_money tx)]
  | DAccumulation q tv tx => [(K_ACTION, JStr KW_ACCUMULATION); (K_AMOUNT, j_dec q); (K_TOTAL_VALUE, j_money tv); (K_TAX_PAID, j_money tx)]
  | DCapReturn q tv f => [(K_ACTION, JStr KW_CAPRETURN); (K_AMOUNT, j_dec q); (K_TOTAL_VALUE, j_money tv); (K_FEES, j_money f)]
  | DSplit r => [(K_ACTION, JStr KW_SPLIT); (K_RATIO, j_dec r)]
  | DUnsplit r => [(K_ACTION, JStr KW_UNSPLIT); (K_RATIO, j_dec r)]
  end.
Definition to_json (t : dtxn) : jv :=
  JObj ((K_DATE, JStr (print_date (x_date t))) :: (K_TICKER, JStr (x_tick t)) :: j_op (x_op t)).

(* ---------- the reader ---------- *)
(* JUnmodelled marks inputs whose treatment belongs to a library and is not modelled: decimal strings other than
   digits(.digits)? (signs, exponents, more than 28 places), JSON numbers where a decimal is expected, dates not in
   the strict YYYY-MM-DD shape (chrono reads some looser shapes), non-ASCII tickers and actions (Unicode upper-casing),
   duplicate keys (serde's flatten buffer decides). *)
Inductive jres (A : Type) := JOk (a : A) | JReject | JUnmodelled.
Arguments JOk {A} a. Arguments JReject {A}. Arguments JUnmodelled {A}.
Definition jbind {A B} (r : jres A) (f : A -> jres B) : jres B :=
  match r with JOk a => f a | JReject => JReject | JUnmodelled => JUnmodelled end.

Definition is_ascii_text (s : text) : bool := forallb (fun c => code c <? 128) s.

Definition read_dec (j : jv) : jres dec :=
  match j with
  | JStr s => match lex_decimal s with
              | Some (ip, fp, []) => match parse_dec ip fp with DOk d => JOk d | DUnsupported => JUnmodelled end
              | _ => JUnmodelled
              end
  | JObj _ => JReject
  | JOther => JUnmodelled
  end.

Section WithCurrencies.
  Context (valid_cur : text -> bool).      (* Currency::from_code succeeds (exact, upper-case codes only) *)

  (* CurrencyAmountVisitor: a plain string is pounds; an object needs amount and currency, refuses the legacy gbp key
     and ignores other keys *)
  Definition read_money (j : jv) : jres money :=
    match j with
    | JStr _ => jbind (read_dec j) (fun d => JOk {| m_amt := d; m_cur := GBP |})
    | JObj fs =>
        if has_dup fs then JUnmodelled else
        if has_key K_GBP fs then JReject else
        match jlookup K_AMOUNT fs with
        | None => JReject
        | Some a => jbind (read_dec a) (fun d =>
            match jlookup K_CURRENCY fs with
            | Some (JStr c) => if valid_cur c then JOk {| m_amt := d; m_cur := c |} else JReject
            | _ => JReject
            end)
        end
    | JOther => JUnmodelled
    end.

  Definition req {A} (rd : jv -> jres A) (k : text) (fs : list (text * jv)) : jres A :=
    match jlookup k fs with None => JReject | Some v => rd v end.
  (* #[serde(default)]: an absent fee or tax is zero pounds *)
  Definition opt_money (k : text) (fs : list (text * jv)) : jres money :=
    match jlookup k fs with None => JOk zero_gbp | Some v => read_money v end.
  (* validate_positive / validate_positive_ratio *)
  Definition pos_check (d : dec) : jres dec := if d_mant d =? 0 then JReject else JOk d.
  Definition pos_dec (k : text) (fs : list (text * jv)) : jres dec := jbind (req read_dec k fs) pos_check.

  (* normalize_operation_action, then the tagged enum *)
  Definition read_op (fs : list (text * jv)) : jres dop :=
    match jlookup K_ACTION fs with
    | Some (JStr a) =>
        if negb (is_ascii_text a) then JUnmodelled else
        let u := upper_text a in
        let u := if teqb u A_CAP_RETURN then KW_CAPRETURN else u in
        let trade mk := jbind (pos_dec K_AMOUNT fs) (fun q => jbind (req read_money K_PRICE fs) (fun p =>
                        jbind (opt_money K_FEES fs) (fun f => JOk (mk q p f)))) in
        if teqb u KW_BUY then trade DBuy
        else if teqb u KW_SELL then trade DSell
        else if teqb u KW_DIVIDEND then
          jbind (req read_money K_TOTAL_VALUE fs) (fun tv => jbind (opt_money K_TAX_PAID fs) (fun tx => JOk (DDividend tv tx)))
        else if teqb u KW_ACCUMULATION then
          jbind (pos_dec K_AMOUNT fs) (fun q => jbind (req read_money K_TOTAL_VALUE fs) (fun tv =>
          jbind (opt_money K_TAX_PAID fs) (fun tx => JOk (DAccumulation q tv tx))))
        else if teqb u KW_CAPRETURN then
          jbind (pos_dec K_AMOUNT fs) (fun q => jbind (req read_money K_TOTAL_VALUE fs) (fun tv =>
          jbind (opt_money K_FEES fs) (fun f => JOk (DCapReturn q tv f))))
        else if teqb u KW_SPLIT then jbind (pos_dec K_RATIO fs) (fun r => JOk (DSplit r))
        else if teqb u KW_UNSPLIT then jbind (pos_dec K_RATIO fs) (fun r => JOk (DUnsplit r))
        else JReject
    | _ => JReject
    end.

  Definition read_date (j : jv) : jres date :=
    match j with
    | JStr s => match p_date s with
                | POk d None [] => JOk d
                | POk _ (Some _) [] => JReject
                | _ => JUnmodelled
                end
    | _ => JReject
    end.
  Definition read_ticker (j : jv) : jres text :=
    match j with
    | JStr s => if is_ascii_text s then JOk (upper_text s) else JUnmodelled
    | _ => JReject
    end.

  Definition read_txn (j : jv) : jres dtxn :=
    match j with
    | JObj fs =>
        if has_dup fs then JUnmodelled else
        jbind (req read_date K_DATE fs) (fun d => jbind (req read_ticker K_TICKER fs) (fun tk =>
        jbind (read_op fs) (fun o => JOk {| x_date := d; x_tick := tk; x_op := o |})))
    | _ => JReject
    end.

  Fixpoint read_txns (js : list jv) : jres (list dtxn) :=
    match js with
    | [] => JOk []
    | j :: r => jbind (read_txn j) (fun t => jbind (read_txns r) (fun ts => JOk (t :: ts)))
    end.
End WithCurrencies.
