(* Normalisation of a GBP ledger: per security, per calendar day.  Definitions only. *)
From Coq Require Import QArith Qcanon ZArith List Bool String Ascii.
Require Import CGT.Model.Num CGT.Model.Ledger CGT.Model.Match.
Import ListNotations.
Open Scope Qc_scope.

(* insertion into a strictly sorted list without duplicates *)
Section SortUniq.
  Context {A : Type} (cmp : A -> A -> comparison).
  Fixpoint insert_uniq (x : A) (l : list A) : list A :=
    match l with
    | [] => [x]
    | y :: r => match cmp x y with
                | Lt => x :: l
                | Eq => l
                | Gt => y :: insert_uniq x r
                end
    end.
  Definition sort_uniq (l : list A) : list A := fold_right insert_uniq [] l.
End SortUniq.

Definition tick_eqb (a b : string) : bool := String.eqb a b.

Definition buy_q (o : op Qc) : Qc := match o with Buy q _ _ => q | _ => 0 end.
Definition buy_cost (o : op Qc) : Qc := match o with Buy q p f => q * p + f | _ => 0 end.
Definition is_buy (o : op Qc) : bool := match o with Buy _ _ _ => true | _ => false end.
Definition sell_q (o : op Qc) : Qc := match o with Sell q _ _ => q | _ => 0 end.
Definition sell_gross (o : op Qc) : Qc := match o with Sell q p _ => q * p | _ => 0 end.
Definition sell_fees (o : op Qc) : Qc := match o with Sell _ _ f => f | _ => 0 end.
Definition is_sell (o : op Qc) : bool := match o with Sell _ _ _ => true | _ => false end.
Definition evs_of (o : op Qc) : list ev :=
  match o with
  | CapReturn _ tv f => [Cap (tv - f)]
  | Accumulation _ tv _ => [Acc tv]
  | _ => []
  end.
(* SPLIT r multiplies, UNSPLIT r divides; the code skips an UNSPLIT of ratio 0 *)
Definition ratio_of (o : op Qc) : Qc :=
  match o with
  | Split r => r
  | Unsplit r => if qeqb r 0 then 1 else / r
  | _ => 1
  end.

Definition on_date (z : Z) (t : gtxn) : bool := (t_date t =? z)%Z.
Definition of_tick (s : string) (t : gtxn) : bool := tick_eqb (t_tick t) s.

(* the day record of security-ledger [l] for date z *)
Definition mk_day (l : list gtxn) (z : Z) : day :=
  let os := map t_op (filter (on_date z) l) in
  {| dt := z;
     bq := qsum (map buy_q os); bcost := qsum (map buy_cost os); hasbuy := existsb is_buy os;
     sq := qsum (map sell_q os); sgross := qsum (map sell_gross os); sfees := qsum (map sell_fees os);
     hassell := existsb is_sell os;
     evs := flat_map evs_of os;
     ratio := qprod (map ratio_of os) |}.

Definition dates_of (l : list gtxn) : list Z := sort_uniq Z.compare (map t_date l).
Definition days_of (l : list gtxn) : list day := map (mk_day l) (dates_of l).
Definition tickers_of (l : list gtxn) : list string := sort_uniq String.compare (map t_tick l).
Definition days_of_tick (l : list gtxn) (s : string) : list day := days_of (filter (of_tick s) l).
