(* Foreign-currency conversion at the HMRC monthly rate, and the loading order of rate files.
   Definitions only. *)
From Coq Require Import QArith Qcanon ZArith List Bool Ascii String.
Require Import CGT.Model.Num CGT.Model.Date CGT.Model.Ledger CGT.Model.Dsl CGT.Model.Schwab.
Import ListNotations.
Open Scope Qc_scope.

Definition rkey := (text * Z * Z)%type.                (* ISO code (upper case), calendar year, month *)
Definition rkey_eqb (a b : rkey) : bool :=
  text_eqb (fst (fst a)) (fst (fst b)) && (snd (fst a) =? snd (fst b))%Z && (snd a =? snd b)%Z.
Definition cache := list (rkey * Qc).                  (* newest first: an inserted entry shadows older ones *)
Fixpoint lookup (c : cache) (k : rkey) : option Qc :=
  match c with [] => None | (k', v) :: r => if rkey_eqb k' k then Some v else lookup r k end.
Definition insert (c : cache) (k : rkey) (v : Qc) : cache := (k, v) :: c.

(* ---------- conversion of one amount ---------- *)
Record amt := { am_val : Qc; am_cur : text }.
Inductive fxerr := MissingFx (cur : text) (y m : Z).
Definition is_gbp (cur : text) : bool := text_eqb cur GBP.

Definition amount_to_gbp (c : cache) (d : date) (a : amt) : fxerr + Qc :=
  if is_gbp (am_cur a) then inr (am_val a)
  else match lookup c (am_cur a, dy d, dm d) with
       | Some rate => inr (am_val a / rate)
       | None => inl (MissingFx (am_cur a) (dy d) (dm d))
       end.

(* all monetary fields of an operation, in the order the code converts them *)
Definition op_to_gbp (c : cache) (d : date) (o : op amt) : fxerr + op Qc :=
  let cv := amount_to_gbp c d in
  match o with
  | Buy q p f => match cv p with inl e => inl e | inr p' => match cv f with inl e => inl e | inr f' => inr (Buy q p' f') end end
  | Sell q p f => match cv p with inl e => inl e | inr p' => match cv f with inl e => inl e | inr f' => inr (Sell q p' f') end end
  | Dividend tv tx => match cv tv with inl e => inl e | inr tv' => match cv tx with inl e => inl e | inr tx' => inr (Dividend tv' tx') end end
  | Accumulation q tv tx => match cv tv with inl e => inl e | inr tv' => match cv tx with inl e => inl e | inr tx' => inr (Accumulation q tv' tx') end end
  | CapReturn q tv f => match cv tv with inl e => inl e | inr tv' => match cv f with inl e => inl e | inr f' => inr (CapReturn q tv' f') end end
  | Split r => inr (Split r)
  | Unsplit r => inr (Unsplit r)
  end.

Record fxtxn := { ft_date : date; ft_tick : string; ft_op : op amt }.
Definition txn_to_gbp (c : cache) (t : fxtxn) : fxerr + gtxn :=
  match op_to_gbp c (ft_date t) (ft_op t) with
  | inl e => inl e
  | inr o => inr {| t_date := days_of_civil (ft_date t); t_tick := ft_tick t; t_op := o |}
  end.
Fixpoint ledger_to_gbp (c : cache) (l : list fxtxn) : fxerr + list gtxn :=
  match l with
  | [] => inr []
  | t :: r => match txn_to_gbp c t with
              | inl e => inl e
              | inr g => match ledger_to_gbp c r with inl e => inl e | inr gs => inr (g :: gs) end
              end
  end.

(* ---------- loading rate files ---------- *)
Record rfile := {
  f_mtime : Z;                       (* modification time; files without one sort first (UNIX_EPOCH) *)
  f_name_ym : option (Z * Z);        (* year, month read from the file name *)
  f_period_ym : option (Z * Z);      (* year, month of the Period attribute *)
  f_rates : list (text * Qc) }.      (* (currency code upper-cased, rate) for the codes iso_currency knows *)

Inductive loaderr := BadFileName | BadPeriod | PeriodMismatch | NonPositiveRate (code : text).

Fixpoint add_rates (c : cache) (y m : Z) (rs : list (text * Qc)) : loaderr + cache :=
  match rs with
  | [] => inr c
  | (code, r) :: rest => if qleb r 0 then inl (NonPositiveRate code) else add_rates (insert c (code, y, m) r) y m rest
  end.
Definition load_file (c : cache) (f : rfile) : loaderr + cache :=
  match f_name_ym f with
  | None => inl BadFileName
  | Some (y, m) =>
      match f_period_ym f with
      | None => inl BadPeriod
      | Some (py, pm) => if (py =? y)%Z && (pm =? m)%Z then add_rates c y m (f_rates f) else inl PeriodMismatch
      end
  end.
Fixpoint load_files (c : cache) (fs : list rfile) : loaderr + cache :=
  match fs with
  | [] => inr c
  | f :: r => match load_file c f with inl e => inl e | inr c' => load_files c' r end
  end.
Definition mtime_cmp (a b : rfile) : comparison := (f_mtime a ?= f_mtime b)%Z.
(* bundled first, then the folder's files in modification-time order (stable) *)
Definition load_with_overrides (bundled : cache) (folder : list rfile) : loaderr + cache :=
  load_files bundled (sort_stable mtime_cmp folder).
