(* Display formats shared by the front-ends (cgt-format, plain formatter, JSON money).
   Texts are bytes; the pound sign is its UTF-8 encoding.  Definitions only. *)
From Coq Require Import QArith Qcanon ZArith NArith List Bool Ascii String.
Require Import CGT.Model.Num CGT.Model.Date CGT.Model.Dsl.
Import ListNotations.

Definition POUND : text := [ch 194; ch 163].
Definition MINUS : text := [ch 45].
Definition COMMA : ascii := ch 44.
Definition DOT : ascii := ch 46.
Definition SLASH : ascii := ch 47.

(* pence of x rounded half away from zero: |round(x*100)| and the sign of the rounded value *)
Definition pence_abs (x : Qc) : N := Z.to_N (qfloor (Qcplus (Qcmult (qabs x) (Qc_of_Z 100)) (Q2Qc (1 # 2)))).
Definition pence_neg (x : Qc) : bool := qltb x 0 && negb (N.eqb (pence_abs x) 0).

(* thousands separators: a comma before every group of three counted from the right *)
Fixpoint group3 (ds : text) : text :=
  match ds with
  | [] => []
  | c :: r => if (Nat.eqb (Nat.modulo (List.length r) 3) 0) && negb (Nat.eqb (List.length r) 0)
              then c :: COMMA :: group3 r else c :: group3 r
  end.

Definition two_dig (n : N) : text := [ch (48 + (n / 10) mod 10)%N; ch (48 + n mod 10)%N].
Definition format_pence (neg : bool) (p : N) : text :=
  (if neg then MINUS else []) ++ POUND ++ group3 (digits_of (p / 100)%N) ++ [DOT] ++ two_dig (p mod 100)%N.
Definition format_gbp (x : Qc) : text := format_pence (pence_neg x) (pence_abs x).

(* reading a displayed GBP figure back: -? £ digits with commas . two digits -> signed pence *)
Fixpoint strip_commas (s : text) : text :=
  match s with [] => [] | c :: r => if (code c =? 44)%N then strip_commas r else c :: strip_commas r end.
Definition read_pence (s : text) : option (bool * N) :=
  let neg := match s with c :: _ => (code c =? 45)%N | [] => false end in
  let s1 := if neg then tl s else s in
  match s1 with
  | a :: b :: r =>
      if ((code a =? 194) && (code b =? 163))%N then
        let body := strip_commas r in
        let ip := fst (span is_digit body) in
        match snd (span is_digit body) with
        | d :: f1 :: f2 :: [] =>
            if ((code d =? 46)%N && is_digit f1 && is_digit f2 && negb (Nat.eqb (List.length ip) 0))
            then Some (neg, digits_val 0 (ip ++ [f1; f2])) else None
        | _ => None
        end
      else None
  | _ => None
  end.

(* format_decimal_trimmed on the printed form of a decimal: drop trailing zeros of the fraction, then a trailing point *)
Fixpoint drop_trailing (p : ascii -> bool) (s : text) : text :=
  match s with
  | [] => []
  | c :: r => match drop_trailing p r with
              | [] => if p c then [] else [c]
              | r' => c :: r'
              end
  end.
Definition has_dot (s : text) : bool := existsb (fun c => (code c =? 46)%N) s.
Definition trim_decimal (s : text) : text :=
  if has_dot s then drop_trailing (fun c => (code c =? 46)%N) (drop_trailing (fun c => (code c =? 48)%N) s) else s.
Definition format_dec_trimmed (d : dec) : text := trim_decimal (print_dec d).

(* dates DD/MM/YYYY and tax years YYYY/YY *)
Definition format_date (d : date) : text :=
  two_digits (dd d) ++ [SLASH] ++ two_digits (dm d) ++ [SLASH] ++ four_digits (dy d).
Definition format_tax_year (y : Z) : text :=
  four_digits y ++ [SLASH] ++ two_digits ((y + 1) mod 100).

(* the JSON report shows money rounded to pence, midpoints away from zero (models.rs round_to_pence) *)
Definition json_money (x : Qc) : Qc := round_half_away 2 x.
