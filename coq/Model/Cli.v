(* The command layer of crates/cgt-cli/src/main.rs (Parse, Report, Convert) as a function from the command line and
   the file system to what the process does: what it prints on standard output, which files it writes, how it exits.
   The computations it calls - the DSL parser, the rate loader, the configuration, the calculator, the three
   formatters, the converter - are section variables: ANY functions that return a result or fail.  What is modelled is
   the order in which main.rs reads, computes, refuses and writes.  Definitions only. *)
From Coq Require Import NArith List Bool Ascii String.
Require Import CGT.Model.Dsl.
Import ListNotations.
Open Scope N_scope.

Definition path := text.
Inductive eff := Out (bytes : text) | Write (p : path) (bytes : text).
Inductive status := Exit0 | ExitErr.
Definition proc := (list eff * status)%type.
Definition fail : proc := ([], ExitErr).

(* what the process can see and do on disk: a file's text (None: missing, a directory, unreadable, not UTF-8), whether a
   path exists, whether fs::write to it succeeds *)
Record fsys := { f_read : path -> option text; f_exists : path -> bool; f_can_write : path -> bool }.

Inductive format := Plain | Json | Pdf.

Definition NL : text := [ch 10].
Fixpoint join_nl (cs : list text) : text :=
  match cs with [] => [] | [c] => c | c :: r => c ++ NL ++ join_nl r end.
(* read_and_concatenate_files: every file must be readable; contents joined by one newline *)
Fixpoint read_all (fs : fsys) (files : list path) : option (list text) :=
  match files with
  | [] => Some []
  | p :: r => match f_read fs p with
              | None => None
              | Some c => match read_all fs r with None => None | Some cs => Some (c :: cs) end
              end
  end.

(* PathBuf::with_extension("pdf") on the last component: the text after its last point is replaced, a point in first
   position does not count, a component without one gets ".pdf" appended *)
Definition is_slash (c : ascii) : bool := code c =? 47.
Definition is_dot (c : ascii) : bool := code c =? 46.
Fixpoint split_last (p : ascii -> bool) (s : text) : option (text * text) :=   (* before and after the last c with p c *)
  match s with
  | [] => None
  | c :: r => match split_last p r with
              | Some (a, b) => Some (c :: a, b)
              | None => if p c then Some ([], r) else None
              end
  end.
Definition EXT_PDF : text := T ".pdf".
Definition with_pdf_component (comp : text) : text :=
  match comp with
  | [] => EXT_PDF
  | c0 :: rest =>
      match split_last is_dot rest with
      | Some (stem, _) => c0 :: stem ++ EXT_PDF
      | None => comp ++ EXT_PDF
      end
  end.
Definition with_pdf (p : path) : path :=
  match split_last is_slash p with
  | Some (dir, comp) => dir ++ [ch 47] ++ with_pdf_component comp
  | None => with_pdf_component p
  end.
Definition REPORT_PDF : path := T "report.pdf".
Definition default_pdf (files : list path) : path :=
  match files with [f] => with_pdf f | _ => REPORT_PDF end.
Definition PDF_WRITTEN : text := T "PDF written to ".

Section Commands.
  Context {Txs Fx Cfg Rep : Type}.
  Context (parse : text -> option Txs)                         (* parse_file *)
          (to_json : Txs -> option text)                       (* serde_json::to_string_pretty of the transactions *)
          (schema : option text)                               (* the JSON schema text *)
          (load_fx : option path -> option Fx)                 (* bundled rates, or the folder's files over them *)
          (load_cfg : option Cfg)                              (* Config::load_with_overrides *)
          (calc : Txs -> option N -> Fx -> Cfg -> option Rep)  (* calculate, the year being opaque here *)
          (fmt_plain fmt_json fmt_pdf : Rep -> option text)
          (convert : text -> option text -> option text).      (* SchwabConverter: export, awards -> DSL text *)

  (* fs::write(path, content)? else print *)
  Definition emit (fs : fsys) (output : option path) (content : text) (stdout_suffix : text) : proc :=
    match output with
    | Some p => if f_can_write fs p then ([Write p content], Exit0) else fail
    | None => ([Out (content ++ stdout_suffix)], Exit0)
    end.

  Definition parse_cmd (fs : fsys) (files : list path) (want_schema : bool) : proc :=
    if want_schema then match schema with Some s => ([Out (s ++ NL)], Exit0) | None => fail end
    else match files with
         | [] => ([], Exit0)
         | _ => match read_all fs files with
                | None => fail
                | Some cs => match parse (join_nl cs) with
                             | None => fail
                             | Some txs => match to_json txs with None => fail | Some j => ([Out (j ++ NL)], Exit0) end
                             end
                end
         end.

  Definition report_cmd (fs : fsys) (files : list path) (year : option N) (fmt : format) (output : option path)
                        (fx_folder : option path) : proc :=
    match read_all fs files with
    | None => fail
    | Some cs =>
    match load_fx fx_folder with
    | None => fail
    | Some fx =>
    match parse (join_nl cs) with
    | None => fail
    | Some txs =>
    match load_cfg with
    | None => fail
    | Some cfg =>
    match calc txs year fx cfg with
    | None => fail
    | Some rep =>
        match fmt with
        | Plain => match fmt_plain rep with None => fail | Some c => emit fs output c [] end
        | Json => match fmt_json rep with None => fail | Some c => emit fs output c NL end
        | Pdf =>
            match fmt_pdf rep with
            | None => fail
            | Some bytes =>
                let target := match output with Some p => p | None => default_pdf files end in
                let is_default := match output with Some _ => false | None => true end in
                if is_default && f_exists fs target then fail
                else if f_can_write fs target then ([Write target bytes; Out (PDF_WRITTEN ++ target ++ NL)], Exit0)
                else fail
            end
        end
    end end end end end.

  (* warnings go to standard error, which is not an effect the property speaks of *)
  Definition convert_cmd (fs : fsys) (export : path) (awards : option path) (output : option path) : proc :=
    match f_read fs export with
    | None => fail
    | Some ex =>
        let aw := match awards with None => Some None | Some p => match f_read fs p with None => None | Some a => Some (Some a) end end in
        match aw with
        | None => fail
        | Some a => match convert ex a with None => fail | Some dsl => emit fs output dsl NL end
        end
    end.
End Commands.
