(* Transactions. Definitions only. *)
From Coq Require Import QArith Qcanon ZArith List Bool String.
Require Import CGT.Model.Num.
Import ListNotations.
Open Scope Qc_scope.

(* An operation, generic over the money type like the Rust Operation<M>. *)
Inductive op (M : Type) :=
| Buy (q : Qc) (p f : M)
| Sell (q : Qc) (p f : M)
| Dividend (tv tax : M)
| CapReturn (q : Qc) (tv f : M)
| Accumulation (q : Qc) (tv tax : M)
| Split (r : Qc)
| Unsplit (r : Qc).
Arguments Buy {M}. Arguments Sell {M}. Arguments Dividend {M}. Arguments CapReturn {M}.
Arguments Accumulation {M}. Arguments Split {M}. Arguments Unsplit {M}.

Record txn (M : Type) := { t_date : Z; t_tick : string; t_op : op M }.
Arguments t_date {M}. Arguments t_tick {M}. Arguments t_op {M}.
Arguments Build_txn {M}.

(* foreign amount: value and ISO code (upper case); GBP is the string "GBP" *)
Record famt := { a_val : Qc; a_cur : string }.

Definition gtxn := txn Qc.      (* GBP-normalised *)
Definition ftxn := txn famt.    (* as parsed *)
