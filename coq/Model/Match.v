(* Per-security, day-level model of Matcher::process:
   cost-offset pre-pass, then Same Day -> 30-day look-ahead with claims -> Section 104.
   Definitions only.  Style: every loop body is a named step function returning a
   record; no destructuring lets. *)
From Coq Require Import QArith Qcanon ZArith List Bool.
Require Import CGT.Model.Num.
Import ListNotations.
Open Scope Qc_scope.

Inductive ev := Cap (net : Qc) | Acc (v : Qc).

(* One calendar day of one security.  All of a day's trades are in the units current
   before that day's splits; [ratio] is the product of the day's SPLIT ratios and
   inverse UNSPLIT ratios and takes effect at the end of the day. *)
Record day := {
  dt : Z;
  bq : Qc; bcost : Qc; hasbuy : bool;           (* bought quantity, q*p + fees *)
  sq : Qc; sgross : Qc; sfees : Qc; hassell : bool;
  evs : list ev;                                 (* CAPRETURN / ACCUMULATION in line order *)
  ratio : Qc }.

Definition sq' (d : day) : Qc := if hassell d then sq d else 0.
Definition bq' (d : day) : Qc := if hasbuy d then bq d else 0.
Definition bcost' (d : day) : Qc := if hasbuy d then bcost d else 0.

Inductive err :=
| ECapExceeds (d : Z) | EResvExceeds (d : Z) | EExceedsHolding (d : Z)
| ENoPrior (d : Z) | EUnmatched (d : Z) | ECrashDivZero (d : Z).

(* ---------- cost-offset pre-pass (compute_cost_offsets) ---------- *)
Record plot := { pl_dt : Z; pl_amt : Qc; pl_base : Qc; pl_off : Qc; pl_cons : Qc }.
Definition pl_held (l : plot) : Qc := pl_amt l - pl_cons l.
Definition pl_adj (l : plot) : Qc := pl_base l + pl_off l.
Definition pl_add_off (l : plot) (x : Qc) : plot :=
  {| pl_dt := pl_dt l; pl_amt := pl_amt l; pl_base := pl_base l; pl_off := pl_off l + x; pl_cons := pl_cons l |}.
Definition pl_add_cons (l : plot) (x : Qc) : plot :=
  {| pl_dt := pl_dt l; pl_amt := pl_amt l; pl_base := pl_base l; pl_off := pl_off l; pl_cons := pl_cons l + x |}.

Definition total_held (ls : list plot) : Qc := qsum (map pl_held ls).
Definition total_adj_cost (ls : list plot) : Qc :=
  qsum (map (fun l => if qltb 0 (pl_held l) then pl_adj l else 0) ls).
Definition apply_adj (ls : list plot) (a : Qc) : list plot :=
  let th := total_held ls in
  if qeqb th 0 then ls else
  map (fun l => if qltb 0 (pl_held l) then pl_add_off l (a * (pl_held l / th)) else l) ls.

Fixpoint apply_evs (started : bool) (d : Z) (ls : list plot) (es : list ev) : err + list plot :=
  match es with
  | [] => inr ls
  | Cap net :: r =>
      if started then
        if qltb (total_adj_cost ls) net then inl (ECapExceeds d)
        else apply_evs started d (apply_adj ls (- net)) r
      else apply_evs started d ls r
  | Acc v :: r =>
      if started then apply_evs started d (apply_adj ls v) r else apply_evs started d ls r
  end.

(* consume first-in-first-out from lots dated strictly before d *)
Fixpoint consume_before (d : Z) (ls : list plot) (rem : Qc) : list plot :=
  match ls with
  | [] => []
  | l :: r =>
      if (pl_dt l <? d)%Z && qltb 0 rem && qltb 0 (pl_held l) then
        pl_add_cons l (qmin rem (pl_held l)) :: consume_before d r (rem - qmin rem (pl_held l))
      else l :: consume_before d r rem
  end.
Fixpoint consume_on (d : Z) (ls : list plot) (m : Qc) : list plot :=
  match ls with
  | [] => []
  | l :: r => if (pl_dt l =? d)%Z then pl_add_cons l m :: r else l :: consume_on d r m
  end.
Definition avail_on (d : Z) (ls : list plot) : Qc :=
  qsum (map (fun l => if (pl_dt l =? d)%Z then pl_held l else 0) ls).

Definition new_lot (d : day) : plot :=
  {| pl_dt := dt d; pl_amt := bq d; pl_base := bcost d; pl_off := 0; pl_cons := 0 |}.
Definition pre_add_buy (d : day) (ls : list plot) : list plot :=
  if hasbuy d then ls ++ [new_lot d] else ls.
Definition pre_sell (d : day) (ls : list plot) : list plot :=
  let av := avail_on (dt d) ls in
  if qltb 0 av then
    let m := qmin (sq d) av in
    let ls' := consume_on (dt d) ls m in
    if qltb 0 (sq d - m) then consume_before (dt d) ls' (sq d - m) else ls'
  else consume_before (dt d) ls (sq d).

Fixpoint prepass (started : bool) (ls : list plot) (ds : list day) : err + list plot :=
  match ds with
  | [] => inr ls
  | d :: r =>
      match apply_evs started (dt d) ls (evs d) with
      | inl e => inl e
      | inr ls1 =>
          let ls2 := pre_add_buy d ls1 in
          let started' := started || hasbuy d in
          let ls3 := if hassell d && started' then pre_sell d ls2 else ls2 in
          prepass started' ls3 r
      end
  end.

Definition offset_of (ls : list plot) (d : Z) : Qc :=
  qsum (map (fun l => if (pl_dt l =? d)%Z then pl_off l else 0) ls).

(* ---------- main pass ---------- *)
Inductive rule := SameDay | BnB | S104.
Record leg := { lg_sell : Z; lg_rule : rule; lg_qty : Qc; lg_acq : option Z; lg_cost : Qc;
                lg_gross : Qc; lg_net : Qc; lg_gain : Qc }.

Definition claims := list (Z * Qc).
Definition claim_of (cl : claims) (d : Z) : Qc :=
  qsum (map (fun p => if (fst p =? d)%Z then snd p else 0) cl).

(* compute_proceeds: pro-rata gross and fees for a matched quantity *)
Definition mk_leg (d : day) (r : rule) (m : Qc) (acq : option Z) (cost : Qc) : leg :=
  let price := qdiv0 (sgross d) (sq d) in
  let gross := m * price in
  let fees := sfees d * (m / sq d) in
  {| lg_sell := dt d; lg_rule := r; lg_qty := m; lg_acq := acq; lg_cost := cost;
     lg_gross := gross; lg_net := gross - fees; lg_gain := gross - fees - cost |}.

(* adjusted unit cost of day e's acquisition *)
Definition unit_cost (offs : list plot) (e : day) : Qc :=
  qdiv0 (bcost e + offset_of offs (dt e)) (bq e).

(* shares of day e's acquisition open to earlier disposals: not needed by e's own
   same-day disposal, not already claimed *)
Definition free_of (e : day) (cl : claims) : Qc :=
  qmax 0 (bq e - qmin (bq e) (qmax 0 (sq' e)) - claim_of cl (dt e)).

Record bres := { b_legs : list leg; b_rem : Qc; b_cl : claims; b_crash : bool }.
Definition bres0 (rem : Qc) (cl : claims) : bres :=
  {| b_legs := []; b_rem := rem; b_cl := cl; b_crash := false |}.

(* one candidate day e of the look-ahead from sale day d; R = product of the ratios
   of the days from d (inclusive) to e (exclusive) *)
Definition bnb_step (offs : list plot) (d e : day) (R rem : Qc) (cl : claims) : bres :=
  if hasbuy e && qltb 0 (free_of e cl) then
    let ms := qmin rem (free_of e cl / R) in
    let mb := ms * R in
    {| b_legs := [mk_leg d BnB ms (Some (dt e)) (mb * unit_cost offs e)];
       b_rem := rem - ms; b_cl := (dt e, mb) :: cl;
       b_crash := qeqb R 0 |}            (* Decimal division by zero panics *)
  else bres0 rem cl.

Fixpoint bnb (window : Z) (offs : list plot) (d : day) (fut : list day) (R rem : Qc) (cl : claims) : bres :=
  match fut with
  | [] => bres0 rem cl
  | e :: r =>
      if negb (qltb 0 rem) then bres0 rem cl else
      if (dt e - dt d >? window)%Z then bres0 rem cl else
      let s1 := bnb_step offs d e R rem cl in
      if b_crash s1 then s1 else
      let s2 := bnb window offs d r (R * ratio e) (b_rem s1) (b_cl s1) in
      {| b_legs := b_legs s1 ++ b_legs s2; b_rem := b_rem s2; b_cl := b_cl s2; b_crash := b_crash s2 |}
  end.

Record mst := { m_pq : Qc; m_pc : Qc; m_pooled : bool; m_cl : claims;
                m_disp : list (Z * list leg); m_pos : Qc }.

Definition mst0 : mst :=
  {| m_pq := 0; m_pc := 0; m_pooled := false; m_cl := []; m_disp := []; m_pos := 0 |}.

(* result of a day's disposal: legs, what is left of the day's own lot, claims, pool *)
Record sres := { s_legs : list leg; s_av : Qc; s_cl : claims; s_pq : Qc; s_pc : Qc }.

Definition same_day_step (offs : list plot) (d : day) (avail0 : Qc) : list leg * Qc * Qc :=
  if qltb 0 avail0 && qltb 0 (sq d) then
    let m := qmin (sq d) avail0 in
    ([mk_leg d SameDay m (Some (dt d)) (m * unit_cost offs d)], sq d - m, avail0 - m)
  else ([], sq d, avail0).

Definition pool_step (d : day) (s : mst) (rem : Qc) : list leg * Qc * (Qc * Qc) :=
  if qltb 0 rem && m_pooled s && negb (qeqb (m_pq s) 0) && negb (qeqb (sq d) 0) then
    let m := qmin rem (m_pq s) in
    let c := m * (m_pc s / m_pq s) in
    ([mk_leg d S104 m None c], rem - m, (m_pq s - m, m_pc s - c))
  else ([], rem, (m_pq s, m_pc s)).

Definition sell_step (window : Z) (offs : list plot) (s : mst) (d : day) (fut : list day)
                     (avail0 pos1 : Qc) : err + sres :=
  if qltb pos1 (sq d) then inl (EExceedsHolding (dt d)) else
  if qltb (avail0 + m_pq s) (sq d) then inl (EExceedsHolding (dt d)) else
  let sd := same_day_step offs d avail0 in
  let rem1 := snd (fst sd) in
  let bb := if qeqb (sq d) 0 then bres0 rem1 (m_cl s)
            else bnb window offs d fut (ratio d) rem1 (m_cl s) in
  if b_crash bb then inl (ECrashDivZero (dt d)) else
  let pl := pool_step d s (b_rem bb) in
  let rem3 := snd (fst pl) in
  if qltb 0 rem3 then inl (if qeqb rem3 (sq d) then ENoPrior (dt d) else EUnmatched (dt d))
  else inr {| s_legs := fst (fst sd) ++ b_legs bb ++ fst (fst pl); s_av := snd sd;
              s_cl := b_cl bb; s_pq := fst (snd pl); s_pc := snd (snd pl) |}.

Definition day_step (window : Z) (offs : list plot) (s : mst) (d : day) (fut : list day) : err + mst :=
  let resv := if hasbuy d then claim_of (m_cl s) (dt d) else 0 in
  if hasbuy d && qltb (bq d) resv then inl (EResvExceeds (dt d)) else
  let u := unit_cost offs d in
  let avail0 := if hasbuy d then bq d - resv else 0 in
  let pos1 := m_pos s + bq' d in
  let sr := if hassell d then sell_step window offs s d fut avail0 pos1
            else inr {| s_legs := []; s_av := avail0; s_cl := m_cl s; s_pq := m_pq s; s_pc := m_pc s |} in
  match sr with
  | inl e => inl e
  | inr r =>
      let topool := hasbuy d && qltb 0 (s_av r) in
      inr {| m_pq := (if topool then s_pq r + s_av r else s_pq r) * ratio d;
             m_pc := if topool then s_pc r + s_av r * u else s_pc r;
             m_pooled := m_pooled s || topool;
             m_cl := s_cl r;
             m_disp := m_disp s ++ (match s_legs r with [] => [] | _ => [(dt d, s_legs r)] end);
             m_pos := (pos1 - sq' d) * ratio d |}
  end.

Fixpoint mainpass (window : Z) (offs : list plot) (s : mst) (ds : list day) : err + mst :=
  match ds with
  | [] => inr s
  | d :: r =>
      match day_step window offs s d r with
      | inl e => inl e
      | inr s' => mainpass window offs s' r
      end
  end.

Definition run (window : Z) (ds : list day) : err + mst :=
  match prepass false [] ds with
  | inl e => inl e
  | inr offs => mainpass window offs mst0 ds
  end.
