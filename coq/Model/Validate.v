(* validation::validate: which transactions carry an error.  Definitions only. *)
From Coq Require Import QArith Qcanon ZArith List Bool.
Require Import CGT.Model.Num CGT.Model.Ledger.
Import ListNotations.
Open Scope Qc_scope.

(* the code's checks, kind by kind (tax_paid is not examined) *)
Definition op_has_error (o : op Qc) : bool :=
  match o with
  | Buy q p f | Sell q p f => qeqb q 0 || qltb q 0 || qltb p 0 || qltb f 0
  | CapReturn q tv f => qeqb q 0 || qltb q 0 || qltb tv 0 || qltb f 0
  | Dividend tv _ => qltb tv 0
  | Accumulation q tv _ => qeqb q 0 || qltb q 0 || qltb tv 0
  | Split r | Unsplit r => qeqb r 0 || qltb r 0
  end.
Definition has_errors (ts : list (op Qc)) : bool := existsb op_has_error ts.
(* the 1-based positions of the offending transactions *)
Fixpoint error_lines (n : nat) (ts : list (op Qc)) : list nat :=
  match ts with [] => [] | o :: r => (if op_has_error o then [n] else []) ++ error_lines (S n) r end.
