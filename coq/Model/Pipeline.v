(* From the text of a ledger to its report in one function: the DSL reader (Dsl), the conversion of each decimal to its exact rational
   value, the conversion to pounds at the monthly rates (Fx), the matcher and the tax-year summaries (Report).  This is `cgt-tool report`
   and MCP calculate_report without their formatting.  Definitions only. *)
From Coq Require Import QArith Qcanon ZArith NArith List Bool Ascii String.
Require Import CGT.Model.Num CGT.Model.Date CGT.Model.Ledger CGT.Model.Match CGT.Model.Agg CGT.Model.Report CGT.Model.Config
               CGT.Model.Dsl CGT.Model.Fx.
Import ListNotations.

(* a decimal as the decimal type holds it (mantissa, scale) is the rational mantissa / 10^scale *)
Definition q_of_dec (d : dec) : Qc := Q2Qc (Z.of_N (d_mant d) # Z.to_pos (10 ^ Z.of_nat (d_scale d))).
Definition amt_of_money (m : money) : amt := {| am_val := q_of_dec (m_amt m); am_cur := m_cur m |}.
Definition op_of_dop (o : dop) : op amt :=
  match o with
  | DBuy q p f => Buy (q_of_dec q) (amt_of_money p) (amt_of_money f)
  | DSell q p f => Sell (q_of_dec q) (amt_of_money p) (amt_of_money f)
  | DDividend tv tx => Dividend (amt_of_money tv) (amt_of_money tx)
  | DAccumulation q tv tx => Accumulation (q_of_dec q) (amt_of_money tv) (amt_of_money tx)
  | DCapReturn q tv f => CapReturn (q_of_dec q) (amt_of_money tv) (amt_of_money f)
  | DSplit r => Split (q_of_dec r)
  | DUnsplit r => Unsplit (q_of_dec r)
  end.
Definition fx_of_dtxn (t : dtxn) : fxtxn :=
  {| ft_date := x_date t; ft_tick := string_of_list_ascii (x_tick t); ft_op := op_of_dop (x_op t) |}.

Inductive perror := PParse (line : nat) (why : perr) | PFx (e : fxerr) | PCalc (es : list rerr).

Definition pipeline (valid_cur : text -> bool) (rates : cache) (cfg : exemptions) (year : option Z) (s : text) : perror + report :=
  match parse valid_cur s with
  | inl (n, e) => inl (PParse n e)
  | inr ts =>
      match ledger_to_gbp rates (map fx_of_dtxn ts) with
      | inl e => inl (PFx e)
      | inr l => match report_of P0 cfg year l with inl es => inl (PCalc es) | inr r => inr r end
      end
  end.
