(* Character-level model of the DSL: the grammar parser.pest as consumed by parser.rs, and the
   writer dsl.rs.  Bytes are `ascii`; texts are `list ascii`.  Definitions only.

   pest semantics used: ordered choice; implicit (WHITESPACE | COMMENT)* between the elements of
   non-atomic sequences; atomic rules (date, ticker, quantity, ratio, decimal, currency_code);
   ^"KW" matches a keyword as a case-insensitive PREFIX; NEWLINE = CRLF | LF | CR.
   No token and no skip crosses a NEWLINE, so the text is split at NEWLINEs and every segment
   must be: skip, optionally one transaction, skip, end. *)
From Coq Require Import ZArith NArith List Bool Ascii String.
Require Import CGT.Model.Date.
Import ListNotations.
Open Scope N_scope.

Definition text := list ascii.
Definition code (c : ascii) : N := N_of_ascii c.

Definition is_digit (c : ascii) : bool := (48 <=? code c) && (code c <=? 57).
Definition is_upper (c : ascii) : bool := (65 <=? code c) && (code c <=? 90).
Definition is_lower (c : ascii) : bool := (97 <=? code c) && (code c <=? 122).
Definition is_alpha (c : ascii) : bool := is_upper c || is_lower c.
Definition is_alnum (c : ascii) : bool := is_alpha c || is_digit c.
Definition is_ws (c : ascii) : bool := (code c =? 32) || (code c =? 9).
Definition is_nl (c : ascii) : bool := (code c =? 10) || (code c =? 13).
Definition is_hash (c : ascii) : bool := code c =? 35.
Definition upper (c : ascii) : ascii := if is_lower c then ascii_of_N (code c - 32) else c.
Definition upper_text (s : text) : text := map upper s.
Definition ch (n : N) : ascii := ascii_of_N n.

(* ---------- decimals as the decimal type holds them ---------- *)
Record dec := { d_mant : N; d_scale : nat }.     (* value = mant / 10^scale; DSL decimals are non-negative *)
Definition two96 : N := 79228162514264337593543950336.
Definition dec_ok (d : dec) : bool := (d_mant d <? two96) && Nat.leb (d_scale d) 28.

Definition digit_val (c : ascii) : N := code c - 48.
Fixpoint digits_val (acc : N) (s : text) : N :=
  match s with [] => acc | c :: r => digits_val (acc * 10 + digit_val c) r end.

(* Decimal::from_str on digits(.digits)? : exact when it fits 96 bits and 28 places;
   DUnsupported marks the inputs where rust_decimal rounds or fails (not modelled). *)
Inductive dres := DOk (d : dec) | DUnsupported.
Definition parse_dec (ip fp : text) : dres :=
  let m := digits_val 0 (ip ++ fp) in
  if (m <? two96) && Nat.leb (List.length fp) 28 then DOk {| d_mant := m; d_scale := List.length fp |}
  else DUnsupported.

(* Display of a Decimal: digits of the mantissa, left-padded with zeros to scale+1 digits,
   point inserted `scale` digits from the right *)
Fixpoint digits_of_fuel (fuel : nat) (n : N) (acc : text) : text :=
  match fuel with
  | O => acc
  | S k => let acc' := ch (48 + n mod 10) :: acc in
           if n / 10 =? 0 then acc' else digits_of_fuel k (n / 10) acc'
  end.
Definition digits_of (n : N) : text := digits_of_fuel 40 n [].
Fixpoint pad_zeros (k : nat) (s : text) : text :=
  match k with O => s | S j => pad_zeros j (ch 48 :: s) end.
Definition print_dec (d : dec) : text :=
  let ds := digits_of (d_mant d) in
  let ds := pad_zeros (S (d_scale d) - List.length ds) ds in
  let n := (List.length ds - d_scale d)%nat in
  if Nat.eqb (d_scale d) 0 then ds else firstn n ds ++ [ch 46] ++ skipn n ds.

(* ---------- transactions as parsed ---------- *)
Record money := { m_amt : dec; m_cur : text }.     (* currency code upper-cased; "GBP" default *)
Definition GBP : text := [ch 71; ch 66; ch 80].
Definition zero_gbp : money := {| m_amt := {| d_mant := 0; d_scale := 0 |}; m_cur := GBP |}.

Inductive dop :=
| DBuy (q : dec) (p f : money) | DSell (q : dec) (p f : money)
| DDividend (tv tax : money) | DAccumulation (q : dec) (tv tax : money) | DCapReturn (q : dec) (tv f : money)
| DSplit (r : dec) | DUnsplit (r : dec).
Record dtxn := { x_date : date; x_tick : text; x_op : dop }.

(* ---------- lexing helpers ---------- *)
(* (WHITESPACE | COMMENT)* ; never consumes a line terminator (segments contain none anyway) *)
Fixpoint skip_c (in_comment : bool) (s : text) : text :=
  match s with
  | [] => []
  | c :: r => if in_comment then (if is_nl c then s else skip_c true r)
              else if is_ws c then skip_c false r
              else if is_hash c then skip_c true r
              else s
  end.
Definition skip (s : text) : text := skip_c false s.

Fixpoint span (p : ascii -> bool) (s : text) : text * text :=
  match s with
  | [] => ([], [])
  | c :: r => if p c then (let x := span p r in (c :: fst x, snd x)) else ([], s)
  end.

(* ^"KW": case-insensitive prefix; kw is given in upper case *)
Fixpoint kw_prefix (kw s : text) : option text :=
  match kw, s with
  | [], _ => Some s
  | k :: kr, c :: r => if (code (upper c) =? code k) then kw_prefix kr r else None
  | _ :: _, [] => None
  end.
Definition T (s : string) : text := list_ascii_of_string s.

Definition KW_BUY := T "BUY". Definition KW_SELL := T "SELL". Definition KW_DIVIDEND := T "DIVIDEND".
Definition KW_ACCUMULATION := T "ACCUMULATION". Definition KW_CAPRETURN := T "CAPRETURN".
Definition KW_SPLIT := T "SPLIT". Definition KW_UNSPLIT := T "UNSPLIT".
Definition KW_FEES := T "FEES". Definition KW_TAX := T "TAX". Definition KW_TOTAL := T "TOTAL". Definition KW_RATIO := T "RATIO".

Definition starts_kw (kw s : text) : bool := match kw_prefix kw s with Some _ => true | None => false end.

(* decimal = digit+ ("." digit+)? ; returns integer digits, fraction digits, rest *)
Definition lex_decimal (s : text) : option (text * text * text) :=
  let ip := fst (span is_digit s) in let r := snd (span is_digit s) in
  match ip with
  | [] => None
  | _ => match r with
         | c :: r' => if code c =? 46 then
                        let fp := fst (span is_digit r') in
                        match fp with [] => Some (ip, [], r) | _ => Some (ip, fp, snd (span is_digit r')) end
                      else Some (ip, [], r)
         | [] => Some (ip, [], [])
         end
  end.

(* currency_code = !(TAX|BUY|FEES|TOTAL|RATIO|SELL) ~ ALPHA{3} ~ !(ALNUM | "-") *)
Definition lex_currency (s : text) : option (text * text) :=
  if starts_kw KW_TAX s || starts_kw KW_BUY s || starts_kw KW_FEES s || starts_kw KW_TOTAL s
     || starts_kw KW_RATIO s || starts_kw KW_SELL s then None else
  match s with
  | a :: b :: c :: r =>
      if is_alpha a && is_alpha b && is_alpha c then
        match r with
        | x :: _ => if is_alnum x || (code x =? 45) then None else Some ([upper a; upper b; upper c], r)
        | [] => Some ([upper a; upper b; upper c], r)
        end
      else None
  | _ => None
  end.

Inductive perr := EGrammar | EDate | EDecimalUnsupported | ECurrency.   (* reasons a line is rejected *)
(* a grammatical success carries the first semantic problem met (invalid date, currency not in the
   ISO table, decimal outside the modelled range), because pest finishes the whole grammar parse
   before parser.rs looks at any value *)
Inductive pres (A : Type) := POk (a : A) (sem : option perr) (rest : text) | PFail.
Arguments POk {A}. Arguments PFail {A}.
Definition sem_or (a b : option perr) : option perr := match a with Some _ => a | None => b end.
Definition dec0 : dec := {| d_mant := 0; d_scale := 0 |}.

Section WithCurrencies.
  Context (valid_cur : text -> bool).      (* iso_currency's table, supplied by the code *)

  Definition p_decimal (s : text) : pres dec :=
    match lex_decimal s with
    | None => PFail
    | Some (ip, fp, r) => match parse_dec ip fp with
                          | DUnsupported => POk dec0 (Some EDecimalUnsupported) r
                          | DOk d => POk d None r end
    end.

  (* money = decimal ~ currency_code? *)
  Definition p_money (s : text) : pres money :=
    match p_decimal s with
    | PFail => PFail
    | POk d sem r =>
        match lex_currency (skip r) with
        | Some (cur, r') => POk {| m_amt := d; m_cur := cur |} (sem_or sem (if valid_cur cur then None else Some ECurrency)) r'
        | None => POk {| m_amt := d; m_cur := GBP |} sem r
        end
    end.

  (* KW ~ money as a mandatory clause (price "@", TOTAL) *)
  Definition p_kw_money (kw : text) (s : text) : pres money :=
    match kw_prefix kw s with
    | None => PFail
    | Some r => p_money (skip r)
    end.
  (* optional clause (KW ~ money)? : an absent or grammatically failing clause leaves the position unchanged *)
  Definition p_opt_kw_money (kw : text) (s : text) : pres money :=
    match kw_prefix kw (skip s) with
    | None => POk zero_gbp None s
    | Some r =>
        match p_money (skip r) with
        | POk m sem r' => POk m sem r'
        | PFail => POk zero_gbp None s
        end
    end.

  Definition p_ticker (s : text) : pres text :=
    match fst (span is_alnum s) with
    | [] => PFail
    | t => POk (upper_text t) None (snd (span is_alnum s))
    end.

  Definition AT : text := [ch 64].

  (* the part after the keyword of BUY / SELL: ticker quantity price fees? *)
  Definition p_trade (mk : dec -> money -> money -> dop) (s : text) : pres (text * dop) :=
    match p_ticker (skip s) with PFail => PFail | POk t e1 r1 =>
    match p_decimal (skip r1) with PFail => PFail | POk q e2 r2 =>
    match p_kw_money AT (skip r2) with PFail => PFail | POk p e3 r3 =>
    match p_opt_kw_money KW_FEES r3 with PFail => PFail | POk f e4 r4 =>
      POk (t, mk q p f) (sem_or e1 (sem_or e2 (sem_or e3 e4))) r4 end end end end.
  Definition p_dividend (s : text) : pres (text * dop) :=
    match p_ticker (skip s) with PFail => PFail | POk t e1 r1 =>
    match p_kw_money KW_TOTAL (skip r1) with PFail => PFail | POk tv e2 r2 =>
    match p_opt_kw_money KW_TAX r2 with PFail => PFail | POk tx e3 r3 =>
      POk (t, DDividend tv tx) (sem_or e1 (sem_or e2 e3)) r3 end end end.
  Definition p_event (mk : dec -> money -> money -> dop) (optkw : text) (s : text) : pres (text * dop) :=
    match p_ticker (skip s) with PFail => PFail | POk t e1 r1 =>
    match p_decimal (skip r1) with PFail => PFail | POk q e2 r2 =>
    match p_kw_money KW_TOTAL (skip r2) with PFail => PFail | POk tv e3 r3 =>
    match p_opt_kw_money optkw r3 with PFail => PFail | POk x e4 r4 =>
      POk (t, mk q tv x) (sem_or e1 (sem_or e2 (sem_or e3 e4))) r4 end end end end.
  Definition p_split (mk : dec -> dop) (s : text) : pres (text * dop) :=
    match p_ticker (skip s) with PFail => PFail | POk t e1 r1 =>
    match kw_prefix KW_RATIO (skip r1) with None => PFail | Some r2 =>
    match p_decimal (skip r2) with PFail => PFail | POk q e2 r3 => POk (t, mk q) (sem_or e1 e2) r3 end end end.

  Definition p_command (s : text) : pres (text * dop) :=
    match kw_prefix KW_BUY s with Some r => p_trade DBuy r | None =>
    match kw_prefix KW_SELL s with Some r => p_trade DSell r | None =>
    match kw_prefix KW_DIVIDEND s with Some r => p_dividend r | None =>
    match kw_prefix KW_ACCUMULATION s with Some r => p_event DAccumulation KW_TAX r | None =>
    match kw_prefix KW_CAPRETURN s with Some r => p_event DCapReturn KW_FEES r | None =>
    match kw_prefix KW_SPLIT s with Some r => p_split DSplit r | None =>
    match kw_prefix KW_UNSPLIT s with Some r => p_split DUnsplit r | None => PFail
    end end end end end end end.

  (* date = DIGIT{4} "-" DIGIT{2} "-" DIGIT{2} ; NaiveDate validation is semantic *)
  Definition p_date (s : text) : pres date :=
    match s with
    | y1 :: y2 :: y3 :: y4 :: h1 :: m1 :: m2 :: h2 :: d1 :: d2 :: r =>
        if is_digit y1 && is_digit y2 && is_digit y3 && is_digit y4 && (code h1 =? 45) &&
           is_digit m1 && is_digit m2 && (code h2 =? 45) && is_digit d1 && is_digit d2 then
          let x := {| dy := Z.of_N (digits_val 0 [y1; y2; y3; y4]); dm := Z.of_N (digits_val 0 [m1; m2]);
                      dd := Z.of_N (digits_val 0 [d1; d2]) |} in
          POk x (if valid_date x then None else Some EDate) r
        else PFail
    | _ => PFail
    end.

  Inductive lres := LTx (t : dtxn) (sem : option perr) | LBlank | LFail.
  (* one segment between line terminators *)
  Definition parse_line (seg : text) : lres :=
    match skip seg with
    | [] => LBlank
    | s =>
        match p_date s with
        | PFail => LFail
        | POk d e1 r =>
            match p_command (skip r) with
            | PFail => LFail
            | POk (t, o) e2 r' =>
                match skip r' with
                | [] => LTx {| x_date := d; x_tick := t; x_op := o |} (sem_or e1 e2)
                | _ => LFail
                end
            end
        end
    end.

  (* split at CRLF | LF | CR *)
  Fixpoint split_lines (cur : text) (s : text) : list text :=
    match s with
    | [] => [rev cur]
    | c :: r =>
        if code c =? 13 then
          match r with
          | c2 :: r2 => if code c2 =? 10 then rev cur :: split_lines [] r2 else rev cur :: split_lines [] r
          | [] => rev cur :: split_lines [] r
          end
        else if code c =? 10 then rev cur :: split_lines [] r
        else split_lines (c :: cur) r
    end.

  (* the grammar pass: index (1-based) of the first segment that is not a line of the grammar *)
  Fixpoint first_fail (n : nat) (ls : list lres) : option nat :=
    match ls with
    | [] => None
    | LFail :: _ => Some n
    | _ :: r => first_fail (S n) r
    end.
  (* the value pass of parser.rs: first transaction with a semantic problem, else all transactions *)
  Fixpoint collect (n : nat) (ls : list lres) : (nat * perr) + list dtxn :=
    match ls with
    | [] => inr []
    | LTx t (Some e) :: _ => inl (n, e)
    | LTx t None :: r => match collect (S n) r with inl e => inl e | inr ts => inr (t :: ts) end
    | _ :: r => collect (S n) r
    end.
  (* result: the transactions, or the 1-based index of the offending line and why *)
  Definition parse (s : text) : (nat * perr) + list dtxn :=
    let ls := map parse_line (split_lines [] s) in
    match first_fail 1 ls with
    | Some n => inl (n, EGrammar)
    | None => collect 1 ls
    end.
End WithCurrencies.

(* ---------- the writer (dsl.rs) ---------- *)
Definition SP : text := [ch 32].
Definition two_digits (z : Z) : text := let n := Z.to_N z in [ch (48 + n / 10); ch (48 + n mod 10)].
Definition four_digits (z : Z) : text :=
  let n := Z.to_N z in [ch (48 + n / 1000); ch (48 + (n / 100) mod 10); ch (48 + (n / 10) mod 10); ch (48 + n mod 10)].
Definition print_date (d : date) : text := four_digits (dy d) ++ [ch 45] ++ two_digits (dm d) ++ [ch 45] ++ two_digits (dd d).
Definition print_money (m : money) : text := print_dec (m_amt m) ++ SP ++ m_cur m.
Definition is_zero_money (m : money) : bool := d_mant (m_amt m) =? 0.
Definition opt_clause (kw : text) (m : money) : text :=
  if is_zero_money m then [] else SP ++ kw ++ SP ++ print_money m.
Definition AT' : text := [ch 64].
Definition print_txn (t : dtxn) : text :=
  let h kw := print_date (x_date t) ++ SP ++ kw ++ SP ++ x_tick t in
  match x_op t with
  | DBuy q p f => h KW_BUY ++ SP ++ print_dec q ++ SP ++ AT' ++ SP ++ print_money p ++ opt_clause KW_FEES f
  | DSell q p f => h KW_SELL ++ SP ++ print_dec q ++ SP ++ AT' ++ SP ++ print_money p ++ opt_clause KW_FEES f
  | DDividend tv tx => h KW_DIVIDEND ++ SP ++ KW_TOTAL ++ SP ++ print_money tv ++ opt_clause KW_TAX tx
  | DAccumulation q tv tx => h KW_ACCUMULATION ++ SP ++ print_dec q ++ SP ++ KW_TOTAL ++ SP ++ print_money tv ++ opt_clause KW_TAX tx
  | DCapReturn q tv f => h KW_CAPRETURN ++ SP ++ print_dec q ++ SP ++ KW_TOTAL ++ SP ++ print_money tv ++ opt_clause KW_FEES f
  | DSplit r => h KW_SPLIT ++ SP ++ KW_RATIO ++ SP ++ print_dec r
  | DUnsplit r => h KW_UNSPLIT ++ SP ++ KW_RATIO ++ SP ++ print_dec r
  end.
Fixpoint join_lines (ls : list text) : text :=
  match ls with [] => [] | [l] => l | l :: r => l ++ [ch 10] ++ join_lines r end.
Definition print_txns (ts : list dtxn) : text := join_lines (map print_txn ts).

(* what a round trip may change: the currency label of a zero fee / tax *)
Definition norm_money (m : money) : money := if is_zero_money m then zero_gbp else m.
Definition norm_op (o : dop) : dop :=
  match o with
  | DBuy q p f => DBuy q p (norm_money f) | DSell q p f => DSell q p (norm_money f)
  | DDividend tv tx => DDividend tv (norm_money tx) | DAccumulation q tv tx => DAccumulation q tv (norm_money tx)
  | DCapReturn q tv f => DCapReturn q tv (norm_money f) | o => o
  end.
Definition norm_txn (t : dtxn) : dtxn := {| x_date := x_date t; x_tick := x_tick t; x_op := norm_op (x_op t) |}.

(* ---------- a canonical rendering used only for the correspondence check ---------- *)
Definition BAR : text := [ch 124].
Definition show_money (m : money) : text := print_dec (m_amt m) ++ BAR ++ m_cur m.
Definition show_txn (t : dtxn) : text :=
  let h kw := print_date (x_date t) ++ BAR ++ x_tick t ++ BAR ++ kw in
  match x_op t with
  | DBuy q p f => h KW_BUY ++ BAR ++ print_dec q ++ BAR ++ show_money p ++ BAR ++ show_money f
  | DSell q p f => h KW_SELL ++ BAR ++ print_dec q ++ BAR ++ show_money p ++ BAR ++ show_money f
  | DDividend tv tx => h KW_DIVIDEND ++ BAR ++ show_money tv ++ BAR ++ show_money tx
  | DAccumulation q tv tx => h KW_ACCUMULATION ++ BAR ++ print_dec q ++ BAR ++ show_money tv ++ BAR ++ show_money tx
  | DCapReturn q tv f => h KW_CAPRETURN ++ BAR ++ print_dec q ++ BAR ++ show_money tv ++ BAR ++ show_money f
  | DSplit r => h KW_SPLIT ++ BAR ++ print_dec r
  | DUnsplit r => h KW_UNSPLIT ++ BAR ++ print_dec r
  end.
