(* The MCP server as the property describes it: a stateless function from requests to answers.
   Definitions only.  Transport, scheduling and process liveness belong to rmcp/tokio and are not modelled. *)
From Coq Require Import ZArith List Bool.
Require Import CGT.Model.Date.
Import ListNotations.

Section Server.
  Context {Req Ans Id : Type} (handle : Req -> Ans) (id_of : Req -> option Id).
  (* notifications (no id) are not answered; every request with an id is answered once, with that id *)
  Definition respond (r : Req) : list (Id * Ans) :=
    match id_of r with Some i => [(i, handle r)] | None => [] end.
  Definition serve (rs : list Req) : list (Id * Ans) := flat_map respond rs.
  Definition ids (rs : list Req) : list Id := flat_map (fun r => match id_of r with Some i => [i] | None => [] end) rs.
End Server.

(* the tax year explain_matching derives from a disposal date before it asks for that year's report *)
Definition explain_year (d : date) : Z :=
  if (dm d <? 4)%Z || ((dm d =? 4)%Z && (dd d <? 6)%Z) then (dy d - 1)%Z else dy d.
