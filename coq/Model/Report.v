(* Legs -> disposals -> tax-year summaries, holdings.  Definitions only. *)
From Coq Require Import QArith Qcanon ZArith List Bool String.
Require Import CGT.Model.Num CGT.Model.Date CGT.Model.Ledger CGT.Model.Match CGT.Model.Agg.
Import ListNotations.
Open Scope Qc_scope.

Record params := {
  p_window : Z;            (* BNB_WINDOW_DAYS *)
  p_bm : Z; p_bd : Z;      (* tax-year boundary month and day (first day of the year) *)
  p_em : Z; p_ed : Z;      (* last day of the year as the year filter spells it *)
  p_ymin : Z; p_ymax : Z;  (* MIN_TAX_YEAR, MAX_TAX_YEAR *)
  p_round : nat            (* round_dp places for disposal proceeds *) }.

Definition tax_year_of_days (P : params) (z : Z) : option Z :=
  tax_year_of_gen (p_bm P) (p_bd P) (p_ymin P) (p_ymax P) (civil_of_days z).

Record disposal := { d_date : Z; d_tick : string; d_qty : Qc; d_gross : Qc; d_net : Qc;
                     d_legs : list leg }.
Definition d_gain (d : disposal) : Qc := qsum (map lg_gain (d_legs d)).
Definition d_cost (d : disposal) : Qc := qsum (map lg_cost (d_legs d)).

Definition mk_disposal (P : params) (tick : string) (x : Z * list leg) : disposal :=
  {| d_date := fst x; d_tick := tick;
     d_qty := qsum (map lg_qty (snd x));
     d_gross := round_half_even (p_round P) (qsum (map lg_gross (snd x)));
     d_net := round_half_even (p_round P) (qsum (map lg_net (snd x)));
     d_legs := snd x |}.

Inductive rerr :=
| RMatch (tick : string) (e : err)
| RTaxYear (z : Z)            (* a disposal date outside the supported tax years *)
| RNoExemption (y : Z)
| RBadYear (y : Z).           (* year filter not a valid calendar year / tax year *)

Record holding := { h_tick : string; h_qty : Qc; h_cost : Qc }.

Record ysum := { y_year : Z; y_disposals : list disposal;
                 y_gain : Qc; y_loss : Qc; y_net : Qc; y_exempt : Qc;
                 y_div_income : Qc; y_div_tax : Qc }.
Definition y_taxable (y : ysum) : Qc := qmax 0 (y_net y - y_exempt y).
Definition y_count (y : ysum) : nat := List.length (y_disposals y).

Record report := { r_years : list ysum; r_holdings : list holding }.

(* ---- per-security evaluation ---- *)
Record secres := { sr_tick : string; sr_res : err + mst }.
Definition eval_tick (P : params) (l : list gtxn) (s : string) : secres :=
  {| sr_tick := s; sr_res := run (p_window P) (days_of_tick l s) |}.
Definition eval_all (P : params) (l : list gtxn) : list secres :=
  map (eval_tick P l) (tickers_of l).

Definition sec_errors (rs : list secres) : list rerr :=
  flat_map (fun r => match sr_res r with inl e => [RMatch (sr_tick r) e] | inr _ => [] end) rs.
Definition sec_disposals (P : params) (rs : list secres) : list disposal :=
  flat_map (fun r => match sr_res r with
                     | inl _ => []
                     | inr s => map (mk_disposal P (sr_tick r)) (m_disp s) end) rs.
Definition sec_holdings (rs : list secres) : list holding :=
  flat_map (fun r => match sr_res r with
                     | inr s => if m_pooled s then [{| h_tick := sr_tick r; h_qty := m_pq s; h_cost := m_pc s |}] else []
                     | inl _ => [] end) rs.

(* ---- ordering of disposals: date, then ticker ---- *)
Definition disp_cmp (a b : disposal) : comparison :=
  match (d_date a ?= d_date b)%Z with
  | Eq => String.compare (d_tick a) (d_tick b)
  | c => c
  end.
Definition sort_disposals (l : list disposal) : list disposal := sort_uniq disp_cmp l.

(* ---- totals ---- *)
Definition gain_part (d : disposal) : Qc := if qltb 0 (d_gain d) then d_gain d else 0.
Definition loss_part (d : disposal) : Qc := if qltb (d_gain d) 0 then - d_gain d else 0.

Definition div_income (o : op Qc) : Qc := match o with Dividend tv _ => tv | _ => 0 end.
Definition div_tax (o : op Qc) : Qc := match o with Dividend _ tax => tax | _ => 0 end.
Definition in_year (P : params) (y : Z) (z : Z) : bool :=
  match tax_year_of_days P z with Some y' => (y' =? y)%Z | None => false end.
Definition dividends_of (P : params) (l : list gtxn) (y : Z) : Qc * Qc :=
  let ts := filter (fun t => in_year P y (t_date t)) l in
  (qsum (map (fun t => div_income (t_op t)) ts), qsum (map (fun t => div_tax (t_op t)) ts)).

Definition exemptions := list (Z * Qc).
Fixpoint lookup_ex (cfg : exemptions) (y : Z) : option Qc :=
  match cfg with
  | [] => None
  | (k, v) :: r => if (k =? y)%Z then Some v else lookup_ex r y
  end.

Definition mk_ysum (P : params) (l : list gtxn) (ex : Qc) (y : Z) (ds : list disposal) : ysum :=
  let g := qsum (map gain_part ds) in
  let lo := qsum (map loss_part ds) in
  {| y_year := y; y_disposals := ds; y_gain := g; y_loss := lo; y_net := g - lo; y_exempt := ex;
     y_div_income := fst (dividends_of P l y); y_div_tax := snd (dividends_of P l y) |}.

Definition disp_year (P : params) (d : disposal) : option Z := tax_year_of_days P (d_date d).

(* all-years mode: one summary per tax year that has a disposal *)
Definition years_of (P : params) (ds : list disposal) : list Z :=
  sort_uniq Z.compare (flat_map (fun d => match disp_year P d with Some y => [y] | None => [] end) ds).
Definition bad_year_errors (P : params) (ds : list disposal) : list rerr :=
  flat_map (fun d => match disp_year P d with Some _ => [] | None => [RTaxYear (d_date d)] end) ds.
Definition ex_errors (cfg : exemptions) (ys : list Z) : list rerr :=
  flat_map (fun y => match lookup_ex cfg y with Some _ => [] | None => [RNoExemption y] end) ys.
Definition disposals_in (P : params) (y : Z) (ds : list disposal) : list disposal :=
  filter (fun d => in_year P y (d_date d)) ds.
Definition ysum_for (P : params) (cfg : exemptions) (l : list gtxn) (ds : list disposal) (y : Z) : ysum :=
  mk_ysum P l (match lookup_ex cfg y with Some v => v | None => 0 end) y (disposals_in P y ds).

(* year-filter mode: the code filters by the date range 6 April Y .. 5 April Y+1 *)
Definition in_range (P : params) (y : Z) (z : Z) : bool :=
  (days_of_civil {| dy := y; dm := p_bm P; dd := p_bd P |} <=? z)%Z &&
  (z <=? days_of_civil {| dy := y + 1; dm := p_em P; dd := p_ed P |})%Z.
Definition disposals_in_range (P : params) (y : Z) (ds : list disposal) : list disposal :=
  filter (fun d => in_range P y (d_date d)) ds.
Definition ysum_filtered (P : params) (cfg : exemptions) (l : list gtxn) (ds : list disposal) (y : Z) : ysum :=
  mk_ysum P l (match lookup_ex cfg y with Some v => v | None => 0 end) y (disposals_in_range P y ds).
Definition year_range_ok (P : params) (y : Z) : bool :=
  match tax_year_of_gen (p_bm P) (p_bd P) (p_ymin P) (p_ymax P) {| dy := y; dm := p_bm P; dd := p_bd P |} with
  | Some y' => (y' =? y)%Z | None => false end.

Definition report_of (P : params) (cfg : exemptions) (yf : option Z) (l : list gtxn) : list rerr + report :=
  let rs := eval_all P l in
  match sec_errors rs with
  | e :: es => inl (e :: es)
  | [] =>
      let ds := sort_disposals (sec_disposals P rs) in
      let hs := sec_holdings rs in
      match yf with
      | None =>
          match bad_year_errors P ds with
          | e :: es => inl (e :: es)
          | [] =>
              let ys := years_of P ds in
              match ex_errors cfg ys with
              | e :: es => inl (e :: es)
              | [] => inr {| r_years := map (ysum_for P cfg l ds) ys; r_holdings := hs |}
              end
          end
      | Some y =>
          if negb (year_range_ok P y) then inl [RBadYear y] else
          match lookup_ex cfg y with
          | None => inl [RNoExemption y]
          | Some _ => inr {| r_years := [ysum_filtered P cfg l ds y]; r_holdings := hs |}
          end
      end
  end.
