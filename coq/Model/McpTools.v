(* The tool layer of crates/cgt-mcp/src/server.rs: what each tool does with its arguments before and after the computations it
   calls.  parse_input trims the text and sniffs JSON by a leading '['; do_calculate_report refuses an empty list; explain_matching
   reads the date strictly, derives the tax year, asks for that year's report and looks the disposal up by date and ticker
   (letter case ignored).  The DSL reader, the JSON reader, the calculator and the report's list of disposals are section variables.
   Definitions only. *)
From Coq Require Import ZArith NArith List Bool Ascii String.
Require Import CGT.Model.Date CGT.Model.Dsl CGT.Model.Json CGT.Model.Mcp.
Import ListNotations.
Open Scope N_scope.

(* str::trim: Unicode White_Space; its ASCII members are HT LF VT FF CR and the space *)
Definition is_rust_space (c : ascii) : bool := ((9 <=? code c) && (code c <=? 13)) || (code c =? 32).
Fixpoint trim_start (s : text) : text :=
  match s with c :: r => if is_rust_space c then trim_start r else s | [] => [] end.
Definition trim (s : text) : text := rev (trim_start (rev (trim_start s))).
(* a non-ASCII byte at either end of the ASCII-trimmed text may belong to a multi-byte space (U+00A0, U+2003, ...) that str::trim
   would strip as well: not modelled *)
Definition edge_unmodelled (s : text) : bool :=
  match s with c :: _ => 128 <=? code c | [] => false end || match rev s with c :: _ => 128 <=? code c | [] => false end.
Definition starts_with_bracket (s : text) : bool := match s with c :: _ => code c =? 91 | [] => false end.

Inductive tres (A : Type) := TOk (a : A) | TErr | TUnmodelled.
Arguments TOk {A} a. Arguments TErr {A}. Arguments TUnmodelled {A}.

Section Tools.
  Context {Txs Rep Disp : Type}.
  Context (parse_dsl parse_json : text -> option Txs)      (* parse_file / serde_json::from_str, on the trimmed text *)
          (is_empty : Txs -> bool)
          (calc : Txs -> option Z -> option Rep)           (* calculate with the server's rates and configuration *)
          (disposals : Rep -> list Disp)                   (* tax years in order, each year's disposals in order *)
          (d_date : Disp -> date) (d_tick : Disp -> text).

  Definition parse_input (s : text) : tres Txs :=
    let t := trim s in
    if edge_unmodelled t then TUnmodelled else
    match (if starts_with_bracket t then parse_json t else parse_dsl t) with Some x => TOk x | None => TErr end.

  (* parse_transactions and convert_to_dsl answer with a rendering of exactly this list *)
  Definition parse_tool (s : text) : tres Txs := parse_input s.

  Definition calculate_tool (s : text) (year : option Z) : tres Rep :=
    match parse_input s with
    | TOk txs => if is_empty txs then TErr else match calc txs year with Some r => TOk r | None => TErr end
    | TErr => TErr
    | TUnmodelled => TUnmodelled
    end.

  Definition date_eqb (a b : date) : bool := (dy a =? dy b)%Z && (dm a =? dm b)%Z && (dd a =? dd b)%Z.
  Definition tick_eq_ci (a b : text) : bool := teqb (upper_text a) (upper_text b).     (* eq_ignore_ascii_case *)
  (* NaiveDate::parse_from_str(.., "%Y-%m-%d"): the strict shape is modelled, looser shapes chrono also reads are not *)
  Definition read_iso_date (s : text) : tres date :=
    match p_date s with
    | POk d None [] => TOk d
    | POk _ (Some _) [] => TErr
    | _ => TUnmodelled
    end.

  Definition find_disposal (r : Rep) (d : date) (tk : text) : option Disp :=
    find (fun x => date_eqb (d_date x) d && tick_eq_ci (d_tick x) tk) (disposals r).

  Definition explain_tool (s ds tk : text) : tres Disp :=
    match read_iso_date ds with
    | TOk d =>
        match calculate_tool s (Some (explain_year d)) with
        | TOk r => match find_disposal r d tk with Some x => TOk x | None => TErr end
        | TErr => TErr
        | TUnmodelled => TUnmodelled
        end
    | TErr => TErr
    | TUnmodelled => TUnmodelled
    end.
End Tools.
