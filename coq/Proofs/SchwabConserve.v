(* The Schwab converter keeps every trade row: the BUY/SELL entries it emits are, up to order, exactly one per Buy, Sell and
   RSU-vest row, less one Sell for each Cancel Sell that finds an identical Sell. *)
From Coq Require Import ZArith NArith List Bool Ascii String Permutation Lia.
Require Import CGT.Model.Date CGT.Model.Dsl CGT.Model.Schwab CGT.Proofs.SchwabFacts.
Import ListNotations.

Definition is_trade (t : cgt) : bool := match t with CBuy _ _ _ _ _ _ | CSell _ _ _ _ _ => true | _ => false end.
Definition fee0 (f : option sdec) : sdec := match f with Some x => x | None => szero end.

(* what the property demands for one decoded row *)
Definition demanded (lb : nat) (awards : option amap) (i : item) : list cgt :=
  match i with
  | ITrade ABuy d sym q p f => [CBuy d sym q p (fee0 f) None]
  | ITrade ASell d sym q p f => [CSell d sym q p (fee0 f)]
  | IStockPlan d sym q =>
      match awards with
      | Some m => match get_fmv lb m sym (days_of_civil d) with
                  | Some (fmv, vz) => [CBuy (civil_of_days vz) sym q fmv szero (Some (T "RSU Vesting - FMV from awards file"))]
                  | None => [] end
      | None => []
      end
  | _ => []
  end.
Definition cancels_of (i : item) : list (date * text * sdec * sdec) :=
  match i with
  | ITrade ABuy _ _ _ _ _ | ITrade ASell _ _ _ _ _ => []
  | ITrade _ d sym q p _ => [(d, sym, q, p)]
  | _ => []
  end.

Lemma filter_app_one {A} (f : A -> bool) l x : filter f (l ++ [x]) = filter f l ++ (if f x then [x] else []).
Proof. rewrite filter_app. cbn [filter]. destruct (f x); reflexivity. Qed.

Lemma step_trades lb aw st i st' : step lb aw st i = Ok st' ->
  filter is_trade (p_out st') = filter is_trade (p_out st) ++ demanded lb aw i /\ p_cancels st' = p_cancels st ++ cancels_of i.
Proof.
  destruct i as [a d sym q p f|d sym q|d sym am| d sym|d sym am| |r]; cbn [step demanded cancels_of].
  - destruct a; intros H; injection H as <-; cbn [p_out p_cancels]; rewrite ?filter_app_one, ?app_nil_r; cbn [is_trade]; split; reflexivity.
  - destruct aw as [m|]; [|discriminate]. destruct (get_fmv lb m sym (days_of_civil d)) as [[fmv vz]|]; [|discriminate].
    intros H; injection H as <-; cbn [p_out p_cancels]. rewrite filter_app_one, app_nil_r. split; reflexivity.
  - destruct am as [a|]; intros H; injection H as <-; cbn [p_out p_cancels]; rewrite ?filter_app_one, ?app_nil_r; split; reflexivity.
  - intros H; injection H as <-; cbn [p_out p_cancels]. rewrite filter_app_one, !app_nil_r. split; reflexivity.
  - intros H; injection H as <-. rewrite !app_nil_r. split; reflexivity.
  - intros H; injection H as <-; cbn [p_out p_cancels]. rewrite !app_nil_r. split; reflexivity.
  - intros H; injection H as <-; cbn [p_out p_cancels]. rewrite filter_app_one, !app_nil_r. split; reflexivity.
Qed.

Lemma steps_trades lb aw items : forall st st', steps lb aw st items = Ok st' ->
  filter is_trade (p_out st') = filter is_trade (p_out st) ++ flat_map (demanded lb aw) items /\
  p_cancels st' = p_cancels st ++ flat_map cancels_of items.
Proof.
  induction items as [|i r IH]; intros st st' H; cbn [steps flat_map] in *.
  - injection H as <-. rewrite !app_nil_r. split; reflexivity.
  - destruct (step lb aw st i) as [st1|e] eqn:E; [|discriminate].
    destruct (step_trades lb aw st i st1 E) as [A B]. destruct (IH st1 st' H) as [C D].
    rewrite C, D, A, B, <- !app_assoc. split; reflexivity.
Qed.

(* each cancellation removes exactly one identical sell, or is counted as unmatched *)
Lemma apply_cancels_spec cs : forall out w out' w', apply_cancels out cs w = (out', w') ->
  exists removed, Permutation out (removed ++ out') /\ (w <= w')%nat /\ (List.length removed + (w' - w) = List.length cs)%nat /\
                  Forall (fun x => exists c, In c cs /\ is_cancelled c x = true) removed.
Proof.
  induction cs as [|c r IH]; intros out w out' w' H; cbn [apply_cancels] in H.
  - injection H as <- <-. exists []. repeat split; [apply Permutation_refl|lia|cbn; lia|constructor].
  - destruct (remove_first (is_cancelled c) out) as [out1|] eqn:E.
    + destruct (remove_first_spec _ _ _ E) as (x & Hx & Px). destruct (IH out1 w out' w' H) as (rem & P & L & N & F).
      exists (x :: rem). repeat split.
      * eapply Permutation_trans; [exact Px|]. cbn [app]. apply perm_skip. exact P.
      * exact L.
      * cbn [List.length]. lia.
      * constructor; [exists c; split; [left; reflexivity|exact Hx]|].
        eapply Forall_impl; [|exact F]. intros y (c' & Hin & Hy). exists c'. split; [right; exact Hin|exact Hy].
    + destruct (IH out (S w) out' w' H) as (rem & P & L & N & F). exists rem. repeat split.
      * exact P.
      * lia.
      * cbn [List.length]. lia.
      * eapply Forall_impl; [|exact F]. intros y (c' & Hin & Hy). exists c'. split; [right; exact Hin|exact Hy].
Qed.

Lemma Permutation_filter {A} (f : A -> bool) l l' : Permutation l l' -> Permutation (filter f l) (filter f l').
Proof.
  induction 1 as [|x l l' _ IH|x y l|l l' l'' _ IH1 _ IH2]; cbn [filter].
  - constructor.
  - destruct (f x); [apply perm_skip|]; exact IH.
  - destruct (f x); destruct (f y); try apply Permutation_refl. apply perm_swap.
  - eapply Permutation_trans; eassumption.
Qed.

Lemma cancelled_is_trade c x : is_cancelled c x = true -> is_trade x = true.
Proof. destruct x; cbn [is_cancelled is_trade]; congruence. Qed.

(* The conservation law at the level of the converter's own pipeline: processing, orphan comments, cancellations, sort. *)
Theorem trades_conserved lb aw items st0 st extra w out' w' :
  steps lb aw st0 items = Ok st -> p_out st0 = [] -> p_cancels st0 = [] ->
  apply_cancels (p_out st ++ map CComment extra) (p_cancels st) w = (out', w') ->
  exists removed,
    Permutation (flat_map (demanded lb aw) items) (removed ++ filter is_trade (sort_stable cgt_cmp out')) /\
    (List.length removed + (w' - w) = List.length (flat_map cancels_of items))%nat /\
    Forall (fun x => exists c, In c (flat_map cancels_of items) /\ is_cancelled c x = true) removed.
Proof.
  intros Hs Ho Hc Ha. destruct (steps_trades lb aw items st0 st Hs) as [A B]. rewrite Ho in A. rewrite Hc in B. cbn [filter app] in A, B.
  destruct (apply_cancels_spec _ _ _ _ _ Ha) as (rem & P & L & N & F). rewrite B in N, F.
  exists rem. split; [|split; assumption].
  assert (Hrem : filter is_trade rem = rem).
  { clear -F. induction rem as [|x r IH]; [reflexivity|]. inversion F as [|y ys (c & _ & Hx) Hr]; subst. cbn [filter].
    rewrite (cancelled_is_trade c x Hx), (IH Hr). reflexivity. }
  assert (Hcom : forall l, filter is_trade (map CComment l) = []) by (intros l; induction l as [|e r IH]; [reflexivity|exact IH]).
  rewrite <- A.
  assert (E : filter is_trade (p_out st) = filter is_trade (p_out st ++ map CComment extra)) by (rewrite filter_app, (Hcom extra), app_nil_r; reflexivity).
  rewrite E. eapply Permutation_trans; [apply Permutation_filter; exact P|]. rewrite filter_app, Hrem.
  apply Permutation_app_head. apply Permutation_filter. apply sort_stable_perm.
Qed.

(* ... and for the converter as a whole *)
Theorem convert_conserves lb rows aws o : convert lb rows aws = Ok o ->
  exists awards items sorted header removed,
    decode_all rows = Ok items /\
    o_lines o = header ++ flat_map cgt_lines sorted /\
    Permutation (flat_map (demanded lb awards) items) (removed ++ filter is_trade sorted) /\
    (List.length removed <= List.length (flat_map cancels_of items))%nat /\
    Forall (fun x => exists c, In c (flat_map cancels_of items) /\ is_cancelled c x = true) removed.
Proof.
  unfold convert. intros H.
  destruct (match aws with Some a => match build_awards a [] with Ok m => Ok (Some m) | Err e => Err e end | None => Ok None end) as [awards|e]; [|discriminate].
  destruct (decode_all rows) as [items|e] eqn:Ed; [|discriminate].
  cbv zeta in H.
  match type of H with match steps lb awards ?s0 items with _ => _ end = _ => set (st0 := s0) in H end.
  destruct (steps lb awards st0 items) as [st|e] eqn:Es; [|discriminate].
  match type of H with context [apply_cancels ?a ?b ?c] => destruct (apply_cancels a b c) as [out' w'] eqn:Ea end.
  cbn [fst snd] in H. injection H as <-. cbn [o_lines].
  rewrite map_map in Ea || idtac.
  match type of Ea with apply_cancels (p_out st ++ map ?f ?l) _ _ = _ =>
    assert (Em : map f l = map CComment (map orphan_comment l)) by (rewrite map_map; reflexivity); rewrite Em in Ea end.
  destruct (trades_conserved lb awards items st0 st _ _ out' w' Es eq_refl eq_refl Ea) as (rem & P & N & F).
  set (skipped := (p_skipped st + List.length (sort_stable tax_key_cmp (p_taxes st)))%nat).
  exists awards, items, (sort_stable cgt_cmp out'),
    ([comment_line (T "Converted from Charles Schwab export");
      comment_line (T "Source files: transactions.json" ++ (match aws with Some _ => T ", awards.json" | None => [] end))] ++
     (if Nat.ltb 0 skipped then [comment_line (T "SKIPPED: " ++ nat_text skipped ++ T " transactions not CGT-relevant")] else []) ++ [[]]), rem.
  split; [reflexivity|]. split; [reflexivity|]. split; [exact P|]. split; [lia|exact F].
Qed.
