(* No acquisition is over-used (C02): for every purchase day, the quantity of its Same Day leg plus everything
   earlier disposals claimed on it under the 30-day rule (in that day's units) is at most what was bought. *)
From Coq Require Import QArith Qcanon ZArith List Bool Lqa Lia Sorted.
Require Import CGT.Model.Num CGT.Model.Match CGT.Proofs.NumFacts CGT.Proofs.MatchFacts CGT.Proofs.MatchInv.
Import ListNotations.
Open Scope Qc_scope.

Definition is_same_day (l : leg) : bool := match lg_rule l with SameDay => true | _ => false end.
Definition sd_qty (legs : list leg) : Qc := qsum (map lg_qty (filter is_same_day legs)).
Lemma sd_qty_app a b : sd_qty (a ++ b) = sd_qty a + sd_qty b.
Proof. unfold sd_qty. rewrite filter_app, map_app. apply qsum_app. Qed.

Lemma bnb_no_sd w offs d fut : forall R rem cl, sd_qty (b_legs (bnb w offs d fut R rem cl)) = 0.
Proof.
  induction fut as [|e r IH]; intros R rem cl; cbn [bnb]; [reflexivity|].
  destruct (negb (qltb 0 rem)); [reflexivity|]. destruct (dt e - dt d >? w)%Z; [reflexivity|].
  assert (sd_qty (b_legs (bnb_step offs d e R rem cl)) = 0) as Hs.
  { unfold bnb_step. destruct (hasbuy e && qltb 0 (free_of e cl)); reflexivity. }
  destruct (b_crash (bnb_step offs d e R rem cl)); [exact Hs|]. cbn [b_legs]. rewrite sd_qty_app, Hs, IH. ring.
Qed.

(* claims are only ever added for days of the future list *)
Lemma day_step_claims w offs s d rest s' : day_step w offs s d rest = inr s' ->
  forall z, ~ In z (dates rest) -> claim_of (m_cl s') z = claim_of (m_cl s) z.
Proof.
  unfold day_step. destruct (hasbuy d && qltb (bq d) _); [discriminate|].
  destruct (hassell d).
  - unfold sell_step. destruct (qltb _ (sq d)); [discriminate|]. destruct (qltb _ (sq d)); [discriminate|].
    set (bb := if qeqb (sq d) 0 then _ else _). destruct (b_crash bb) eqn:Ec; [discriminate|].
    destruct (qltb 0 _); [discriminate|]. intros H z Hz. injection H as <-. cbn [m_cl s_cl].
    unfold bb. destruct (qeqb (sq d) 0); [reflexivity|]. apply bnb_cl_other. exact Hz.
  - intros H z _. injection H as <-. reflexivity.
Qed.
Lemma mainpass_claims w offs ds : forall s s', mainpass w offs s ds = inr s' ->
  forall z, ~ In z (dates ds) -> claim_of (m_cl s') z = claim_of (m_cl s) z.
Proof.
  induction ds as [|d r IH]; intros s s' E z Hz; cbn [mainpass] in E; [injection E as <-; reflexivity|].
  destruct (day_step w offs s d r) as [e|s1] eqn:E1; [discriminate|].
  rewrite (IH s1 s' E z) by (intro H; apply Hz; right; exact H).
  apply (day_step_claims w offs s d r s1 E1). intro H. apply Hz. right. exact H.
Qed.

Lemma day_step_disp_grows w offs s d rest s' : day_step w offs s d rest = inr s' -> exists L, m_disp s' = m_disp s ++ L.
Proof.
  unfold day_step. destruct (hasbuy d && qltb (bq d) _); [discriminate|].
  destruct (if hassell d then _ else _) as [e|r]; [discriminate|]. intros H. injection H as <-. cbn [m_disp]. eexists. reflexivity.
Qed.
Lemma mainpass_legs_prefix w offs ds : forall s s', mainpass w offs s ds = inr s' -> exists L, m_disp s' = m_disp s ++ L.
Proof.
  induction ds as [|d r IH]; intros s s' E; cbn [mainpass] in E; [injection E as <-; exists []; symmetry; apply app_nil_r|].
  destruct (day_step w offs s d r) as [e|s1] eqn:E1; [discriminate|].
  destruct (day_step_disp_grows w offs s d r s1 E1) as (L1 & EL1). destruct (IH s1 s' E) as (L2 & EL2).
  exists (L1 ++ L2). rewrite EL2, EL1, app_assoc. reflexivity.
Qed.

(* the day's own use of its acquisition *)
Lemma day_step_use w offs s d rest s' : wf_day d -> Inv s (d :: rest) -> day_step w offs s d rest = inr s' ->
  hasbuy d = true ->
  exists legs, (m_disp s' = m_disp s ++ [(dt d, legs)] \/ (m_disp s' = m_disp s /\ legs = [])) /\
    sd_qty legs + claim_of (m_cl s) (dt d) <= bq d.
Proof.
  intros Hwf HI E Hb. pose proof HI as [_ Icl _ _]. destruct (Icl d (or_introl eq_refl)) as [Hcb _].
  destruct (Hcb Hb) as [Hc0 Hc1]. pose proof Hwf as (Hwb & Hws & _).
  assert (Hcap : cap_of d <= bq d) by (apply cap_le_bq; specialize (Hwb Hb); qc2q; lra).
  unfold day_step in E. rewrite Hb in E. cbn [andb] in E.
  destruct (qltb (bq d) (claim_of (m_cl s) (dt d))); [discriminate|].
  destruct (hassell d) eqn:Hsell.
  - unfold sell_step in E. destruct (qltb _ (sq d)); [discriminate|]. destruct (qltb _ (sq d)); [discriminate|].
    set (av := bq d - claim_of (m_cl s) (dt d)) in *.
    assert (Hav : 0 <= av) by (unfold av; qc2q; lra).
    destruct (same_day_step_spec offs d av Hav (Hws eq_refl)) as (m1 & Hm0 & Hm1 & _ & _ & _ & Eq1 & _).
    set (bb := if qeqb (sq d) 0 then _ else _) in *. destruct (b_crash bb); [discriminate|].
    destruct (qltb 0 _); [discriminate|]. injection E as <-. cbn [m_disp s_legs].
    set (legs := fst (fst (same_day_step offs d av)) ++ b_legs bb ++ fst (fst (pool_step d s (b_rem bb)))).
    exists legs. split.
    + destruct legs eqn:El; [right; split; [apply app_nil_r|reflexivity]|left; reflexivity].
    + unfold legs. rewrite !sd_qty_app.
      assert (sd_qty (fst (fst (same_day_step offs d av))) = m1) as ->.
      { rewrite <- Eq1. unfold same_day_step, sd_qty, legs_qty. destruct (qltb 0 av && qltb 0 (sq d)); reflexivity. }
      assert (sd_qty (b_legs bb) = 0) as ->.
      { unfold bb. destruct (qeqb (sq d) 0); [reflexivity|apply bnb_no_sd]. }
      assert (sd_qty (fst (fst (pool_step d s (b_rem bb)))) = 0) as ->.
      { unfold pool_step. destruct (qltb 0 _ && m_pooled s && _ && _); reflexivity. }
      unfold av in Hm1. qc2q; lra.
  - injection E as <-. cbn [m_disp s_legs]. exists []. split; [right; split; [apply app_nil_r|reflexivity]|].
    unfold sd_qty; cbn [filter map]. rewrite qsum_nil. qc2q; lra.
Qed.

(* run level *)
Definition use_ok (disp : list (Z * list leg)) (cl : claims) (e : day) : Prop :=
  forall legs, (In (dt e, legs) disp \/ legs = []) ->
  (forall legs', In (dt e, legs') disp -> legs' = legs) -> sd_qty legs + claim_of cl (dt e) <= bq e.

Theorem mainpass_use w offs ds : forall s s', wf_days ds -> sorted_days ds -> Inv s ds ->
  mainpass w offs s ds = inr s' ->
  forall e, In e ds -> hasbuy e = true ->
  exists legs, (In (dt e, legs) (m_disp s') \/ legs = []) /\ sd_qty legs + claim_of (m_cl s') (dt e) <= bq e.
Proof.
  induction ds as [|d r IH]; intros s s' Hwf Hs HI E e He Hb; [destruct He|].
  cbn [mainpass] in E. destruct (day_step w offs s d r) as [er|s1] eqn:E1; [discriminate|].
  apply sorted_cons_inv in Hs. destruct Hs as [Hs Hl].
  assert (Hrat : ratios_pos r) by (intros x Hx; apply (Hwf x (or_intror Hx))).
  assert (HI1 : Inv s1 r).
  { destruct (day_step_ok w offs s d r (Hwf d (or_introl eq_refl)) Hrat (sorted_nodup r Hs) HI) as [(_ & _ & E')|(_ & s'' & E' & HI' & _)];
      rewrite E1 in E'; [discriminate|]. injection E' as <-. exact HI'. }
  destruct He as [<-|He].
  - destruct (day_step_use w offs s d r s1 (Hwf d (or_introl eq_refl)) HI E1 Hb) as (legs & Hd & Hle).
    exists legs. split.
    + destruct Hd as [Hd|[_ ->]]; [left|right; reflexivity].
      destruct (mainpass_legs_prefix w offs r s1 s' E) as (L & EL). rewrite EL, Hd. apply in_or_app. left. apply in_or_app. right. left. reflexivity.
    + assert (~ In (dt d) (dates r)) as Hn.
      { intro Hin. unfold dates in Hin. apply in_map_iff in Hin. destruct Hin as (x & Ex & Hx). specialize (Hl x Hx). lia. }
      rewrite (mainpass_claims w offs r s1 s' E (dt d) Hn).
      assert (~ In (dt d) (dates r)) as Hn' by exact Hn.
      rewrite (day_step_claims w offs s d r s1 E1 (dt d) Hn'). exact Hle.
  - apply (IH s1 s' (fun x Hx => Hwf x (or_intror Hx)) Hs HI1 E e He Hb).
Qed.
