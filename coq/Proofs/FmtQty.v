(* Quantities are shown exactly: the trimmed decimal text (trailing zeros and a bare point removed) reads back to the same value. *)
From Coq Require Import ZArith NArith List Bool Ascii String Lia.
Require Import CGT.Model.Date CGT.Model.Dsl CGT.Model.Fmt CGT.Proofs.DecFacts CGT.Proofs.DslRound.
Import ListNotations.
Open Scope N_scope.

Lemma drop_trailing_snoc p s c : drop_trailing p (s ++ [c]) = if p c then drop_trailing p s else s ++ [c].
Proof.
  induction s as [|x r IH]; cbn [app drop_trailing].
  - destruct (p c); reflexivity.
  - rewrite IH. destruct (p c) eqn:E.
    + reflexivity.
    + destruct (r ++ [c]) eqn:Er; [destruct r; discriminate|reflexivity].
Qed.
Lemma drop_trailing_keep p s : (forall c, In c s -> p c = false) -> drop_trailing p s = s.
Proof.
  induction s as [|x r IH] using rev_ind; intros H; [reflexivity|].
  rewrite drop_trailing_snoc, (H x) by (apply in_or_app; right; left; reflexivity). reflexivity.
Qed.

Definition is0 (c : ascii) : bool := code c =? 48.
Definition isdot (c : ascii) : bool := code c =? 46.
Definition ZERO : ascii := ch 48.

Lemma digits_val_zeros k : forall s a, digits_val a (s ++ repeat ZERO k) = digits_val a s * 10 ^ N.of_nat k.
Proof.
  induction k as [|k IH]; intros s a; cbn [repeat]; [rewrite app_nil_r; cbn; lia|].
  replace (s ++ ZERO :: repeat ZERO k) with ((s ++ [ZERO]) ++ repeat ZERO k) by (rewrite <- app_assoc; reflexivity).
  rewrite IH, digits_val_app. cbn [digits_val]. replace (digit_val ZERO) with 0 by reflexivity.
  rewrite Nat2N.inj_succ, N.pow_succ_r'. lia.
Qed.

(* stripping the zeros at the end of the fraction *)
Lemma strip_zeros pre fp : (forall c, In c pre -> True) -> forallb is_digit fp = true ->
  (exists x pre', pre = pre' ++ [x] /\ is0 x = false) ->
  exists fp' k, drop_trailing is0 (pre ++ fp) = pre ++ fp' /\ fp = fp' ++ repeat ZERO k /\
                (fp' = [] \/ exists f c, fp' = f ++ [c] /\ is0 c = false).
Proof.
  intros _ Hd (x & pre' & -> & Hx). induction fp as [|c f IH] using rev_ind.
  - exists [], O. rewrite app_nil_r, drop_trailing_snoc, Hx. repeat split. left. reflexivity.
  - rewrite forallb_app in Hd. apply andb_true_iff in Hd. destruct Hd as [Hf Hc]. cbn [forallb] in Hc. rewrite andb_true_r in Hc.
    rewrite app_assoc, drop_trailing_snoc. destruct (is0 c) eqn:E.
    + destruct (IH Hf) as (fp' & k & D & Sp & L). exists fp', (Datatypes.S k). split; [exact D|]. split; [|exact L].
      rewrite Sp, <- app_assoc. f_equal. assert (c = ZERO) as -> by (apply code_inj; apply N.eqb_eq; exact E).
      clear. induction k as [|k IH]; [reflexivity|]. cbn [repeat app]. rewrite IH. reflexivity.
    + exists (f ++ [c]), O. rewrite <- app_assoc, app_nil_r. repeat split. right. exists f, c. split; [reflexivity|exact E].
Qed.

Lemma digit_not_dot c : is_digit c = true -> isdot c = false.
Proof. unfold isdot. intros H. revert H. cls. Qed.
Lemma has_dot_digits s : forallb is_digit s = true -> has_dot s = false.
Proof.
  unfold has_dot. induction s as [|c r IH]; intros H; cbn [existsb]; [reflexivity|]. cbn [forallb] in H. apply andb_true_iff in H.
  destruct H as [Hc Hr]. pose proof (digit_not_dot c Hc) as E. unfold isdot in E. rewrite E, (IH Hr). reflexivity.
Qed.
Lemma has_dot_mid a b : has_dot (a ++ [DOT] ++ b) = true.
Proof. unfold has_dot. rewrite existsb_app. cbn [app existsb]. replace (code DOT =? 46) with true by reflexivity. rewrite orb_true_r. reflexivity. Qed.
Lemma repeat_length_zero k : List.length (repeat ZERO k) = k. Proof. apply repeat_length. Qed.

Theorem trimmed_exact d rest : dec_ok d = true -> stops rest ->
  exists ip fp d', lex_decimal (format_dec_trimmed d ++ rest) = Some (ip, fp, rest) /\ parse_dec ip fp = DOk d' /\
    (d_scale d' <= d_scale d)%nat /\ d_mant d = d_mant d' * 10 ^ N.of_nat (d_scale d - d_scale d') /\
    (fp = [] \/ exists f c, fp = f ++ [c] /\ is0 c = false).
Proof.
  intros Hok Hst. pose proof Hok as Hok'. unfold dec_ok in Hok'. apply andb_true_iff in Hok'. destruct Hok' as [Hm Hs].
  apply N.ltb_lt in Hm. apply Nat.leb_le in Hs.
  destruct (dec_digits_spec d Hm) as (Hdig & Hval & Hlen).
  unfold format_dec_trimmed.
  destruct (Nat.eqb_spec (d_scale d) 0) as [E0|N0].
  - (* no fraction: nothing to trim *)
    assert (Ep : print_dec d = dec_digits d) by (unfold print_dec; fold (dec_digits d); rewrite E0; reflexivity).
    unfold trim_decimal. rewrite Ep, (has_dot_digits _ Hdig), <- Ep.
    destruct (lex_print_dec d rest Hok Hst) as (ip & fp & L & P). exists ip, fp, d. split; [exact L|]. split; [exact P|].
    split; [lia|]. split; [rewrite Nat.sub_diag; cbn; lia|].
    (* the fraction read back is empty *)
    left. rewrite Ep in L. unfold lex_decimal in L.
    rewrite span_digits in L; [|exact Hdig|destruct rest as [|c r]; [exact I|destruct Hst; assumption]]. cbn [fst snd] in L.
    destruct (dec_digits d) as [|x xs]; [discriminate|]. destruct rest as [|c r]; [injection L as _ <- ; reflexivity|].
    destruct Hst as [_ Hc]. apply N.eqb_neq in Hc. rewrite Hc in L. injection L as _ <-. reflexivity.
  - set (ds := dec_digits d) in *. set (n := (List.length ds - d_scale d)%nat).
    assert (Hn : (0 < n)%nat) by (unfold n; lia).
    set (ip := firstn n ds). set (fp := skipn n ds).
    assert (Hip : forallb is_digit ip = true) by (apply forallb_firstn; exact Hdig).
    assert (Hfp : forallb is_digit fp = true) by (apply forallb_skipn; exact Hdig).
    assert (Lfp : List.length fp = d_scale d) by (unfold fp; rewrite skipn_length; unfold n; lia).
    assert (Nip : ip <> []).
    { unfold ip. destruct ds as [|y ys]; [cbn [List.length] in Hlen; lia|]. destruct n; [lia|]. discriminate. }
    assert (Ep : print_dec d = ip ++ [DOT] ++ fp).
    { unfold print_dec. fold (dec_digits d). fold ds. destruct (Nat.eqb_spec (d_scale d) 0); [contradiction|]. reflexivity. }
    unfold trim_decimal. rewrite Ep, has_dot_mid. change (fun c : ascii => code c =? 48) with is0. change (fun c : ascii => code c =? 46) with isdot.
    destruct (strip_zeros (ip ++ [DOT]) fp (fun _ _ => I) Hfp (ex_intro _ DOT (ex_intro _ ip (conj eq_refl eq_refl)))) as (fp' & k & D & Sp & Last).
    replace (ip ++ [DOT] ++ fp) with ((ip ++ [DOT]) ++ fp) by (rewrite <- app_assoc; reflexivity). rewrite D.
    assert (Hfp' : forallb is_digit fp' = true) by (rewrite Sp, forallb_app in Hfp; apply andb_true_iff in Hfp; apply Hfp).
    assert (Lk : (List.length fp' + k = d_scale d)%nat) by (rewrite <- Lfp, Sp, app_length, repeat_length_zero; reflexivity).
    assert (Eval : d_mant d = digits_val 0 (ip ++ fp') * 10 ^ N.of_nat k).
    { rewrite <- Hval. fold ds. rewrite <- (firstn_skipn n ds). fold ip. fold fp. rewrite Sp, app_assoc. apply digits_val_zeros. }
    assert (Hmant : digits_val 0 (ip ++ fp') < two96).
    { pose proof (N.pow_nonzero 10 (N.of_nat k) ltac:(discriminate)) as Hz. assert (1 <= 10 ^ N.of_nat k) by lia. nia. }
    assert (Hmb : digits_val 0 (ip ++ fp') <? two96 = true) by (apply N.ltb_lt; exact Hmant).
    destruct Last as [->|(f & c & -> & Hc)].
    + (* the whole fraction was zeros: the point goes too *)
      rewrite app_nil_r, drop_trailing_snoc. replace (isdot DOT) with true by reflexivity.
      rewrite drop_trailing_keep by (intros c Hc; apply digit_not_dot; exact (proj1 (forallb_forall _ _) Hip c Hc)).
      exists ip, [], {| d_mant := digits_val 0 ip; d_scale := 0 |}. rewrite app_nil_r in *. cbn [List.length] in Lk. split.
      * unfold lex_decimal. rewrite span_digits; [|exact Hip|destruct rest as [|c r]; [exact I|destruct Hst; assumption]]. cbn [fst snd].
        destruct ip as [|x xs]; [congruence|]. destruct rest as [|c r]; [reflexivity|]. destruct Hst as [_ Hc]. apply N.eqb_neq in Hc. rewrite Hc. reflexivity.
      * split; [unfold parse_dec; rewrite app_nil_r, Hmb; reflexivity|]. cbn [d_scale d_mant]. split; [lia|]. split; [|left; reflexivity].
        rewrite Nat.sub_0_r. replace (d_scale d) with k by lia. exact Eval.
    + (* some fraction digits remain, the last of them not a zero *)
      assert (Dc : is_digit c = true).
      { rewrite forallb_app in Hfp'. apply andb_true_iff in Hfp'. destruct Hfp' as [_ X]. cbn [forallb] in X. rewrite andb_true_r in X. exact X. }
      rewrite (app_assoc (ip ++ [DOT]) f [c]), drop_trailing_snoc, (digit_not_dot c Dc), <- !app_assoc.
      exists ip, (f ++ [c]), {| d_mant := digits_val 0 (ip ++ f ++ [c]); d_scale := List.length (f ++ [c]) |}. split.
      * unfold lex_decimal. cbn [app]. rewrite span_digits; [|exact Hip|reflexivity]. cbn [fst snd].
        destruct ip as [|x xs]; [congruence|]. replace (code DOT =? 46) with true by reflexivity.
        replace (f ++ c :: rest) with ((f ++ [c]) ++ rest) by (rewrite <- app_assoc; reflexivity).
        rewrite span_digits; [|exact Hfp'|destruct rest as [|c0 r]; [exact I|destruct Hst; assumption]]. cbn [fst snd].
        destruct (f ++ [c]) eqn:Efc; [destruct f; discriminate|reflexivity].
      * split; [unfold parse_dec; rewrite Hmb; assert (Nat.leb (List.length (f ++ [c])) 28 = true) as -> by (apply Nat.leb_le; lia); reflexivity|].
        cbn [d_scale d_mant]. split; [lia|]. split; [|right; exists f, c; split; [reflexivity|exact Hc]].
        replace (d_scale d - List.length (f ++ [c]))%nat with k by lia. exact Eval.
Qed.
