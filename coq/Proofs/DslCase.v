(* Letter case: changing the case of any letters of a DSL text changes nothing in what is read
   (keywords and currency codes are matched case-insensitively, tickers and codes are stored in upper case). *)
From Coq Require Import ZArith NArith List Bool Ascii String Lia.
Require Import CGT.Model.Date CGT.Model.Dsl CGT.Proofs.DslFacts CGT.Proofs.DecFacts CGT.Proofs.DslRound.
Import ListNotations.
Open Scope N_scope.

Definition um (s : text) : text := map upper s.

Lemma code_upper c : code (upper c) = if is_lower c then code c - 32 else code c.
Proof.
  unfold upper. destruct (is_lower c) eqn:E; [|reflexivity]. unfold code. rewrite N_ascii_embedding; [reflexivity|].
  pose proof (code_lt c) as H. unfold code in H. lia.
Qed.

Ltac up c := rewrite ?(code_upper c); destruct (is_lower c) eqn:?; cls.

Lemma upper_idem c : upper (upper c) = upper c.
Proof. apply code_inj. rewrite (code_upper (upper c)). destruct (is_lower (upper c)) eqn:E; [|reflexivity]. exfalso. revert E. unfold is_lower at 1. up c. Qed.
Lemma is_digit_upper c : is_digit (upper c) = is_digit c. Proof. unfold is_digit. up c. Qed.
Lemma is_alpha_upper c : is_alpha (upper c) = is_alpha c. Proof. unfold is_alpha, is_upper, is_lower. up c. Qed.
Lemma is_alnum_upper c : is_alnum (upper c) = is_alnum c. Proof. unfold is_alnum. rewrite is_alpha_upper, is_digit_upper. reflexivity. Qed.
Lemma is_ws_upper c : is_ws (upper c) = is_ws c. Proof. unfold is_ws. up c. Qed.
Lemma is_hash_upper c : is_hash (upper c) = is_hash c. Proof. unfold is_hash. up c. Qed.
Lemma is_nl_upper c : is_nl (upper c) = is_nl c. Proof. unfold is_nl. up c. Qed.
Lemma code_upper_small c n : n < 65 -> (code (upper c) =? n) = (code c =? n).
Proof. intros H. up c. Qed.

(* ---------- lexing functions commute with the case change ---------- *)
Lemma skip_c_um b s : skip_c b (um s) = um (skip_c b s).
Proof.
  revert b. induction s as [|c r IH]; intros b; cbn [um map skip_c]; [reflexivity|].
  rewrite is_nl_upper, is_ws_upper, is_hash_upper. fold (um r).
  destruct b; [destruct (is_nl c); [reflexivity|apply IH]|].
  destruct (is_ws c); [apply IH|]. destruct (is_hash c); [apply IH|reflexivity].
Qed.
Lemma skip_um s : skip (um s) = um (skip s). Proof. apply skip_c_um. Qed.

Lemma span_um (p : ascii -> bool) s : (forall c, p (upper c) = p c) ->
  span p (um s) = (um (fst (span p s)), um (snd (span p s))).
Proof.
  intros Hp. induction s as [|c r IH]; cbn [um map span]; [reflexivity|]. rewrite Hp. fold (um r).
  destruct (p c); [rewrite IH; reflexivity|reflexivity].
Qed.

Lemma kw_prefix_um kw s : kw_prefix kw (um s) = option_map um (kw_prefix kw s).
Proof.
  revert s. induction kw as [|k kr IH]; intros s; cbn [kw_prefix]; [reflexivity|].
  destruct s as [|c r]; cbn [um map kw_prefix]; [reflexivity|]. rewrite upper_idem. fold (um r).
  destruct (code (upper c) =? code k); [apply IH|reflexivity].
Qed.
Lemma starts_kw_um kw s : starts_kw kw (um s) = starts_kw kw s.
Proof. unfold starts_kw. rewrite kw_prefix_um. destruct (kw_prefix kw s); reflexivity. Qed.

Lemma um_digits s : forallb is_digit s = true -> um s = s.
Proof.
  induction s as [|c r IH]; intros H; cbn [um map]; [reflexivity|]. cbn [forallb] in H. apply andb_true_iff in H. destruct H as [Hc Hr].
  fold (um r). rewrite (IH Hr). f_equal. apply upper_id. revert Hc. cls.
Qed.
Lemma span_digits_all s : forallb is_digit (fst (span is_digit s)) = true.
Proof. induction s as [|c r IH]; cbn [span]; [reflexivity|]. destruct (is_digit c) eqn:E; cbn [fst forallb]; [rewrite E, IH; reflexivity|reflexivity]. Qed.

Definition omap3 (x : option (text * text * text)) : option (text * text * text) :=
  match x with Some (a, b, r) => Some (a, b, um r) | None => None end.
Lemma lex_decimal_um s : lex_decimal (um s) = omap3 (lex_decimal s).
Proof.
  unfold lex_decimal. rewrite (span_um is_digit s is_digit_upper). cbn [fst snd].
  rewrite (um_digits _ (span_digits_all s)).
  destruct (fst (span is_digit s)) as [|d ds] eqn:Eip; [reflexivity|].
  destruct (snd (span is_digit s)) as [|c r'] eqn:Er; cbn [um map omap3]; [reflexivity|]. fold (um r').
  rewrite (code_upper_small c 46) by lia.
  destruct (code c =? 46); [|reflexivity].
  rewrite (span_um is_digit r' is_digit_upper). cbn [fst snd]. rewrite (um_digits _ (span_digits_all r')).
  destruct (fst (span is_digit r')); reflexivity.
Qed.

Definition omap2 (x : option (text * text)) : option (text * text) :=
  match x with Some (a, r) => Some (a, um r) | None => None end.
Lemma lex_currency_um s : lex_currency (um s) = omap2 (lex_currency s).
Proof.
  unfold lex_currency. rewrite !starts_kw_um.
  destruct (starts_kw KW_TAX s || starts_kw KW_BUY s || starts_kw KW_FEES s || starts_kw KW_TOTAL s || starts_kw KW_RATIO s || starts_kw KW_SELL s); [reflexivity|].
  destruct s as [|a [|b [|c r]]]; cbn [um map]; try reflexivity. rewrite !is_alpha_upper, !upper_idem. fold (um r).
  destruct (is_alpha a && is_alpha b && is_alpha c); [|reflexivity].
  destruct r as [|x r']; cbn [um map omap2]; [reflexivity|]. rewrite is_alnum_upper, (code_upper_small x 45) by lia.
  destruct (is_alnum x || (code x =? 45)); reflexivity.
Qed.

(* ---------- parsers ---------- *)
Definition pmap {A} (r : pres A) : pres A := match r with POk a e rest => POk a e (um rest) | PFail => PFail end.

Section C.
  Context (vc : text -> bool).

  Lemma p_decimal_um s : p_decimal (um s) = pmap (p_decimal s).
  Proof.
    unfold p_decimal. rewrite lex_decimal_um. destruct (lex_decimal s) as [[[ip fp] r]|]; cbn [omap3 pmap]; [|reflexivity].
    destruct (parse_dec ip fp); reflexivity.
  Qed.
  Lemma p_money_um s : p_money vc (um s) = pmap (p_money vc s).
  Proof.
    unfold p_money. rewrite p_decimal_um. destruct (p_decimal s) as [d e r|]; cbn [pmap]; [|reflexivity].
    rewrite skip_um, lex_currency_um. destruct (lex_currency (skip r)) as [[c r']|]; reflexivity.
  Qed.
  Lemma p_kw_money_um kw s : p_kw_money vc kw (um s) = pmap (p_kw_money vc kw s).
  Proof.
    unfold p_kw_money. rewrite kw_prefix_um. destruct (kw_prefix kw s) as [r|]; cbn [option_map pmap]; [|reflexivity].
    rewrite skip_um. apply p_money_um.
  Qed.
  Lemma p_opt_kw_money_um kw s : p_opt_kw_money vc kw (um s) = pmap (p_opt_kw_money vc kw s).
  Proof.
    unfold p_opt_kw_money. rewrite skip_um, kw_prefix_um. destruct (kw_prefix kw (skip s)) as [r|]; cbn [option_map pmap]; [|reflexivity].
    rewrite skip_um, p_money_um. destruct (p_money vc (skip r)); reflexivity.
  Qed.
  Lemma upper_text_um t : upper_text (um t) = upper_text t.
  Proof. unfold upper_text, um. rewrite map_map. apply map_ext. intros c. apply upper_idem. Qed.
  Lemma p_ticker_um s : p_ticker (um s) = pmap (p_ticker s).
  Proof.
    unfold p_ticker. rewrite (span_um is_alnum s is_alnum_upper). cbn [fst snd].
    destruct (fst (span is_alnum s)) as [|c r]; cbn [um map pmap]; [reflexivity|].
    f_equal. change (upper c :: map upper r) with (um (c :: r)). apply upper_text_um.
  Qed.

  Lemma p_trade_um mk s : p_trade vc mk (um s) = pmap (p_trade vc mk s).
  Proof.
    unfold p_trade. rewrite skip_um, p_ticker_um. destruct (p_ticker (skip s)) as [t e1 r1|]; cbn [pmap]; [|reflexivity].
    rewrite skip_um, p_decimal_um. destruct (p_decimal (skip r1)) as [q e2 r2|]; cbn [pmap]; [|reflexivity].
    rewrite skip_um, p_kw_money_um. destruct (p_kw_money vc AT (skip r2)) as [p e3 r3|]; cbn [pmap]; [|reflexivity].
    rewrite p_opt_kw_money_um. destruct (p_opt_kw_money vc KW_FEES r3); reflexivity.
  Qed.
  Lemma p_dividend_um s : p_dividend vc (um s) = pmap (p_dividend vc s).
  Proof.
    unfold p_dividend. rewrite skip_um, p_ticker_um. destruct (p_ticker (skip s)) as [t e1 r1|]; cbn [pmap]; [|reflexivity].
    rewrite skip_um, p_kw_money_um. destruct (p_kw_money vc KW_TOTAL (skip r1)) as [p e3 r3|]; cbn [pmap]; [|reflexivity].
    rewrite p_opt_kw_money_um. destruct (p_opt_kw_money vc KW_TAX r3); reflexivity.
  Qed.
  Lemma p_event_um mk okw s : p_event vc mk okw (um s) = pmap (p_event vc mk okw s).
  Proof.
    unfold p_event. rewrite skip_um, p_ticker_um. destruct (p_ticker (skip s)) as [t e1 r1|]; cbn [pmap]; [|reflexivity].
    rewrite skip_um, p_decimal_um. destruct (p_decimal (skip r1)) as [q e2 r2|]; cbn [pmap]; [|reflexivity].
    rewrite skip_um, p_kw_money_um. destruct (p_kw_money vc KW_TOTAL (skip r2)) as [p e3 r3|]; cbn [pmap]; [|reflexivity].
    rewrite p_opt_kw_money_um. destruct (p_opt_kw_money vc okw r3); reflexivity.
  Qed.
  Lemma p_split_um mk s : p_split mk (um s) = pmap (p_split mk s).
  Proof.
    unfold p_split. rewrite skip_um, p_ticker_um. destruct (p_ticker (skip s)) as [t e1 r1|]; cbn [pmap]; [|reflexivity].
    rewrite skip_um, kw_prefix_um. destruct (kw_prefix KW_RATIO (skip r1)) as [r2|]; cbn [option_map]; [|reflexivity].
    rewrite skip_um, p_decimal_um. destruct (p_decimal (skip r2)); reflexivity.
  Qed.
  Lemma p_command_um s : p_command vc (um s) = pmap (p_command vc s).
  Proof.
    unfold p_command. rewrite !kw_prefix_um.
    destruct (kw_prefix KW_BUY s); cbn [option_map]; [apply p_trade_um|].
    destruct (kw_prefix KW_SELL s); cbn [option_map]; [apply p_trade_um|].
    destruct (kw_prefix KW_DIVIDEND s); cbn [option_map]; [apply p_dividend_um|].
    destruct (kw_prefix KW_ACCUMULATION s); cbn [option_map]; [apply p_event_um|].
    destruct (kw_prefix KW_CAPRETURN s); cbn [option_map]; [apply p_event_um|].
    destruct (kw_prefix KW_SPLIT s); cbn [option_map]; [apply p_split_um|].
    destruct (kw_prefix KW_UNSPLIT s); cbn [option_map]; [apply p_split_um|reflexivity].
  Qed.
End C.

(* ---------- lines and files ---------- *)
Lemma digit_upper_id c : is_digit c = true -> upper c = c.
Proof. intros H. apply upper_id. revert H. cls. Qed.

Section C2.
  Context (vc : text -> bool).

  Lemma p_date_um s : p_date (um s) = pmap (p_date s).
  Proof.
    unfold p_date. destruct s as [|y1 [|y2 [|y3 [|y4 [|h1 [|m1 [|m2 [|h2 [|d1 [|d2 r]]]]]]]]]]; try reflexivity.
    cbn [um map]. rewrite !is_digit_upper, (code_upper_small h1 45), (code_upper_small h2 45) by lia. fold (um r).
    destruct (is_digit y1) eqn:E1; [|reflexivity]. destruct (is_digit y2) eqn:E2; [|reflexivity].
    destruct (is_digit y3) eqn:E3; [|reflexivity]. destruct (is_digit y4) eqn:E4; [|reflexivity].
    destruct (code h1 =? 45); [|reflexivity].
    destruct (is_digit m1) eqn:E5; [|reflexivity]. destruct (is_digit m2) eqn:E6; [|reflexivity].
    destruct (code h2 =? 45); [|reflexivity].
    destruct (is_digit d1) eqn:E7; [|reflexivity]. destruct (is_digit d2) eqn:E8; [|reflexivity].
    cbn [andb pmap].
    pose proof digit_upper_id as U.
    rewrite (U y1 E1), (U y2 E2), (U y3 E3), (U y4 E4), (U m1 E5), (U m2 E6), (U d1 E7), (U d2 E8). reflexivity.
  Qed.

  Theorem parse_line_um seg : parse_line vc (um seg) = parse_line vc seg.
  Proof.
    unfold parse_line. rewrite skip_um. destruct (skip seg) as [|c r] eqn:E; [reflexivity|].
    cbn [um map]. change (upper c :: map upper r) with (um (c :: r)). rewrite p_date_um.
    destruct (p_date (c :: r)) as [d e1 r1|]; cbn [pmap]; [|reflexivity].
    rewrite skip_um, p_command_um. destruct (p_command vc (skip r1)) as [[t o] e2 r2|]; cbn [pmap]; [|reflexivity].
    rewrite skip_um. destruct (skip r2); reflexivity.
  Qed.

  Lemma rev_um l : rev (um l) = um (rev l).
  Proof. unfold um. rewrite map_rev. reflexivity. Qed.

  Lemma split_lines_um s : forall cur, split_lines (um cur) (um s) = map um (split_lines cur s).
  Proof.
    remember (List.length s) as n eqn:En. revert s En. induction n as [n IH] using lt_wf_ind. intros s En cur.
    destruct s as [|c r]; cbn [um map split_lines]; [rewrite rev_um; reflexivity|].
    rewrite (code_upper_small c 13), (code_upper_small c 10) by lia. fold (um r). cbn [List.length] in En.
    destruct (code c =? 13).
    - destruct r as [|c2 r2]; cbn [um map].
      + rewrite rev_um. reflexivity.
      + rewrite (code_upper_small c2 10) by lia. fold (um r2). cbn [List.length] in En. destruct (code c2 =? 10).
        * rewrite rev_um. cbn [map]. f_equal. exact (IH (List.length r2) ltac:(lia) r2 eq_refl []).
        * rewrite rev_um. cbn [map]. f_equal. exact (IH (List.length (c2 :: r2)) ltac:(cbn [List.length]; lia) (c2 :: r2) eq_refl []).
    - destruct (code c =? 10).
      + rewrite rev_um. cbn [map]. f_equal. exact (IH (List.length r) ltac:(lia) r eq_refl []).
      + exact (IH (List.length r) ltac:(lia) r eq_refl (c :: cur)).
  Qed.

  (* Changing the case of letters anywhere in a text changes nothing in what is read from it. *)
  Theorem parse_um s : parse vc (um s) = parse vc s.
  Proof.
    unfold parse. change (split_lines [] (um s)) with (split_lines (um []) (um s)). rewrite split_lines_um, map_map.
    rewrite (map_ext (fun x => parse_line vc (um x)) (parse_line vc) parse_line_um). reflexivity.
  Qed.

  Corollary parse_case_insensitive s s' : um s = um s' -> parse vc s = parse vc s'.
  Proof. intros H. rewrite <- (parse_um s), <- (parse_um s'), H. reflexivity. Qed.
End C2.
