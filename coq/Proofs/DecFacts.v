(* Decimal printing and reading round trip: for every decimal the decimal type holds
   (mantissa < 2^96, scale <= 28) reading the printed digits gives the same mantissa and scale. *)
From Coq Require Import ZArith NArith List Bool Ascii String Lia.
Require Import CGT.Model.Dsl.
Import ListNotations.
Open Scope N_scope.

Lemma code_ch n : n < 256 -> code (ch n) = n.
Proof. intros H. unfold code, ch. apply N_ascii_embedding. exact H. Qed.

Lemma digit_char x : x < 10 -> is_digit (ch (48 + x)) = true /\ digit_val (ch (48 + x)) = x.
Proof.
  intros H. unfold is_digit, digit_val. rewrite code_ch by lia. split; [|lia].
  apply andb_true_iff. split; apply N.leb_le; lia.
Qed.

Lemma digits_val_app a x y : digits_val a (x ++ y) = digits_val (digits_val a x) y.
Proof. revert a. induction x as [|c r IH]; intros a; cbn [app digits_val]; [reflexivity|apply IH]. Qed.

Lemma digits_of_fuel_val k : forall n acc, n < 10 ^ N.of_nat k ->
  digits_val 0 (digits_of_fuel k n acc) = digits_val n acc.
Proof.
  induction k as [|k IH]; intros n acc H.
  - cbn [digits_of_fuel]. change (10 ^ N.of_nat 0) with 1 in H. assert (n = 0) as -> by lia. reflexivity.
  - cbn [digits_of_fuel].
    assert (Hm : n mod 10 < 10) by (apply N.mod_lt; lia).
    destruct (digit_char (n mod 10) Hm) as [_ Hv].
    destruct (N.eqb_spec (n / 10) 0) as [E|E].
    + cbn [digits_val]. rewrite Hv. f_equal. pose proof (N.div_mod n 10 ltac:(lia)). lia.
    + rewrite IH.
      * cbn [digits_val]. rewrite Hv. f_equal. pose proof (N.div_mod n 10 ltac:(lia)). lia.
      * rewrite Nat2N.inj_succ, N.pow_succ_r' in H. apply N.div_lt_upper_bound; lia.
Qed.

Lemma digits_of_fuel_digits k : forall n acc, forallb is_digit acc = true -> forallb is_digit (digits_of_fuel k n acc) = true.
Proof.
  induction k as [|k IH]; intros n acc H; cbn [digits_of_fuel]; [exact H|].
  assert (Hm : n mod 10 < 10) by (apply N.mod_lt; lia).
  destruct (digit_char (n mod 10) Hm) as [Hd _].
  destruct (n / 10 =? 0); [cbn [forallb]; rewrite Hd, H; reflexivity|].
  apply IH. cbn [forallb]. rewrite Hd, H. reflexivity.
Qed.

Lemma pad_zeros_val k : forall s, digits_val 0 (pad_zeros k s) = digits_val 0 s.
Proof.
  induction k as [|k IH]; intros s; cbn [pad_zeros]; [reflexivity|].
  rewrite IH. cbn [digits_val]. destruct (digit_char 0 ltac:(lia)) as [_ Hv]. change (48 + 0) with 48 in Hv. rewrite Hv. reflexivity.
Qed.
Lemma pad_zeros_digits k : forall s, forallb is_digit s = true -> forallb is_digit (pad_zeros k s) = true.
Proof.
  induction k as [|k IH]; intros s H; cbn [pad_zeros]; [exact H|].
  apply IH. cbn [forallb]. rewrite H. reflexivity.
Qed.
Lemma pad_zeros_length k : forall s, List.length (pad_zeros k s) = (k + List.length s)%nat.
Proof. induction k as [|k IH]; intros s; cbn [pad_zeros]; [reflexivity|]. rewrite IH. cbn [List.length]. lia. Qed.

(* the digit string printed for a decimal: all digits, value = mantissa, length > scale *)
Definition dec_digits (d : dec) : text :=
  pad_zeros (S (d_scale d) - List.length (digits_of (d_mant d))) (digits_of (d_mant d)).

Lemma two96_lt : two96 < 10 ^ N.of_nat 40.
Proof. vm_compute. reflexivity. Qed.

Lemma dec_digits_spec d : d_mant d < two96 ->
  forallb is_digit (dec_digits d) = true /\ digits_val 0 (dec_digits d) = d_mant d /\
  (d_scale d < List.length (dec_digits d))%nat.
Proof.
  intros H. unfold dec_digits. split; [|split].
  - apply pad_zeros_digits. unfold digits_of. apply digits_of_fuel_digits. reflexivity.
  - rewrite pad_zeros_val. unfold digits_of. rewrite digits_of_fuel_val; [reflexivity|].
    pose proof two96_lt. lia.
  - rewrite pad_zeros_length. lia.
Qed.

Lemma span_digits s rest : forallb is_digit s = true ->
  (match rest with [] => True | c :: _ => is_digit c = false end) ->
  span is_digit (s ++ rest) = (s, rest).
Proof.
  intros H Hr. induction s as [|c r IH]; cbn [app].
  - destruct rest as [|c r]; [reflexivity|]. cbn [span]. rewrite Hr. reflexivity.
  - cbn [forallb] in H. apply andb_true_iff in H. destruct H as [Hc Hs]. cbn [span]. rewrite Hc, (IH Hs). reflexivity.
Qed.

Lemma forallb_firstn {A} (p : A -> bool) n l : forallb p l = true -> forallb p (firstn n l) = true.
Proof.
  revert n. induction l as [|x r IH]; intros n H; destruct n; cbn [firstn forallb] in *; try reflexivity.
  apply andb_true_iff in H. destruct H as [Hx Hr]. rewrite Hx, (IH n Hr). reflexivity.
Qed.
Lemma forallb_skipn {A} (p : A -> bool) n l : forallb p l = true -> forallb p (skipn n l) = true.
Proof.
  revert n. induction l as [|x r IH]; intros n H; destruct n; cbn [skipn forallb] in *; try reflexivity; [exact H|].
  apply andb_true_iff in H. destruct H as [Hx Hr]. apply IH. exact Hr.
Qed.

Definition stops (rest : text) : Prop :=
  match rest with [] => True | c :: _ => is_digit c = false /\ code c <> 46 end.

(* reading back what print_dec wrote, whatever non-numeric text follows *)
Theorem lex_print_dec d rest : dec_ok d = true -> stops rest ->
  exists ip fp, lex_decimal (print_dec d ++ rest) = Some (ip, fp, rest) /\
                parse_dec ip fp = DOk d.
Proof.
  intros Hok Hst. unfold dec_ok in Hok. apply andb_true_iff in Hok. destruct Hok as [Hm Hs].
  apply N.ltb_lt in Hm. apply Nat.leb_le in Hs.
  destruct (dec_digits_spec d Hm) as (Hdig & Hval & Hlen).
  unfold print_dec. fold (dec_digits d).
  set (ds := dec_digits d) in *.
  destruct (Nat.eqb_spec (d_scale d) 0) as [E0|N0].
  - (* integer *)
    exists ds, []. split.
    + unfold lex_decimal. rewrite span_digits; [|exact Hdig|destruct rest as [|c r]; [exact I|destruct Hst; assumption]].
      cbn [fst snd]. destruct ds as [|x xs] eqn:Eds; [cbn [List.length] in Hlen; lia|].
      destruct rest as [|c r]; [reflexivity|]. destruct Hst as [_ Hc]. apply N.eqb_neq in Hc. rewrite Hc. reflexivity.
    + unfold parse_dec. rewrite app_nil_r, Hval. cbn [List.length].
      assert (d_mant d <? two96 = true) as -> by (apply N.ltb_lt; exact Hm). cbn [andb Nat.leb].
      destruct d as [m sc]. cbn [d_scale] in E0. subst sc. reflexivity.
  - set (n := (List.length ds - d_scale d)%nat).
    assert (Hn : (0 < n)%nat) by (unfold n; lia).
    exists (firstn n ds), (skipn n ds). split.
    + unfold lex_decimal. rewrite <- app_assoc.
      rewrite span_digits; [|apply forallb_firstn; exact Hdig|cbn [app]; reflexivity].
      cbn [fst snd].
      destruct (firstn n ds) as [|x xs] eqn:Ef.
      { exfalso. destruct ds as [|y ys]; [cbn [List.length] in Hlen; lia|]. destruct n; [lia|]. cbn [firstn] in Ef. discriminate. }
      cbn [app]. replace (code (ch 46) =? 46) with true by reflexivity.
      rewrite span_digits; [|apply forallb_skipn; exact Hdig|destruct rest as [|c r]; [exact I|destruct Hst; assumption]].
      cbn [fst snd].
      destruct (skipn n ds) as [|y ys] eqn:Es; [|reflexivity].
      exfalso. assert (List.length (skipn n ds) = d_scale d) as L by (rewrite skipn_length; unfold n; lia).
      rewrite Es in L. cbn [List.length] in L. lia.
    + unfold parse_dec. rewrite firstn_skipn, Hval.
      assert (List.length (skipn n ds) = d_scale d) as L by (rewrite skipn_length; unfold n; lia).
      rewrite L. assert (d_mant d <? two96 = true) as -> by (apply N.ltb_lt; exact Hm).
      assert (Nat.leb (d_scale d) 28 = true) as -> by (apply Nat.leb_le; exact Hs). cbn [andb].
      destruct d; reflexivity.
Qed.
