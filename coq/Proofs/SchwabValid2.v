(* The records the converter emits are well-formed whenever the decoded export is: dates, symbols and figures of the trade, vest and dividend rows, the
   values of the awards map and the day totals of withholding.  With SchwabValid this gives: the output of an accepted, well-formed export is valid DSL. *)
From Coq Require Import ZArith NArith List Bool Ascii String Lia Permutation.
Require Import CGT.Model.Date CGT.Model.Dsl CGT.Model.Schwab CGT.Proofs.DslFacts CGT.Proofs.DecFacts CGT.Proofs.DslRound CGT.Proofs.SchwabFacts CGT.Proofs.SchwabValid.
Import ListNotations.
Open Scope N_scope.

Section W.
  Context (vc : text -> bool).
  Context (Husd : wf_cur vc USD) (Hgbp : wf_cur vc GBP).

  Definition item_ok (i : item) : Prop :=
    match i with
    | ITrade _ d sym q p f => wf_date d /\ wf_tick sym /\ sdec_ok q /\ sdec_ok p /\ (match f with Some x => dec_ok (s_dec x) = true | None => True end)
    | IStockPlan d sym q => wf_tick sym /\ sdec_ok q
    | IDividend d sym (Some a) => wf_date d /\ wf_tick sym /\ dec_ok (s_dec a) = true
    | _ => True
    end.
  Definition amap_ok (m : amap) : Prop := forall k v, In (k, v) m -> sdec_ok v /\ wf_date (civil_of_days (snd k)).
  Definition taxes_ok (t : taxes) : Prop := Forall (fun e => dec_ok (snd e) = true) t.
  Definition awards_ok (a : option amap) : Prop := match a with Some m => amap_ok m | None => True end.

  Lemma amap_get_in m k v : amap_get m k = Some v -> exists k', In (k', v) m /\ snd k' = snd k.
  Proof.
    induction m as [|[k0 v0] r IH]; cbn [amap_get]; [discriminate|].
    destruct (key_eqb k0 k) eqn:E.
    - intros H. injection H as <-. exists k0. split; [left; reflexivity|].
      unfold key_eqb in E. apply andb_true_iff in E. destruct E as [_ E]. apply Z.eqb_eq in E. exact E.
    - intros H. destruct (IH H) as (k' & Hin & Hs). exists k'. split; [right; exact Hin|exact Hs].
  Qed.
  Lemma lookback_in m sym z : forall k back v vz, lookback_from m sym z k back = Some (v, vz) -> exists k', In (k', v) m /\ snd k' = vz.
  Proof.
    induction k as [|k IH]; intros back v vz; cbn [lookback_from]; [discriminate|].
    destruct (amap_get m (sym, (z - back)%Z)) as [v0|] eqn:E.
    - intros H. injection H as <- <-. destruct (amap_get_in m _ _ E) as (k' & Hin & Hs). exists k'. split; [exact Hin|exact Hs].
    - apply IH.
  Qed.

  Lemma tax_take_ok t z sym : taxes_ok t ->
    taxes_ok (snd (tax_take t z sym)) /\ (match fst (tax_take t z sym) with Some v => dec_ok v = true | None => True end).
  Proof.
    unfold taxes_ok. induction t as [|[[z' s'] v] r IH]; intros H; cbn [tax_take]; [split; [constructor|exact I]|].
    inversion H as [|x xs Hx Hr]; subst. cbn [snd] in Hx.
    destruct ((z' =? z)%Z && text_eqb s' sym); cbn [fst snd]; [split; assumption|].
    destruct (IH Hr) as [I1 I2]. split; [constructor; [exact Hx|exact I1]|exact I2].
  Qed.

  Lemma snoc_ok l x : Forall (cgt_ok vc) l -> cgt_ok vc x -> Forall (cgt_ok vc) (l ++ [x]).
  Proof. intros H Hx. apply Forall_app. split; [exact H|constructor; [exact Hx|constructor]]. Qed.

  Lemma step_ok lb aw st i st' : awards_ok aw -> item_ok i -> Forall (cgt_ok vc) (p_out st) -> taxes_ok (p_taxes st) ->
    step lb aw st i = Ok st' -> Forall (cgt_ok vc) (p_out st') /\ taxes_ok (p_taxes st').
  Proof.
    intros Haw Hi Ho Ht. destruct i as [a d sym q p f|d sym q|d sym [am|]|d sym|d sym am| |r]; cbn [step item_ok] in *.
    - destruct Hi as (Hd & Hs & Hq & Hp & Hf).
      assert (Hfee : dec_ok (s_dec (match f with Some x => x | None => szero end)) = true) by (destruct f; [exact Hf|reflexivity]).
      destruct a; intros H; injection H as <-; cbn [p_out p_taxes]; (split; [|exact Ht]); try exact Ho;
        apply snoc_ok; try exact Ho; cbn [cgt_ok]; tauto.
    - destruct aw as [m|]; [|discriminate]. destruct (get_fmv lb m sym (days_of_civil d)) as [[fmv vz]|] eqn:E; [|discriminate].
      intros H. injection H as <-. cbn [p_out p_taxes]. split; [|exact Ht]. apply snoc_ok; [exact Ho|].
      unfold get_fmv in E. destruct (lookback_in _ _ _ _ _ _ _ E) as (k' & Hin & Hs). destruct (Haw k' fmv Hin) as [Hv Hdate]. rewrite Hs in Hdate.
      destruct Hi as [Hsym Hq]. cbn [cgt_ok]. assert (Hz : dec_ok (s_dec szero) = true) by reflexivity. tauto.
    - destruct Hi as (Hd & Hs & Ha). intros H. injection H as <-. cbn [p_out p_taxes].
      destruct (tax_take_ok (p_taxes st) (days_of_civil d) sym Ht) as [T1 T2]. split; [|exact T1].
      apply snoc_ok; [exact Ho|]. cbn [cgt_ok s_neg s_dec sabs]. unfold sdec_ok. cbn [s_neg s_dec sabs].
      assert (Htax : dec_ok (match fst (tax_take (p_taxes st) (days_of_civil d) sym) with Some v => v | None => {| d_mant := 0; d_scale := 0 |} end) = true)
        by (destruct (fst (tax_take (p_taxes st) (days_of_civil d) sym)); [exact T2|reflexivity]).
      tauto.
    - intros H. injection H as <-. split; assumption.
    - intros H. injection H as <-. cbn [p_out p_taxes]. split; [|exact Ht]. apply snoc_ok; [exact Ho|exact I].
    - intros H. injection H as <-. split; assumption.
    - intros H. injection H as <-. cbn [p_out p_taxes]. split; assumption.
    - intros H. injection H as <-. cbn [p_out p_taxes]. split; [|exact Ht]. apply snoc_ok; [exact Ho|exact I].
  Qed.

  Lemma steps_ok lb aw items : awards_ok aw -> Forall item_ok items -> forall st st', Forall (cgt_ok vc) (p_out st) -> taxes_ok (p_taxes st) ->
    steps lb aw st items = Ok st' -> Forall (cgt_ok vc) (p_out st') /\ taxes_ok (p_taxes st').
  Proof.
    intros Haw. induction 1 as [|i r Hi _ IH]; intros st st' Ho Ht; cbn [steps].
    - intros H. injection H as <-. split; assumption.
    - destruct (step lb aw st i) as [st1|e] eqn:E; [|discriminate]. destruct (step_ok lb aw st i st1 Haw Hi Ho Ht E) as [O1 T1]. apply IH; assumption.
  Qed.

  Lemma remove_first_ok (P : cgt -> Prop) f l l' : remove_first f l = Some l' -> Forall P l -> Forall P l'.
  Proof.
    revert l'. induction l as [|x r IH]; intros l'; cbn [remove_first]; [discriminate|].
    intros H HF. inversion HF as [|y ys Hx Hr]; subst. destruct (f x); [injection H as <-; exact Hr|].
    destruct (remove_first f r) as [r'|]; [|discriminate]. injection H as <-. constructor; [exact Hx|exact (IH r' eq_refl Hr)].
  Qed.
  Lemma apply_cancels_ok (P : cgt -> Prop) cs : forall out w, Forall P out -> Forall P (fst (apply_cancels out cs w)).
  Proof.
    induction cs as [|c r IH]; intros out w H; cbn [apply_cancels]; [exact H|].
    destruct (remove_first (is_cancelled c) out) as [out'|] eqn:E; [apply IH; exact (remove_first_ok P _ _ _ E H)|apply IH; exact H].
  Qed.

  (* the clause in full, from the decoded export: an accepted export whose trade, vest and dividend rows carry real dates, upper-case alphanumeric symbols,
     non-negative quantities and prices and figures the decimal type holds, whose awards map holds such values on real dates, and whose day totals of withholding
     are representable, is converted to a text that parses - to exactly the transactions the emitted records denote, in the output's order *)
  Theorem convert_valid lb rows aws o items :
    decode_all rows = Ok items -> Forall item_ok items -> taxes_ok (collect_taxes items []) ->
    (forall a m, aws = Some a -> build_awards a [] = Ok m -> amap_ok m) ->
    convert lb rows aws = Ok o ->
    exists records, Forall (cgt_ok vc) records /\ parse vc (join_lines (o_lines o)) = inr (flat_map denotes records).
  Proof.
    intros Hdec Hit Htx Haw. unfold convert.
    assert (Haw' : forall awards, (match aws with Some a => match build_awards a [] with Ok m => Ok (Some m) | Err e => Err e end | None => Ok None end) = Ok awards -> awards_ok awards).
    { intros awards. destruct aws as [a|]; [|intros H; injection H as <-; exact I].
      destruct (build_awards a []) as [m|e] eqn:E; [|discriminate]. intros H. injection H as <-. exact (Haw a m eq_refl E). }
    destruct (match aws with Some a => match build_awards a [] with Ok m => Ok (Some m) | Err e => Err e end | None => Ok None end) as [awards|e]; [|discriminate].
    specialize (Haw' awards eq_refl). rewrite Hdec. cbv zeta.
    match goal with |- context [steps lb awards ?st0 items] =>
      destruct (steps lb awards st0 items) as [st|e] eqn:Est; [|discriminate];
      destruct (steps_ok lb awards items Haw' Hit st0 st (Forall_nil _) Htx Est) as [Hout _] end.
    match goal with |- Ok {| o_lines := ?Hd0 ++ flat_map cgt_lines ?R0; o_warnings := _; o_skipped := _ |} = Ok o -> _ => set (Hd := Hd0); set (R := R0) end.
    intros H.
    assert (HR : Forall (cgt_ok vc) R).
    { unfold R. eapply Permutation_Forall; [apply sort_stable_perm|]. apply apply_cancels_ok. apply Forall_app. split; [exact Hout|].
      apply Forall_forall. intros x Hx. apply in_map_iff in Hx. destruct Hx as (e0 & <- & _). exact I. }
    assert (HH : header_ok Hd /\ Hd <> []).
    { unfold Hd. split; [|discriminate]. unfold header_ok. repeat (apply Forall_app; split).
      + constructor; [right; eexists; reflexivity|]. constructor; [right; eexists; reflexivity|constructor].
      + destruct (Nat.ltb 0 _); [constructor; [right; eexists; reflexivity|constructor]|constructor].
      + constructor; [left; reflexivity|constructor]. }
    exists R. split; [exact HR|]. injection H as H. rewrite <- H. cbn [o_lines].
    apply (output_parses vc Hd R (proj1 HH) HR). intros E. apply app_eq_nil in E. destruct E as [E _]. exact (proj2 HH E).
  Qed.
End W.
