(* Facts about the DSL reader model. *)
From Coq Require Import ZArith NArith List Bool Ascii String Lia.
Require Import CGT.Model.Date CGT.Model.Dsl.
Import ListNotations.
Open Scope N_scope.

(* ---------- skipping ---------- *)
Lemma skip_c_comment_stable s : skip_c true (skip_c true s) = skip_c true s.
Proof.
  induction s as [|c r IH]; cbn [skip_c]; [reflexivity|].
  destruct (is_nl c) eqn:E; [cbn [skip_c]; rewrite E; reflexivity|exact IH].
Qed.

(* a segment made of blanks only, or blanks then a comment, is a blank line *)
Lemma skip_ws_prefix ws s : forallb is_ws ws = true -> skip (ws ++ s) = skip s.
Proof.
  unfold skip. induction ws as [|c r IH]; cbn [app forallb]; [reflexivity|].
  intros H. apply andb_true_iff in H. destruct H as [Hc Hr]. cbn [skip_c]. rewrite Hc. apply IH. exact Hr.
Qed.
Lemma skip_comment_all s : forallb (fun c => negb (is_nl c)) s = true -> skip_c true s = [].
Proof.
  induction s as [|c r IH]; cbn [forallb skip_c]; [reflexivity|].
  intros H. apply andb_true_iff in H. destruct H as [Hc Hr]. apply negb_true_iff in Hc. rewrite Hc. apply IH. exact Hr.
Qed.

Section P.
  Context (valid_cur : text -> bool).

  Lemma parse_line_blank ws : forallb is_ws ws = true -> parse_line valid_cur ws = LBlank.
  Proof.
    intros H. unfold parse_line. replace ws with (ws ++ []) by apply app_nil_r.
    rewrite skip_ws_prefix by exact H. reflexivity.
  Qed.
  Lemma parse_line_comment ws body : forallb is_ws ws = true -> forallb (fun c => negb (is_nl c)) body = true ->
    parse_line valid_cur (ws ++ ch 35 :: body) = LBlank.
  Proof.
    intros H Hb. unfold parse_line. rewrite skip_ws_prefix by exact H.
    unfold skip. cbn [skip_c]. replace (is_ws (ch 35)) with false by reflexivity.
    replace (is_hash (ch 35)) with true by reflexivity. rewrite skip_comment_all by exact Hb. reflexivity.
  Qed.
  (* leading blanks never change what a line means *)
  Lemma parse_line_leading ws seg : forallb is_ws ws = true -> parse_line valid_cur (ws ++ seg) = parse_line valid_cur seg.
  Proof. intros H. unfold parse_line. rewrite skip_ws_prefix by exact H. reflexivity. Qed.

  (* ---------- nothing is silently skipped ---------- *)
  Definition is_tx (l : lres) : bool := match l with LTx _ _ => true | _ => false end.
  Lemma collect_length ls : forall n ts, first_fail n ls = None -> collect n ls = inr ts ->
    List.length ts = List.length (filter is_tx ls).
  Proof.
    induction ls as [|l r IH]; intros n ts Hf Hc; cbn [collect first_fail filter] in *.
    - injection Hc as <-. reflexivity.
    - destruct l as [t [e|]| |]; cbn [is_tx].
      + discriminate.
      + destruct (collect (S n) r) as [e|ts'] eqn:E; [discriminate|]. injection Hc as <-.
        cbn [List.length]. f_equal. apply (IH (S n)); [exact Hf|exact E].
      + apply (IH (S n)); assumption.
      + discriminate.
  Qed.

  Theorem parse_nothing_skipped s ts : parse valid_cur s = inr ts ->
    List.length ts = List.length (filter is_tx (map (parse_line valid_cur) (split_lines [] s))) /\
    Forall (fun l => l <> LFail) (map (parse_line valid_cur) (split_lines [] s)).
  Proof.
    unfold parse. destruct (first_fail 1 (map (parse_line valid_cur) (split_lines [] s))) as [n|] eqn:E; [discriminate|].
    intros H. split; [eapply collect_length; eassumption|].
    clear H. revert E. generalize 1%nat. induction (map (parse_line valid_cur) (split_lines [] s)) as [|l r IH]; intros n E; [constructor|].
    cbn [first_fail] in E. destruct l; try discriminate; (constructor; [discriminate|eapply IH; exact E]).
  Qed.
End P.

(* ---------- line terminators: LF, CRLF and CR split a text into the same segments ---------- *)
Definition no_nl (seg : text) : Prop := forallb (fun c => negb (is_nl c)) seg = true.
Definition LF : text := [ch 10]. Definition CRLF : text := [ch 13; ch 10]. Definition CR : text := [ch 13].

Lemma split_lines_seg seg : forall cur rest, no_nl seg ->
  split_lines cur (seg ++ rest) = match split_lines (rev seg ++ cur) rest with l => l end.
Proof.
  induction seg as [|c r IH]; intros cur rest H; cbn [app rev]; [reflexivity|].
  unfold no_nl in H. cbn [forallb] in H. apply andb_true_iff in H. destruct H as [Hc Hr].
  apply negb_true_iff in Hc. unfold is_nl in Hc. apply orb_false_iff in Hc. destruct Hc as [H10 H13].
  cbn [split_lines]. rewrite H13, H10. rewrite IH by exact Hr. rewrite <- app_assoc. reflexivity.
Qed.

Lemma split_lines_LF seg rest : no_nl seg -> split_lines [] (seg ++ LF ++ rest) = seg :: split_lines [] rest.
Proof.
  intros H. rewrite split_lines_seg by exact H. rewrite app_nil_r. unfold LF. cbn [app split_lines].
  replace (code (ch 10) =? 13) with false by reflexivity. replace (code (ch 10) =? 10) with true by reflexivity.
  rewrite rev_involutive. reflexivity.
Qed.
Lemma split_lines_CRLF seg rest : no_nl seg -> split_lines [] (seg ++ CRLF ++ rest) = seg :: split_lines [] rest.
Proof.
  intros H. rewrite split_lines_seg by exact H. rewrite app_nil_r. unfold CRLF. cbn [app split_lines].
  replace (code (ch 13) =? 13) with true by reflexivity. replace (code (ch 10) =? 10) with true by reflexivity.
  rewrite rev_involutive. reflexivity.
Qed.
Lemma split_lines_CR seg rest : no_nl seg -> (forall c r, rest = c :: r -> code c <> 10) ->
  split_lines [] (seg ++ CR ++ rest) = seg :: split_lines [] rest.
Proof.
  intros H Hr. rewrite split_lines_seg by exact H. rewrite app_nil_r. unfold CR. cbn [app split_lines].
  replace (code (ch 13) =? 13) with true by reflexivity. rewrite rev_involutive.
  destruct rest as [|c r]; [reflexivity|].
  specialize (Hr c r eq_refl). apply N.eqb_neq in Hr. rewrite Hr. reflexivity.
Qed.

(* ---------- the writer ignores exactly what norm_txn resets ---------- *)
Lemma opt_clause_norm kw m : opt_clause kw (norm_money m) = opt_clause kw m.
Proof. unfold opt_clause, norm_money. destruct (is_zero_money m) eqn:E; [reflexivity|rewrite E; reflexivity]. Qed.
Lemma print_txn_norm t : print_txn (norm_txn t) = print_txn t.
Proof.
  unfold print_txn, norm_txn. cbn [x_date x_tick x_op]. destruct (x_op t); cbn [norm_op]; rewrite ?opt_clause_norm; reflexivity.
Qed.
Lemma print_txns_norm ts : print_txns (map norm_txn ts) = print_txns ts.
Proof. unfold print_txns. rewrite map_map. f_equal. apply map_ext. intros t. apply print_txn_norm. Qed.
Lemma norm_money_idem m : norm_money (norm_money m) = norm_money m.
Proof. unfold norm_money. destruct (is_zero_money m) eqn:E; [reflexivity|rewrite E; reflexivity]. Qed.
Lemma norm_txn_idem t : norm_txn (norm_txn t) = norm_txn t.
Proof.
  unfold norm_txn. cbn [x_date x_tick x_op]. f_equal. destruct (x_op t); cbn [norm_op]; rewrite ?norm_money_idem; reflexivity.
Qed.
