(* The tool layer: surrounding white space never matters, an empty list is refused, and explain_matching finds every disposal that the
   report of the derived tax year lists, whatever the letter case of the ticker asked for. *)
From Coq Require Import ZArith NArith List Bool Ascii String Lia.
Require Import CGT.Model.Date CGT.Model.Dsl CGT.Model.Json CGT.Model.Mcp CGT.Model.McpTools.
Import ListNotations.

Definition all_space (a : text) : Prop := forallb is_rust_space a = true.

Lemma trim_start_pad a s : all_space a -> trim_start (a ++ s) = trim_start s.
Proof.
  unfold all_space. induction a as [|c r IH]; intros H; cbn [app]; [reflexivity|].
  cbn [forallb] in H. apply andb_true_iff in H. destruct H as [Hc Hr]. cbn [trim_start]. rewrite Hc. exact (IH Hr).
Qed.
Lemma trim_start_all a : all_space a -> trim_start a = [].
Proof. intros H. rewrite <- (app_nil_r a), (trim_start_pad a [] H). reflexivity. Qed.
Lemma trim_start_keep s b : trim_start s <> [] -> trim_start (s ++ b) = trim_start s ++ b.
Proof.
  induction s as [|c r IH]; intros H; [cbn in H; congruence|].
  cbn [app trim_start] in *. destruct (is_rust_space c); [exact (IH H)|reflexivity].
Qed.
Lemma trim_start_nil_all s : trim_start s = [] -> all_space s.
Proof.
  unfold all_space. induction s as [|c r IH]; intros H; [reflexivity|].
  cbn [trim_start] in H. cbn [forallb]. destruct (is_rust_space c); [exact (IH H)|discriminate].
Qed.
Lemma all_space_rev b : all_space b -> all_space (rev b).
Proof.
  unfold all_space. intros H. apply forallb_forall. intros c Hc. apply in_rev in Hc. exact (proj1 (forallb_forall _ _) H c Hc).
Qed.
Lemma all_space_app a b : all_space a -> all_space b -> all_space (a ++ b).
Proof. unfold all_space. intros Ha Hb. rewrite forallb_app, Ha, Hb. reflexivity. Qed.

Theorem trim_pad a s b : all_space a -> all_space b -> trim (a ++ s ++ b) = trim s.
Proof.
  intros Ha Hb. unfold trim. rewrite (trim_start_pad a _ Ha).
  destruct (trim_start s) as [|c r] eqn:E.
  - rewrite (trim_start_all (s ++ b) (all_space_app _ _ (trim_start_nil_all s E) Hb)). reflexivity.
  - rewrite (trim_start_keep s b) by (rewrite E; discriminate). rewrite E, rev_app_distr.
    rewrite (trim_start_pad (rev b) _ (all_space_rev b Hb)). reflexivity.
Qed.

Section T.
  Context {Txs Rep Disp : Type}.
  Context (parse_dsl parse_json : text -> option Txs) (is_empty : Txs -> bool) (calc : Txs -> option Z -> option Rep)
          (disposals : Rep -> list Disp) (d_date : Disp -> date) (d_tick : Disp -> text).
  Notation pin := (parse_input parse_dsl parse_json).
  Notation calc_tool := (calculate_tool parse_dsl parse_json is_empty calc).
  Notation expl := (explain_tool parse_dsl parse_json is_empty calc disposals d_date d_tick).

  (* every tool sees its transactions argument only through the trimmed text *)
  Theorem parse_input_trim s s' : trim s = trim s' -> pin s = pin s'.
  Proof. intros H. unfold parse_input. rewrite H. reflexivity. Qed.
  Theorem calculate_trim s s' y : trim s = trim s' -> calc_tool s y = calc_tool s' y.
  Proof. intros H. unfold calculate_tool. rewrite (parse_input_trim s s' H). reflexivity. Qed.

  Theorem calculate_refuses_empty s y txs : pin s = TOk txs -> is_empty txs = true -> calc_tool s y = TErr.
  Proof. intros H He. unfold calculate_tool. rewrite H, He. reflexivity. Qed.

  (* JSON is chosen exactly by a leading '[' of the trimmed text *)
  Theorem sniff s : edge_unmodelled (trim s) = false ->
    pin s = match (if starts_with_bracket (trim s) then parse_json (trim s) else parse_dsl (trim s)) with Some x => TOk x | None => TErr end.
  Proof. intros E. unfold parse_input. rewrite E. reflexivity. Qed.

  Lemma tick_eq_ci_upper a b : upper_text a = upper_text b -> tick_eq_ci a b = true.
  Proof.
    intros H. unfold tick_eq_ci. rewrite H. clear H. induction (upper_text b) as [|c r IH]; cbn [teqb]; [reflexivity|].
    rewrite N.eqb_refl, IH. reflexivity.
  Qed.
  Lemma date_eqb_refl d : date_eqb d d = true.
  Proof. unfold date_eqb. rewrite !Z.eqb_refl. reflexivity. Qed.
  Lemma date_eqb_eq a b : date_eqb a b = true -> a = b.
  Proof.
    unfold date_eqb. intros H. apply andb_true_iff in H. destruct H as [H H3]. apply andb_true_iff in H. destruct H as [H1 H2].
    apply Z.eqb_eq in H1, H2, H3. destruct a, b. cbn in *. subst. reflexivity.
  Qed.

  (* explain_matching finds every disposal the report of the derived year lists, in any letter case of the ticker; what it returns is
     a disposal of that report with that date and (up to case) that ticker *)
  Theorem explain_finds_listed s ds tk d r x :
    read_iso_date ds = TOk d -> calc_tool s (Some (explain_year d)) = TOk r ->
    In x (disposals r) -> d_date x = d -> upper_text (d_tick x) = upper_text tk ->
    exists x', expl s ds tk = TOk x' /\ In x' (disposals r) /\ d_date x' = d /\ tick_eq_ci (d_tick x') tk = true.
  Proof.
    intros Hd Hc Hin Hx Ht. unfold explain_tool. rewrite Hd, Hc. unfold find_disposal.
    destruct (find (fun y => date_eqb (d_date y) d && tick_eq_ci (d_tick y) tk) (disposals r)) as [x'|] eqn:F.
    - apply find_some in F. destruct F as [Hin' Hp]. apply andb_true_iff in Hp. destruct Hp as [Hp1 Hp2].
      exists x'. repeat split; [exact Hin'|exact (date_eqb_eq _ _ Hp1)|exact Hp2].
    - exfalso. pose proof (find_none _ _ F x Hin) as Hn. cbn beta in Hn. rewrite Hx, date_eqb_refl, (tick_eq_ci_upper _ _ Ht) in Hn. discriminate.
  Qed.

  Theorem explain_only_listed s ds tk x : expl s ds tk = TOk x ->
    exists d r, read_iso_date ds = TOk d /\ calc_tool s (Some (explain_year d)) = TOk r /\ In x (disposals r) /\ d_date x = d.
  Proof.
    unfold explain_tool. destruct (read_iso_date ds) as [d| |] eqn:Hd; try discriminate.
    destruct (calc_tool s (Some (explain_year d))) as [r| |] eqn:Hc; try discriminate.
    unfold find_disposal. destruct (find _ (disposals r)) as [x'|] eqn:F; [|discriminate].
    intros H. injection H as <-. apply find_some in F. destruct F as [Hin Hp]. apply andb_true_iff in Hp. destruct Hp as [Hp1 _].
    exists d, r. split; [reflexivity|]. split; [exact Hc|]. split; [exact Hin|exact (date_eqb_eq _ _ Hp1)].
  Qed.
End T.
