(* The JSON round trip: reading the tree the serialiser writes gives back the transaction, currency labels of zero
   amounts included. *)
From Coq Require Import ZArith NArith List Bool Ascii String Lia.
Require Import CGT.Model.Date CGT.Model.Dsl CGT.Model.Json CGT.Proofs.DecFacts CGT.Proofs.DslRound.
Import ListNotations.
Open Scope N_scope.

Lemma read_dec_print d : dec_ok d = true -> read_dec (j_dec d) = JOk d.
Proof.
  intros Hd. destruct (lex_print_dec d [] Hd I) as (ip & fp & E1 & E2). rewrite app_nil_r in E1.
  unfold j_dec, read_dec. rewrite E1, E2. reflexivity.
Qed.

Lemma read_date_print d : wf_date d -> read_date (JStr (print_date d)) = JOk d.
Proof.
  intros Hd. pose proof (p_date_print d [] Hd) as E. rewrite app_nil_r in E. unfold read_date. rewrite E. reflexivity.
Qed.

Definition jwf_tick (t : text) : Prop := is_ascii_text t = true /\ no_lower t.
Lemma read_ticker_id t : jwf_tick t -> read_ticker (JStr t) = JOk t.
Proof. intros [Ha Hl]. unfold read_ticker. rewrite Ha, (upper_text_id t Hl). reflexivity. Qed.

Section J.
  Context (vc : text -> bool).

  Definition jwf_money (m : money) : Prop := dec_ok (m_amt m) = true /\ vc (m_cur m) = true.
  Definition jwf_op (o : dop) : Prop :=
    match o with
    | DBuy q p f | DSell q p f | DAccumulation q p f | DCapReturn q p f =>
        dec_ok q = true /\ d_mant q <> 0 /\ jwf_money p /\ jwf_money f
    | DDividend tv tx => jwf_money tv /\ jwf_money tx
    | DSplit r | DUnsplit r => dec_ok r = true /\ d_mant r <> 0
    end.
  Definition jwf_txn (t : dtxn) : Prop := wf_date (x_date t) /\ jwf_tick (x_tick t) /\ jwf_op (x_op t).

  Lemma read_money_shape a c : read_money vc (JObj [(K_AMOUNT, a); (K_CURRENCY, JStr c)]) =
    jbind (read_dec a) (fun d => if vc c then JOk {| m_amt := d; m_cur := c |} else JReject).
  Proof. reflexivity. Qed.
  Lemma read_money_print m : jwf_money m -> read_money vc (j_money m) = JOk m.
  Proof.
    intros [Hd Hc]. unfold j_money. rewrite read_money_shape, (read_dec_print _ Hd). cbn [jbind]. rewrite Hc. destruct m; reflexivity.
  Qed.

  Lemma positive_ok q : d_mant q <> 0 -> pos_check q = JOk q.
  Proof. intros H. unfold pos_check. destruct (N.eqb_spec (d_mant q) 0); [contradiction|reflexivity]. Qed.

  Definition hdr (ds tk : jv) (rest : list (text * jv)) : jv := JObj ((K_DATE, ds) :: (K_TICKER, tk) :: rest).
  Definition head (ds tk : jv) (k : date -> text -> jres dtxn) : jres dtxn :=
    jbind (read_date ds) (fun d => jbind (read_ticker tk) (fun t => k d t)).
  Definition mk (o : dop) (d : date) (t : text) : jres dtxn := JOk {| x_date := d; x_tick := t; x_op := o |}.

  Lemma shape_trade3 kw (mkop : dec -> money -> money -> dop) k2 k3 ds tk q p f :
    (kw, mkop, k2, k3) = (KW_BUY, DBuy, K_PRICE, K_FEES) \/ (kw, mkop, k2, k3) = (KW_SELL, DSell, K_PRICE, K_FEES) \/
    (kw, mkop, k2, k3) = (KW_ACCUMULATION, DAccumulation, K_TOTAL_VALUE, K_TAX_PAID) \/
    (kw, mkop, k2, k3) = (KW_CAPRETURN, DCapReturn, K_TOTAL_VALUE, K_FEES) ->
    read_txn vc (hdr ds tk [(K_ACTION, JStr kw); (K_AMOUNT, q); (k2, p); (k3, f)]) =
    head ds tk (fun d t => jbind (jbind (jbind (read_dec q) pos_check) (fun q' => jbind (read_money vc p) (fun p' =>
                           jbind (read_money vc f) (fun f' => JOk (mkop q' p' f'))))) (fun o => mk o d t)).
  Proof. intros [E|[E|[E|E]]]; injection E as -> -> -> ->; reflexivity. Qed.
  Lemma shape_dividend ds tk tv tx :
    read_txn vc (hdr ds tk [(K_ACTION, JStr KW_DIVIDEND); (K_TOTAL_VALUE, tv); (K_TAX_PAID, tx)]) =
    head ds tk (fun d t => jbind (jbind (read_money vc tv) (fun a => jbind (read_money vc tx) (fun b => JOk (DDividend a b)))) (fun o => mk o d t)).
  Proof. reflexivity. Qed.
  Lemma shape_ratio kw (mkop : dec -> dop) ds tk r :
    (kw, mkop) = (KW_SPLIT, DSplit) \/ (kw, mkop) = (KW_UNSPLIT, DUnsplit) ->
    read_txn vc (hdr ds tk [(K_ACTION, JStr kw); (K_RATIO, r)]) =
    head ds tk (fun d t => jbind (jbind (jbind (read_dec r) pos_check) (fun r' => JOk (mkop r'))) (fun o => mk o d t)).
  Proof. intros [E|E]; injection E as -> ->; reflexivity. Qed.

  Theorem json_roundtrip t : jwf_txn t -> read_txn vc (to_json t) = JOk t.
  Proof.
    destruct t as [d tk o]. intros (Hd & Ht & Ho). cbn [x_date x_tick x_op] in *. unfold to_json. cbn [x_date x_tick x_op].
    fold (hdr (JStr (print_date d)) (JStr tk) (j_op o)).
    destruct o as [q p f|q p f|tv tx|q p f|q p f|r|r]; cbn [jwf_op] in Ho; cbn [j_op].
    - destruct Ho as (Hq & Hp0 & Hp & Hf). rewrite (shape_trade3 KW_BUY DBuy K_PRICE K_FEES) by tauto.
      unfold head. rewrite (read_date_print d Hd), (read_ticker_id tk Ht). cbn [jbind].
      rewrite (read_dec_print q Hq). cbn [jbind]. rewrite (positive_ok q Hp0), (read_money_print p Hp), (read_money_print f Hf). reflexivity.
    - destruct Ho as (Hq & Hp0 & Hp & Hf). rewrite (shape_trade3 KW_SELL DSell K_PRICE K_FEES) by tauto.
      unfold head. rewrite (read_date_print d Hd), (read_ticker_id tk Ht). cbn [jbind].
      rewrite (read_dec_print q Hq). cbn [jbind]. rewrite (positive_ok q Hp0), (read_money_print p Hp), (read_money_print f Hf). reflexivity.
    - destruct Ho as (Hp & Hf). rewrite shape_dividend.
      unfold head. rewrite (read_date_print d Hd), (read_ticker_id tk Ht). cbn [jbind].
      rewrite (read_money_print tv Hp), (read_money_print tx Hf). reflexivity.
    - destruct Ho as (Hq & Hp0 & Hp & Hf). rewrite (shape_trade3 KW_ACCUMULATION DAccumulation K_TOTAL_VALUE K_TAX_PAID) by tauto.
      unfold head. rewrite (read_date_print d Hd), (read_ticker_id tk Ht). cbn [jbind].
      rewrite (read_dec_print q Hq). cbn [jbind]. rewrite (positive_ok q Hp0), (read_money_print p Hp), (read_money_print f Hf). reflexivity.
    - destruct Ho as (Hq & Hp0 & Hp & Hf). rewrite (shape_trade3 KW_CAPRETURN DCapReturn K_TOTAL_VALUE K_FEES) by tauto.
      unfold head. rewrite (read_date_print d Hd), (read_ticker_id tk Ht). cbn [jbind].
      rewrite (read_dec_print q Hq). cbn [jbind]. rewrite (positive_ok q Hp0), (read_money_print p Hp), (read_money_print f Hf). reflexivity.
    - destruct Ho as (Hq & Hp0). rewrite (shape_ratio KW_SPLIT DSplit) by tauto.
      unfold head. rewrite (read_date_print d Hd), (read_ticker_id tk Ht). cbn [jbind].
      rewrite (read_dec_print r Hq). cbn [jbind]. rewrite (positive_ok r Hp0). reflexivity.
    - destruct Ho as (Hq & Hp0). rewrite (shape_ratio KW_UNSPLIT DUnsplit) by tauto.
      unfold head. rewrite (read_date_print d Hd), (read_ticker_id tk Ht). cbn [jbind].
      rewrite (read_dec_print r Hq). cbn [jbind]. rewrite (positive_ok r Hp0). reflexivity.
  Qed.

  Theorem json_list_roundtrip ts : Forall jwf_txn ts -> read_txns vc (map to_json ts) = JOk ts.
  Proof.
    induction 1 as [|t r Ht _ IH]; cbn [map read_txns]; [reflexivity|]. rewrite (json_roundtrip t Ht). cbn [jbind]. rewrite IH. reflexivity.
  Qed.

  (* the lenient side of the reader: a plain string is pounds; an absent fee or tax is zero pounds; the action's letter
     case is free *)
  Lemma read_money_plain d : dec_ok d = true -> read_money vc (j_dec d) = JOk {| m_amt := d; m_cur := GBP |}.
  Proof. intros Hd. unfold j_dec, read_money. fold (j_dec d). rewrite (read_dec_print d Hd). reflexivity. Qed.

  (* what the positivity checks refuse *)
  Lemma zero_amount_refused ds tk p f d t :
    read_date ds = JOk d -> read_ticker tk = JOk t ->
    read_txn vc (hdr ds tk [(K_ACTION, JStr KW_BUY); (K_AMOUNT, j_dec dec0); (K_PRICE, p); (K_FEES, f)]) = JReject.
  Proof.
    intros Ed Et. rewrite (shape_trade3 KW_BUY DBuy K_PRICE K_FEES) by tauto. unfold head. rewrite Ed, Et. cbn [jbind].
    rewrite (read_dec_print dec0 eq_refl). reflexivity.
  Qed.
  (* #[serde(default)]: a transaction written without its optional fee or tax key reads back with zero pounds there *)
  Definition without_optional (o : dop) : dop :=
    match o with
    | DBuy q p _ => DBuy q p zero_gbp | DSell q p _ => DSell q p zero_gbp
    | DDividend tv _ => DDividend tv zero_gbp | DAccumulation q tv _ => DAccumulation q tv zero_gbp
    | DCapReturn q tv _ => DCapReturn q tv zero_gbp | o => o
    end.
  Definition has_optional (o : dop) : bool := match o with DSplit _ | DUnsplit _ => false | _ => true end.

  Lemma shape_trade2 kw (mkop : dec -> money -> money -> dop) k2 k3 ds tk q p :
    (kw, mkop, k2, k3) = (KW_BUY, DBuy, K_PRICE, K_FEES) \/ (kw, mkop, k2, k3) = (KW_SELL, DSell, K_PRICE, K_FEES) \/
    (kw, mkop, k2, k3) = (KW_ACCUMULATION, DAccumulation, K_TOTAL_VALUE, K_TAX_PAID) \/
    (kw, mkop, k2, k3) = (KW_CAPRETURN, DCapReturn, K_TOTAL_VALUE, K_FEES) ->
    read_txn vc (hdr ds tk [(K_ACTION, JStr kw); (K_AMOUNT, q); (k2, p)]) =
    head ds tk (fun d t => jbind (jbind (jbind (read_dec q) pos_check) (fun q' => jbind (read_money vc p) (fun p' =>
                           JOk (mkop q' p' zero_gbp)))) (fun o => mk o d t)).
  Proof. intros [E|[E|[E|E]]]; injection E as -> -> -> ->; reflexivity. Qed.
  Lemma shape_dividend1 ds tk tv :
    read_txn vc (hdr ds tk [(K_ACTION, JStr KW_DIVIDEND); (K_TOTAL_VALUE, tv)]) =
    head ds tk (fun d t => jbind (jbind (read_money vc tv) (fun a => JOk (DDividend a zero_gbp))) (fun o => mk o d t)).
  Proof. reflexivity. Qed.

  Theorem json_optional_default t : jwf_txn t -> has_optional (x_op t) = true ->
    read_txn vc (hdr (JStr (print_date (x_date t))) (JStr (x_tick t)) (removelast (j_op (x_op t)))) =
    JOk {| x_date := x_date t; x_tick := x_tick t; x_op := without_optional (x_op t) |}.
  Proof.
    destruct t as [d tk o]. intros (Hd & Ht & Ho) Hopt. cbn [x_date x_tick x_op] in *.
    destruct o as [q p f|q p f|tv tx|q p f|q p f|r|r]; cbn [jwf_op has_optional] in *; try discriminate; cbn [j_op removelast without_optional].
    - destruct Ho as (Hq & Hp0 & Hp & Hf). rewrite (shape_trade2 KW_BUY DBuy K_PRICE K_FEES) by tauto.
      unfold head. rewrite (read_date_print d Hd), (read_ticker_id tk Ht). cbn [jbind].
      rewrite (read_dec_print q Hq). cbn [jbind]. rewrite (positive_ok q Hp0), (read_money_print p Hp). reflexivity.
    - destruct Ho as (Hq & Hp0 & Hp & Hf). rewrite (shape_trade2 KW_SELL DSell K_PRICE K_FEES) by tauto.
      unfold head. rewrite (read_date_print d Hd), (read_ticker_id tk Ht). cbn [jbind].
      rewrite (read_dec_print q Hq). cbn [jbind]. rewrite (positive_ok q Hp0), (read_money_print p Hp). reflexivity.
    - destruct Ho as (Hp & Hf). rewrite shape_dividend1.
      unfold head. rewrite (read_date_print d Hd), (read_ticker_id tk Ht). cbn [jbind]. rewrite (read_money_print tv Hp). reflexivity.
    - destruct Ho as (Hq & Hp0 & Hp & Hf). rewrite (shape_trade2 KW_ACCUMULATION DAccumulation K_TOTAL_VALUE K_TAX_PAID) by tauto.
      unfold head. rewrite (read_date_print d Hd), (read_ticker_id tk Ht). cbn [jbind].
      rewrite (read_dec_print q Hq). cbn [jbind]. rewrite (positive_ok q Hp0), (read_money_print p Hp). reflexivity.
    - destruct Ho as (Hq & Hp0 & Hp & Hf). rewrite (shape_trade2 KW_CAPRETURN DCapReturn K_TOTAL_VALUE K_FEES) by tauto.
      unfold head. rewrite (read_date_print d Hd), (read_ticker_id tk Ht). cbn [jbind].
      rewrite (read_dec_print q Hq). cbn [jbind]. rewrite (positive_ok q Hp0), (read_money_print p Hp). reflexivity.
  Qed.
  (* normalize_operation_action: the action's letter case is free, and CAP_RETURN is CAPRETURN *)
  Lemma jlookup_skip k k' v rest : teqb k k' = false -> jlookup k ((k', v) :: rest) = jlookup k rest.
  Proof. intros H. cbn [jlookup]. rewrite H. reflexivity. Qed.
  Lemma jlookup_here k v rest : teqb k k = true -> jlookup k ((k, v) :: rest) = Some v.
  Proof. intros H. cbn [jlookup]. rewrite H. reflexivity. Qed.

  Ltac skip_action :=
    unfold pos_dec, req, opt_money;
    rewrite ?(jlookup_skip K_AMOUNT K_ACTION), ?(jlookup_skip K_PRICE K_ACTION), ?(jlookup_skip K_FEES K_ACTION),
            ?(jlookup_skip K_TOTAL_VALUE K_ACTION), ?(jlookup_skip K_TAX_PAID K_ACTION), ?(jlookup_skip K_RATIO K_ACTION) by reflexivity.

  Theorem json_action_case a a' rest :
    is_ascii_text a = true -> is_ascii_text a' = true -> upper_text a = upper_text a' ->
    read_op vc ((K_ACTION, JStr a) :: rest) = read_op vc ((K_ACTION, JStr a') :: rest).
  Proof.
    intros Ha Ha' Hu. unfold read_op. rewrite !(jlookup_here K_ACTION) by reflexivity. rewrite Ha, Ha', Hu. cbn [negb].
    skip_action. reflexivity.
  Qed.

  Theorem json_cap_return_alias rest :
    read_op vc ((K_ACTION, JStr A_CAP_RETURN) :: rest) = read_op vc ((K_ACTION, JStr KW_CAPRETURN) :: rest).
  Proof.
    unfold read_op. rewrite !(jlookup_here K_ACTION) by reflexivity.
    replace (is_ascii_text A_CAP_RETURN) with true by reflexivity. replace (is_ascii_text KW_CAPRETURN) with true by reflexivity. cbn [negb].
    replace (upper_text A_CAP_RETURN) with A_CAP_RETURN by reflexivity. replace (upper_text KW_CAPRETURN) with KW_CAPRETURN by reflexivity.
    replace (teqb A_CAP_RETURN A_CAP_RETURN) with true by reflexivity. replace (teqb KW_CAPRETURN A_CAP_RETURN) with false by reflexivity.
    skip_action. reflexivity.
  Qed.
  (* unknown keys are ignored: a key that is none of the reader's nine, appended to a transaction object that does not have it,
     changes nothing *)
  Definition reader_keys : list text := [K_DATE; K_TICKER; K_ACTION; K_AMOUNT; K_PRICE; K_FEES; K_TOTAL_VALUE; K_TAX_PAID; K_RATIO].
  Definition unknown_key (k : text) : bool := forallb (fun K => negb (teqb K k)) reader_keys.

  Lemma jlookup_app k fs k' v : teqb k k' = false -> jlookup k (fs ++ [(k', v)]) = jlookup k fs.
  Proof.
    intros H. induction fs as [|[k0 v0] r IH]; cbn [app jlookup]; [rewrite H; reflexivity|].
    destruct (teqb k k0); [reflexivity|exact IH].
  Qed.
  Lemma has_key_app k fs k' v : has_key k (fs ++ [(k', v)]) = has_key k fs || teqb k k'.
  Proof.
    unfold has_key. induction fs as [|[k0 v0] r IH]; cbn [app jlookup].
    - destruct (teqb k k'); reflexivity.
    - destruct (teqb k k0); [reflexivity|exact IH].
  Qed.
  Lemma teqb_sym a : forall b, teqb a b = teqb b a.
  Proof.
    induction a as [|x a IH]; intros [|y b]; cbn [teqb]; try reflexivity. rewrite (N.eqb_sym (code x) (code y)), IH. reflexivity.
  Qed.
  Lemma has_key_cons k k0 v0 r : has_key k ((k0, v0) :: r) = teqb k k0 || has_key k r.
  Proof. unfold has_key. cbn [jlookup]. destruct (teqb k k0); reflexivity. Qed.
  Lemma has_dup_app fs k' v : has_dup (fs ++ [(k', v)]) = has_dup fs || has_key k' fs.
  Proof.
    induction fs as [|[k0 v0] r IH]; cbn [app has_dup]; [reflexivity|].
    rewrite has_key_app, IH, has_key_cons, (teqb_sym k' k0).
    destruct (has_key k0 r), (teqb k0 k'), (has_dup r), (has_key k' r); reflexivity.
  Qed.

  Theorem json_unknown_key_ignored fs k' v :
    unknown_key k' = true -> has_key k' fs = false -> read_txn vc (JObj (fs ++ [(k', v)])) = read_txn vc (JObj fs).
  Proof.
    intros Hu Hn. unfold unknown_key, reader_keys in Hu. cbn [forallb] in Hu.
    repeat (apply andb_true_iff in Hu; destruct Hu as [?H Hu]).
    repeat match goal with H : negb _ = true |- _ => apply negb_true_iff in H end.
    unfold read_txn. rewrite has_dup_app, Hn, orb_false_r. destruct (has_dup fs); [reflexivity|].
    unfold req, read_op, pos_dec, req, opt_money. rewrite !jlookup_app by assumption. reflexivity.
  Qed.
End J.
