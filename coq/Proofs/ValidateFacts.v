From Coq Require Import QArith Qcanon ZArith List Bool Lqa.
Require Import CGT.Model.Num CGT.Model.Ledger CGT.Model.Validate CGT.Proofs.NumFacts.
Import ListNotations.
Open Scope Qc_scope.

(* the property's wording, kind by kind *)
Definition op_bad (o : op Qc) : Prop :=
  match o with
  | Buy q p f | Sell q p f => q <= 0 \/ p < 0 \/ f < 0
  | CapReturn q tv f => q <= 0 \/ tv < 0 \/ f < 0
  | Dividend tv _ => tv < 0
  | Accumulation q tv _ => q <= 0 \/ tv < 0
  | Split r | Unsplit r => r <= 0
  end.

Lemma nonpos_iff q : (qeqb q 0 || qltb q 0) = true <-> q <= 0.
Proof.
  destruct (qeqb_spec q 0) as [E|N]; cbn [orb].
  - subst. split; [intros _; qc2q; lra|reflexivity].
  - destruct (qltb_spec q 0) as [L|G]; split; intros H; try reflexivity; try discriminate; [qc2q; lra|].
    exfalso. apply N. apply Qc_is_canon. qc2q. lra.
Qed.
Lemma neg_iff x : qltb x 0 = true <-> x < 0.
Proof. destruct (qltb_spec x 0); split; intros; try reflexivity; try discriminate; [assumption|contradiction]. Qed.

Lemma op_has_error_spec o : op_has_error o = true <-> op_bad o.
Proof.
  destruct o; cbn [op_has_error op_bad].
  - rewrite orb_true_iff, orb_true_iff, nonpos_iff, !neg_iff. tauto.
  - rewrite orb_true_iff, orb_true_iff, nonpos_iff, !neg_iff. tauto.
  - apply neg_iff.
  - rewrite orb_true_iff, orb_true_iff, nonpos_iff, !neg_iff. tauto.
  - rewrite orb_true_iff, nonpos_iff, neg_iff. tauto.
  - apply nonpos_iff.
  - apply nonpos_iff.
Qed.

Theorem has_errors_spec ts : has_errors ts = true <-> exists o, In o ts /\ op_bad o.
Proof.
  unfold has_errors. rewrite existsb_exists. split; intros (o & Hin & H); exists o; (split; [exact Hin|]); apply op_has_error_spec; exact H.
Qed.
