(* A ledger the validator passes yields well-formed, date-sorted day records for every security: the hypotheses of the
   run-level theorems hold for every validated ledger. *)
From Coq Require Import QArith Qcanon ZArith List Bool String Lqa Lia Sorted.
Require Import CGT.Model.Num CGT.Model.Ledger CGT.Model.Match CGT.Model.Agg CGT.Model.Report CGT.Model.Validate
  CGT.Proofs.NumFacts CGT.Proofs.AggFacts CGT.Proofs.MatchInv CGT.Proofs.ReportAdd.
Import ListNotations.
Open Scope Qc_scope.

Definition op_ok (o : op Qc) : Prop := op_has_error o = false.

Lemma qsum_nonneg l : (forall x, In x l -> 0 <= x) -> 0 <= qsum l.
Proof.
  induction l as [|x r IH]; intros H; [rewrite qsum_nil; qc2q; lra|]. rewrite qsum_cons.
  pose proof (H x (or_introl eq_refl)). pose proof (IH (fun y Hy => H y (or_intror Hy))). qc2q. lra.
Qed.
Lemma qsum_pos l x : (forall y, In y l -> 0 <= y) -> In x l -> 0 < x -> 0 < qsum l.
Proof.
  induction l as [|y r IH]; intros H Hin Hx; [destruct Hin|]. rewrite qsum_cons.
  destruct Hin as [->|Hin].
  - pose proof (qsum_nonneg r (fun z Hz => H z (or_intror Hz))). qc2q. lra.
  - pose proof (H y (or_introl eq_refl)). pose proof (IH (fun z Hz => H z (or_intror Hz)) Hin Hx). qc2q. lra.
Qed.
Lemma qprod_pos l : (forall x, In x l -> 0 < x) -> 0 < qprod l.
Proof.
  induction l as [|x r IH]; intros H; [unfold qprod; cbn [fold_right]; qc2q; lra|]. rewrite qprod_cons.
  apply Qc_mul_pos; [apply H; left; reflexivity|apply IH; intros y Hy; apply H; right; exact Hy].
Qed.

Lemma not_err_pos q : qeqb q 0 = false -> qltb q 0 = false -> 0 < q.
Proof.
  intros E L. destruct (qeqb_spec q 0) as [|N]; [discriminate|]. destruct (qltb_spec q 0) as [|G]; [discriminate|].
  assert (Hn : ~ (this q == 0)%Q) by (intros Hq; apply N; apply Qc_is_canon; exact Hq).
  assert (Hg : ~ (this q < 0)%Q) by (intros Hq; apply G; exact Hq).
  unfold Qclt. change (this 0) with 0%Q. destruct (Qlt_le_dec 0 (this q)) as [P|P]; [exact P|]. exfalso.
  apply Hn. apply Qle_antisym; [exact P|apply Qnot_lt_le; exact Hg].
Qed.

Lemma ok_buy_q o : op_ok o -> 0 <= buy_q o /\ (is_buy o = true -> 0 < buy_q o).
Proof.
  unfold op_ok. destruct o; cbn [op_has_error buy_q is_buy]; intros H; try (split; [qc2q; lra|discriminate]).
  repeat (apply orb_false_iff in H; destruct H as [H ?]).
  match goal with E : qeqb ?q _ = false, L : qltb ?q _ = false |- _ => pose proof (not_err_pos q E L) as Hp end. split; [qc2q; lra|auto].
Qed.
Lemma ok_sell_q o : op_ok o -> 0 <= sell_q o /\ (is_sell o = true -> 0 < sell_q o).
Proof.
  unfold op_ok. destruct o; cbn [op_has_error sell_q is_sell]; intros H; try (split; [qc2q; lra|discriminate]).
  repeat (apply orb_false_iff in H; destruct H as [H ?]).
  match goal with E : qeqb ?q _ = false, L : qltb ?q _ = false |- _ => pose proof (not_err_pos q E L) as Hp end. split; [qc2q; lra|auto].
Qed.
Lemma ok_ratio o : op_ok o -> 0 < ratio_of o.
Proof.
  unfold op_ok. destruct o; cbn [op_has_error ratio_of]; intros H; try (qc2q; lra).
  - apply orb_false_iff in H. destruct H as [E L]. exact (not_err_pos _ E L).
  - apply orb_false_iff in H. destruct H as [E L]. rewrite E. pose proof (not_err_pos _ E L) as P.
    unfold Qclt in *. cbn [this Qcinv]. rewrite this_inv. apply Qinv_lt_0_compat. exact P.
Qed.

Lemma has_errors_forall ts : has_errors ts = false -> forall o, In o ts -> op_ok o.
Proof.
  unfold has_errors, op_ok. intros H o Ho. destruct (op_has_error o) eqn:E; [|reflexivity].
  assert (existsb op_has_error ts = true) by (apply existsb_exists; exists o; split; assumption). congruence.
Qed.

Theorem validated_wf l : has_errors (map t_op l) = false -> wf_days (days_of l).
Proof.
  intros Hv d Hd. unfold days_of in Hd. apply in_map_iff in Hd. destruct Hd as (z & <- & _).
  pose proof (has_errors_forall _ Hv) as Hall.
  assert (Hos : forall o, In o (map t_op (filter (on_date z) l)) -> op_ok o).
  { intros o Ho. apply Hall. apply in_map_iff in Ho. destruct Ho as (t & <- & Ht). apply filter_In in Ht. apply in_map. apply Ht. }
  set (os := map t_op (filter (on_date z) l)) in *.
  unfold wf_day, mk_day. cbn [hasbuy bq hassell sq ratio]. fold os. repeat split.
  - intros Hb. apply existsb_exists in Hb. destruct Hb as (o & Ho & Hbuy).
    apply (qsum_pos _ (buy_q o)); [|apply in_map; exact Ho|apply (ok_buy_q o (Hos o Ho)); exact Hbuy].
    intros y Hy. apply in_map_iff in Hy. destruct Hy as (o' & <- & Ho'). apply (ok_buy_q o' (Hos o' Ho')).
  - intros Hb. apply existsb_exists in Hb. destruct Hb as (o & Ho & Hsell).
    apply (qsum_pos _ (sell_q o)); [|apply in_map; exact Ho|apply (ok_sell_q o (Hos o Ho)); exact Hsell].
    intros y Hy. apply in_map_iff in Hy. destruct Hy as (o' & <- & Ho'). apply (ok_sell_q o' (Hos o' Ho')).
  - apply qprod_pos. intros x Hx. apply in_map_iff in Hx. destruct Hx as (o & <- & Ho). apply ok_ratio. apply Hos. exact Ho.
Qed.

Lemma has_errors_filter (f : gtxn -> bool) l : has_errors (map t_op l) = false -> has_errors (map t_op (filter f l)) = false.
Proof.
  unfold has_errors. intros H. destruct (existsb op_has_error (map t_op (filter f l))) eqn:E; [|reflexivity].
  apply existsb_exists in E. destruct E as (o & Ho & He). apply in_map_iff in Ho. destruct Ho as (t & <- & Ht). apply filter_In in Ht.
  assert (existsb op_has_error (map t_op l) = true) by (apply existsb_exists; exists (t_op t); split; [apply in_map; apply Ht|exact He]). congruence.
Qed.

(* every security of a validated ledger meets the hypotheses of the run-level theorems *)
Theorem validated_days l s : has_errors (map t_op l) = false ->
  wf_days (days_of_tick l s) /\ sorted_days (days_of_tick l s).
Proof.
  intros H. unfold days_of_tick. split; [apply validated_wf, has_errors_filter, H|apply days_of_sorted].
Qed.
