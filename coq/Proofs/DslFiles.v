(* Several input files: the CLI joins them with a newline.  If each file is read successfully, the joined text is read as the
   concatenation of their transaction lists - whatever the files end with (no final newline, LF, CRLF, a lone CR). *)
From Coq Require Import ZArith NArith List Bool Ascii String Lia.
Require Import CGT.Model.Date CGT.Model.Dsl CGT.Proofs.DslFacts.
Import ListNotations.
Open Scope N_scope.

Fixpoint ends_cr (s : text) : bool :=
  match s with [] => false | [c] => code c =? 13 | _ :: r => ends_cr r end.

Lemma split_lines_nonempty s : forall cur, split_lines cur s <> [].
Proof.
  induction s as [|c r IH]; intros cur; cbn [split_lines]; [discriminate|].
  destruct (code c =? 13); [destruct r as [|c2 r2]; [discriminate|destruct (code c2 =? 10); discriminate]|].
  destruct (code c =? 10); [discriminate|apply IH].
Qed.
Lemma removelast_cons {A} (x : A) l : l <> [] -> removelast (x :: l) = x :: removelast l.
Proof. destruct l; [congruence|reflexivity]. Qed.

Definition front (cur s1 : text) : list text :=
  if ends_cr s1 then removelast (split_lines cur s1) else split_lines cur s1.


Lemma split_lines_join s2 : forall n s1 cur, (List.length s1 <= n)%nat ->
  split_lines cur (s1 ++ ch 10 :: s2) = front cur s1 ++ split_lines [] s2.
Proof.
  induction n as [|n IH]; intros s1 cur Hn.
  - destruct s1; [|cbn [List.length] in Hn; lia]. cbn [app split_lines front ends_cr].
    replace (code (ch 10) =? 13) with false by reflexivity. replace (code (ch 10) =? 10) with true by reflexivity. reflexivity.
  - destruct s1 as [|c r].
    + cbn [app split_lines front ends_cr].
      replace (code (ch 10) =? 13) with false by reflexivity. replace (code (ch 10) =? 10) with true by reflexivity. reflexivity.
    + cbn [List.length] in Hn. cbn [app]. unfold front. cbn [split_lines].
      destruct (code c =? 13) eqn:E13.
      * destruct r as [|c2 r2].
        -- (* the file ends with a lone CR: with the joining LF it is one CRLF *)
           cbn [app ends_cr]. rewrite E13. replace (code (ch 10) =? 10) with true by reflexivity.
           cbn [split_lines removelast app]. reflexivity.
        -- cbn [app]. cbn [List.length] in Hn. destruct (code c2 =? 10) eqn:E10.
           ++ rewrite (IH r2 [] ltac:(lia)). unfold front.
              assert (Ee : ends_cr (c :: c2 :: r2) = ends_cr r2 \/ r2 = []).
              { destruct r2 as [|c3 r3]; [right; reflexivity|left; reflexivity]. }
              destruct Ee as [Ee | ->].
              ** rewrite Ee. destruct (ends_cr r2); [|reflexivity].
                 rewrite removelast_cons by apply split_lines_nonempty. reflexivity.
              ** cbn [ends_cr].
                 assert (code c2 =? 13 = false) as -> by (apply N.eqb_eq in E10; rewrite E10; reflexivity). reflexivity.
           ++ change (c2 :: r2 ++ ch 10 :: s2) with ((c2 :: r2) ++ ch 10 :: s2).
              rewrite (IH (c2 :: r2) [] ltac:(cbn [List.length]; lia)). unfold front.
              change (ends_cr (c :: c2 :: r2)) with (ends_cr (c2 :: r2)).
              destruct (ends_cr (c2 :: r2)); [|reflexivity].
              rewrite removelast_cons by apply split_lines_nonempty. reflexivity.
      * destruct (code c =? 10) eqn:E10.
        -- rewrite (IH r [] ltac:(lia)). unfold front.
           assert (Ee : ends_cr (c :: r) = ends_cr r).
           { destruct r as [|c3 r3]; [cbn [ends_cr]; exact E13|reflexivity]. }
           rewrite Ee. destruct (ends_cr r); [|reflexivity].
           rewrite removelast_cons by apply split_lines_nonempty. reflexivity.
        -- rewrite (IH r (c :: cur) ltac:(lia)). unfold front.
           assert (Ee : ends_cr (c :: r) = ends_cr r).
           { destruct r as [|c3 r3]; [cbn [ends_cr]; exact E13|reflexivity]. }
           rewrite Ee. reflexivity.
Qed.

(* a file ending in a lone CR has an empty last segment; that is the one `front` drops *)
Lemma ends_cr_last_n : forall n s cur, (List.length s <= n)%nat -> ends_cr s = true -> exists pre, split_lines cur s = pre ++ [[]].
Proof.
  induction n as [|n IH]; intros s cur Hn H; (destruct s as [|c r]; [discriminate|]); cbn [List.length] in Hn; [lia|].
  cbn [split_lines]. destruct r as [|c2 r2].
  - cbn [ends_cr] in H. rewrite H. cbn [split_lines]. exists [rev cur]. reflexivity.
  - change (ends_cr (c :: c2 :: r2)) with (ends_cr (c2 :: r2)) in H. cbn [List.length] in Hn.
    destruct (code c =? 13).
    + destruct (code c2 =? 10) eqn:E10.
      * assert (Hr2 : ends_cr r2 = true).
        { destruct r2 as [|c3 r3]; [|exact H]. cbn [ends_cr] in H. apply N.eqb_eq in E10, H. congruence. }
        destruct (IH r2 [] ltac:(lia) Hr2) as (pre & E). rewrite E. exists (rev cur :: pre). reflexivity.
      * destruct (IH (c2 :: r2) [] ltac:(cbn [List.length]; lia) H) as (pre & E). rewrite E. exists (rev cur :: pre). reflexivity.
    + destruct (code c =? 10).
      * destruct (IH (c2 :: r2) [] ltac:(cbn [List.length]; lia) H) as (pre & E). rewrite E. exists (rev cur :: pre). reflexivity.
      * exact (IH (c2 :: r2) (c :: cur) ltac:(cbn [List.length]; lia) H).
Qed.
Lemma ends_cr_last s cur : ends_cr s = true -> exists pre, split_lines cur s = pre ++ [[]].
Proof. apply (ends_cr_last_n (List.length s)). apply le_n. Qed.

Lemma front_spec cur s : front cur s = split_lines cur s \/ split_lines cur s = front cur s ++ [[]].
Proof.
  unfold front. destruct (ends_cr s) eqn:E; [|left; reflexivity]. right.
  destruct (ends_cr_last s cur E) as (pre & ->). rewrite removelast_last. reflexivity.
Qed.

Section J.
  Context (vc : text -> bool).

  Lemma ff_indep l : forall n m, first_fail n l = None -> first_fail m l = None.
  Proof. induction l as [|x r IH]; intros n m H; cbn [first_fail] in *; [reflexivity|]. destruct x; try discriminate; apply (IH (S n)); exact H. Qed.
  Lemma ff_app a b n : first_fail n a = None -> first_fail n b = None -> first_fail n (a ++ b) = None.
  Proof.
    revert n. induction a as [|x r IH]; intros n Ha Hb; cbn [app first_fail] in *; [exact Hb|].
    destruct x; try discriminate; apply IH; try exact Ha; apply (ff_indep b n); exact Hb.
  Qed.
  Lemma collect_indep l : forall n m t, collect n l = inr t -> collect m l = inr t.
  Proof.
    induction l as [|x r IH]; intros n m t H; cbn [collect] in *; [exact H|].
    destruct x as [tx [e|]| |]; try discriminate; try (apply (IH (S n)); exact H).
    destruct (collect (S n) r) as [e|ts] eqn:E; [discriminate|]. rewrite (IH (S n) (S m) ts E). exact H.
  Qed.
  Lemma collect_app a b n ta tb : collect n a = inr ta -> collect n b = inr tb -> collect n (a ++ b) = inr (ta ++ tb).
  Proof.
    revert n ta. induction a as [|x r IH]; intros n ta Ha Hb; cbn [app collect] in *; [injection Ha as <-; exact Hb|].
    destruct x as [tx [e|]| |]; try discriminate.
    - destruct (collect (S n) r) as [e|ts] eqn:E; [discriminate|]. injection Ha as <-.
      rewrite (IH (S n) ts E (collect_indep b n (S n) tb Hb)). reflexivity.
    - apply IH; [exact Ha|apply (collect_indep b n); exact Hb].
    - apply IH; [exact Ha|apply (collect_indep b n); exact Hb].
  Qed.
  Lemma ff_drop_blank a n : first_fail n (a ++ [LBlank]) = None -> first_fail n a = None.
  Proof. revert n. induction a as [|x r IH]; intros n H; cbn [app first_fail] in *; [reflexivity|]. destruct x; try discriminate; apply IH; exact H. Qed.
  Lemma collect_drop_blank a n t : collect n (a ++ [LBlank]) = inr t -> collect n a = inr t.
  Proof.
    revert n t. induction a as [|x r IH]; intros n t H; cbn [app collect] in *; [exact H|].
    destruct x as [tx [e|]| |]; try discriminate; try (apply IH; exact H).
    destruct (collect (S n) (r ++ [LBlank])) as [e|ts] eqn:E; [discriminate|]. rewrite (IH (S n) ts E). exact H.
  Qed.

  (* Two files read successfully, joined by the newline the CLI puts between them, are read as the two lists one after the other. *)
  Theorem parse_join s1 s2 t1 t2 : parse vc s1 = inr t1 -> parse vc s2 = inr t2 ->
    parse vc (s1 ++ ch 10 :: s2) = inr (t1 ++ t2).
  Proof.
    unfold parse. intros H1 H2.
    destruct (first_fail 1 (map (parse_line vc) (split_lines [] s1))) eqn:F1; [discriminate|].
    destruct (first_fail 1 (map (parse_line vc) (split_lines [] s2))) eqn:F2; [discriminate|].
    rewrite (split_lines_join s2 (List.length s1) s1 [] (le_n _)), map_app.
    assert (Hfront : first_fail 1 (map (parse_line vc) (front [] s1)) = None /\ collect 1 (map (parse_line vc) (front [] s1)) = inr t1).
    { destruct (front_spec [] s1) as [E|E]; [rewrite E; split; assumption|].
      rewrite E, map_app in F1, H1. cbn [map] in F1, H1. change (parse_line vc []) with LBlank in F1, H1.
      split; [apply ff_drop_blank; exact F1|apply collect_drop_blank; exact H1]. }
    destruct Hfront as [Ff Cf]. rewrite (ff_app _ _ 1 Ff F2). apply collect_app; assumption.
  Qed.
End J.
