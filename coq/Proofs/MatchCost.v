(* Cost conservation of the main pass: every pound of adjusted purchase cost ends in exactly one
   leg or in the pool. *)
From Coq Require Import QArith Qcanon ZArith List Bool Lqa Lia Sorted.
Require Import CGT.Model.Num CGT.Model.Match CGT.Proofs.NumFacts CGT.Proofs.MatchFacts CGT.Proofs.MatchInv.
Import ListNotations.
Open Scope Qc_scope.

(* claims on future days valued at those days' unit costs: cost already handed to 30-day legs *)
Fixpoint prepaid (offs : list plot) (cl : claims) (rest : list day) : Qc :=
  match rest with
  | [] => 0
  | e :: r => claim_of cl (dt e) * unit_cost offs e + prepaid offs cl r
  end.

Lemma prepaid_ext offs cl cl' rest : (forall e, In e rest -> claim_of cl (dt e) = claim_of cl' (dt e)) ->
  prepaid offs cl rest = prepaid offs cl' rest.
Proof.
  induction rest as [|e r IH]; intros H; cbn [prepaid]; [reflexivity|].
  rewrite (H e (or_introl eq_refl)), IH; [reflexivity|]. intros x Hx. apply H. right. exact Hx.
Qed.

Lemma legs_cost_app a b : legs_cost (a ++ b) = legs_cost a + legs_cost b.
Proof. unfold legs_cost. rewrite map_app. apply qsum_app. Qed.
Lemma legs_cost_nil : legs_cost [] = 0. Proof. reflexivity. Qed.
Lemma legs_cost_one l : legs_cost [l] = lg_cost l. Proof. unfold legs_cost; cbn [map]. apply qsum_one. Qed.

Lemma bnb_step_cost offs d e R rem cl : 0 <= rem -> 0 < R ->
  legs_cost (b_legs (bnb_step offs d e R rem cl)) = (rem - b_rem (bnb_step offs d e R rem cl)) * R * unit_cost offs e.
Proof.
  intros _ _. unfold bnb_step. destruct (hasbuy e && qltb 0 (free_of e cl)); cbn [b_legs b_rem bres0].
  - rewrite legs_cost_one. cbn [lg_cost mk_leg]. ring.
  - rewrite legs_cost_nil. ring.
Qed.

Lemma bnb_cost w offs d fut : forall R rem cl, 0 <= rem -> 0 < R -> ratios_pos fut -> NoDup (dates fut) ->
  legs_cost (b_legs (bnb w offs d fut R rem cl)) + prepaid offs cl fut
  = prepaid offs (b_cl (bnb w offs d fut R rem cl)) fut.
Proof.
  induction fut as [|e r IH]; intros R rem cl Hrem HR Hrat Hnd; cbn [bnb].
  - cbn [b_legs b_cl bres0 prepaid]. rewrite legs_cost_nil. ring.
  - destruct (negb (qltb 0 rem)); [cbn [b_legs b_cl bres0]; rewrite legs_cost_nil; ring|].
    destruct (dt e - dt d >? w)%Z; [cbn [b_legs b_cl bres0]; rewrite legs_cost_nil; ring|].
    rewrite bnb_step_nocrash by exact HR. cbn [b_legs b_cl].
    inversion Hnd as [|x l Hnotin Hnd']; subst.
    destruct (bnb_step_rem offs d e R rem cl Hrem HR) as [H1 H2].
    destruct (bnb_step_claim offs d e R rem cl Hrem HR) as (Hc1 & _ & _).
    assert (0 < R * ratio e) as HR' by (apply Qc_mul_pos; [exact HR|apply Hrat; left; reflexivity]).
    pose proof (bnb_step_cost offs d e R rem cl Hrem HR) as Hcost.
    set (s1 := bnb_step offs d e R rem cl) in *.
    cbn [prepaid]. rewrite bnb_cl_other by exact Hnotin.
    rewrite legs_cost_app.
    rewrite <- (IH (R * ratio e) (b_rem s1) (b_cl s1) H1 HR' (fun x Hx => Hrat x (or_intror Hx)) Hnd').
    rewrite (prepaid_ext offs (b_cl s1) cl r).
    2:{ intros x Hx. unfold s1. apply bnb_step_cl_other. intro E. apply Hnotin. rewrite <- E. apply in_map. exact Hx. }
    rewrite Hc1, Hcost. ring.
Qed.

Definition disp_cost (l : list (Z * list leg)) : Qc := qsum (map (fun x => legs_cost (snd x)) l).
Lemma disp_cost_app a b : disp_cost (a ++ b) = disp_cost a + disp_cost b.
Proof. unfold disp_cost. rewrite map_app. apply qsum_app. Qed.

Definition lot_value (offs : list plot) (d : day) : Qc :=
  if hasbuy d then bcost d + offset_of offs (dt d) else 0.

Lemma unit_cost_value offs d : hasbuy d = true -> 0 < bq d -> bq d * unit_cost offs d = lot_value offs d.
Proof.
  intros Hb Hq. unfold unit_cost, lot_value, qdiv0. rewrite Hb.
  destruct (qeqb_spec (bq d) 0) as [E|N]; [rewrite E in Hq; exfalso; qc2q; lra|]. field. exact N.
Qed.

Lemma same_day_step_cost offs d avail0 :
  legs_cost (fst (fst (same_day_step offs d avail0))) =
  (avail0 - snd (same_day_step offs d avail0)) * unit_cost offs d.
Proof.
  unfold same_day_step. destruct (qltb 0 avail0 && qltb 0 (sq d)); cbn [fst snd].
  - rewrite legs_cost_one. cbn [lg_cost mk_leg]. ring.
  - rewrite legs_cost_nil. ring.
Qed.

(* one day: cost of the day's legs + new pool cost + nothing lost *)
Lemma day_step_cost w offs s d rest s' :
  wf_day d -> ratios_pos rest -> NoDup (dates rest) -> Inv s (d :: rest) ->
  day_step w offs s d rest = inr s' ->
  disp_cost (m_disp s') + m_pc s' + prepaid offs (m_cl s) (d :: rest)
  = disp_cost (m_disp s) + m_pc s + lot_value offs d + prepaid offs (m_cl s') rest.
Proof.
  intros Hwf Hrat Hnd HI E.
  pose proof HI as [Ipos Icl Ipq Ipool].
  pose proof Hwf as (Hwb & Hws & Hwr).
  assert (Hokr : claims_ok (m_cl s) rest) by (intros e He; apply Icl; right; exact He).
  destruct (Icl d (or_introl eq_refl)) as [Hcb Hcn].
  unfold day_step in E.
  set (resv := if hasbuy d then claim_of (m_cl s) (dt d) else 0) in *.
  assert (Eresv : claim_of (m_cl s) (dt d) = resv).
  { unfold resv. destruct (hasbuy d); [reflexivity|apply Hcn; reflexivity]. }
  destruct (hasbuy d && qltb (bq d) resv); [discriminate|].
  set (avail0 := if hasbuy d then bq d - resv else 0) in *.
  assert (Hval : (resv + avail0) * unit_cost offs d = lot_value offs d).
  { unfold avail0, resv. destruct (hasbuy d) eqn:Hb.
    - replace (claim_of (m_cl s) (dt d) + (bq d - claim_of (m_cl s) (dt d))) with (bq d) by ring.
      apply unit_cost_value; [exact Hb|apply Hwb; reflexivity].
    - unfold lot_value. rewrite Hb. ring. }
  cbn [prepaid]. rewrite Eresv.
  destruct (hassell d) eqn:Hsell.
  - (* with a disposal *)
    unfold sell_step in E.
    destruct (qltb (m_pos s + bq' d) (sq d)); [discriminate|].
    destruct (qltb (avail0 + m_pq s) (sq d)); [discriminate|].
    assert (Hsq : 0 < sq d) by (apply Hws; reflexivity).
    destruct (qeqb_spec (sq d) 0) as [C|_]; [rewrite C in Hsq; exfalso; qc2q; lra|].
    pose proof (same_day_step_cost offs d avail0) as Hsd.
    assert (Hav : 0 <= avail0).
    { unfold avail0, resv. destruct (hasbuy d) eqn:Hb; [|qc2q; lra]. destruct (Hcb eq_refl) as [A B].
      assert (cap_of d <= bq d) by (apply cap_le_bq; specialize (Hwb eq_refl); qc2q; lra). qc2q; lra. }
    destruct (same_day_step_spec offs d avail0 Hav Hsq) as (m1 & Hm0 & Hm1 & Hm2 & Erem1 & Eav1 & _ & _).
    rewrite Erem1 in E. rewrite Eav1 in Hsd.
    assert (Hrem1 : 0 <= sq d - m1) by (qc2q; lra).
    pose proof (bnb_cost w offs d rest (ratio d) (sq d - m1) (m_cl s) Hrem1 Hwr Hrat Hnd) as Hbb.
    set (bb := bnb w offs d rest (ratio d) (sq d - m1) (m_cl s)) in *.
    destruct (b_crash bb); [discriminate|].
    pose proof (pool_step_cost d s (b_rem bb)) as Hpl.
    destruct (qltb 0 (snd (fst (pool_step d s (b_rem bb))))); [discriminate|].
    injection E as <-. cbn [m_disp m_pc m_cl s_legs s_av s_cl s_pq s_pc].
    rewrite Eav1.
    assert (Hdisp : disp_cost (m_disp s ++ match fst (fst (same_day_step offs d avail0)) ++ b_legs bb ++ fst (fst (pool_step d s (b_rem bb))) with
                        | [] => [] | _ :: _ => [(dt d, fst (fst (same_day_step offs d avail0)) ++ b_legs bb ++ fst (fst (pool_step d s (b_rem bb))))] end)
            = disp_cost (m_disp s) + (legs_cost (fst (fst (same_day_step offs d avail0))) + legs_cost (b_legs bb) + legs_cost (fst (fst (pool_step d s (b_rem bb)))))).
    { rewrite disp_cost_app. f_equal.
      destruct (fst (fst (same_day_step offs d avail0)) ++ b_legs bb ++ fst (fst (pool_step d s (b_rem bb)))) eqn:El.
      - apply app_eq_nil in El. destruct El as [-> El]. apply app_eq_nil in El. destruct El as [-> ->].
        unfold disp_cost; cbn [map]. rewrite legs_cost_nil, qsum_nil. ring.
      - rewrite <- El. unfold disp_cost; cbn [map snd]. rewrite qsum_one, !legs_cost_app. ring. }
    rewrite Hdisp, Hsd.
    destruct (hasbuy d && qltb 0 (avail0 - m1)) eqn:Htop.
    + rewrite <- Hbb, <- Hval. rewrite <- Hpl. ring.
    + assert (avail0 - m1 = 0) as Ez.
      { destruct (hasbuy d) eqn:Hb; cbn [andb] in Htop.
        - destruct (qltb_spec 0 (avail0 - m1)) as [P|N]; [discriminate|]. qc2q; lra.
        - unfold avail0 in *. qc2q; lra. }
      rewrite <- Hbb, <- Hval. rewrite <- Hpl.
      replace avail0 with (m1 + (avail0 - m1)) at 2 by ring. rewrite Ez. ring.
  - (* no disposal *)
    injection E as <-. cbn [m_disp m_pc m_cl s_legs s_av s_cl s_pq s_pc].
    rewrite app_nil_r.
    destruct (hasbuy d && qltb 0 avail0) eqn:Htop.
    + rewrite <- Hval. ring.
    + assert (avail0 = 0) as Ez.
      { destruct (hasbuy d) eqn:Hb; cbn [andb] in Htop.
        - destruct (qltb_spec 0 avail0) as [P|N]; [discriminate|].
          assert (0 <= avail0).
          { unfold avail0, resv. destruct (Hcb eq_refl) as [A B].
            assert (cap_of d <= bq d) by (apply cap_le_bq; specialize (Hwb eq_refl); qc2q; lra). qc2q; lra. }
          qc2q; lra.
        - reflexivity. }
      rewrite <- Hval, Ez. ring.
Qed.

Definition lots_value (offs : list plot) (ds : list day) : Qc := qsum (map (lot_value offs) ds).

Lemma prepaid_nil_claims offs rest : prepaid offs [] rest = 0.
Proof.
  induction rest as [|e r IH]; cbn [prepaid]; [reflexivity|].
  rewrite IH. unfold claim_of; cbn [map]. rewrite qsum_nil. ring.
Qed.

Lemma mainpass_cost w offs ds : forall s s', wf_days ds -> sorted_days ds -> Inv s ds ->
  mainpass w offs s ds = inr s' ->
  disp_cost (m_disp s') + m_pc s' + prepaid offs (m_cl s) ds
  = disp_cost (m_disp s) + m_pc s + lots_value offs ds.
Proof.
  induction ds as [|d r IH]; intros s s' Hwf Hsort HI E; cbn [mainpass] in E.
  - injection E as <-. unfold lots_value; cbn [map prepaid]. rewrite qsum_nil. ring.
  - apply sorted_cons_inv in Hsort. destruct Hsort as [Hs Hl].
    assert (Hrat : ratios_pos r) by (intros e He; apply (Hwf e (or_intror He))).
    pose proof (sorted_nodup r Hs) as Hnd.
    pose proof (Hwf d (or_introl eq_refl)) as Hwd.
    destruct (day_step w offs s d r) as [e|s1] eqn:E1; [discriminate|].
    pose proof (day_step_cost w offs s d r s1 Hwd Hrat Hnd HI E1) as Hstep.
    assert (HI1 : Inv s1 r).
    { destruct (day_step_ok w offs s d r Hwd Hrat Hnd HI) as [(_ & _ & E')|(_ & s'' & E' & HI' & _)];
        rewrite E1 in E'; [discriminate|]. injection E' as <-. exact HI'. }
    specialize (IH s1 s' (fun e He => Hwf e (or_intror He)) Hs HI1 E).
    unfold lots_value in *. cbn [map]. rewrite qsum_cons.
    clear - Hstep IH. qc2q. lra.
Qed.

(* run level: the cost of all legs plus the closing pool cost equals the adjusted cost of all purchases *)
Theorem run_cost_conservation w ds offs s : wf_days ds -> sorted_days ds ->
  prepass false [] ds = inr offs -> run w ds = inr s ->
  disp_cost (m_disp s) + m_pc s = lots_value offs ds.
Proof.
  intros Hwf Hs Hp. unfold run. rewrite Hp. intros E.
  pose proof (mainpass_cost w offs ds mst0 s Hwf Hs (Inv0 ds) E) as H.
  cbn [mst0 m_disp m_pc m_cl] in H. rewrite prepaid_nil_claims in H.
  assert (disp_cost [] = 0) as Z by reflexivity. rewrite Z in H.
  clear - H. qc2q. lra.
Qed.
