(* Awards records: a vest-date market value is preferred over the fallback price of the same record. *)
From Coq Require Import ZArith NArith List Bool Ascii String.
Require Import CGT.Model.Date CGT.Model.Dsl CGT.Model.Schwab.
Import ListNotations.

Definition vest_entry (parent : date) (d : adetail) : bool :=
  match extract d parent with Ok (Some _, Some _, true) => true | _ => false end.

Lemma award_details_spec sym parent ds : forall m fb ins m1 fb1 ins1,
  award_details sym parent ds m fb ins = Ok (m1, fb1, ins1) ->
  ins1 = ins || existsb (vest_entry parent) ds /\ (existsb (vest_entry parent) ds = false -> m1 = m) /\
  (fb <> None -> fb1 = fb).
Proof.
  induction ds as [|d r IH]; intros m fb ins m1 fb1 ins1 H; cbn [award_details existsb] in *.
  - injection H as <- <- <-. rewrite orb_false_r. split; [reflexivity|]. split; intros _; reflexivity.
  - destruct (extract d parent) as [x|e] eqn:Ex; [|discriminate H].
    destruct x as [[od ofv] v]. destruct od as [dt|]; [destruct ofv as [f|]|].
    + destruct (IH _ _ _ _ _ _ H) as (A & B & C). destruct v.
      * assert (Hv : vest_entry parent d = true) by (unfold vest_entry; rewrite Ex; reflexivity). rewrite Hv. cbn [orb].
        split; [rewrite A; destruct ins; reflexivity|]. split; [intros X; discriminate X|].
        intros Hfb. destruct fb as [y|]; [apply C; discriminate|congruence].
      * assert (Hv : vest_entry parent d = false) by (unfold vest_entry; rewrite Ex; reflexivity). rewrite Hv. cbn [orb].
        rewrite orb_false_r in A. split; [exact A|]. split; [exact B|]. intros Hfb. destruct fb as [y|]; [apply C; discriminate|congruence].
    + assert (Hv : vest_entry parent d = false) by (unfold vest_entry; rewrite Ex; reflexivity). rewrite Hv. cbn [orb].
      destruct (IH _ _ _ _ _ _ H) as (A & B & C). repeat split; assumption.
    + assert (Hv : vest_entry parent d = false) by (unfold vest_entry; rewrite Ex; destruct ofv; reflexivity). rewrite Hv. cbn [orb].
      destruct (IH _ _ _ _ _ _ H) as (A & B & C). repeat split; assumption.
Qed.

(* one record: with a vest-specific detail the fallback price is not stored; without one, exactly the first fallback is *)
Theorem record_prefers_vest a r m m' parent : award_date (aw_date a) = Ok parent -> aw_details a <> [] ->
  build_awards (a :: r) m = Ok m' ->
  exists m1 fb ins, award_details (upper_text (aw_symbol a)) parent (aw_details a) m None false = Ok (m1, fb, ins) /\
    ins = existsb (vest_entry parent) (aw_details a) /\
    build_awards r (if ins then m1 else match fb with Some (dt, f) => amap_put m (upper_text (aw_symbol a), days_of_civil dt) f | None => m end) = Ok m'.
Proof.
  intros Hd Hne H. cbn [build_awards] in H. rewrite Hd in H. destruct (aw_details a) as [|d0 ds0] eqn:Eds; [congruence|].
  destruct (award_details (upper_text (aw_symbol a)) parent (d0 :: ds0) m None false) as [[[m1 fb] ins]|e] eqn:E; [|discriminate].
  destruct (award_details_spec _ _ _ _ _ _ _ _ _ E) as (A & B & _). cbn [orb] in A.
  exists m1, fb, ins. split; [reflexivity|]. split; [exact A|].
  destruct ins; [exact H|]. rewrite (B (eq_sym A)) in H. exact H.
Qed.
