(* Facts about the normalisation Agg: permutation invariance of a day record, projection. *)
From Coq Require Import QArith Qcanon ZArith List Bool String Permutation Lia.
Require Import CGT.Model.Num CGT.Model.Ledger CGT.Model.Match CGT.Model.Agg CGT.Proofs.NumFacts.
Import ListNotations.
Open Scope Qc_scope.

Lemma qsum_perm l l' : Permutation l l' -> qsum l = qsum l'.
Proof.
  induction 1 as [|x l l' _ IH|x y l|l l' l'' _ IH1 _ IH2]; rewrite ?qsum_cons.
  - reflexivity.
  - rewrite IH. reflexivity.
  - ring.
  - congruence.
Qed.
Lemma qprod_cons x l : qprod (x :: l) = x * qprod l. Proof. reflexivity. Qed.
Lemma qprod_perm l l' : Permutation l l' -> qprod l = qprod l'.
Proof.
  induction 1 as [|x l l' _ IH|x y l|l l' l'' _ IH1 _ IH2]; rewrite ?qprod_cons.
  - reflexivity.
  - rewrite IH. reflexivity.
  - ring.
  - congruence.
Qed.
Lemma existsb_perm {A} (f : A -> bool) l l' : Permutation l l' -> existsb f l = existsb f l'.
Proof.
  induction 1 as [|x l l' _ IH|x y l|l l' l'' _ IH1 _ IH2]; cbn [existsb].
  - reflexivity.
  - rewrite IH. reflexivity.
  - destruct (f x), (f y); reflexivity.
  - congruence.
Qed.
Lemma filter_perm {A} (f : A -> bool) l l' : Permutation l l' -> Permutation (filter f l) (filter f l').
Proof.
  induction 1 as [|x l l' _ IH|x y l|l l' l'' _ IH1 _ IH2]; cbn [filter].
  - constructor.
  - destruct (f x); [constructor|]; exact IH.
  - destruct (f x), (f y); try apply perm_swap; apply Permutation_refl.
  - eapply perm_trans; eassumption.
Qed.

(* every field of a day record except the event list is invariant under permutation *)
Lemma mk_day_perm l l' z : Permutation l l' ->
  let a := mk_day l z in let b := mk_day l' z in
  dt a = dt b /\ bq a = bq b /\ bcost a = bcost b /\ hasbuy a = hasbuy b /\
  sq a = sq b /\ sgross a = sgross b /\ sfees a = sfees b /\ hassell a = hassell b /\ ratio a = ratio b.
Proof.
  intros H. cbn zeta. unfold mk_day; cbn [dt bq bcost hasbuy sq sgross sfees hassell ratio].
  assert (P : Permutation (map t_op (filter (on_date z) l)) (map t_op (filter (on_date z) l'))).
  { apply Permutation_map. apply filter_perm. exact H. }
  repeat split;
    try (apply qsum_perm; apply Permutation_map; exact P);
    try (apply existsb_perm; exact P).
  apply qprod_perm; apply Permutation_map; exact P.
Qed.

(* projection onto one security is idempotent: another security's lines never enter its days *)
Lemma filter_idem {A} (f : A -> bool) l : filter f (filter f l) = filter f l.
Proof.
  induction l as [|x l IH]; cbn [filter]; [reflexivity|].
  destruct (f x) eqn:E; cbn [filter]; rewrite ?E, IH; reflexivity.
Qed.
Lemma days_of_tick_proj l s : days_of_tick (filter (of_tick s) l) s = days_of_tick l s.
Proof. unfold days_of_tick. rewrite filter_idem. reflexivity. Qed.

Lemma filter_app_other {A} (f : A -> bool) l l' : (forall x, In x l' -> f x = false) -> filter f (l ++ l') = filter f l.
Proof.
  intros H. rewrite filter_app. assert (filter f l' = []) as ->.
  { induction l' as [|x r IH]; cbn [filter]; [reflexivity|]. rewrite (H x (or_introl eq_refl)). apply IH.
    intros y Hy. apply H. right. exact Hy. }
  apply app_nil_r.
Qed.
(* adding lines of other securities leaves the days of s unchanged *)
Lemma days_of_tick_other l l' s : (forall t, In t l' -> of_tick s t = false) ->
  days_of_tick (l ++ l') s = days_of_tick l s.
Proof. intros H. unfold days_of_tick. rewrite filter_app_other by exact H. reflexivity. Qed.

(* SPLIT r followed by UNSPLIT r: the day's ratio is unchanged *)
Lemma ratio_split_unsplit r : r <> 0 -> ratio_of (Split r) * ratio_of (Unsplit r) = 1.
Proof.
  intros H. cbn [ratio_of]. destruct (qeqb_spec r 0) as [E|E]; [contradiction|].
  field. exact H.
Qed.
