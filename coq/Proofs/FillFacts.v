(* Fills: recording one purchase or sale as two same-day fills of the same security with the same total quantity,
   consideration and fees leaves every day record, hence the whole report, unchanged. *)
From Coq Require Import QArith Qcanon ZArith List Bool String Permutation Lia.
Require Import CGT.Model.Num CGT.Model.Date CGT.Model.Ledger CGT.Model.Match CGT.Model.Agg CGT.Model.Report
  CGT.Proofs.NumFacts CGT.Proofs.AggFacts CGT.Proofs.SortFacts CGT.Proofs.LedgerFacts.
Import ListNotations.
Open Scope Qc_scope.

(* t is replaced by the two fills t1, t2 *)
Record fills (t t1 t2 : gtxn) : Prop := {
  f_date1 : t_date t1 = t_date t; f_date2 : t_date t2 = t_date t;
  f_tick1 : t_tick t1 = t_tick t; f_tick2 : t_tick t2 = t_tick t;
  f_bq : buy_q (t_op t1) + buy_q (t_op t2) = buy_q (t_op t);
  f_bc : buy_cost (t_op t1) + buy_cost (t_op t2) = buy_cost (t_op t);
  f_sq : sell_q (t_op t1) + sell_q (t_op t2) = sell_q (t_op t);
  f_sg : sell_gross (t_op t1) + sell_gross (t_op t2) = sell_gross (t_op t);
  f_sf : sell_fees (t_op t1) + sell_fees (t_op t2) = sell_fees (t_op t);
  f_ib : is_buy (t_op t1) || is_buy (t_op t2) = is_buy (t_op t);
  f_is : is_sell (t_op t1) || is_sell (t_op t2) = is_sell (t_op t);
  f_ev : evs_of (t_op t1) ++ evs_of (t_op t2) = evs_of (t_op t);
  f_ra : ratio_of (t_op t1) * ratio_of (t_op t2) = ratio_of (t_op t);
  f_di : div_income (t_op t1) + div_income (t_op t2) = div_income (t_op t);
  f_dt : div_tax (t_op t1) + div_tax (t_op t2) = div_tax (t_op t) }.

(* the two cases the property names *)
Lemma buy_fills d s q p f q1 p1 f1 q2 p2 f2 : q1 + q2 = q -> q1 * p1 + q2 * p2 = q * p -> f1 + f2 = f ->
  fills {| t_date := d; t_tick := s; t_op := Buy q p f |} {| t_date := d; t_tick := s; t_op := Buy q1 p1 f1 |} {| t_date := d; t_tick := s; t_op := Buy q2 p2 f2 |}.
Proof.
  intros Hq Hc Hf. constructor; cbn [t_date t_tick t_op buy_q buy_cost sell_q sell_gross sell_fees is_buy is_sell evs_of ratio_of div_income div_tax app];
    try reflexivity; try ring; try exact Hq.
  rewrite <- Hc, <- Hf. ring.
Qed.
Lemma sell_fills d s q p f q1 p1 f1 q2 p2 f2 : q1 + q2 = q -> q1 * p1 + q2 * p2 = q * p -> f1 + f2 = f ->
  fills {| t_date := d; t_tick := s; t_op := Sell q p f |} {| t_date := d; t_tick := s; t_op := Sell q1 p1 f1 |} {| t_date := d; t_tick := s; t_op := Sell q2 p2 f2 |}.
Proof.
  intros Hq Hc Hf. constructor; cbn [t_date t_tick t_op buy_q buy_cost sell_q sell_gross sell_fees is_buy is_sell evs_of ratio_of div_income div_tax app];
    try reflexivity; try ring; try exact Hq; try exact Hc; try exact Hf.
Qed.

Section F.
  Context (t t1 t2 : gtxn) (Hf : fills t t1 t2) (a b : list gtxn).
  Let l := a ++ t :: b.
  Let l' := a ++ t1 :: t2 :: b.

  Lemma filter_fill (p : gtxn -> bool) : p t1 = p t -> p t2 = p t ->
    filter p l = filter p a ++ (if p t then [t] else []) ++ filter p b /\
    filter p l' = filter p a ++ (if p t then [t1; t2] else []) ++ filter p b.
  Proof.
    intros H1 H2. unfold l, l'. rewrite !filter_app. cbn [filter]. rewrite H1, H2. destruct (p t); split; reflexivity.
  Qed.

  Lemma of_tick_fill s : of_tick s t1 = of_tick s t /\ of_tick s t2 = of_tick s t.
  Proof. unfold of_tick. rewrite (f_tick1 _ _ _ Hf), (f_tick2 _ _ _ Hf). split; reflexivity. Qed.
  Lemma on_date_fill z : on_date z t1 = on_date z t /\ on_date z t2 = on_date z t.
  Proof. unfold on_date. rewrite (f_date1 _ _ _ Hf), (f_date2 _ _ _ Hf). split; reflexivity. Qed.

  Lemma mk_day_fill s z : mk_day (filter (of_tick s) l) z = mk_day (filter (of_tick s) l') z.
  Proof.
    destruct (of_tick_fill s) as [T1 T2]. destruct (filter_fill (of_tick s) T1 T2) as [E E']. rewrite E, E'.
    destruct (of_tick s t); [|reflexivity].
    destruct (on_date_fill z) as [D1 D2]. unfold mk_day. rewrite !filter_app. cbn [filter app]. rewrite D1, D2.
    destruct (on_date z t); [|reflexivity].
    rewrite !map_app. cbn [map]. set (A := map t_op (filter (on_date z) (filter (of_tick s) a))). set (B := map t_op (filter (on_date z) (filter (of_tick s) b))).
    rewrite ?map_app, !qsum_app, !existsb_app, !flat_map_app. cbn [map existsb flat_map app]. rewrite !qsum_cons.
    assert (Hp : forall X Y x y, qprod (X ++ x :: y :: Y) = qprod (X ++ (x * y) :: Y)).
    { intros X Y x y. induction X as [|u r IH]; cbn [app]; rewrite ?qprod_cons; [ring|rewrite IH; reflexivity]. }
    rewrite Hp. f_equal.
    - rewrite <- (f_bq _ _ _ Hf). ring.
    - rewrite <- (f_bc _ _ _ Hf). ring.
    - rewrite <- (f_ib _ _ _ Hf). destruct (is_buy (t_op t1)); destruct (is_buy (t_op t2)); cbn [orb]; reflexivity.
    - rewrite <- (f_sq _ _ _ Hf). ring.
    - rewrite <- (f_sg _ _ _ Hf). ring.
    - rewrite <- (f_sf _ _ _ Hf). ring.
    - rewrite <- (f_is _ _ _ Hf). destruct (is_sell (t_op t1)); destruct (is_sell (t_op t2)); cbn [orb]; reflexivity.
    - rewrite <- (f_ev _ _ _ Hf), app_nil_r, <- !app_assoc. reflexivity.
    - rewrite (f_ra _ _ _ Hf). reflexivity.
  Qed.
End F.

Section F2.
  Context (t t1 t2 : gtxn) (Hf : fills t t1 t2) (a b : list gtxn).
  Let l := a ++ t :: b.
  Let l' := a ++ t1 :: t2 :: b.

  Lemma in_map_fill {B} (g : gtxn -> B) (p : gtxn -> bool) : g t1 = g t -> g t2 = g t -> p t1 = p t -> p t2 = p t ->
    forall y, In y (map g (filter p l)) <-> In y (map g (filter p l')).
  Proof.
    intros G1 G2 P1 P2 y. destruct (filter_fill t t1 t2 a b p P1 P2) as [E E']. fold l in E. fold l' in E'. rewrite E, E'.
    rewrite !map_app, !in_app_iff. destruct (p t); cbn [map In]; rewrite ?G1, ?G2; tauto.
  Qed.

  Lemma days_of_tick_fill s : days_of_tick l s = days_of_tick l' s.
  Proof.
    unfold days_of_tick, days_of.
    assert (Ed : dates_of (filter (of_tick s) l) = dates_of (filter (of_tick s) l')).
    { unfold dates_of. apply (sort_uniq_set Z.compare Zcmp_eq Zcmp_antisym Zcmp_trans).
      destruct (of_tick_fill t t1 t2 Hf s) as [T1 T2].
      apply (in_map_fill t_date (of_tick s) (f_date1 _ _ _ Hf) (f_date2 _ _ _ Hf) T1 T2). }
    rewrite <- Ed. apply map_ext. intros z. apply (mk_day_fill t t1 t2 Hf a b s z).
  Qed.

  Lemma tickers_of_fill : tickers_of l = tickers_of l'.
  Proof.
    unfold tickers_of. apply (sort_uniq_set String.compare str_cmp_eq str_cmp_antisym str_cmp_trans). intros y.
    pose proof (in_map_fill t_tick (fun _ => true) (f_tick1 _ _ _ Hf) (f_tick2 _ _ _ Hf) eq_refl eq_refl y) as H.
    assert (Ft : forall x : list gtxn, filter (fun _ => true) x = x) by (intros x; induction x as [|u r IH]; cbn [filter]; [reflexivity|rewrite IH; reflexivity]).
    rewrite !Ft in H. exact H.
  Qed.

  Lemma eval_all_fill P : eval_all P l = eval_all P l'.
  Proof.
    unfold eval_all. rewrite <- tickers_of_fill. apply map_ext. intros s. unfold eval_tick. rewrite (days_of_tick_fill s). reflexivity.
  Qed.

  Lemma dividends_of_fill P y : dividends_of P l y = dividends_of P l' y.
  Proof.
    unfold dividends_of. cbv zeta.
    assert (P1 : in_year P y (t_date t1) = in_year P y (t_date t)) by (rewrite (f_date1 _ _ _ Hf); reflexivity).
    assert (P2 : in_year P y (t_date t2) = in_year P y (t_date t)) by (rewrite (f_date2 _ _ _ Hf); reflexivity).
    destruct (filter_fill t t1 t2 a b (fun t0 : txn Qc => in_year P y (t_date t0)) P1 P2) as [E E']. fold l in E. fold l' in E'. unfold gtxn in *. rewrite E, E'.
    set (p := in_year P y (t_date t)).
    destruct p; [|reflexivity]. rewrite !map_app, !qsum_app. cbn [map app]. rewrite !qsum_cons, qsum_nil.
    f_equal; [rewrite <- (f_di _ _ _ Hf)|rewrite <- (f_dt _ _ _ Hf)]; ring.
  Qed.

  (* the whole report *)
  Theorem report_of_fill P cfg yf : report_of P cfg yf l = report_of P cfg yf l'.
  Proof.
    unfold report_of. rewrite <- (eval_all_fill P).
    destruct (sec_errors (eval_all P l)); [|reflexivity].
    assert (Hy : forall ex y ds, mk_ysum P l ex y ds = mk_ysum P l' ex y ds) by (intros ex y ds; unfold mk_ysum; rewrite (dividends_of_fill P y); reflexivity).
    destruct yf as [y|].
    - destruct (negb (year_range_ok P y)); [reflexivity|]. destruct (lookup_ex cfg y); [|reflexivity].
      unfold ysum_filtered. rewrite Hy. reflexivity.
    - destruct (bad_year_errors P _); [|reflexivity]. destruct (ex_errors cfg _); [|reflexivity].
      f_equal. f_equal. apply map_ext. intros y. unfold ysum_for. apply Hy.
  Qed.
End F2.
