(* The 30-day look-ahead is greedy, earliest first: it moves on to a later acquisition, or falls through to the pool,
   only when the earlier in-window acquisitions have no free shares left. *)
From Coq Require Import QArith Qcanon ZArith List Bool Lqa Lia Sorted.
Require Import CGT.Model.Num CGT.Model.Match CGT.Proofs.NumFacts CGT.Proofs.MatchFacts CGT.Proofs.MatchInv.
Import ListNotations.
Open Scope Qc_scope.

Lemma free_of_claim e cl cl' : claim_of cl' (dt e) = claim_of cl (dt e) -> free_of e cl' = free_of e cl.
Proof. unfold free_of. intros ->. reflexivity. Qed.

Lemma free_of_nonneg e cl : 0 <= free_of e cl.
Proof. unfold free_of. destruct (qmax_cases 0 (bq e - qmin (bq e) (qmax 0 (sq' e)) - claim_of cl (dt e))) as [[A ->]|[A ->]]; qc2q; lra. Qed.

(* one candidate: if some of the disposal is still unmatched afterwards, the candidate is used up *)
Lemma bnb_step_exhaust offs d e R rem cl : 0 <= rem -> 0 < R -> hasbuy e = true ->
  0 < b_rem (bnb_step offs d e R rem cl) -> free_of e (b_cl (bnb_step offs d e R rem cl)) = 0.
Proof.
  intros Hrem HR Hb. unfold bnb_step. rewrite Hb. cbn [andb].
  pose proof (free_of_nonneg e cl) as Hnn.
  destruct (qltb_spec 0 (free_of e cl)) as [Hf|Hf]; cbn [b_rem b_cl bres0].
  - intros Hpos. set (free := free_of e cl) in *.
    assert (Hms : qmin rem (free / R) = free / R).
    { destruct (qmin_cases rem (free / R)) as [[Hm E]|[Hm E]]; [|exact E]. exfalso. rewrite E in Hpos.
      assert (X : rem - rem = 0) by ring. rewrite X in Hpos. clear -Hpos. qc2q; lra. }
    assert (Hdiv : free / R * R = free) by (field; intro E; subst R; clear -HR; qc2q; lra).
    rewrite Hms, Hdiv. unfold free_of. rewrite claim_of_cons, Z.eqb_refl.
    unfold free, free_of in Hf |- *.
    set (cap := bq e - qmin (bq e) (qmax 0 (sq' e))) in *. set (c := claim_of cl (dt e)) in *.
    destruct (qmax_cases 0 (cap - c)) as [[A E]|[A E]]; rewrite E in *; [|exfalso; clear -Hf; qc2q; lra].
    replace (cap - (cap - c + c)) with 0 by ring. destruct (qmax_cases 0 0) as [[_ ->]|[_ ->]]; reflexivity.
  - intros _. apply Qcle_antisym; [|exact Hnn]. qc2q; lra.
Qed.

(* if anything of the disposal is left for the pool, every acquisition in the window has been used up *)
Theorem bnb_exhaustive w offs d fut : forall R rem cl, 0 <= rem -> 0 < R -> ratios_pos fut -> sorted_days fut ->
  0 < b_rem (bnb w offs d fut R rem cl) ->
  forall e, In e fut -> hasbuy e = true -> (dt e - dt d <= w)%Z -> free_of e (b_cl (bnb w offs d fut R rem cl)) = 0.
Proof.
  induction fut as [|e' r IH]; intros R rem cl Hrem HR Hrat Hs Hpos e He Hb Hw; [destruct He|].
  destruct (sorted_cons_inv e' r Hs) as [Hs' Hl].
  cbn [bnb] in Hpos |- *.
  destruct (qltb_spec 0 rem) as [Hr|Hr]; cbn [negb] in Hpos |- *; [|cbn [b_rem bres0] in Hpos; exfalso; qc2q; lra].
  destruct (dt e' - dt d >? w)%Z eqn:Ew.
  { exfalso. destruct He as [<-|He]; [lia|]. specialize (Hl e He). lia. }
  rewrite (bnb_step_nocrash offs d e' R rem cl HR) in Hpos |- *. cbn [b_rem b_cl] in Hpos |- *.
  assert (HR2 : 0 < R * ratio e') by (apply Qc_mul_pos; [exact HR|apply Hrat; left; reflexivity]).
  assert (Hrat' : ratios_pos r) by (intros x Hx; apply Hrat; right; exact Hx).
  destruct (bnb_step_rem offs d e' R rem cl Hrem HR) as [H1 H1'].
  destruct (bnb_rem w offs d r (R * ratio e') (b_rem (bnb_step offs d e' R rem cl)) (b_cl (bnb_step offs d e' R rem cl)) H1 HR2 Hrat') as [H2 H2'].
  destruct He as [<-|He].
  - (* the head: used up by its own step, untouched afterwards *)
    assert (Hnot : ~ In (dt e') (dates r)).
    { intros Hin. apply in_map_iff in Hin. destruct Hin as (x & Ex & Hx). specialize (Hl x Hx). lia. }
    rewrite (free_of_claim e' (b_cl (bnb_step offs d e' R rem cl)) _ (bnb_cl_other w offs d r _ _ _ (dt e') Hnot)).
    apply bnb_step_exhaust; try assumption. qc2q; lra.
  - apply IH; assumption.
Qed.

(* earliest first: a leg identified with a later acquisition means every earlier acquisition in the list is used up *)
Lemma bnb_no_legs w offs d fut : forall R rem cl, rem <= 0 -> b_legs (bnb w offs d fut R rem cl) = [].
Proof.
  destruct fut as [|e r]; intros R rem cl H; cbn [bnb]; [reflexivity|].
  destruct (qltb_spec 0 rem) as [Hr|Hr]; [exfalso; qc2q; lra|reflexivity].
Qed.

Theorem bnb_earliest_first w offs d pre e1 post : forall R rem cl, 0 <= rem -> 0 < R ->
  ratios_pos (pre ++ e1 :: post) -> sorted_days (pre ++ e1 :: post) -> hasbuy e1 = true ->
  (exists l z, In l (b_legs (bnb w offs d (pre ++ e1 :: post) R rem cl)) /\ lg_acq l = Some z /\ In z (dates post)) ->
  free_of e1 (b_cl (bnb w offs d (pre ++ e1 :: post) R rem cl)) = 0.
Proof.
  induction pre as [|p pre IH]; intros R rem cl Hrem HR Hrat Hs Hb (l & z & Hl & Hacq & Hz); cbn [app] in *.
  - destruct (sorted_cons_inv e1 post Hs) as [Hs' Hlater].
    cbn [bnb] in Hl |- *.
    destruct (qltb_spec 0 rem) as [Hr|Hr]; cbn [negb] in Hl |- *; [|destruct Hl].
    destruct (dt e1 - dt d >? w)%Z; [destruct Hl|].
    rewrite (bnb_step_nocrash offs d e1 R rem cl HR) in Hl |- *. cbn [b_legs b_cl] in Hl |- *.
    assert (Hnot : ~ In (dt e1) (dates post)).
    { intros Hin. apply in_map_iff in Hin. destruct Hin as (x & Ex & Hx). specialize (Hlater x Hx). lia. }
    rewrite (free_of_claim e1 (b_cl (bnb_step offs d e1 R rem cl)) _ (bnb_cl_other w offs d post _ _ _ (dt e1) Hnot)).
    apply bnb_step_exhaust; try assumption.
    (* the leg of the later acquisition comes from the rest of the loop, which therefore still had something to match *)
    apply in_app_or in Hl. destruct Hl as [Hl|Hl].
    + apply bnb_step_legs in Hl. destruct Hl as (_ & A & _). rewrite Hacq in A. injection A as ->. contradiction.
    + destruct (bnb_step_rem offs d e1 R rem cl Hrem HR) as [H1 _].
      destruct (qltb_spec 0 (b_rem (bnb_step offs d e1 R rem cl))) as [P|P]; [exact P|].
      rewrite bnb_no_legs in Hl by (qc2q; lra). destruct Hl.
  - destruct (sorted_cons_inv p (pre ++ e1 :: post) Hs) as [Hs' Hlater].
    cbn [bnb] in Hl |- *.
    destruct (qltb_spec 0 rem) as [Hr|Hr]; cbn [negb] in Hl |- *; [|destruct Hl].
    destruct (dt p - dt d >? w)%Z; [destruct Hl|].
    rewrite (bnb_step_nocrash offs d p R rem cl HR) in Hl |- *. cbn [b_legs b_cl] in Hl |- *.
    assert (HR2 : 0 < R * ratio p) by (apply Qc_mul_pos; [exact HR|apply Hrat; left; reflexivity]).
    destruct (bnb_step_rem offs d p R rem cl Hrem HR) as [H1 _].
    apply IH; try assumption; [intros x Hx; apply Hrat; right; exact Hx|].
    apply in_app_or in Hl. destruct Hl as [Hl|Hl]; [|exists l, z; auto].
    exfalso. apply bnb_step_legs in Hl. destruct Hl as (_ & A & _). rewrite Hacq in A. injection A as ->.
    apply in_map_iff in Hz. destruct Hz as (x & Ex & Hx).
    assert (In x (pre ++ e1 :: post)) by (apply in_or_app; right; right; exact Hx). specialize (Hlater x H). lia.
Qed.
