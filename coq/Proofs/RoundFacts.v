(* Rounding to n decimal places (half to even, as Decimal::round_dp) moves a value by at most half a unit
   in the last place. *)
From Coq Require Import QArith Qcanon Qround ZArith List Bool Lqa Lia.
Require Import CGT.Model.Num CGT.Proofs.NumFacts.
Open Scope Qc_scope.

Lemma pow10_pos n : (0 < pow10 n)%Z.
Proof. unfold pow10. apply Z.pow_pos_nonneg; lia. Qed.

Lemma this_of_Z z : (this (Qc_of_Z z) == inject_Z z)%Q.
Proof. unfold Qc_of_Z, Q2Qc; cbn [this]. apply Qred_correct. Qed.
Lemma this_half : (this (Q2Qc (1 # 2)) == 1 # 2)%Q.
Proof. unfold Q2Qc; cbn [this]. apply Qred_correct. Qed.

(* the integer chosen: within one half of the scaled magnitude *)
Lemma half_even_choice (a : Q) (f : Z) (up : bool) : (0 <= a)%Q -> f = Qfloor a ->
  (up = true -> (1 # 2 <= a - inject_Z f)%Q) -> (up = false -> (a - inject_Z f <= 1 # 2)%Q) ->
  (- (1 # 2) <= inject_Z (if up then f + 1 else f)%Z - a <= 1 # 2)%Q.
Proof.
  intros Ha Ef Hup Hdown. pose proof (Qfloor_le a) as L. pose proof (Qlt_floor a) as U. rewrite <- Ef in L, U.
  rewrite inject_Z_plus in U. change (inject_Z 1) with 1%Q in U.
  destruct up.
  - specialize (Hup eq_refl). rewrite inject_Z_plus. change (inject_Z 1) with 1%Q. split; lra.
  - specialize (Hdown eq_refl). split; lra.
Qed.

Theorem round_half_even_close n x :
  let u := Qc_of_Z 1 / (Qc_of_Z 2 * Qc_of_Z (pow10 n)) in
  - u <= round_half_even n x - x /\ round_half_even n x - x <= u.
Proof.
  cbn zeta. unfold round_half_even.
  set (s := Qc_of_Z (pow10 n)). set (a := qabs x * s). set (f := qfloor a).
  set (h := Q2Qc (1 # 2)). set (fr := a - Qc_of_Z f).
  set (up := if qltb h fr then true else if qeqb fr h then Z.odd f else false).
  assert (Hs : (0 < this s)%Q).
  { unfold s. rewrite this_of_Z. change 0%Q with (inject_Z 0). rewrite <- Zlt_Qlt. apply pow10_pos. }
  assert (Habs : 0 <= qabs x) by (unfold qabs; destruct (qleb_spec 0 x); [assumption|qc2q; lra]).
  assert (Ha : (0 <= this a)%Q).
  { unfold a. rewrite this_mult. unfold Qcle in Habs. change (this 0) with 0%Q in Habs. nra. }
  assert (Hch : (- (1 # 2) <= inject_Z (if up then f + 1 else f)%Z - this a <= 1 # 2)%Q).
  { apply half_even_choice; [exact Ha|reflexivity| |].
    - unfold up. destruct (qltb_spec h fr) as [P|NP].
      + intros _. unfold Qclt, fr, h in P. rewrite this_minus, this_of_Z, this_half in P. lra.
      + destruct (qeqb_spec fr h) as [E|NE]; [|discriminate]. intros _. apply Qc_eq_iff in E. unfold fr, h in E.
        rewrite this_minus, this_of_Z, this_half in E. lra.
    - unfold up. destruct (qltb_spec h fr) as [P|NP]; [discriminate|]. intros _.
      assert (fr <= h) as Hle by (unfold Qcle, Qclt in *; lra). unfold Qcle, fr, h in Hle.
      rewrite this_minus, this_of_Z, this_half in Hle. lra. }
  set (k := (if up then f + 1 else f)%Z) in *.
  set (e := ((1 # 2) / this s)%Q).
  assert (Es : (e * this s == 1 # 2)%Q) by (unfold e; field; lra).
  assert (Hr : (- e <= this (Qc_of_Z k / s) - this (qabs x) <= e)%Q).
  { rewrite this_div, this_of_Z. unfold a in Hch. rewrite this_mult in Hch.
    set (t := (inject_Z k / this s - this (qabs x))%Q).
    assert (Ts : (t * this s == inject_Z k - this (qabs x) * this s)%Q) by (unfold t; field; lra).
    split; nra. }
  assert (Hu : (this (Qc_of_Z 1 / (Qc_of_Z 2 * s)) == e)%Q).
  { unfold e. rewrite this_div, this_mult, !this_of_Z. field. lra. }
  unfold qabs in Hr. unfold Qcle. rewrite !this_minus, !this_opp, Hu.
  destruct (qleb_spec 0 x) as [Px|Nx].
  - lra.
  - rewrite this_opp in Hr. rewrite !this_opp. split; lra.
Qed.
