(* Layout: a transaction list written with any blanks between tokens, leading blanks, trailing blanks and comments,
   blank and comment lines, omitted GBP, any line terminators and any letter case is read back as the same list. *)
From Coq Require Import ZArith NArith List Bool Ascii String Lia.
Require Import CGT.Model.Date CGT.Model.Dsl CGT.Proofs.DslFacts CGT.Proofs.DecFacts CGT.Proofs.DslRound CGT.Proofs.DslCase.
Import ListNotations.
Open Scope N_scope.

Definition blank (w : text) : Prop := forallb is_ws w = true.
(* what may follow a token: the end of the segment, a blank or a comment *)
Definition ends' (rest : text) : Prop := match rest with [] => True | c :: _ => is_ws c = true \/ is_hash c = true end.

Lemma ws_hash_class c : is_ws c = true \/ is_hash c = true ->
  is_alnum c = false /\ is_digit c = false /\ code c <> 46 /\ code c <> 45 /\ is_lower c = false /\ code c < 65.
Proof. intros [H|H]; repeat split; revert H; cls. Qed.

Lemma ends'_stops rest : ends' rest -> stops rest.
Proof. destruct rest as [|c r]; [intros _; exact I|]. intros H. destruct (ws_hash_class c H) as (_ & D & P & _). split; assumption. Qed.
Lemma ends'_nil : ends' []. Proof. exact I. Qed.
Lemma ends'_blank w rest : blank w -> w <> [] -> ends' (w ++ rest).
Proof. destruct w as [|c r]; [congruence|]. intros H _. cbn [app ends']. left. unfold blank in H. cbn [forallb] in H. apply andb_true_iff in H. apply H. Qed.
Lemma ends'_app_blank w rest : blank w -> ends' rest -> ends' (w ++ rest).
Proof. destruct w as [|c r]; [intros _ H; exact H|]. intros H _. cbn [app ends']. left. unfold blank in H. cbn [forallb] in H. apply andb_true_iff in H. apply H. Qed.

Lemma skip_w_tok w t rest : blank w -> tok t -> skip (w ++ t ++ rest) = t ++ rest.
Proof. intros Hw Ht. rewrite skip_ws_prefix by exact Hw. apply skip_tok. exact Ht. Qed.

Lemma span_app' (p : ascii -> bool) s rest : forallb p s = true -> (forall c, is_ws c = true \/ is_hash c = true -> p c = false) ->
  ends' rest -> span p (s ++ rest) = (s, rest).
Proof.
  intros H Hp He. apply span_app; [exact H|]. destruct rest as [|c r]; [exact I|]. apply Hp. exact He.
Qed.

Lemma p_ticker_lay t rest : wf_tick t -> ends' rest -> p_ticker (t ++ rest) = POk t None rest.
Proof.
  intros (Hne & Ha & Hl) He. unfold p_ticker.
  rewrite (span_app' is_alnum t rest Ha (fun c H => proj1 (ws_hash_class c H)) He).
  cbn [fst snd]. destruct t as [|c r]; [congruence|]. rewrite upper_text_id by exact Hl. reflexivity.
Qed.
Lemma p_decimal_lay d rest : dec_ok d = true -> ends' rest -> p_decimal (print_dec d ++ rest) = POk d None rest.
Proof.
  intros Hd He. destruct (lex_print_dec d rest Hd (ends'_stops rest He)) as (ip & fp & E1 & E2).
  unfold p_decimal. rewrite E1, E2. reflexivity.
Qed.

Section L.
  Context (vc : text -> bool).

  Lemma starts_kw4' k1 k2 k3 k4 kr a b e rest : ends' rest -> 65 <= code k4 ->
    starts_kw (k1 :: k2 :: k3 :: k4 :: kr) (a :: b :: e :: rest) = false.
  Proof.
    intros He Hk. unfold starts_kw. cbn [kw_prefix].
    destruct (code (upper a) =? code k1); [|reflexivity]. destruct (code (upper b) =? code k2); [|reflexivity].
    destruct (code (upper e) =? code k3); [|reflexivity].
    destruct rest as [|x r]; cbn [kw_prefix]; [reflexivity|].
    destruct (ws_hash_class x He) as (_ & _ & _ & _ & Lx & Cx). rewrite (upper_id x Lx).
    destruct (N.eqb_spec (code x) (code k4)) as [E|]; [|reflexivity]. exfalso. lia.
  Qed.

  Lemma lex_currency_lay c rest : wf_cur vc c -> ends' rest -> lex_currency (c ++ rest) = Some (c, rest).
  Proof.
    intros (a & b & e & -> & Ua & Ub & Ue & _ & Htax & Hbuy) He.
    pose proof (upper_not_lower a Ua) as La. pose proof (upper_not_lower b Ub) as Lb. pose proof (upper_not_lower e Ue) as Le.
    unfold lex_currency. cbn [app]. unfold KW_TAX, KW_BUY, KW_FEES, KW_TOTAL, KW_RATIO, KW_SELL, T. cbn [list_ascii_of_string].
    rewrite (starts_kw3 "T" "A" "X" a b e rest La Lb Le Htax), (starts_kw3 "B" "U" "Y" a b e rest La Lb Le Hbuy).
    rewrite (starts_kw4' "F" "E" "E" "S" [] a b e rest He ltac:(vm_compute; discriminate)).
    rewrite (starts_kw4' "T" "O" "T" "A" ["L"%char] a b e rest He ltac:(vm_compute; discriminate)).
    rewrite (starts_kw4' "R" "A" "T" "I" ["O"%char] a b e rest He ltac:(vm_compute; discriminate)).
    rewrite (starts_kw4' "S" "E" "L" "L" [] a b e rest He ltac:(vm_compute; discriminate)).
    cbn [orb]. unfold is_alpha. rewrite Ua, Ub, Ue. cbn [orb andb].
    rewrite (upper_id a La), (upper_id b Lb), (upper_id e Le).
    destruct rest as [|x r]; [reflexivity|]. destruct (ws_hash_class x He) as (A & _ & _ & M & _).
    rewrite A. apply N.eqb_neq in M. rewrite M. reflexivity.
  Qed.

  (* an amount with its currency code, or - for pounds only, where nothing that reads as a code follows - without *)
  Definition nocur (rest : text) : Prop := lex_currency (skip rest) = None.
  Fixpoint teqb (x y : text) : bool :=
    match x, y with
    | [], [] => true
    | a :: x', b :: y' => (code a =? code b) && teqb x' y'
    | _, _ => false
    end.
  Lemma teqb_eq x : forall y, teqb x y = true -> x = y.
  Proof.
    induction x as [|a x IH]; intros [|b y] H; cbn [teqb] in H; try discriminate; [reflexivity|].
    apply andb_true_iff in H. destruct H as [H1 H2]. apply N.eqb_eq in H1. rewrite (code_inj _ _ H1), (IH y H2). reflexivity.
  Qed.

  Definition money_lay (omit : bool) (w : text) (m : money) : text :=
    print_dec (m_amt m) ++ (if omit && teqb (m_cur m) GBP then [] else w ++ m_cur m).

  Lemma p_money_lay omit w m rest : wf_money vc m -> blank w -> w <> [] -> ends' rest -> nocur rest ->
    p_money vc (money_lay omit w m ++ rest) = POk m None rest.
  Proof.
    intros [Hd Hc] Hw Hne He Hn. unfold money_lay, p_money. rewrite <- app_assoc.
    destruct (omit && teqb (m_cur m) GBP) eqn:Eo.
    - apply andb_true_iff in Eo. destruct Eo as [_ Eg]. apply teqb_eq in Eg. cbn [app].
      rewrite (p_decimal_lay (m_amt m) rest Hd He). unfold nocur in Hn. rewrite Hn.
      destruct m as [a c]. cbn [m_cur m_amt] in *. subst c. reflexivity.
    - rewrite <- app_assoc. rewrite (p_decimal_lay (m_amt m) _ Hd (ends'_blank w _ Hw Hne)).
      rewrite (skip_w_tok w _ rest Hw (tok_cur vc _ Hc)), (lex_currency_lay _ _ Hc He).
      destruct Hc as (a & b & e & Ec & _ & _ & _ & Hv & _). rewrite Hv. destruct m; reflexivity.
  Qed.

  Lemma p_kw_money_lay kw w1 omit w2 m rest : no_lower kw -> blank w1 -> wf_money vc m -> blank w2 -> w2 <> [] -> ends' rest -> nocur rest ->
    p_kw_money vc kw (kw ++ w1 ++ money_lay omit w2 m ++ rest) = POk m None rest.
  Proof.
    intros Hk Hw1 Hm Hw2 Hne He Hn. unfold p_kw_money. rewrite (kw_prefix_app kw _ Hk).
    assert (Ht : tok (money_lay omit w2 m)) by (unfold money_lay; apply tok_app, print_dec_tok, dec_ok_mant, Hm).
    rewrite (skip_w_tok w1 _ rest Hw1 Ht). apply p_money_lay; assumption.
  Qed.

  (* the optional clause, absent for a zero amount; tl is what follows on the line (blanks, a comment) *)
  Definition tailok (tl : text) : Prop := skip tl = [] /\ ends' tl /\ no_nl tl.
  Definition opt_lay (w1 kw w2 : text) (omit : bool) (w3 : text) (m : money) : text :=
    if is_zero_money m then [] else w1 ++ kw ++ w2 ++ money_lay omit w3 m.

  Lemma nocur_tail tl : tailok tl -> nocur tl.
  Proof. intros (H & _). unfold nocur. rewrite H. reflexivity. Qed.
  Lemma nocur_kw kw w rest : blank w -> tok kw -> (kw = KW_FEES \/ kw = KW_TAX) -> nocur (w ++ kw ++ rest).
  Proof.
    intros Hw Ht Hk. unfold nocur. rewrite (skip_w_tok w kw rest Hw Ht). unfold lex_currency.
    destruct Hk as [-> | ->].
    - replace (starts_kw KW_FEES (KW_FEES ++ rest)) with true by (unfold starts_kw; rewrite kw_prefix_app by reflexivity; reflexivity).
      rewrite !orb_true_r. reflexivity.
    - replace (starts_kw KW_TAX (KW_TAX ++ rest)) with true by (unfold starts_kw; rewrite kw_prefix_app by reflexivity; reflexivity).
      reflexivity.
  Qed.
  Lemma nocur_opt w1 kw w2 omit w3 m tl : blank w1 -> tok kw -> (kw = KW_FEES \/ kw = KW_TAX) -> tailok tl ->
    nocur (opt_lay w1 kw w2 omit w3 m ++ tl).
  Proof.
    intros Hw Ht Hk Htl. unfold opt_lay. destruct (is_zero_money m); [apply nocur_tail; exact Htl|].
    repeat rewrite <- app_assoc. apply nocur_kw; assumption.
  Qed.
  Lemma ends'_opt w1 kw w2 omit w3 m tl : blank w1 -> w1 <> [] -> tailok tl -> ends' (opt_lay w1 kw w2 omit w3 m ++ tl).
  Proof.
    intros Hw Hne (_ & He & _). unfold opt_lay. destruct (is_zero_money m); [exact He|].
    repeat rewrite <- app_assoc. apply ends'_blank; assumption.
  Qed.

  Lemma p_opt_lay w1 kw w2 omit w3 m tl : no_lower kw -> tok kw -> wf_money vc m -> blank w1 -> blank w2 -> blank w3 -> w3 <> [] -> tailok tl ->
    p_opt_kw_money vc kw (opt_lay w1 kw w2 omit w3 m ++ tl) = POk (norm_money m) None tl.
  Proof.
    intros Hk Ht Hm Hw1 Hw2 Hw3 Hne3 Htl. unfold p_opt_kw_money, opt_lay, norm_money. destruct (is_zero_money m).
    - cbn [app]. destruct Htl as (Hs & _). rewrite Hs. destruct Ht as (c & r & -> & _). reflexivity.
    - repeat rewrite <- app_assoc. rewrite (skip_w_tok w1 kw _ Hw1 Ht), (kw_prefix_app kw _ Hk).
      assert (Htm : tok (money_lay omit w3 m)) by (unfold money_lay; apply tok_app, print_dec_tok, dec_ok_mant, Hm).
      rewrite (skip_w_tok w2 _ tl Hw2 Htm).
      rewrite (p_money_lay omit w3 m tl Hm Hw3 Hne3 (proj1 (proj2 Htl)) (nocur_tail tl Htl)). reflexivity.
  Qed.
End L.

(* ---------- decorated lines ---------- *)
Record deco := { d_lead : text; d_sep : nat -> text; d_omit : nat -> bool; d_tail : text }.
Definition deco_ok (dc : deco) : Prop :=
  blank (d_lead dc) /\ (forall i, blank (d_sep dc i) /\ d_sep dc i <> []) /\ tailok (d_tail dc).

Definition cmd_lay (dc : deco) (tk : text) (o : dop) : text :=
  let s := d_sep dc in let om := d_omit dc in
  match o with
  | DBuy q p f => KW_BUY ++ (s 1 ++ tk ++ s 2 ++ print_dec q ++ s 3 ++ AT ++ s 4 ++ money_lay (om 0) (s 5) p ++ opt_lay (s 6) KW_FEES (s 7) (om 1) (s 8) f ++ d_tail dc)%nat
  | DSell q p f => KW_SELL ++ (s 1 ++ tk ++ s 2 ++ print_dec q ++ s 3 ++ AT ++ s 4 ++ money_lay (om 0) (s 5) p ++ opt_lay (s 6) KW_FEES (s 7) (om 1) (s 8) f ++ d_tail dc)%nat
  | DDividend p f => KW_DIVIDEND ++ (s 1 ++ tk ++ s 2 ++ KW_TOTAL ++ s 3 ++ money_lay (om 0) (s 4) p ++ opt_lay (s 5) KW_TAX (s 6) (om 1) (s 7) f ++ d_tail dc)%nat
  | DAccumulation q p f => KW_ACCUMULATION ++ (s 1 ++ tk ++ s 2 ++ print_dec q ++ s 3 ++ KW_TOTAL ++ s 4 ++ money_lay (om 0) (s 5) p ++ opt_lay (s 6) KW_TAX (s 7) (om 1) (s 8) f ++ d_tail dc)%nat
  | DCapReturn q p f => KW_CAPRETURN ++ (s 1 ++ tk ++ s 2 ++ print_dec q ++ s 3 ++ KW_TOTAL ++ s 4 ++ money_lay (om 0) (s 5) p ++ opt_lay (s 6) KW_FEES (s 7) (om 1) (s 8) f ++ d_tail dc)%nat
  | DSplit r => KW_SPLIT ++ (s 1 ++ tk ++ s 2 ++ KW_RATIO ++ s 3 ++ print_dec r ++ d_tail dc)%nat
  | DUnsplit r => KW_UNSPLIT ++ (s 1 ++ tk ++ s 2 ++ KW_RATIO ++ s 3 ++ print_dec r ++ d_tail dc)%nat
  end.
Definition line_lay (dc : deco) (t : dtxn) : text :=
  d_lead dc ++ print_date (x_date t) ++ d_sep dc 0%nat ++ cmd_lay dc (x_tick t) (x_op t).

Section L2.
  Context (vc : text -> bool).

  Lemma p_trade_lay mk s1 t s2 q s3 s4 om0 s5 p s6 s7 om1 s8 f tl :
    wf_tick t -> dec_ok q = true -> wf_money vc p -> wf_money vc f ->
    blank s1 -> blank s2 -> s2 <> [] -> blank s3 -> s3 <> [] -> blank s4 -> blank s5 -> s5 <> [] -> blank s6 -> s6 <> [] -> blank s7 -> blank s8 -> s8 <> [] -> tailok tl ->
    p_trade vc mk (s1 ++ t ++ s2 ++ print_dec q ++ s3 ++ AT ++ s4 ++ money_lay om0 s5 p ++ opt_lay s6 KW_FEES s7 om1 s8 f ++ tl)
    = POk (t, mk q p (norm_money f)) None tl.
  Proof.
    intros Ht Hq Hp Hf B1 B2 N2 B3 N3 B4 B5 N5 B6 N6 B7 B8 N8 Htl. unfold p_trade.
    rewrite (skip_w_tok s1 t _ B1 (tok_tick t Ht)), (p_ticker_lay t _ Ht (ends'_blank s2 _ B2 N2)).
    rewrite (skip_w_tok s2 _ _ B2 (print_dec_tok q (dec_ok_mant q Hq))), (p_decimal_lay q _ Hq (ends'_blank s3 _ B3 N3)).
    rewrite (skip_w_tok s3 AT _ B3 (proj1 tok_at)).
    rewrite (p_kw_money_lay vc AT s4 om0 s5 p _ (proj2 tok_at) B4 Hp B5 N5
               (ends'_opt s6 KW_FEES s7 om1 s8 f tl B6 N6 Htl)
               (nocur_opt s6 KW_FEES s7 om1 s8 f tl B6 (kwf KW_FEES ltac:(discriminate) eq_refl) (or_introl eq_refl) Htl)).
    rewrite (p_opt_lay vc s6 KW_FEES s7 om1 s8 f tl (kwl KW_FEES ltac:(discriminate) eq_refl) (kwf KW_FEES ltac:(discriminate) eq_refl) Hf B6 B7 B8 N8 Htl).
    reflexivity.
  Qed.

  Lemma p_event_lay mk okw s1 t s2 q s3 s4 om0 s5 p s6 s7 om1 s8 f tl : (okw = KW_FEES \/ okw = KW_TAX) ->
    wf_tick t -> dec_ok q = true -> wf_money vc p -> wf_money vc f ->
    blank s1 -> blank s2 -> s2 <> [] -> blank s3 -> s3 <> [] -> blank s4 -> blank s5 -> s5 <> [] -> blank s6 -> s6 <> [] -> blank s7 -> blank s8 -> s8 <> [] -> tailok tl ->
    p_event vc mk okw (s1 ++ t ++ s2 ++ print_dec q ++ s3 ++ KW_TOTAL ++ s4 ++ money_lay om0 s5 p ++ opt_lay s6 okw s7 om1 s8 f ++ tl)
    = POk (t, mk q p (norm_money f)) None tl.
  Proof.
    intros Hk Ht Hq Hp Hf B1 B2 N2 B3 N3 B4 B5 N5 B6 N6 B7 B8 N8 Htl. unfold p_event.
    assert (Kt : tok okw /\ no_lower okw) by (destruct Hk as [-> | ->]; split; first [apply kwf | apply kwl]; first [discriminate | reflexivity]).
    rewrite (skip_w_tok s1 t _ B1 (tok_tick t Ht)), (p_ticker_lay t _ Ht (ends'_blank s2 _ B2 N2)).
    rewrite (skip_w_tok s2 _ _ B2 (print_dec_tok q (dec_ok_mant q Hq))), (p_decimal_lay q _ Hq (ends'_blank s3 _ B3 N3)).
    rewrite (skip_w_tok s3 KW_TOTAL _ B3 (kwf KW_TOTAL ltac:(discriminate) eq_refl)).
    rewrite (p_kw_money_lay vc KW_TOTAL s4 om0 s5 p _ (kwl KW_TOTAL ltac:(discriminate) eq_refl) B4 Hp B5 N5
               (ends'_opt s6 okw s7 om1 s8 f tl B6 N6 Htl) (nocur_opt s6 okw s7 om1 s8 f tl B6 (proj1 Kt) Hk Htl)).
    rewrite (p_opt_lay vc s6 okw s7 om1 s8 f tl (proj2 Kt) (proj1 Kt) Hf B6 B7 B8 N8 Htl).
    reflexivity.
  Qed.

  Lemma p_dividend_lay s1 t s2 s3 om0 s4 p s5 s6 om1 s7 f tl :
    wf_tick t -> wf_money vc p -> wf_money vc f ->
    blank s1 -> blank s2 -> s2 <> [] -> blank s3 -> blank s4 -> s4 <> [] -> blank s5 -> s5 <> [] -> blank s6 -> blank s7 -> s7 <> [] -> tailok tl ->
    p_dividend vc (s1 ++ t ++ s2 ++ KW_TOTAL ++ s3 ++ money_lay om0 s4 p ++ opt_lay s5 KW_TAX s6 om1 s7 f ++ tl)
    = POk (t, DDividend p (norm_money f)) None tl.
  Proof.
    intros Ht Hp Hf B1 B2 N2 B3 B4 N4 B5 N5 B6 B7 N7 Htl. unfold p_dividend.
    rewrite (skip_w_tok s1 t _ B1 (tok_tick t Ht)), (p_ticker_lay t _ Ht (ends'_blank s2 _ B2 N2)).
    rewrite (skip_w_tok s2 KW_TOTAL _ B2 (kwf KW_TOTAL ltac:(discriminate) eq_refl)).
    rewrite (p_kw_money_lay vc KW_TOTAL s3 om0 s4 p _ (kwl KW_TOTAL ltac:(discriminate) eq_refl) B3 Hp B4 N4
               (ends'_opt s5 KW_TAX s6 om1 s7 f tl B5 N5 Htl)
               (nocur_opt s5 KW_TAX s6 om1 s7 f tl B5 (kwf KW_TAX ltac:(discriminate) eq_refl) (or_intror eq_refl) Htl)).
    rewrite (p_opt_lay vc s5 KW_TAX s6 om1 s7 f tl (kwl KW_TAX ltac:(discriminate) eq_refl) (kwf KW_TAX ltac:(discriminate) eq_refl) Hf B5 B6 B7 N7 Htl).
    reflexivity.
  Qed.

  Lemma p_split_lay mk s1 t s2 s3 r tl : wf_tick t -> dec_ok r = true ->
    blank s1 -> blank s2 -> s2 <> [] -> blank s3 -> tailok tl ->
    p_split mk (s1 ++ t ++ s2 ++ KW_RATIO ++ s3 ++ print_dec r ++ tl) = POk (t, mk r) None tl.
  Proof.
    intros Ht Hr B1 B2 N2 B3 Htl. unfold p_split.
    rewrite (skip_w_tok s1 t _ B1 (tok_tick t Ht)), (p_ticker_lay t _ Ht (ends'_blank s2 _ B2 N2)).
    rewrite (skip_w_tok s2 KW_RATIO _ B2 (kwf KW_RATIO ltac:(discriminate) eq_refl)), (kw_prefix_app KW_RATIO _ (kwl KW_RATIO ltac:(discriminate) eq_refl)).
    rewrite (skip_w_tok s3 _ tl B3 (print_dec_tok r (dec_ok_mant r Hr))), (p_decimal_lay r tl Hr (proj1 (proj2 Htl))).
    reflexivity.
  Qed.

  Ltac kwstep :=
    match goal with
    | |- context [kw_prefix ?k (?k ++ ?b)] => rewrite (kw_prefix_app k b) by reflexivity
    | |- context [kw_prefix ?k (?k' ++ ?b)] => replace (kw_prefix k (k' ++ b)) with (@None text) by reflexivity
    end.

  Lemma p_command_lay dc tk o : deco_ok dc -> wf_tick tk -> wf_op vc o ->
    p_command vc (cmd_lay dc tk o) = POk (tk, norm_op o) None (d_tail dc).
  Proof.
    intros (_ & Hs & Htl) Ht Ho.
    assert (B : forall i, blank (d_sep dc i)) by (intros i; apply Hs). assert (N : forall i, d_sep dc i <> []) by (intros i; apply Hs).
    destruct o as [q p f|q p f|p f|q p f|q p f|r|r]; cbn [wf_op] in Ho; unfold cmd_lay, p_command; cbv zeta; repeat kwstep; cbn [norm_op].
    - destruct Ho as (Hq & Hp & Hf). apply p_trade_lay; auto.
    - destruct Ho as (Hq & Hp & Hf). apply p_trade_lay; auto.
    - destruct Ho as (Hp & Hf). apply p_dividend_lay; auto.
    - destruct Ho as (Hq & Hp & Hf). apply p_event_lay; auto.
    - destruct Ho as (Hq & Hp & Hf). apply p_event_lay; auto.
    - apply p_split_lay; auto.
    - apply p_split_lay; auto.
  Qed.

  Lemma tok_cmd_lay dc tk o : tok (cmd_lay dc tk o).
  Proof. destruct o; unfold cmd_lay; cbv zeta; apply tok_app; apply kwf; first [discriminate|reflexivity]. Qed.

  Theorem parse_line_lay dc t : deco_ok dc -> wf_txn vc t -> parse_line vc (line_lay dc t) = LTx (norm_txn t) None.
  Proof.
    intros Hdc (Hd & Ht & Ho). pose proof Hdc as (Hl & Hs & Htl). unfold line_lay.
    destruct (print_date_tok (x_date t) (proj2 Hd)) as (c & r & E & Hc).
    destruct (alnum_not_blank c (digit_alnum c Hc)) as (A & B & _).
    assert (Htok : tok (print_date (x_date t))) by (exists c, r; repeat split; assumption).
    rewrite (parse_line_eq vc _ _ (skip_w_tok _ _ _ Hl Htok)); [|rewrite E; discriminate].
    rewrite (p_date_print (x_date t) _ Hd).
    replace (cmd_lay dc (x_tick t) (x_op t)) with (cmd_lay dc (x_tick t) (x_op t) ++ []) by apply app_nil_r.
    rewrite (skip_w_tok _ _ [] (proj1 (Hs 0%nat)) (tok_cmd_lay _ _ _)), app_nil_r.
    rewrite (p_command_lay dc _ _ Hdc Ht Ho). rewrite (proj1 Htl). reflexivity.
  Qed.
End L2.

(* ---------- whole files ---------- *)
Lemma no_nl_blank w : blank w -> no_nl w.
Proof. apply no_nl_of. intros c H. revert H. cls. Qed.

Section L3.
  Context (vc : text -> bool).

  Lemma no_nl_money_lay om w m rest : wf_money vc m -> blank w -> no_nl rest -> no_nl (money_lay om w m ++ rest).
  Proof.
    intros [Hd Hc] Hw Hr. unfold money_lay. apply no_nl_app; [|exact Hr].
    apply no_nl_app; [apply no_nl_print_dec, dec_ok_mant, Hd|]. destruct (om && teqb (m_cur m) GBP); [reflexivity|].
    apply no_nl_app; [apply no_nl_blank, Hw|apply (no_nl_cur vc), Hc].
  Qed.
  Lemma no_nl_opt_lay w1 kw w2 om w3 m rest : no_nl kw -> wf_money vc m -> blank w1 -> blank w2 -> blank w3 -> no_nl rest ->
    no_nl (opt_lay w1 kw w2 om w3 m ++ rest).
  Proof.
    intros Hk Hm B1 B2 B3 Hr. unfold opt_lay. destruct (is_zero_money m); [exact Hr|].
    repeat rewrite <- app_assoc. apply no_nl_app; [apply no_nl_blank, B1|]. apply no_nl_app; [exact Hk|].
    apply no_nl_app; [apply no_nl_blank, B2|]. apply no_nl_money_lay; assumption.
  Qed.

  Lemma no_nl_line_lay dc t : deco_ok dc -> wf_txn vc t -> no_nl (line_lay dc t).
  Proof.
    intros (Hl & Hs & Htl) ((Hv & Hy) & Ht & Ho). unfold line_lay.
    assert (B : forall i, blank (d_sep dc i)) by (intros i; apply Hs).
    assert (NB : forall i, no_nl (d_sep dc i)) by (intros i; apply no_nl_blank, B).
    pose proof (proj2 (proj2 Htl)) as Ntl.
    pose proof Hv as Hv'. unfold valid_date in Hv'. repeat (apply andb_true_iff in Hv'; destruct Hv' as [Hv' ?]).
    pose proof (days_in_month_le (dy (x_date t)) (dm (x_date t))).
    apply no_nl_app; [apply no_nl_blank, Hl|]. apply no_nl_app; [apply no_nl_print_date; lia|]. apply no_nl_app; [apply NB|].
    pose proof (no_nl_tick _ Ht) as Htk.
    destruct (x_op t) as [q p f|q p f|p f|q p f|q p f|r|r]; cbn [wf_op] in Ho; unfold cmd_lay; cbv zeta;
      repeat first [ apply no_nl_app; [reflexivity|] | apply no_nl_app; [exact Htk|] | apply no_nl_app; [apply NB|] ].
    - destruct Ho as (Hq & Hp & Hf). apply no_nl_app; [apply no_nl_print_dec, dec_ok_mant, Hq|].
      repeat first [ apply no_nl_app; [reflexivity|] | apply no_nl_app; [apply NB|] ].
      apply no_nl_money_lay; [exact Hp|apply B|]. apply no_nl_opt_lay; try apply B; [reflexivity|exact Hf|exact Ntl].
    - destruct Ho as (Hq & Hp & Hf). apply no_nl_app; [apply no_nl_print_dec, dec_ok_mant, Hq|].
      repeat first [ apply no_nl_app; [reflexivity|] | apply no_nl_app; [apply NB|] ].
      apply no_nl_money_lay; [exact Hp|apply B|]. apply no_nl_opt_lay; try apply B; [reflexivity|exact Hf|exact Ntl].
    - destruct Ho as (Hp & Hf).
      apply no_nl_money_lay; [exact Hp|apply B|]. apply no_nl_opt_lay; try apply B; [reflexivity|exact Hf|exact Ntl].
    - destruct Ho as (Hq & Hp & Hf). apply no_nl_app; [apply no_nl_print_dec, dec_ok_mant, Hq|].
      repeat first [ apply no_nl_app; [reflexivity|] | apply no_nl_app; [apply NB|] ].
      apply no_nl_money_lay; [exact Hp|apply B|]. apply no_nl_opt_lay; try apply B; [reflexivity|exact Hf|exact Ntl].
    - destruct Ho as (Hq & Hp & Hf). apply no_nl_app; [apply no_nl_print_dec, dec_ok_mant, Hq|].
      repeat first [ apply no_nl_app; [reflexivity|] | apply no_nl_app; [apply NB|] ].
      apply no_nl_money_lay; [exact Hp|apply B|]. apply no_nl_opt_lay; try apply B; [reflexivity|exact Hf|exact Ntl].
    - apply no_nl_app; [apply no_nl_print_dec, dec_ok_mant, Ho|exact Ntl].
    - apply no_nl_app; [apply no_nl_print_dec, dec_ok_mant, Ho|exact Ntl].
  Qed.

  Inductive item := IBlank (tl : text) | ITx (dc : deco) (t : dtxn).
  Definition item_ok (it : item) : Prop :=
    match it with IBlank tl => skip tl = [] /\ no_nl tl | ITx dc t => deco_ok dc /\ wf_txn vc t end.
  Definition item_text (it : item) : text := match it with IBlank tl => tl | ITx dc t => line_lay dc t end.
  Definition item_txn (it : item) : list dtxn := match it with IBlank _ => [] | ITx _ t => [norm_txn t] end.
  Definition item_res (it : item) : lres := match it with IBlank _ => LBlank | ITx _ t => LTx (norm_txn t) None end.
  Inductive term := TLF | TCRLF | TCR.
  Definition term_text (tm : term) : text := match tm with TLF => LF | TCRLF => CRLF | TCR => CR end.

  (* a file: lines each with its own terminator, then a last line without one (empty when the file ends in a newline) *)
  Fixpoint file_text (its : list (item * term)) (last : item) : text :=
    match its with [] => item_text last | (it, tm) :: r => item_text it ++ term_text tm ++ file_text r last end.
  (* a lone CR terminates a line unless an LF follows it (then the two are one CRLF) *)
  Fixpoint terms_ok (its : list (item * term)) (last : item) : Prop :=
    match its with
    | [] => True
    | (it, tm) :: r => (tm = TCR -> forall c r', file_text r last = c :: r' -> code c <> 10) /\ terms_ok r last
    end.

  Lemma item_no_nl it : item_ok it -> no_nl (item_text it).
  Proof. destruct it as [tl|dc t]; cbn [item_ok item_text]; [intros [_ H]; exact H|intros [H1 H2]; apply no_nl_line_lay; assumption]. Qed.
  Lemma item_parse it : item_ok it -> parse_line vc (item_text it) = item_res it.
  Proof.
    destruct it as [tl|dc t]; cbn [item_ok item_text item_res].
    - intros [H _]. unfold parse_line. rewrite H. reflexivity.
    - intros [H1 H2]. apply parse_line_lay; assumption.
  Qed.

  Lemma split_file its last : Forall (fun p => item_ok (fst p)) its -> item_ok last -> terms_ok its last ->
    split_lines [] (file_text its last) = map item_text (map fst its ++ [last]).
  Proof.
    induction its as [|[it tm] r IH]; intros Hits Hl Ht; cbn [file_text map app].
    - apply split_one. apply item_no_nl. exact Hl.
    - inversion Hits as [|x xs Hit Hr]; subst. cbn [fst] in Hit. cbn [terms_ok] in Ht. destruct Ht as [Hcr Ht].
      pose proof (item_no_nl it Hit) as Hn. rewrite <- (IH Hr Hl Ht).
      destruct tm; cbn [term_text]; [apply split_lines_LF|apply split_lines_CRLF|apply split_lines_CR]; try exact Hn.
      apply Hcr. reflexivity.
  Qed.

  Lemma collect_items n l : Forall item_ok l ->
    first_fail n (map (parse_line vc) (map item_text l)) = None /\
    collect n (map (parse_line vc) (map item_text l)) = inr (List.concat (map item_txn l)).
  Proof.
    revert n. induction l as [|it r IH]; intros n H; cbn [map first_fail collect List.concat]; [split; reflexivity|].
    inversion H as [|x xs Hit Hr]; subst. rewrite (item_parse it Hit). destruct (IH (S n) Hr) as [F C].
    destruct it as [tl|dc t]; cbn [item_res item_txn first_fail collect app]; rewrite ?F, ?C; split; reflexivity.
  Qed.

  (* The layout theorem: however a list of transactions is laid out, it is the list that is read. *)
  Theorem parse_file its last : Forall (fun p => item_ok (fst p)) its -> item_ok last -> terms_ok its last ->
    parse vc (file_text its last) = inr (List.concat (map item_txn (map fst its ++ [last]))).
  Proof.
    intros Hits Hl Ht. unfold parse. rewrite (split_file its last Hits Hl Ht).
    assert (Hall : Forall item_ok (map fst its ++ [last])).
    { apply Forall_app. split; [|constructor; [exact Hl|constructor]]. apply Forall_map. exact Hits. }
    destruct (collect_items 1 _ Hall) as [F C]. rewrite F, C. reflexivity.
  Qed.

  (* ... and in any letter case *)
  Corollary parse_file_any_case its last s : Forall (fun p => item_ok (fst p)) its -> item_ok last -> terms_ok its last ->
    map upper s = map upper (file_text its last) ->
    parse vc s = inr (List.concat (map item_txn (map fst its ++ [last]))).
  Proof.
    intros Hits Hl Ht Hs. rewrite <- (parse_file its last Hits Hl Ht). apply parse_case_insensitive. exact Hs.
  Qed.
End L3.
