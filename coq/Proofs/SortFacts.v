(* Canonical sorting: sort_uniq of a strict total order depends only on the set of elements. *)
From Coq Require Import ZArith NArith List Bool String Ascii Sorted Permutation Lia.
Require Import CGT.Model.Agg.
Import ListNotations.

Section SortUniq.
  Context {A : Type} (cmp : A -> A -> comparison).
  Context (cmp_eq : forall x y, cmp x y = Eq <-> x = y)
          (cmp_antisym : forall x y, cmp y x = CompOpp (cmp x y))
          (cmp_trans : forall x y z, cmp x y = Lt -> cmp y z = Lt -> cmp x z = Lt).
  Definition clt (x y : A) : Prop := cmp x y = Lt.
  Definition ssorted (l : list A) : Prop := StronglySorted clt l.

  Lemma clt_irrefl x : ~ clt x x.
  Proof. unfold clt. intro H. assert (cmp x x = Eq) by (apply cmp_eq; reflexivity). congruence. Qed.
  Lemma clt_asym x y : clt x y -> ~ clt y x.
  Proof. unfold clt. intros H1 H2. rewrite cmp_antisym, H1 in H2. discriminate. Qed.

  Lemma insert_uniq_in x l y : In y (insert_uniq cmp x l) <-> y = x \/ In y l.
  Proof.
    induction l as [|z r IH]; cbn [insert_uniq In]; [intuition|].
    destruct (cmp x z) eqn:E; cbn [In].
    - apply cmp_eq in E. subst z. intuition.
    - intuition.
    - rewrite IH. intuition.
  Qed.

  Lemma insert_uniq_sorted x l : ssorted l -> ssorted (insert_uniq cmp x l).
  Proof.
    induction l as [|z r IH]; intros H; cbn [insert_uniq]; [repeat constructor|].
    inversion H as [|a b Hs Hf]; subst.
    destruct (cmp x z) eqn:E.
    - exact H.
    - constructor; [exact H|]. constructor; [exact E|].
      rewrite Forall_forall in *. intros y Hy. eapply cmp_trans; [exact E|apply Hf; exact Hy].
    - constructor; [apply IH; exact Hs|].
      rewrite Forall_forall in *. intros y Hy. apply insert_uniq_in in Hy. destruct Hy as [->|Hy]; [|apply Hf; exact Hy].
      unfold clt. rewrite cmp_antisym, E. reflexivity.
  Qed.

  Lemma sort_uniq_sorted l : ssorted (sort_uniq cmp l).
  Proof. unfold sort_uniq. induction l as [|x r IH]; cbn [fold_right]; [constructor|apply insert_uniq_sorted; exact IH]. Qed.
  Lemma sort_uniq_in l y : In y (sort_uniq cmp l) <-> In y l.
  Proof.
    unfold sort_uniq. induction l as [|x r IH]; cbn [fold_right In]; [reflexivity|].
    rewrite insert_uniq_in, IH. intuition.
  Qed.

  Lemma ssorted_ext l : forall l', ssorted l -> ssorted l' -> (forall y, In y l <-> In y l') -> l = l'.
  Proof.
    induction l as [|x r IH]; intros l' Hs Hs' Hin.
    - destruct l' as [|x' r']; [reflexivity|]. exfalso. apply (proj2 (Hin x')). left. reflexivity.
    - destruct l' as [|x' r']; [exfalso; apply (proj1 (Hin x)); left; reflexivity|].
      inversion Hs as [|a b Hsr Hf]; subst. inversion Hs' as [|a b Hsr' Hf']; subst.
      rewrite Forall_forall in Hf, Hf'.
      assert (x = x') as ->.
      { destruct (proj1 (Hin x) (or_introl eq_refl)) as [E|Hx]; [symmetry; exact E|].
        destruct (proj2 (Hin x') (or_introl eq_refl)) as [E|Hx']; [exact E|].
        exfalso. apply (clt_asym x x'); [apply Hf; exact Hx'|apply Hf'; exact Hx]. }
      f_equal. apply IH; [exact Hsr|exact Hsr'|].
      intros y. split; intros Hy.
      + destruct (proj1 (Hin y) (or_intror Hy)) as [E|H]; [|exact H]. subst y. exfalso. apply (clt_irrefl x'). apply Hf. exact Hy.
      + destruct (proj2 (Hin y) (or_intror Hy)) as [E|H]; [|exact H]. subst y. exfalso. apply (clt_irrefl x'). apply Hf'. exact Hy.
  Qed.

  Theorem sort_uniq_set l l' : (forall y, In y l <-> In y l') -> sort_uniq cmp l = sort_uniq cmp l'.
  Proof.
    intros H. apply ssorted_ext; [apply sort_uniq_sorted|apply sort_uniq_sorted|].
    intros y. rewrite !sort_uniq_in. apply H.
  Qed.
  Corollary sort_uniq_perm l l' : Permutation l l' -> sort_uniq cmp l = sort_uniq cmp l'.
  Proof.
    intros H. apply sort_uniq_set. intros y. split; intros Hy; [eapply Permutation_in; eassumption|].
    eapply Permutation_in; [apply Permutation_sym; exact H|exact Hy].
  Qed.
End SortUniq.

(* sortedness alone needs less: antisymmetry and transitivity of the comparison of KEYS *)
Section SortedOnly.
  Context {A : Type} (cmp : A -> A -> comparison).
  Context (cmp_antisym : forall x y, cmp y x = CompOpp (cmp x y))
          (cmp_trans : forall x y z, cmp x y = Lt -> cmp y z = Lt -> cmp x z = Lt).
  Lemma insert_uniq_in_weak x l y : In y (insert_uniq cmp x l) -> y = x \/ In y l.
  Proof.
    induction l as [|z r IH]; cbn [insert_uniq In]; [intuition|].
    destruct (cmp x z) eqn:E; cbn [In]; [intuition|intuition|].
    intros [H|H]; [right; left; exact H|]. destruct (IH H) as [H1|H1]; [left; exact H1|right; right; exact H1].
  Qed.
  Lemma insert_uniq_sorted_weak x l : StronglySorted (fun a b => cmp a b = Lt) l -> StronglySorted (fun a b => cmp a b = Lt) (insert_uniq cmp x l).
  Proof.
    induction l as [|z r IH]; intros H; cbn [insert_uniq]; [repeat constructor|].
    inversion H as [|a b Hs Hf]; subst.
    destruct (cmp x z) eqn:E.
    - exact H.
    - constructor; [exact H|]. constructor; [exact E|].
      rewrite Forall_forall in *. intros y Hy. eapply cmp_trans; [exact E|apply Hf; exact Hy].
    - constructor; [apply IH; exact Hs|].
      rewrite Forall_forall in *. intros y Hy. apply insert_uniq_in_weak in Hy. destruct Hy as [->|Hy]; [|apply Hf; exact Hy].
      rewrite cmp_antisym, E. reflexivity.
  Qed.
  Lemma sort_uniq_sorted_weak l : StronglySorted (fun a b => cmp a b = Lt) (sort_uniq cmp l).
  Proof. unfold sort_uniq. induction l as [|x r IH]; cbn [fold_right]; [constructor|apply insert_uniq_sorted_weak; exact IH]. Qed.
End SortedOnly.

(* ---------- instances ---------- *)
Lemma Zcmp_eq x y : (x ?= y)%Z = Eq <-> x = y. Proof. apply Z.compare_eq_iff. Qed.
Lemma Zcmp_antisym x y : (y ?= x)%Z = CompOpp (x ?= y)%Z. Proof. apply Z.compare_antisym. Qed.
Lemma Zcmp_trans x y z : (x ?= y)%Z = Lt -> (y ?= z)%Z = Lt -> (x ?= z)%Z = Lt.
Proof. rewrite !Z.compare_lt_iff. lia. Qed.

Lemma ascii_cmp_refl a : Ascii.compare a a = Eq.
Proof. unfold Ascii.compare. apply N.compare_refl. Qed.
Lemma str_cmp_refl s : String.compare s s = Eq.
Proof. induction s as [|a r IH]; cbn [String.compare]; [reflexivity|]. rewrite ascii_cmp_refl. exact IH. Qed.
Lemma str_cmp_eq x y : String.compare x y = Eq <-> x = y.
Proof. split; [apply String.compare_eq_iff|intros ->; apply str_cmp_refl]. Qed.
Lemma str_cmp_antisym x y : String.compare y x = CompOpp (String.compare x y).
Proof. apply String.compare_antisym. Qed.
Lemma ascii_cmp_trans a b c : Ascii.compare a b = Lt -> Ascii.compare b c = Lt -> Ascii.compare a c = Lt.
Proof. unfold Ascii.compare. rewrite !N.compare_lt_iff. lia. Qed.
Lemma str_cmp_trans x : forall y z, String.compare x y = Lt -> String.compare y z = Lt -> String.compare x z = Lt.
Proof.
  induction x as [|a r IH]; intros y z H1 H2; destruct y as [|b s]; destruct z as [|c t]; cbn [String.compare] in *; try discriminate; try reflexivity.
  destruct (Ascii.compare a b) eqn:Eab; try discriminate.
  - apply Ascii.compare_eq_iff in Eab. subst b.
    destruct (Ascii.compare a c) eqn:Eac; try discriminate; [|reflexivity].
    eapply IH; eassumption.
  - destruct (Ascii.compare b c) eqn:Ebc; try discriminate.
    + apply Ascii.compare_eq_iff in Ebc. subst c. rewrite Eab. reflexivity.
    + rewrite (ascii_cmp_trans a b c Eab Ebc). reflexivity.
Qed.

Theorem sort_dates_perm l l' : Permutation l l' -> sort_uniq Z.compare l = sort_uniq Z.compare l'.
Proof. apply sort_uniq_perm; [apply Zcmp_eq|apply Zcmp_antisym|apply Zcmp_trans]. Qed.
Theorem sort_tickers_perm l l' : Permutation l l' -> sort_uniq String.compare l = sort_uniq String.compare l'.
Proof. apply sort_uniq_perm; [apply str_cmp_eq|apply str_cmp_antisym|apply str_cmp_trans]. Qed.
Theorem sort_dates_sorted l : StronglySorted (fun a b => (a < b)%Z) (sort_uniq Z.compare l).
Proof.
  pose proof (sort_uniq_sorted Z.compare Zcmp_eq Zcmp_antisym Zcmp_trans l) as H.
  unfold ssorted, clt in H. induction H; constructor; [assumption|].
  eapply Forall_impl; [|eassumption]. intros b Hb. apply Z.compare_lt_iff. exact Hb.
Qed.
