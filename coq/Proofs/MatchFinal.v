(* A disposal is final once everything up to 30 days after it is present: days appended more than a window after the disposal days
   of a leading part leave those days' disposals (and any refusal among them) exactly as they were - whatever lies in between. *)
From Coq Require Import QArith Qcanon ZArith List Bool Lia.
Require Import CGT.Model.Num CGT.Model.Match CGT.Proofs.NumFacts CGT.Proofs.MatchFacts CGT.Proofs.MatchInv CGT.Proofs.MatchPrefix.
Import ListNotations.
Open Scope Qc_scope.

(* the main pass over a leading part `pre`, whose look-aheads see the rest of pre and then `tail` *)
Fixpoint mp_pre (w : Z) (offs : list plot) (s : mst) (pre tail : list day) : err + mst :=
  match pre with
  | [] => inr s
  | d :: r => match day_step w offs s d (r ++ tail) with inl e => inl e | inr s' => mp_pre w offs s' r tail end
  end.

Lemma mainpass_split w offs pre tail : forall s,
  mainpass w offs s (pre ++ tail) = match mp_pre w offs s pre tail with inl e => inl e | inr s' => mainpass w offs s' tail end.
Proof.
  induction pre as [|d r IH]; intros s; cbn [app mainpass mp_pre]; [reflexivity|].
  destruct (day_step w offs s d (r ++ tail)) as [e|s1]; [reflexivity|apply IH].
Qed.

Lemma mp_pre_far w a b pre mid far : same_offsets a b -> (forall d e, In d pre -> In e far -> (dt e - dt d > w)%Z) ->
  forall s, mp_pre w a s pre (mid ++ far) = mp_pre w b s pre mid.
Proof.
  intros Ho. induction pre as [|d r IH]; intros Hfar s; cbn [mp_pre]; [reflexivity|].
  rewrite app_assoc. rewrite (day_step_far w a s d (r ++ mid) far) by (intros e He; apply Hfar; [left; reflexivity|exact He]).
  rewrite (day_step_ext w a b s d (r ++ mid) Ho).
  destruct (day_step w b s d (r ++ mid)) as [e|s1]; [reflexivity|]. apply IH. intros x e Hx He. apply Hfar; [right; exact Hx|exact He].
Qed.

Theorem disposals_final w pre mid far : no_events far -> (forall d e, In d pre -> In e far -> (dt e - dt d > w)%Z) ->
  forall offs, prepass false [] (pre ++ mid) = inr offs ->
  match mp_pre w offs mst0 pre mid with
  | inl e => run w (pre ++ mid) = inl e /\ run w (pre ++ mid ++ far) = inl e
  | inr sp =>
      (forall s1, run w (pre ++ mid) = inr s1 -> exists L, m_disp s1 = m_disp sp ++ L /\ Forall (fun x => In (fst x) (dates mid)) L) /\
      (forall s2, run w (pre ++ mid ++ far) = inr s2 -> exists L, m_disp s2 = m_disp sp ++ L /\ Forall (fun x => In (fst x) (dates (mid ++ far))) L) /\
      (forall e, run w (pre ++ mid ++ far) = inl e -> In (err_date e) (dates (mid ++ far)))
  end.
Proof.
  intros Hne Hfar offs Ep. unfold run. rewrite Ep.
  replace (pre ++ mid ++ far) with ((pre ++ mid) ++ far) by (rewrite app_assoc; reflexivity).
  rewrite prepass_app, Ep.
  destruct (prepass_no_events far (false || existsb hasbuy (pre ++ mid)) offs Hne) as (offs' & E' & Ho). rewrite E'.
  rewrite <- app_assoc. rewrite (mainpass_split w offs pre mid mst0), (mainpass_split w offs' pre (mid ++ far) mst0).
  rewrite (mp_pre_far w offs' offs pre mid far Ho Hfar mst0).
  destruct (mp_pre w offs mst0 pre mid) as [e|sp]; [split; reflexivity|].
  split; [|split].
  - intros s1 H. pose proof (mainpass_far w offs mid sp) as M. rewrite H in M. exact M.
  - intros s2 H. pose proof (mainpass_far w offs' (mid ++ far) sp) as M. rewrite H in M. exact M.
  - intros e H. pose proof (mainpass_far w offs' (mid ++ far) sp) as M. rewrite H in M. exact M.
Qed.
