(* The converter's output is valid DSL: every trade and dividend line it writes is the DSL writer's own rendering of a transaction, so the reader model reads it
   back; comment lines and the empty line are blank lines; hence the whole output text parses, to exactly the transactions its records denote. *)
From Coq Require Import ZArith NArith List Bool Ascii String Lia.
Require Import CGT.Model.Date CGT.Model.Dsl CGT.Model.Schwab CGT.Proofs.DslFacts CGT.Proofs.DecFacts CGT.Proofs.DslRound CGT.Proofs.SchwabFacts.
Import ListNotations.
Open Scope N_scope.

Section V.
  Context (vc : text -> bool).

  Definition usd (x : sdec) : money := {| m_amt := s_dec x; m_cur := USD |}.
  Definition charge (x : sdec) : money := if sdec_pos x then usd x else zero_gbp.
  (* the transaction a record denotes *)
  Definition txn_of_cgt (t : cgt) : option dtxn :=
    match t with
    | CBuy d sym q p e _ => Some {| x_date := d; x_tick := sym; x_op := DBuy (s_dec q) (usd p) (charge e) |}
    | CSell d sym q p e => Some {| x_date := d; x_tick := sym; x_op := DSell (s_dec q) (usd p) (charge e) |}
    | CDividend d sym a tax => Some {| x_date := d; x_tick := sym; x_op := DDividend (usd a) (charge tax) |}
    | CComment _ => None
    end.
  (* the premise of the property's clause: a real date, an alphanumeric upper-case symbol, non-negative quantities and prices, figures the decimal type holds *)
  Definition sdec_ok (x : sdec) : Prop := s_neg x = false /\ dec_ok (s_dec x) = true.
  Definition cgt_ok (t : cgt) : Prop :=
    match t with
    | CBuy d sym q p e _ | CSell d sym q p e => wf_date d /\ wf_tick sym /\ sdec_ok q /\ sdec_ok p /\ dec_ok (s_dec e) = true /\ wf_cur vc USD /\ wf_cur vc GBP
    | CDividend d sym a tax => wf_date d /\ wf_tick sym /\ sdec_ok a /\ dec_ok (s_dec tax) = true /\ wf_cur vc USD /\ wf_cur vc GBP
    | CComment _ => True
    end.

  Lemma print_sdec_pos x : s_neg x = false -> print_sdec x = print_dec (s_dec x).
  Proof. intros H. unfold print_sdec. rewrite H. reflexivity. Qed.
  Lemma sdec_pos_nonneg x : sdec_pos x = true -> s_neg x = false /\ is_zero_money (usd x) = false.
  Proof.
    unfold sdec_pos, sdec_is_zero, is_zero_money, usd. cbn [m_amt]. intros H. apply andb_true_iff in H. destruct H as [H1 H2].
    apply negb_true_iff in H1, H2. split; assumption.
  Qed.
  Lemma charge_clause kw x : opt_clause kw (charge x) = if sdec_pos x then SP ++ kw ++ SP ++ print_sdec x ++ SP ++ USD else [].
  Proof.
    unfold charge, opt_clause. destruct (sdec_pos x) eqn:E; [|reflexivity].
    destruct (sdec_pos_nonneg x E) as [Hn Hz]. rewrite Hz. unfold print_money, usd. cbn [m_amt m_cur]. rewrite (print_sdec_pos x Hn). reflexivity.
  Qed.

  Lemma trade_line_buy d sym q p e c : s_neg q = false -> s_neg p = false ->
    trade_line KW_BUY d sym q p e = print_txn {| x_date := d; x_tick := sym; x_op := DBuy (s_dec q) (usd p) (charge e) |} /\
    txn_of_cgt (CBuy d sym q p e c) = Some {| x_date := d; x_tick := sym; x_op := DBuy (s_dec q) (usd p) (charge e) |}.
  Proof.
    intros Hq Hp. split; [|reflexivity]. unfold trade_line, print_txn. cbn [x_date x_tick x_op]. rewrite (charge_clause KW_FEES e).
    rewrite (print_sdec_pos q Hq), (print_sdec_pos p Hp). unfold print_money, usd. cbn [m_amt m_cur].
    destruct (sdec_pos e); rewrite <- ?app_assoc; reflexivity.
  Qed.
  Lemma trade_line_sell d sym q p e : s_neg q = false -> s_neg p = false ->
    trade_line KW_SELL d sym q p e = print_txn {| x_date := d; x_tick := sym; x_op := DSell (s_dec q) (usd p) (charge e) |}.
  Proof.
    intros Hq Hp. unfold trade_line, print_txn. cbn [x_date x_tick x_op]. rewrite (charge_clause KW_FEES e).
    rewrite (print_sdec_pos q Hq), (print_sdec_pos p Hp). unfold print_money, usd. cbn [m_amt m_cur].
    destruct (sdec_pos e); rewrite <- ?app_assoc; reflexivity.
  Qed.
  Lemma dividend_line_print d sym a tax : s_neg a = false ->
    dividend_line d sym a tax = print_txn {| x_date := d; x_tick := sym; x_op := DDividend (usd a) (charge tax) |}.
  Proof.
    intros Ha. unfold dividend_line, print_txn. cbn [x_date x_tick x_op]. rewrite (charge_clause KW_TAX tax).
    rewrite (print_sdec_pos a Ha). unfold print_money, usd. cbn [m_amt m_cur].
    destruct (sdec_pos tax); rewrite <- ?app_assoc; reflexivity.
  Qed.

  Lemma wf_usd x : dec_ok (s_dec x) = true -> wf_cur vc USD -> wf_money vc (usd x).
  Proof. intros H Hc. split; [exact H|exact Hc]. Qed.
  Lemma wf_charge x : dec_ok (s_dec x) = true -> wf_cur vc USD -> wf_cur vc GBP -> wf_money vc (charge x).
  Proof. intros H Hu Hg. unfold charge. destruct (sdec_pos x); [exact (wf_usd x H Hu)|]. split; [reflexivity|exact Hg]. Qed.

  (* a line the reader accepts or passes over *)
  Definition line_good (l : text) : Prop := no_nl l /\ (parse_line vc l = LBlank \/ exists t, parse_line vc l = LTx t None).
  Definition read_line (l : text) : list dtxn := match parse_line vc l with LTx t None => [t] | _ => [] end.
  Definition read_lines (ls : list text) : list dtxn := flat_map read_line ls.

  Lemma good_results ls : Forall line_good ls -> forall n,
    first_fail n (map (parse_line vc) ls) = None /\ collect n (map (parse_line vc) ls) = inr (read_lines ls).
  Proof.
    induction 1 as [|l r [_ Hl] _ IH]; intros n; cbn [map first_fail collect read_lines flat_map]; [split; reflexivity|].
    destruct (IH (S n)) as [IH1 IH2]. fold (read_lines r). unfold read_line.
    destruct Hl as [E|[t E]]; rewrite E; cbn [first_fail collect app]; (split; [exact IH1|]); rewrite IH2; reflexivity.
  Qed.

  Theorem good_text_parses ls : Forall line_good ls -> ls <> [] -> parse vc (join_lines ls) = inr (read_lines ls).
  Proof.
    intros H Hne. unfold parse. rewrite (split_join ls); [|exact (Forall_impl _ (fun l Hl => proj1 Hl) H)|exact Hne].
    destruct (good_results ls H 1%nat) as [E1 E2]. rewrite E1. exact E2.
  Qed.

  Lemma no_nl_sanitize s : no_nl (sanitize s).
  Proof.
    unfold no_nl, sanitize. apply forallb_forall. intros c Hc. apply in_map_iff in Hc. destruct Hc as (c0 & <- & _).
    destruct (is_nl c0) eqn:E; [reflexivity|]. rewrite E. reflexivity.
  Qed.
  Lemma comment_good s : line_good (comment_line s) /\ read_line (comment_line s) = [].
  Proof.
    split; [split|].
    - unfold comment_line. apply no_nl_app; [reflexivity|apply no_nl_sanitize].
    - left. apply comment_line_blank.
    - unfold read_line. rewrite comment_line_blank. reflexivity.
  Qed.
  Lemma empty_good : line_good [] /\ read_line [] = [].
  Proof. split; [split; [reflexivity|left; reflexivity]|reflexivity]. Qed.

  Lemma printed_good t : wf_txn vc t -> line_good (print_txn t) /\ read_line (print_txn t) = [norm_txn t].
  Proof.
    intros H. pose proof (parse_line_print vc t H) as E. split; [split; [exact (no_nl_print_txn vc t H)|right; eexists; exact E]|].
    unfold read_line. rewrite E. reflexivity.
  Qed.

  Definition denotes (t : cgt) : list dtxn := match txn_of_cgt t with Some x => [norm_txn x] | None => [] end.

  Theorem cgt_lines_good t : cgt_ok t -> Forall line_good (cgt_lines t) /\ read_lines (cgt_lines t) = denotes t.
  Proof.
    destruct t as [d sym q p e c|d sym q p e|d sym a tax|c]; cbn [cgt_ok cgt_lines denotes txn_of_cgt].
    - intros (Hd & Hs & [Hqn Hq] & [Hpn Hp] & He & Hu & Hg).
      destruct (trade_line_buy d sym q p e c Hqn Hpn) as [El _]. rewrite El.
      assert (W : wf_txn vc {| x_date := d; x_tick := sym; x_op := DBuy (s_dec q) (usd p) (charge e) |}).
      { split; [exact Hd|]. split; [exact Hs|]. cbn [x_op wf_op]. split; [exact Hq|]. split; [exact (wf_usd p Hp Hu)|exact (wf_charge e He Hu Hg)]. }
      destruct (printed_good _ W) as [G R]. destruct c as [c'|]; cbn [app].
      + destruct (comment_good c') as [Gc Rc]. split; [constructor; [exact Gc|constructor; [exact G|constructor]]|].
        unfold read_lines. cbn [flat_map]. rewrite Rc, R. reflexivity.
      + split; [constructor; [exact G|constructor]|]. unfold read_lines. cbn [flat_map]. rewrite R. reflexivity.
    - intros (Hd & Hs & [Hqn Hq] & [Hpn Hp] & He & Hu & Hg). rewrite (trade_line_sell d sym q p e Hqn Hpn).
      assert (W : wf_txn vc {| x_date := d; x_tick := sym; x_op := DSell (s_dec q) (usd p) (charge e) |}).
      { split; [exact Hd|]. split; [exact Hs|]. cbn [x_op wf_op]. split; [exact Hq|]. split; [exact (wf_usd p Hp Hu)|exact (wf_charge e He Hu Hg)]. }
      destruct (printed_good _ W) as [G R]. split; [constructor; [exact G|constructor]|]. unfold read_lines. cbn [flat_map]. rewrite R. reflexivity.
    - intros (Hd & Hs & [Han Ha] & Ht & Hu & Hg). rewrite (dividend_line_print d sym a tax Han).
      assert (W : wf_txn vc {| x_date := d; x_tick := sym; x_op := DDividend (usd a) (charge tax) |}).
      { split; [exact Hd|]. split; [exact Hs|]. cbn [x_op wf_op]. split; [exact (wf_usd a Ha Hu)|exact (wf_charge tax Ht Hu Hg)]. }
      destruct (printed_good _ W) as [G R]. split; [constructor; [exact G|constructor]|]. unfold read_lines. cbn [flat_map]. rewrite R. reflexivity.
    - intros _. destruct (comment_good c) as [G R]. split; [constructor; [exact G|constructor]|]. unfold read_lines. cbn [flat_map]. rewrite R. reflexivity.
  Qed.

  Lemma read_lines_app a b : read_lines (a ++ b) = read_lines a ++ read_lines b.
  Proof. unfold read_lines. apply flat_map_app. Qed.

  Theorem records_good ts : Forall cgt_ok ts -> Forall line_good (flat_map cgt_lines ts) /\ read_lines (flat_map cgt_lines ts) = flat_map denotes ts.
  Proof.
    induction 1 as [|t r Ht _ [IH1 IH2]]; cbn [flat_map]; [split; [constructor|reflexivity]|].
    destruct (cgt_lines_good t Ht) as [G R]. split; [apply Forall_app; split; assumption|]. rewrite read_lines_app, R, IH2. reflexivity.
  Qed.

  (* the whole output: any header of comment lines and empty lines, then the records' lines *)
  Definition header_ok (h : list text) : Prop := Forall (fun l => l = [] \/ exists s, l = comment_line s) h.
  Theorem output_parses h ts : header_ok h -> Forall cgt_ok ts -> h ++ flat_map cgt_lines ts <> [] ->
    parse vc (join_lines (h ++ flat_map cgt_lines ts)) = inr (flat_map denotes ts).
  Proof.
    intros Hh Ht Hne. destruct (records_good ts Ht) as [G R].
    assert (Gh : Forall line_good h /\ read_lines h = []).
    { clear Hne. induction Hh as [|l r Hl _ [IH1 IH2]]; [split; [constructor|reflexivity]|].
      assert (X : line_good l /\ read_line l = []) by (destruct Hl as [->|[s0 ->]]; [exact empty_good|exact (comment_good s0)]).
      destruct X as [X1 X2]. split; [constructor; assumption|]. unfold read_lines in *. cbn [flat_map]. rewrite X2, IH2. reflexivity. }
    destruct Gh as [Gh Rh]. rewrite (good_text_parses _ (proj2 (Forall_app _ _ _) (conj Gh G)) Hne), read_lines_app, Rh, R. reflexivity.
  Qed.

  (* the shape of what convert returns: a header of comment lines and one empty line, then the lines of the emitted records in their sorted order *)
  Theorem convert_shape lb rows aws o : convert lb rows aws = Ok o ->
    exists h records, o_lines o = h ++ flat_map cgt_lines records /\ header_ok h /\ h <> [].
  Proof.
    unfold convert.
    destruct (match aws with Some a => match build_awards a [] with Ok m => Ok (Some m) | Err e => Err e end | None => Ok None end) as [awards|e]; [|discriminate].
    destruct (decode_all rows) as [items|e]; [|discriminate]. cbv zeta.
    match goal with |- context [steps lb awards ?st0 items] => destruct (steps lb awards st0 items) as [st|e]; [|discriminate] end.
    match goal with |- Ok {| o_lines := ?Hd ++ flat_map cgt_lines ?R; o_warnings := _; o_skipped := _ |} = Ok o -> _ =>
      intros H; exists Hd, R end.
    injection H as <-. split; [reflexivity|]. split.
    - unfold header_ok. repeat (apply Forall_app; split).
      + constructor; [right; eexists; reflexivity|]. constructor; [right; eexists; reflexivity|constructor].
      + destruct (Nat.ltb 0 _); [constructor; [right; eexists; reflexivity|constructor]|constructor].
      + constructor; [left; reflexivity|constructor].
    - discriminate.
  Qed.

  Theorem convert_output_parses lb rows aws o : convert lb rows aws = Ok o ->
    exists h records, o_lines o = h ++ flat_map cgt_lines records /\
      (Forall cgt_ok records -> parse vc (join_lines (o_lines o)) = inr (flat_map denotes records)).
  Proof.
    intros H. destruct (convert_shape lb rows aws o H) as (h & records & E & Hh & Hne). exists h, records. split; [exact E|].
    intros Hok. rewrite E. apply output_parses; [exact Hh|exact Hok|]. destruct h; [congruence|discriminate].
  Qed.
End V.
