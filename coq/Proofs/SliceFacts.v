(* A report restricted to one tax year is the slice of the all-years report (C07). *)
From Coq Require Import QArith Qcanon ZArith List Bool String Lia.
Require Import CGT.Model.Num CGT.Model.Date CGT.Model.Ledger CGT.Model.Match CGT.Model.Agg CGT.Model.Report CGT.Model.Config
               CGT.Proofs.DateFacts CGT.Proofs.SortFacts.
Import ListNotations.

Lemma in_range_P0 y z : in_range P0 y z = in_range46 y z. Proof. reflexivity. Qed.
Lemma in_year_P0 y z : in_year P0 y z = in_year46 y z. Proof. reflexivity. Qed.

Definition dated_in_sweep (ds : list disposal) : Prop := forall d, In d ds -> (sweep_lo <= d_date d < sweep_lo + 74144)%Z.

Lemma filter_ext_in' {A} (f g : A -> bool) l : (forall x, In x l -> f x = g x) -> filter f l = filter g l.
Proof.
  induction l as [|x r IH]; intros H; cbn [filter]; [reflexivity|].
  rewrite (H x (or_introl eq_refl)), IH; [reflexivity|]. intros y Hy. apply H. right. exact Hy.
Qed.

Lemma disposals_range_year y ds : (1900 <= y <= 2100)%Z -> dated_in_sweep ds ->
  disposals_in_range P0 y ds = disposals_in P0 y ds.
Proof.
  intros Hy Hs. unfold disposals_in_range, disposals_in. apply filter_ext_in'. intros d Hd.
  rewrite in_range_P0, in_year_P0. apply range_is_year; [exact Hy|apply Hs; exact Hd].
Qed.

Theorem filter_is_slice cfg l y r_all r_y : (1900 <= y <= 2100)%Z ->
  dated_in_sweep (sort_disposals (sec_disposals P0 (eval_all P0 l))) ->
  report_of P0 cfg None l = inr r_all -> report_of P0 cfg (Some y) l = inr r_y ->
  let ds := sort_disposals (sec_disposals P0 (eval_all P0 l)) in
  r_holdings r_y = r_holdings r_all /\
  r_years r_y = [ysum_for P0 cfg l ds y] /\
  (In y (years_of P0 ds) -> In (ysum_for P0 cfg l ds y) (r_years r_all)) /\
  (~ In y (years_of P0 ds) -> y_disposals (ysum_for P0 cfg l ds y) = []).
Proof.
  intros Hy Hsw Ha Hf. cbn zeta. unfold report_of in *.
  destruct (sec_errors (eval_all P0 l)); [|discriminate].
  set (ds := sort_disposals (sec_disposals P0 (eval_all P0 l))) in *.
  destruct (bad_year_errors P0 ds); [|discriminate].
  destruct (ex_errors cfg (years_of P0 ds)); [|discriminate].
  destruct (negb (year_range_ok P0 y)); [discriminate|].
  destruct (lookup_ex cfg y); [|discriminate].
  injection Ha as <-. injection Hf as <-. cbn [r_holdings r_years].
  split; [reflexivity|]. split.
  - unfold ysum_filtered, ysum_for. rewrite disposals_range_year by assumption. reflexivity.
  - split.
    + intros Hin. apply in_map. exact Hin.
    + intros Hn. unfold ysum_for, mk_ysum; cbn [y_disposals]. unfold disposals_in.
      (* a disposal in year y would put y among the years *)
      induction ds as [|d r IH]; [reflexivity|]. cbn [filter].
      assert (Hnr : ~ In y (years_of P0 r)).
      { intro H. apply Hn. unfold years_of in *. cbn [flat_map]. destruct (disp_year P0 d); [|exact H].
        cbn [app]. unfold sort_uniq in *. cbn [fold_right].
        apply (SortFacts.insert_uniq_in Z.compare SortFacts.Zcmp_eq). right. exact H. }
      destruct (in_year P0 y (d_date d)) eqn:E.
      * exfalso. apply Hn. unfold years_of, in_year, disp_year in *. cbn [flat_map].
        destruct (tax_year_of_days P0 (d_date d)) as [y'|]; [|discriminate]. apply Z.eqb_eq in E. subst y'.
        cbn [app]. unfold sort_uniq. cbn [fold_right]. apply (SortFacts.insert_uniq_in Z.compare SortFacts.Zcmp_eq). left. reflexivity.
      * apply IH; [intros x Hx; apply Hsw; right; exact Hx|exact Hnr].
Qed.
