(* Concrete ledgers used as non-vacuity witnesses beside the theorems. *)
From Coq Require Import QArith Qcanon ZArith List Bool Sorted Lia.
Require Import CGT.Model.Num CGT.Model.Match CGT.Proofs.NumFacts CGT.Proofs.MatchFacts CGT.Proofs.MatchInv.
Import ListNotations.
Open Scope Qc_scope.

Definition qz (z : Z) : Qc := Q2Qc (inject_Z z).
Definition mkday (z : Z) (b bc : Z) (hb : bool) (s sg sf : Z) (hs : bool) (ra : Z) : day :=
  {| dt := z; bq := qz b; bcost := qz bc; hasbuy := hb; sq := qz s; sgross := qz sg; sfees := qz sf; hassell := hs;
     evs := []; ratio := qz ra |}.

(* BUY 100 @ 1 (day 0); SELL 30 (day 31) and SPLIT 2 that day; BUY 20 + SELL 5 (day 33); SELL 40 (day 80) *)
Definition ex1 : list day :=
  [ mkday 0 100 100 true 0 0 0 false 1;
    mkday 31 0 0 false 30 60 1 true 2;
    mkday 33 20 60 true 5 10 0 true 1;
    mkday 80 0 0 false 40 80 2 true 1 ].

Lemma ex1_wf : wf_days ex1.
Proof.
  intros d Hd. cbn [ex1 In] in Hd.
  repeat (destruct Hd as [<-|Hd]; [repeat split; intros; try discriminate; reflexivity|]). destruct Hd.
Qed.
Lemma ex1_sorted : sorted_days ex1.
Proof. unfold sorted_days, ex1. repeat (constructor; [|repeat (constructor; [cbn; lia|]); constructor]). constructor. Qed.
Lemma ex1_runs : exists s, run 30 ex1 = inr s /\ List.length (m_disp s) = 3%nat /\ qeqb (m_pq s) (qz 115) = true.
Proof. eexists. split; [vm_compute; reflexivity|]. split; reflexivity. Qed.

(* an uncovered history: BUY 100; SELL 100; SELL 100 next day; BUY 100 nine days later *)
Definition ex_uncovered : list day :=
  [ mkday 0 100 100 true 0 0 0 false 1;
    mkday 31 0 0 false 100 200 0 true 1;
    mkday 32 0 0 false 100 200 0 true 1;
    mkday 40 100 300 true 0 0 0 false 1 ].
Lemma ex_uncovered_wf : wf_days ex_uncovered.
Proof.
  intros d Hd. cbn [ex_uncovered In] in Hd.
  repeat (destruct Hd as [<-|Hd]; [repeat split; intros; try discriminate; reflexivity|]). destruct Hd.
Qed.
Lemma ex_uncovered_sorted : sorted_days ex_uncovered.
Proof. unfold sorted_days, ex_uncovered. repeat (constructor; [|repeat (constructor; [cbn; lia|]); constructor]). constructor. Qed.
Lemma ex_uncovered_refused : first_uncovered 0 ex_uncovered = Some 32%Z /\ run 30 ex_uncovered = inl (EExceedsHolding 32).
Proof. split; vm_compute; reflexivity. Qed.
