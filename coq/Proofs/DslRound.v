(* The DSL round trip: reading what the writer wrote gives back the transactions (up to the currency label of a zero
   fee or tax, which the writer omits). *)
From Coq Require Import ZArith NArith List Bool Ascii String Lia.
Require Import CGT.Model.Date CGT.Model.Dsl CGT.Proofs.DslFacts CGT.Proofs.DecFacts.
Import ListNotations.
Open Scope N_scope.

Ltac Zify.zify_post_hook ::= Z.div_mod_to_equations.

(* ---------- character classes ---------- *)
Ltac cls :=
  unfold is_alnum, is_alpha, is_upper, is_lower, is_digit, is_ws, is_hash, is_nl in *;
  repeat match goal with
  | |- context [N.leb ?a ?b] => destruct (N.leb_spec a b)
  | |- context [N.eqb ?a ?b] => destruct (N.eqb_spec a b)
  | H : context [N.leb ?a ?b] |- _ => destruct (N.leb_spec a b)
  | H : context [N.eqb ?a ?b] |- _ => destruct (N.eqb_spec a b)
  end; cbn [andb orb negb] in *; try discriminate; try reflexivity; try lia.

Lemma alnum_not_blank c : is_alnum c = true -> is_ws c = false /\ is_hash c = false /\ is_nl c = false.
Proof. intros H. repeat split; cls. Qed.
Lemma digit_alnum c : is_digit c = true -> is_alnum c = true.
Proof. intros H. cls. Qed.
Lemma upper_alnum c : is_upper c = true -> is_alnum c = true.
Proof. intros H. cls. Qed.
Lemma upper_id c : is_lower c = false -> upper c = c.
Proof. intros H. unfold upper. rewrite H. reflexivity. Qed.
Lemma upper_not_lower c : is_upper c = true -> is_lower c = false.
Proof. intros H. cls. Qed.
Lemma code_inj a b : code a = code b -> a = b.
Proof. unfold code. intros H. rewrite <- (ascii_N_embedding a), <- (ascii_N_embedding b), H. reflexivity. Qed.
Lemma code_lt c : code c < 256.
Proof. unfold code. apply N_ascii_bounded. Qed.

Definition SPC : ascii := ch 32.
Lemma sp_class : is_ws SPC = true /\ is_alnum SPC = false /\ is_digit SPC = false /\ code SPC = 32.
Proof. repeat split. Qed.

(* what may follow a token: the end of the line or a space *)
Definition ends (rest : text) : Prop := rest = [] \/ exists r, rest = SPC :: r.
Lemma ends_nil : ends []. Proof. left. reflexivity. Qed.
Lemma ends_sp r : ends (SP ++ r). Proof. right. exists r. reflexivity. Qed.
Lemma ends_stops rest : ends rest -> stops rest.
Proof. intros [->|[r ->]]; [exact I|]. split; [reflexivity|discriminate]. Qed.

(* ---------- span, keywords, skipping ---------- *)
Lemma span_app (p : ascii -> bool) s rest : forallb p s = true ->
  (match rest with [] => True | c :: _ => p c = false end) -> span p (s ++ rest) = (s, rest).
Proof.
  intros H Hr. induction s as [|c r IH]; cbn [app].
  - destruct rest as [|c r]; [reflexivity|]. cbn [span]. rewrite Hr. reflexivity.
  - cbn [forallb] in H. apply andb_true_iff in H. destruct H as [Hc Hs]. cbn [span]. rewrite Hc, (IH Hs). reflexivity.
Qed.

Definition no_lower (s : text) : Prop := forallb (fun c => negb (is_lower c)) s = true.
Lemma kw_prefix_app kw s : no_lower kw -> kw_prefix kw (kw ++ s) = Some s.
Proof.
  unfold no_lower. induction kw as [|k r IH]; intros H; cbn [app kw_prefix]; [reflexivity|].
  cbn [forallb] in H. apply andb_true_iff in H. destruct H as [Hk Hr]. apply negb_true_iff in Hk.
  rewrite (upper_id k Hk), N.eqb_refl. apply IH. exact Hr.
Qed.

Definition tok (t : text) : Prop := exists c r, t = c :: r /\ is_ws c = false /\ is_hash c = false.
Lemma skip_tok t rest : tok t -> skip (t ++ rest) = t ++ rest.
Proof. intros (c & r & -> & Hw & Hh). unfold skip. cbn [app skip_c]. rewrite Hw, Hh. reflexivity. Qed.
Lemma skip_sp_tok t rest : tok t -> skip (SP ++ t ++ rest) = t ++ rest.
Proof. intros H. rewrite skip_ws_prefix by reflexivity. apply skip_tok. exact H. Qed.
Lemma skip_nil : skip [] = []. Proof. reflexivity. Qed.

Lemma tok_alnum t : t <> [] -> forallb is_alnum t = true -> tok t.
Proof.
  destruct t as [|c r]; [congruence|]. intros _ H. cbn [forallb] in H. apply andb_true_iff in H. destruct H as [Hc _].
  destruct (alnum_not_blank c Hc) as (A & B & _). exists c, r. repeat split; assumption.
Qed.

(* ---------- dates ---------- *)
Definition wf_date (d : date) : Prop := valid_date d = true /\ (0 <= dy d <= 9999)%Z.

Lemma dig x : x < 10 -> is_digit (ch (48 + x)) = true /\ digit_val (ch (48 + x)) = x.
Proof. apply digit_char. Qed.

Lemma days_in_month_le y m : (days_in_month y m <= 31)%Z.
Proof. unfold days_in_month. destruct (m =? 2)%Z; [destruct (is_leap y); lia|]. destruct ((m =? 4) || (m =? 6) || (m =? 9) || (m =? 11))%Z; lia. Qed.

Section R.
  Context (vc : text -> bool).

  Lemma p_date_print d rest : wf_date d -> p_date (print_date d ++ rest) = POk d None rest.
  Proof.
    intros [Hv [Hy0 Hy1]]. pose proof Hv as Hv'. unfold valid_date in Hv'.
    repeat (apply andb_true_iff in Hv'; destruct Hv' as [Hv' ?]).
    pose proof (days_in_month_le (dy d) (dm d)).
    assert (Hm : (1 <= dm d <= 12)%Z) by lia. assert (Hd : (1 <= dd d <= 31)%Z) by lia.
    unfold print_date, four_digits, two_digits. cbn [app].
    set (y := Z.to_N (dy d)). set (m := Z.to_N (dm d)). set (a := Z.to_N (dd d)).
    assert (Hy : y < 10000) by (unfold y; lia). assert (Hmm : m < 100) by (unfold m; lia). assert (Ha : a < 100) by (unfold a; lia).
    destruct (dig (y / 1000)) as [Y1 V1]; [lia|]. destruct (dig ((y / 100) mod 10)) as [Y2 V2]; [lia|].
    destruct (dig ((y / 10) mod 10)) as [Y3 V3]; [lia|]. destruct (dig (y mod 10)) as [Y4 V4]; [lia|].
    destruct (dig (m / 10)) as [M1 W1]; [lia|]. destruct (dig (m mod 10)) as [M2 W2]; [lia|].
    destruct (dig (a / 10)) as [D1 X1]; [lia|]. destruct (dig (a mod 10)) as [D2 X2]; [lia|].
    unfold p_date. rewrite Y1, Y2, Y3, Y4, M1, M2, D1, D2. replace (code (ch 45) =? 45) with true by reflexivity. cbn [andb].
    cbn [digits_val]. rewrite V1, V2, V3, V4, W1, W2, X1, X2.
    assert (E : {| dy := Z.of_N ((((0 * 10 + y / 1000) * 10 + (y / 100) mod 10) * 10 + (y / 10) mod 10) * 10 + y mod 10);
                   dm := Z.of_N ((0 * 10 + m / 10) * 10 + m mod 10); dd := Z.of_N ((0 * 10 + a / 10) * 10 + a mod 10) |} = d).
    { destruct d as [yy mm ddd]. cbn [dy dm dd] in *. f_equal; lia. }
    rewrite E, Hv. reflexivity.
  Qed.

  Lemma print_date_tok d : (0 <= dy d <= 9999)%Z -> exists c r, print_date d = c :: r /\ is_digit c = true.
  Proof.
    intros H. unfold print_date, four_digits. cbn [app]. eexists. eexists. split; [reflexivity|].
    apply dig. assert (Z.to_N (dy d) < 10000) by lia. lia.
  Qed.

  (* ---------- tickers, decimals, money ---------- *)
  Definition wf_tick (t : text) : Prop := t <> [] /\ forallb is_alnum t = true /\ no_lower t.
  Lemma upper_text_id t : no_lower t -> upper_text t = t.
  Proof.
    unfold no_lower, upper_text. induction t as [|c r IH]; intros H; cbn [map]; [reflexivity|].
    cbn [forallb] in H. apply andb_true_iff in H. destruct H as [Hc Hr]. apply negb_true_iff in Hc.
    rewrite (upper_id c Hc), (IH Hr). reflexivity.
  Qed.
  Lemma p_ticker_print t rest : wf_tick t -> ends rest -> p_ticker (t ++ rest) = POk t None rest.
  Proof.
    intros (Hne & Ha & Hl) He. unfold p_ticker.
    rewrite span_app; [|exact Ha|destruct He as [->|[r ->]]; [exact I|reflexivity]].
    cbn [fst snd]. destruct t as [|c r]; [congruence|]. rewrite upper_text_id by exact Hl. reflexivity.
  Qed.

  Lemma p_decimal_print d rest : dec_ok d = true -> ends rest -> p_decimal (print_dec d ++ rest) = POk d None rest.
  Proof.
    intros Hd He. destruct (lex_print_dec d rest Hd (ends_stops rest He)) as (ip & fp & E1 & E2).
    unfold p_decimal. rewrite E1, E2. reflexivity.
  Qed.
  Lemma print_dec_tok d : d_mant d < two96 -> tok (print_dec d).
  Proof.
    intros Hm. destruct (dec_digits_spec d Hm) as (Hdig & _ & Hlen).
    unfold print_dec. fold (dec_digits d). set (ds := dec_digits d) in *.
    assert (exists c r, ds = c :: r /\ is_digit c = true) as (c & r & E & Hc).
    { destruct ds as [|c r]; [cbn [List.length] in Hlen; lia|]. cbn [forallb] in Hdig. apply andb_true_iff in Hdig. destruct Hdig. eauto. }
    destruct (alnum_not_blank c (digit_alnum c Hc)) as (A & B & _).
    destruct (Nat.eqb (d_scale d) 0); [exists c, r; repeat split; assumption|].
    rewrite E in *. cbn [List.length] in *. destruct (S (List.length r) - d_scale d)%nat as [|n] eqn:En; [lia|].
    cbn [firstn app]. eexists. eexists. repeat split; eassumption.
  Qed.
End R.
