(* The DSL round trip: reading what the writer wrote gives back the transactions (up to the currency label of a zero
   fee or tax, which the writer omits). *)
From Coq Require Import ZArith NArith List Bool Ascii String Lia.
Require Import CGT.Model.Date CGT.Model.Dsl CGT.Proofs.DslFacts CGT.Proofs.DecFacts.
Import ListNotations.
Open Scope N_scope.

Ltac Zify.zify_post_hook ::= Z.div_mod_to_equations.

(* ---------- character classes ---------- *)
Ltac cls :=
  unfold is_alnum, is_alpha, is_upper, is_lower, is_digit, is_ws, is_hash, is_nl in *;
  repeat match goal with
  | |- context [N.leb ?a ?b] => destruct (N.leb_spec a b)
  | |- context [N.eqb ?a ?b] => destruct (N.eqb_spec a b)
  | H : context [N.leb ?a ?b] |- _ => destruct (N.leb_spec a b)
  | H : context [N.eqb ?a ?b] |- _ => destruct (N.eqb_spec a b)
  end; cbn [andb orb negb] in *; try discriminate; try reflexivity; try lia.

Lemma alnum_not_blank c : is_alnum c = true -> is_ws c = false /\ is_hash c = false /\ is_nl c = false.
Proof. intros H. repeat split; cls. Qed.
Lemma digit_alnum c : is_digit c = true -> is_alnum c = true.
Proof. intros H. cls. Qed.
Lemma upper_alnum c : is_upper c = true -> is_alnum c = true.
Proof. intros H. cls. Qed.
Lemma upper_id c : is_lower c = false -> upper c = c.
Proof. intros H. unfold upper. rewrite H. reflexivity. Qed.
Lemma upper_not_lower c : is_upper c = true -> is_lower c = false.
Proof. intros H. cls. Qed.
Lemma code_inj a b : code a = code b -> a = b.
Proof. unfold code. intros H. rewrite <- (ascii_N_embedding a), <- (ascii_N_embedding b), H. reflexivity. Qed.
Lemma code_lt c : code c < 256.
Proof. unfold code. apply N_ascii_bounded. Qed.

Definition SPC : ascii := ch 32.
Lemma sp_class : is_ws SPC = true /\ is_alnum SPC = false /\ is_digit SPC = false /\ code SPC = 32.
Proof. repeat split. Qed.

(* what may follow a token: the end of the line or a space *)
Definition ends (rest : text) : Prop := rest = [] \/ exists r, rest = SPC :: r.
Lemma ends_nil : ends []. Proof. left. reflexivity. Qed.
Lemma ends_sp r : ends (SP ++ r). Proof. right. exists r. reflexivity. Qed.
Lemma ends_stops rest : ends rest -> stops rest.
Proof. intros [->|[r ->]]; [exact I|]. split; [reflexivity|discriminate]. Qed.

(* ---------- span, keywords, skipping ---------- *)
Lemma span_app (p : ascii -> bool) s rest : forallb p s = true ->
  (match rest with [] => True | c :: _ => p c = false end) -> span p (s ++ rest) = (s, rest).
Proof.
  intros H Hr. induction s as [|c r IH]; cbn [app].
  - destruct rest as [|c r]; [reflexivity|]. cbn [span]. rewrite Hr. reflexivity.
  - cbn [forallb] in H. apply andb_true_iff in H. destruct H as [Hc Hs]. cbn [span]. rewrite Hc, (IH Hs). reflexivity.
Qed.

Definition no_lower (s : text) : Prop := forallb (fun c => negb (is_lower c)) s = true.
Lemma kw_prefix_app kw s : no_lower kw -> kw_prefix kw (kw ++ s) = Some s.
Proof.
  unfold no_lower. induction kw as [|k r IH]; intros H; cbn [app kw_prefix]; [reflexivity|].
  cbn [forallb] in H. apply andb_true_iff in H. destruct H as [Hk Hr]. apply negb_true_iff in Hk.
  rewrite (upper_id k Hk), N.eqb_refl. apply IH. exact Hr.
Qed.

Definition tok (t : text) : Prop := exists c r, t = c :: r /\ is_ws c = false /\ is_hash c = false.
Lemma skip_tok t rest : tok t -> skip (t ++ rest) = t ++ rest.
Proof. intros (c & r & -> & Hw & Hh). unfold skip. cbn [app skip_c]. rewrite Hw, Hh. reflexivity. Qed.
Lemma skip_sp_tok t rest : tok t -> skip (SP ++ t ++ rest) = t ++ rest.
Proof. intros H. rewrite skip_ws_prefix by reflexivity. apply skip_tok. exact H. Qed.
Lemma skip_nil : skip [] = []. Proof. reflexivity. Qed.

Lemma tok_alnum t : t <> [] -> forallb is_alnum t = true -> tok t.
Proof.
  destruct t as [|c r]; [congruence|]. intros _ H. cbn [forallb] in H. apply andb_true_iff in H. destruct H as [Hc _].
  destruct (alnum_not_blank c Hc) as (A & B & _). exists c, r. repeat split; assumption.
Qed.

(* ---------- dates ---------- *)
Definition wf_date (d : date) : Prop := valid_date d = true /\ (0 <= dy d <= 9999)%Z.

Lemma dig x : x < 10 -> is_digit (ch (48 + x)) = true /\ digit_val (ch (48 + x)) = x.
Proof. apply digit_char. Qed.

Lemma days_in_month_le y m : (days_in_month y m <= 31)%Z.
Proof. unfold days_in_month. destruct (m =? 2)%Z; [destruct (is_leap y); lia|]. destruct ((m =? 4) || (m =? 6) || (m =? 9) || (m =? 11))%Z; lia. Qed.

Lemma four_digit_val y : y < 10000 -> (((0 * 10 + y / 1000) * 10 + (y / 100) mod 10) * 10 + (y / 10) mod 10) * 10 + y mod 10 = y.
Proof.
  intros H. pose proof (N.div_mod y 10 ltac:(discriminate)). pose proof (N.div_mod (y / 10) 10 ltac:(discriminate)).
  pose proof (N.div_mod (y / 100) 10 ltac:(discriminate)).
  assert (y / 10 / 10 = y / 100) by (rewrite N.div_div by discriminate; reflexivity).
  assert (y / 100 / 10 = y / 1000) by (rewrite N.div_div by discriminate; reflexivity).
  lia.
Qed.
Lemma two_digit_val m : (0 * 10 + m / 10) * 10 + m mod 10 = m.
Proof. pose proof (N.div_mod m 10 ltac:(discriminate)). lia. Qed.
Lemma mod10_lt x : x mod 10 < 10. Proof. apply N.mod_lt. discriminate. Qed.


  Lemma p_date_print d rest : wf_date d -> p_date (print_date d ++ rest) = POk d None rest.
  Proof.
    intros [Hv [Hy0 Hy1]]. pose proof Hv as Hv'. unfold valid_date in Hv'.
    repeat (apply andb_true_iff in Hv'; destruct Hv' as [Hv' ?]).
    pose proof (days_in_month_le (dy d) (dm d)).
    assert (Hm : (1 <= dm d <= 12)%Z) by lia. assert (Hd : (1 <= dd d <= 31)%Z) by lia.
    unfold print_date, four_digits, two_digits. cbn [app].
    set (y := Z.to_N (dy d)). set (m := Z.to_N (dm d)). set (a := Z.to_N (dd d)).
    assert (Hy : y < 10000) by (unfold y; lia). assert (Hmm : m < 100) by (unfold m; lia). assert (Ha : a < 100) by (unfold a; lia).
    destruct (dig (y / 1000)) as [Y1 V1]; [lia|]. destruct (dig ((y / 100) mod 10)) as [Y2 V2]; [apply mod10_lt|].
    destruct (dig ((y / 10) mod 10)) as [Y3 V3]; [apply mod10_lt|]. destruct (dig (y mod 10)) as [Y4 V4]; [apply mod10_lt|].
    destruct (dig (m / 10)) as [M1 W1]; [lia|]. destruct (dig (m mod 10)) as [M2 W2]; [apply mod10_lt|].
    destruct (dig (a / 10)) as [D1 X1]; [lia|]. destruct (dig (a mod 10)) as [D2 X2]; [apply mod10_lt|].
    unfold p_date. rewrite Y1, Y2, Y3, Y4, M1, M2, D1, D2. replace (code (ch 45) =? 45) with true by reflexivity. cbn [andb].
    cbn [digits_val]. rewrite V1, V2, V3, V4, W1, W2, X1, X2.
    assert (E : {| dy := Z.of_N ((((0 * 10 + y / 1000) * 10 + (y / 100) mod 10) * 10 + (y / 10) mod 10) * 10 + y mod 10);
                   dm := Z.of_N ((0 * 10 + m / 10) * 10 + m mod 10); dd := Z.of_N ((0 * 10 + a / 10) * 10 + a mod 10) |} = d).
    { rewrite (four_digit_val y Hy), !two_digit_val. unfold y, m, a. destruct d as [yy mm ddd]. cbn [dy dm dd] in *. f_equal; lia. }
    rewrite E, Hv. reflexivity.
  Qed.

  Lemma print_date_tok d : (0 <= dy d <= 9999)%Z -> exists c r, print_date d = c :: r /\ is_digit c = true.
  Proof.
    intros H. unfold print_date, four_digits. cbn [app]. eexists. eexists. split; [reflexivity|].
    apply dig. assert (Z.to_N (dy d) < 10000) by lia. lia.
  Qed.

  (* ---------- tickers, decimals, money ---------- *)
  Definition wf_tick (t : text) : Prop := t <> [] /\ forallb is_alnum t = true /\ no_lower t.
  Lemma upper_text_id t : no_lower t -> upper_text t = t.
  Proof.
    unfold no_lower, upper_text. induction t as [|c r IH]; intros H; cbn [map]; [reflexivity|].
    cbn [forallb] in H. apply andb_true_iff in H. destruct H as [Hc Hr]. apply negb_true_iff in Hc.
    rewrite (upper_id c Hc), (IH Hr). reflexivity.
  Qed.
  Lemma p_ticker_print t rest : wf_tick t -> ends rest -> p_ticker (t ++ rest) = POk t None rest.
  Proof.
    intros (Hne & Ha & Hl) He. unfold p_ticker.
    rewrite span_app; [|exact Ha|destruct He as [->|[r ->]]; [exact I|reflexivity]].
    cbn [fst snd]. destruct t as [|c r]; [congruence|]. rewrite upper_text_id by exact Hl. reflexivity.
  Qed.

  Lemma p_decimal_print d rest : dec_ok d = true -> ends rest -> p_decimal (print_dec d ++ rest) = POk d None rest.
  Proof.
    intros Hd He. destruct (lex_print_dec d rest Hd (ends_stops rest He)) as (ip & fp & E1 & E2).
    unfold p_decimal. rewrite E1, E2. reflexivity.
  Qed.
  Lemma print_dec_tok d : d_mant d < two96 -> tok (print_dec d).
  Proof.
    intros Hm. destruct (dec_digits_spec d Hm) as (Hdig & _ & Hlen).
    unfold print_dec. fold (dec_digits d). set (ds := dec_digits d) in *.
    assert (exists c r, ds = c :: r /\ is_digit c = true) as (c & r & E & Hc).
    { destruct ds as [|c r]; [cbn [List.length] in Hlen; lia|]. cbn [forallb] in Hdig. apply andb_true_iff in Hdig. destruct Hdig. eauto. }
    destruct (alnum_not_blank c (digit_alnum c Hc)) as (A & B & _).
    destruct (Nat.eqb (d_scale d) 0); [exists c, r; repeat split; assumption|].
    rewrite E in *. cbn [List.length] in *. destruct (S (List.length r) - d_scale d)%nat as [|n] eqn:En; [lia|].
    cbn [firstn app]. eexists. eexists. repeat split; eassumption.
  Qed.


Section R2.
  Context (vc : text -> bool).

  (* ---------- currency codes ---------- *)
  Definition wf_cur (c : text) : Prop :=
    exists a b e, c = [a; b; e] /\ is_upper a = true /\ is_upper b = true /\ is_upper e = true /\
                  vc c = true /\ c <> KW_TAX /\ c <> KW_BUY.
  Definition wf_money (m : money) : Prop := dec_ok (m_amt m) = true /\ wf_cur (m_cur m).

  Lemma starts_kw3 k1 k2 k3 a b e rest : is_lower a = false -> is_lower b = false -> is_lower e = false ->
    [a; b; e] <> [k1; k2; k3] -> starts_kw [k1; k2; k3] (a :: b :: e :: rest) = false.
  Proof.
    intros La Lb Le Hne. unfold starts_kw. cbn [kw_prefix]. rewrite (upper_id a La), (upper_id b Lb), (upper_id e Le).
    destruct (N.eqb_spec (code a) (code k1)) as [E1|]; [|reflexivity].
    destruct (N.eqb_spec (code b) (code k2)) as [E2|]; [|reflexivity].
    destruct (N.eqb_spec (code e) (code k3)) as [E3|]; [|reflexivity].
    exfalso. apply Hne. rewrite (code_inj _ _ E1), (code_inj _ _ E2), (code_inj _ _ E3). reflexivity.
  Qed.
  Lemma starts_kw4 k1 k2 k3 k4 kr a b e rest : ends rest -> code k4 <> 32 ->
    starts_kw (k1 :: k2 :: k3 :: k4 :: kr) (a :: b :: e :: rest) = false.
  Proof.
    intros He Hk. unfold starts_kw. cbn [kw_prefix].
    destruct (code (upper a) =? code k1); [|reflexivity]. destruct (code (upper b) =? code k2); [|reflexivity].
    destruct (code (upper e) =? code k3); [|reflexivity].
    destruct He as [->|[r ->]]; cbn [kw_prefix]; [reflexivity|].
    replace (code (upper SPC)) with 32 by reflexivity.
    destruct (N.eqb_spec 32 (code k4)) as [E|]; [|reflexivity]. exfalso. apply Hk. symmetry. exact E.
  Qed.

  Lemma lex_currency_print c rest : wf_cur c -> ends rest -> lex_currency (c ++ rest) = Some (c, rest).
  Proof.
    intros (a & b & e & -> & Ua & Ub & Ue & _ & Htax & Hbuy) He.
    pose proof (upper_not_lower a Ua) as La. pose proof (upper_not_lower b Ub) as Lb. pose proof (upper_not_lower e Ue) as Le.
    unfold lex_currency. cbn [app]. unfold KW_TAX, KW_BUY, KW_FEES, KW_TOTAL, KW_RATIO, KW_SELL, T. cbn [list_ascii_of_string].
    rewrite (starts_kw3 "T" "A" "X" a b e rest La Lb Le Htax), (starts_kw3 "B" "U" "Y" a b e rest La Lb Le Hbuy).
    rewrite (starts_kw4 "F" "E" "E" "S" [] a b e rest He ltac:(discriminate)).
    rewrite (starts_kw4 "T" "O" "T" "A" ["L"%char] a b e rest He ltac:(discriminate)).
    rewrite (starts_kw4 "R" "A" "T" "I" ["O"%char] a b e rest He ltac:(discriminate)).
    rewrite (starts_kw4 "S" "E" "L" "L" [] a b e rest He ltac:(discriminate)).
    cbn [orb]. unfold is_alpha. rewrite Ua, Ub, Ue. cbn [orb andb].
    rewrite (upper_id a La), (upper_id b Lb), (upper_id e Le).
    destruct He as [->|[r ->]]; reflexivity.
  Qed.

  Lemma tok_cur c : wf_cur c -> tok c.
  Proof.
    intros (a & b & e & -> & Ua & _). destruct (alnum_not_blank a (upper_alnum a Ua)) as (A & B & _).
    exists a, [b; e]. repeat split; assumption.
  Qed.

  Lemma p_money_print m rest : wf_money m -> ends rest ->
    p_money vc (print_dec (m_amt m) ++ SP ++ m_cur m ++ rest) = POk m None rest.
  Proof.
    intros [Hd Hc] He. unfold p_money. rewrite (p_decimal_print (m_amt m) _ Hd (ends_sp _)).
    rewrite (skip_sp_tok _ rest (tok_cur _ Hc)), (lex_currency_print _ _ Hc He).
    destruct Hc as (a & b & e & Ec & _ & _ & _ & Hv & _). rewrite Hv. destruct m; reflexivity.
  Qed.

  Lemma dec_ok_mant d : dec_ok d = true -> d_mant d < two96.
  Proof. unfold dec_ok. intros H. apply andb_true_iff in H. destruct H as [H _]. apply N.ltb_lt. exact H. Qed.

  Lemma p_kw_money_print kw m rest : no_lower kw -> wf_money m -> ends rest ->
    p_kw_money vc kw (kw ++ SP ++ print_dec (m_amt m) ++ SP ++ m_cur m ++ rest) = POk m None rest.
  Proof.
    intros Hk Hm He. unfold p_kw_money. rewrite (kw_prefix_app kw _ Hk).
    rewrite (skip_sp_tok _ _ (print_dec_tok _ (dec_ok_mant _ (proj1 Hm)))). apply p_money_print; assumption.
  Qed.

  Definition opt_flat (kw : text) (m : money) : text :=
    if is_zero_money m then [] else SP ++ kw ++ SP ++ print_dec (m_amt m) ++ SP ++ m_cur m.
  Lemma opt_clause_flat kw m : opt_clause kw m = opt_flat kw m.
  Proof. unfold opt_clause, opt_flat, print_money. destruct (is_zero_money m); [reflexivity|]. repeat rewrite <- app_assoc. reflexivity. Qed.
  Lemma ends_opt_flat kw m : ends (opt_flat kw m).
  Proof. unfold opt_flat. destruct (is_zero_money m); [apply ends_nil|apply ends_sp]. Qed.

  Lemma p_opt_print kw m : no_lower kw -> tok kw -> wf_money m ->
    p_opt_kw_money vc kw (opt_flat kw m) = POk (norm_money m) None [].
  Proof.
    intros Hk Ht Hm. unfold p_opt_kw_money, opt_flat, norm_money. destruct (is_zero_money m).
    - rewrite skip_nil. destruct Ht as (c & r & -> & _). reflexivity.
    - rewrite (skip_sp_tok kw _ Ht), (kw_prefix_app kw _ Hk).
      rewrite (skip_sp_tok _ _ (print_dec_tok _ (dec_ok_mant _ (proj1 Hm)))).
      replace (m_cur m) with (m_cur m ++ []) by apply app_nil_r.
      rewrite (p_money_print m [] Hm ends_nil). reflexivity.
  Qed.
End R2.
