(* The DSL round trip: reading what the writer wrote gives back the transactions (up to the currency label of a zero
   fee or tax, which the writer omits). *)
From Coq Require Import ZArith NArith List Bool Ascii String Lia.
Require Import CGT.Model.Date CGT.Model.Dsl CGT.Proofs.DslFacts CGT.Proofs.DecFacts.
Import ListNotations.
Open Scope N_scope.

Ltac Zify.zify_post_hook ::= Z.div_mod_to_equations.

(* ---------- character classes ---------- *)
Ltac cls :=
  unfold is_alnum, is_alpha, is_upper, is_lower, is_digit, is_ws, is_hash, is_nl in *;
  repeat match goal with
  | |- context [N.leb ?a ?b] => destruct (N.leb_spec a b)
  | |- context [N.eqb ?a ?b] => destruct (N.eqb_spec a b)
  | H : context [N.leb ?a ?b] |- _ => destruct (N.leb_spec a b)
  | H : context [N.eqb ?a ?b] |- _ => destruct (N.eqb_spec a b)
  end; cbn [andb orb negb] in *; try discriminate; try reflexivity; try lia.

Lemma alnum_not_blank c : is_alnum c = true -> is_ws c = false /\ is_hash c = false /\ is_nl c = false.
Proof. intros H. repeat split; cls. Qed.
Lemma digit_alnum c : is_digit c = true -> is_alnum c = true.
Proof. intros H. cls. Qed.
Lemma upper_alnum c : is_upper c = true -> is_alnum c = true.
Proof. intros H. cls. Qed.
Lemma upper_id c : is_lower c = false -> upper c = c.
Proof. intros H. unfold upper. rewrite H. reflexivity. Qed.
Lemma upper_not_lower c : is_upper c = true -> is_lower c = false.
Proof. intros H. cls. Qed.
Lemma code_inj a b : code a = code b -> a = b.
Proof. unfold code. intros H. rewrite <- (ascii_N_embedding a), <- (ascii_N_embedding b), H. reflexivity. Qed.
Lemma code_lt c : code c < 256.
Proof. unfold code. apply N_ascii_bounded. Qed.

Definition SPC : ascii := ch 32.
Lemma sp_class : is_ws SPC = true /\ is_alnum SPC = false /\ is_digit SPC = false /\ code SPC = 32.
Proof. repeat split. Qed.

(* what may follow a token: the end of the line or a space *)
Definition ends (rest : text) : Prop := rest = [] \/ exists r, rest = SPC :: r.
Lemma ends_nil : ends []. Proof. left. reflexivity. Qed.
Lemma ends_sp r : ends (SP ++ r). Proof. right. exists r. reflexivity. Qed.
Lemma ends_stops rest : ends rest -> stops rest.
Proof. intros [->|[r ->]]; [exact I|]. split; [reflexivity|discriminate]. Qed.

(* ---------- span, keywords, skipping ---------- *)
Lemma span_app (p : ascii -> bool) s rest : forallb p s = true ->
  (match rest with [] => True | c :: _ => p c = false end) -> span p (s ++ rest) = (s, rest).
Proof.
  intros H Hr. induction s as [|c r IH]; cbn [app].
  - destruct rest as [|c r]; [reflexivity|]. cbn [span]. rewrite Hr. reflexivity.
  - cbn [forallb] in H. apply andb_true_iff in H. destruct H as [Hc Hs]. cbn [span]. rewrite Hc, (IH Hs). reflexivity.
Qed.

Definition no_lower (s : text) : Prop := forallb (fun c => negb (is_lower c)) s = true.
Lemma kw_prefix_app kw s : no_lower kw -> kw_prefix kw (kw ++ s) = Some s.
Proof.
  unfold no_lower. induction kw as [|k r IH]; intros H; cbn [app kw_prefix]; [reflexivity|].
  cbn [forallb] in H. apply andb_true_iff in H. destruct H as [Hk Hr]. apply negb_true_iff in Hk.
  rewrite (upper_id k Hk), N.eqb_refl. apply IH. exact Hr.
Qed.

Definition tok (t : text) : Prop := exists c r, t = c :: r /\ is_ws c = false /\ is_hash c = false.
Lemma skip_tok t rest : tok t -> skip (t ++ rest) = t ++ rest.
Proof. intros (c & r & -> & Hw & Hh). unfold skip. cbn [app skip_c]. rewrite Hw, Hh. reflexivity. Qed.
Lemma skip_sp_tok t rest : tok t -> skip (SP ++ t ++ rest) = t ++ rest.
Proof. intros H. rewrite skip_ws_prefix by reflexivity. apply skip_tok. exact H. Qed.
Lemma skip_nil : skip [] = []. Proof. reflexivity. Qed.

Lemma tok_alnum t : t <> [] -> forallb is_alnum t = true -> tok t.
Proof.
  destruct t as [|c r]; [congruence|]. intros _ H. cbn [forallb] in H. apply andb_true_iff in H. destruct H as [Hc _].
  destruct (alnum_not_blank c Hc) as (A & B & _). exists c, r. repeat split; assumption.
Qed.

(* ---------- dates ---------- *)
Definition wf_date (d : date) : Prop := valid_date d = true /\ (0 <= dy d <= 9999)%Z.

Lemma dig x : x < 10 -> is_digit (ch (48 + x)) = true /\ digit_val (ch (48 + x)) = x.
Proof. apply digit_char. Qed.

Lemma days_in_month_le y m : (days_in_month y m <= 31)%Z.
Proof. unfold days_in_month. destruct (m =? 2)%Z; [destruct (is_leap y); lia|]. destruct ((m =? 4) || (m =? 6) || (m =? 9) || (m =? 11))%Z; lia. Qed.

Lemma four_digit_val y : y < 10000 -> (((0 * 10 + y / 1000) * 10 + (y / 100) mod 10) * 10 + (y / 10) mod 10) * 10 + y mod 10 = y.
Proof.
  intros H. pose proof (N.div_mod y 10 ltac:(discriminate)). pose proof (N.div_mod (y / 10) 10 ltac:(discriminate)).
  pose proof (N.div_mod (y / 100) 10 ltac:(discriminate)).
  assert (y / 10 / 10 = y / 100) by (rewrite N.div_div by discriminate; reflexivity).
  assert (y / 100 / 10 = y / 1000) by (rewrite N.div_div by discriminate; reflexivity).
  lia.
Qed.
Lemma two_digit_val m : (0 * 10 + m / 10) * 10 + m mod 10 = m.
Proof. pose proof (N.div_mod m 10 ltac:(discriminate)). lia. Qed.
Lemma mod10_lt x : x mod 10 < 10. Proof. apply N.mod_lt. discriminate. Qed.


  Lemma p_date_print d rest : wf_date d -> p_date (print_date d ++ rest) = POk d None rest.
  Proof.
    intros [Hv [Hy0 Hy1]]. pose proof Hv as Hv'. unfold valid_date in Hv'.
    repeat (apply andb_true_iff in Hv'; destruct Hv' as [Hv' ?]).
    pose proof (days_in_month_le (dy d) (dm d)).
    assert (Hm : (1 <= dm d <= 12)%Z) by lia. assert (Hd : (1 <= dd d <= 31)%Z) by lia.
    unfold print_date, four_digits, two_digits. cbn [app].
    set (y := Z.to_N (dy d)). set (m := Z.to_N (dm d)). set (a := Z.to_N (dd d)).
    assert (Hy : y < 10000) by (unfold y; lia). assert (Hmm : m < 100) by (unfold m; lia). assert (Ha : a < 100) by (unfold a; lia).
    destruct (dig (y / 1000)) as [Y1 V1]; [lia|]. destruct (dig ((y / 100) mod 10)) as [Y2 V2]; [apply mod10_lt|].
    destruct (dig ((y / 10) mod 10)) as [Y3 V3]; [apply mod10_lt|]. destruct (dig (y mod 10)) as [Y4 V4]; [apply mod10_lt|].
    destruct (dig (m / 10)) as [M1 W1]; [lia|]. destruct (dig (m mod 10)) as [M2 W2]; [apply mod10_lt|].
    destruct (dig (a / 10)) as [D1 X1]; [lia|]. destruct (dig (a mod 10)) as [D2 X2]; [apply mod10_lt|].
    unfold p_date. rewrite Y1, Y2, Y3, Y4, M1, M2, D1, D2. replace (code (ch 45) =? 45) with true by reflexivity. cbn [andb].
    cbn [digits_val]. rewrite V1, V2, V3, V4, W1, W2, X1, X2.
    assert (E : {| dy := Z.of_N ((((0 * 10 + y / 1000) * 10 + (y / 100) mod 10) * 10 + (y / 10) mod 10) * 10 + y mod 10);
                   dm := Z.of_N ((0 * 10 + m / 10) * 10 + m mod 10); dd := Z.of_N ((0 * 10 + a / 10) * 10 + a mod 10) |} = d).
    { rewrite (four_digit_val y Hy), !two_digit_val. unfold y, m, a. destruct d as [yy mm ddd]. cbn [dy dm dd] in *. f_equal; lia. }
    rewrite E, Hv. reflexivity.
  Qed.

  Lemma print_date_tok d : (0 <= dy d <= 9999)%Z -> exists c r, print_date d = c :: r /\ is_digit c = true.
  Proof.
    intros H. unfold print_date, four_digits. cbn [app]. eexists. eexists. split; [reflexivity|].
    apply dig. assert (Z.to_N (dy d) < 10000) by lia. lia.
  Qed.

  (* ---------- tickers, decimals, money ---------- *)
  Definition wf_tick (t : text) : Prop := t <> [] /\ forallb is_alnum t = true /\ no_lower t.
  Lemma upper_text_id t : no_lower t -> upper_text t = t.
  Proof.
    unfold no_lower, upper_text. induction t as [|c r IH]; intros H; cbn [map]; [reflexivity|].
    cbn [forallb] in H. apply andb_true_iff in H. destruct H as [Hc Hr]. apply negb_true_iff in Hc.
    rewrite (upper_id c Hc), (IH Hr). reflexivity.
  Qed.
  Lemma p_ticker_print t rest : wf_tick t -> ends rest -> p_ticker (t ++ rest) = POk t None rest.
  Proof.
    intros (Hne & Ha & Hl) He. unfold p_ticker.
    rewrite span_app; [|exact Ha|destruct He as [->|[r ->]]; [exact I|reflexivity]].
    cbn [fst snd]. destruct t as [|c r]; [congruence|]. rewrite upper_text_id by exact Hl. reflexivity.
  Qed.

  Lemma p_decimal_print d rest : dec_ok d = true -> ends rest -> p_decimal (print_dec d ++ rest) = POk d None rest.
  Proof.
    intros Hd He. destruct (lex_print_dec d rest Hd (ends_stops rest He)) as (ip & fp & E1 & E2).
    unfold p_decimal. rewrite E1, E2. reflexivity.
  Qed.
  Lemma print_dec_tok d : d_mant d < two96 -> tok (print_dec d).
  Proof.
    intros Hm. destruct (dec_digits_spec d Hm) as (Hdig & _ & Hlen).
    unfold print_dec. fold (dec_digits d). set (ds := dec_digits d) in *.
    assert (exists c r, ds = c :: r /\ is_digit c = true) as (c & r & E & Hc).
    { destruct ds as [|c r]; [cbn [List.length] in Hlen; lia|]. cbn [forallb] in Hdig. apply andb_true_iff in Hdig. destruct Hdig. eauto. }
    destruct (alnum_not_blank c (digit_alnum c Hc)) as (A & B & _).
    destruct (Nat.eqb (d_scale d) 0); [exists c, r; repeat split; assumption|].
    rewrite E in *. cbn [List.length] in *. destruct (S (List.length r) - d_scale d)%nat as [|n] eqn:En; [lia|].
    cbn [firstn app]. eexists. eexists. repeat split; eassumption.
  Qed.


Section R2.
  Context (vc : text -> bool).

  (* ---------- currency codes ---------- *)
  Definition wf_cur (c : text) : Prop :=
    exists a b e, c = [a; b; e] /\ is_upper a = true /\ is_upper b = true /\ is_upper e = true /\
                  vc c = true /\ c <> KW_TAX /\ c <> KW_BUY.
  Definition wf_money (m : money) : Prop := dec_ok (m_amt m) = true /\ wf_cur (m_cur m).

  Lemma starts_kw3 k1 k2 k3 a b e rest : is_lower a = false -> is_lower b = false -> is_lower e = false ->
    [a; b; e] <> [k1; k2; k3] -> starts_kw [k1; k2; k3] (a :: b :: e :: rest) = false.
  Proof.
    intros La Lb Le Hne. unfold starts_kw. cbn [kw_prefix]. rewrite (upper_id a La), (upper_id b Lb), (upper_id e Le).
    destruct (N.eqb_spec (code a) (code k1)) as [E1|]; [|reflexivity].
    destruct (N.eqb_spec (code b) (code k2)) as [E2|]; [|reflexivity].
    destruct (N.eqb_spec (code e) (code k3)) as [E3|]; [|reflexivity].
    exfalso. apply Hne. rewrite (code_inj _ _ E1), (code_inj _ _ E2), (code_inj _ _ E3). reflexivity.
  Qed.
  Lemma starts_kw4 k1 k2 k3 k4 kr a b e rest : ends rest -> code k4 <> 32 ->
    starts_kw (k1 :: k2 :: k3 :: k4 :: kr) (a :: b :: e :: rest) = false.
  Proof.
    intros He Hk. unfold starts_kw. cbn [kw_prefix].
    destruct (code (upper a) =? code k1); [|reflexivity]. destruct (code (upper b) =? code k2); [|reflexivity].
    destruct (code (upper e) =? code k3); [|reflexivity].
    destruct He as [->|[r ->]]; cbn [kw_prefix]; [reflexivity|].
    replace (code (upper SPC)) with 32 by reflexivity.
    destruct (N.eqb_spec 32 (code k4)) as [E|]; [|reflexivity]. exfalso. apply Hk. symmetry. exact E.
  Qed.

  Lemma lex_currency_print c rest : wf_cur c -> ends rest -> lex_currency (c ++ rest) = Some (c, rest).
  Proof.
    intros (a & b & e & -> & Ua & Ub & Ue & _ & Htax & Hbuy) He.
    pose proof (upper_not_lower a Ua) as La. pose proof (upper_not_lower b Ub) as Lb. pose proof (upper_not_lower e Ue) as Le.
    unfold lex_currency. cbn [app]. unfold KW_TAX, KW_BUY, KW_FEES, KW_TOTAL, KW_RATIO, KW_SELL, T. cbn [list_ascii_of_string].
    rewrite (starts_kw3 "T" "A" "X" a b e rest La Lb Le Htax), (starts_kw3 "B" "U" "Y" a b e rest La Lb Le Hbuy).
    rewrite (starts_kw4 "F" "E" "E" "S" [] a b e rest He ltac:(discriminate)).
    rewrite (starts_kw4 "T" "O" "T" "A" ["L"%char] a b e rest He ltac:(discriminate)).
    rewrite (starts_kw4 "R" "A" "T" "I" ["O"%char] a b e rest He ltac:(discriminate)).
    rewrite (starts_kw4 "S" "E" "L" "L" [] a b e rest He ltac:(discriminate)).
    cbn [orb]. unfold is_alpha. rewrite Ua, Ub, Ue. cbn [orb andb].
    rewrite (upper_id a La), (upper_id b Lb), (upper_id e Le).
    destruct He as [->|[r ->]]; reflexivity.
  Qed.

  Lemma tok_cur c : wf_cur c -> tok c.
  Proof.
    intros (a & b & e & -> & Ua & _). destruct (alnum_not_blank a (upper_alnum a Ua)) as (A & B & _).
    exists a, [b; e]. repeat split; assumption.
  Qed.

  Lemma p_money_print m rest : wf_money m -> ends rest ->
    p_money vc (print_dec (m_amt m) ++ SP ++ m_cur m ++ rest) = POk m None rest.
  Proof.
    intros [Hd Hc] He. unfold p_money. rewrite (p_decimal_print (m_amt m) _ Hd (ends_sp _)).
    rewrite (skip_sp_tok _ rest (tok_cur _ Hc)), (lex_currency_print _ _ Hc He).
    destruct Hc as (a & b & e & Ec & _ & _ & _ & Hv & _). rewrite Hv. destruct m; reflexivity.
  Qed.

  Lemma dec_ok_mant d : dec_ok d = true -> d_mant d < two96.
  Proof. unfold dec_ok. intros H. apply andb_true_iff in H. destruct H as [H _]. apply N.ltb_lt. exact H. Qed.

  Lemma p_kw_money_print kw m rest : no_lower kw -> wf_money m -> ends rest ->
    p_kw_money vc kw (kw ++ SP ++ print_dec (m_amt m) ++ SP ++ m_cur m ++ rest) = POk m None rest.
  Proof.
    intros Hk Hm He. unfold p_kw_money. rewrite (kw_prefix_app kw _ Hk).
    rewrite (skip_sp_tok _ _ (print_dec_tok _ (dec_ok_mant _ (proj1 Hm)))). apply p_money_print; assumption.
  Qed.

  Definition opt_flat (kw : text) (m : money) : text :=
    if is_zero_money m then [] else SP ++ kw ++ SP ++ print_dec (m_amt m) ++ SP ++ m_cur m.
  Lemma opt_clause_flat kw m : opt_clause kw m = opt_flat kw m.
  Proof. unfold opt_clause, opt_flat, print_money. destruct (is_zero_money m); [reflexivity|]. repeat rewrite <- app_assoc. reflexivity. Qed.
  Lemma ends_opt_flat kw m : ends (opt_flat kw m).
  Proof. unfold opt_flat. destruct (is_zero_money m); [apply ends_nil|apply ends_sp]. Qed.

  Lemma p_opt_print kw m : no_lower kw -> tok kw -> wf_money m ->
    p_opt_kw_money vc kw (opt_flat kw m) = POk (norm_money m) None [].
  Proof.
    intros Hk Ht Hm. unfold p_opt_kw_money, opt_flat, norm_money. destruct (is_zero_money m).
    - rewrite skip_nil. destruct Ht as (c & r & -> & _). reflexivity.
    - rewrite (skip_sp_tok kw _ Ht), (kw_prefix_app kw _ Hk).
      rewrite (skip_sp_tok _ _ (print_dec_tok _ (dec_ok_mant _ (proj1 Hm)))).
      replace (m_cur m) with (m_cur m ++ []) by apply app_nil_r.
      rewrite (p_money_print m [] Hm ends_nil). reflexivity.
  Qed.
End R2.

(* ---------- whole lines ---------- *)
Section R3.
  Context (vc : text -> bool).

  Definition wf_op (o : dop) : Prop :=
    match o with
    | DBuy q p f | DSell q p f | DAccumulation q p f | DCapReturn q p f => dec_ok q = true /\ wf_money vc p /\ wf_money vc f
    | DDividend tv tx => wf_money vc tv /\ wf_money vc tx
    | DSplit r | DUnsplit r => dec_ok r = true
    end.
  Definition wf_txn (t : dtxn) : Prop := wf_date (x_date t) /\ wf_tick (x_tick t) /\ wf_op (x_op t).

  Lemma tok_kw kw : kw <> [] -> forallb is_upper kw = true -> tok kw /\ no_lower kw.
  Proof.
    intros Hne H. split.
    - apply tok_alnum; [exact Hne|]. apply forallb_forall. intros c Hc. apply upper_alnum. exact (proj1 (forallb_forall _ _) H c Hc).
    - unfold no_lower. apply forallb_forall. intros c Hc. apply negb_true_iff. apply upper_not_lower. exact (proj1 (forallb_forall _ _) H c Hc).
  Qed.
  Lemma kwf kw : kw <> [] -> forallb is_upper kw = true -> tok kw. Proof. intros. apply tok_kw; assumption. Qed.
  Lemma kwl kw : kw <> [] -> forallb is_upper kw = true -> no_lower kw. Proof. intros. apply tok_kw; assumption. Qed.
  Lemma tok_at : tok AT /\ no_lower AT.
  Proof. split; [exists (ch 64), []; repeat split|reflexivity]. Qed.
  Lemma tok_tick t : wf_tick t -> tok t.
  Proof. intros (Hne & Ha & _). apply tok_alnum; assumption. Qed.

  Ltac kw_facts := first [discriminate | reflexivity].

  Lemma p_trade_print mk t q p f : wf_tick t -> dec_ok q = true -> wf_money vc p -> wf_money vc f ->
    p_trade vc mk (SP ++ t ++ SP ++ print_dec q ++ SP ++ AT ++ SP ++ print_dec (m_amt p) ++ SP ++ m_cur p ++ opt_flat KW_FEES f)
    = POk (t, mk q p (norm_money f)) None [].
  Proof.
    intros Ht Hq Hp Hf. unfold p_trade.
    rewrite (skip_sp_tok t _ (tok_tick t Ht)), (p_ticker_print t _ Ht (ends_sp _)).
    rewrite (skip_sp_tok _ _ (print_dec_tok q (dec_ok_mant q Hq))), (p_decimal_print q _ Hq (ends_sp _)).
    rewrite (skip_sp_tok AT _ (proj1 tok_at)), (p_kw_money_print vc AT p _ (proj2 tok_at) Hp (ends_opt_flat _ _)).
    rewrite (p_opt_print vc KW_FEES f (kwl KW_FEES ltac:(discriminate) eq_refl) (kwf KW_FEES ltac:(discriminate) eq_refl) Hf).
    reflexivity.
  Qed.

  Lemma p_event_print mk okw t q p f : okw <> [] -> forallb is_upper okw = true ->
    wf_tick t -> dec_ok q = true -> wf_money vc p -> wf_money vc f ->
    p_event vc mk okw (SP ++ t ++ SP ++ print_dec q ++ SP ++ KW_TOTAL ++ SP ++ print_dec (m_amt p) ++ SP ++ m_cur p ++ opt_flat okw f)
    = POk (t, mk q p (norm_money f)) None [].
  Proof.
    intros Hne Hup Ht Hq Hp Hf. unfold p_event.
    rewrite (skip_sp_tok t _ (tok_tick t Ht)), (p_ticker_print t _ Ht (ends_sp _)).
    rewrite (skip_sp_tok _ _ (print_dec_tok q (dec_ok_mant q Hq))), (p_decimal_print q _ Hq (ends_sp _)).
    rewrite (skip_sp_tok KW_TOTAL _ (kwf KW_TOTAL ltac:(discriminate) eq_refl)).
    rewrite (p_kw_money_print vc KW_TOTAL p _ (kwl KW_TOTAL ltac:(discriminate) eq_refl) Hp (ends_opt_flat _ _)).
    rewrite (p_opt_print vc okw f (kwl okw Hne Hup) (kwf okw Hne Hup) Hf).
    reflexivity.
  Qed.

  Lemma p_dividend_print t p f : wf_tick t -> wf_money vc p -> wf_money vc f ->
    p_dividend vc (SP ++ t ++ SP ++ KW_TOTAL ++ SP ++ print_dec (m_amt p) ++ SP ++ m_cur p ++ opt_flat KW_TAX f)
    = POk (t, DDividend p (norm_money f)) None [].
  Proof.
    intros Ht Hp Hf. unfold p_dividend.
    rewrite (skip_sp_tok t _ (tok_tick t Ht)), (p_ticker_print t _ Ht (ends_sp _)).
    rewrite (skip_sp_tok KW_TOTAL _ (kwf KW_TOTAL ltac:(discriminate) eq_refl)).
    rewrite (p_kw_money_print vc KW_TOTAL p _ (kwl KW_TOTAL ltac:(discriminate) eq_refl) Hp (ends_opt_flat _ _)).
    rewrite (p_opt_print vc KW_TAX f (kwl KW_TAX ltac:(discriminate) eq_refl) (kwf KW_TAX ltac:(discriminate) eq_refl) Hf).
    reflexivity.
  Qed.

  Lemma p_split_print mk t r : wf_tick t -> dec_ok r = true ->
    p_split mk (SP ++ t ++ SP ++ KW_RATIO ++ SP ++ print_dec r) = POk (t, mk r) None [].
  Proof.
    intros Ht Hr. unfold p_split.
    rewrite (skip_sp_tok t _ (tok_tick t Ht)), (p_ticker_print t _ Ht (ends_sp _)).
    rewrite (skip_sp_tok KW_RATIO _ (kwf KW_RATIO ltac:(discriminate) eq_refl)), (kw_prefix_app KW_RATIO _ (kwl KW_RATIO ltac:(discriminate) eq_refl)).
    replace (print_dec r) with (print_dec r ++ []) by apply app_nil_r.
    rewrite (skip_sp_tok _ _ (print_dec_tok r (dec_ok_mant r Hr))), (p_decimal_print r [] Hr ends_nil).
    reflexivity.
  Qed.
End R3.

Section R4.
  Context (vc : text -> bool).

  Definition cmd_flat (tk : text) (o : dop) : text :=
    match o with
    | DBuy q p f => KW_BUY ++ (SP ++ tk ++ SP ++ print_dec q ++ SP ++ AT ++ SP ++ print_dec (m_amt p) ++ SP ++ m_cur p ++ opt_flat KW_FEES f)
    | DSell q p f => KW_SELL ++ (SP ++ tk ++ SP ++ print_dec q ++ SP ++ AT ++ SP ++ print_dec (m_amt p) ++ SP ++ m_cur p ++ opt_flat KW_FEES f)
    | DDividend p f => KW_DIVIDEND ++ (SP ++ tk ++ SP ++ KW_TOTAL ++ SP ++ print_dec (m_amt p) ++ SP ++ m_cur p ++ opt_flat KW_TAX f)
    | DAccumulation q p f => KW_ACCUMULATION ++ (SP ++ tk ++ SP ++ print_dec q ++ SP ++ KW_TOTAL ++ SP ++ print_dec (m_amt p) ++ SP ++ m_cur p ++ opt_flat KW_TAX f)
    | DCapReturn q p f => KW_CAPRETURN ++ (SP ++ tk ++ SP ++ print_dec q ++ SP ++ KW_TOTAL ++ SP ++ print_dec (m_amt p) ++ SP ++ m_cur p ++ opt_flat KW_FEES f)
    | DSplit r => KW_SPLIT ++ (SP ++ tk ++ SP ++ KW_RATIO ++ SP ++ print_dec r)
    | DUnsplit r => KW_UNSPLIT ++ (SP ++ tk ++ SP ++ KW_RATIO ++ SP ++ print_dec r)
    end.

  Lemma print_txn_flat t : print_txn t = print_date (x_date t) ++ SP ++ cmd_flat (x_tick t) (x_op t).
  Proof.
    unfold print_txn, cmd_flat, print_money. destruct (x_op t); rewrite ?opt_clause_flat; repeat rewrite <- app_assoc; reflexivity.
  Qed.

  Ltac kwstep :=
    match goal with
    | |- context [kw_prefix ?k (?k ++ ?b)] => rewrite (kw_prefix_app k b) by reflexivity
    | |- context [kw_prefix ?k (?k' ++ ?b)] => replace (kw_prefix k (k' ++ b)) with (@None text) by reflexivity
    end.

  Lemma p_command_flat tk o : wf_tick tk -> wf_op vc o -> p_command vc (cmd_flat tk o) = POk (tk, norm_op o) None [].
  Proof.
    intros Ht Ho. destruct o as [q p f|q p f|p f|q p f|q p f|r|r]; cbn [wf_op] in Ho; unfold cmd_flat, p_command; repeat kwstep; cbn [norm_op].
    - destruct Ho as (Hq & Hp & Hf). apply p_trade_print; assumption.
    - destruct Ho as (Hq & Hp & Hf). apply p_trade_print; assumption.
    - destruct Ho as (Hp & Hf). apply p_dividend_print; assumption.
    - destruct Ho as (Hq & Hp & Hf). apply p_event_print; try assumption; [discriminate|reflexivity].
    - destruct Ho as (Hq & Hp & Hf). apply p_event_print; try assumption; [discriminate|reflexivity].
    - apply p_split_print; assumption.
    - apply p_split_print; assumption.
  Qed.

  Lemma tok_app t b : tok t -> tok (t ++ b).
  Proof. intros (c & r & -> & H). exists c, (r ++ b). split; [reflexivity|exact H]. Qed.
  Lemma tok_cmd tk o : tok (cmd_flat tk o).
  Proof. destruct o; unfold cmd_flat; apply tok_app; apply kwf; first [discriminate|reflexivity]. Qed.

  Lemma parse_line_eq seg s : skip seg = s -> s <> [] ->
    parse_line vc seg = match p_date s with
                        | PFail => LFail
                        | POk d e1 r => match p_command vc (skip r) with
                                        | PFail => LFail
                                        | POk (t, o) e2 r' => match skip r' with
                                                              | [] => LTx {| x_date := d; x_tick := t; x_op := o |} (sem_or e1 e2)
                                                              | _ => LFail end end end.
  Proof. intros <- Hne. unfold parse_line. destruct (skip seg); [congruence|reflexivity]. Qed.

  Theorem parse_line_print t : wf_txn vc t -> parse_line vc (print_txn t) = LTx (norm_txn t) None.
  Proof.
    intros (Hd & Ht & Ho). rewrite print_txn_flat.
    destruct (print_date_tok (x_date t) (proj2 Hd)) as (c & r & E & Hc).
    destruct (alnum_not_blank c (digit_alnum c Hc)) as (A & B & _).
    assert (Htok : tok (print_date (x_date t))) by (exists c, r; repeat split; assumption).
    rewrite (parse_line_eq _ _ (skip_tok _ _ Htok)); [|rewrite E; discriminate].
    rewrite (p_date_print (x_date t) _ Hd).
    replace (cmd_flat (x_tick t) (x_op t)) with (cmd_flat (x_tick t) (x_op t) ++ []) by apply app_nil_r.
    rewrite (skip_sp_tok _ [] (tok_cmd _ _)), app_nil_r.
    rewrite (p_command_flat _ _ Ht Ho), skip_nil. reflexivity.
  Qed.
End R4.

(* ---------- whole files ---------- *)
Lemma no_nl_app a b : no_nl a -> no_nl b -> no_nl (a ++ b).
Proof. unfold no_nl. intros Ha Hb. rewrite forallb_app, Ha, Hb. reflexivity. Qed.
Lemma no_nl_of (p : ascii -> bool) s : (forall c, p c = true -> is_nl c = false) -> forallb p s = true -> no_nl s.
Proof.
  intros Hp H. unfold no_nl. apply forallb_forall. intros c Hc. apply negb_true_iff. apply Hp.
  exact (proj1 (forallb_forall _ _) H c Hc).
Qed.
Lemma alnum_not_nl c : is_alnum c = true -> is_nl c = false.
Proof. intros H. apply (alnum_not_blank c H). Qed.
Lemma no_nl_digits s : forallb is_digit s = true -> no_nl s.
Proof. apply no_nl_of. intros c H. apply alnum_not_nl, digit_alnum, H. Qed.

Lemma no_nl_print_dec d : d_mant d < two96 -> no_nl (print_dec d).
Proof.
  intros Hm. destruct (dec_digits_spec d Hm) as (Hdig & _ & _). unfold print_dec. fold (dec_digits d).
  destruct (Nat.eqb (d_scale d) 0); [apply no_nl_digits; exact Hdig|].
  apply no_nl_app; [apply no_nl_digits, forallb_firstn, Hdig|]. apply no_nl_app; [reflexivity|apply no_nl_digits, forallb_skipn, Hdig].
Qed.
Lemma no_nl_print_date d : (0 <= dy d <= 9999)%Z -> (1 <= dm d <= 12)%Z -> (1 <= dd d <= 31)%Z -> no_nl (print_date d).
Proof.
  intros Hy Hm Hd. unfold print_date, four_digits, two_digits.
  set (y := Z.to_N (dy d)). set (m := Z.to_N (dm d)). set (a := Z.to_N (dd d)).
  assert (y < 10000) by (unfold y; lia). assert (m < 100) by (unfold m; lia). assert (a < 100) by (unfold a; lia).
  assert (D : forall x, x < 10 -> is_nl (ch (48 + x)) = false) by (intros x Hx; apply alnum_not_nl, digit_alnum, dig, Hx).
  unfold no_nl. cbn [app forallb]. rewrite !D by (first [apply mod10_lt | lia]). reflexivity.
Qed.

Section R5.
  Context (vc : text -> bool).

  Lemma no_nl_cur c : wf_cur vc c -> no_nl c.
  Proof.
    intros (a & b & e & -> & Ua & Ub & Ue & _). unfold no_nl. cbn [forallb].
    rewrite (alnum_not_nl a (upper_alnum a Ua)), (alnum_not_nl b (upper_alnum b Ub)), (alnum_not_nl e (upper_alnum e Ue)). reflexivity.
  Qed.
  Lemma no_nl_money_flat m rest : wf_money vc m -> no_nl rest -> no_nl (print_dec (m_amt m) ++ SP ++ m_cur m ++ rest).
  Proof.
    intros [Hd Hc] Hr. apply no_nl_app; [apply no_nl_print_dec, dec_ok_mant, Hd|]. apply no_nl_app; [reflexivity|].
    apply no_nl_app; [apply no_nl_cur, Hc|exact Hr].
  Qed.
  Lemma no_nl_opt kw m : no_nl kw -> wf_money vc m -> no_nl (opt_flat kw m).
  Proof.
    intros Hk Hm. unfold opt_flat. destruct (is_zero_money m); [reflexivity|].
    apply no_nl_app; [reflexivity|]. apply no_nl_app; [exact Hk|]. apply no_nl_app; [reflexivity|].
    replace (m_cur m) with (m_cur m ++ []) by apply app_nil_r. apply no_nl_money_flat; [exact Hm|reflexivity].
  Qed.
  Lemma no_nl_tick t : wf_tick t -> no_nl t.
  Proof. intros (_ & Ha & _). exact (no_nl_of is_alnum t alnum_not_nl Ha). Qed.

  Lemma no_nl_print_txn t : wf_txn vc t -> no_nl (print_txn t).
  Proof.
    intros ((Hv & Hy) & Ht & Ho). rewrite print_txn_flat.
    pose proof Hv as Hv'. unfold valid_date in Hv'. repeat (apply andb_true_iff in Hv'; destruct Hv' as [Hv' ?]).
    pose proof (days_in_month_le (dy (x_date t)) (dm (x_date t))).
    apply no_nl_app; [apply no_nl_print_date; lia|]. apply no_nl_app; [reflexivity|].
    pose proof (no_nl_tick _ Ht) as Htk.
    destruct (x_op t) as [q p f|q p f|p f|q p f|q p f|r|r]; cbn [wf_op] in Ho; unfold cmd_flat;
      repeat first [ apply no_nl_app; [reflexivity|] | apply no_nl_app; [exact Htk|] ].
    - destruct Ho as (Hq & Hp & Hf). apply no_nl_app; [apply no_nl_print_dec, dec_ok_mant, Hq|].
      repeat (apply no_nl_app; [reflexivity|]). apply no_nl_money_flat; [exact Hp|apply no_nl_opt; [reflexivity|exact Hf]].
    - destruct Ho as (Hq & Hp & Hf). apply no_nl_app; [apply no_nl_print_dec, dec_ok_mant, Hq|].
      repeat (apply no_nl_app; [reflexivity|]). apply no_nl_money_flat; [exact Hp|apply no_nl_opt; [reflexivity|exact Hf]].
    - destruct Ho as (Hp & Hf). apply no_nl_money_flat; [exact Hp|apply no_nl_opt; [reflexivity|exact Hf]].
    - destruct Ho as (Hq & Hp & Hf). apply no_nl_app; [apply no_nl_print_dec, dec_ok_mant, Hq|].
      repeat (apply no_nl_app; [reflexivity|]). apply no_nl_money_flat; [exact Hp|apply no_nl_opt; [reflexivity|exact Hf]].
    - destruct Ho as (Hq & Hp & Hf). apply no_nl_app; [apply no_nl_print_dec, dec_ok_mant, Hq|].
      repeat (apply no_nl_app; [reflexivity|]). apply no_nl_money_flat; [exact Hp|apply no_nl_opt; [reflexivity|exact Hf]].
    - apply no_nl_print_dec, dec_ok_mant, Ho.
    - apply no_nl_print_dec, dec_ok_mant, Ho.
  Qed.

  Lemma split_one l : no_nl l -> split_lines [] l = [l].
  Proof.
    intros H. replace l with (l ++ []) at 1 by apply app_nil_r. rewrite split_lines_seg by exact H.
    cbn [split_lines]. rewrite app_nil_r, rev_involutive. reflexivity.
  Qed.
  Lemma split_join ls : Forall no_nl ls -> ls <> [] -> split_lines [] (join_lines ls) = ls.
  Proof.
    induction ls as [|l r IH]; intros H Hne; [congruence|].
    inversion H as [|x xs Hl Hr]; subst. destruct r as [|l2 r2]; cbn [join_lines]; [apply split_one; exact Hl|].
    change [ch 10] with LF. rewrite split_lines_LF by exact Hl. f_equal. apply IH; [exact Hr|discriminate].
  Qed.

  Lemma collect_all n ts : collect n (map (fun t => LTx (norm_txn t) None) ts) = inr (map norm_txn ts).
  Proof. revert n. induction ts as [|t r IH]; intros n; cbn [map collect]; [reflexivity|]. rewrite IH. reflexivity. Qed.
  Lemma first_fail_all n ts : first_fail n (map (fun t => LTx (norm_txn t) None) ts) = None.
  Proof. revert n. induction ts as [|t r IH]; intros n; cbn [map first_fail]; [reflexivity|apply IH]. Qed.

  (* Reading what the writer wrote returns the transactions, for every list of well-formed transactions of any length. *)
  Theorem parse_print ts : Forall (wf_txn vc) ts -> parse vc (print_txns ts) = inr (map norm_txn ts).
  Proof.
    intros H. destruct ts as [|t0 r0] eqn:Ets; [reflexivity|]. rewrite <- Ets in *. assert (Hne : ts <> []) by (rewrite Ets; discriminate).
    unfold parse, print_txns.
    rewrite split_join; [| |intros E; apply map_eq_nil in E; contradiction].
    2:{ apply Forall_forall. intros l Hl. apply in_map_iff in Hl. destruct Hl as (t & <- & Ht).
        apply no_nl_print_txn. exact (proj1 (Forall_forall _ _) H t Ht). }
    rewrite map_map.
    rewrite (map_ext_in (fun t => parse_line vc (print_txn t)) (fun t => LTx (norm_txn t) None)).
    2:{ intros t Ht. apply parse_line_print. exact (proj1 (Forall_forall _ _) H t Ht). }
    rewrite first_fail_all, collect_all. reflexivity.
  Qed.
End R5.
