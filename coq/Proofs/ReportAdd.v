(* Report level: the days fed to the matcher are sorted (so the run-level theorems apply to every ledger), a security's disposal
   dates are distinct, sorting disposals loses none, and a tax year's gains and losses are the sums over the securities. *)
From Coq Require Import QArith Qcanon ZArith List Bool String Permutation Sorted Lia.
Require Import CGT.Model.Num CGT.Model.Date CGT.Model.Ledger CGT.Model.Match CGT.Model.Agg CGT.Model.Report
  CGT.Proofs.NumFacts CGT.Proofs.AggFacts CGT.Proofs.SortFacts CGT.Proofs.LedgerFacts CGT.Proofs.MatchInv CGT.Proofs.MatchOrder.
Import ListNotations.
Open Scope Qc_scope.

(* ---------- the days of a ledger are sorted ---------- *)
Lemma StronglySorted_map {A B} (f : A -> B) (R : B -> B -> Prop) l :
  StronglySorted (fun a b => R (f a) (f b)) l -> StronglySorted R (map f l).
Proof.
  induction 1 as [|x l Hs IH Hf]; cbn [map]; constructor; [exact IH|].
  apply Forall_forall. intros y Hy. apply in_map_iff in Hy. destruct Hy as (a & <- & Ha). exact (proj1 (Forall_forall _ _) Hf a Ha).
Qed.
Lemma days_of_sorted l : sorted_days (days_of l).
Proof.
  unfold sorted_days, days_of. pose proof (sort_dates_sorted (map t_date l)) as H. fold (dates_of l) in H.
  induction H as [|z zs Hs IH Hf]; cbn [map]; constructor; [exact IH|].
  apply Forall_forall. intros d Hd. apply in_map_iff in Hd. destruct Hd as (z' & <- & Hz). cbn [dt mk_day].
  exact (proj1 (Forall_forall _ _) Hf z' Hz).
Qed.

(* so the order theorem holds for every security of every ledger *)
Theorem eval_legs_shape P l s st : sr_res (eval_tick P l s) = inr st ->
  Forall (fun x => legs_shape (p_window P) (fst x) (snd x)) (m_disp st).
Proof. unfold eval_tick. cbn [sr_res]. apply run_legs_shape. apply days_of_sorted. Qed.

(* ---------- the disposal dates of one security are strictly increasing ---------- *)
Definition disp_dates_ok (s : mst) (ds : list day) : Prop :=
  StronglySorted Z.lt (map fst (m_disp s)) /\ (forall z d, In z (map fst (m_disp s)) -> In d ds -> (z < dt d)%Z).

Lemma day_step_disp w offs s d fut s' : day_step w offs s d fut = inr s' ->
  m_disp s' = m_disp s \/ exists legs, m_disp s' = m_disp s ++ [(dt d, legs)].
Proof.
  unfold day_step. destruct (hasbuy d && qltb (bq d) (if hasbuy d then claim_of (m_cl s) (dt d) else 0)); [discriminate|].
  destruct (if hassell d then _ else _) as [e|r]; [discriminate|]. intros H. injection H as <-. cbn [m_disp].
  destruct (s_legs r) as [|x xs]; [left; apply app_nil_r|right; eexists; reflexivity].
Qed.

Lemma StronglySorted_snoc (l : list Z) z : StronglySorted Z.lt l -> (forall x, In x l -> (x < z)%Z) -> StronglySorted Z.lt (l ++ [z]).
Proof.
  induction 1 as [|a l Hs IH Hf]; intros H; cbn [app]; [constructor; constructor|].
  constructor; [apply IH; intros x Hx; apply H; right; exact Hx|].
  apply Forall_app. split; [exact Hf|]. constructor; [apply H; left; reflexivity|constructor].
Qed.

Lemma mainpass_disp_dates w offs ds : forall s s', sorted_days ds -> disp_dates_ok s ds -> mainpass w offs s ds = inr s' ->
  StronglySorted Z.lt (map fst (m_disp s')).
Proof.
  induction ds as [|d r IH]; intros s s' Hs [Ho Hlt] H; cbn [mainpass] in H; [injection H as <-; exact Ho|].
  destruct (day_step w offs s d r) as [e|s1] eqn:E; [discriminate|].
  destruct (sorted_cons_inv d r Hs) as [Hs' Hl].
  apply (IH s1 s' Hs'); [|exact H]. unfold disp_dates_ok. destruct (day_step_disp w offs s d r s1 E) as [Ed|[legs Ed]]; rewrite Ed.
  - split; [exact Ho|]. intros z x Hz Hx. apply Hlt; [exact Hz|right; exact Hx].
  - rewrite map_app. cbn [map fst]. split.
    + apply StronglySorted_snoc; [exact Ho|]. intros x Hx. apply (Hlt x d Hx). left. reflexivity.
    + intros z x Hz Hx. apply in_app_or in Hz. destruct Hz as [Hz|[<-|[]]]; [apply Hlt; [exact Hz|right; exact Hx]|apply Hl; exact Hx].
Qed.

Lemma run_disp_dates w ds s : sorted_days ds -> run w ds = inr s -> StronglySorted Z.lt (map fst (m_disp s)).
Proof.
  intros Hs. unfold run. destruct (prepass false [] ds) as [e|offs]; [discriminate|]. intros H.
  apply (mainpass_disp_dates w offs ds mst0 s Hs); [|exact H]. split; [constructor|intros z d []].
Qed.

Lemma sorted_lt_nodup l : StronglySorted Z.lt l -> NoDup l.
Proof.
  induction 1 as [|a l Hs IH Hf]; constructor; [|exact IH]. intros Hin. pose proof (proj1 (Forall_forall _ _) Hf a Hin). lia.
Qed.

(* ---------- sorting with distinct keys loses nothing ---------- *)
Section SortPerm.
  Context {A K : Type} (cmp : A -> A -> comparison) (key : A -> K).
  Context (cmp_key : forall x y, cmp x y = Eq -> key x = key y).

  Lemma insert_uniq_perm x l : ~ In (key x) (map key l) -> Permutation (x :: l) (insert_uniq cmp x l).
  Proof.
    induction l as [|y r IH]; intros H; cbn [insert_uniq]; [apply Permutation_refl|].
    destruct (cmp x y) eqn:E.
    - exfalso. apply H. left. symmetry. apply cmp_key. exact E.
    - apply Permutation_refl.
    - eapply Permutation_trans; [apply perm_swap|]. apply perm_skip. apply IH. intros Hin. apply H. right. exact Hin.
  Qed.
  Lemma sort_uniq_perm_keys l : NoDup (map key l) -> Permutation l (sort_uniq cmp l).
  Proof.
    induction l as [|x r IH]; intros H; cbn [sort_uniq fold_right]; [constructor|].
    cbn [map] in H. inversion H as [|k ks Hnot Hr]; subst. specialize (IH Hr).
    eapply Permutation_trans; [apply perm_skip; exact IH|]. apply insert_uniq_perm.
    intros Hin. apply Hnot. eapply Permutation_in; [apply Permutation_sym, Permutation_map; exact IH|exact Hin].
  Qed.
End SortPerm.

Lemma NoDup_app_intro' {B} (a b : list B) : NoDup a -> NoDup b -> (forall k, In k a -> In k b -> False) -> NoDup (a ++ b).
Proof.
  induction 1 as [|x a Hx Ha IH]; intros Hb Hd; cbn [app]; [exact Hb|].
  constructor; [|apply IH; [exact Hb|intros k Hk Hk'; apply (Hd k); [right; exact Hk|exact Hk']]].
  intros Hin. apply in_app_or in Hin. destruct Hin as [Hin|Hin]; [contradiction|]. apply (Hd x); [left; reflexivity|exact Hin].
Qed.

Lemma NoDup_flat_map {A B} (g : A -> list B) ts : NoDup ts -> (forall s, NoDup (g s)) ->
  (forall s s' k, s <> s' -> In k (g s) -> In k (g s') -> False) -> NoDup (flat_map g ts).
Proof.
  intros Hts Hg Hdis. induction Hts as [|s r Hnot Hr IH]; cbn [flat_map]; [constructor|].
  apply NoDup_app_intro'; [apply Hg|exact IH|]. intros k Hk Hk'. apply in_flat_map in Hk'. destruct Hk' as (s' & Hs' & Hk').
  apply (Hdis s s' k); [intros ->; contradiction|exact Hk|exact Hk'].
Qed.

(* ---------- the disposals of a ledger, security by security ---------- *)
Definition tick_disposals (P : params) (l : list gtxn) (s : string) : list disposal :=
  match sr_res (eval_tick P l s) with inl _ => [] | inr st => map (mk_disposal P s) (m_disp st) end.
Definition dkey (d : disposal) : Z * string := (d_date d, d_tick d).

Lemma sec_disposals_flat P l ts : sec_disposals P (map (eval_tick P l) ts) = flat_map (tick_disposals P l) ts.
Proof. unfold sec_disposals. rewrite flat_map_concat_map, map_map, <- flat_map_concat_map. reflexivity. Qed.

Lemma tick_disposals_proj P l s : tick_disposals P (filter (of_tick s) l) s = tick_disposals P l s.
Proof. unfold tick_disposals. rewrite eval_tick_proj. reflexivity. Qed.

Lemma tick_disposals_keys P l s : map dkey (tick_disposals P l s) =
  match sr_res (eval_tick P l s) with inl _ => [] | inr st => map (fun x => (fst x, s)) (m_disp st) end.
Proof. unfold tick_disposals. destruct (sr_res (eval_tick P l s)) as [e|st]; [reflexivity|]. rewrite map_map. reflexivity. Qed.

Lemma tick_disposals_nodup P l s : NoDup (map dkey (tick_disposals P l s)).
Proof.
  rewrite tick_disposals_keys. destruct (sr_res (eval_tick P l s)) as [e|st] eqn:E; [constructor|].
  unfold eval_tick in E. cbn [sr_res] in E.
  pose proof (sorted_lt_nodup _ (run_disp_dates _ _ _ (days_of_sorted _) E)) as H.
  replace (map (fun x : Z * list leg => (fst x, s)) (m_disp st)) with (map (fun z => (z, s)) (map fst (m_disp st))) by (rewrite map_map; reflexivity).
  apply FinFun.Injective_map_NoDup; [|exact H]. intros a b Hab. injection Hab as ->. reflexivity.
Qed.

Lemma strictly_sorted_nodup (l : list string) : StronglySorted (fun a b => String.compare a b = Lt) l -> NoDup l.
Proof.
  induction 1 as [|a l Hs IH Hf]; constructor; [|exact IH]. intros Hin. pose proof (proj1 (Forall_forall _ _) Hf a Hin) as H.
  cbv beta in H. rewrite str_cmp_refl in H. discriminate.
Qed.
Lemma tickers_nodup l : NoDup (tickers_of l).
Proof. apply strictly_sorted_nodup. unfold tickers_of. apply (sort_uniq_sorted_weak String.compare str_cmp_antisym str_cmp_trans). Qed.

Lemma disp_cmp_key x y : disp_cmp x y = Eq -> dkey x = dkey y.
Proof.
  unfold disp_cmp, dkey. destruct (d_date x ?= d_date y)%Z eqn:E; try discriminate. intros H.
  apply Z.compare_eq in E. apply str_cmp_eq in H. rewrite E, H. reflexivity.
Qed.

Lemma all_disposals_nodup P l : NoDup (map dkey (flat_map (tick_disposals P l) (tickers_of l))).
Proof.
  rewrite flat_map_concat_map, concat_map, map_map, <- flat_map_concat_map.
  apply NoDup_flat_map; [apply tickers_nodup|intros s; apply tick_disposals_nodup|].
  intros s s' k Hne Hk Hk'. rewrite tick_disposals_keys in Hk, Hk'.
  destruct (sr_res (eval_tick P l s)) as [e|st]; [destruct Hk|]. destruct (sr_res (eval_tick P l s')) as [e'|st']; [destruct Hk'|].
  apply in_map_iff in Hk. destruct Hk as (x & <- & _). apply in_map_iff in Hk'. destruct Hk' as (x' & E & _). injection E as _ E. congruence.
Qed.

Theorem sorted_disposals_perm P l :
  Permutation (flat_map (tick_disposals P l) (tickers_of l)) (sort_disposals (sec_disposals P (eval_all P l))).
Proof.
  unfold eval_all. rewrite sec_disposals_flat. unfold sort_disposals.
  apply (sort_uniq_perm_keys disp_cmp dkey disp_cmp_key). apply all_disposals_nodup.
Qed.

(* ---------- sums over securities ---------- *)
Lemma qsum_flat_map {A B} (h : B -> Qc) (f : A -> list B) ts :
  qsum (map h (flat_map f ts)) = qsum (map (fun s => qsum (map h (f s))) ts).
Proof.
  induction ts as [|s r IH]; cbn [flat_map map]; [reflexivity|]. rewrite qsum_map_app, IH, qsum_cons. reflexivity.
Qed.
Lemma filter_flat_map {A B} (g : B -> bool) (f : A -> list B) ts : filter g (flat_map f ts) = flat_map (fun s => filter g (f s)) ts.
Proof. induction ts as [|s r IH]; cbn [flat_map]; [reflexivity|]. rewrite filter_app, IH. reflexivity. Qed.

Lemma sum_over_securities P l (g : disposal -> bool) (h : disposal -> Qc) :
  qsum (map h (filter g (sort_disposals (sec_disposals P (eval_all P l))))) =
  qsum (map (fun s => qsum (map h (filter g (tick_disposals P (filter (of_tick s) l) s)))) (tickers_of l)).
Proof.
  rewrite <- (qsum_perm _ _ (Permutation_map h (filter_perm g _ _ (sorted_disposals_perm P l)))).
  rewrite filter_flat_map, qsum_flat_map. f_equal. apply map_ext. intros s. rewrite tick_disposals_proj. reflexivity.
Qed.

(* a year's gain and loss in the all-years report are the sums, over the securities, of what each security's own lines give *)
Theorem year_totals_additive P cfg l R y : report_of P cfg None l = inr R -> In y (r_years R) ->
  y_gain y = qsum (map (fun s => qsum (map gain_part (disposals_in P (y_year y) (tick_disposals P (filter (of_tick s) l) s)))) (tickers_of l)) /\
  y_loss y = qsum (map (fun s => qsum (map loss_part (disposals_in P (y_year y) (tick_disposals P (filter (of_tick s) l) s)))) (tickers_of l)) /\
  y_net y = y_gain y - y_loss y.
Proof.
  unfold report_of. destruct (sec_errors (eval_all P l)); [|discriminate].
  destruct (bad_year_errors P (sort_disposals (sec_disposals P (eval_all P l)))); [|discriminate].
  destruct (ex_errors cfg (years_of P (sort_disposals (sec_disposals P (eval_all P l))))); [|discriminate].
  intros H Hy. injection H as <-. cbn [r_years] in Hy. apply in_map_iff in Hy. destruct Hy as (y0 & <- & _).
  unfold ysum_for, mk_ysum. cbn [y_gain y_loss y_net y_year]. unfold disposals_in.
  split; [apply sum_over_securities|]. split; [apply sum_over_securities|reflexivity].
Qed.
