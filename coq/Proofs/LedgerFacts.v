(* Ledger-level invariance of the report model: line order (C06), independence of securities (C09). *)
From Coq Require Import QArith Qcanon ZArith List Bool String Permutation Lia Sorted.
Require Import CGT.Model.Num CGT.Model.Date CGT.Model.Ledger CGT.Model.Match CGT.Model.Agg CGT.Model.Report
               CGT.Proofs.NumFacts CGT.Proofs.AggFacts CGT.Proofs.SortFacts.
Import ListNotations.
Open Scope Qc_scope.

(* at most one CAPRETURN/ACCUMULATION per security and day: the only place where line order is kept *)
Definition events_order_free (l : list gtxn) : Prop :=
  forall s z, (List.length (flat_map evs_of (map t_op (filter (on_date z) (filter (of_tick s) l)))) <= 1)%nat.

Lemma perm_short {A} (a b : list A) : Permutation a b -> (List.length a <= 1)%nat -> a = b.
Proof.
  intros H L. destruct a as [|x [|y r]]; cbn [List.length] in L; try lia.
  - apply Permutation_nil in H. subst. reflexivity.
  - apply Permutation_length_1_inv in H. subst. reflexivity.
Qed.

Lemma dates_of_perm l l' : Permutation l l' -> dates_of l = dates_of l'.
Proof. intros H. unfold dates_of. apply sort_dates_perm. apply Permutation_map. exact H. Qed.
Lemma tickers_of_perm l l' : Permutation l l' -> tickers_of l = tickers_of l'.
Proof. intros H. unfold tickers_of. apply sort_tickers_perm. apply Permutation_map. exact H. Qed.

Lemma mk_day_perm_eq l l' z : Permutation l l' ->
  (List.length (flat_map evs_of (map t_op (filter (on_date z) l))) <= 1)%nat -> mk_day l z = mk_day l' z.
Proof.
  intros H He.
  assert (P : Permutation (map t_op (filter (on_date z) l)) (map t_op (filter (on_date z) l'))).
  { apply Permutation_map. apply filter_perm. exact H. }
  unfold mk_day. f_equal;
    try (apply qsum_perm; apply Permutation_map; exact P);
    try (apply existsb_perm; exact P).
  - apply perm_short; [apply Permutation_flat_map; exact P|exact He].
  - apply qprod_perm; apply Permutation_map; exact P.
Qed.

Lemma days_of_perm l l' : Permutation l l' ->
  (forall z, (List.length (flat_map evs_of (map t_op (filter (on_date z) l))) <= 1)%nat) -> days_of l = days_of l'.
Proof.
  intros H He. unfold days_of. rewrite <- (dates_of_perm l l' H).
  apply map_ext. intros z. apply mk_day_perm_eq; [exact H|apply He].
Qed.

Lemma days_of_tick_perm l l' s : Permutation l l' -> events_order_free l -> days_of_tick l s = days_of_tick l' s.
Proof.
  intros H He. unfold days_of_tick. apply days_of_perm; [apply filter_perm; exact H|]. intros z. apply He.
Qed.

Lemma eval_all_perm P l l' : Permutation l l' -> events_order_free l -> eval_all P l = eval_all P l'.
Proof.
  intros H He. unfold eval_all. rewrite <- (tickers_of_perm l l' H).
  apply map_ext. intros s. unfold eval_tick. rewrite (days_of_tick_perm l l' s H He). reflexivity.
Qed.

Lemma dividends_of_perm P l l' y : Permutation l l' -> dividends_of P l y = dividends_of P l' y.
Proof.
  intros H. unfold dividends_of.
  assert (Pm : Permutation (filter (fun t => in_year P y (t_date t)) l) (filter (fun t => in_year P y (t_date t)) l')) by (apply filter_perm; exact H).
  f_equal; apply qsum_perm; apply Permutation_map; exact Pm.
Qed.

Lemma mk_ysum_perm P l l' ex y ds : Permutation l l' -> mk_ysum P l ex y ds = mk_ysum P l' ex y ds.
Proof. intros H. unfold mk_ysum. rewrite (dividends_of_perm P l l' y H). reflexivity. Qed.

(* the whole report depends only on the multiset of lines *)
Theorem report_of_perm P cfg yf l l' : Permutation l l' -> events_order_free l ->
  report_of P cfg yf l = report_of P cfg yf l'.
Proof.
  intros H He. unfold report_of. rewrite <- (eval_all_perm P l l' H He).
  destruct (sec_errors (eval_all P l)); [|reflexivity].
  destruct yf as [y|].
  - destruct (negb (year_range_ok P y)); [reflexivity|]. destruct (lookup_ex cfg y); [|reflexivity].
    unfold ysum_filtered. rewrite (mk_ysum_perm P l l' _ y _ H). reflexivity.
  - destruct (bad_year_errors P _); [|reflexivity]. destruct (ex_errors cfg _); [|reflexivity].
    f_equal. f_equal. apply map_ext. intros y. unfold ysum_for. apply mk_ysum_perm. exact H.
Qed.

(* fills: replacing a trade by same-day fills with the same total quantity, consideration and fees leaves its
   day record, hence the report, unchanged: the record reads only the sums *)
Lemma qsum_map_app {A} (f : A -> Qc) a b : qsum (map f (a ++ b)) = qsum (map f a) + qsum (map f b).
Proof. rewrite map_app. apply qsum_app. Qed.

(* ---------- C09: a security's evaluation reads only its own lines ---------- *)
Lemma eval_tick_proj P l s : eval_tick P (filter (of_tick s) l) s = eval_tick P l s.
Proof. unfold eval_tick. rewrite days_of_tick_proj. reflexivity. Qed.
Lemma eval_tick_other P l l' s : (forall t, In t l' -> of_tick s t = false) -> eval_tick P (l ++ l') s = eval_tick P l s.
Proof. intros H. unfold eval_tick. rewrite days_of_tick_other by exact H. reflexivity. Qed.

(* ---------- C16: canonical orders of the report ---------- *)
Lemma disp_cmp_antisym x y : disp_cmp y x = CompOpp (disp_cmp x y).
Proof.
  unfold disp_cmp. rewrite (Z.compare_antisym (d_date x) (d_date y)).
  destruct (d_date x ?= d_date y)%Z; cbn [CompOpp]; [apply str_cmp_antisym|reflexivity|reflexivity].
Qed.
Lemma disp_cmp_trans x y z : disp_cmp x y = Lt -> disp_cmp y z = Lt -> disp_cmp x z = Lt.
Proof.
  unfold disp_cmp.
  destruct (d_date x ?= d_date y)%Z eqn:E1; try discriminate; destruct (d_date y ?= d_date z)%Z eqn:E2; try discriminate; intros H1 H2.
  - apply Z.compare_eq_iff in E1, E2. rewrite E1, E2, Z.compare_refl. eapply str_cmp_trans; eassumption.
  - apply Z.compare_eq_iff in E1. rewrite E1, E2. reflexivity.
  - apply Z.compare_eq_iff in E2. rewrite <- E2, E1. reflexivity.
  - rewrite (Zcmp_trans _ _ _ E1 E2). reflexivity.
Qed.
Theorem sort_disposals_sorted l : StronglySorted (fun a b => disp_cmp a b = Lt) (sort_disposals l).
Proof. unfold sort_disposals. apply sort_uniq_sorted_weak; [apply disp_cmp_antisym|apply disp_cmp_trans]. Qed.
