(* explain_matching end to end in the models: the tool layer (McpTools) over the report model (Report).  Every disposal that the
   all-years report of a ledger lists is found by explain_tool when asked with that disposal's date in the strict shape and its ticker
   in any letter case. *)
From Coq Require Import QArith Qcanon ZArith NArith List Bool Ascii String Lia.
Require Import CGT.Model.Num CGT.Model.Date CGT.Model.Ledger CGT.Model.Match CGT.Model.Agg CGT.Model.Report CGT.Generated.Params CGT.Model.Config
               CGT.Model.Mcp CGT.Model.McpTools CGT.Proofs.McpFacts CGT.Proofs.DateFacts CGT.Proofs.SliceFacts CGT.Proofs.McpExplain CGT.Proofs.McpToolsFacts.
Require CGT.Model.Dsl.
Import ListNotations.

Section E.
  Context (cfg : list (Z * Qc)).
  Context (parse_dsl parse_json : Dsl.text -> option (list gtxn)).

  Definition calc_model (l : list gtxn) (y : option Z) : option report :=
    match report_of P0 cfg y l with inr r => Some r | inl _ => None end.
  Definition listed (r : report) : list disposal := flat_map y_disposals (r_years r).
  Definition disp_date (x : disposal) : date := civil_of_days (d_date x).
  Definition disp_tick (x : disposal) : Dsl.text := list_ascii_of_string (d_tick x).
  Definition no_txns (l : list gtxn) : bool := match l with [] => true | _ => false end.

  Theorem explain_end_to_end s ds tk l r_all ys x r_y :
    parse_input parse_dsl parse_json s = TOk l -> no_txns l = false ->
    dated_in_sweep (sort_disposals (sec_disposals P0 (eval_all P0 l))) ->
    report_of P0 cfg None l = inr r_all -> In ys (r_years r_all) -> In x (y_disposals ys) ->
    report_of P0 cfg (Some (explain_year (disp_date x))) l = inr r_y ->
    read_iso_date ds = TOk (disp_date x) -> Dsl.upper_text (disp_tick x) = Dsl.upper_text tk ->
    exists x', explain_tool parse_dsl parse_json no_txns calc_model listed disp_date disp_tick s ds tk = TOk x' /\
               disp_date x' = disp_date x /\ tick_eq_ci (disp_tick x') tk = true.
  Proof.
    intros Hp Hne Hsw Hall Hys Hx Hy Hd Ht.
    destruct (explain_finds cfg l r_all ys x r_y Hsw Hall Hys Hx Hy) as (ys' & Eys & Hin & _).
    assert (Hl : In x (listed r_y)).
    { unfold listed. rewrite Eys. cbn [flat_map]. rewrite app_nil_r. exact Hin. }
    assert (Hc : calculate_tool parse_dsl parse_json no_txns calc_model s (Some (explain_year (disp_date x))) = TOk r_y).
    { unfold calculate_tool. rewrite Hp, Hne. unfold calc_model. rewrite Hy. reflexivity. }
    destruct (explain_finds_listed parse_dsl parse_json no_txns calc_model listed disp_date disp_tick s ds tk (disp_date x) r_y x Hd Hc Hl eq_refl Ht)
      as (x' & E & _ & Hd' & Ht').
    exists x'. repeat split; assumption.
  Qed.
End E.
