(* Calendar facts.  The boundary theorem is proved by a complete sweep of the supported
   range of day numbers (a finite domain; forallb lifted with forallb_forall). *)
From Coq Require Import ZArith List Bool Lia.
Require Import CGT.Model.Date.
Import ListNotations.
Open Scope Z_scope.

Fixpoint zrange (lo : Z) (n : nat) : list Z :=
  match n with O => [] | S k => lo :: zrange (lo + 1) k end.
Lemma in_zrange n : forall lo z, lo <= z < lo + Z.of_nat n -> In z (zrange lo n).
Proof.
  induction n as [|k IH]; intros lo z H; [lia|].
  cbn [zrange]. destruct (Z.eq_dec z lo) as [->|N]; [left; reflexivity|].
  right. apply IH. lia.
Qed.

(* 1899-01-01 = 693231, 2101-12-31 = 767374 *)
Definition sweep_lo : Z := 693231.
Definition sweep_n : nat := Z.to_nat 74144.

Definition ty_spec (bm bd ymin ymax : Z) (z : Z) : option Z :=
  (* the tax year by its definition: the Y in [ymin,ymax] with (Y,bm,bd) <= date(z) < (Y+1,bm,bd) *)
  let c := civil_of_days z in
  let y := if date_ltb c {| dy := dy c; dm := bm; dd := bd |} then dy c - 1 else dy c in
  if (ymin <=? y) && (y <=? ymax) then Some y else None.

Definition day_ok (z : Z) : bool :=
  let c := civil_of_days z in
  valid_date c && (days_of_civil c =? z) &&
  match tax_year_of_gen 4 6 1900 2100 c with
  | Some y => (1900 <=? y) && (y <=? 2100) &&
              (days_of_civil {| dy := y; dm := 4; dd := 6 |} <=? z) &&
              (z <=? days_of_civil {| dy := y + 1; dm := 4; dd := 5 |})
  | None => (z <? days_of_civil {| dy := 1900; dm := 4; dd := 6 |}) ||
            (days_of_civil {| dy := 2101; dm := 4; dd := 5 |} <? z)
  end.

Lemma sweep_ok : forallb day_ok (zrange sweep_lo sweep_n) = true.
Proof. vm_compute. reflexivity. Qed.

Lemma day_ok_range z : sweep_lo <= z < sweep_lo + 74144 -> day_ok z = true.
Proof.
  intros H. pose proof sweep_ok as S. rewrite forallb_forall in S. apply S. apply in_zrange.
  unfold sweep_n. rewrite Z2Nat.id by lia. exact H.
Qed.

(* ---------- the year filter's date range is the tax year (C07) ---------- *)
Definition yb (y : Z) : Z := days_of_civil {| dy := y; dm := 4; dd := 6 |}.
Definition ye (y : Z) : Z := days_of_civil {| dy := y + 1; dm := 4; dd := 5 |}.
Definition year_ok (y : Z) : bool := (yb y <=? ye y) && (ye y + 1 =? yb (y + 1)).
Lemma years_ok : forallb year_ok (zrange 1899 203) = true.
Proof. vm_compute. reflexivity. Qed.
Lemma year_ok_range y : 1899 <= y < 1899 + 203 -> yb y <= ye y /\ ye y + 1 = yb (y + 1).
Proof.
  intros H. pose proof years_ok as S. rewrite forallb_forall in S.
  specialize (S y (in_zrange 203 1899 y H)). unfold year_ok in S. apply andb_true_iff in S. destruct S as [A B].
  apply Z.leb_le in A. apply Z.eqb_eq in B. split; assumption.
Qed.
Lemma yb_mono y1 y2 : 1899 <= y1 -> y1 < y2 -> y2 <= 2101 -> ye y1 < yb y2.
Proof.
  intros H1 H12 H2. assert (forall n, (0 <= n)%Z -> y1 + 1 + n <= 2101 -> ye y1 < yb (y1 + 1 + n)) as G.
  { intros n Hn. pattern n. apply natlike_ind; [|intros x Hx IH Hle|exact Hn].
    - intros _. rewrite Z.add_0_r. destruct (year_ok_range y1) as [_ E]; lia.
    - specialize (IH ltac:(lia)). destruct (year_ok_range (y1 + 1 + x)) as [A E]; [lia|].
      replace (y1 + 1 + Z.succ x) with (y1 + 1 + x + 1) by lia. lia. }
  replace y2 with (y1 + 1 + (y2 - y1 - 1)) by lia. apply G; lia.
Qed.

Definition in_range46 (y z : Z) : bool := (yb y <=? z) && (z <=? ye y).
Definition in_year46 (y z : Z) : bool :=
  match tax_year_of_gen 4 6 1900 2100 (civil_of_days z) with Some y' => y' =? y | None => false end.

Theorem range_is_year y z : 1900 <= y <= 2100 -> sweep_lo <= z < sweep_lo + 74144 -> in_range46 y z = in_year46 y z.
Proof.
  intros Hy Hz. pose proof (day_ok_range z Hz) as D. unfold day_ok in D.
  apply andb_true_iff in D. destruct D as [_ D]. unfold in_year46, in_range46.
  destruct (tax_year_of_gen 4 6 1900 2100 (civil_of_days z)) as [y'|].
  - apply andb_true_iff in D. destruct D as [D D4]. apply andb_true_iff in D. destruct D as [D D3].
    apply andb_true_iff in D. destruct D as [D1 D2].
    apply Z.leb_le in D1, D2, D3, D4. fold (yb y') in D3. fold (ye y') in D4.
    destruct (Z.eqb_spec y' y) as [->|N].
    + apply andb_true_iff. split; apply Z.leb_le; assumption.
    + apply andb_false_iff. destruct (Z.lt_ge_cases y' y) as [L|G].
      * left. apply Z.leb_gt. pose proof (yb_mono y' y ltac:(lia) L ltac:(lia)). lia.
      * right. apply Z.leb_gt. pose proof (yb_mono y y' ltac:(lia) ltac:(lia) ltac:(lia)).
        destruct (year_ok_range y) as [A _]; [lia|]. lia.
  - apply orb_true_iff in D. fold (yb 1900) in D. change (days_of_civil {| dy := 2101; dm := 4; dd := 5 |}) with (ye 2100) in D.
    apply andb_false_iff. destruct D as [D|D]; apply Z.ltb_lt in D.
    + left. apply Z.leb_gt. destruct (Z.eq_dec y 1900) as [->|N]; [exact D|].
      pose proof (yb_mono 1900 y ltac:(lia) ltac:(lia) ltac:(lia)). destruct (year_ok_range 1900) as [A _]; [lia|]. lia.
    + right. apply Z.leb_gt. destruct (Z.eq_dec y 2100) as [->|N]; [exact D|].
      pose proof (yb_mono y 2100 ltac:(lia) ltac:(lia) ltac:(lia)). destruct (year_ok_range 2100) as [A _]; [lia|]. lia.
Qed.
