(* Calendar facts.  The boundary theorem is proved by a complete sweep of the supported
   range of day numbers (a finite domain; forallb lifted with forallb_forall). *)
From Coq Require Import ZArith List Bool Lia.
Require Import CGT.Model.Date.
Import ListNotations.
Open Scope Z_scope.

Fixpoint zrange (lo : Z) (n : nat) : list Z :=
  match n with O => [] | S k => lo :: zrange (lo + 1) k end.
Lemma in_zrange n : forall lo z, lo <= z < lo + Z.of_nat n -> In z (zrange lo n).
Proof.
  induction n as [|k IH]; intros lo z H; [lia|].
  cbn [zrange]. destruct (Z.eq_dec z lo) as [->|N]; [left; reflexivity|].
  right. apply IH. lia.
Qed.

(* 1899-01-01 = 693231, 2101-12-31 = 767374 *)
Definition sweep_lo : Z := 693231.
Definition sweep_n : nat := Z.to_nat 74144.

Definition ty_spec (bm bd ymin ymax : Z) (z : Z) : option Z :=
  (* the tax year by its definition: the Y in [ymin,ymax] with (Y,bm,bd) <= date(z) < (Y+1,bm,bd) *)
  let c := civil_of_days z in
  let y := if date_ltb c {| dy := dy c; dm := bm; dd := bd |} then dy c - 1 else dy c in
  if (ymin <=? y) && (y <=? ymax) then Some y else None.

Definition day_ok (z : Z) : bool :=
  let c := civil_of_days z in
  valid_date c && (days_of_civil c =? z) &&
  match tax_year_of_gen 4 6 1900 2100 c with
  | Some y => (1900 <=? y) && (y <=? 2100) &&
              (days_of_civil {| dy := y; dm := 4; dd := 6 |} <=? z) &&
              (z <=? days_of_civil {| dy := y + 1; dm := 4; dd := 5 |})
  | None => (z <? days_of_civil {| dy := 1900; dm := 4; dd := 6 |}) ||
            (days_of_civil {| dy := 2101; dm := 4; dd := 5 |} <? z)
  end.

Lemma sweep_ok : forallb day_ok (zrange sweep_lo sweep_n) = true.
Proof. vm_compute. reflexivity. Qed.

Lemma day_ok_range z : sweep_lo <= z < sweep_lo + 74144 -> day_ok z = true.
Proof.
  intros H. pose proof sweep_ok as S. rewrite forallb_forall in S. apply S. apply in_zrange.
  unfold sweep_n. rewrite Z2Nat.id by lia. exact H.
Qed.
