(* C10 in the property's own words: the ledger rewritten in post-split units - the quantities of the security's purchases and sales
   dated on or before the split multiplied by the ratio, their unit prices divided by it, the SPLIT line removed - has, day by day,
   the day records `rescale_day` describes, so the change-of-units theorem applies to it. *)
From Coq Require Import QArith Qcanon ZArith List Bool String Lia.
Require Import CGT.Model.Num CGT.Model.Date CGT.Model.Ledger CGT.Model.Match CGT.Model.Agg CGT.Model.Report
  CGT.Proofs.NumFacts CGT.Proofs.AggFacts CGT.Proofs.SortFacts CGT.Proofs.LedgerFacts CGT.Proofs.MatchInv CGT.Proofs.MatchGauge CGT.Proofs.ReportAdd.
Import ListNotations.
Open Scope Qc_scope.

Definition rescale_op (r : Qc) (o : op Qc) : op Qc :=
  match o with
  | Buy q p f => Buy (q * r) (p / r) f
  | Sell q p f => Sell (q * r) (p / r) f
  | o => o
  end.
Definition rescale_line (s : string) (D : Z) (r : Qc) (t : gtxn) : gtxn :=
  if of_tick s t && (t_date t <=? D)%Z then {| t_date := t_date t; t_tick := t_tick t; t_op := rescale_op r (t_op t) |} else t.

Definition no_event_op (o : op Qc) : bool := match o with CapReturn _ _ _ | Accumulation _ _ _ => false | _ => true end.

Section R.
  Context (s : string) (D : Z) (r : Qc) (Hr : 0 < r).
  Let r0 : r <> 0 := Qc_pos_neq0 r Hr.

  Lemma rescale_line_date t : t_date (rescale_line s D r t) = t_date t.
  Proof. unfold rescale_line. destruct (of_tick s t && (t_date t <=? D)%Z); reflexivity. Qed.
  Lemma rescale_line_tick t : t_tick (rescale_line s D r t) = t_tick t.
  Proof. unfold rescale_line. destruct (of_tick s t && (t_date t <=? D)%Z); reflexivity. Qed.
  Lemma rescale_line_of_tick s2 t : of_tick s2 (rescale_line s D r t) = of_tick s2 t.
  Proof. unfold of_tick. rewrite rescale_line_tick. reflexivity. Qed.
  Lemma rescale_line_on_date z t : on_date z (rescale_line s D r t) = on_date z t.
  Proof. unfold on_date. rewrite rescale_line_date. reflexivity. Qed.

  Lemma filter_map_comm {A} (p : A -> bool) (f : A -> A) l : (forall x, p (f x) = p x) -> filter p (map f l) = map f (filter p l).
  Proof. intros H. induction l as [|x l IH]; cbn [map filter]; [reflexivity|]. rewrite H. destruct (p x); cbn [map]; rewrite IH; reflexivity. Qed.

  (* the summaries of one operation under the rewriting *)
  Lemma rescale_op_sums o : no_event_op o = true ->
    buy_q (rescale_op r o) = buy_q o * r /\ buy_cost (rescale_op r o) = buy_cost o /\ sell_q (rescale_op r o) = sell_q o * r /\
    sell_gross (rescale_op r o) = sell_gross o /\ sell_fees (rescale_op r o) = sell_fees o /\ is_buy (rescale_op r o) = is_buy o /\
    is_sell (rescale_op r o) = is_sell o /\ evs_of (rescale_op r o) = evs_of o /\ ratio_of (rescale_op r o) = ratio_of o.
  Proof.
    destruct o; cbn [no_event_op rescale_op buy_q buy_cost sell_q sell_gross sell_fees is_buy is_sell evs_of ratio_of]; intros H; try discriminate;
      repeat split; try reflexivity; try ring; field; exact r0.
  Qed.

  Lemma qsum_map_scale {A} (f g : A -> Qc) l : (forall x, In x l -> g x = f x * r) -> qsum (map g l) = qsum (map f l) * r.
  Proof.
    induction l as [|x l IH]; intros H; cbn [map]; [rewrite qsum_nil; ring|]. rewrite !qsum_cons, (H x (or_introl eq_refl)), IH; [ring|].
    intros y Hy. apply H. right. exact Hy.
  Qed.
  Lemma qsum_map_same {A} (f g : A -> Qc) l : (forall x, In x l -> g x = f x) -> qsum (map g l) = qsum (map f l).
  Proof. intros H. f_equal. apply map_ext_in. intros x Hx. apply H. exact Hx. Qed.

  (* the ledger with the split line sp, and the rewritten ledger *)
  Context (a b : list gtxn) (sp : gtxn).
  Context (Hsp_d : t_date sp = D) (Hsp_t : of_tick s sp = true) (Hsp_o : t_op sp = Split r).
  Context (Hnoev : forall t, In t (a ++ b) -> of_tick s t = true -> no_event_op (t_op t) = true).
  Let l := a ++ sp :: b.
  Let l' := map (rescale_line s D r) (a ++ b).

  Definition ops (x : list gtxn) (z : Z) : list (op Qc) := map t_op (filter (on_date z) (filter (of_tick s) x)).

  Lemma ops_app x y z : ops (x ++ y) z = ops x z ++ ops y z.
  Proof. unfold ops. rewrite !filter_app, map_app. reflexivity. Qed.
  Lemma ops_l z : ops l z = ops a z ++ (if (z =? D)%Z then [Split r] else []) ++ ops b z.
  Proof.
    unfold l. rewrite ops_app. f_equal. unfold ops. cbn [filter]. rewrite Hsp_t. cbn [filter]. unfold on_date at 1. rewrite Hsp_d, Z.eqb_sym.
    destruct (z =? D)%Z; cbn [map app]; [rewrite Hsp_o|]; reflexivity.
  Qed.
  Lemma ops_noev z o : In o (ops (a ++ b) z) -> no_event_op o = true.
  Proof.
    unfold ops. intros H. apply in_map_iff in H. destruct H as (t & <- & Ht). apply filter_In in Ht. destruct Ht as [Ht _].
    apply filter_In in Ht. destruct Ht as [Hin Htk]. apply Hnoev; assumption.
  Qed.
  Lemma ops_l' z : ops l' z = if (z <=? D)%Z then map (rescale_op r) (ops (a ++ b) z) else ops (a ++ b) z.
  Proof.
    unfold ops, l'.
    rewrite (filter_map_comm (of_tick s) (rescale_line s D r) (a ++ b) (rescale_line_of_tick s)).
    rewrite (filter_map_comm (on_date z) (rescale_line s D r) _ (fun t => rescale_line_on_date z t)).
    rewrite map_map.
    destruct (Z.leb_spec z D) as [Hle|Hgt].
    - rewrite map_map. apply map_ext_in. intros t Ht. apply filter_In in Ht. destruct Ht as [Ht Hd]. apply filter_In in Ht. destruct Ht as [_ Htk].
      unfold on_date in Hd. apply Z.eqb_eq in Hd. unfold rescale_line. rewrite Htk, Hd. destruct (Z.leb_spec z D); [reflexivity|lia].
    - apply map_ext_in. intros t Ht. apply filter_In in Ht. destruct Ht as [Ht Hd]. unfold on_date in Hd. apply Z.eqb_eq in Hd.
      unfold rescale_line. rewrite Hd. destruct (Z.leb_spec z D); [lia|]. rewrite andb_false_r. reflexivity.
  Qed.

  Lemma mk_day_ops x z : mk_day (filter (of_tick s) x) z =
    {| dt := z; bq := qsum (map buy_q (ops x z)); bcost := qsum (map buy_cost (ops x z)); hasbuy := existsb is_buy (ops x z);
       sq := qsum (map sell_q (ops x z)); sgross := qsum (map sell_gross (ops x z)); sfees := qsum (map sell_fees (ops x z));
       hassell := existsb is_sell (ops x z); evs := flat_map evs_of (ops x z); ratio := qprod (map ratio_of (ops x z)) |}.
  Proof. reflexivity. Qed.

  Lemma qprod_app x y : qprod (x ++ y) = qprod x * qprod y.
  Proof. induction x as [|u v IH]; cbn [app]; [unfold qprod at 2; cbn [fold_right]; ring|]. rewrite !qprod_cons, IH. ring. Qed.

  (* the day records of the rewritten ledger are the rescaled day records of the original *)
  Theorem mk_day_rescale z : mk_day (filter (of_tick s) l') z = rescale_day D r (mk_day (filter (of_tick s) l) z).
  Proof.
    rewrite !mk_day_ops, ops_l, ops_l'. unfold rescale_day. cbn [dt bq bcost hasbuy sq sgross sfees hassell evs ratio].
    set (O := ops (a ++ b) z). assert (EO : ops a z ++ ops b z = O) by (unfold O; rewrite ops_app; reflexivity).
    assert (Hno : forall o, In o O -> no_event_op o = true) by (intros o; apply ops_noev).
    (* the summaries of the original day do not see the split line *)
    assert (S1 : forall g : op Qc -> Qc, g (Split r) = 0 -> qsum (map g (ops a z ++ (if (z =? D)%Z then [Split r] else []) ++ ops b z)) = qsum (map g O)).
    { intros g Hg. rewrite <- EO, !map_app, !qsum_app. destruct (z =? D)%Z; cbn [map]; rewrite ?qsum_cons, ?qsum_nil, ?Hg; ring. }
    assert (S2 : forall g : op Qc -> bool, g (Split r) = false -> existsb g (ops a z ++ (if (z =? D)%Z then [Split r] else []) ++ ops b z) = existsb g O).
    { intros g Hg. rewrite <- EO, !existsb_app. destruct (z =? D)%Z; cbn [existsb]; rewrite ?Hg; cbn [orb]; reflexivity. }
    assert (S3 : flat_map evs_of (ops a z ++ (if (z =? D)%Z then [Split r] else []) ++ ops b z) = flat_map evs_of O).
    { rewrite <- EO, !flat_map_app. destruct (z =? D)%Z; reflexivity. }
    assert (S4 : qprod (map ratio_of (ops a z ++ (if (z =? D)%Z then [Split r] else []) ++ ops b z)) = (if (z =? D)%Z then r else 1) * qprod (map ratio_of O)).
    { rewrite <- EO, !map_app, !qprod_app. destruct (z =? D)%Z; cbn [map].
      - rewrite qprod_cons. cbn [ratio_of]. assert (qprod [] = 1) as -> by reflexivity. ring.
      - assert (qprod [] = 1) as -> by reflexivity. ring. }
    rewrite (S1 buy_q eq_refl), (S1 buy_cost eq_refl), (S1 sell_q eq_refl), (S1 sell_gross eq_refl), (S1 sell_fees eq_refl),
            (S2 is_buy eq_refl), (S2 is_sell eq_refl), S3, S4.
    destruct (Z.leb_spec z D) as [Hle|Hgt].
    - rewrite !map_map.
      rewrite (qsum_map_scale buy_q (fun x => buy_q (rescale_op r x)) O) by (intros o Ho; apply (rescale_op_sums o (Hno o Ho))).
      rewrite (qsum_map_same buy_cost (fun x => buy_cost (rescale_op r x)) O) by (intros o Ho; apply (rescale_op_sums o (Hno o Ho))).
      rewrite (qsum_map_scale sell_q (fun x => sell_q (rescale_op r x)) O) by (intros o Ho; apply (rescale_op_sums o (Hno o Ho))).
      rewrite (qsum_map_same sell_gross (fun x => sell_gross (rescale_op r x)) O) by (intros o Ho; apply (rescale_op_sums o (Hno o Ho))).
      rewrite (qsum_map_same sell_fees (fun x => sell_fees (rescale_op r x)) O) by (intros o Ho; apply (rescale_op_sums o (Hno o Ho))).
      assert (E1 : existsb is_buy (map (rescale_op r) O) = existsb is_buy O).
      { clear -Hno r0. induction O as [|o R IH]; [reflexivity|]. cbn [map existsb]. rewrite IH by (intros x Hx; apply Hno; right; exact Hx).
        destruct (rescale_op_sums o (Hno o (or_introl eq_refl))) as (_ & _ & _ & _ & _ & E & _). rewrite E. reflexivity. }
      assert (E2 : existsb is_sell (map (rescale_op r) O) = existsb is_sell O).
      { clear -Hno r0. induction O as [|o R IH]; [reflexivity|]. cbn [map existsb]. rewrite IH by (intros x Hx; apply Hno; right; exact Hx).
        destruct (rescale_op_sums o (Hno o (or_introl eq_refl))) as (_ & _ & _ & _ & _ & _ & E & _). rewrite E. reflexivity. }
      assert (E3 : flat_map evs_of (map (rescale_op r) O) = flat_map evs_of O).
      { clear -Hno r0. induction O as [|o R IH]; [reflexivity|]. cbn [map flat_map]. rewrite IH by (intros x Hx; apply Hno; right; exact Hx).
        destruct (rescale_op_sums o (Hno o (or_introl eq_refl))) as (_ & _ & _ & _ & _ & _ & _ & E & _). rewrite E. reflexivity. }
      assert (E4 : qprod (map (fun x => ratio_of (rescale_op r x)) O) = qprod (map ratio_of O)).
      { f_equal. apply map_ext_in. intros o Ho. apply (rescale_op_sums o (Hno o Ho)). }
      rewrite E1, E2, E3, E4. f_equal. destruct (z =? D)%Z; field; exact r0.
    - destruct (Z.eqb_spec z D) as [E|_]; [lia|]. f_equal. ring.
  Qed.
End R.

Require Import CGT.Model.Validate CGT.Proofs.ValidWf.

Section R2.
  Context (s : string) (D : Z) (r : Qc) (Hr : 0 < r).
  Context (a b : list gtxn) (sp : gtxn).
  Context (Hsp_d : t_date sp = D) (Hsp_t : of_tick s sp = true) (Hsp_o : t_op sp = Split r).
  Context (Hnoev : forall t, In t (a ++ b) -> of_tick s t = true -> no_event_op (t_op t) = true).
  (* some other line of the security carries the split's date (otherwise that date disappears with the split line) *)
  Context (Hother : In D (map t_date (filter (of_tick s) (a ++ b)))).
  Let l := a ++ sp :: b.
  Let l' := map (rescale_line s D r) (a ++ b).

  Lemma dates_rescale : dates_of (filter (of_tick s) l') = dates_of (filter (of_tick s) l).
  Proof.
    unfold dates_of. apply (sort_uniq_set Z.compare Zcmp_eq Zcmp_antisym Zcmp_trans). intros z. unfold l, l'.
    rewrite (filter_map_comm (of_tick s) (rescale_line s D r) (a ++ b) (rescale_line_of_tick s D r s)), map_map.
    rewrite (map_ext (fun x => t_date (rescale_line s D r x)) t_date (rescale_line_date s D r)).
    rewrite !filter_app, !map_app, !in_app_iff. cbn [filter]. rewrite Hsp_t. cbn [map In]. rewrite Hsp_d.
    rewrite filter_app, map_app, in_app_iff in Hother. split; [tauto|]. intros [H|[<-|H]]; tauto.
  Qed.

  Theorem days_of_tick_rescale : days_of_tick l' s = map (rescale_day D r) (days_of_tick l s).
  Proof.
    unfold days_of_tick, days_of. rewrite dates_rescale, map_map. apply map_ext. intros z.
    apply (mk_day_rescale s D r Hr a b sp Hsp_d Hsp_t Hsp_o Hnoev z).
  Qed.

  Lemma days_noev : noev (days_of_tick l s).
  Proof.
    intros d Hd. unfold days_of_tick, days_of in Hd. apply in_map_iff in Hd. destruct Hd as (z & <- & _). cbn [evs mk_day].
    assert (H : forall t, In t (filter (on_date z) (filter (of_tick s) l)) -> evs_of (t_op t) = []).
    { intros t Ht. apply filter_In in Ht. destruct Ht as [Ht _]. apply filter_In in Ht. destruct Ht as [Hin Htk].
      unfold l in Hin. apply in_app_or in Hin. destruct Hin as [Hin|[<-|Hin]].
      - specialize (Hnoev t (in_or_app _ _ _ (or_introl Hin)) Htk). destruct (t_op t); try discriminate; reflexivity.
      - rewrite Hsp_o. reflexivity.
      - specialize (Hnoev t (in_or_app _ _ _ (or_intror Hin)) Htk). destruct (t_op t); try discriminate; reflexivity. }
    induction (filter (on_date z) (filter (of_tick s) l)) as [|t R IH]; [reflexivity|]. cbn [map flat_map].
    rewrite (H t (or_introl eq_refl)), IH; [reflexivity|]. intros x Hx. apply H. right. exact Hx.
  Qed.

  (* The property's own statement, for the security that splits: the rewritten ledger is refused exactly when the original is (same
     day, same reason); otherwise every money figure is the same and each leg's quantity is in the units current at its date. *)
  Theorem ledger_rescale P : has_errors (map t_op l) = false ->
    res_rel (st_rel (split_gauge D r) 1) (sr_res (eval_tick P l s)) (sr_res (eval_tick P l' s)).
  Proof.
    intros Hv. unfold eval_tick. cbn [sr_res]. rewrite days_of_tick_rescale.
    destruct (validated_days l s Hv) as [W S].
    apply run_split_rescale; try assumption.
    - unfold days_of_tick, days_of, dates. rewrite map_map. cbn [dt mk_day]. rewrite map_id.
      unfold dates_of. apply (sort_uniq_in Z.compare Zcmp_eq). unfold l.
      rewrite filter_app, map_app. apply in_or_app. right. cbn [filter]. rewrite Hsp_t. left. exact Hsp_d.
    - intros d Hd. apply (W d Hd).
    - apply days_noev.
  Qed.

  (* the other securities do not notice *)
  Theorem ledger_rescale_others P s2 : s2 <> s -> eval_tick P l' s2 = eval_tick P l s2.
  Proof.
    intros Hne.
    assert (Hx : forall t, of_tick s2 t = true -> of_tick s t = false).
    { intros t H. unfold of_tick, tick_eqb in *. apply String.eqb_eq in H. apply String.eqb_neq. congruence. }
    assert (E : filter (of_tick s2) l' = filter (of_tick s2) l).
    { unfold l, l'. rewrite (filter_map_comm (of_tick s2) (rescale_line s D r) (a ++ b) (rescale_line_of_tick s D r s2)).
      rewrite (filter_app (of_tick s2) a (sp :: b)). cbn [filter]. assert (of_tick s2 sp = false) as ->.
      { destruct (of_tick s2 sp) eqn:E; [|reflexivity]. rewrite (Hx sp E) in Hsp_t. discriminate. }
      rewrite <- filter_app. rewrite <- (map_id (filter (of_tick s2) (a ++ b))) at 2. apply map_ext_in. intros t Ht.
      apply filter_In in Ht. destruct Ht as [_ Ht]. unfold rescale_line. rewrite (Hx t Ht). reflexivity. }
    unfold eval_tick, days_of_tick. rewrite E. reflexivity.
  Qed.
End R2.
