(* Withholding totals are kept: what the dividends carry plus what is surfaced as orphan comments is what the NRA rows said. *)
From Coq Require Import QArith ZArith NArith List Bool Ascii String Permutation Lia Lqa.
Require Import CGT.Model.Date CGT.Model.Dsl CGT.Model.Schwab CGT.Proofs.SchwabFacts.
Import ListNotations.
Open Scope Q_scope.

Definition P10 (n : nat) : Q := inject_Z (10 ^ Z.of_nat n).
Definition dq (d : dec) : Q := inject_Z (Z.of_N (d_mant d)) / P10 (d_scale d).

Lemma P10_pos n : 0 < P10 n.
Proof. unfold P10. change 0 with (inject_Z 0). rewrite <- Zlt_Qlt. apply Z.pow_pos_nonneg; lia. Qed.
Lemma P10_add n m : P10 (n + m) == P10 n * P10 m.
Proof. unfold P10. rewrite Nat2Z.inj_add, Z.pow_add_r by lia. rewrite inject_Z_mult. reflexivity. Qed.
Lemma pow10N_Z k : Z.of_N (pow10N k) = (10 ^ Z.of_nat k)%Z.
Proof. unfold pow10N. rewrite N2Z.inj_pow. rewrite nat_N_Z. reflexivity. Qed.

Lemma dq_add a b : dq (dec_add a b) == dq a + dq b.
Proof.
  unfold dq, dec_add. cbn [d_mant d_scale].
  set (sa := d_scale a). set (sb := d_scale b). set (sc := Nat.max sa sb).
  rewrite N2Z.inj_add, !N2Z.inj_mul, !pow10N_Z, inject_Z_plus, !inject_Z_mult.
  fold (P10 (sc - sa)). fold (P10 (sc - sb)).
  assert (Ea : P10 sc == P10 (sc - sa) * P10 sa) by (rewrite <- P10_add; replace (sc - sa + sa)%nat with sc by (unfold sc; lia); reflexivity).
  assert (Eb : P10 sc == P10 (sc - sb) * P10 sb) by (rewrite <- P10_add; replace (sc - sb + sb)%nat with sc by (unfold sc; lia); reflexivity).
  pose proof (P10_pos sa). pose proof (P10_pos sb). pose proof (P10_pos (sc - sa)). pose proof (P10_pos (sc - sb)). pose proof (P10_pos sc).
  set (ma := inject_Z (Z.of_N (d_mant a))). set (mb := inject_Z (Z.of_N (d_mant b))).
  assert (E1 : ma * P10 (sc - sa) / P10 sc == ma / P10 sa) by (rewrite Ea; field; split; lra).
  assert (E2 : mb * P10 (sc - sb) / P10 sc == mb / P10 sb) by (rewrite Eb; field; split; lra).
  rewrite <- E1, <- E2. field. lra.
Qed.

(* ---------- totals ---------- *)
Definition qs (l : list Q) : Q := fold_right Qplus 0 l.
Lemma qs_app a b : qs (a ++ b) == qs a + qs b.
Proof. unfold qs. induction a as [|x r IH]; cbn [app fold_right]; [ring|]. rewrite IH. ring. Qed.
Lemma qs_perm a b : Permutation a b -> qs a == qs b.
Proof.
  unfold qs. induction 1 as [|x l l' _ IH|x y l|l l' l'' _ IH1 _ IH2]; cbn [fold_right]; try reflexivity.
  - rewrite IH. reflexivity.
  - ring.
  - rewrite IH1. exact IH2.
Qed.

Definition tot (t : taxes) : Q := qs (map (fun e => dq (snd e)) t).
Definition opt_dq (o : option dec) : Q := match o with Some v => dq v | None => 0 end.

Lemma tot_tax_add t z sym a : tot (tax_add t z sym a) == tot t + dq a.
Proof.
  unfold tot. induction t as [|[[z' s'] v] r IH]; cbn [tax_add map qs fold_right snd]; [ring|].
  destruct ((z' =? z)%Z && text_eqb s' sym); cbn [map qs fold_right snd].
  - rewrite dq_add. fold (qs (map (fun e => dq (snd e)) r)). ring.
  - fold (qs (map (fun e => dq (snd e)) (tax_add r z sym a))). fold (qs (map (fun e => dq (snd e)) r)). rewrite IH. ring.
Qed.
Lemma tot_tax_take t z sym : opt_dq (fst (tax_take t z sym)) + tot (snd (tax_take t z sym)) == tot t.
Proof.
  unfold tot. induction t as [|[[z' s'] v] r IH]; cbn [tax_take map qs fold_right fst snd opt_dq]; [ring|].
  destruct ((z' =? z)%Z && text_eqb s' sym); cbn [fst snd map qs fold_right opt_dq].
  - reflexivity.
  - fold (qs (map (fun e => dq (snd e)) (snd (tax_take r z sym)))). fold (qs (map (fun e => dq (snd e)) r)). rewrite <- IH. ring.
Qed.

(* the withholding the NRA rows state (those with a symbol and an amount: the others cannot be attributed and are ignored by the code) *)
Definition nra_amount (i : item) : Q := match i with INra _ (Some _) (Some a) => dq (s_dec a) | _ => 0 end.
Definition nra_total (is : list item) : Q := qs (map nra_amount is).
Lemma collect_taxes_tot is : forall t, tot (collect_taxes is t) == tot t + nra_total is.
Proof.
  unfold nra_total. induction is as [|i r IH]; intros t; cbn [collect_taxes map qs fold_right]; [ring|].
  fold (qs (map nra_amount r)).
  destruct i as [a d sym q p f|d sym q|d sym am|d sym|d sym am| |rw]; cbn [nra_amount]; try (rewrite IH; ring).
  destruct sym as [sym|]; [destruct am as [a|]|]; try (rewrite IH; ring). rewrite IH, tot_tax_add. ring.
Qed.

(* the withholding carried by the emitted dividends *)
Definition div_tax (t : cgt) : Q := match t with CDividend _ _ _ tax => dq (s_dec tax) | _ => 0 end.
Definition out_tax (out : list cgt) : Q := qs (map div_tax out).
Lemma out_tax_snoc out x : out_tax (out ++ [x]) == out_tax out + div_tax x.
Proof. unfold out_tax. rewrite map_app, qs_app. cbn [map qs fold_right]. ring. Qed.

Lemma step_tax lb aw st i st' : step lb aw st i = Ok st' ->
  out_tax (p_out st') + tot (p_taxes st') == out_tax (p_out st) + tot (p_taxes st).
Proof.
  destruct i as [a d sym q p f|d sym q|d sym am|d sym|d sym am| |r]; cbn [step].
  - destruct a; intros H; injection H as <-; cbn [p_out p_taxes]; rewrite ?out_tax_snoc; cbn [div_tax]; ring.
  - destruct aw as [m|]; [|discriminate]. destruct (get_fmv lb m sym (days_of_civil d)) as [[fmv vz]|]; [|discriminate].
    intros H; injection H as <-; cbn [p_out p_taxes]. rewrite out_tax_snoc. cbn [div_tax]. ring.
  - destruct am as [a|]; intros H; injection H as <-; cbn [p_out p_taxes]; [|reflexivity].
    rewrite out_tax_snoc. cbn [div_tax s_dec].
    rewrite <- (tot_tax_take (p_taxes st) (days_of_civil d) sym). unfold opt_dq.
    destruct (fst (tax_take (p_taxes st) (days_of_civil d) sym)); [ring|].
    change (dq {| d_mant := 0; d_scale := 0 |}) with (0 / P10 0). unfold Qdiv. ring.
  - intros H; injection H as <-; cbn [p_out p_taxes]. rewrite out_tax_snoc. cbn [div_tax]. ring.
  - intros H; injection H as <-. reflexivity.
  - intros H; injection H as <-; cbn [p_out p_taxes]. reflexivity.
  - intros H; injection H as <-; cbn [p_out p_taxes]. rewrite out_tax_snoc. cbn [div_tax]. ring.
Qed.
Lemma steps_tax lb aw is : forall st st', steps lb aw st is = Ok st' ->
  out_tax (p_out st') + tot (p_taxes st') == out_tax (p_out st) + tot (p_taxes st).
Proof.
  induction is as [|i r IH]; intros st st' H; cbn [steps] in H; [injection H as <-; reflexivity|].
  destruct (step lb aw st i) as [st1|e] eqn:E; [|discriminate]. rewrite (IH st1 st' H). exact (step_tax lb aw st i st1 E).
Qed.

Require Import CGT.Proofs.SchwabConserve.

Lemma out_tax_perm a b : Permutation a b -> out_tax a == out_tax b.
Proof. intros H. unfold out_tax. apply qs_perm. apply Permutation_map. exact H. Qed.
Lemma out_tax_comments l : out_tax (map CComment l) == 0.
Proof. unfold out_tax. induction l as [|x r IH]; cbn [map qs fold_right div_tax]; [reflexivity|]. fold (qs (map div_tax (map CComment r))). rewrite IH. ring. Qed.
Lemma out_tax_cancelled cs rem : Forall (fun x => exists c, In c cs /\ is_cancelled c x = true) rem -> out_tax rem == 0.
Proof.
  unfold out_tax. induction 1 as [|x r (c & _ & Hx) _ IH]; cbn [map qs fold_right]; [reflexivity|].
  fold (qs (map div_tax r)). rewrite IH. destruct x; cbn [is_cancelled] in Hx; try discriminate. cbn [div_tax]. ring.
Qed.

(* For every accepted export: the withholding attached to the emitted dividends plus the withholding surfaced as orphan comments
   equals the withholding the NRA rows state. *)
Theorem convert_keeps_withholding lb rows aws o : convert lb rows aws = Ok o ->
  exists items sorted orphans header,
    decode_all rows = Ok items /\ o_lines o = header ++ flat_map cgt_lines sorted /\
    (forall e, In e orphans -> In (CComment (orphan_comment e)) sorted) /\
    out_tax sorted + tot orphans == nra_total items.
Proof.
  unfold convert. intros H.
  destruct (match aws with Some a => match build_awards a [] with Ok m => Ok (Some m) | Err e => Err e end | None => Ok None end) as [awards|e]; [|discriminate].
  destruct (decode_all rows) as [items|e] eqn:Ed; [|discriminate].
  cbv zeta in H.
  match type of H with match steps lb awards ?s0 items with _ => _ end = _ => set (st0 := s0) in H end.
  destruct (steps lb awards st0 items) as [st|e] eqn:Es; [|discriminate].
  match type of H with context [apply_cancels ?a ?b ?c] => destruct (apply_cancels a b c) as [out' w'] eqn:Ea end.
  cbn [fst snd] in H. injection H as <-. cbn [o_lines].
  set (orphans := sort_stable tax_key_cmp (p_taxes st)) in *.
  match type of Ea with apply_cancels (p_out st ++ map ?f ?l) _ _ = _ =>
    assert (Em : map f l = map CComment (map orphan_comment l)) by (rewrite map_map; reflexivity); rewrite Em in Ea end.
  destruct (apply_cancels_spec _ _ _ _ _ Ea) as (rem & P & _ & _ & F).
  set (skipped := (p_skipped st + List.length orphans)%nat).
  exists items, (sort_stable cgt_cmp out'), orphans,
    ([comment_line (T "Converted from Charles Schwab export");
      comment_line (T "Source files: transactions.json" ++ (match aws with Some _ => T ", awards.json" | None => [] end))] ++
     (if Nat.ltb 0 skipped then [comment_line (T "SKIPPED: " ++ nat_text skipped ++ T " transactions not CGT-relevant")] else []) ++ [[]]).
  split; [reflexivity|]. split; [reflexivity|]. split.
  - (* orphan comments survive cancellation (they are not sells) and sorting *)
    intros e He. eapply Permutation_in; [apply sort_stable_perm|].
    assert (Hin : In (CComment (orphan_comment e)) (rem ++ out')).
    { eapply Permutation_in; [exact P|]. apply in_or_app. right. apply in_map. apply in_map. exact He. }
    apply in_app_or in Hin. destruct Hin as [Hin|Hin]; [|exact Hin]. exfalso.
    destruct (proj1 (Forall_forall _ _) F _ Hin) as (c & _ & Hc). discriminate Hc.
  - pose proof (steps_tax lb awards items st0 st Es) as T1. cbn [p_out p_taxes st0] in T1.
    pose proof (collect_taxes_tot items []) as T2.
    assert (T3 : out_tax (sort_stable cgt_cmp out') == out_tax (p_out st)).
    { rewrite <- (out_tax_perm _ _ (sort_stable_perm cgt_cmp out')).
      pose proof (out_tax_perm _ _ P) as X. unfold out_tax in X. rewrite !map_app, !qs_app in X.
      fold (out_tax rem) in X. fold (out_tax out') in X. fold (out_tax (p_out st)) in X.
      fold (out_tax (map CComment (map orphan_comment orphans))) in X.
      rewrite (out_tax_cancelled _ _ F), out_tax_comments in X. rewrite Qplus_0_r, Qplus_0_l in X. symmetry. exact X. }
    assert (T4 : tot orphans == tot (p_taxes st)).
    { unfold tot. apply qs_perm. apply Permutation_map. apply Permutation_sym. apply sort_stable_perm. }
    rewrite T3, T4, T1, T2. unfold out_tax, tot. cbn [map qs fold_right]. ring.
Qed.
