(* Shape of a disposal's legs: Same Day first, then 30-day legs to strictly later days inside the
   window in increasing date order, then at most one Section 104 leg. *)
From Coq Require Import QArith Qcanon ZArith List Bool Lqa Lia Sorted.
Require Import CGT.Model.Num CGT.Model.Match CGT.Proofs.NumFacts CGT.Proofs.MatchFacts CGT.Proofs.MatchInv.
Import ListNotations.
Open Scope Qc_scope.

Definition is_sd (z : Z) (l : leg) : Prop := lg_rule l = SameDay /\ lg_acq l = Some z /\ lg_sell l = z.
Definition is_bnb (w z : Z) (l : leg) : Prop :=
  lg_rule l = BnB /\ lg_sell l = z /\ exists e, lg_acq l = Some e /\ (0 < e - z <= w)%Z.
Definition is_pool (z : Z) (l : leg) : Prop := lg_rule l = S104 /\ lg_acq l = None /\ lg_sell l = z.
Definition acq_z (l : leg) : Z := match lg_acq l with Some e => e | None => 0%Z end.

(* the legs of one disposal *)
Definition legs_shape (w z : Z) (legs : list leg) : Prop :=
  exists sd bb pl, legs = sd ++ bb ++ pl /\
    (List.length sd <= 1)%nat /\ Forall (is_sd z) sd /\
    Forall (is_bnb w z) bb /\ StronglySorted (fun a b => (acq_z a < acq_z b)%Z) bb /\
    (List.length pl <= 1)%nat /\ Forall (is_pool z) pl.

Lemma same_day_step_shape offs d avail0 :
  (List.length (fst (fst (same_day_step offs d avail0))) <= 1)%nat /\
  Forall (is_sd (dt d)) (fst (fst (same_day_step offs d avail0))).
Proof.
  unfold same_day_step. destruct (qltb 0 avail0 && qltb 0 (sq d)); cbn [fst snd List.length].
  - split; [lia|]. constructor; [|constructor]. repeat split.
  - split; [lia|constructor].
Qed.
Lemma pool_step_shape d s rem :
  (List.length (fst (fst (pool_step d s rem))) <= 1)%nat /\ Forall (is_pool (dt d)) (fst (fst (pool_step d s rem))).
Proof.
  unfold pool_step. destruct (qltb 0 rem && m_pooled s && negb (qeqb (m_pq s) 0) && negb (qeqb (sq d) 0)); cbn [fst snd List.length].
  - split; [lia|]. constructor; [|constructor]. repeat split.
  - split; [lia|constructor].
Qed.

Lemma bnb_shape w offs d fut : forall R rem cl, later d fut -> sorted_days fut ->
  Forall (is_bnb w (dt d)) (b_legs (bnb w offs d fut R rem cl)) /\
  StronglySorted (fun a b => (acq_z a < acq_z b)%Z) (b_legs (bnb w offs d fut R rem cl)) /\
  Forall (fun l => exists e, In e fut /\ acq_z l = dt e) (b_legs (bnb w offs d fut R rem cl)).
Proof.
  induction fut as [|e r IH]; intros R rem cl Hl Hs; cbn [bnb].
  - cbn [b_legs bres0]. repeat split; constructor.
  - destruct (negb (qltb 0 rem)); [cbn [b_legs bres0]; repeat split; constructor|].
    destruct (dt e - dt d >? w)%Z eqn:Hw; [cbn [b_legs bres0]; repeat split; constructor|].
    apply sorted_cons_inv in Hs. destruct Hs as [Hs Hle].
    assert (Hstep : Forall (is_bnb w (dt d)) (b_legs (bnb_step offs d e R rem cl)) /\
                    Forall (fun l => acq_z l = dt e) (b_legs (bnb_step offs d e R rem cl))).
    { unfold bnb_step. destruct (hasbuy e && qltb 0 (free_of e cl)); cbn [b_legs bres0]; [|split; constructor].
      split; (constructor; [|constructor]).
      - split; [reflexivity|]. split; [reflexivity|]. exists (dt e). split; [reflexivity|].
        specialize (Hl e (or_introl eq_refl)). lia.
      - reflexivity. }
    destruct Hstep as [Hs1 Hs2].
    assert (Hs3 : StronglySorted (fun a b => (acq_z a < acq_z b)%Z) (b_legs (bnb_step offs d e R rem cl))).
    { unfold bnb_step. destruct (hasbuy e && qltb 0 (free_of e cl)); cbn [b_legs bres0]; repeat constructor. }
    destruct (b_crash (bnb_step offs d e R rem cl)).
    { split; [exact Hs1|]. split; [exact Hs3|].
      eapply Forall_impl; [|exact Hs2]. intros l Hlq. exists e. split; [left; reflexivity|exact Hlq]. }
    cbn [b_legs].
    destruct (IH (R * ratio e) (b_rem (bnb_step offs d e R rem cl)) (b_cl (bnb_step offs d e R rem cl))
                 (fun x Hx => Hl x (or_intror Hx)) Hs) as (I1 & I2 & I3).
    split; [apply Forall_app; split; assumption|]. split.
    + (* sortedness of the concatenation *)
      clear - Hs2 Hs3 I2 I3 Hle.
      induction (b_legs (bnb_step offs d e R rem cl)) as [|x xs IHx]; cbn [app]; [exact I2|].
      inversion Hs3; subst. inversion Hs2; subst. constructor; [apply IHx; assumption|].
      apply Forall_app. split; [assumption|].
      eapply Forall_impl; [|exact I3]. intros l (e0 & He0 & El). rewrite El, H3. apply Hle. exact He0.
    + apply Forall_app. split.
      * eapply Forall_impl; [|exact Hs2]. intros l Hlq. exists e. split; [left; reflexivity|exact Hlq].
      * eapply Forall_impl; [|exact I3]. intros l (e0 & He0 & El). exists e0. split; [right; exact He0|exact El].
Qed.

Lemma sell_step_shape w offs s d rest avail0 pos1 r : later d rest -> sorted_days rest ->
  sell_step w offs s d rest avail0 pos1 = inr r -> legs_shape w (dt d) (s_legs r).
Proof.
  intros Hl Hs. unfold sell_step.
  destruct (qltb pos1 (sq d)); [discriminate|].
  destruct (qltb (avail0 + m_pq s) (sq d)); [discriminate|].
  set (sd := same_day_step offs d avail0).
  set (bb := if qeqb (sq d) 0 then bres0 (snd (fst sd)) (m_cl s) else bnb w offs d rest (ratio d) (snd (fst sd)) (m_cl s)).
  destruct (b_crash bb); [discriminate|].
  set (pl := pool_step d s (b_rem bb)).
  destruct (qltb 0 (snd (fst pl))); [discriminate|].
  intros E. injection E as <-. cbn [s_legs].
  exists (fst (fst sd)), (b_legs bb), (fst (fst pl)). split; [reflexivity|].
  destruct (same_day_step_shape offs d avail0) as [A1 A2]. destruct (pool_step_shape d s (b_rem bb)) as [P1 P2].
  split; [exact A1|]. split; [exact A2|].
  assert (Forall (is_bnb w (dt d)) (b_legs bb) /\ StronglySorted (fun a b => (acq_z a < acq_z b)%Z) (b_legs bb)) as [B1 B2].
  { unfold bb. destruct (qeqb (sq d) 0); [cbn [b_legs bres0]; split; constructor|].
    destruct (bnb_shape w offs d rest (ratio d) (snd (fst sd)) (m_cl s) Hl Hs) as (X & Y & _). split; assumption. }
  split; [exact B1|]. split; [exact B2|]. split; [exact P1|exact P2].
Qed.

Lemma mainpass_shape w offs ds : forall s s', sorted_days ds ->
  Forall (fun x => legs_shape w (fst x) (snd x)) (m_disp s) -> mainpass w offs s ds = inr s' ->
  Forall (fun x => legs_shape w (fst x) (snd x)) (m_disp s').
Proof.
  induction ds as [|d r IH]; intros s s' Hs HF E; cbn [mainpass] in E.
  - injection E as <-. exact HF.
  - apply sorted_cons_inv in Hs. destruct Hs as [Hs Hl].
    destruct (day_step w offs s d r) as [e|s1] eqn:E1; [discriminate|].
    apply (IH s1 s' Hs); [|exact E].
    unfold day_step in E1.
    destruct (hasbuy d && qltb (bq d) (if hasbuy d then claim_of (m_cl s) (dt d) else 0)); [discriminate|].
    destruct (hassell d).
    + destruct (sell_step w offs s d r _ _) as [e|rr] eqn:E2; [discriminate|].
      injection E1 as <-. cbn [m_disp]. apply Forall_app. split; [exact HF|].
      destruct (s_legs rr) eqn:El; [constructor|]. constructor; [|constructor]. cbn [fst snd]. rewrite <- El.
      eapply sell_step_shape; eassumption.
    + injection E1 as <-. cbn [m_disp s_legs]. rewrite app_nil_r. exact HF.
Qed.

Theorem run_legs_shape w ds s : sorted_days ds -> run w ds = inr s ->
  Forall (fun x => legs_shape w (fst x) (snd x)) (m_disp s).
Proof.
  intros Hs. unfold run. destruct (prepass false [] ds) as [e|offs]; [discriminate|]. intros E.
  eapply mainpass_shape; [exact Hs| |exact E]. constructor.
Qed.
