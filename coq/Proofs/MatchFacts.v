(* Lemmas about the per-security matcher model. *)
From Coq Require Import QArith Qcanon ZArith List Bool Lqa Lia.
Require Import CGT.Model.Num CGT.Model.Match CGT.Proofs.NumFacts.
Import ListNotations.
Open Scope Qc_scope.

Definition legs_qty (ls : list leg) : Qc := qsum (map lg_qty ls).
Lemma legs_qty_app a b : legs_qty (a ++ b) = legs_qty a + legs_qty b.
Proof. unfold legs_qty. rewrite map_app. apply qsum_app. Qed.
Lemma legs_qty_nil : legs_qty [] = 0. Proof. reflexivity. Qed.
Lemma legs_qty_one l : legs_qty [l] = lg_qty l. Proof. unfold legs_qty; cbn [map]. apply qsum_one. Qed.

Lemma bnb_step_qty offs d e R rem cl :
  legs_qty (b_legs (bnb_step offs d e R rem cl)) = rem - b_rem (bnb_step offs d e R rem cl).
Proof.
  unfold bnb_step. destruct (hasbuy e && qltb 0 (free_of e cl)); cbn [b_legs b_rem bres0].
  - rewrite legs_qty_one. cbn [lg_qty mk_leg]. ring.
  - rewrite legs_qty_nil; ring.
Qed.

Lemma bnb_qty w offs d fut : forall R rem cl,
  legs_qty (b_legs (bnb w offs d fut R rem cl)) = rem - b_rem (bnb w offs d fut R rem cl).
Proof.
  induction fut as [|e r IH]; intros R rem cl; cbn [bnb].
  - cbn [b_legs b_rem bres0]. rewrite legs_qty_nil; ring.
  - destruct (negb (qltb 0 rem)); [cbn [b_legs b_rem bres0]; rewrite legs_qty_nil; ring|].
    destruct (dt e - dt d >? w)%Z; [cbn [b_legs b_rem bres0]; rewrite legs_qty_nil; ring|].
    destruct (b_crash (bnb_step offs d e R rem cl)); [apply bnb_step_qty|].
    cbn [b_legs b_rem]. rewrite legs_qty_app, IH, bnb_step_qty. ring.
Qed.
