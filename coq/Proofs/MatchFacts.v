(* Lemmas about the per-security matcher model. *)
From Coq Require Import QArith Qcanon ZArith List Bool Lqa Lia.
Require Import CGT.Model.Num CGT.Model.Match CGT.Proofs.NumFacts.
Import ListNotations.
Open Scope Qc_scope.

Definition legs_qty (ls : list leg) : Qc := qsum (map lg_qty ls).
Lemma legs_qty_app a b : legs_qty (a ++ b) = legs_qty a + legs_qty b.
Proof. unfold legs_qty. rewrite map_app. apply qsum_app. Qed.
Lemma legs_qty_nil : legs_qty [] = 0. Proof. reflexivity. Qed.
Lemma legs_qty_one l : legs_qty [l] = lg_qty l. Proof. unfold legs_qty; cbn [map]. apply qsum_one. Qed.

Lemma bnb_step_qty offs d e R rem cl :
  legs_qty (b_legs (bnb_step offs d e R rem cl)) = rem - b_rem (bnb_step offs d e R rem cl).
Proof.
  unfold bnb_step. destruct (hasbuy e && qltb 0 (free_of e cl)); cbn [b_legs b_rem bres0].
  - rewrite legs_qty_one. cbn [lg_qty mk_leg]. ring.
  - rewrite legs_qty_nil; ring.
Qed.

Lemma bnb_qty w offs d fut : forall R rem cl,
  legs_qty (b_legs (bnb w offs d fut R rem cl)) = rem - b_rem (bnb w offs d fut R rem cl).
Proof.
  induction fut as [|e r IH]; intros R rem cl; cbn [bnb].
  - cbn [b_legs b_rem bres0]. rewrite legs_qty_nil; ring.
  - destruct (negb (qltb 0 rem)); [cbn [b_legs b_rem bres0]; rewrite legs_qty_nil; ring|].
    destruct (dt e - dt d >? w)%Z; [cbn [b_legs b_rem bres0]; rewrite legs_qty_nil; ring|].
    destruct (b_crash (bnb_step offs d e R rem cl)); [apply bnb_step_qty|].
    cbn [b_legs b_rem]. rewrite legs_qty_app, IH, bnb_step_qty. ring.
Qed.

(* ---------- C01: legs of the look-ahead ---------- *)
Lemma bnb_step_legs offs d e R rem cl l :
  In l (b_legs (bnb_step offs d e R rem cl)) ->
  lg_rule l = BnB /\ lg_acq l = Some (dt e) /\ lg_sell l = dt d /\ hasbuy e = true.
Proof.
  unfold bnb_step. destruct (hasbuy e) eqn:Hb; cbn [andb]; [|cbn [b_legs bres0]; intros []].
  destruct (qltb 0 (free_of e cl)); cbn [b_legs bres0]; [|intros []].
  intros [<-|[]]. cbn [lg_rule lg_acq lg_sell mk_leg]. auto.
Qed.

Lemma bnb_legs w offs d fut : forall R rem cl l,
  In l (b_legs (bnb w offs d fut R rem cl)) ->
  lg_rule l = BnB /\ lg_sell l = dt d /\
  exists e, In e fut /\ lg_acq l = Some (dt e) /\ hasbuy e = true /\ (dt e - dt d <= w)%Z.
Proof.
  induction fut as [|e r IH]; intros R rem cl l; cbn [bnb].
  - cbn [b_legs bres0]. intros [].
  - destruct (negb (qltb 0 rem)); [cbn [b_legs bres0]; intros []|].
    destruct (dt e - dt d >? w)%Z eqn:Hw; [cbn [b_legs bres0]; intros []|].
    assert (Hle : (dt e - dt d <= w)%Z) by lia.
    assert (Hstep : In l (b_legs (bnb_step offs d e R rem cl)) ->
      lg_rule l = BnB /\ lg_sell l = dt d /\
      exists e0, In e0 (e :: r) /\ lg_acq l = Some (dt e0) /\ hasbuy e0 = true /\ (dt e0 - dt d <= w)%Z).
    { intros H. apply bnb_step_legs in H. destruct H as (H1 & H2 & H3 & H4).
      split; [exact H1|]. split; [exact H3|]. exists e. split; [left; reflexivity|]. auto. }
    destruct (b_crash (bnb_step offs d e R rem cl)); [exact Hstep|].
    cbn [b_legs]. intros H. apply in_app_or in H. destruct H as [H|H]; [exact (Hstep H)|].
    apply IH in H. destruct H as (H1 & H2 & e0 & He0 & H3).
    split; [exact H1|]. split; [exact H2|]. exists e0. split; [right; exact He0|exact H3].
Qed.

(* ---------- C03: removal from the pool at average cost conserves cost ---------- *)
Definition legs_cost (ls : list leg) : Qc := qsum (map lg_cost ls).
Lemma pool_step_cost d s rem :
  legs_cost (fst (fst (pool_step d s rem))) + snd (snd (pool_step d s rem)) = m_pc s.
Proof.
  unfold pool_step.
  destruct (qltb 0 rem && m_pooled s && negb (qeqb (m_pq s) 0) && negb (qeqb (sq d) 0));
    cbn [fst snd]; unfold legs_cost; cbn [map lg_cost mk_leg]; rewrite ?qsum_one, ?qsum_nil; ring.
Qed.
Lemma pool_step_qty d s rem :
  legs_qty (fst (fst (pool_step d s rem))) = rem - snd (fst (pool_step d s rem)) /\
  fst (snd (pool_step d s rem)) = m_pq s - (rem - snd (fst (pool_step d s rem))).
Proof.
  unfold pool_step.
  destruct (qltb 0 rem && m_pooled s && negb (qeqb (m_pq s) 0) && negb (qeqb (sq d) 0));
    cbn [fst snd]; unfold legs_qty; cbn [map lg_qty mk_leg]; rewrite ?qsum_one, ?qsum_nil; split; ring.
Qed.

(* ---------- C04: a leg's gain is its net proceeds less its cost ---------- *)
Lemma mk_leg_gain d r m acq c : lg_gain (mk_leg d r m acq c) = lg_net (mk_leg d r m acq c) - c.
Proof. reflexivity. Qed.
Lemma mk_leg_net d r m acq c : lg_net (mk_leg d r m acq c) = lg_gross (mk_leg d r m acq c) - sfees d * (m / sq d).
Proof. reflexivity. Qed.

(* ---------- C12: the look-ahead never reads beyond the window ---------- *)
Lemma bnb_beyond w offs d fut1 fut2 : forall R rem cl,
  (forall e, In e fut2 -> (dt e - dt d > w)%Z) ->
  bnb w offs d (fut1 ++ fut2) R rem cl = bnb w offs d fut1 R rem cl.
Proof.
  induction fut1 as [|e r IH]; intros R rem cl H; cbn [app].
  - destruct fut2 as [|e r]; [reflexivity|]. cbn [bnb].
    destruct (negb (qltb 0 rem)); [reflexivity|].
    assert (dt e - dt d > w)%Z as Hw by (apply H; left; reflexivity).
    destruct (dt e - dt d >? w)%Z eqn:E; [reflexivity|lia].
  - cbn [bnb]. destruct (negb (qltb 0 rem)); [reflexivity|].
    destruct (dt e - dt d >? w)%Z; [reflexivity|].
    destruct (b_crash (bnb_step offs d e R rem cl)); [reflexivity|].
    rewrite IH by exact H. reflexivity.
Qed.

(* ---------- C05: a sale beyond the position is refused, naming its date ---------- *)
Lemma sell_step_position w offs s d fut avail0 pos1 :
  pos1 < sq d -> sell_step w offs s d fut avail0 pos1 = inl (EExceedsHolding (dt d)).
Proof.
  intros H. unfold sell_step. destruct (qltb_spec pos1 (sq d)) as [_|N]; [reflexivity|contradiction].
Qed.

(* ---------- C11: an adjustment is apportioned in full over the shares held ---------- *)
Definition offs_total (ls : list plot) : Qc := qsum (map pl_off ls).
Lemma held_pos_sum ls : (forall l, In l ls -> 0 <= pl_held l) ->
  qsum (map (fun l => if qltb 0 (pl_held l) then pl_held l else 0) ls) = total_held ls.
Proof.
  unfold total_held. induction ls as [|l r IH]; intros H; cbn [map]; [reflexivity|].
  rewrite !qsum_cons, IH by (intros x Hx; apply H; right; exact Hx).
  destruct (qltb_spec 0 (pl_held l)) as [P|N]; [reflexivity|].
  assert (0 <= pl_held l) as Q by (apply H; left; reflexivity).
  assert (pl_held l = 0) as -> by (qc2q; lra). ring.
Qed.
Lemma apply_adj_sum ls a th :
  qsum (map (fun x => pl_off (if qltb 0 (pl_held x) then pl_add_off x (a * (pl_held x / th)) else x)) ls)
  = qsum (map pl_off ls) + a * (qsum (map (fun l => if qltb 0 (pl_held l) then pl_held l else 0) ls) / th).
Proof.
  induction ls as [|l r IH]; cbn [map]; rewrite ?qsum_cons, ?qsum_nil.
  - unfold Qcdiv. ring.
  - rewrite IH. destruct (qltb 0 (pl_held l)); cbn [pl_off pl_add_off]; unfold Qcdiv; ring.
Qed.
Lemma apply_adj_total ls a : (forall l, In l ls -> 0 <= pl_held l) -> total_held ls <> 0 ->
  offs_total (apply_adj ls a) = offs_total ls + a.
Proof.
  intros Hh Hne. unfold apply_adj. destruct (qeqb_spec (total_held ls) 0) as [E|_]; [contradiction|].
  unfold offs_total. rewrite map_map, apply_adj_sum, held_pos_sum by exact Hh. field. exact Hne.
Qed.
