(* The command layer: a failing command has no effect at all; a succeeding one has exactly its one output, made of the
   complete result of every computation; the default PDF path is never written over.  For any parser, loader,
   calculator, formatters and converter, any file system, any command line. *)
From Coq Require Import NArith List Bool Ascii String.
Require Import CGT.Model.Dsl CGT.Model.Cli.
Import ListNotations.

Ltac brk := repeat match goal with
  | |- context [match ?x with _ => _ end] => destruct x eqn:?
  | |- context [if ?x then _ else _] => destruct x eqn:?
  end.

Section F.
  Context {Txs Fx Cfg Rep : Type}.
  Context (parse : text -> option Txs) (to_json : Txs -> option text) (schema : option text)
          (load_fx : option path -> option Fx) (load_cfg : option Cfg)
          (calc : Txs -> option N -> Fx -> Cfg -> option Rep)
          (fmt_plain fmt_json fmt_pdf : Rep -> option text)
          (convert : text -> option text -> option text).
  Notation report := (report_cmd parse load_fx load_cfg calc fmt_plain fmt_json fmt_pdf).
  Notation parsec := (parse_cmd parse to_json schema).
  Notation convertc := (convert_cmd convert).

  Lemma emit_fail fs o c s : snd (emit fs o c s) = ExitErr -> fst (emit fs o c s) = [].
  Proof. unfold emit, fail. brk; cbn; intros; congruence. Qed.

  Theorem report_failure_silent fs files year fmt output fx :
    snd (report fs files year fmt output fx) = ExitErr -> fst (report fs files year fmt output fx) = [].
  Proof. unfold report_cmd, emit, fail. brk; cbn; intros; congruence. Qed.
  Theorem parse_failure_silent fs files sc : snd (parsec fs files sc) = ExitErr -> fst (parsec fs files sc) = [].
  Proof. unfold parse_cmd, fail. brk; cbn; intros; congruence. Qed.
  Theorem convert_failure_silent fs ex aw output : snd (convertc fs ex aw output) = ExitErr -> fst (convertc fs ex aw output) = [].
  Proof. unfold convert_cmd, emit, fail. brk; cbn; intros; congruence. Qed.

  (* the only path a report ever writes is the --output path, or the default PDF path when there is none *)
  Definition target (files : list path) (output : option path) : path :=
    match output with Some p => p | None => default_pdf files end.
  Theorem report_writes_only_target fs files year fmt output fx p b :
    In (Write p b) (fst (report fs files year fmt output fx)) -> p = target files output /\ f_can_write fs p = true.
  Proof.
    unfold report_cmd, emit, fail, target. brk; cbn; intros H; try contradiction;
      repeat (destruct H as [H|H]; try discriminate; try contradiction);
      injection H as <- <-; split; (reflexivity || assumption).
  Qed.
  Theorem default_pdf_never_replaces fs files year fmt fx p b :
    In (Write p b) (fst (report fs files year fmt None fx)) -> f_exists fs p = false.
  Proof.
    unfold report_cmd, emit, fail. brk; cbn; intros H; try contradiction;
      repeat (destruct H as [H|H]; try discriminate; try contradiction).
    injection H as <- <-. cbn [andb] in *. assumption.
  Qed.
  (* an --output path that cannot be written, or an existing default PDF, makes the command fail *)
  Theorem report_refuses_existing_default fs files year fx :
    f_exists fs (default_pdf files) = true -> report fs files year Pdf None fx = fail.
  Proof. intros E. unfold report_cmd, fail. brk; cbn in *; try reflexivity; congruence. Qed.

  (* success means every stage succeeded and the one output is the formatter's whole result *)
  Definition rendered (fmt : format) (rep : Rep) : option text :=
    match fmt with Plain => fmt_plain rep | Json => fmt_json rep | Pdf => fmt_pdf rep end.
  Theorem report_success_complete fs files year fmt output fx :
    snd (report fs files year fmt output fx) = Exit0 ->
    exists cs rates txs cfg rep c,
      read_all fs files = Some cs /\ load_fx fx = Some rates /\ parse (join_nl cs) = Some txs /\ load_cfg = Some cfg /\
      calc txs year rates cfg = Some rep /\ rendered fmt rep = Some c /\
      (fst (report fs files year fmt output fx) =
         match fmt, output with
         | Pdf, _ => [Write (target files output) c; Out (PDF_WRITTEN ++ target files output ++ NL)]
         | Plain, None => [Out (c ++ [])] | Json, None => [Out (c ++ NL)]
         | _, Some p => [Write p c]
         end).
  Proof.
    unfold report_cmd, emit, fail, rendered, target.
    destruct (read_all fs files) as [cs|] eqn:E1; [|discriminate].
    destruct (load_fx fx) as [rates|] eqn:E2; [|discriminate].
    destruct (parse (join_nl cs)) as [txs|] eqn:E3; [|discriminate].
    destruct load_cfg as [cfg|] eqn:E4; [|discriminate].
    destruct (calc txs year rates cfg) as [rep|] eqn:E5; [|discriminate].
    destruct fmt.
    - destruct (fmt_plain rep) as [c|] eqn:E6; [|discriminate]. intros H. exists cs, rates, txs, cfg, rep, c.
      repeat split; try assumption. destruct output as [p|]; cbn in *; [|reflexivity]. destruct (f_can_write fs p); [reflexivity|discriminate].
    - destruct (fmt_json rep) as [c|] eqn:E6; [|discriminate]. intros H. exists cs, rates, txs, cfg, rep, c.
      repeat split; try assumption. destruct output as [p|]; cbn in *; [|reflexivity]. destruct (f_can_write fs p); [reflexivity|discriminate].
    - destruct (fmt_pdf rep) as [c|] eqn:E6; [|discriminate]. intros H. exists cs, rates, txs, cfg, rep, c.
      repeat split; try assumption. destruct output as [p|]; cbn [andb] in *.
      + destruct (f_can_write fs p); [reflexivity|discriminate].
      + destruct (f_exists fs (default_pdf files)); cbn [andb] in *; [discriminate|]. destruct (f_can_write fs (default_pdf files)); [reflexivity|discriminate].
  Qed.

  Theorem parse_success_complete fs files :
    files <> [] -> snd (parsec fs files false) = Exit0 ->
    exists cs txs j, read_all fs files = Some cs /\ parse (join_nl cs) = Some txs /\ to_json txs = Some j /\
                     fst (parsec fs files false) = [Out (j ++ NL)].
  Proof.
    intros Hne. unfold parse_cmd, fail. destruct files as [|f r]; [congruence|].
    destruct (read_all fs (f :: r)) as [cs|] eqn:E1; [|discriminate]. destruct (parse (join_nl cs)) as [txs|] eqn:E2; [|discriminate].
    destruct (to_json txs) as [j|] eqn:E3; [|discriminate]. intros _. exists cs, txs, j. repeat split; assumption.
  Qed.

  Theorem convert_success_complete fs ex aw output :
    snd (convertc fs ex aw output) = Exit0 ->
    exists e a dsl, f_read fs ex = Some e /\ (match aw with None => a = None | Some p => f_read fs p = a /\ a <> None end) /\
                    convert e a = Some dsl /\
                    fst (convertc fs ex aw output) = match output with Some p => [Write p dsl] | None => [Out (dsl ++ NL)] end.
  Proof.
    unfold convert_cmd, emit, fail. destruct (f_read fs ex) as [e|] eqn:Ee; [|discriminate].
    destruct aw as [p|].
    - destruct (f_read fs p) as [a|] eqn:Ea; [|discriminate]. destruct (convert e (Some a)) as [dsl|] eqn:Ec; [|discriminate].
      intros H. exists e, (Some a), dsl. repeat split; try assumption; try discriminate.
      destruct output as [q|]; [|reflexivity]. destruct (f_can_write fs q); [reflexivity|discriminate].
    - destruct (convert e None) as [dsl|] eqn:Ec; [|discriminate]. intros H. exists e, None, dsl. repeat split; try assumption.
      destruct output as [q|]; [|reflexivity]. destruct (f_can_write fs q); [reflexivity|discriminate].
  Qed.
End F.

(* the default PDF name *)
Example with_pdf_examples :
  with_pdf (T "in.cgt") = T "in.pdf" /\ with_pdf (T "dir.x/a.b.cgt") = T "dir.x/a.b.pdf" /\ with_pdf (T "noext") = T "noext.pdf" /\
  with_pdf (T "d/.hidden") = T "d/.hidden.pdf" /\ with_pdf (T "a.") = T "a.pdf" /\ default_pdf [T "a.cgt"; T "b.cgt"] = T "report.pdf".
Proof. repeat split; vm_compute; reflexivity. Qed.
