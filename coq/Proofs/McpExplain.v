(* explain_matching can explain every disposal calculate_report lists: it asks for the report of the tax year it derives from the
   disposal date, and that year-filtered report contains the disposal. *)
From Coq Require Import QArith Qcanon ZArith List Bool String Lia.
Require Import CGT.Model.Num CGT.Model.Date CGT.Model.Ledger CGT.Model.Match CGT.Model.Agg CGT.Model.Report CGT.Generated.Params CGT.Model.Config CGT.Model.Mcp
  CGT.Proofs.McpFacts CGT.Proofs.DateFacts CGT.Proofs.SliceFacts.
Import ListNotations.
Open Scope Z_scope.

Theorem explain_finds cfg l r_all ys x r_y :
  dated_in_sweep (sort_disposals (sec_disposals P0 (eval_all P0 l))) ->
  report_of P0 cfg None l = inr r_all -> In ys (r_years r_all) -> In x (y_disposals ys) ->
  report_of P0 cfg (Some (explain_year (civil_of_days (d_date x)))) l = inr r_y ->
  exists ys', r_years r_y = [ys'] /\ In x (y_disposals ys') /\ y_year ys' = y_year ys.
Proof.
  intros Hsw Hall Hys Hx Hy.
  set (ds := sort_disposals (sec_disposals P0 (eval_all P0 l))) in *.
  (* the all-years summary ys is ysum_for ... y0 and x lies in year y0 *)
  assert (Hform : exists y0, ys = ysum_for P0 cfg l ds y0).
  { revert Hall Hys. unfold report_of. fold ds. destruct (sec_errors (eval_all P0 l)); [|discriminate].
    destruct (bad_year_errors P0 ds); [|discriminate]. destruct (ex_errors cfg (years_of P0 ds)); [|discriminate].
    intros H. injection H as <-. cbn [r_years]. intros Hin. apply in_map_iff in Hin. destruct Hin as (y0 & <- & _). exists y0. reflexivity. }
  destruct Hform as (y0 & ->). cbn [y_disposals ysum_for mk_ysum y_year] in Hx |- *.
  unfold disposals_in in Hx. apply filter_In in Hx. destruct Hx as [Hxin Hyr].
  unfold in_year in Hyr. destruct (tax_year_of_days P0 (d_date x)) as [y'|] eqn:Ety; [|discriminate].
  apply Z.eqb_eq in Hyr. subst y'.
  assert (Eexp : explain_year (civil_of_days (d_date x)) = y0) by (apply (explain_year_is_tax_year _ ty_min ty_max); exact Ety).
  rewrite Eexp in Hy.
  assert (Hb : 1900 <= y0 <= 2100).
  { unfold tax_year_of_days, tax_year_of_gen in Ety. cbn [P0 p_bm p_bd p_ymin p_ymax] in Ety. cbv zeta in Ety.
    match type of Ety with (if _ then None else if (ty_min <=? ?e) && _ then _ else _) = _ => set (sy := e) in Ety end.
    destruct ((sy <? 0) || (65535 <? sy)); [discriminate|]. destruct ((ty_min <=? sy) && (sy <=? ty_max)) eqn:E; [|discriminate].
    injection Ety as <-. apply andb_true_iff in E. destruct E as [A B]. apply Z.leb_le in A, B. unfold ty_min, ty_max in *. lia. }
  destruct (filter_is_slice cfg l y0 r_all r_y Hb Hsw Hall Hy) as (_ & Hyears & _).
  exists (ysum_for P0 cfg l ds y0). split; [exact Hyears|]. split; [|reflexivity].
  cbn [y_disposals ysum_for mk_ysum]. unfold disposals_in. apply filter_In. split; [exact Hxin|].
  unfold in_year. rewrite Ety. apply Z.eqb_refl.
Qed.
