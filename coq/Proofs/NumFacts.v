(* Facts about the Qc helpers. *)
From Coq Require Import QArith Qcanon ZArith List Bool Lqa Lia.
Require Import CGT.Model.Num.
Import ListNotations.
Open Scope Qc_scope.

Lemma qleb_spec x y : reflect (x <= y) (qleb x y).
Proof. unfold qleb. destruct (Qle_bool (this x) (this y)) eqn:E; constructor.
 - apply Qle_bool_iff in E. exact E.
 - intro H. apply Qle_bool_iff in H. congruence. Qed.
Lemma qltb_spec x y : reflect (x < y) (qltb x y).
Proof. unfold qltb. destruct (Qle_bool (this y) (this x)) eqn:E; constructor; cbn.
 - apply Qle_bool_iff in E. intro H. unfold Qclt in H. lra.
 - unfold Qclt. destruct (Qlt_le_dec (this x) (this y)); auto. apply Qle_bool_iff in q. congruence. Qed.
Lemma qeqb_spec x y : reflect (x = y) (qeqb x y).
Proof. unfold qeqb. destruct (Qeq_bool (this x) (this y)) eqn:E; constructor.
 - apply Qeq_bool_iff in E. apply Qc_is_canon. exact E.
 - intro H. subst. rewrite (proj2 (Qeq_bool_iff _ _)) in E; [discriminate|reflexivity]. Qed.

Lemma qmin_cases x y : (x <= y /\ qmin x y = x) \/ (y < x /\ qmin x y = y).
Proof. unfold qmin. destruct (qleb_spec x y) as [H|H]; [left; auto|right; split; auto]. qc2q. lra. Qed.
Lemma qmax_cases x y : (x <= y /\ qmax x y = y) \/ (y < x /\ qmax x y = x).
Proof. unfold qmax. destruct (qleb_spec x y) as [H|H]; [left; auto|right; split; auto]. qc2q. lra. Qed.

Lemma qsum_app a b : qsum (a ++ b) = qsum a + qsum b.
Proof. unfold qsum. induction a as [|x a IH]; cbn [app fold_right]; [ring|]. rewrite IH. ring. Qed.
Lemma qsum_nil : qsum [] = 0. Proof. reflexivity. Qed.
Lemma qsum_cons x l : qsum (x :: l) = x + qsum l. Proof. reflexivity. Qed.
Lemma qsum_one x : qsum [x] = x. Proof. unfold qsum; cbn [fold_right]. ring. Qed.
