(* Report arithmetic (C04): legs -> disposal -> year totals. *)
From Coq Require Import QArith Qcanon Qround ZArith List Bool String Lqa Lia Sorted.
Require Import CGT.Model.Num CGT.Model.Date CGT.Model.Ledger CGT.Model.Match CGT.Model.Agg CGT.Model.Report
               CGT.Proofs.NumFacts CGT.Proofs.MatchFacts CGT.Proofs.MatchInv.
Import ListNotations.
Open Scope Qc_scope.

(* ---------- every leg of day d's disposal is built by mk_leg d ---------- *)
Definition leg_of (d : day) (l : leg) : Prop := exists r m acq c, l = mk_leg d r m acq c.

Lemma bnb_legs_of w offs d fut : forall R rem cl, Forall (leg_of d) (b_legs (bnb w offs d fut R rem cl)).
Proof.
  induction fut as [|e r IH]; intros R rem cl; cbn [bnb]; [constructor|].
  destruct (negb (qltb 0 rem)); [constructor|]. destruct (dt e - dt d >? w)%Z; [constructor|].
  assert (Forall (leg_of d) (b_legs (bnb_step offs d e R rem cl))) as Hs.
  { unfold bnb_step. destruct (hasbuy e && qltb 0 (free_of e cl)); cbn [b_legs bres0]; [|constructor].
    constructor; [|constructor]. repeat eexists. }
  destruct (b_crash (bnb_step offs d e R rem cl)); [exact Hs|]. cbn [b_legs]. apply Forall_app. split; [exact Hs|apply IH].
Qed.
Lemma sell_step_legs_of w offs s d fut av pos r : sell_step w offs s d fut av pos = inr r -> Forall (leg_of d) (s_legs r).
Proof.
  unfold sell_step. destruct (qltb pos (sq d)); [discriminate|]. destruct (qltb (av + m_pq s) (sq d)); [discriminate|].
  set (bb := if qeqb (sq d) 0 then _ else _). destruct (b_crash bb); [discriminate|].
  destruct (qltb 0 _); [discriminate|]. intros H. injection H as <-. cbn [s_legs].
  apply Forall_app. split; [|apply Forall_app; split].
  - unfold same_day_step. destruct (qltb 0 av && qltb 0 (sq d)); cbn [fst]; [constructor; [repeat eexists|constructor]|constructor].
  - unfold bb. destruct (qeqb (sq d) 0); [constructor|apply bnb_legs_of].
  - unfold pool_step. destruct (qltb 0 _ && m_pooled s && _ && _); cbn [fst]; [constructor; [repeat eexists|constructor]|constructor].
Qed.

(* every disposal of a run belongs to a day of the ledger and its legs are that day's legs *)
Lemma mainpass_legs_of w offs ds : forall s s', mainpass w offs s ds = inr s' ->
  exists L, m_disp s' = m_disp s ++ L /\ Forall (fun x => exists d, In d ds /\ fst x = dt d /\ Forall (leg_of d) (snd x)) L.
Proof.
  induction ds as [|d r IH]; intros s s' E; cbn [mainpass] in E.
  - injection E as <-. exists []. split; [symmetry; apply app_nil_r|constructor].
  - destruct (day_step w offs s d r) as [e|s1] eqn:E1; [discriminate|].
    destruct (IH s1 s' E) as (L2 & E2 & F2).
    assert (exists L1, m_disp s1 = m_disp s ++ L1 /\ Forall (fun x => fst x = dt d /\ Forall (leg_of d) (snd x)) L1) as (L1 & EL1 & F1).
    { unfold day_step in E1. destruct (hasbuy d && qltb (bq d) _); [discriminate|].
      destruct (hassell d).
      - destruct (sell_step w offs s d r _ _) as [e|rr] eqn:E3; [discriminate|]. injection E1 as <-. cbn [m_disp].
        eexists. split; [reflexivity|]. pose proof (sell_step_legs_of _ _ _ _ _ _ _ _ E3) as Hl.
        destruct (s_legs rr) eqn:El; [constructor|]. constructor; [|constructor]. cbn [fst snd]. split; [reflexivity|exact Hl].
      - injection E1 as <-. cbn [m_disp s_legs]. exists []. split; [reflexivity|constructor]. }
    exists (L1 ++ L2). split; [rewrite E2, EL1, app_assoc; reflexivity|].
    apply Forall_app. split.
    + eapply Forall_impl; [|exact F1]. intros x (A & B). exists d. split; [left; reflexivity|]. split; assumption.
    + eapply Forall_impl; [|exact F2]. intros x (d0 & A & B). exists d0. split; [right; exact A|exact B].
Qed.

(* ---------- sums over the legs of one day ---------- *)
Definition legs_gross (ls : list leg) : Qc := qsum (map lg_gross ls).
Definition legs_net (ls : list leg) : Qc := qsum (map lg_net ls).
Definition legs_gain (ls : list leg) : Qc := qsum (map lg_gain ls).

Lemma legs_sums d ls : Forall (leg_of d) ls -> sq d <> 0 ->
  legs_gain ls = legs_net ls - legs_cost ls /\
  legs_gross ls = legs_qty ls * (sgross d / sq d) /\
  legs_net ls = legs_qty ls * (sgross d / sq d) - sfees d * (legs_qty ls / sq d).
Proof.
  intros H Hsq. unfold legs_gain, legs_net, legs_cost, legs_gross, legs_qty.
  induction H as [|l r (ru & m & acq & c & ->) _ IH]; cbn [map]; rewrite ?qsum_nil, ?qsum_cons.
  - repeat split; unfold Qcdiv; ring.
  - destruct IH as (I1 & I2 & I3). rewrite I1, I2, I3. cbn [mk_leg lg_gain lg_net lg_cost lg_gross lg_qty].
    unfold qdiv0. destruct (qeqb_spec (sq d) 0) as [E|_]; [contradiction|]. repeat split; unfold Qcdiv; ring.
Qed.

(* when the legs cover the sale: gross = quantity x price of the day's sales, net = gross - fees *)
Lemma legs_cover d ls : Forall (leg_of d) ls -> sq d <> 0 -> legs_qty ls = sq d ->
  legs_gross ls = sgross d /\ legs_net ls = sgross d - sfees d /\ legs_gain ls = sgross d - sfees d - legs_cost ls.
Proof.
  intros H Hsq Hq. destruct (legs_sums d ls H Hsq) as (A & B & C). rewrite A, B, C, Hq.
  repeat split; field; exact Hsq.
Qed.

(* ---------- rounding to n places never moves a value by more than half a unit in the last place ---------- *)
Lemma Qc_of_Z_this z : (this (Qc_of_Z z) == inject_Z z)%Q.
Proof. unfold Qc_of_Z, Q2Qc; cbn [this]. apply Qred_correct. Qed.

(* ---------- year totals ---------- *)
Lemma gain_loss_parts d : gain_part d - loss_part d = d_gain d.
Proof.
  unfold gain_part, loss_part. destruct (qltb_spec 0 (d_gain d)) as [P|NP]; destruct (qltb_spec (d_gain d) 0) as [N|NN]; try ring.
  - exfalso. qc2q; lra.
  - assert (d_gain d = 0) as -> by (qc2q; lra). ring.
Qed.
Lemma year_net P l ex y ds : y_net (mk_ysum P l ex y ds) = qsum (map d_gain ds).
Proof.
  unfold mk_ysum; cbn [y_net]. induction ds as [|d r IH]; cbn [map]; rewrite ?qsum_nil, ?qsum_cons; [ring|].
  rewrite <- IH, <- (gain_loss_parts d). ring.
Qed.
Lemma year_parts_nonneg d : 0 <= gain_part d /\ 0 <= loss_part d.
Proof.
  unfold gain_part, loss_part. destruct (qltb_spec 0 (d_gain d)); destruct (qltb_spec (d_gain d) 0); split; qc2q; lra.
Qed.

(* an unconfigured tax year with disposals is an error, never zero *)
Lemma ex_errors_none cfg ys : ex_errors cfg ys = [] -> forall y, In y ys -> exists v, lookup_ex cfg y = Some v.
Proof.
  induction ys as [|y r IH]; intros H y0 Hy; [destruct Hy|]. cbn [ex_errors flat_map] in H.
  destruct (lookup_ex cfg y) as [v|] eqn:E; [|discriminate]. cbn [app] in H.
  destruct Hy as [<-|Hy]; [exists v; exact E|apply IH; assumption].
Qed.

(* ---------- run level: every disposal's arithmetic ---------- *)
Lemma dt_inj ds d d0 : NoDup (dates ds) -> In d ds -> In d0 ds -> dt d = dt d0 -> d = d0.
Proof.
  unfold dates. induction ds as [|x r IH]; intros Hn H H0 E; [destruct H|].
  inversion Hn as [|a b Hnot Hr]; subst.
  destruct H as [<-|H]; destruct H0 as [<-|H0]; try reflexivity.
  - exfalso. apply Hnot. rewrite E. apply in_map. exact H0.
  - exfalso. apply Hnot. rewrite <- E. apply in_map. exact H.
  - apply IH; assumption.
Qed.

Definition disposal_ok (x : Z * list leg) (d : day) : Prop :=
  fst x = dt d /\ legs_qty (snd x) = sq d /\ legs_gross (snd x) = sgross d /\
  legs_net (snd x) = sgross d - sfees d /\ legs_gain (snd x) = sgross d - sfees d - legs_cost (snd x).

Lemma combine_disposals ds : NoDup (dates ds) -> wf_days ds -> forall L fs,
  (forall d, In d fs -> In d ds /\ hassell d = true) ->
  Forall2 disp_entry L fs ->
  Forall (fun x => exists d, In d ds /\ fst x = dt d /\ Forall (leg_of d) (snd x)) L ->
  Forall2 disposal_ok L fs.
Proof.
  intros Hn Hwf L fs Hsub F2. induction F2 as [|x d xs ds' (Hx1 & Hx2) _ IH]; intros FL; [constructor|].
  inversion FL as [|a b (d0 & Hd0 & Ed0 & Hl0) FL']; subst.
  destruct (Hsub d (or_introl eq_refl)) as (Hd & Hsell).
  assert (d0 = d) as -> by (apply (dt_inj ds); [exact Hn|exact Hd0|exact Hd|congruence]).
  constructor; [|apply IH; [intros y Hy; apply Hsub; right; exact Hy|exact FL']].
  assert (Hsq : sq d <> 0).
  { destruct (Hwf d Hd) as (_ & Hws & _). specialize (Hws Hsell). intro E. rewrite E in Hws. qc2q; lra. }
  destruct (legs_cover d (snd x) Hl0 Hsq Hx2) as (A & B & C).
  repeat split; assumption.
Qed.

Theorem run_disposals_arith w ds s : wf_days ds -> sorted_days ds -> run w ds = inr s ->
  Forall2 disposal_ok (m_disp s) (filter hassell ds).
Proof.
  intros Hwf Hs Hr. pose proof (run_legs_sum w ds s Hwf Hs Hr) as F2.
  unfold run in Hr. destruct (prepass false [] ds) as [e|offs]; [discriminate|].
  destruct (mainpass_legs_of w offs ds mst0 s Hr) as (L & EL & FL). cbn [mst0 m_disp app] in EL.
  apply (combine_disposals ds (sorted_nodup ds Hs) Hwf); [intros d Hd; apply filter_In in Hd; exact Hd|exact F2|rewrite EL; exact FL].
Qed.
