(* The cost pre-pass: every capital return / accumulation that takes effect moves the total of the
   lot offsets by exactly its net amount; nothing else changes an offset. *)
From Coq Require Import QArith Qcanon ZArith List Bool Lqa Lia Sorted.
Require Import CGT.Model.Num CGT.Model.Match CGT.Proofs.NumFacts CGT.Proofs.MatchFacts CGT.Proofs.MatchInv CGT.Proofs.MatchCost.
Import ListNotations.
Open Scope Qc_scope.

Definition ev_amount (e : ev) : Qc := match e with Cap net => - net | Acc v => v end.

Definition lots_ok (ls : list plot) (bound : Z) : Prop :=
  (forall l, In l ls -> 0 <= pl_held l) /\ NoDup (map pl_dt ls) /\ (forall l, In l ls -> (pl_dt l < bound)%Z).

Lemma apply_adj_held ls a : map pl_held (apply_adj ls a) = map pl_held ls.
Proof.
  unfold apply_adj. destruct (qeqb (total_held ls) 0); [reflexivity|].
  rewrite map_map. apply map_ext. intros l. destruct (qltb 0 (pl_held l)); reflexivity.
Qed.
Lemma apply_adj_dt ls a : map pl_dt (apply_adj ls a) = map pl_dt ls.
Proof.
  unfold apply_adj. destruct (qeqb (total_held ls) 0); [reflexivity|].
  rewrite map_map. apply map_ext. intros l. destruct (qltb 0 (pl_held l)); reflexivity.
Qed.
Lemma total_held_adj ls a : total_held (apply_adj ls a) = total_held ls.
Proof. unfold total_held. rewrite apply_adj_held. reflexivity. Qed.

Lemma held_from_map ls ls' : map pl_held ls = map pl_held ls' -> (forall l, In l ls -> 0 <= pl_held l) -> forall l, In l ls' -> 0 <= pl_held l.
Proof.
  intros E H l Hl. assert (In (pl_held l) (map pl_held ls')) as Hin by (apply in_map; exact Hl).
  rewrite <- E in Hin. apply in_map_iff in Hin. destruct Hin as (l0 & E0 & H0). rewrite <- E0. apply H. exact H0.
Qed.

Lemma lots_ok_adj ls a b : lots_ok ls b -> lots_ok (apply_adj ls a) b.
Proof.
  intros (H1 & H2 & H3). split; [|split].
  - apply (held_from_map ls); [symmetry; apply apply_adj_held|exact H1].
  - rewrite apply_adj_dt. exact H2.
  - intros l Hl. assert (In (pl_dt l) (map pl_dt (apply_adj ls a))) as Hin by (apply in_map; exact Hl).
    rewrite apply_adj_dt in Hin. apply in_map_iff in Hin. destruct Hin as (l0 & E0 & H0). rewrite <- E0. apply H3. exact H0.
Qed.

Lemma apply_adj_total' ls a : (forall l, In l ls -> 0 <= pl_held l) ->
  offs_total (apply_adj ls a) = offs_total ls + (if qeqb (total_held ls) 0 then 0 else a).
Proof.
  intros H. destruct (qeqb_spec (total_held ls) 0) as [E|N].
  - unfold apply_adj. destruct (qeqb_spec (total_held ls) 0) as [_|C]; [ring|contradiction].
  - apply apply_adj_total; assumption.
Qed.

Lemma apply_evs_total started d es : forall ls ls' b, lots_ok ls b -> apply_evs started d ls es = inr ls' ->
  offs_total ls' = offs_total ls + (if started && negb (qeqb (total_held ls) 0) then qsum (map ev_amount es) else 0) /\
  map pl_held ls' = map pl_held ls /\ lots_ok ls' b.
Proof.
  induction es as [|e r IH]; intros ls ls' b Hok E; cbn [apply_evs] in E.
  - injection E as <-. cbn [map]. rewrite qsum_nil. split; [destruct (started && _); ring|]. split; [reflexivity|exact Hok].
  - destruct started.
    + assert (Hstep : forall a, apply_evs true d (apply_adj ls a) r = inr ls' ->
                offs_total ls' = offs_total ls + (if negb (qeqb (total_held ls) 0) then a + qsum (map ev_amount r) else 0) /\
                map pl_held ls' = map pl_held ls /\ lots_ok ls' b).
      { intros a Ea. destruct (IH (apply_adj ls a) ls' b (lots_ok_adj ls a b Hok) Ea) as (T & Hh & Ho).
        rewrite total_held_adj in T. cbn [andb] in T. rewrite apply_adj_total' in T by (apply Hok).
        split; [|split; [rewrite Hh; apply apply_adj_held|exact Ho]].
        rewrite T. destruct (qeqb (total_held ls) 0); cbn [negb]; ring. }
      cbn [andb map]. rewrite qsum_cons.
      destruct e as [net|v].
      * destruct (qltb (total_adj_cost ls) net); [discriminate|]. apply Hstep in E. exact E.
      * apply Hstep in E. exact E.
    + cbn [andb]. destruct e; apply (IH ls ls' b Hok) in E; cbn [andb] in E; exact E.
Qed.

(* consumption never touches an offset *)
Lemma consume_before_off d ls : forall rem, map pl_off (consume_before d ls rem) = map pl_off ls.
Proof.
  induction ls as [|l r IH]; intros rem; cbn [consume_before map]; [reflexivity|].
  destruct ((pl_dt l <? d)%Z && qltb 0 rem && qltb 0 (pl_held l)); cbn [map pl_off pl_add_cons]; rewrite IH; reflexivity.
Qed.
Lemma consume_on_off d ls m : map pl_off (consume_on d ls m) = map pl_off ls.
Proof.
  induction ls as [|l r IH]; cbn [consume_on map]; [reflexivity|].
  destruct (pl_dt l =? d)%Z; cbn [map pl_off pl_add_cons]; [reflexivity|rewrite IH; reflexivity].
Qed.
Lemma pre_sell_off d ls : map pl_off (pre_sell d ls) = map pl_off ls.
Proof.
  unfold pre_sell. destruct (qltb 0 (avail_on (dt d) ls)); [|apply consume_before_off].
  destruct (qltb 0 (sq d - qmin (sq d) (avail_on (dt d) ls))); [rewrite consume_before_off|]; apply consume_on_off.
Qed.
Lemma pre_add_buy_off d ls : offs_total (pre_add_buy d ls) = offs_total ls.
Proof.
  unfold pre_add_buy, offs_total. destruct (hasbuy d); [|reflexivity].
  rewrite map_app, qsum_app. cbn [map pl_off new_lot]. rewrite qsum_one. ring.
Qed.

(* ---------- consumption keeps the bookkeeping sound ---------- *)
Lemma consume_before_dt d ls : forall rem, map pl_dt (consume_before d ls rem) = map pl_dt ls.
Proof.
  induction ls as [|l r IH]; intros rem; cbn [consume_before map]; [reflexivity|].
  destruct ((pl_dt l <? d)%Z && qltb 0 rem && qltb 0 (pl_held l)); cbn [map pl_dt pl_add_cons]; rewrite IH; reflexivity.
Qed.
Lemma consume_before_held d ls : forall rem, (forall l, In l ls -> 0 <= pl_held l) ->
  forall l, In l (consume_before d ls rem) -> 0 <= pl_held l.
Proof.
  induction ls as [|x r IH]; intros rem H l Hl; cbn [consume_before] in Hl; [destruct Hl|].
  assert (Hx : 0 <= pl_held x) by (apply H; left; reflexivity).
  assert (Hr : forall l, In l r -> 0 <= pl_held l) by (intros y Hy; apply H; right; exact Hy).
  destruct ((pl_dt x <? d)%Z && qltb 0 rem && qltb 0 (pl_held x)); destruct Hl as [<-|Hl]; try (eapply IH; eassumption); try exact Hx.
  destruct (qmin_cases rem (pl_held x)) as [[A ->]|[A ->]]; unfold pl_held, pl_add_cons in *; cbn [pl_amt pl_cons] in *; qc2q; lra.
Qed.

Lemma avail_on_notin d ls : ~ In d (map pl_dt ls) -> avail_on d ls = 0.
Proof.
  unfold avail_on. induction ls as [|l r IH]; intros H; cbn [map]; [reflexivity|].
  rewrite qsum_cons. destruct (Z.eqb_spec (pl_dt l) d) as [E|N]; [exfalso; apply H; left; exact E|].
  rewrite IH; [ring|]. intro Hin. apply H. right. exact Hin.
Qed.
Lemma consume_on_dt d ls m : map pl_dt (consume_on d ls m) = map pl_dt ls.
Proof.
  induction ls as [|l r IH]; cbn [consume_on map]; [reflexivity|].
  destruct (pl_dt l =? d)%Z; cbn [map pl_dt pl_add_cons]; [reflexivity|rewrite IH; reflexivity].
Qed.
Lemma consume_on_held d ls m : NoDup (map pl_dt ls) -> (forall l, In l ls -> 0 <= pl_held l) -> m <= avail_on d ls ->
  forall l, In l (consume_on d ls m) -> 0 <= pl_held l.
Proof.
  induction ls as [|x r IH]; intros Hnd H Hm l Hl; cbn [consume_on] in Hl; [destruct Hl|].
  inversion Hnd as [|a b Hnotin Hnd']; subst.
  assert (Hx : 0 <= pl_held x) by (apply H; left; reflexivity).
  assert (Hr : forall l, In l r -> 0 <= pl_held l) by (intros y Hy; apply H; right; exact Hy).
  unfold avail_on in Hm. cbn [map] in Hm. rewrite qsum_cons in Hm. fold (avail_on d r) in Hm.
  destruct (Z.eqb_spec (pl_dt x) d) as [E|N].
  - rewrite avail_on_notin in Hm by (rewrite <- E; exact Hnotin).
    destruct Hl as [<-|Hl]; [|apply Hr; exact Hl].
    unfold pl_held, pl_add_cons; cbn [pl_amt pl_cons]. unfold pl_held in Hm. qc2q; lra.
  - destruct Hl as [<-|Hl]; [exact Hx|]. apply (IH Hnd' Hr); [qc2q; lra|exact Hl].
Qed.

Lemma avail_on_nonneg d ls : (forall l, In l ls -> 0 <= pl_held l) -> 0 <= avail_on d ls.
Proof.
  unfold avail_on. induction ls as [|l r IH]; intros H; cbn [map]; [rewrite qsum_nil; qc2q; lra|].
  rewrite qsum_cons. assert (0 <= qsum (map (fun l0 => if (pl_dt l0 =? d)%Z then pl_held l0 else 0) r)) by (apply IH; intros y Hy; apply H; right; exact Hy).
  assert (0 <= pl_held l) by (apply H; left; reflexivity).
  destruct (pl_dt l =? d)%Z; qc2q; lra.
Qed.

Lemma pre_sell_ok d ls b : lots_ok ls b -> lots_ok (pre_sell d ls) b.
Proof.
  intros (H1 & H2 & H3). unfold pre_sell.
  assert (Hdt : forall ls' , map pl_dt ls' = map pl_dt ls -> NoDup (map pl_dt ls') /\ (forall l, In l ls' -> (pl_dt l < b)%Z)).
  { intros ls' E. split; [rewrite E; exact H2|]. intros l Hl.
    assert (In (pl_dt l) (map pl_dt ls')) as Hin by (apply in_map; exact Hl). rewrite E in Hin.
    apply in_map_iff in Hin. destruct Hin as (l0 & E0 & H0). rewrite <- E0. apply H3. exact H0. }
  destruct (qltb_spec 0 (avail_on (dt d) ls)) as [Hav|Hav].
  - assert (Hm : qmin (sq d) (avail_on (dt d) ls) <= avail_on (dt d) ls).
    { destruct (qmin_cases (sq d) (avail_on (dt d) ls)) as [[A ->]|[A ->]]; qc2q; lra. }
    pose proof (consume_on_held (dt d) ls _ H2 H1 Hm) as Hh.
    destruct (qltb 0 (sq d - qmin (sq d) (avail_on (dt d) ls))).
    + split; [apply consume_before_held; exact Hh|]. apply Hdt. rewrite consume_before_dt, consume_on_dt. reflexivity.
    + split; [exact Hh|]. apply Hdt. apply consume_on_dt.
  - split; [apply consume_before_held; exact H1|]. apply Hdt. apply consume_before_dt.
Qed.

Lemma NoDup_snoc {A} (l : list A) x : NoDup l -> ~ In x l -> NoDup (l ++ [x]).
Proof.
  induction l as [|y r IH]; intros H Hx; cbn [app]; [constructor; [intros []|constructor]|].
  inversion H as [|a b Hn Hr]; subst. constructor.
  - intro Hin. apply in_app_or in Hin. destruct Hin as [Hin|[E|[]]]; [contradiction|]. subst. apply Hx. left. reflexivity.
  - apply IH; [exact Hr|]. intro Hin. apply Hx. right. exact Hin.
Qed.

Lemma pre_add_buy_ok d ls b : wf_day d -> lots_ok ls (dt d) -> (dt d < b)%Z -> lots_ok (pre_add_buy d ls) b.
Proof.
  intros (Hwb & _ & _) (H1 & H2 & H3) Hb. unfold pre_add_buy. destruct (hasbuy d) eqn:Hbuy.
  - split; [|split].
    + intros l Hl. apply in_app_or in Hl. destruct Hl as [Hl|[<-|[]]]; [apply H1; exact Hl|].
      unfold pl_held, new_lot; cbn [pl_amt pl_cons]. specialize (Hwb eq_refl). qc2q; lra.
    + rewrite map_app. cbn [map pl_dt new_lot]. apply NoDup_snoc; [exact H2|].
      intro Hin. apply in_map_iff in Hin. destruct Hin as (l0 & E0 & H0). specialize (H3 l0 H0). lia.
    + intros l Hl. apply in_app_or in Hl. destruct Hl as [Hl|[<-|[]]]; [specialize (H3 l Hl); lia|cbn [pl_dt new_lot]; exact Hb].
  - split; [exact H1|]. split; [exact H2|]. intros l Hl. specialize (H3 l Hl). lia.
Qed.

(* ---------- the total of the offsets ---------- *)
Fixpoint effective_total (started : bool) (ls : list plot) (ds : list day) : Qc :=
  match ds with
  | [] => 0
  | d :: r =>
      (if started && negb (qeqb (total_held ls) 0) then qsum (map ev_amount (evs d)) else 0) +
      match apply_evs started (dt d) ls (evs d) with
      | inl _ => 0
      | inr ls1 =>
          let ls2 := pre_add_buy d ls1 in
          let started' := started || hasbuy d in
          effective_total started' (if hassell d && started' then pre_sell d ls2 else ls2) r
      end
  end.

Theorem prepass_total ds : forall started ls ls', wf_days ds -> sorted_days ds ->
  (forall d, In d ds -> lots_ok ls (dt d)) -> prepass started ls ds = inr ls' ->
  offs_total ls' = offs_total ls + effective_total started ls ds.
Proof.
  induction ds as [|d r IH]; intros started ls ls' Hwf Hs Hok E; cbn [prepass effective_total] in *.
  - injection E as <-. ring.
  - apply sorted_cons_inv in Hs. destruct Hs as [Hs Hl].
    destruct (apply_evs started (dt d) ls (evs d)) as [e|ls1] eqn:E1; [discriminate|].
    destruct (apply_evs_total started (dt d) (evs d) ls ls1 (dt d) (Hok d (or_introl eq_refl)) E1) as (T1 & Hh & Hok1).
    set (ls2 := pre_add_buy d ls1) in *. set (started' := started || hasbuy d) in *.
    set (ls3 := if hassell d && started' then pre_sell d ls2 else ls2) in *.
    assert (Hok3 : forall e, In e r -> lots_ok ls3 (dt e)).
    { intros e He. assert (Hlt : (dt d < dt e)%Z) by (apply Hl; exact He).
      assert (lots_ok ls2 (dt e)) by (apply pre_add_buy_ok; [apply Hwf; left; reflexivity|exact Hok1|exact Hlt]).
      unfold ls3. destruct (hassell d && started'); [apply pre_sell_ok; assumption|assumption]. }
    rewrite (IH started' ls3 ls' (fun e He => Hwf e (or_intror He)) Hs Hok3 E).
    assert (offs_total ls3 = offs_total ls1) as ->.
    { unfold ls3. destruct (hassell d && started'); [unfold offs_total; rewrite pre_sell_off|]; apply pre_add_buy_off. }
    rewrite T1. ring.
Qed.

(* ---------- one lot per purchase day, so the offsets read back per day are the lots' offsets ---------- *)
Lemma apply_evs_dt started d es : forall ls ls', apply_evs started d ls es = inr ls' -> map pl_dt ls' = map pl_dt ls.
Proof.
  induction es as [|e r IH]; intros ls ls' E; cbn [apply_evs] in E; [injection E as <-; reflexivity|].
  destruct e as [net|v]; destruct started; try (apply IH in E; exact E).
  - destruct (qltb (total_adj_cost ls) net); [discriminate|]. apply IH in E. rewrite E. apply apply_adj_dt.
  - apply IH in E. rewrite E. apply apply_adj_dt.
Qed.
Lemma pre_sell_dt d ls : map pl_dt (pre_sell d ls) = map pl_dt ls.
Proof.
  unfold pre_sell. destruct (qltb 0 (avail_on (dt d) ls)); [|apply consume_before_dt].
  destruct (qltb 0 (sq d - qmin (sq d) (avail_on (dt d) ls))); [rewrite consume_before_dt|]; apply consume_on_dt.
Qed.
Lemma prepass_dates ds : forall started ls ls', prepass started ls ds = inr ls' ->
  map pl_dt ls' = map pl_dt ls ++ map dt (filter hasbuy ds).
Proof.
  induction ds as [|d r IH]; intros started ls ls' E; cbn [prepass filter] in *.
  - injection E as <-. cbn [map]. symmetry. apply app_nil_r.
  - destruct (apply_evs started (dt d) ls (evs d)) as [e|ls1] eqn:E1; [discriminate|].
    apply IH in E. rewrite E.
    assert (map pl_dt (if hassell d && (started || hasbuy d) then pre_sell d (pre_add_buy d ls1) else pre_add_buy d ls1) = map pl_dt (pre_add_buy d ls1)) as ->.
    { destruct (hassell d && (started || hasbuy d)); [apply pre_sell_dt|reflexivity]. }
    unfold pre_add_buy. rewrite <- (apply_evs_dt _ _ _ _ _ E1).
    destruct (hasbuy d); cbn [map]; [rewrite map_app; cbn [map pl_dt new_lot]; rewrite <- app_assoc; reflexivity|reflexivity].
Qed.

Lemma offset_of_notin ls z : ~ In z (map pl_dt ls) -> offset_of ls z = 0.
Proof.
  unfold offset_of. induction ls as [|l r IH]; intros H; cbn [map]; [reflexivity|].
  rewrite qsum_cons. destruct (Z.eqb_spec (pl_dt l) z) as [E|N]; [exfalso; apply H; left; exact E|].
  rewrite IH; [ring|]. intro Hin. apply H. right. exact Hin.
Qed.
Lemma offset_sum ls : NoDup (map pl_dt ls) -> qsum (map (offset_of ls) (map pl_dt ls)) = offs_total ls.
Proof.
  unfold offs_total. induction ls as [|l r IH]; intros H; cbn [map]; [reflexivity|].
  inversion H as [|a b Hn Hr]; subst. rewrite !qsum_cons.
  assert (offset_of (l :: r) (pl_dt l) = pl_off l) as ->.
  { unfold offset_of. cbn [map]. rewrite qsum_cons, Z.eqb_refl. fold (offset_of r (pl_dt l)). rewrite offset_of_notin by exact Hn. ring. }
  f_equal. rewrite <- (IH Hr). apply f_equal. apply map_ext_in. intros z Hz.
  unfold offset_of. cbn [map]. rewrite qsum_cons. destruct (Z.eqb_spec (pl_dt l) z) as [E|N]; [exfalso; apply Hn; rewrite E; exact Hz|ring].
Qed.

Definition purchases_total (ds : list day) : Qc := qsum (map bcost' ds).

Lemma lots_value_split offs ds :
  MatchCost.lots_value offs ds = purchases_total ds + qsum (map (offset_of offs) (map dt (filter hasbuy ds))).
Proof.
  unfold MatchCost.lots_value, purchases_total. induction ds as [|d r IH]; cbn [map filter]; [rewrite !qsum_nil; ring|].
  rewrite !qsum_cons, IH. unfold MatchCost.lot_value, bcost'. destruct (hasbuy d); cbn [map]; rewrite ?qsum_cons; ring.
Qed.

(* the full conservation law: legs + closing pool = purchases + the events that took effect *)
Theorem run_full_conservation w ds offs s : wf_days ds -> sorted_days ds ->
  prepass false [] ds = inr offs -> run w ds = inr s ->
  disp_cost (m_disp s) + m_pc s = purchases_total ds + effective_total false [] ds.
Proof.
  intros Hwf Hs Hp Hr.
  rewrite (run_cost_conservation w ds offs s Hwf Hs Hp Hr), lots_value_split.
  pose proof (prepass_dates ds false [] offs Hp) as Hd. cbn [map app] in Hd.
  rewrite <- Hd, offset_sum.
  - assert (lots0 : forall d, In d ds -> lots_ok [] (dt d)).
    { intros d _. split; [intros l []|]. split; [constructor|intros l []]. }
    rewrite (prepass_total ds false [] offs Hwf Hs lots0 Hp). unfold offs_total; cbn [map]. rewrite qsum_nil. ring.
  - rewrite Hd. pose proof (sorted_nodup ds Hs) as Hn. clear - Hn.
    unfold dates in Hn. induction ds as [|d r IH]; cbn [filter map] in *; [constructor|].
    inversion Hn as [|a b H1 H2]; subst. destruct (hasbuy d); [|apply IH; exact H2].
    cbn [map]. constructor; [|apply IH; exact H2].
    intro Hin. apply H1. apply in_map_iff in Hin. destruct Hin as (e & Ee & He). apply filter_In in He. rewrite <- Ee. apply in_map. apply He.
Qed.

(* an accumulation and a capital return of equal net amount cancel lot by lot *)
Lemma apply_adj_cancel ls a : apply_adj (apply_adj ls a) (- a) = ls.
Proof.
  unfold apply_adj at 1. rewrite total_held_adj.
  unfold apply_adj. destruct (qeqb (total_held ls) 0); [reflexivity|].
  rewrite map_map. rewrite <- (map_id ls) at 2. apply map_ext. intros l.
  destruct (qltb 0 (pl_held l)) eqn:E.
  - assert (pl_held (pl_add_off l (a * (pl_held l / total_held ls))) = pl_held l) as -> by reflexivity.
    rewrite E. destruct l as [d am b o c]. unfold pl_add_off; cbn [pl_dt pl_amt pl_base pl_off pl_cons pl_held]. f_equal. ring.
  - rewrite E. reflexivity.
Qed.
