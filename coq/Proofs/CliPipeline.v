(* The command layer over the pipeline: what `cgt-tool report` does with its files is the pipeline (reader, exact decimals, rates, matcher,
   summaries) applied to the files' contents joined by a newline, followed by the chosen formatter and the one output. *)
From Coq Require Import QArith Qcanon ZArith NArith List Bool Ascii String.
Require Import CGT.Model.Num CGT.Model.Date CGT.Model.Ledger CGT.Model.Report CGT.Model.Dsl CGT.Model.Fx CGT.Model.Pipeline CGT.Model.Cli
               CGT.Proofs.PipelineFacts CGT.Proofs.CliFiles.
Import ListNotations.

Section CP.
  Context (vc : text -> bool).
  Context (load_fx : option path -> option cache) (load_cfg : option exemptions).
  Context (fmt_plain fmt_json fmt_pdf : report -> option text).

  Definition zyear (y : option N) : option Z := match y with Some n => Some (Z.of_N n) | None => None end.
  (* the calculator handed to the command layer: conversion to pounds, matching and summaries of the transactions read *)
  Definition calc_of_models (ts : list dtxn) (y : option N) (rates : cache) (cfg : exemptions) : option report :=
    match after_parse rates cfg (zyear y) ts with inr r => Some r | inl _ => None end.
  (* the same two stages as one: the pipeline on the joined text *)
  Definition calc_of_pipeline (s : text) (y : option N) (rates : cache) (cfg : exemptions) : option report :=
    match pipeline vc rates cfg (zyear y) s with inr r => Some r | inl _ => None end.

  Theorem report_is_pipeline fs files year fmt output fx :
    report_cmd (parse_opt vc) load_fx load_cfg calc_of_models fmt_plain fmt_json fmt_pdf fs files year fmt output fx =
    report_cmd (fun s => Some s) load_fx load_cfg calc_of_pipeline fmt_plain fmt_json fmt_pdf fs files year fmt output fx.
  Proof.
    unfold report_cmd. destruct (read_all fs files) as [cs|]; [|reflexivity]. destruct (load_fx fx) as [rates|]; [|reflexivity].
    unfold parse_opt, calc_of_models, calc_of_pipeline, pipeline, after_parse.
    destruct (parse vc (join_nl cs)) as [[n e]|ts]; destruct load_cfg as [cfg|]; reflexivity.
  Qed.
End CP.
