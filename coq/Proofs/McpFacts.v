From Coq Require Import ZArith List Bool Lia.
Require Import CGT.Model.Date CGT.Model.Mcp.
Import ListNotations.

Section Server.
  Context {Req Ans Id : Type} (handle : Req -> Ans) (id_of : Req -> option Id).
  Lemma serve_ids rs : map fst (serve handle id_of rs) = ids id_of rs.
  Proof.
    unfold serve, ids. induction rs as [|r rest IH]; cbn [flat_map]; [reflexivity|].
    rewrite map_app, IH. unfold respond. destruct (id_of r); reflexivity.
  Qed.
  Lemma serve_app a b : serve handle id_of (a ++ b) = serve handle id_of a ++ serve handle id_of b.
  Proof. unfold serve. apply flat_map_app. Qed.
  Lemma serve_answer rs i a : In (i, a) (serve handle id_of rs) -> exists r, In r rs /\ id_of r = Some i /\ a = handle r.
  Proof.
    unfold serve. rewrite in_flat_map. intros (r & Hr & Hin). exists r. split; [exact Hr|].
    unfold respond in Hin. destruct (id_of r) as [j|]; [|destruct Hin]. destruct Hin as [E|[]]. injection E as <- <-. auto.
  Qed.
End Server.

Lemma explain_year_is_tax_year d ymin ymax y :
  tax_year_of_gen 4 6 ymin ymax d = Some y -> explain_year d = y.
Proof.
  unfold tax_year_of_gen, explain_year.
  destruct ((dm d <? 4)%Z || ((dm d =? 4)%Z && (dd d <? 6)%Z));
    (destruct ((_ <? 0)%Z || (65535 <? _)%Z); [discriminate|]);
    (destruct ((ymin <=? _)%Z && (_ <=? ymax)%Z); [|discriminate]); intros H; injection H as <-; reflexivity.
Qed.
