(* Facts about the Schwab converter model. *)
From Coq Require Import ZArith NArith List Bool Ascii String Lia Permutation.
Require Import CGT.Model.Date CGT.Model.Dsl CGT.Model.Schwab CGT.Proofs.DslFacts.
Import ListNotations.

(* ---------- C19: the look-back ---------- *)
Open Scope Z_scope.
Lemma lookback_from_spec m s z k : forall back v e,
  lookback_from m s z k back = Some (v, e) <->
  (z - back - Z.of_nat k < e <= z - back) /\ amap_get m (s, e) = Some v /\
  (forall e', e < e' <= z - back -> amap_get m (s, e') = None).
Proof.
  induction k as [|k IH]; intros back v e; cbn [lookback_from].
  - split; [discriminate|]. intros (H & _). lia.
  - destruct (amap_get m (s, z - back)) as [v0|] eqn:E.
    + split.
      * intros H. injection H as Hv He. subst v0 e. split; [lia|]. split; [exact E|]. intros e' He'. lia.
      * intros (Hr & Hv & Hn). destruct (Z.eq_dec e (z - back)) as [Ee|Ne].
        -- subst e. rewrite E in Hv. injection Hv as ->. reflexivity.
        -- rewrite (Hn (z - back)) in E by lia. discriminate.
    + rewrite IH. split.
      * intros (Hr & Hv & Hn). split; [lia|]. split; [exact Hv|].
        intros e' He'. destruct (Z.eq_dec e' (z - back)) as [->|Ne]; [exact E|]. apply Hn. lia.
      * intros (Hr & Hv & Hn). assert (e <> z - back) as Ne by (intro C; subst e; congruence).
        split; [lia|]. split; [exact Hv|]. intros e' He'. apply Hn. lia.
Qed.

Theorem get_fmv_spec lb m sym z v e :
  get_fmv lb m sym z = Some (v, e) <->
  amap_get m (upper_text sym, e) = Some v /\ z - Z.of_nat lb <= e <= z /\
  forall e', e < e' <= z -> amap_get m (upper_text sym, e') = None.
Proof.
  unfold get_fmv. rewrite lookback_from_spec. split.
  - intros (Hr & Hv & Hn). split; [exact Hv|]. split; [lia|]. intros e' He'. apply Hn. lia.
  - intros (Hv & Hr & Hn). split; [lia|]. split; [exact Hv|]. intros e' He'. apply Hn. lia.
Qed.

Theorem get_fmv_none lb m sym z :
  get_fmv lb m sym z = None <-> forall e, z - Z.of_nat lb <= e <= z -> amap_get m (upper_text sym, e) = None.
Proof.
  split.
  - intros H e He. destruct (amap_get m (upper_text sym, e)) as [v|] eqn:E; [|reflexivity]. exfalso.
    (* take the greatest date with an entry: strong induction on z - e *)
    assert (exists v' e', get_fmv lb m sym z = Some (v', e')) as (v' & e' & C); [|congruence].
    clear H. revert e v He E. 
    assert (forall n e v, (0 <= z - e <= Z.of_nat n) -> z - Z.of_nat lb <= e -> amap_get m (upper_text sym, e) = Some v ->
            exists v' e', get_fmv lb m sym z = Some (v', e')) as G.
    { induction n as [|n IH]; intros e v Hn Hlo E.
      - assert (e = z) by lia. subst e. exists v, z. apply get_fmv_spec. split; [exact E|]. split; [lia|]. intros e' He'. lia.
      - destruct (Z.eq_dec (z - e) (Z.of_nat (S n))) as [Eq|Ne]; [|apply (IH e v); [lia|exact Hlo|exact E]].
        (* is there a later entry? *)
        assert ((exists e2 v2, e < e2 <= z /\ amap_get m (upper_text sym, e2) = Some v2) \/ (forall e2, e < e2 <= z -> amap_get m (upper_text sym, e2) = None)) as [(e2 & v2 & He2 & E2)|Hnone].
        { clear IH Hn E Hlo. assert (forall k, (0 <= k)%Z -> (exists e2 v2, e < e2 <= e + k /\ amap_get m (upper_text sym, e2) = Some v2) \/ (forall e2, e < e2 <= e + k -> amap_get m (upper_text sym, e2) = None)) as Q.
          { intros k Hk. pattern k. apply natlike_ind; [right; intros; lia| |exact Hk].
            intros x Hx [(e2 & v2 & A & B)|Hn]; [left; exists e2, v2; split; [lia|exact B]|].
            destruct (amap_get m (upper_text sym, e + Z.succ x)) as [v2|] eqn:E2.
            - left. exists (e + Z.succ x), v2. split; [lia|exact E2].
            - right. intros e2 He2. destruct (Z.eq_dec e2 (e + Z.succ x)) as [->|N]; [exact E2|apply Hn; lia]. }
          destruct (Q (z - e) ltac:(lia)) as [(e2 & v2 & A & B)|Hn]; [left; exists e2, v2; split; [lia|exact B]|right; intros e2 He2; apply Hn; lia]. }
        + apply (IH e2 v2); [lia|lia|exact E2].
        + exists v, e. apply get_fmv_spec. split; [exact E|]. split; [lia|exact Hnone]. }
    intros e v He E. apply (G (Z.to_nat (z - e)) e v); [lia|lia|exact E].
  - intros H. destruct (get_fmv lb m sym z) as [[v e]|] eqn:E; [|reflexivity].
    apply get_fmv_spec in E. destruct E as (Hv & Hr & _). rewrite (H e Hr) in Hv. discriminate.
Qed.

(* ---------- C18: comments cannot be escaped; sorting and cancelling only rearrange / remove one ---------- *)
Open Scope N_scope.
Lemma sanitize_no_nl s : forallb (fun c => negb (is_nl c)) (sanitize s) = true.
Proof.
  unfold sanitize. induction s as [|c r IH]; cbn [map forallb]; [reflexivity|].
  rewrite IH. destruct (is_nl c) eqn:E; [reflexivity|rewrite E; reflexivity].
Qed.
Lemma comment_line_blank valid_cur s : parse_line valid_cur (comment_line s) = LBlank.
Proof.
  unfold comment_line. change (T "# " ++ sanitize s) with ([] ++ ch 35 :: (ch 32 :: sanitize s)).
  apply parse_line_comment; [reflexivity|]. cbn [forallb]. rewrite sanitize_no_nl. reflexivity.
Qed.

Lemma insert_sorted_perm {A} (cmp : A -> A -> comparison) x l : Permutation (x :: l) (insert_sorted cmp x l).
Proof.
  induction l as [|y r IH]; cbn [insert_sorted]; [apply Permutation_refl|].
  destruct (cmp x y); try apply Permutation_refl.
  eapply perm_trans; [apply perm_swap|]. constructor. exact IH.
Qed.
Lemma sort_stable_perm {A} (cmp : A -> A -> comparison) l : Permutation l (sort_stable cmp l).
Proof.
  unfold sort_stable. induction l as [|x r IH]; cbn [fold_right]; [constructor|].
  eapply perm_trans; [|apply insert_sorted_perm]. constructor. exact IH.
Qed.

Lemma remove_first_spec f l l' : remove_first f l = Some l' ->
  exists x, f x = true /\ Permutation l (x :: l').
Proof.
  revert l'. induction l as [|y r IH]; intros l' H; cbn [remove_first] in H; [discriminate|].
  destruct (f y) eqn:E.
  - injection H as <-. exists y. split; [exact E|apply Permutation_refl].
  - destruct (remove_first f r) as [r'|] eqn:Er; [|discriminate]. injection H as <-.
    destruct (IH r' eq_refl) as (x & Hx & Hp). exists x. split; [exact Hx|].
    eapply perm_trans; [constructor; exact Hp|apply perm_swap].
Qed.
Lemma remove_first_none f l : remove_first f l = None -> forallb (fun x => negb (f x)) l = true.
Proof.
  induction l as [|y r IH]; intros H; cbn [remove_first forallb] in *; [reflexivity|].
  destruct (f y) eqn:E; [discriminate|]. destruct (remove_first f r); [discriminate|]. rewrite (IH eq_refl). reflexivity.
Qed.
