(* The GBP display format denotes exactly the value rounded to pence, midpoints away from zero. *)
From Coq Require Import QArith Qcanon ZArith NArith List Bool Ascii String Lia.
Require Import CGT.Model.Num CGT.Model.Date CGT.Model.Dsl CGT.Model.Fmt CGT.Proofs.DecFacts.
Import ListNotations.
Open Scope N_scope.

Lemma digits_of_fuel_nonempty k n acc : k <> O -> digits_of_fuel k n acc <> [].
Proof.
  destruct k as [|k]; [congruence|]. intros _. cbn [digits_of_fuel].
  destruct (n / 10 =? 0); [discriminate|].
  revert n acc. induction k as [|k IH]; intros n acc; cbn [digits_of_fuel]; [discriminate|].
  destruct (n / 10 / 10 =? 0); [discriminate|]. apply IH.
Qed.
Lemma digits_of_nonempty n : digits_of n <> [].
Proof. unfold digits_of. apply digits_of_fuel_nonempty. discriminate. Qed.
Lemma digits_of_digits n : forallb is_digit (digits_of n) = true.
Proof. unfold digits_of. apply digits_of_fuel_digits. reflexivity. Qed.
Lemma digits_of_val n : n < 10 ^ 40 -> digits_val 0 (digits_of n) = n.
Proof. intros H. unfold digits_of. rewrite digits_of_fuel_val; [reflexivity|exact H]. Qed.

Lemma comma_not_digit : is_digit COMMA = false. Proof. reflexivity. Qed.

Lemma strip_commas_group3 ds : forallb is_digit ds = true -> strip_commas (group3 ds) = ds.
Proof.
  induction ds as [|c r IH]; intros H; cbn [group3]; [reflexivity|].
  cbn [forallb] in H. apply andb_true_iff in H. destruct H as [Hc Hr].
  assert (code c =? 44 = false) as Hn.
  { unfold is_digit in Hc. apply andb_true_iff in Hc. destruct Hc as [A B]. apply N.leb_le in A. apply N.eqb_neq. lia. }
  destruct (Nat.eqb (Nat.modulo (List.length r) 3) 0 && negb (Nat.eqb (List.length r) 0)); cbn [strip_commas].
  - rewrite Hn. replace (code COMMA =? 44) with true by reflexivity. rewrite IH by exact Hr. reflexivity.
  - rewrite Hn, IH by exact Hr. reflexivity.
Qed.
Lemma strip_commas_nocomma s : forallb (fun c => negb (code c =? 44)) s = true -> strip_commas s = s.
Proof.
  induction s as [|c r IH]; intros H; cbn [strip_commas]; [reflexivity|].
  cbn [forallb] in H. apply andb_true_iff in H. destruct H as [Hc Hr]. apply negb_true_iff in Hc. rewrite Hc, IH by exact Hr. reflexivity.
Qed.
Lemma strip_commas_app a b : strip_commas (a ++ b) = strip_commas a ++ strip_commas b.
Proof. induction a as [|c r IH]; cbn [app strip_commas]; [reflexivity|]. destruct (code c =? 44); rewrite IH; reflexivity. Qed.

Lemma two_dig_spec q : q < 100 ->
  exists f1 f2, two_dig q = [f1; f2] /\ is_digit f1 = true /\ is_digit f2 = true /\
                digit_val f1 = q / 10 /\ digit_val f2 = q mod 10.
Proof.
  intros H. unfold two_dig.
  assert (H1 : (q / 10) mod 10 < 10) by (apply N.mod_lt; lia).
  assert (H2 : q mod 10 < 10) by (apply N.mod_lt; lia).
  destruct (digit_char _ H1) as [A1 B1]. destruct (digit_char _ H2) as [A2 B2].
  eexists. eexists. split; [reflexivity|]. repeat split; try assumption.
  rewrite B1. apply N.mod_small. apply N.div_lt_upper_bound; lia.
Qed.

Lemma read_pence_shape (neg : bool) (body : text) :
  read_pence ((if neg then MINUS else []) ++ POUND ++ body) =
  match snd (span is_digit (strip_commas body)) with
  | d :: f1 :: f2 :: [] =>
      if ((code d =? 46) && is_digit f1 && is_digit f2 && negb (Nat.eqb (List.length (fst (span is_digit (strip_commas body)))) 0%nat))
      then Some (neg, digits_val 0 (fst (span is_digit (strip_commas body)) ++ [f1; f2])) else None
  | _ => None
  end.
Proof. destruct neg; reflexivity. Qed.

(* reading a displayed figure back gives the sign and the pence that were formatted *)
Theorem read_format_pence neg p : p < 10 ^ 42 -> read_pence (format_pence neg p) = Some (neg, p).
Proof.
  intros Hp. unfold format_pence.
  assert (Hq : p mod 100 < 100) by (apply N.mod_lt; lia).
  destruct (two_dig_spec (p mod 100) Hq) as (f1 & f2 & E2 & D1 & D2 & V1 & V2). rewrite E2.
  set (ds := digits_of (p / 100)).
  assert (Hds : forallb is_digit ds = true) by apply digits_of_digits.
  assert (Hne : ds <> []) by apply digits_of_nonempty.
  assert (Hval : digits_val 0 ds = p / 100).
  { apply digits_of_val. apply N.div_lt_upper_bound; [lia|]. change (10 ^ 42) with (100 * 10 ^ 40) in Hp. exact Hp. }
  assert (Hbody : strip_commas (group3 ds ++ [DOT] ++ [f1; f2]) = ds ++ [DOT; f1; f2]).
  { rewrite strip_commas_app, strip_commas_group3 by exact Hds. f_equal.
    apply strip_commas_nocomma. cbn [app forallb]. 
    assert (forall c, is_digit c = true -> negb (code c =? 44) = true) as Hd.
    { intros c Hc. unfold is_digit in Hc. apply andb_true_iff in Hc. destruct Hc as [A B]. apply N.leb_le in A.
      apply negb_true_iff. apply N.eqb_neq. lia. }
    rewrite (Hd f1 D1), (Hd f2 D2). reflexivity. }
  assert (Hspan : span is_digit (ds ++ [DOT; f1; f2]) = (ds, [DOT; f1; f2])).
  { apply span_digits; [exact Hds|reflexivity]. }
  assert (Hfinal : digits_val 0 (ds ++ [f1; f2]) = p).
  { rewrite digits_val_app, Hval. cbn [digits_val]. rewrite V1, V2.
    pose proof (N.div_mod p 100 ltac:(lia)). pose proof (N.div_mod (p mod 100) 10 ltac:(lia)). lia. }
  assert (Hlen : Nat.eqb (List.length ds) 0%nat = false).
  { destruct ds; [congruence|reflexivity]. }
  rewrite read_pence_shape, Hbody, Hspan. cbn [fst snd]. replace (code DOT =? 46) with true by reflexivity.
  rewrite D1, D2, Hlen, Hfinal. reflexivity.
Qed.

(* ---------- the formatted pence are the value rounded half away from zero ---------- *)
Open Scope Qc_scope.
Require Import CGT.Proofs.NumFacts Lqa Qround.

Lemma qabs_nonneg x : 0 <= qabs x.
Proof. unfold qabs. destruct (qleb_spec 0 x) as [H|H]; [exact H|]. qc2q; lra. Qed.

Definition signed_pence (x : Qc) : Qc :=
  (if pence_neg x then - Qc_of_Z (Z.of_N (pence_abs x)) else Qc_of_Z (Z.of_N (pence_abs x))) / Qc_of_Z 100.

Lemma Qc_of_Z_0 : Qc_of_Z 0 = 0. Proof. reflexivity. Qed.

Theorem gbp_value x : signed_pence x = round_half_away 2 x.
Proof.
  unfold signed_pence, round_half_away, pence_neg, pence_abs.
  change (Qc_of_Z (pow10 2)) with (Qc_of_Z 100).
  set (f := qfloor (qabs x * Qc_of_Z 100 + Q2Qc (1 # 2))).
  assert (Hf : (0 <= f)%Z).
  { unfold f, qfloor. change 0%Z with (Qfloor 0). apply Qfloor_resp_le.
    pose proof (qabs_nonneg x) as Ha. remember (qabs x) as a.
    assert (0 <= a * Qc_of_Z 100 + Q2Qc (1 # 2)) as G.
    { assert (0 <= Qc_of_Z 100) by (vm_compute; discriminate).
      assert (0 <= Q2Qc (1 # 2)) by (vm_compute; discriminate). qc2q. nra. }
    exact G. }
  rewrite Z2N.id by exact Hf.
  destruct (qleb_spec 0 x) as [Hx|Hx].
  - destruct (qltb_spec x 0) as [C|_]; [exfalso; qc2q; lra|]. cbn [andb]. reflexivity.
  - destruct (qltb_spec x 0) as [_|C]; [|exfalso; apply C; qc2q; lra]. cbn [andb].
    destruct (N.eqb_spec (Z.to_N f) 0) as [E|E]; cbn [negb].
    + assert (f = 0%Z) as -> by lia. rewrite Qc_of_Z_0. unfold Qcdiv. ring.
    + unfold Qcdiv. ring.
Qed.
