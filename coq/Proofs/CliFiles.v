(* Several input files: the command layer joins them with a newline (Cli.join_nl) and the reader model reads the join as the
   concatenation of what it reads from each file (DslFiles.parse_join), so a report over several files is the report of the
   concatenated transaction lists. *)
From Coq Require Import NArith List Bool Ascii String.
Require Import CGT.Model.Dsl CGT.Model.Cli CGT.Proofs.DslFiles.
Import ListNotations.

Section Files.
  Context (vc : text -> bool).

  Lemma parse_nil : parse vc [] = inr [].
  Proof. reflexivity. Qed.

  Theorem parse_join_all cs ts : Forall2 (fun c t => parse vc c = inr t) cs ts -> parse vc (join_nl cs) = inr (List.concat ts).
  Proof.
    induction 1 as [|c t cs' ts' Hc Hr IH]; [exact parse_nil|].
    destruct cs' as [|c2 r].
    - inversion Hr; subst. cbn [join_nl List.concat]. rewrite app_nil_r. exact Hc.
    - cbn [List.concat]. change (join_nl (c :: c2 :: r)) with (c ++ ch 10 :: join_nl (c2 :: r)).
      apply parse_join; [exact Hc|exact IH].
  Qed.

  (* the parser handed to the command layer: the reader model with its error forgotten *)
  Definition parse_opt (s : text) : option (list dtxn) := match parse vc s with inr t => Some t | inl _ => None end.

  Context {Fx Cfg Rep : Type}.
  Context (load_fx : option path -> option Fx) (load_cfg : option Cfg)
          (calc : list dtxn -> option N -> Fx -> Cfg -> option Rep)
          (fmt_plain fmt_json fmt_pdf : Rep -> option text).

  Theorem report_over_files fs files year fmt output fx cs ts :
    read_all fs files = Some cs -> Forall2 (fun c t => parse vc c = inr t) cs ts ->
    report_cmd parse_opt load_fx load_cfg calc fmt_plain fmt_json fmt_pdf fs files year fmt output fx =
    report_cmd (fun _ => Some (List.concat ts)) load_fx load_cfg calc fmt_plain fmt_json fmt_pdf fs files year fmt output fx.
  Proof.
    intros Hr Hp. unfold report_cmd. rewrite Hr. destruct (load_fx fx) as [rates|]; [|reflexivity].
    unfold parse_opt. rewrite (parse_join_all cs ts Hp). reflexivity.
  Qed.

  (* and a file that does not read makes the whole command fail with no effect, whatever the other files hold *)
  Theorem report_one_bad_file fs files year fmt output fx cs :
    read_all fs files = Some cs -> parse_opt (join_nl cs) = None ->
    report_cmd parse_opt load_fx load_cfg calc fmt_plain fmt_json fmt_pdf fs files year fmt output fx = fail.
  Proof.
    intros Hr Hp. unfold report_cmd. rewrite Hr. destruct (load_fx fx); [|reflexivity]. rewrite Hp. reflexivity.
  Qed.
End Files.
