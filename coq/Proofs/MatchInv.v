(* The main-pass invariant of the matcher model: position = pool - pending claims,
   claims bounded by what is free, pool non-negative.  Lemmas about the look-ahead. *)
From Coq Require Import QArith Qcanon ZArith List Bool Lqa Lia Sorted.
Require Import CGT.Model.Num CGT.Model.Match CGT.Proofs.NumFacts CGT.Proofs.MatchFacts.
Import ListNotations.
Open Scope Qc_scope.

(* ---------- well-formedness (what validation::validate accepts) ---------- *)
Definition wf_day (d : day) : Prop :=
  (hasbuy d = true -> 0 < bq d) /\ (hassell d = true -> 0 < sq d) /\ 0 < ratio d.
Definition wf_days (ds : list day) : Prop := forall d, In d ds -> wf_day d.
Definition later (d : day) (fut : list day) : Prop := forall e, In e fut -> (dt d < dt e)%Z.
Definition sorted_days (ds : list day) : Prop := StronglySorted (fun a b => (dt a < dt b)%Z) ds.

Lemma sorted_cons_inv d r : sorted_days (d :: r) -> sorted_days r /\ later d r.
Proof.
  intros H. inversion H as [|a l Hs Hf]; subst. split; [exact Hs|].
  intros e He. rewrite Forall_forall in Hf. apply Hf. exact He.
Qed.

Lemma sq'_nonneg d : wf_day d -> 0 <= sq' d.
Proof.
  intros (_ & Hs & _). unfold sq'. destruct (hassell d); [|qc2q; lra].
  specialize (Hs eq_refl). qc2q; lra.
Qed.

(* ---------- claims ---------- *)
Lemma claim_of_cons z m cl z' :
  claim_of ((z, m) :: cl) z' = (if (z =? z')%Z then m else 0) + claim_of cl z'.
Proof. unfold claim_of. cbn [map fst snd]. rewrite qsum_cons. reflexivity. Qed.

Definition dates (ds : list day) : list Z := map dt ds.

(* ---------- a step of the look-ahead ---------- *)
Lemma bnb_step_cl_other offs d e R rem cl z : z <> dt e ->
  claim_of (b_cl (bnb_step offs d e R rem cl)) z = claim_of cl z.
Proof.
  intros Hz. unfold bnb_step. destruct (hasbuy e && qltb 0 (free_of e cl)); cbn [b_cl bres0]; [|reflexivity].
  rewrite claim_of_cons. destruct (Z.eqb_spec (dt e) z) as [E|_]; [congruence|]. ring.
Qed.

Lemma bnb_step_nocrash offs d e R rem cl : 0 < R -> b_crash (bnb_step offs d e R rem cl) = false.
Proof.
  intros HR. unfold bnb_step. destruct (hasbuy e && qltb 0 (free_of e cl)); cbn [b_crash bres0]; [|reflexivity].
  destruct (qeqb_spec R 0) as [E|_]; [|reflexivity]. subst. exfalso. qc2q. lra.
Qed.

Lemma bnb_step_rem offs d e R rem cl : 0 <= rem -> 0 < R ->
  0 <= b_rem (bnb_step offs d e R rem cl) /\ b_rem (bnb_step offs d e R rem cl) <= rem.
Proof.
  intros Hrem HR. unfold bnb_step.
  destruct (hasbuy e); cbn [andb]; [|cbn [b_rem bres0]; split; qc2q; lra].
  remember (free_of e cl) as free eqn:Efree.
  destruct (qltb_spec 0 free) as [Hf|Hf]; cbn [b_rem bres0]; [|split; qc2q; lra].
  assert (Hdiv : 0 <= free / R) by (qc2q; apply Qle_shift_div_l; lra).
  destruct (qmin_cases rem (free / R)) as [[Hm ->]|[Hm ->]]; split; qc2q; lra.
Qed.

(* the claim a step adds is exactly the matched sale-day quantity times R, and stays within what is free *)
Lemma bnb_step_claim offs d e R rem cl : 0 <= rem -> 0 < R ->
  claim_of (b_cl (bnb_step offs d e R rem cl)) (dt e)
    = claim_of cl (dt e) + (rem - b_rem (bnb_step offs d e R rem cl)) * R /\
  (hasbuy e = true ->
     claim_of cl (dt e) <= bq e - qmin (bq e) (qmax 0 (sq' e)) ->
     claim_of (b_cl (bnb_step offs d e R rem cl)) (dt e) <= bq e - qmin (bq e) (qmax 0 (sq' e))) /\
  (hasbuy e = false -> b_cl (bnb_step offs d e R rem cl) = cl).
Proof.
  intros Hrem HR. unfold bnb_step.
  destruct (hasbuy e) eqn:Hb; cbn [andb].
  2:{ cbn [b_cl b_rem bres0]. split; [ring|]. split; [discriminate|reflexivity]. }
  unfold free_of. remember (bq e - qmin (bq e) (qmax 0 (sq' e))) as cap eqn:Ecap.
  remember (claim_of cl (dt e)) as c eqn:Ec.
  remember (qmax 0 (cap - c)) as free eqn:Efree.
  destruct (qltb_spec 0 free) as [Hf|Hf]; cbn [b_cl b_rem bres0].
  2:{ rewrite <- Ec. split; [ring|]. split; [auto|discriminate]. }
  rewrite claim_of_cons, Z.eqb_refl, <- Ec.
  split; [ring|]. split; [|discriminate]. intros _ Hc.
  assert (free = cap - c) as Efr.
  { subst free. destruct (qmax_cases 0 (cap - c)) as [[A B]|[A B]]; rewrite B in *; [reflexivity|].
    exfalso. qc2q. lra. }
  assert (Hdiv : free / R * R = free) by (field; intro E; subst R; qc2q; lra).
  destruct (qmin_cases rem (free / R)) as [[Hm ->]|[Hm ->]].
  - assert (rem * R <= free / R * R).
    { clear Hdiv. qc2q. apply Qmult_le_compat_r; lra. }
    rewrite Hdiv in H. rewrite Efr in H. qc2q. lra.
  - rewrite Hdiv, Efr. qc2q. lra.
Qed.

(* ---------- the look-ahead loop ---------- *)
Definition ratios_pos (fut : list day) : Prop := forall e, In e fut -> 0 < ratio e.

Lemma Qc_mul_pos a b : 0 < a -> 0 < b -> 0 < a * b.
Proof. intros. qc2q. nra. Qed.

Lemma bnb_nocrash w offs d fut : forall R rem cl, 0 < R -> ratios_pos fut ->
  b_crash (bnb w offs d fut R rem cl) = false.
Proof.
  induction fut as [|e r IH]; intros R rem cl HR Hrat; cbn [bnb]; [reflexivity|].
  destruct (negb (qltb 0 rem)); [reflexivity|].
  destruct (dt e - dt d >? w)%Z; [reflexivity|].
  rewrite bnb_step_nocrash by exact HR. cbn [b_crash].
  apply IH; [apply Qc_mul_pos; [exact HR|apply Hrat; left; reflexivity]|].
  intros x Hx. apply Hrat. right. exact Hx.
Qed.

Lemma bnb_rem w offs d fut : forall R rem cl, 0 <= rem -> 0 < R -> ratios_pos fut ->
  0 <= b_rem (bnb w offs d fut R rem cl) /\ b_rem (bnb w offs d fut R rem cl) <= rem.
Proof.
  induction fut as [|e r IH]; intros R rem cl Hrem HR Hrat; cbn [bnb].
  - cbn [b_rem bres0]. split; qc2q; lra.
  - destruct (negb (qltb 0 rem)); [cbn [b_rem bres0]; split; qc2q; lra|].
    destruct (dt e - dt d >? w)%Z; [cbn [b_rem bres0]; split; qc2q; lra|].
    rewrite bnb_step_nocrash by exact HR. cbn [b_rem].
    destruct (bnb_step_rem offs d e R rem cl Hrem HR) as [H1 H2].
    assert (0 < R * ratio e) as HR' by (apply Qc_mul_pos; [exact HR|apply Hrat; left; reflexivity]).
    destruct (IH (R * ratio e) _ (b_cl (bnb_step offs d e R rem cl)) H1 HR' (fun x Hx => Hrat x (or_intror Hx))) as [A B].
    split; [exact A|]. qc2q. lra.
Qed.

Lemma bnb_cl_other w offs d fut : forall R rem cl z, ~ In z (dates fut) ->
  claim_of (b_cl (bnb w offs d fut R rem cl)) z = claim_of cl z.
Proof.
  induction fut as [|e r IH]; intros R rem cl z Hz; cbn [bnb]; [reflexivity|].
  destruct (negb (qltb 0 rem)); [reflexivity|].
  destruct (dt e - dt d >? w)%Z; [reflexivity|].
  assert (z <> dt e) as Hne by (intro E; apply Hz; left; symmetry; exact E).
  destruct (b_crash (bnb_step offs d e R rem cl)); [apply bnb_step_cl_other; exact Hne|].
  cbn [b_cl]. rewrite IH by (intro H; apply Hz; right; exact H).
  apply bnb_step_cl_other. exact Hne.
Qed.

(* claims stay within what each future purchase day has free *)
Definition cap_of (e : day) : Qc := bq e - qmin (bq e) (qmax 0 (sq' e)).
Definition claims_ok (cl : claims) (fut : list day) : Prop :=
  forall e, In e fut ->
    (hasbuy e = true -> 0 <= claim_of cl (dt e) /\ claim_of cl (dt e) <= cap_of e) /\
    (hasbuy e = false -> claim_of cl (dt e) = 0).

Lemma bnb_claims_ok w offs d fut : forall R rem cl, 0 <= rem -> 0 < R -> ratios_pos fut ->
  NoDup (dates fut) -> claims_ok cl fut -> claims_ok (b_cl (bnb w offs d fut R rem cl)) fut.
Proof.
  induction fut as [|e r IH]; intros R rem cl Hrem HR Hrat Hnd Hok; cbn [bnb]; [exact Hok|].
  destruct (negb (qltb 0 rem)); [exact Hok|].
  destruct (dt e - dt d >? w)%Z; [exact Hok|].
  rewrite bnb_step_nocrash by exact HR. cbn [b_cl].
  inversion Hnd as [|x l Hnotin Hnd']; subst.
  destruct (bnb_step_rem offs d e R rem cl Hrem HR) as [H1 H2].
  destruct (bnb_step_claim offs d e R rem cl Hrem HR) as (Hc1 & Hc2 & Hc3).
  assert (0 < R * ratio e) as HR' by (apply Qc_mul_pos; [exact HR|apply Hrat; left; reflexivity]).
  set (s1 := bnb_step offs d e R rem cl) in *.
  assert (Hok1 : claims_ok (b_cl s1) r).
  { intros x Hx. assert (dt x <> dt e) as Hne.
    { intro E. apply Hnotin. rewrite <- E. apply in_map. exact Hx. }
    unfold s1. rewrite bnb_step_cl_other by exact Hne. apply Hok. right. exact Hx. }
  specialize (IH (R * ratio e) (b_rem s1) (b_cl s1) H1 HR' (fun x Hx => Hrat x (or_intror Hx)) Hnd' Hok1).
  intros x [<-|Hx]; [|apply IH; exact Hx].
  rewrite bnb_cl_other by exact Hnotin.
  destruct (Hok e (or_introl eq_refl)) as [Hb Hnb].
  split.
  - intros Hbuy. destruct (Hb Hbuy) as [A B]. split.
    + rewrite Hc1. assert (0 <= (rem - b_rem s1) * R) by (qc2q; nra). qc2q; lra.
    + apply Hc2; [exact Hbuy|exact B].
  - intros Hbuy. rewrite (Hc3 Hbuy). apply Hnb. exact Hbuy.
Qed.

(* ---------- pending claims, in the units of "now" ---------- *)
Fixpoint pend (cl : claims) (rest : list day) (R : Qc) : Qc :=
  match rest with
  | [] => 0
  | e :: r => claim_of cl (dt e) / R + pend cl r (R * ratio e)
  end.

Lemma pend_ext cl cl' rest : forall R, (forall e, In e rest -> claim_of cl (dt e) = claim_of cl' (dt e)) ->
  pend cl rest R = pend cl' rest R.
Proof.
  induction rest as [|e r IH]; intros R H; cbn [pend]; [reflexivity|].
  rewrite (H e (or_introl eq_refl)), (IH (R * ratio e)); [reflexivity|].
  intros x Hx. apply H. right. exact Hx.
Qed.

Lemma bnb_pend w offs d fut : forall R rem cl, 0 <= rem -> 0 < R -> ratios_pos fut -> NoDup (dates fut) ->
  pend (b_cl (bnb w offs d fut R rem cl)) fut R = pend cl fut R + (rem - b_rem (bnb w offs d fut R rem cl)).
Proof.
  induction fut as [|e r IH]; intros R rem cl Hrem HR Hrat Hnd; cbn [bnb].
  - cbn [b_cl b_rem bres0 pend]. ring.
  - destruct (negb (qltb 0 rem)); [cbn [b_cl b_rem bres0]; ring|].
    destruct (dt e - dt d >? w)%Z; [cbn [b_cl b_rem bres0]; ring|].
    rewrite bnb_step_nocrash by exact HR. cbn [b_cl b_rem].
    inversion Hnd as [|x l Hnotin Hnd']; subst.
    destruct (bnb_step_rem offs d e R rem cl Hrem HR) as [H1 H2].
    destruct (bnb_step_claim offs d e R rem cl Hrem HR) as (Hc1 & _ & _).
    assert (0 < R * ratio e) as HR' by (apply Qc_mul_pos; [exact HR|apply Hrat; left; reflexivity]).
    set (s1 := bnb_step offs d e R rem cl) in *.
    cbn [pend]. rewrite bnb_cl_other by exact Hnotin.
    rewrite (IH (R * ratio e) (b_rem s1) (b_cl s1) H1 HR' (fun x Hx => Hrat x (or_intror Hx)) Hnd').
    rewrite (pend_ext (b_cl s1) cl r).
    2:{ intros x Hx. unfold s1. apply bnb_step_cl_other. intro E. apply Hnotin. rewrite <- E. apply in_map. exact Hx. }
    rewrite Hc1. field. intro E. subst R. qc2q. lra.
Qed.

Lemma pend_nonneg cl rest : forall R, 0 < R -> ratios_pos rest -> claims_ok cl rest -> 0 <= pend cl rest R.
Proof.
  induction rest as [|e r IH]; intros R HR Hrat Hok; cbn [pend]; [qc2q; lra|].
  assert (0 <= claim_of cl (dt e)) as Hc.
  { destruct (Hok e (or_introl eq_refl)) as [A B]. destruct (hasbuy e); [apply A; reflexivity|rewrite B by reflexivity; qc2q; lra]. }
  assert (0 <= pend cl r (R * ratio e)) as Hp.
  { apply IH; [apply Qc_mul_pos; [exact HR|apply Hrat; left; reflexivity]| |].
    - intros x Hx. apply Hrat. right. exact Hx.
    - intros x Hx. apply Hok. right. exact Hx. }
  assert (0 <= claim_of cl (dt e) / R) by (qc2q; apply Qle_shift_div_l; lra).
  qc2q; lra.
Qed.

Lemma pend_scale cl rest : forall R k, R <> 0 -> k <> 0 -> ratios_pos rest -> pend cl rest (k * R) = pend cl rest R / k.
Proof.
  induction rest as [|e r IH]; intros R k HR Hk Hrat; cbn [pend]; [field; exact Hk|].
  assert (ratio e <> 0) as Hre.
  { assert (0 < ratio e) by (apply Hrat; left; reflexivity). intro E. rewrite E in H. qc2q; lra. }
  replace (k * R * ratio e) with (k * (R * ratio e)) by ring.
  rewrite IH; [field; auto| |exact Hk|intros x Hx; apply Hrat; right; exact Hx].
  intro E. apply Qcmult_integral in E. destruct E; contradiction.
Qed.

(* ---------- the day's disposal ---------- *)
Lemma same_day_step_spec offs d avail0 : 0 <= avail0 -> 0 < sq d ->
  exists m1, 0 <= m1 /\ m1 <= avail0 /\ m1 <= sq d /\
    snd (fst (same_day_step offs d avail0)) = sq d - m1 /\
    snd (same_day_step offs d avail0) = avail0 - m1 /\
    legs_qty (fst (fst (same_day_step offs d avail0))) = m1 /\
    (0 < sq d - m1 -> avail0 - m1 = 0).
Proof.
  intros Ha Hs. unfold same_day_step.
  destruct (qltb_spec 0 avail0) as [Hp|Hn]; cbn [andb].
  - destruct (qltb_spec 0 (sq d)) as [_|N]; [|contradiction]. cbn [fst snd].
    exists (qmin (sq d) avail0). rewrite legs_qty_one. cbn [lg_qty mk_leg].
    destruct (qmin_cases (sq d) avail0) as [[A ->]|[A ->]];
      repeat split; try reflexivity; try (qc2q; lra).
    all: intros H; first [ring | exfalso; qc2q; lra].
  - cbn [fst snd]. exists 0. rewrite legs_qty_nil.
    assert (avail0 = 0) as -> by (qc2q; lra).
    repeat split; try ring; try (qc2q; lra).
Qed.

Lemma pool_step_spec d s rem : 0 <= rem -> rem <= m_pq s -> (m_pooled s = false -> m_pq s = 0) -> sq d <> 0 ->
  snd (fst (pool_step d s rem)) = 0 /\ fst (snd (pool_step d s rem)) = m_pq s - rem /\
  legs_qty (fst (fst (pool_step d s rem))) = rem.
Proof.
  intros Hr Hle Hpool Hsq. unfold pool_step.
  destruct (qltb_spec 0 rem) as [Hp|Hn]; cbn [andb].
  - assert (m_pooled s = true) as ->.
    { destruct (m_pooled s) eqn:E; [reflexivity|]. rewrite (Hpool eq_refl) in Hle. exfalso. qc2q; lra. }
    destruct (qeqb_spec (m_pq s) 0) as [E|_]; [exfalso; rewrite E in Hle; qc2q; lra|].
    destruct (qeqb_spec (sq d) 0) as [E|_]; [contradiction|]. cbn [negb andb fst snd].
    rewrite legs_qty_one. cbn [lg_qty mk_leg].
    destruct (qmin_cases rem (m_pq s)) as [[A ->]|[A ->]]; [repeat split; ring|exfalso; qc2q; lra].
  - cbn [fst snd]. rewrite legs_qty_nil. assert (rem = 0) as -> by (qc2q; lra). repeat split; ring.
Qed.

Record sell_post (s : mst) (d : day) (rest : list day) (avail0 : Qc) (r : sres) : Prop := {
  sp_qty : legs_qty (s_legs r) = sq d;
  sp_av : 0 <= s_av r /\ s_av r <= avail0;
  sp_pq : 0 <= s_pq r /\ s_pq r <= m_pq s;
  sp_claims : claims_ok (s_cl r) rest;
  sp_bal : s_pq r + s_av r - pend (s_cl r) rest (ratio d)
           = m_pq s + avail0 - sq d - pend (m_cl s) rest (ratio d) }.

Lemma sell_step_ok w offs s d rest avail0 pos1 :
  wf_day d -> hassell d = true -> ratios_pos rest -> NoDup (dates rest) ->
  claims_ok (m_cl s) rest -> 0 <= m_pq s -> (m_pooled s = false -> m_pq s = 0) ->
  0 <= avail0 -> pos1 = m_pq s + avail0 - pend (m_cl s) rest (ratio d) ->
  (pos1 < sq d /\ sell_step w offs s d rest avail0 pos1 = inl (EExceedsHolding (dt d))) \/
  (sq d <= pos1 /\ exists r, sell_step w offs s d rest avail0 pos1 = inr r /\ sell_post s d rest avail0 r).
Proof.
  intros (Hwb & Hws & Hwr) Hsell Hrat Hnd Hok Hpq Hpool Hav Hpos.
  specialize (Hws Hsell).
  assert (Hpend : 0 <= pend (m_cl s) rest (ratio d)) by (apply pend_nonneg; assumption).
  destruct (qltb_spec pos1 (sq d)) as [Hlt|Hge].
  { left. split; [exact Hlt|]. apply sell_step_position. exact Hlt. }
  right. assert (sq d <= pos1) as Hle by (qc2q; lra). split; [exact Hle|].
  unfold sell_step.
  destruct (qltb_spec pos1 (sq d)) as [C|_]; [contradiction|].
  destruct (qltb_spec (avail0 + m_pq s) (sq d)) as [C|_]; [exfalso; subst pos1; qc2q; lra|].
  destruct (same_day_step_spec offs d avail0 Hav Hws) as (m1 & Hm0 & Hm1 & Hm2 & Erem1 & Eav1 & Eq1 & Hz).
  rewrite Erem1.
  assert (Hsq0 : sq d <> 0) by (intro E; rewrite E in Hws; qc2q; lra).
  destruct (qeqb_spec (sq d) 0) as [C|_]; [contradiction|].
  assert (Hrem1 : 0 <= sq d - m1) by (qc2q; lra).
  set (bb := bnb w offs d rest (ratio d) (sq d - m1) (m_cl s)).
  assert (Hnc : b_crash bb = false) by (apply bnb_nocrash; assumption).
  rewrite Hnc.
  destruct (bnb_rem w offs d rest (ratio d) (sq d - m1) (m_cl s) Hrem1 Hwr Hrat) as [Hb0 Hb1]. fold bb in Hb0, Hb1.
  assert (Hlepq : b_rem bb <= m_pq s).
  { destruct (qltb_spec 0 (sq d - m1)) as [P|N].
    - specialize (Hz P). subst pos1. qc2q; lra.
    - qc2q; lra. }
  destruct (pool_step_spec d s (b_rem bb) Hb0 Hlepq Hpool Hsq0) as (E3 & Epq & Eq3).
  rewrite E3. destruct (qltb_spec 0 0) as [C|_]; [exfalso; qc2q; lra|].
  eexists. split; [reflexivity|].
  constructor; cbn [s_legs s_av s_cl s_pq s_pc].
  - rewrite !legs_qty_app, Eq1, Eq3. unfold bb. rewrite bnb_qty. ring.
  - rewrite Eav1. split; qc2q; lra.
  - rewrite Epq. split; qc2q; lra.
  - unfold bb. apply bnb_claims_ok; assumption.
  - rewrite Epq, Eav1. unfold bb. rewrite bnb_pend by assumption. ring.
Qed.

(* ---------- the invariant and one day ---------- *)
Record Inv (s : mst) (rest : list day) : Prop := {
  inv_pos : m_pos s = m_pq s - pend (m_cl s) rest 1;
  inv_claims : claims_ok (m_cl s) rest;
  inv_pq : 0 <= m_pq s;
  inv_pooled : m_pooled s = false -> m_pq s = 0 }.

Lemma pend_nil_claims rest : forall R, pend [] rest R = 0.
Proof.
  induction rest as [|e r IH]; intros R; cbn [pend]; [reflexivity|].
  rewrite IH. unfold claim_of; cbn [map]. rewrite qsum_nil. unfold Qcdiv. ring.
Qed.
Lemma cap_nonneg e : 0 <= cap_of e.
Proof.
  unfold cap_of. destruct (qmin_cases (bq e) (qmax 0 (sq' e))) as [[A ->]|[A ->]]; qc2q; lra.
Qed.
Lemma cap_le_bq e : 0 <= bq e -> cap_of e <= bq e.
Proof.
  intros Hb. unfold cap_of.
  assert (0 <= qmax 0 (sq' e)) by (destruct (qmax_cases 0 (sq' e)) as [[A ->]|[A ->]]; qc2q; lra).
  destruct (qmin_cases (bq e) (qmax 0 (sq' e))) as [[A ->]|[A ->]]; qc2q; lra.
Qed.
Lemma Inv0 ds : Inv mst0 ds.
Proof.
  constructor; cbn [mst0 m_pos m_pq m_cl m_pooled].
  - rewrite pend_nil_claims. ring.
  - intros e He. unfold claim_of; cbn [map]; rewrite qsum_nil. split; [intros _; split; [qc2q; lra|apply cap_nonneg]|reflexivity].
  - qc2q; lra.
  - reflexivity.
Qed.

Definition disp_ok (d : day) (s s' : mst) : Prop :=
  (hassell d = true -> exists legs, m_disp s' = m_disp s ++ [(dt d, legs)] /\ legs_qty legs = sq d) /\
  (hassell d = false -> m_disp s' = m_disp s).

Lemma day_step_ok w offs s d rest :
  wf_day d -> ratios_pos rest -> NoDup (dates rest) -> Inv s (d :: rest) ->
  (hassell d = true /\ m_pos s + bq' d < sq d /\ day_step w offs s d rest = inl (EExceedsHolding (dt d))) \/
  ((hassell d = true -> sq d <= m_pos s + bq' d) /\
   exists s', day_step w offs s d rest = inr s' /\ Inv s' rest /\
     m_pos s' = (m_pos s + bq' d - sq' d) * ratio d /\ disp_ok d s s').
Proof.
  intros Hwf Hrat Hnd [Ipos Icl Ipq Ipool].
  pose proof Hwf as (Hwb & Hws & Hwr).
  assert (Hokr : claims_ok (m_cl s) rest) by (intros e He; apply Icl; right; exact He).
  destruct (Icl d (or_introl eq_refl)) as [Hcb Hcn].
  unfold day_step.
  set (resv := if hasbuy d then claim_of (m_cl s) (dt d) else 0).
  assert (Eresv : claim_of (m_cl s) (dt d) = resv).
  { unfold resv. destruct (hasbuy d); [reflexivity|apply Hcn; reflexivity]. }
  assert (Hresv : 0 <= resv /\ resv <= bq' d).
  { unfold resv, bq'. destruct (hasbuy d) eqn:Hb; [|split; qc2q; lra].
    destruct (Hcb eq_refl) as [A B]. split; [exact A|].
    assert (cap_of d <= bq d) by (apply cap_le_bq; specialize (Hwb eq_refl); qc2q; lra). qc2q; lra. }
  assert (Hnoresv : (hasbuy d && qltb (bq d) resv) = false).
  { destruct (hasbuy d) eqn:Hb; [|reflexivity]. cbn [andb]. destruct (qltb_spec (bq d) resv) as [C|_]; [|reflexivity].
    unfold bq' in Hresv. rewrite Hb in Hresv. exfalso. destruct Hresv. qc2q; lra. }
  rewrite Hnoresv.
  set (avail0 := if hasbuy d then bq d - resv else 0).
  assert (Eav : avail0 = bq' d - resv).
  { unfold avail0, bq', resv. destruct (hasbuy d); ring. }
  assert (Hav : 0 <= avail0) by (rewrite Eav; destruct Hresv; qc2q; lra).
  cbn [pend] in Ipos. rewrite Qcmult_1_l in Ipos. rewrite Eresv in Ipos.
  assert (Epos1 : m_pos s + bq' d = m_pq s + avail0 - pend (m_cl s) rest (ratio d)).
  { rewrite Ipos, Eav. unfold Qcdiv. replace (/ 1) with 1 by reflexivity. ring. }
  assert (Hscale : forall cl, pend cl rest 1 = pend cl rest (ratio d) * ratio d).
  { intros cl. assert (ratio d <> 0) as Hr0 by (intro E; rewrite E in Hwr; qc2q; lra).
    replace (ratio d) with (ratio d * 1) at 1 by ring.
    rewrite pend_scale; [field; exact Hr0| |exact Hr0|exact Hrat].
    intro E. discriminate E. }
  (* common tail: from a result r with the post-conditions, build the new state *)
  assert (Tail : forall r sqd, sqd = sq' d ->
            (0 <= s_av r /\ s_av r <= avail0) -> (0 <= s_pq r /\ s_pq r <= m_pq s) -> claims_ok (s_cl r) rest ->
            s_pq r + s_av r - pend (s_cl r) rest (ratio d) = m_pq s + avail0 - sqd - pend (m_cl s) rest (ratio d) ->
            let topool := hasbuy d && qltb 0 (s_av r) in
            let s' := {| m_pq := (if topool then s_pq r + s_av r else s_pq r) * ratio d;
                         m_pc := if topool then s_pc r + s_av r * unit_cost offs d else s_pc r;
                         m_pooled := m_pooled s || topool; m_cl := s_cl r;
                         m_disp := m_disp s ++ match s_legs r with [] => [] | _ => [(dt d, s_legs r)] end;
                         m_pos := (m_pos s + bq' d - sq' d) * ratio d |} in
            Inv s' rest).
  { intros r sqd Esq [Ha0 Ha1] [Hp0 Hp1] Hcl Hbal topool s'.
    assert (Etop : (if topool then s_pq r + s_av r else s_pq r) = s_pq r + s_av r).
    { unfold topool. destruct (hasbuy d) eqn:Hb; cbn [andb].
      - destruct (qltb_spec 0 (s_av r)) as [P|N]; [reflexivity|]. assert (s_av r = 0) as -> by (qc2q; lra). ring.
      - assert (avail0 = 0) as Ez by (rewrite Eav; unfold bq', resv; try rewrite Hb; ring).
        rewrite Ez in Ha1. assert (s_av r = 0) as -> by (qc2q; lra). ring. }
    constructor; unfold s'; cbn [m_pos m_pq m_cl m_pooled].
    - rewrite Etop, (Hscale (s_cl r)), Epos1, <- Esq. 
      replace (s_pq r + s_av r) with (m_pq s + avail0 - sqd - pend (m_cl s) rest (ratio d) + pend (s_cl r) rest (ratio d))
        by (rewrite <- Hbal; ring). ring.
    - exact Hcl.
    - rewrite Etop. assert (0 <= s_pq r + s_av r) by (qc2q; lra). qc2q; nra.
    - intros Hf. apply orb_false_elim in Hf. destruct Hf as [Hf1 Hf2]. rewrite Hf2.
      rewrite (Ipool Hf1) in Hp1. assert (s_pq r = 0) as -> by (qc2q; lra). ring. }
  destruct (hassell d) eqn:Hsell.
  - destruct (sell_step_ok w offs s d rest avail0 (m_pos s + bq' d) Hwf Hsell Hrat Hnd Hokr Ipq Ipool Hav Epos1)
      as [[Hlt E]|[Hge (r & E & [Q1 Q2 Q3 Q4 Q5])]].
    + left. rewrite E. auto.
    + right. split; [intros _; exact Hge|]. rewrite E. eexists. split; [reflexivity|].
      assert (Esq : sq d = sq' d) by (unfold sq'; rewrite Hsell; reflexivity).
      split; [apply (Tail r (sq d) Esq Q2 Q3 Q4 Q5)|]. cbn [m_pos m_disp]. split; [reflexivity|].
      split; [|intros Hf; congruence]. intros _. exists (s_legs r). split; [|exact Q1].
      destruct (s_legs r) eqn:El; [|reflexivity]. exfalso. rewrite legs_qty_nil in Q1.
      specialize (Hws eq_refl). rewrite <- Q1 in Hws. qc2q; lra.
  - right. split; [intros Hf; congruence|]. eexists. split; [reflexivity|].
    assert (Esq : 0 = sq' d) by (unfold sq'; rewrite Hsell; reflexivity).
    split.
    + apply (Tail {| s_legs := []; s_av := avail0; s_cl := m_cl s; s_pq := m_pq s; s_pc := m_pc s |} 0 Esq);
        cbn [s_av s_pq s_cl]; try (split; qc2q; lra); [exact Hokr|ring].
    + cbn [m_pos m_disp s_legs]. split; [reflexivity|]. split; [intros Hf; congruence|]. intros _. apply app_nil_r.
Qed.

(* ---------- lifting to the whole main pass ---------- *)
Lemma sorted_nodup ds : sorted_days ds -> NoDup (dates ds).
Proof.
  induction ds as [|d r IH]; intros H; cbn [dates map]; [constructor|].
  apply sorted_cons_inv in H. destruct H as [Hs Hl]. constructor; [|apply IH; exact Hs].
  intro Hin. unfold dates in Hin. apply in_map_iff in Hin. destruct Hin as (e & Ee & He).
  specialize (Hl e He). lia.
Qed.

(* the position: acquisitions less disposals, rescaled day by day *)
Fixpoint first_uncovered (pos : Qc) (ds : list day) : option Z :=
  match ds with
  | [] => None
  | d :: r => if hassell d && qltb (pos + bq' d) (sq d) then Some (dt d)
              else first_uncovered ((pos + bq' d - sq' d) * ratio d) r
  end.
Fixpoint final_pos (pos : Qc) (ds : list day) : Qc :=
  match ds with [] => pos | d :: r => final_pos ((pos + bq' d - sq' d) * ratio d) r end.

Definition disp_entry (x : Z * list leg) (d : day) : Prop := fst x = dt d /\ legs_qty (snd x) = sq d.

Lemma mainpass_spec w offs ds : forall s, wf_days ds -> sorted_days ds -> Inv s ds ->
  match first_uncovered (m_pos s) ds with
  | Some z => mainpass w offs s ds = inl (EExceedsHolding z)
  | None => exists s', mainpass w offs s ds = inr s' /\ Inv s' [] /\ m_pos s' = final_pos (m_pos s) ds /\
              exists L, m_disp s' = m_disp s ++ L /\ Forall2 disp_entry L (filter hassell ds)
  end.
Proof.
  induction ds as [|d r IH]; intros s Hwf Hsort HI; cbn [first_uncovered mainpass final_pos filter].
  - exists s. split; [reflexivity|]. split; [exact HI|]. split; [reflexivity|]. exists []. split; [symmetry; apply app_nil_r|constructor].
  - apply sorted_cons_inv in Hsort. destruct Hsort as [Hs Hl].
    assert (Hrat : ratios_pos r) by (intros e He; apply (Hwf e (or_intror He))).
    destruct (day_step_ok w offs s d r (Hwf d (or_introl eq_refl)) Hrat (sorted_nodup r Hs) HI)
      as [(Hsell & Hlt & E)|(Hcov & s' & E & HI' & Epos & Hd1 & Hd2)].
    + rewrite Hsell. destruct (qltb_spec (m_pos s + bq' d) (sq d)) as [_|N]; [|contradiction]. cbn [andb]. rewrite E. reflexivity.
    + assert ((hassell d && qltb (m_pos s + bq' d) (sq d)) = false) as ->.
      { destruct (hassell d); [|reflexivity]. cbn [andb]. destruct (qltb_spec (m_pos s + bq' d) (sq d)) as [C|_]; [|reflexivity].
        specialize (Hcov eq_refl). exfalso. qc2q; lra. }
      rewrite E. rewrite <- Epos.
      specialize (IH s' (fun e He => Hwf e (or_intror He)) Hs HI').
      destruct (first_uncovered (m_pos s') r); [exact IH|].
      destruct IH as (s'' & E' & HI'' & Ep & L & EL & HF).
      exists s''. split; [exact E'|]. split; [exact HI''|]. split; [exact Ep|].
      destruct (hassell d) eqn:Hsell.
      * destruct (Hd1 eq_refl) as (legs & Em & Eq). exists ((dt d, legs) :: L). split.
        -- rewrite EL, Em, <- app_assoc. reflexivity.
        -- constructor; [split; [reflexivity|exact Eq]|exact HF].
      * exists L. split; [rewrite EL, (Hd2 eq_refl); reflexivity|exact HF].
Qed.

(* closed form of the final position *)
Definition rho (ds : list day) : Qc := qprod (map ratio ds).
Fixpoint holding_sum (ds : list day) : Qc :=
  match ds with [] => 0 | d :: r => (bq' d - sq' d) * rho (d :: r) + holding_sum r end.
Lemma final_pos_closed ds : forall pos, final_pos pos ds = pos * rho ds + holding_sum ds.
Proof.
  induction ds as [|d r IH]; intros pos; cbn [final_pos holding_sum].
  - unfold rho; cbn [map qprod fold_right]. ring.
  - rewrite IH. unfold rho; cbn [map]. unfold qprod; cbn [fold_right]. ring.
Qed.

(* ---------- run-level statements ---------- *)
Theorem run_accepts_iff_covered w ds offs : wf_days ds -> sorted_days ds -> prepass false [] ds = inr offs ->
  match first_uncovered 0 ds with
  | Some z => run w ds = inl (EExceedsHolding z)
  | None => exists s, run w ds = inr s
  end.
Proof.
  intros Hwf Hs Hp. unfold run. rewrite Hp.
  pose proof (mainpass_spec w offs ds mst0 Hwf Hs (Inv0 ds)) as H. cbn [mst0 m_pos] in H.
  destruct (first_uncovered 0 ds); [exact H|]. destruct H as (s & E & _). exists s. exact E.
Qed.

Theorem run_legs_sum w ds s : wf_days ds -> sorted_days ds -> run w ds = inr s ->
  Forall2 disp_entry (m_disp s) (filter hassell ds).
Proof.
  intros Hwf Hs. unfold run. destruct (prepass false [] ds) as [e|offs]; [discriminate|]. intros E.
  pose proof (mainpass_spec w offs ds mst0 Hwf Hs (Inv0 ds)) as H. cbn [mst0 m_pos m_disp] in H.
  destruct (first_uncovered 0 ds); [rewrite E in H; discriminate|].
  destruct H as (s' & E' & _ & _ & L & EL & HF). rewrite E in E'. injection E' as <-.
  cbn [app] in EL. rewrite EL. exact HF.
Qed.

Theorem run_closing_holding w ds s : wf_days ds -> sorted_days ds -> run w ds = inr s ->
  m_pq s = holding_sum ds /\ 0 <= m_pq s.
Proof.
  intros Hwf Hs. unfold run. destruct (prepass false [] ds) as [e|offs]; [discriminate|]. intros E.
  pose proof (mainpass_spec w offs ds mst0 Hwf Hs (Inv0 ds)) as H. cbn [mst0 m_pos] in H.
  destruct (first_uncovered 0 ds); [rewrite E in H; discriminate|].
  destruct H as (s' & E' & [Ipos _ Ipq _] & Ep & _). rewrite E in E'. injection E' as <-.
  cbn [pend] in Ipos. split; [|exact Ipq].
  rewrite final_pos_closed in Ep. assert (m_pq s = m_pos s) as -> by (rewrite Ipos; ring). rewrite Ep. ring.
Qed.
