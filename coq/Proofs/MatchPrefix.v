(* Prefix stability (C12): days more than `w` days after every day of a prefix, carrying no capital-return /
   accumulation events, change nothing in the prefix's disposals and can only fail at their own dates. *)
From Coq Require Import QArith Qcanon ZArith List Bool Lqa Lia Sorted.
Require Import CGT.Model.Num CGT.Model.Match CGT.Proofs.NumFacts CGT.Proofs.MatchFacts CGT.Proofs.MatchInv CGT.Proofs.PrepassFacts.
Import ListNotations.
Open Scope Qc_scope.

Definition no_events (ds : list day) : Prop := forall e, In e ds -> evs e = [].
Definition same_offsets (a b : list plot) : Prop := forall z, offset_of a z = offset_of b z.

(* ---------- the pre-pass ---------- *)
Lemma prepass_app p : forall started ls s,
  prepass started ls (p ++ s) =
  match prepass started ls p with
  | inl e => inl e
  | inr lp => prepass (started || existsb hasbuy p) lp s
  end.
Proof.
  induction p as [|d r IH]; intros started ls s; cbn [app prepass existsb].
  - rewrite orb_false_r. reflexivity.
  - destruct (apply_evs started (dt d) ls (evs d)) as [e|ls1]; [reflexivity|].
    rewrite IH. destruct (prepass _ _ r); [reflexivity|]. rewrite orb_assoc. reflexivity.
Qed.

Lemma offset_of_map ls ls' : map pl_off ls' = map pl_off ls -> map pl_dt ls' = map pl_dt ls -> same_offsets ls' ls.
Proof.
  intros Ho Hd z. unfold offset_of.
  revert ls' Ho Hd. induction ls as [|l r IH]; intros ls' Ho Hd; destruct ls' as [|l' r']; cbn [map] in *; try discriminate; [reflexivity|].
  injection Ho as Ho1 Ho2. injection Hd as Hd1 Hd2. rewrite !qsum_cons, Hd1, Ho1, (IH r' Ho2 Hd2). reflexivity.
Qed.

Lemma offset_of_app a b z : offset_of (a ++ b) z = offset_of a z + offset_of b z.
Proof. unfold offset_of. rewrite map_app. apply qsum_app. Qed.

(* days without events never fail in the pre-pass and leave every existing offset as it is *)
Lemma prepass_no_events s : forall started ls, no_events s ->
  exists ls', prepass started ls s = inr ls' /\
    forall z, offset_of ls' z = offset_of ls z.
Proof.
  induction s as [|d r IH]; intros started ls Hne; cbn [prepass].
  - exists ls. split; [reflexivity|reflexivity].
  - rewrite (Hne d (or_introl eq_refl)). cbn [apply_evs].
    set (ls2 := pre_add_buy d ls). set (started' := started || hasbuy d).
    set (ls3 := if hassell d && started' then pre_sell d ls2 else ls2).
    destruct (IH started' ls3 (fun e He => Hne e (or_intror He))) as (ls' & E & Ho).
    exists ls'. split; [exact E|]. intros z. rewrite Ho.
    assert (offset_of ls3 z = offset_of ls2 z) as ->.
    { unfold ls3. destruct (hassell d && started'); [|reflexivity]. apply offset_of_map; [apply pre_sell_off|apply pre_sell_dt]. }
    unfold ls2, pre_add_buy. destruct (hasbuy d); [|reflexivity].
    rewrite offset_of_app. unfold offset_of at 2. cbn [map pl_dt pl_off new_lot]. rewrite qsum_one.
    destruct (dt d =? z)%Z; ring.
Qed.

(* ---------- the main pass reads offsets only through offset_of ---------- *)
Lemma unit_cost_ext a b e : same_offsets a b -> unit_cost a e = unit_cost b e.
Proof. intros H. unfold unit_cost. rewrite (H (dt e)). reflexivity. Qed.
Lemma bnb_step_ext a b d e R rem cl : same_offsets a b -> bnb_step a d e R rem cl = bnb_step b d e R rem cl.
Proof. intros H. unfold bnb_step. rewrite (unit_cost_ext a b e H). reflexivity. Qed.
Lemma bnb_ext w a b d fut : same_offsets a b -> forall R rem cl, bnb w a d fut R rem cl = bnb w b d fut R rem cl.
Proof.
  intros H. induction fut as [|e r IH]; intros R rem cl; cbn [bnb]; [reflexivity|].
  rewrite (bnb_step_ext a b d e R rem cl H), !IH. reflexivity.
Qed.
Lemma day_step_ext w a b s d fut : same_offsets a b -> day_step w a s d fut = day_step w b s d fut.
Proof.
  intros H. unfold day_step, sell_step, same_day_step. rewrite (unit_cost_ext a b d H).
  destruct (hasbuy d && qltb (bq d) (if hasbuy d then claim_of (m_cl s) (dt d) else 0)); [reflexivity|].
  destruct (hassell d); [|reflexivity].
  repeat match goal with |- context[bnb w a d fut ?R ?rem ?cl] => rewrite (bnb_ext w a b d fut H R rem cl) end.
  reflexivity.
Qed.

(* the look-ahead of a prefix day ignores the far days *)
Lemma day_step_far w offs s d fut far : (forall e, In e far -> (dt e - dt d > w)%Z) ->
  day_step w offs s d (fut ++ far) = day_step w offs s d fut.
Proof.
  intros H. unfold day_step, sell_step.
  destruct (hasbuy d && qltb (bq d) (if hasbuy d then claim_of (m_cl s) (dt d) else 0)); [reflexivity|].
  destruct (hassell d); [|reflexivity].
  repeat match goal with |- context[bnb w offs d (fut ++ far) ?R ?rem ?cl] => rewrite (bnb_beyond w offs d fut far R rem cl H) end.
  reflexivity.
Qed.

Lemma mainpass_app w a b p : same_offsets a b -> forall s0 far,
  (forall d e, In d p -> In e far -> (dt e - dt d > w)%Z) ->
  mainpass w a s0 (p ++ far) =
  match mainpass w b s0 p with
  | inl e => inl e
  | inr sp => mainpass w a sp far
  end.
Proof.
  intros H. induction p as [|d r IH]; intros s0 far Hfar; cbn [app mainpass]; [reflexivity|].
  rewrite (day_step_far w a s0 d r far) by (intros e He; apply Hfar; [left; reflexivity|exact He]).
  rewrite (day_step_ext w a b s0 d r H).
  destruct (day_step w b s0 d r) as [e|s1]; [reflexivity|].
  apply IH. intros x e Hx He. apply Hfar; [right; exact Hx|exact He].
Qed.

(* errors and disposals of a run over far days carry those days' dates *)
Definition err_date (e : err) : Z :=
  match e with ECapExceeds d | EResvExceeds d | EExceedsHolding d | ENoPrior d | EUnmatched d | ECrashDivZero d => d end.

Lemma day_step_err_date w offs s d fut e : day_step w offs s d fut = inl e -> err_date e = dt d.
Proof.
  unfold day_step, sell_step.
  destruct (hasbuy d && qltb (bq d) _); [intros H; injection H as <-; reflexivity|].
  destruct (hassell d); [|discriminate].
  destruct (qltb (m_pos s + bq' d) (sq d)); [intros H; injection H as <-; reflexivity|].
  destruct (qltb _ (sq d)); [intros H; injection H as <-; reflexivity|].
  destruct (b_crash _); [intros H; injection H as <-; reflexivity|].
  destruct (qltb 0 _); [|discriminate].
  intros H. injection H as <-. destruct (qeqb _ (sq d)); reflexivity.
Qed.
Lemma day_step_disp w offs s d fut s' : day_step w offs s d fut = inr s' ->
  exists L, m_disp s' = m_disp s ++ L /\ Forall (fun x => fst x = dt d) L.
Proof.
  unfold day_step.
  destruct (hasbuy d && qltb (bq d) _); [discriminate|].
  destruct (if hassell d then _ else _) as [e|r]; [discriminate|].
  intros H. injection H as <-. cbn [m_disp]. eexists. split; [reflexivity|].
  destruct (s_legs r); [constructor|constructor; [reflexivity|constructor]].
Qed.
Lemma mainpass_far w offs far : forall s0,
  match mainpass w offs s0 far with
  | inl e => In (err_date e) (dates far)
  | inr s' => exists L, m_disp s' = m_disp s0 ++ L /\ Forall (fun x => In (fst x) (dates far)) L
  end.
Proof.
  induction far as [|d r IH]; intros s0; cbn [mainpass].
  - exists []. split; [symmetry; apply app_nil_r|constructor].
  - destruct (day_step w offs s0 d r) as [e|s1] eqn:E.
    + left. symmetry. eapply day_step_err_date. exact E.
    + destruct (day_step_disp w offs s0 d r s1 E) as (L1 & E1 & F1).
      specialize (IH s1). destruct (mainpass w offs s1 r) as [e|s'].
      * right. exact IH.
      * destruct IH as (L2 & E2 & F2). exists (L1 ++ L2). split; [rewrite E2, E1, app_assoc; reflexivity|].
        apply Forall_app. split.
        -- eapply Forall_impl; [|exact F1]. intros x Hx. left. symmetry. exact Hx.
        -- eapply Forall_impl; [|exact F2]. intros x Hx. right. exact Hx.
Qed.

(* ---------- the theorem ---------- *)
Theorem run_prefix_stable w p far : no_events far ->
  (forall d e, In d p -> In e far -> (dt e - dt d > w)%Z) ->
  match run w p with
  | inl e => run w (p ++ far) = inl e
  | inr sp =>
      match run w (p ++ far) with
      | inl e => In (err_date e) (dates far)
      | inr s' => exists L, m_disp s' = m_disp sp ++ L /\ Forall (fun x => In (fst x) (dates far)) L
      end
  end.
Proof.
  intros Hne Hfar. unfold run. rewrite prepass_app.
  destruct (prepass false [] p) as [e|lp] eqn:Ep; [reflexivity|].
  destruct (prepass_no_events far (false || existsb hasbuy p) lp Hne) as (ls' & E' & Ho).
  rewrite E'. rewrite (mainpass_app w ls' lp p Ho mst0 far Hfar).
  destruct (mainpass w lp mst0 p) as [e|sp]; [reflexivity|].
  apply mainpass_far.
Qed.
