(* Change of units (C10): measuring each day's share quantities in units scaled by a positive factor g(day),
   with each day's split ratio adjusted by g(next day)/g(day), changes no money figure; quantities reported for a day
   are multiplied by that day's factor.  The split-rescaling law is the instance g = r up to the split day, 1 after. *)
From Coq Require Import QArith Qcanon ZArith List Bool Lqa Lia Sorted.
Require Import CGT.Model.Num CGT.Model.Match CGT.Proofs.NumFacts CGT.Proofs.MatchFacts CGT.Proofs.MatchInv.
Import ListNotations.
Open Scope Qc_scope.

(* ---------- scaling of comparisons, min and max ---------- *)
Lemma Qc_pos_neq0 c : 0 < c -> c <> 0.
Proof. intros H E. rewrite E in H. qc2q; lra. Qed.
Lemma qltb_scale a b c : 0 < c -> qltb (a * c) (b * c) = qltb a b.
Proof.
  intros Hc. destruct (qltb_spec a b) as [H|H]; destruct (qltb_spec (a * c) (b * c)) as [H'|H']; try reflexivity; exfalso.
  - apply H'. qc2q. nra.
  - apply H. qc2q. nra.
Qed.
Lemma qltb0_scale a c : 0 < c -> qltb 0 (a * c) = qltb 0 a.
Proof. intros Hc. rewrite <- (qltb_scale 0 a c Hc). f_equal. ring. Qed.
Lemma qeqb0_scale a c : c <> 0 -> qeqb (a * c) 0 = qeqb a 0.
Proof.
  intros Hc. destruct (qeqb_spec a 0) as [E|N]; destruct (qeqb_spec (a * c) 0) as [E'|N']; try reflexivity; exfalso.
  - apply N'. rewrite E. ring.
  - apply Qcmult_integral in E'. destruct E'; contradiction.
Qed.
Lemma qmin_scale a b c : 0 < c -> qmin (a * c) (b * c) = qmin a b * c.
Proof.
  intros Hc. destruct (qmin_cases a b) as [[H ->]|[H ->]]; destruct (qmin_cases (a * c) (b * c)) as [[H' ->]|[H' ->]]; try reflexivity.
  - apply Qc_is_canon. assert (a * c <= b * c) by (qc2q; nra). qc2q. nra.
  - apply Qc_is_canon. assert (b * c < a * c) by (qc2q; nra). qc2q. nra.
Qed.
Lemma qmax0_scale a c : 0 < c -> qmax 0 (a * c) = qmax 0 a * c.
Proof.
  intros Hc. destruct (qmax_cases 0 a) as [[H ->]|[H ->]]; destruct (qmax_cases 0 (a * c)) as [[H' ->]|[H' ->]]; try reflexivity; try ring.
  - apply Qc_is_canon. qc2q. nra.
  - apply Qc_is_canon. qc2q. nra.
Qed.

(* ---------- the gauge ---------- *)
Definition scale_day (c c' : Qc) (d : day) : day :=
  {| dt := dt d; bq := bq d * c; bcost := bcost d; hasbuy := hasbuy d;
     sq := sq d * c; sgross := sgross d; sfees := sfees d; hassell := hassell d;
     evs := evs d; ratio := ratio d * c' / c |}.
Definition next_factor (g : Z -> Qc) (gend : Qc) (r : list day) : Qc := match r with e :: _ => g (dt e) | [] => gend end.
Fixpoint gauge (g : Z -> Qc) (gend : Qc) (ds : list day) : list day :=
  match ds with
  | [] => []
  | d :: r => scale_day (g (dt d)) (next_factor g gend r) d :: gauge g gend r
  end.
Definition scale_leg (c : Qc) (l : leg) : leg :=
  {| lg_sell := lg_sell l; lg_rule := lg_rule l; lg_qty := lg_qty l * c; lg_acq := lg_acq l; lg_cost := lg_cost l;
     lg_gross := lg_gross l; lg_net := lg_net l; lg_gain := lg_gain l |}.

Definition zero_offsets (offs : list plot) : Prop := forall z, offset_of offs z = 0.

Lemma dt_scale c c' d : dt (scale_day c c' d) = dt d. Proof. reflexivity. Qed.
Lemma sq'_scale c c' d : sq' (scale_day c c' d) = sq' d * c.
Proof. unfold sq'. cbn [hassell sq scale_day]. destruct (hassell d); ring. Qed.
Lemma bq'_scale c c' d : bq' (scale_day c c' d) = bq' d * c.
Proof. unfold bq'. cbn [hasbuy bq scale_day]. destruct (hasbuy d); ring. Qed.

Lemma unit_cost_scale offs offs' c c' d : zero_offsets offs -> zero_offsets offs' -> c <> 0 ->
  unit_cost offs' (scale_day c c' d) * c = unit_cost offs d.
Proof.
  intros Z Z' Hc. unfold unit_cost. cbn [dt bq bcost scale_day]. rewrite Z, Z'. unfold qdiv0.
  rewrite qeqb0_scale by exact Hc. destruct (qeqb_spec (bq d) 0) as [E|N]; [ring|]. field. split; assumption.
Qed.

(* a leg of the scaled day with scaled quantity and the same cost is the scaled leg *)
Lemma mk_leg_scale c c' d r m acq cost : c <> 0 -> sq d <> 0 ->
  mk_leg (scale_day c c' d) r (m * c) acq cost = scale_leg c (mk_leg d r m acq cost).
Proof.
  intros Hc Hs. unfold mk_leg, scale_leg. cbn [dt sq sgross sfees scale_day lg_sell lg_rule lg_qty lg_acq lg_cost lg_gross lg_net lg_gain].
  unfold qdiv0. rewrite qeqb0_scale by exact Hc. destruct (qeqb_spec (sq d) 0) as [E|_]; [contradiction|].
  assert (m * c * (sgross d / (sq d * c)) = m * (sgross d / sq d)) as -> by (field; split; assumption).
  assert (m * c / (sq d * c) = m / sq d) as -> by (field; split; assumption).
  reflexivity.
Qed.

(* ---------- the look-ahead under a change of units ---------- *)
Definition claims_rel (g : Z -> Qc) (cl cl' : claims) : Prop := forall z, claim_of cl' z = claim_of cl z * g z.

Section Gauge.
  Context (g : Z -> Qc) (gend : Qc) (w : Z) (offs offs' : list plot).
  Context (gpos : forall z, 0 < g z) (Zo : zero_offsets offs) (Zo' : zero_offsets offs').

  Lemma free_of_scale e cl cl' k' : claims_rel g cl cl' ->
    free_of (scale_day (g (dt e)) k' e) cl' = free_of e cl * g (dt e).
  Proof.
    intros Hc. unfold free_of. rewrite sq'_scale. cbn [bq dt scale_day]. rewrite (Hc (dt e)).
    rewrite qmax0_scale, qmin_scale by apply gpos.
    rewrite <- qmax0_scale by apply gpos. f_equal. ring.
  Qed.

  Lemma bnb_step_scale c c' d e k' R R' rem cl cl' : 0 < c -> 0 < R -> sq d <> 0 ->
    claims_rel g cl cl' -> R' = R * g (dt e) / c ->
    let s := bnb_step offs d e R rem cl in
    let s' := bnb_step offs' (scale_day c c' d) (scale_day (g (dt e)) k' e) R' (rem * c) cl' in
    b_legs s' = map (scale_leg c) (b_legs s) /\ b_rem s' = b_rem s * c /\ claims_rel g (b_cl s) (b_cl s') /\ b_crash s' = b_crash s.
  Proof.
    intros Hc HR Hsq Hcl ER. cbn zeta. unfold bnb_step.
    pose proof (gpos (dt e)) as Hge. pose proof (Qc_pos_neq0 _ Hc) as Hc0. pose proof (Qc_pos_neq0 _ Hge) as Hge0. pose proof (Qc_pos_neq0 _ HR) as HR0.
    rewrite (free_of_scale e cl cl' k' Hcl). cbn [hasbuy scale_day]. rewrite qltb0_scale by exact Hge.
    destruct (hasbuy e && qltb 0 (free_of e cl)); cbn [b_legs b_rem b_cl b_crash bres0 map].
    - set (free := free_of e cl).
      assert (Ems : qmin (rem * c) (free * g (dt e) / R') = qmin rem (free / R) * c).
      { rewrite ER. replace (free * g (dt e) / (R * g (dt e) / c)) with (free / R * c) by (field; repeat split; assumption).
        apply qmin_scale. exact Hc. }
      rewrite Ems. set (ms := qmin rem (free / R)).
      assert (Emb : ms * c * R' = ms * R * g (dt e)) by (rewrite ER; field; exact Hc0).
      rewrite Emb. repeat split.
      + rewrite mk_leg_scale by assumption. do 3 f_equal.
        rewrite <- (unit_cost_scale offs offs' (g (dt e)) k' e Zo Zo' Hge0). ring.
      + ring.
      + intros z. rewrite !claim_of_cons. cbn [dt scale_day]. rewrite (Hcl z).
        destruct (Z.eqb_spec (dt e) z) as [<-|N]; ring.
      + rewrite ER. destruct (qeqb_spec R 0) as [E|N]; [contradiction|].
        destruct (qeqb_spec (R * g (dt e) / c) 0) as [E'|N']; [|reflexivity].
        exfalso. assert (R * g (dt e) / c * c = 0) as X by (rewrite E'; ring).
        replace (R * g (dt e) / c * c) with (R * g (dt e)) in X by (field; exact Hc0).
        apply Qcmult_integral in X. destruct X; contradiction.
    - repeat split; try exact Hcl; ring.
  Qed.

  Lemma bnb_scale c c' d fut : 0 < c -> sq d <> 0 -> forall R R' rem cl cl', 0 < R -> ratios_pos fut ->
    claims_rel g cl cl' -> match fut with e :: _ => R' = R * g (dt e) / c | [] => True end ->
    let s := bnb w offs d fut R rem cl in
    let s' := bnb w offs' (scale_day c c' d) (gauge g gend fut) R' (rem * c) cl' in
    b_legs s' = map (scale_leg c) (b_legs s) /\ b_rem s' = b_rem s * c /\ claims_rel g (b_cl s) (b_cl s') /\ b_crash s' = b_crash s.
  Proof.
    intros Hc Hsq. induction fut as [|e r IH]; intros R R' rem cl cl' HR Hrat Hcl ER; cbn zeta; cbn [bnb gauge].
    - cbn [b_legs b_rem b_cl b_crash bres0 map]. repeat split; try exact Hcl; ring.
    - rewrite qltb0_scale by exact Hc. destruct (negb (qltb 0 rem)); [cbn [b_legs b_rem b_cl b_crash bres0 map]; repeat split; try exact Hcl; ring|].
      cbn [dt scale_day]. destruct (dt e - dt d >? w)%Z; [cbn [b_legs b_rem b_cl b_crash bres0 map]; repeat split; try exact Hcl; ring|].
      destruct (bnb_step_scale c c' d e (next_factor g gend r) R R' rem cl cl' Hc HR Hsq Hcl ER) as (L1 & M1 & C1 & K1).
      rewrite K1. destruct (b_crash (bnb_step offs d e R rem cl)) eqn:Ecr; [repeat split; try assumption; congruence|].
      assert (HR2 : 0 < R * ratio e) by (apply Qc_mul_pos; [exact HR|apply Hrat; left; reflexivity]).
      assert (ER2 : match r with e' :: _ => R' * ratio (scale_day (g (dt e)) (next_factor g gend r) e) = R * ratio e * g (dt e') / c | [] => True end).
      { destruct r as [|e' r']; [exact I|]. cbn [ratio scale_day next_factor]. rewrite ER.
        field. split; [apply Qc_pos_neq0; exact Hc|apply Qc_pos_neq0; apply gpos]. }
      rewrite M1.
      destruct (IH (R * ratio e) (R' * ratio (scale_day (g (dt e)) (next_factor g gend r) e)) (b_rem (bnb_step offs d e R rem cl))
                   (b_cl (bnb_step offs d e R rem cl)) _ HR2 (fun x Hx => Hrat x (or_intror Hx)) C1 ER2) as (L2 & M2 & C2 & K2).
      cbn [b_legs b_rem b_cl b_crash]. rewrite L1, L2, map_app. repeat split; assumption.
  Qed.
End Gauge.
