(* Change of units (C10): measuring each day's share quantities in units scaled by a positive factor g(day),
   with each day's split ratio adjusted by g(next day)/g(day), changes no money figure; quantities reported for a day
   are multiplied by that day's factor.  The split-rescaling law is the instance g = r up to the split day, 1 after. *)
From Coq Require Import QArith Qcanon ZArith List Bool Lqa Lia Sorted.
Require Import CGT.Model.Num CGT.Model.Match CGT.Proofs.NumFacts CGT.Proofs.MatchFacts CGT.Proofs.MatchInv CGT.Proofs.PrepassFacts.
Import ListNotations.
Open Scope Qc_scope.

(* ---------- scaling of comparisons, min and max ---------- *)
Lemma Qc_pos_neq0 c : 0 < c -> c <> 0.
Proof. intros H E. rewrite E in H. qc2q; lra. Qed.
Lemma Qc_pos_neq0' c : 0 < c -> 0 <> c.
Proof. intros H E. rewrite <- E in H. qc2q; lra. Qed.
Lemma qeqb_scale a b c : c <> 0 -> qeqb (a * c) (b * c) = qeqb a b.
Proof.
  intros Hc. destruct (qeqb_spec a b) as [E|N]; destruct (qeqb_spec (a * c) (b * c)) as [E'|N']; try reflexivity; exfalso.
  - apply N'. rewrite E. reflexivity.
  - apply N. assert (X : (a - b) * c = 0) by (replace ((a - b) * c) with (a * c - b * c) by ring; rewrite E'; ring).
    apply Qcmult_integral in X. destruct X as [X|X]; [|contradiction].
    replace a with (a - b + b) by ring. rewrite X. ring.
Qed.
Lemma qltb_scale a b c : 0 < c -> qltb (a * c) (b * c) = qltb a b.
Proof.
  intros Hc. destruct (qltb_spec a b) as [H|H]; destruct (qltb_spec (a * c) (b * c)) as [H'|H']; try reflexivity; exfalso.
  - apply H'. qc2q. nra.
  - apply H. qc2q. nra.
Qed.
Lemma qltb0_scale a c : 0 < c -> qltb 0 (a * c) = qltb 0 a.
Proof. intros Hc. rewrite <- (qltb_scale 0 a c Hc). f_equal. ring. Qed.
Lemma qeqb0_scale a c : c <> 0 -> qeqb (a * c) 0 = qeqb a 0.
Proof.
  intros Hc. destruct (qeqb_spec a 0) as [E|N]; destruct (qeqb_spec (a * c) 0) as [E'|N']; try reflexivity; exfalso.
  - apply N'. rewrite E. ring.
  - apply Qcmult_integral in E'. destruct E'; contradiction.
Qed.
Lemma qmin_scale a b c : 0 < c -> qmin (a * c) (b * c) = qmin a b * c.
Proof.
  intros Hc. destruct (qmin_cases a b) as [[H ->]|[H ->]]; destruct (qmin_cases (a * c) (b * c)) as [[H' ->]|[H' ->]]; try reflexivity.
  - apply Qc_is_canon. assert (a * c <= b * c) by (qc2q; nra). qc2q. nra.
  - apply Qc_is_canon. assert (b * c < a * c) by (qc2q; nra). qc2q. nra.
Qed.
Lemma qmax0_scale a c : 0 < c -> qmax 0 (a * c) = qmax 0 a * c.
Proof.
  intros Hc. destruct (qmax_cases 0 a) as [[H ->]|[H ->]]; destruct (qmax_cases 0 (a * c)) as [[H' ->]|[H' ->]]; try reflexivity; try ring.
  - apply Qc_is_canon. qc2q. nra.
  - apply Qc_is_canon. qc2q. nra.
Qed.

(* ---------- the gauge ---------- *)
Definition scale_day (c c' : Qc) (d : day) : day :=
  {| dt := dt d; bq := bq d * c; bcost := bcost d; hasbuy := hasbuy d;
     sq := sq d * c; sgross := sgross d; sfees := sfees d; hassell := hassell d;
     evs := evs d; ratio := ratio d * c' / c |}.
Definition next_factor (g : Z -> Qc) (gend : Qc) (r : list day) : Qc := match r with e :: _ => g (dt e) | [] => gend end.
Fixpoint gauge (g : Z -> Qc) (gend : Qc) (ds : list day) : list day :=
  match ds with
  | [] => []
  | d :: r => scale_day (g (dt d)) (next_factor g gend r) d :: gauge g gend r
  end.
Definition scale_leg (c : Qc) (l : leg) : leg :=
  {| lg_sell := lg_sell l; lg_rule := lg_rule l; lg_qty := lg_qty l * c; lg_acq := lg_acq l; lg_cost := lg_cost l;
     lg_gross := lg_gross l; lg_net := lg_net l; lg_gain := lg_gain l |}.

Definition zero_offsets (offs : list plot) : Prop := forall z, offset_of offs z = 0.

Lemma dt_scale c c' d : dt (scale_day c c' d) = dt d. Proof. reflexivity. Qed.
Lemma sq_scale c c' d : sq (scale_day c c' d) = sq d * c. Proof. reflexivity. Qed.
Lemma bq_scale c c' d : bq (scale_day c c' d) = bq d * c. Proof. reflexivity. Qed.
Lemma hasbuy_scale c c' d : hasbuy (scale_day c c' d) = hasbuy d. Proof. reflexivity. Qed.
Lemma hassell_scale c c' d : hassell (scale_day c c' d) = hassell d. Proof. reflexivity. Qed.
Lemma ratio_scale c c' d : ratio (scale_day c c' d) = ratio d * c' / c. Proof. reflexivity. Qed.
Lemma evs_scale c c' d : evs (scale_day c c' d) = evs d. Proof. reflexivity. Qed.
Lemma sq'_scale c c' d : sq' (scale_day c c' d) = sq' d * c.
Proof. unfold sq'. cbn [hassell sq scale_day]. destruct (hassell d); ring. Qed.
Lemma bq'_scale c c' d : bq' (scale_day c c' d) = bq' d * c.
Proof. unfold bq'. cbn [hasbuy bq scale_day]. destruct (hasbuy d); ring. Qed.

Lemma unit_cost_scale offs offs' c c' d : zero_offsets offs -> zero_offsets offs' -> c <> 0 ->
  unit_cost offs' (scale_day c c' d) * c = unit_cost offs d.
Proof.
  intros Z Z' Hc. unfold unit_cost. cbn [dt bq bcost scale_day]. rewrite Z, Z'. unfold qdiv0.
  rewrite qeqb0_scale by exact Hc. destruct (qeqb_spec (bq d) 0) as [E|N]; [ring|]. field. split; assumption.
Qed.

(* a leg of the scaled day with scaled quantity and the same cost is the scaled leg *)
Lemma mk_leg_scale c c' d r m acq cost : c <> 0 -> sq d <> 0 ->
  mk_leg (scale_day c c' d) r (m * c) acq cost = scale_leg c (mk_leg d r m acq cost).
Proof.
  intros Hc Hs. unfold mk_leg, scale_leg. cbn [dt sq sgross sfees scale_day lg_sell lg_rule lg_qty lg_acq lg_cost lg_gross lg_net lg_gain].
  unfold qdiv0. rewrite qeqb0_scale by exact Hc. destruct (qeqb_spec (sq d) 0) as [E|_]; [contradiction|].
  assert (m * c * (sgross d / (sq d * c)) = m * (sgross d / sq d)) as -> by (field; split; assumption).
  assert (m * c / (sq d * c) = m / sq d) as -> by (field; split; assumption).
  reflexivity.
Qed.

(* ---------- the look-ahead under a change of units ---------- *)
Definition claims_rel (g : Z -> Qc) (cl cl' : claims) : Prop := forall z, claim_of cl' z = claim_of cl z * g z.

Section Gauge.
  Context (g : Z -> Qc) (gend : Qc) (w : Z) (offs offs' : list plot).
  Context (gpos : forall z, 0 < g z) (Zo : zero_offsets offs) (Zo' : zero_offsets offs').

  Lemma free_of_scale e cl cl' k' : claims_rel g cl cl' ->
    free_of (scale_day (g (dt e)) k' e) cl' = free_of e cl * g (dt e).
  Proof.
    intros Hc. unfold free_of. rewrite sq'_scale. cbn [bq dt scale_day]. rewrite (Hc (dt e)).
    rewrite qmax0_scale, qmin_scale by apply gpos.
    rewrite <- qmax0_scale by apply gpos. f_equal. ring.
  Qed.

  Lemma bnb_step_scale c c' d e k' R R' rem cl cl' : 0 < c -> 0 < R -> sq d <> 0 ->
    claims_rel g cl cl' -> R' = R * g (dt e) / c ->
    let s := bnb_step offs d e R rem cl in
    let s' := bnb_step offs' (scale_day c c' d) (scale_day (g (dt e)) k' e) R' (rem * c) cl' in
    b_legs s' = map (scale_leg c) (b_legs s) /\ b_rem s' = b_rem s * c /\ claims_rel g (b_cl s) (b_cl s') /\ b_crash s' = b_crash s.
  Proof.
    intros Hc HR Hsq Hcl ER. cbn zeta. unfold bnb_step.
    pose proof (gpos (dt e)) as Hge. pose proof (Qc_pos_neq0 _ Hc) as Hc0. pose proof (Qc_pos_neq0 _ Hge) as Hge0. pose proof (Qc_pos_neq0 _ HR) as HR0.
    rewrite (free_of_scale e cl cl' k' Hcl). cbn [hasbuy scale_day]. rewrite qltb0_scale by exact Hge.
    destruct (hasbuy e && qltb 0 (free_of e cl)); cbn [b_legs b_rem b_cl b_crash bres0 map].
    - set (free := free_of e cl).
      assert (Ems : qmin (rem * c) (free * g (dt e) / R') = qmin rem (free / R) * c).
      { rewrite ER. replace (free * g (dt e) / (R * g (dt e) / c)) with (free / R * c) by (field; repeat split; assumption).
        apply qmin_scale. exact Hc. }
      rewrite Ems. set (ms := qmin rem (free / R)).
      assert (Emb : ms * c * R' = ms * R * g (dt e)) by (rewrite ER; field; exact Hc0).
      rewrite Emb. repeat split.
      + rewrite mk_leg_scale by assumption. do 3 f_equal.
        rewrite <- (unit_cost_scale offs offs' (g (dt e)) k' e Zo Zo' Hge0). ring.
      + ring.
      + intros z. rewrite !claim_of_cons. cbn [dt scale_day]. rewrite (Hcl z).
        destruct (Z.eqb_spec (dt e) z) as [<-|N]; ring.
      + rewrite ER. destruct (qeqb_spec R 0) as [E|N]; [contradiction|].
        destruct (qeqb_spec (R * g (dt e) / c) 0) as [E'|N']; [|reflexivity].
        exfalso. assert (R * g (dt e) / c * c = 0) as X by (rewrite E'; ring).
        replace (R * g (dt e) / c * c) with (R * g (dt e)) in X by (field; exact Hc0).
        apply Qcmult_integral in X. destruct X; contradiction.
    - repeat split; try exact Hcl; ring.
  Qed.

  Lemma bnb_scale c c' d fut : 0 < c -> sq d <> 0 -> forall R R' rem cl cl', 0 < R -> ratios_pos fut ->
    claims_rel g cl cl' -> match fut with e :: _ => R' = R * g (dt e) / c | [] => True end ->
    let s := bnb w offs d fut R rem cl in
    let s' := bnb w offs' (scale_day c c' d) (gauge g gend fut) R' (rem * c) cl' in
    b_legs s' = map (scale_leg c) (b_legs s) /\ b_rem s' = b_rem s * c /\ claims_rel g (b_cl s) (b_cl s') /\ b_crash s' = b_crash s.
  Proof.
    intros Hc Hsq. induction fut as [|e r IH]; intros R R' rem cl cl' HR Hrat Hcl ER; cbn zeta; cbn [bnb gauge].
    - cbn [b_legs b_rem b_cl b_crash bres0 map]. repeat split; try exact Hcl; ring.
    - rewrite qltb0_scale by exact Hc. destruct (negb (qltb 0 rem)); [cbn [b_legs b_rem b_cl b_crash bres0 map]; repeat split; try exact Hcl; ring|].
      cbn [dt scale_day]. destruct (dt e - dt d >? w)%Z; [cbn [b_legs b_rem b_cl b_crash bres0 map]; repeat split; try exact Hcl; ring|].
      destruct (bnb_step_scale c c' d e (next_factor g gend r) R R' rem cl cl' Hc HR Hsq Hcl ER) as (L1 & M1 & C1 & K1).
      rewrite K1. destruct (b_crash (bnb_step offs d e R rem cl)) eqn:Ecr; [repeat split; try assumption; congruence|].
      assert (HR2 : 0 < R * ratio e) by (apply Qc_mul_pos; [exact HR|apply Hrat; left; reflexivity]).
      assert (ER2 : match r with e' :: _ => R' * ratio (scale_day (g (dt e)) (next_factor g gend r) e) = R * ratio e * g (dt e') / c | [] => True end).
      { destruct r as [|e' r']; [exact I|]. cbn [ratio scale_day next_factor]. rewrite ER.
        field. split; [apply Qc_pos_neq0; exact Hc|apply Qc_pos_neq0; apply gpos]. }
      rewrite M1.
      destruct (IH (R * ratio e) (R' * ratio (scale_day (g (dt e)) (next_factor g gend r) e)) (b_rem (bnb_step offs d e R rem cl))
                   (b_cl (bnb_step offs d e R rem cl)) _ HR2 (fun x Hx => Hrat x (or_intror Hx)) C1 ER2) as (L2 & M2 & C2 & K2).
      cbn [b_legs b_rem b_cl b_crash]. rewrite L1, L2, map_app. repeat split; assumption.
  Qed.

  (* ---------- one day ---------- *)
  Lemma same_day_scale c c' d av : 0 < c ->
    same_day_step offs' (scale_day c c' d) (av * c) =
    (map (scale_leg c) (fst (fst (same_day_step offs d av))), snd (fst (same_day_step offs d av)) * c, snd (same_day_step offs d av) * c).
  Proof.
    intros Hc. pose proof (Qc_pos_neq0 _ Hc) as Hc0. unfold same_day_step. rewrite sq_scale, !qltb0_scale by exact Hc.
    destruct (qltb 0 av); destruct (qltb_spec 0 (sq d)) as [E2|E2]; cbn [andb fst snd map]; try reflexivity.
    assert (Hsq : sq d <> 0) by (apply not_eq_sym, Qc_pos_neq0'; exact E2).
    rewrite qmin_scale by exact Hc. set (m := qmin (sq d) av). rewrite dt_scale.
    replace (m * c * unit_cost offs' (scale_day c c' d)) with (m * unit_cost offs d)
      by (rewrite <- (unit_cost_scale offs offs' c c' d Zo Zo' Hc0); ring).
    rewrite mk_leg_scale by assumption. f_equal; [f_equal|]; ring.
  Qed.

  Lemma pool_step_scale c c' d s s' rem : 0 < c -> m_pq s' = m_pq s * c -> m_pc s' = m_pc s -> m_pooled s' = m_pooled s ->
    pool_step (scale_day c c' d) s' (rem * c) =
    (map (scale_leg c) (fst (fst (pool_step d s rem))), snd (fst (pool_step d s rem)) * c,
     (fst (snd (pool_step d s rem)) * c, snd (snd (pool_step d s rem)))).
  Proof.
    intros Hc Eq Ec Ep. pose proof (Qc_pos_neq0 _ Hc) as Hc0. unfold pool_step. rewrite sq_scale, Eq, Ec, Ep, qltb0_scale, !qeqb0_scale by assumption.
    destruct (qltb 0 rem); destruct (m_pooled s); destruct (qeqb_spec (m_pq s) 0) as [E3|E3]; destruct (qeqb_spec (sq d) 0) as [E4|E4];
      cbn [andb negb fst snd map]; try reflexivity.
    rewrite qmin_scale by exact Hc. set (m := qmin rem (m_pq s)).
    replace (m * c * (m_pc s / (m_pq s * c))) with (m * (m_pc s / m_pq s)) by (field; split; assumption).
    rewrite mk_leg_scale by assumption. f_equal; [f_equal|f_equal]; ring.
  Qed.

  Definition sell_tail (d : day) (s : mst) (sdl : list leg) (sdav : Qc) (bb : bres) : err + sres :=
    if b_crash bb then inl (ECrashDivZero (dt d)) else
    if qltb 0 (snd (fst (pool_step d s (b_rem bb)))) then
      inl (if qeqb (snd (fst (pool_step d s (b_rem bb)))) (sq d) then ENoPrior (dt d) else EUnmatched (dt d))
    else inr {| s_legs := sdl ++ b_legs bb ++ fst (fst (pool_step d s (b_rem bb))); s_av := sdav; s_cl := b_cl bb;
                s_pq := fst (snd (pool_step d s (b_rem bb))); s_pc := snd (snd (pool_step d s (b_rem bb))) |}.

  Lemma sell_step_tail w0 o s d fut av pos1 :
    sell_step w0 o s d fut av pos1 =
    if qltb pos1 (sq d) then inl (EExceedsHolding (dt d)) else
    if qltb (av + m_pq s) (sq d) then inl (EExceedsHolding (dt d)) else
    sell_tail d s (fst (fst (same_day_step o d av))) (snd (same_day_step o d av))
      (if qeqb (sq d) 0 then bres0 (snd (fst (same_day_step o d av))) (m_cl s)
       else bnb w0 o d fut (ratio d) (snd (fst (same_day_step o d av))) (m_cl s)).
  Proof. reflexivity. Qed.

  Definition sres_rel (c : Qc) (r r' : sres) : Prop :=
    s_legs r' = map (scale_leg c) (s_legs r) /\ s_av r' = s_av r * c /\ claims_rel g (s_cl r) (s_cl r') /\
    s_pq r' = s_pq r * c /\ s_pc r' = s_pc r.
  Definition res_rel {A} (R : A -> A -> Prop) (x x' : err + A) : Prop :=
    match x, x' with inl e, inl e' => e = e' | inr r, inr r' => R r r' | _, _ => False end.

  Lemma sell_tail_scale c c' d s s' sdl sdav bb bb' : 0 < c ->
    m_pq s' = m_pq s * c -> m_pc s' = m_pc s -> m_pooled s' = m_pooled s ->
    b_legs bb' = map (scale_leg c) (b_legs bb) -> b_rem bb' = b_rem bb * c -> claims_rel g (b_cl bb) (b_cl bb') -> b_crash bb' = b_crash bb ->
    res_rel (sres_rel c) (sell_tail d s sdl sdav bb) (sell_tail (scale_day c c' d) s' (map (scale_leg c) sdl) (sdav * c) bb').
  Proof.
    intros Hc Eq Ec Ep L M C K. pose proof (Qc_pos_neq0 _ Hc) as Hc0. unfold sell_tail.
    rewrite K, M, (pool_step_scale c c' d s s' (b_rem bb) Hc Eq Ec Ep). cbn [fst snd]. rewrite sq_scale, dt_scale.
    destruct (b_crash bb); [reflexivity|]. rewrite qltb0_scale, qeqb_scale by assumption.
    destruct (qltb 0 (snd (fst (pool_step d s (b_rem bb))))); [reflexivity|].
    unfold res_rel, sres_rel. cbn [s_legs s_av s_cl s_pq s_pc]. rewrite L, !map_app. repeat split; try reflexivity. exact C.
  Qed.

  Lemma sell_step_scale c d fut s s' av pos1 : 0 < c -> 0 < ratio d -> ratios_pos fut ->
    m_pq s' = m_pq s * c -> m_pc s' = m_pc s -> m_pooled s' = m_pooled s -> claims_rel g (m_cl s) (m_cl s') ->
    res_rel (sres_rel c) (sell_step w offs s d fut av pos1)
      (sell_step w offs' s' (scale_day c (next_factor g gend fut) d) (gauge g gend fut) (av * c) (pos1 * c)).
  Proof.
    intros Hc Hrd Hrat Eq Ec Ep Hcl. pose proof (Qc_pos_neq0 _ Hc) as Hc0.
    rewrite !sell_step_tail. rewrite sq_scale, dt_scale, qltb_scale by exact Hc.
    destruct (qltb pos1 (sq d)); [reflexivity|].
    rewrite Eq. replace (av * c + m_pq s * c) with ((av + m_pq s) * c) by ring. rewrite qltb_scale by exact Hc.
    destruct (qltb (av + m_pq s) (sq d)); [reflexivity|].
    rewrite same_day_scale by exact Hc. cbn [fst snd]. rewrite qeqb0_scale by exact Hc0.
    apply sell_tail_scale; try assumption.
    - destruct (qeqb_spec (sq d) 0) as [E|N]; [reflexivity|].
      apply (bnb_scale c (next_factor g gend fut) d fut Hc N (ratio d) _ _ (m_cl s) (m_cl s') Hrd Hrat Hcl).
      destruct fut; [exact I|]. reflexivity.
    - destruct (qeqb_spec (sq d) 0) as [E|N]; [reflexivity|].
      apply (bnb_scale c (next_factor g gend fut) d fut Hc N (ratio d) _ _ (m_cl s) (m_cl s') Hrd Hrat Hcl).
      destruct fut; [exact I|]. reflexivity.
    - destruct (qeqb_spec (sq d) 0) as [E|N]; [exact Hcl|].
      apply (bnb_scale c (next_factor g gend fut) d fut Hc N (ratio d) _ _ (m_cl s) (m_cl s') Hrd Hrat Hcl).
      destruct fut; [exact I|]. reflexivity.
    - destruct (qeqb_spec (sq d) 0) as [E|N]; [reflexivity|].
      apply (bnb_scale c (next_factor g gend fut) d fut Hc N (ratio d) _ _ (m_cl s) (m_cl s') Hrd Hrat Hcl).
      destruct fut; [exact I|]. reflexivity.
  Qed.

  Definition disp_scale (dl : list (Z * list leg)) : list (Z * list leg) :=
    map (fun p => (fst p, map (scale_leg (g (fst p))) (snd p))) dl.
  Definition st_rel (c : Qc) (s s' : mst) : Prop :=
    m_pq s' = m_pq s * c /\ m_pc s' = m_pc s /\ m_pooled s' = m_pooled s /\ claims_rel g (m_cl s) (m_cl s') /\
    m_disp s' = disp_scale (m_disp s) /\ m_pos s' = m_pos s * c.

  Definition day_fin (d : day) (s : mst) (u pos1 : Qc) (r : sres) : mst :=
    {| m_pq := (if hasbuy d && qltb 0 (s_av r) then s_pq r + s_av r else s_pq r) * ratio d;
       m_pc := if hasbuy d && qltb 0 (s_av r) then s_pc r + s_av r * u else s_pc r;
       m_pooled := m_pooled s || (hasbuy d && qltb 0 (s_av r));
       m_cl := s_cl r;
       m_disp := m_disp s ++ (match s_legs r with [] => [] | _ => [(dt d, s_legs r)] end);
       m_pos := (pos1 - sq' d) * ratio d |}.

  Lemma day_step_fin w0 o s d fut :
    day_step w0 o s d fut =
    if hasbuy d && qltb (bq d) (if hasbuy d then claim_of (m_cl s) (dt d) else 0) then inl (EResvExceeds (dt d)) else
    match (if hassell d then sell_step w0 o s d fut (if hasbuy d then bq d - (if hasbuy d then claim_of (m_cl s) (dt d) else 0) else 0) (m_pos s + bq' d)
           else inr {| s_legs := []; s_av := (if hasbuy d then bq d - (if hasbuy d then claim_of (m_cl s) (dt d) else 0) else 0);
                       s_cl := m_cl s; s_pq := m_pq s; s_pc := m_pc s |}) with
    | inl e => inl e
    | inr r => inr (day_fin d s (unit_cost o d) (m_pos s + bq' d) r)
    end.
  Proof. reflexivity. Qed.

  Lemma day_fin_scale d c' s s' u u' pos1 r r' : 0 < g (dt d) -> st_rel (g (dt d)) s s' -> sres_rel (g (dt d)) r r' -> u' * g (dt d) = u ->
    st_rel c' (day_fin d s u pos1 r) (day_fin (scale_day (g (dt d)) c' d) s' u' (pos1 * g (dt d)) r').
  Proof.
    set (c := g (dt d)). intros Hc (Eq & Ec & Ep & Hcl & Ed & Epos) (L & A & C & Q & P) Hu. pose proof (Qc_pos_neq0 _ Hc) as Hc0.
    unfold st_rel, day_fin. cbn [m_pq m_pc m_pooled m_cl m_disp m_pos]. rewrite hasbuy_scale, ratio_scale, sq'_scale, dt_scale, A, Q, P, Ep, L, Ed.
    rewrite qltb0_scale by exact Hc. repeat split.
    - destruct (hasbuy d && qltb 0 (s_av r)); field; exact Hc0.
    - destruct (hasbuy d && qltb 0 (s_av r)); [|reflexivity]. rewrite <- Hu. ring.
    - exact C.
    - unfold disp_scale. rewrite map_app. f_equal. destruct (s_legs r) as [|l ls]; reflexivity.
    - field; exact Hc0.
  Qed.

  Lemma day_step_scale d fut s s' : 0 < ratio d -> ratios_pos fut -> st_rel (g (dt d)) s s' ->
    res_rel (st_rel (next_factor g gend fut)) (day_step w offs s d fut)
      (day_step w offs' s' (scale_day (g (dt d)) (next_factor g gend fut) d) (gauge g gend fut)).
  Proof.
    intros Hrd Hrat Hst. pose proof Hst as (Eq & Ec & Ep & Hcl & Ed & Epos).
    set (c := g (dt d)) in *. assert (Hc : 0 < c) by apply gpos. pose proof (Qc_pos_neq0 _ Hc) as Hc0.
    rewrite !day_step_fin. rewrite hasbuy_scale, hassell_scale, dt_scale, bq_scale, bq'_scale.
    assert (Er : (if hasbuy d then claim_of (m_cl s') (dt d) else 0) = (if hasbuy d then claim_of (m_cl s) (dt d) else 0) * c).
    { destruct (hasbuy d); [apply Hcl|ring]. }
    rewrite Er. set (resv := if hasbuy d then claim_of (m_cl s) (dt d) else 0).
    rewrite qltb_scale by exact Hc. destruct (hasbuy d && qltb (bq d) resv); [reflexivity|].
    assert (Ea : (if hasbuy d then bq d * c - resv * c else 0) = (if hasbuy d then bq d - resv else 0) * c) by (destruct (hasbuy d); ring).
    rewrite Ea. set (av := if hasbuy d then bq d - resv else 0).
    rewrite Epos. replace (m_pos s * c + bq' d * c) with ((m_pos s + bq' d) * c) by ring.
    assert (Hu : unit_cost offs' (scale_day c (next_factor g gend fut) d) * c = unit_cost offs d) by (apply unit_cost_scale; assumption).
    destruct (hassell d).
    - pose proof (sell_step_scale c d fut s s' av (m_pos s + bq' d) Hc Hrd Hrat Eq Ec Ep Hcl) as Hs.
      destruct (sell_step w offs s d fut av (m_pos s + bq' d)) as [e|r];
        destruct (sell_step w offs' s' (scale_day c (next_factor g gend fut) d) (gauge g gend fut) (av * c) ((m_pos s + bq' d) * c)) as [e'|r'];
        cbn [res_rel] in Hs |- *; try contradiction; [exact Hs|].
      apply day_fin_scale; assumption.
    - cbn [res_rel]. apply day_fin_scale; try assumption.
      unfold sres_rel. cbn [s_legs s_av s_cl s_pq s_pc map]. repeat split; assumption.
  Qed.

  (* ---------- the whole main pass ---------- *)
  Lemma mainpass_scale ds : forall s s', ratios_pos ds -> st_rel (next_factor g gend ds) s s' ->
    res_rel (st_rel gend) (mainpass w offs s ds) (mainpass w offs' s' (gauge g gend ds)).
  Proof.
    induction ds as [|d r IH]; intros s s' Hrat Hst; cbn [mainpass gauge].
    - exact Hst.
    - cbn [next_factor] in Hst.
      pose proof (day_step_scale d r s s' (Hrat d (or_introl eq_refl)) (fun x Hx => Hrat x (or_intror Hx)) Hst) as Hd.
      destruct (day_step w offs s d r) as [e|s1];
        destruct (day_step w offs' s' (scale_day (g (dt d)) (next_factor g gend r) d) (gauge g gend r)) as [e'|s1'];
        cbn [res_rel] in Hd |- *; try contradiction; [exact Hd|].
      apply IH; [intros x Hx; apply Hrat; right; exact Hx|exact Hd].
  Qed.
End Gauge.

(* ---------- ledgers without capital events: the pre-pass yields no offsets ---------- *)
Definition noev (ds : list day) : Prop := forall d, In d ds -> evs d = [].
Definition offs_zero (ls : list plot) : Prop := Forall (fun x => x = 0) (map pl_off ls).

Lemma offs_zero_offset ls : offs_zero ls -> zero_offsets ls.
Proof.
  unfold offs_zero, zero_offsets, offset_of. induction ls as [|l r IH]; intros H z; cbn [map]; [reflexivity|].
  cbn [map] in H. inversion H as [|x xs Hx Hr]; subst. rewrite qsum_cons, (IH Hr z), Hx. destruct (pl_dt l =? z)%Z; ring.
Qed.

Lemma prepass_noev ds : forall started ls, noev ds -> offs_zero ls ->
  exists offs, prepass started ls ds = inr offs /\ offs_zero offs.
Proof.
  induction ds as [|d r IH]; intros started ls Hn Hz; cbn [prepass]; [exists ls; split; [reflexivity|exact Hz]|].
  rewrite (Hn d (or_introl eq_refl)). cbn [apply_evs].
  apply IH; [intros x Hx; apply Hn; right; exact Hx|].
  assert (Hb : offs_zero (pre_add_buy d ls)).
  { unfold pre_add_buy, offs_zero. destruct (hasbuy d); [|exact Hz]. rewrite map_app. apply Forall_app. split; [exact Hz|].
    cbn [map pl_off new_lot]. constructor; [reflexivity|constructor]. }
  destruct (hassell d && (started || hasbuy d)); [|exact Hb].
  unfold offs_zero. rewrite pre_sell_off. exact Hb.
Qed.

Lemma gauge_noev g gend ds : noev ds -> noev (gauge g gend ds).
Proof.
  induction ds as [|d r IH]; intros Hn x Hx; cbn [gauge] in Hx; [destruct Hx|].
  destruct Hx as [<-|Hx]; [rewrite evs_scale; apply Hn; left; reflexivity|].
  apply IH; [intros y Hy; apply Hn; right; exact Hy|exact Hx].
Qed.

(* Main theorem: a change of units leaves every money figure alone and multiplies the share counts of each day by that day's factor. *)
Theorem run_gauge (g : Z -> Qc) (gend : Qc) (w : Z) (ds : list day) :
  (forall z, 0 < g z) -> ratios_pos ds -> noev ds ->
  res_rel (st_rel g gend) (run w ds) (run w (gauge g gend ds)).
Proof.
  intros gpos Hrat Hn. unfold run.
  destruct (prepass_noev ds false [] Hn (Forall_nil _)) as (offs & E & Z1).
  destruct (prepass_noev (gauge g gend ds) false [] (gauge_noev g gend ds Hn) (Forall_nil _)) as (offs' & E' & Z2).
  rewrite E, E'. apply mainpass_scale; try assumption; try (apply offs_zero_offset; assumption).
  unfold st_rel, mst0, claims_rel, disp_scale. cbn [m_pq m_pc m_pooled m_cl m_disp m_pos map]. repeat split; try ring.
  intros z. unfold claim_of. cbn [map]. rewrite qsum_nil. ring.
Qed.

(* ---------- the split-rescaling law as an instance ---------- *)
Definition split_gauge (D : Z) (r : Qc) (z : Z) : Qc := if (z <=? D)%Z then r else 1.

(* the ledger rewritten in the units current after day D's split of ratio r: quantities up to and including day D
   multiplied by r, the factor r taken out of day D's ratio, everything else as it was *)
Definition rescale_day (D : Z) (r : Qc) (d : day) : day :=
  if (dt d <=? D)%Z then
    {| dt := dt d; bq := bq d * r; bcost := bcost d; hasbuy := hasbuy d; sq := sq d * r; sgross := sgross d; sfees := sfees d;
       hassell := hassell d; evs := evs d; ratio := if (dt d =? D)%Z then ratio d / r else ratio d |}
  else d.

Lemma Qc_1_neq_0 : (1 : Qc) <> 0.
Proof. discriminate. Qed.

Lemma scale_day_11 d : scale_day 1 1 d = d.
Proof.
  destruct d as [z b bc hb q sg sf hs es ra]. unfold scale_day; cbn [dt bq bcost hasbuy sq sgross sfees hassell evs ratio].
  f_equal; try ring. field. exact Qc_1_neq_0.
Qed.

Lemma gauge_split D r ds : 0 < r -> sorted_days ds -> (In D (dates ds) \/ forall d, In d ds -> (D < dt d)%Z) ->
  gauge (split_gauge D r) 1 ds = map (rescale_day D r) ds.
Proof.
  intros Hr. pose proof (Qc_pos_neq0 _ Hr) as Hr0. induction ds as [|d l IH]; intros Hs Hin; cbn [gauge map]; [reflexivity|].
  destruct (sorted_cons_inv d l Hs) as [Hs' Hl].
  assert (Hin' : In D (dates l) \/ forall x, In x l -> (D < dt x)%Z).
  { destruct Hin as [Hin|Hin]; [|right; intros x Hx; apply Hin; right; exact Hx].
    cbn [dates map In] in Hin. destruct Hin as [E|Hin]; [|left; exact Hin].
    right. intros x Hx. rewrite <- E. apply Hl. exact Hx. }
  rewrite (IH Hs' Hin'). f_equal.
  unfold rescale_day, split_gauge at 1.
  destruct (Z.leb_spec (dt d) D) as [Hle|Hgt].
  - destruct (Z.eqb_spec (dt d) D) as [E|N].
    + (* the split day: the next factor is 1 *)
      assert (next_factor (split_gauge D r) 1 l = 1) as ->.
      { destruct l as [|e l']; [reflexivity|]. cbn [next_factor]. unfold split_gauge.
        pose proof (Hl e (or_introl eq_refl)). destruct (Z.leb_spec (dt e) D); [lia|reflexivity]. }
      unfold scale_day. f_equal. field. exact Hr0.
    + (* before it: the next day is not later than D *)
      assert (next_factor (split_gauge D r) 1 l = r) as ->.
      { destruct Hin as [Hin|Hin]; [|specialize (Hin d (or_introl eq_refl)); lia].
        cbn [dates map In] in Hin. destruct Hin as [E|Hin]; [congruence|].
        destruct l as [|e l']; [destruct Hin|]. cbn [next_factor]. unfold split_gauge.
        destruct (Z.leb_spec (dt e) D) as [_|Hlt]; [reflexivity|]. exfalso.
        cbn [dates map In] in Hin. destruct Hin as [E|Hin]; [lia|].
        destruct (sorted_cons_inv e l' Hs') as [_ Hl']. apply in_map_iff in Hin. destruct Hin as (x & Ex & Hx).
        specialize (Hl' x Hx). lia. }
      unfold scale_day. f_equal. field. exact Hr0.
  - (* after it *)
    assert (next_factor (split_gauge D r) 1 l = 1) as ->.
    { destruct l as [|e l']; [reflexivity|]. cbn [next_factor]. unfold split_gauge.
      pose proof (Hl e (or_introl eq_refl)). destruct (Z.leb_spec (dt e) D); [lia|reflexivity]. }
    apply scale_day_11.
Qed.

Theorem run_split_rescale (w D : Z) (r : Qc) (ds : list day) :
  0 < r -> sorted_days ds -> In D (dates ds) -> ratios_pos ds -> noev ds ->
  res_rel (st_rel (split_gauge D r) 1) (run w ds) (run w (map (rescale_day D r) ds)).
Proof.
  intros Hr Hs Hin Hrat Hn. rewrite <- (gauge_split D r ds Hr Hs (or_introl Hin)).
  apply run_gauge; try assumption. intros z. unfold split_gauge. destruct (z <=? D)%Z; [exact Hr|]. qc2q; lra.
Qed.
