(* Dates are shown DD/MM/YYYY and tax years YYYY/YY: reading the shown text back gives the date / the year. *)
From Coq Require Import ZArith NArith List Bool Ascii String Lia.
Require Import CGT.Model.Date CGT.Model.Dsl CGT.Model.Fmt CGT.Proofs.DecFacts CGT.Proofs.DslRound.
Import ListNotations.
Open Scope N_scope.

(* a reader for the shown forms: exactly two digits, '/', two digits, '/', four digits - and four digits, '/', two digits *)
Definition read_dmy (s : text) : option date :=
  match s with
  | [d1; d2; s1; m1; m2; s2; y1; y2; y3; y4] =>
      if is_digit d1 && is_digit d2 && (code s1 =? 47) && is_digit m1 && is_digit m2 && (code s2 =? 47)
         && is_digit y1 && is_digit y2 && is_digit y3 && is_digit y4
      then Some {| dy := Z.of_N (digits_val 0 [y1; y2; y3; y4]); dm := Z.of_N (digits_val 0 [m1; m2]); dd := Z.of_N (digits_val 0 [d1; d2]) |}
      else None
  | _ => None
  end.
Definition read_tax_year (s : text) : option (Z * Z) :=
  match s with
  | [y1; y2; y3; y4; s1; e1; e2] =>
      if is_digit y1 && is_digit y2 && is_digit y3 && is_digit y4 && (code s1 =? 47) && is_digit e1 && is_digit e2
      then Some (Z.of_N (digits_val 0 [y1; y2; y3; y4]), Z.of_N (digits_val 0 [e1; e2])) else None
  | _ => None
  end.

Lemma two_digits_spec z : (0 <= z < 100)%Z ->
  exists a b, two_digits z = [a; b] /\ is_digit a = true /\ is_digit b = true /\ Z.of_N (digits_val 0 [a; b]) = z.
Proof.
  intros H. unfold two_digits. set (n := Z.to_N z). assert (n < 100) by (unfold n; lia).
  destruct (dig (n / 10)) as [A1 V1]; [lia|]. destruct (dig (n mod 10)) as [A2 V2]; [apply mod10_lt|].
  eexists. eexists. split; [reflexivity|]. repeat split; try assumption.
  cbn [digits_val]. rewrite V1, V2, two_digit_val. unfold n. lia.
Qed.
Lemma four_digits_spec z : (0 <= z <= 9999)%Z ->
  exists a b c e, four_digits z = [a; b; c; e] /\ is_digit a = true /\ is_digit b = true /\ is_digit c = true /\ is_digit e = true /\
                  Z.of_N (digits_val 0 [a; b; c; e]) = z.
Proof.
  intros H. unfold four_digits. set (n := Z.to_N z). assert (Hn : n < 10000) by (unfold n; lia).
  destruct (dig (n / 1000)) as [A1 V1]; [lia|]. destruct (dig ((n / 100) mod 10)) as [A2 V2]; [apply mod10_lt|].
  destruct (dig ((n / 10) mod 10)) as [A3 V3]; [apply mod10_lt|]. destruct (dig (n mod 10)) as [A4 V4]; [apply mod10_lt|].
  do 4 eexists. split; [reflexivity|]. repeat split; try assumption.
  cbn [digits_val]. rewrite V1, V2, V3, V4, (four_digit_val n Hn). unfold n. lia.
Qed.

Theorem read_format_date d : (0 <= dy d <= 9999)%Z -> (0 <= dm d < 100)%Z -> (0 <= dd d < 100)%Z -> read_dmy (format_date d) = Some d.
Proof.
  intros Hy Hm Hd. unfold format_date.
  destruct (two_digits_spec (dd d) Hd) as (a1 & a2 & -> & A1 & A2 & VA).
  destruct (two_digits_spec (dm d) Hm) as (b1 & b2 & -> & B1 & B2 & VB).
  destruct (four_digits_spec (dy d) Hy) as (c1 & c2 & c3 & c4 & -> & C1 & C2 & C3 & C4 & VC).
  cbn [app read_dmy]. rewrite A1, A2, B1, B2, C1, C2, C3, C4. replace (code SLASH =? 47) with true by reflexivity. cbn [andb].
  rewrite VA, VB, VC. destruct d; reflexivity.
Qed.

Theorem read_format_tax_year y : (0 <= y <= 9999)%Z -> read_tax_year (format_tax_year y) = Some (y, ((y + 1) mod 100)%Z).
Proof.
  intros Hy. unfold format_tax_year.
  assert (He : (0 <= (y + 1) mod 100 < 100)%Z) by (apply Z.mod_pos_bound; lia).
  destruct (four_digits_spec y Hy) as (c1 & c2 & c3 & c4 & -> & C1 & C2 & C3 & C4 & VC).
  destruct (two_digits_spec _ He) as (a1 & a2 & -> & A1 & A2 & VA).
  cbn [app read_tax_year]. rewrite A1, A2, C1, C2, C3, C4. replace (code SLASH =? 47) with true by reflexivity. cbn [andb].
  rewrite VA, VC. reflexivity.
Qed.
