(* Facts about FX conversion and rate loading. *)
From Coq Require Import QArith Qcanon ZArith NArith List Bool Ascii String Lia Lqa.
Require Import CGT.Model.Num CGT.Model.Date CGT.Model.Ledger CGT.Model.Dsl CGT.Model.Schwab CGT.Model.Fx CGT.Proofs.NumFacts.
Import ListNotations.
Open Scope Qc_scope.

Lemma code_inj a b : code a = code b -> a = b.
Proof. unfold code. intros H. rewrite <- (ascii_N_embedding a), <- (ascii_N_embedding b), H. reflexivity. Qed.

Lemma is_prefix_nil_eq a : forall b, is_prefix a b = Some [] <-> a = b.
Proof.
  induction a as [|x r IH]; intros b; cbn [is_prefix].
  - split; [intros H; injection H as <-; reflexivity|intros <-; reflexivity].
  - destruct b as [|y s]; [split; discriminate|].
    destruct (N.eqb_spec (code x) (code y)) as [E|N].
    + apply code_inj in E. subst y. rewrite IH. split; [intros ->; reflexivity|intros H; injection H as <-; reflexivity].
    + split; [discriminate|]. intros H. injection H as -> _. contradiction.
Qed.
Lemma text_eqb_spec a b : text_eqb a b = true <-> a = b.
Proof.
  unfold text_eqb. rewrite <- is_prefix_nil_eq. destruct (is_prefix a b) as [[|c r]|].
  - split; reflexivity.
  - split; discriminate.
  - split; discriminate.
Qed.
Lemma rkey_eqb_spec a b : rkey_eqb a b = true <-> a = b.
Proof.
  destruct a as [[ca ya] ma], b as [[cb yb] mb]. unfold rkey_eqb. cbn [fst snd].
  rewrite !andb_true_iff, text_eqb_spec, !Z.eqb_eq. split; [intros [[-> ->] ->]; reflexivity|intros H; injection H as -> -> ->; auto].
Qed.

(* ---------- conversion ---------- *)
Lemma amount_gbp c d a : is_gbp (am_cur a) = true -> amount_to_gbp c d a = inr (am_val a).
Proof. intros H. unfold amount_to_gbp. rewrite H. reflexivity. Qed.
Lemma amount_foreign c d a : is_gbp (am_cur a) = false ->
  amount_to_gbp c d a = match lookup c (am_cur a, dy d, dm d) with
                        | Some rate => inr (am_val a / rate)
                        | None => inl (MissingFx (am_cur a) (dy d) (dm d)) end.
Proof. intros H. unfold amount_to_gbp. rewrite H. reflexivity. Qed.

(* every monetary field of every kind of operation is converted with the transaction's own date *)
Lemma op_fields c d o o' : op_to_gbp c d o = inr o' ->
  match o, o' with
  | Buy q p f, Buy q' p' f' => q = q' /\ amount_to_gbp c d p = inr p' /\ amount_to_gbp c d f = inr f'
  | Sell q p f, Sell q' p' f' => q = q' /\ amount_to_gbp c d p = inr p' /\ amount_to_gbp c d f = inr f'
  | Dividend tv tx, Dividend tv' tx' => amount_to_gbp c d tv = inr tv' /\ amount_to_gbp c d tx = inr tx'
  | Accumulation q tv tx, Accumulation q' tv' tx' => q = q' /\ amount_to_gbp c d tv = inr tv' /\ amount_to_gbp c d tx = inr tx'
  | CapReturn q tv f, CapReturn q' tv' f' => q = q' /\ amount_to_gbp c d tv = inr tv' /\ amount_to_gbp c d f = inr f'
  | Split r, Split r' => r = r'
  | Unsplit r, Unsplit r' => r = r'
  | _, _ => False
  end.
Proof.
  destruct o; cbn [op_to_gbp];
    repeat match goal with |- context[match amount_to_gbp ?c ?d ?x with _ => _ end] => destruct (amount_to_gbp c d x) eqn:? end;
    intros H; try discriminate; injection H as <-; auto.
Qed.

(* a needed absent rate fails the whole operation, naming that field's currency and the transaction's month *)
Lemma two_fields {A} c d x1 x2 (k : Qc -> Qc -> A) a :
  a = x1 \/ a = x2 -> amount_to_gbp c d a = inl (MissingFx (am_cur a) (dy d) (dm d)) ->
  exists cur, match amount_to_gbp c d x1 with
              | inl e => inl e
              | inr p' => match amount_to_gbp c d x2 with inl e => inl e | inr f' => inr (k p' f') end
              end = inl (MissingFx cur (dy d) (dm d)).
Proof.
  intros Hin Ha. destruct Hin as [<-|<-].
  - rewrite Ha. eexists. reflexivity.
  - unfold amount_to_gbp at 1. destruct (is_gbp (am_cur x1)).
    + rewrite Ha. eexists. reflexivity.
    + destruct (lookup c (am_cur x1, dy d, dm d)); [rewrite Ha|]; eexists; reflexivity.
Qed.

Lemma op_missing c d o : (exists a, In a (match o with
    | Buy _ p f | Sell _ p f => [p; f] | Dividend tv tx => [tv; tx]
    | Accumulation _ tv tx => [tv; tx] | CapReturn _ tv f => [tv; f] | _ => [] end) /\
    is_gbp (am_cur a) = false /\ lookup c (am_cur a, dy d, dm d) = None) ->
  exists cur, op_to_gbp c d o = inl (MissingFx cur (dy d) (dm d)).
Proof.
  intros (a & Hin & Hg & Hl).
  assert (Ha : amount_to_gbp c d a = inl (MissingFx (am_cur a) (dy d) (dm d))) by (rewrite amount_foreign, Hl by exact Hg; reflexivity).
  destruct o; cbn [In] in Hin; try contradiction; cbn [op_to_gbp];
    (apply (two_fields c d _ _ _ a); [destruct Hin as [<-|[<-|[]]]; auto|exact Ha]).
Qed.

(* ---------- overrides are local ---------- *)
Lemma lookup_insert c k v k' : lookup (insert c k v) k' = if rkey_eqb k k' then Some v else lookup c k'.
Proof. reflexivity. Qed.

Lemma add_rates_other c y m rs c' k : add_rates c y m rs = inr c' ->
  (snd (fst k) <> y \/ snd k <> m \/ ~ In (fst (fst k)) (map fst rs)) -> lookup c' k = lookup c k.
Proof.
  revert c. induction rs as [|[code r] rest IH]; intros c H Hk; cbn [add_rates] in H.
  - injection H as <-. reflexivity.
  - destruct (qleb r 0); [discriminate|].
    rewrite (IH _ H).
    + rewrite lookup_insert. destruct (rkey_eqb (code, y, m) k) eqn:E; [|reflexivity].
      apply rkey_eqb_spec in E. subst k. cbn [fst snd map In] in Hk. exfalso.
      destruct Hk as [N|[N|N]]; [apply N; reflexivity|apply N; reflexivity|apply N; left; reflexivity].
    + destruct Hk as [N|[N|N]]; [left; exact N|right; left; exact N|right; right; intro Hin; apply N; right; exact Hin].
Qed.
Lemma add_rates_positive c y m rs c' : add_rates c y m rs = inr c' -> forall code r, In (code, r) rs -> 0 < r.
Proof.
  revert c. induction rs as [|[code0 r0] rest IH]; intros c H code r Hin; [destruct Hin|].
  cbn [add_rates] in H. destruct (qleb_spec r0 0) as [Hle|Hgt]; [discriminate|].
  destruct Hin as [E|Hin]; [injection E as <- <-; qc2q; lra|eapply IH; eassumption].
Qed.

Theorem load_file_local c f c' k : load_file c f = inr c' ->
  (forall y m, f_name_ym f = Some (y, m) -> snd (fst k) <> y \/ snd k <> m \/ ~ In (fst (fst k)) (map fst (f_rates f))) ->
  lookup c' k = lookup c k.
Proof.
  unfold load_file. destruct (f_name_ym f) as [[y m]|]; [|discriminate].
  destruct (f_period_ym f) as [[py pm]|]; [|discriminate].
  destruct ((py =? y)%Z && (pm =? m)%Z); [|discriminate].
  intros H Hk. eapply add_rates_other; [exact H|apply Hk; reflexivity].
Qed.
Theorem load_file_checks c f c' : load_file c f = inr c' ->
  exists y m, f_name_ym f = Some (y, m) /\ f_period_ym f = Some (y, m) /\ forall code r, In (code, r) (f_rates f) -> 0 < r.
Proof.
  unfold load_file. destruct (f_name_ym f) as [[y m]|]; [|discriminate].
  destruct (f_period_ym f) as [[py pm]|]; [|discriminate].
  destruct ((py =? y)%Z && (pm =? m)%Z) eqn:E; [|discriminate].
  apply andb_true_iff in E. destruct E as [E1 E2]. apply Z.eqb_eq in E1, E2. subst py pm.
  intros H. exists y, m. split; [reflexivity|]. split; [reflexivity|]. eapply add_rates_positive. exact H.
Qed.
