(* The whole path from text to report depends on the text only through the transactions read from it; the DSL and the JSON rendering of a
   list give the report of the list itself whenever the list's own amounts can be converted (a zero fee or tax then converts to zero in any
   currency, so losing its label changes nothing). *)
From Coq Require Import QArith Qcanon ZArith NArith List Bool Ascii String Lia.
Require Import CGT.Model.Num CGT.Model.Date CGT.Model.Ledger CGT.Model.Match CGT.Model.Agg CGT.Model.Report CGT.Model.Config
               CGT.Model.Dsl CGT.Model.Json CGT.Model.Fx CGT.Model.Pipeline CGT.Proofs.DslFacts CGT.Proofs.DslRound CGT.Proofs.DslCase CGT.Proofs.JsonRound.
Import ListNotations.

Section P.
  Context (vc : text -> bool) (rates : cache) (cfg : exemptions) (year : option Z).

  Definition after_parse (ts : list dtxn) : perror + report :=
    match ledger_to_gbp rates (map fx_of_dtxn ts) with
    | inl e => inl (PFx e)
    | inr l => match report_of P0 cfg year l with inl es => inl (PCalc es) | inr r => inr r end
    end.

  Theorem pipeline_of_parse s ts : parse vc s = inr ts -> pipeline vc rates cfg year s = after_parse ts.
  Proof. intros H. unfold pipeline, after_parse. rewrite H. reflexivity. Qed.
  Theorem pipeline_same_parse s s' : parse vc s = parse vc s' -> pipeline vc rates cfg year s = pipeline vc rates cfg year s'.
  Proof. intros H. unfold pipeline. rewrite H. reflexivity. Qed.
  Theorem pipeline_letter_case s s' : map upper s = map upper s' -> pipeline vc rates cfg year s = pipeline vc rates cfg year s'.
  Proof. intros H. apply pipeline_same_parse. apply parse_case_insensitive. exact H. Qed.

  (* a zero amount is zero pounds in any currency that has a rate, and in pounds *)
  Lemma q_of_dec_zero d : d_mant d = 0%N -> q_of_dec d = 0%Qc.
  Proof. intros H. unfold q_of_dec. rewrite H. apply Qc_is_canon. reflexivity. Qed.

  Lemma zero_to_gbp d m v : is_zero_money m = true -> amount_to_gbp rates d (amt_of_money m) = inr v -> v = 0%Qc.
  Proof.
    unfold is_zero_money. intros Hz. apply N.eqb_eq in Hz. unfold amount_to_gbp, amt_of_money. cbn [am_cur am_val].
    rewrite (q_of_dec_zero _ Hz). destruct (is_gbp (m_cur m)); [intros H; injection H as <-; reflexivity|].
    destruct (lookup rates (m_cur m, dy d, dm d)) as [r|]; [|discriminate]. intros H. injection H as <-.
    unfold Qcdiv. apply Qcmult_0_l.
  Qed.
  Lemma norm_money_to_gbp d m v : amount_to_gbp rates d (amt_of_money m) = inr v -> amount_to_gbp rates d (amt_of_money (norm_money m)) = inr v.
  Proof.
    intros H. unfold norm_money. destruct (is_zero_money m) eqn:Hz; [|exact H].
    rewrite (zero_to_gbp d m v Hz H). reflexivity.
  Qed.

  Lemma op_norm_to_gbp d o o' : op_to_gbp rates d (op_of_dop o) = inr o' -> op_to_gbp rates d (op_of_dop (norm_op o)) = inr o'.
  Proof.
    assert (two : forall (a b : money) (k : Qc -> Qc -> op Qc),
      match amount_to_gbp rates d (amt_of_money a) with inl e => inl e | inr x => match amount_to_gbp rates d (amt_of_money b) with inl e => inl e | inr y => inr (k x y) end end = inr o' ->
      match amount_to_gbp rates d (amt_of_money a) with inl e => inl e | inr x => match amount_to_gbp rates d (amt_of_money (norm_money b)) with inl e => inl e | inr y => inr (k x y) end end = inr o').
    { intros a b k. destruct (amount_to_gbp rates d (amt_of_money a)) as [e|x]; [discriminate|].
      destruct (amount_to_gbp rates d (amt_of_money b)) as [e|y] eqn:E2; [discriminate|]. rewrite (norm_money_to_gbp d b y E2). intros H; exact H. }
    destruct o as [q p f|q p f|tv tx|q p f|q p f|r|r]; cbn [op_of_dop norm_op op_to_gbp]; try (intros H; exact H).
    - exact (two p f (fun x y => Buy (q_of_dec q) x y)).
    - exact (two p f (fun x y => Sell (q_of_dec q) x y)).
    - exact (two tv tx (fun x y => Dividend x y)).
    - exact (two p f (fun x y => Accumulation (q_of_dec q) x y)).
    - exact (two p f (fun x y => CapReturn (q_of_dec q) x y)).
  Qed.

  Lemma txn_norm_to_gbp t g : txn_to_gbp rates (fx_of_dtxn t) = inr g -> txn_to_gbp rates (fx_of_dtxn (norm_txn t)) = inr g.
  Proof.
    unfold txn_to_gbp, fx_of_dtxn, norm_txn. cbn [ft_date ft_op ft_tick x_date x_tick x_op].
    destruct (op_to_gbp rates (x_date t) (op_of_dop (x_op t))) as [e|o'] eqn:E; [discriminate|].
    rewrite (op_norm_to_gbp _ _ _ E). intros H; exact H.
  Qed.
  Lemma ledger_norm_to_gbp ts l : ledger_to_gbp rates (map fx_of_dtxn ts) = inr l -> ledger_to_gbp rates (map fx_of_dtxn (map norm_txn ts)) = inr l.
  Proof.
    revert l. induction ts as [|t r IH]; intros l; cbn [map ledger_to_gbp]; [intros H; exact H|].
    destruct (txn_to_gbp rates (fx_of_dtxn t)) as [e|g] eqn:E; [discriminate|]. rewrite (txn_norm_to_gbp t g E).
    destruct (ledger_to_gbp rates (map fx_of_dtxn r)) as [e|gs] eqn:Er; [discriminate|].
    rewrite (IH gs eq_refl). intros H; exact H.
  Qed.

  (* C14's last sentence in the models: when the list's own amounts convert, its DSL rendering and its JSON rendering give the list's own report *)
  Theorem renderings_same_report ts l :
    Forall (wf_txn vc) ts -> Forall (jwf_txn vc) ts -> ledger_to_gbp rates (map fx_of_dtxn ts) = inr l ->
    pipeline vc rates cfg year (print_txns ts) = after_parse ts /\
    (exists back, read_txns vc (map to_json ts) = JOk back /\ after_parse back = after_parse ts).
  Proof.
    intros H1 H2 Hl. split.
    - rewrite (pipeline_of_parse _ _ (parse_print vc ts H1)). unfold after_parse. rewrite (ledger_norm_to_gbp ts l Hl), Hl. reflexivity.
    - exists ts. split; [exact (json_list_roundtrip vc ts H2)|reflexivity].
  Qed.
End P.
