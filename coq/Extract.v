(* Extraction of the executable model to OCaml.  ExtrOcamlBasic only:
   bool, option, unit, list, prod, sumbool, sumor map to OCaml's; every number and
   string type stays the extracted inductive.  No Extract Constant. *)
From Coq Require Import Extraction ExtrOcamlBasic.
Require Import CGT.Model.Num CGT.Model.Date CGT.Model.Ledger CGT.Model.Match CGT.Model.Agg
               CGT.Model.Report CGT.Model.Config CGT.Model.Dsl CGT.Model.Json CGT.Model.Cli CGT.Model.Mcp CGT.Model.McpTools CGT.Model.Fmt CGT.Model.Schwab CGT.Model.Fx CGT.Model.Pipeline CGT.Model.Validate.
Extraction Language OCaml.
Extraction "model.ml" P0 report_of y_taxable y_count days_of_civil civil_of_days valid_date
  tax_year_of_days in_range round_half_away round_half_even days_of_tick run d_gain d_cost
  Dsl.parse Dsl.print_txns Dsl.show_txn Dsl.norm_txn Dsl.print_dec Dsl.parse_dec
  Json.to_json Json.read_txns
  Cli.report_cmd Cli.parse_cmd Cli.convert_cmd
  McpTools.parse_input McpTools.calculate_tool McpTools.explain_tool McpTools.trim
  Fmt.format_gbp Fmt.read_pence Fmt.trim_decimal Fmt.format_date Fmt.format_tax_year Fmt.json_money
  Schwab.convert lookback0 Schwab.get_fmv Schwab.build_awards Schwab.parse_amount Schwab.parse_schwab_date
  Fx.ledger_to_gbp Fx.load_with_overrides Fx.lookup Pipeline.pipeline
  Validate.error_lines Validate.has_errors.
