#!/usr/bin/env python3
"""Writes MANIFEST.json from the registry (so that it is always valid and current)."""
import json, os, sys
sys.path.insert(0, os.path.dirname(os.path.abspath(__file__)))
from vlib import registry
ROOT = os.path.abspath(os.path.join(os.path.dirname(__file__), ".."))
TEXT = json.load(open(os.path.join(ROOT, "tools", "manifest_text.json")))
allp = [json.loads(l)["id"] for l in open(os.path.join(ROOT, "properties.jsonl"))]
checks = []
for pid in allp:
    if pid not in registry.PROPS: continue
    t = TEXT[pid]
    checks.append({
        "property_id": pid,
        "quick_cmd": "./check %s --tier quick" % pid,
        "thorough_cmd": "./check %s --tier thorough" % pid,
        "evidence_file": "/verif/evidence/%s.json" % pid,
        "replay_cmd_template": "./check %s --replay {path}" % pid,
        "engine": "coq-model-correspondence",
        "level_claimed": {"category": "proof", "text": t["text"], "design_ref": t["design_ref"]},
        "level_note": t["note"],
        "technique": t["technique"],
    })
na = [{"property_id": p, "reason": TEXT.get("_not_claimed", {}).get(p, "not claimed at this commit: theorem file and correspondence check not yet wired into ./check (work in progress, see DESIGN.md section 13)")}
      for p in allp if p not in registry.PROPS]
m = {
    "version": 1,
    "setup_cmd": "./check --setup",
    "hooks": {"guard": "cargo feature verif-hooks (crate cgt-formatter-pdf)", "enable": "harness depends on cgt-formatter-pdf with features=[\"verif-hooks\"]; used by ./check C17 (harness_pdf) only",
              "baseline_off_cmd": "cd /repo && cargo test --workspace --no-fail-fast --offline", "source_commits": ["6d9d2c4"], "add_only": True},
    "engines": [{"name": "coq-model-correspondence", "path": "/verif/check", "serves_properties": [c["property_id"] for c in checks],
                 "kind_free_text": "hand-written executable Gallina model (coq/Model), theorems per property (coq/Props) checked by coqc with Print Assumptions audit, model extracted to OCaml and compared with the Rust library built from /repo's working tree on generated inputs; code-only property oracles locate failing inputs"}],
    "checks": checks,
    "not_applicable": na,
    "notes": "See DESIGN.md. Known findings are in known_findings.json; fixes to /repo are 'fix:' commits listed there.",
}
json.dump(m, open(os.path.join(ROOT, "MANIFEST.json"), "w"), indent=1)
print("MANIFEST.json: %d checks, %d not claimed" % (len(checks), len(na)))
