#!/bin/bash
# usage: seedtest.sh <patch.diff> <pid>...   -- apply a seeded change to /repo, run the checks, undo.
patch="$1"; shift
cd /repo || exit 2
if ! git diff --quiet; then echo "/repo has uncommitted changes"; exit 2; fi
trap 'git -C /repo checkout -- . ; echo "[seedtest] /repo restored"' EXIT
git apply "$patch" || { echo "patch does not apply"; exit 2; }
cd /verif
for p in "$@"; do
  echo "=== $p"
  ./check "$p" > /tmp/seedtest_$p.log 2>&1; rc=$?
  echo "exit=$rc"; grep -E "^VIOLATION|^KNOWN" /tmp/seedtest_$p.log | cut -c1-200 | head -5
  grep -A1 "^VIOLATION" /tmp/seedtest_$p.log | grep -v "^VIOLATION\|^--" | cut -c1-300 | head -3
done
