#!/bin/bash
# usage: check_all_scratch.sh <checkout> <scratch-dir> [jobs]  -- every quick check against another checkout in scratch mode (see build.py), a few at a time.
# Prints one line per property.  For trying the machinery on behaviour-preserving refactorings (no line may say viol>0) and on seeded changes.
wt="$1"; vs="$2"; J="${3:-4}"; cd /verif || exit 2
mkdir -p "$vs"
VERIF_REPO="$wt" VERIF_SCRATCH="$vs" ./check --setup > "$vs/setup.log" 2>&1 || { echo "setup failed: $(tail -3 $vs/setup.log)"; }
run() { p=$1; s=$(date +%s); VERIF_REPO="$wt" VERIF_SCRATCH="$vs" ./check $p > "$vs/$p.log" 2>&1; rc=$?; echo "$p exit=$rc $(( $(date +%s) - s ))s viol=$(grep -c '^VIOLATION' $vs/$p.log) nofail=$(grep -c 'no-failing-input-found' $vs/$p.log) known=$(grep -c '^KNOWN' $vs/$p.log)"; }
export -f run; export wt vs
printf "%s\n" C01 C02 C03 C04 C05 C06 C07 C08 C09 C10 C11 C12 C13 C14 C15 C16 C17 C18 C19 C20 | xargs -P "$J" -I{} bash -c 'run {}'
