#!/bin/bash
# usage: refactor_regress.sh [name ...]  -- every kept behaviour-preserving refactoring (refactors/*/patch.diff, made by agents asked to change
# nothing observable; suite green) is applied to a scratch worktree of /repo's HEAD and all twenty quick checks are run on it in scratch mode.
# No line may report a violation: an alarm here is a false alarm of the machinery.
cd /verif || exit 2
names="$@"; [ -z "$names" ] && names=$(ls refactors)
for n in $names; do
  wt=/tmp/rr_wt_$n; vs=/tmp/rr_vs_$n
  rm -rf $wt $vs; git -C /repo worktree prune; git -C /repo worktree add --detach $wt HEAD >/dev/null 2>&1 || { echo "$n: cannot create worktree"; continue; }
  if ! git -C $wt apply /verif/refactors/$n/patch.diff 2>/dev/null; then echo "$n: patch does not apply"; git -C /repo worktree remove --force $wt; continue; fi
  bash tools/check_all_scratch.sh $wt $vs 5 2>&1 | sort | sed "s/^/$n: /"
  grep -o "'fallbacks': \[[^]]*\]" $vs/setup.log | sed "s/^/$n: translator /"
  git -C /repo worktree remove --force $wt; rm -rf $vs
done
