#!/bin/bash
# run every registered check with several seeds on the unchanged tree; print any VIOLATION
cd /verif
for sd in "$@"; do
  for p in $(python3 -c "import json;print(' '.join(c['property_id'] for c in json.load(open('MANIFEST.json'))['checks']))"); do
    out=$(VERIF_SEED=$sd ./check $p 2>&1); rc=$?
    n=$(echo "$out" | grep -c "^VIOLATION")
    if [ "$rc" != "0" ] || [ "$n" != "0" ]; then echo "seed=$sd $p rc=$rc violations=$n"; echo "$out" | grep -A1 "^VIOLATION" | cut -c1-300 | head -6; fi
  done
done
echo "sweep done: $@"
