#!/bin/bash
# usage: seed_regress.sh [dir ...]  -- every kept seeded change (seeded/*/patch.diff) is applied to /repo in turn, the checks named in its
# meta.json caught_by are run, and /repo is restored; prints one line per (seed, check): caught / MISSED / patch does not apply.
cd /verif || exit 2
dirs="$@"; [ -z "$dirs" ] && dirs=$(ls seeded)
for d in $dirs; do
  checks=$(python3 -c "
import json,re
c=[re.match(r'C\d\d',x).group(0) for x in json.load(open('/verif/seeded/$d/meta.json')).get('caught_by',[]) if re.match(r'C\d\d',x)]
out=[]
[out.append(x) for x in c if x not in out]
print(' '.join(out[:2]))")
  [ -z "$checks" ] && { echo "$d: no caught_by recorded"; continue; }
  if ! git -C /repo diff --quiet; then echo "/repo has uncommitted changes"; exit 2; fi
  if ! git -C /repo apply --check /verif/seeded/$d/patch.diff 2>/dev/null; then
     if git -C /repo apply --3way --check /verif/seeded/$d/patch.diff 2>/dev/null; then git -C /repo apply --3way /verif/seeded/$d/patch.diff >/dev/null 2>&1; git -C /repo reset -q; else echo "$d: patch does not apply"; continue; fi
  else git -C /repo apply /verif/seeded/$d/patch.diff; fi
  for p in $checks; do
    ./check $p > /tmp/regress_${d}_$p.log 2>&1; rc=$?
    if [ $rc -eq 1 ] && grep -q "^VIOLATION property=$p" /tmp/regress_${d}_$p.log; then echo "$d: $p caught"; else echo "$d: $p MISSED (exit $rc)"; fi
  done
  git -C /repo checkout -- . ; git -C /repo clean -fdq crates 2>/dev/null
done
echo "[seed_regress] done; /repo status: $(git -C /repo status --short | wc -l) changed files"
