#!/usr/bin/env python3
"""Exploration helper (not a registered check): model vs code on fixtures and random ledgers."""
import sys, os, glob, random, collections
sys.path.insert(0, os.path.dirname(os.path.abspath(__file__)))
from vlib import ledger, run, compare, gen, build

def exemptions():
    r = run.run_harness([{"id": "cfg", "op": "config"}])["cfg"]
    return r["exemptions"]

def both(cases, ex, year=None):
    """cases: {id: lines}"""
    mcases = []; rcases = []
    for cid, lines in cases.items():
        ml = ["X %s %s" % (y, ledger.fr(v)) for y, v in ex.items()]
        if year is not None: ml.append("Y %d" % year)
        ml += ledger.model_lines(lines) + ["RUN report"]
        mcases.append((cid, ml))
        rcases.append({"id": cid, "op": "report", "dsl": ledger.render(lines), "year": year})
    return run.run_model(mcases), run.run_harness(rcases)

def diff_case(m, r):
    d = compare.compare_outcome(m, r)
    if d or not m["ok"]: return d
    return compare.compare_reports(compare.canon_model(m), compare.canon_rust(r["report"]))

if __name__ == "__main__":
    ex = exemptions()
    mode = sys.argv[1]
    cases = {}
    if mode == "fixtures":
        for p in sorted(glob.glob("/repo/tests/inputs/*.cgt")) + sorted(glob.glob("/verif/design-notes/repro/*.cgt")):
            try: ls = ledger.parse_simple(open(p).read())
            except Exception as e: print("skip", p, e); continue
            if not ledger.is_gbp(ls): print("skip-fx", os.path.basename(p)); continue
            cases[os.path.basename(p)] = ls
    else:
        rng = random.Random(int(sys.argv[2])); n = int(sys.argv[3]); kind = sys.argv[4] if len(sys.argv) > 4 else "mixed"
        for i in range(n): cases["r%d" % i] = gen.family(rng, kind)
    m, r = both(cases, ex)
    cnt = collections.Counter(); shown = 0
    for cid in cases:
        d = diff_case(m[cid], r[cid])
        k = "same-ok" if (not d and m[cid]["ok"]) else "same-err" if not d else "DIFF-" + d[0][0]
        cnt[k] += 1
        if d and shown < int(os.environ.get("SHOW", "6")):
            shown += 1
            print("==", cid, k); print(ledger.render(cases[cid]), end=""); print(d[:4])
    print(cnt)
