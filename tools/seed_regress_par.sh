#!/bin/bash
# usage: seed_regress_par.sh [-j N] [dir ...]  -- like seed_regress.sh but in scratch mode: N workers (default 4), each with its own worktree of
# /repo's HEAD under /tmp and its own VERIF_SCRATCH, apply the kept seeded changes in turn and run the checks named in meta.json caught_by.
# /repo itself is not touched.  Prints one line per (seed, check): caught / MISSED / patch does not apply.  Worktrees and scratch dirs are removed at the end.
cd /verif || exit 2
N=4; if [ "$1" = "-j" ]; then N=$2; shift 2; fi
dirs="$@"; [ -z "$dirs" ] && dirs=$(ls seeded)
dirs=($dirs)
worker() {
  i=$1; wt=/tmp/sr_wt$$_$i; vs=/tmp/sr_vs$$_$i
  rm -rf $wt; git -C /repo worktree prune; git -C /repo worktree add --detach $wt HEAD >/dev/null 2>&1 || { echo "worker $i: cannot create worktree"; return; }
  mkdir -p $vs
  k=0
  for d in "${dirs[@]}"; do
    k=$((k+1)); [ $(( (k - 1) % N )) -eq $((i - 1)) ] || continue
    checks=$(python3 -c "
import json,re
c=[re.match(r'C\d\d',x).group(0) for x in json.load(open('/verif/seeded/$d/meta.json')).get('caught_by',[]) if re.match(r'C\d\d',x)]
out=[]
[out.append(x) for x in c if x not in out]
print(' '.join(out[:2]))")
    [ -z "$checks" ] && { echo "$d: no caught_by recorded"; continue; }
    if ! git -C $wt apply --check /verif/seeded/$d/patch.diff 2>/dev/null; then
      if git -C $wt apply --3way --check /verif/seeded/$d/patch.diff 2>/dev/null; then git -C $wt apply --3way /verif/seeded/$d/patch.diff >/dev/null 2>&1; git -C $wt reset -q; else echo "$d: patch does not apply"; continue; fi
    else git -C $wt apply /verif/seeded/$d/patch.diff; fi
    for p in $checks; do
      VERIF_REPO=$wt VERIF_SCRATCH=$vs ./check $p > /tmp/regress_${d}_$p.log 2>&1; rc=$?
      if [ $rc -eq 1 ] && grep -q "^VIOLATION property=$p" /tmp/regress_${d}_$p.log; then echo "$d: $p caught"; else echo "$d: $p MISSED (exit $rc)"; fi
    done
    git -C $wt checkout -- . ; git -C $wt clean -fdq crates 2>/dev/null
  done
  git -C /repo worktree remove --force $wt; rm -rf $vs
}
for i in $(seq 1 $N); do worker $i & done
wait
echo "[seed_regress_par] done"
