"""C18 (Schwab conversion keeps every relevant row, emits valid DSL) and C19 (RSU vest lookup)."""
import json, re, os, datetime, binascii, itertools, subprocess, shutil
from fractions import Fraction as F
from collections import Counter, defaultdict
from . import run, build, compare, ledger
from .props_ledger2 import load_known_text

def hx(s): return "x" + binascii.hexlify(s.encode("utf-8")).decode()
def opt(v): return "-" if v is None else hx(v)

KEYS = ["Action", "Date", "Symbol", "Description", "Quantity", "Price", "Fees & Comm", "Amount"]
def driver_rows(rows):
    out = []
    for r in rows:
        fs = [r.get(k) if isinstance(r.get(k), str) else None for k in KEYS]
        out.append("ROW " + " ".join(opt(f) for f in fs))
    return out
def driver_awards(aw):
    if aw is None: return []
    out = ["AWARDS"]
    for a in aw["Transactions"]:
        for d in a.get("TransactionDetails", []):
            x = d["Details"]
            out.append("AD %s %s %s" % (opt(x.get("FairMarketValuePrice")), opt(x.get("VestDate")), opt(x.get("VestFairMarketValue"))))
        out.append("AW %s %s %s" % (hx(a["Date"]), opt(a.get("Action")), hx(a["Symbol"])))
    return out

def both(cases):
    """cases: {id: (rows, awards|None)}"""
    mc = [(cid, driver_rows(rows) + driver_awards(aw) + ["RUN schwab"]) for cid, (rows, aw) in cases.items()]
    rc = []
    for cid, (rows, aw) in cases.items():
        c = {"id": cid, "op": "schwab", "transactions_json": json.dumps({"BrokerageTransactions": rows})}
        if aw is not None: c["awards_json"] = json.dumps(aw)
        rc.append(c)
    return run.run_model(mc), run.run_harness(rc)

# ---------------- generators ----------------
SYMS = ["XYZ", "ACME", "vti", "Foo1", "BAR"]
DESCS = ["d", "ACME CORP", "quote \" here", "hash # inside", "tab\there", "line1\nline2", "cr\rlf\r\n2021-01-01 BUY EVIL 1 @ 1", "unicode € é", "", "  padded  "]
NONCGT = ["Adjustment", "Credit Interest", "Journal", "Misc Cash Entry", "MoneyLink Transfer", "Service Fee", "Wire Funds Adj", "Wire Sent"]
DIVS = ["Cash Dividend", "Qualified Dividend", "Short Term Cap Gain", "Long Term Cap Gain"]
def usd(rng, v, neg=False):
    s = "{:,.2f}".format(v) if rng.random() < 0.7 else str(v)
    return ("-$" if neg else "$") + s if rng.random() < 0.8 else (("-" if neg else "") + s)
def us_date(rng, d):
    s = d.strftime("%m/%d/%Y")
    r = rng.random()
    if r < 0.1: s = "%d/%d/%d" % (d.month, d.day, d.year)
    if r > 0.85:
        later = d + datetime.timedelta(days=rng.randint(1, 3))
        s = later.strftime("%m/%d/%Y") + " as of " + s
    elif r > 0.8: s = "as of " + s
    return s
def blank(rng): return rng.choice(["", None, "--", "MISSING"])
def mk(rng, action, d, sym, **kw):
    r = {"Action": action, "Date": us_date(rng, d), "Symbol": sym, "Description": rng.choice(DESCS)}
    for k in ("Quantity", "Price", "Fees & Comm", "Amount"):
        v = kw.get(k, blank(rng))
        if v == "MISSING": continue
        r[k] = v
    return r

def gen_export(rng, n=None, with_rsu=False, hostile=0.05):
    rows = []; base = datetime.date(rng.randint(2019, 2024), rng.randint(1, 12), rng.randint(1, 28))
    sells = []
    awards = None; aw_tx = []
    for i in range(n or rng.randint(2, 12)):
        d = base + datetime.timedelta(days=rng.choice([0, 0, 1, 3, 10, 40]) * rng.randint(0, 4)); sym = rng.choice(SYMS)
        r = rng.random()
        q = rng.choice([1, 10, 2.5, 100, 0.125]); p = rng.choice([1.5, 100, 1234.56, 0.01, 20.125])
        fee = rng.choice([None, 0.5, 4.95, 0])
        feev = blank(rng) if fee is None else usd(rng, fee)
        if r < 0.25: rows.append(mk(rng, "Buy", d, sym, Quantity=str(q), Price=usd(rng, p), **{"Fees & Comm": feev, "Amount": usd(rng, q * p, True)}))
        elif r < 0.45:
            row = mk(rng, "Sell", d, sym, Quantity=str(q), Price=usd(rng, p), **{"Fees & Comm": feev, "Amount": usd(rng, q * p)})
            rows.append(row); sells.append(row)
            if rng.random() < 0.2: rows.append(dict(row))       # duplicate row
        elif r < 0.52 and sells:
            s = rng.choice(sells); c = dict(s); c["Action"] = "Cancel Sell"
            if rng.random() < 0.2: c["Price"] = "$9.99"          # matches nothing
            rows.insert(rng.randint(0, len(rows)), c)
        elif r < 0.68:
            amt = rng.choice([50, 12.34, 0.5, 1000])
            rows.append(mk(rng, rng.choice(DIVS), d, sym, Amount=rng.choice([usd(rng, amt), usd(rng, amt, True)] + ([blank(rng)] if rng.random() < 0.1 else []))))
            if rng.random() < 0.6:
                td = d if rng.random() < 0.8 else d + datetime.timedelta(days=1)
                rows.append(mk(rng, rng.choice(["NRA Tax Adj", "NRA Withholding"]), td, rng.choice([sym, sym, ""]), Amount=usd(rng, amt * 0.15, rng.random() < 0.8)))
                if rng.random() < 0.3: rows.append(mk(rng, "NRA Tax Adj", td, sym, Amount=usd(rng, 1.25, True)))
        elif r < 0.74: rows.append(mk(rng, "Stock Split", d, sym))
        elif r < 0.84: rows.append(mk(rng, rng.choice(NONCGT), d, rng.choice([sym, ""]), Amount=usd(rng, 5)))
        elif r < 0.92: rows.append(mk(rng, rng.choice(["Reinvest Shares", "Security Transfer", "Bond Interest", "buy", "SELL "]), d, rng.choice([sym, "", None]), Amount=usd(rng, 5)))
        elif with_rsu:
            rows.append(mk(rng, "Stock Plan Activity", d, sym, Quantity=str(rng.choice([10, 25, 7.5]))))
            vd = d - datetime.timedelta(days=rng.choice([0, 0, 1, 3, 7]))
            aw_tx.append({"Date": d.strftime("%m/%d/%Y"), "Action": rng.choice(["Deposit", "Lapse"]), "Symbol": rng.choice([sym, sym.lower(), sym.upper()]),
                          "TransactionDetails": [{"Details": {"VestDate": vd.strftime("%m/%d/%Y"), "VestFairMarketValue": usd(rng, rng.choice([100.5, 42, 1234.5678]))}}]})
        else:
            rows.append(mk(rng, "Buy", d, sym, Quantity=str(q), Price=usd(rng, p)))
        if r < 0.45 and r >= 0.25 and rng.random() < 0.15:
            # equal fills corrected together: k identical Sell rows and 2..k identical Cancel Sell rows, anywhere in the file
            k = rng.choice([2, 3]); row = rows[-1]
            for _ in range(k - 1): rows.insert(rng.randint(0, len(rows)), dict(row))
            for _ in range(rng.randint(2, k)):
                c = dict(row); c["Action"] = "Cancel Sell"; rows.insert(rng.randint(0, len(rows)), c)
        if rng.random() < hostile:
            rows[-1][rng.choice(["Date", "Quantity", "Price", "Amount", "Symbol", "Action"])] = rng.choice(["abc", "13/45/2020", "$1.2.3", "", None, "1e5", "02/30/2021"])
    if with_rsu: awards = {"Transactions": aw_tx}
    if rng.random() < 0.5: rng.shuffle(rows)
    return rows, awards

def clean_amount(s):
    """Schwab spelling -> Fraction or None; raises on spellings outside the plain family"""
    if not isinstance(s, str): return None
    t = s.strip()
    if t in ("", "--"): return None
    t = t.replace("$", "").replace(",", "")
    if not re.fullmatch(r"-?\d+(\.\d+)?", t): raise ValueError(s)
    return F(t)
def clean_date(s):
    t = s.strip()
    if " as of " in t: t = t.split(" as of ", 1)[1].strip()
    elif t.startswith("as of "): t = t[6:]
    m = re.fullmatch(r"(\d{1,2})/(\d{1,2})/(\d{1,4})", t)
    if not m: raise ValueError(s)
    return datetime.date(int(m.group(3)), int(m.group(1)), int(m.group(2)))

def expected_trades(rows):
    """multiset of (date, SYMBOL, kind, qty, price, fees) the property demands, for an export without RSU rows;
    None when some relevant row is malformed (then the converter may refuse)"""
    buys = []; sells = []; cancels = []
    try:
        for r in rows:
            a = (r.get("Action") or "").strip()
            if a not in ("Buy", "Sell", "Cancel Sell"): continue
            d = clean_date(r["Date"]); sym = r["Symbol"].strip().upper()
            q = clean_amount(r.get("Quantity")); p = clean_amount(r.get("Price")); f = clean_amount(r.get("Fees & Comm")) or F(0)
            if q is None or p is None or not sym: return None
            if a == "Buy": buys.append((d, sym, "BUY", q, p, f if f > 0 else F(0)))
            elif a == "Sell": sells.append((d, sym, "SELL", q, p, f if f > 0 else F(0)))
            else: cancels.append((d, sym, q, p))
    except (ValueError, KeyError, AttributeError):
        return None
    unmatched = 0
    for c in cancels:
        i = next((i for i, s in enumerate(sells) if (s[0], s[1], s[3], s[4]) == c), None)
        if i is None: unmatched += 1
        else: sells.pop(i)
    return Counter(buys + sells), unmatched

def trades_of(txns):
    out = []
    for t in txns:
        p = t.split("|")
        if p[2] in ("BUY", "SELL"):
            out.append((datetime.date.fromisoformat(p[0]), p[1], p[2], F(p[3]), F(p[4]), F(p[6])))
    return Counter(out)
def dividends_of(txns):
    tot = defaultdict(lambda: [F(0), F(0)])
    for t in txns:
        p = t.split("|")
        if p[2] == "DIVIDEND":
            k = (datetime.date.fromisoformat(p[0]), p[1]); tot[k][0] += F(p[3]); tot[k][1] += F(p[5])
    return {k: tuple(v) for k, v in tot.items()}

def expected_dividends(rows):
    try:
        tot = defaultdict(lambda: [F(0), F(0)]); tax = defaultdict(lambda: F(0)); days_with_div = set()
        for r in rows:
            a = (r.get("Action") or "").strip()
            if a in DIVS:
                amt = clean_amount(r.get("Amount"))
                if amt is None: continue
                k = (clean_date(r["Date"]), r["Symbol"].strip()); tot[(k[0], k[1].upper())][0] += abs(amt); days_with_div.add(k)
            elif a in ("NRA Tax Adj", "NRA Withholding"):
                amt = clean_amount(r.get("Amount")); sym = (r.get("Symbol") or "").strip() if isinstance(r.get("Symbol"), str) else ""
                if amt is None or not sym: continue
                tax[(clean_date(r["Date"]), sym)] += abs(amt)
        orphans = 0
        for k, v in tax.items():
            if k in days_with_div: tot[(k[0], k[1].upper())][1] += v
            else: orphans += 1
        return {k: tuple(v) for k, v in tot.items()}, orphans
    except (ValueError, KeyError, AttributeError):
        return None

def simple_symbols(rows):
    return all(isinstance(r.get("Symbol"), str) and re.fullmatch(r"[A-Za-z0-9]+", r["Symbol"].strip() or "x") for r in rows
               if (r.get("Action") or "").strip() in ("Buy", "Sell", "Cancel Sell", "Stock Plan Activity") + tuple(DIVS))

def cli_convert_same(ctx, cases, r):
    """`cgt-tool convert schwab` prints what the library converter returns (timestamp line apart), warnings on stderr, for a sample of the exports"""
    root = os.path.join(build.CACHE, "run", "c18cli-%d" % os.getpid()); shutil.rmtree(root, ignore_errors=True); os.makedirs(root)
    try:
        for cid in list(cases)[:ctx.n(40, 600)]:
            rows, aw = cases[cid]; lib = r[cid]
            wd = os.path.join(root, cid); os.makedirs(wd)
            open(os.path.join(wd, "tx.json"), "w").write(json.dumps({"BrokerageTransactions": rows}))
            args = ["convert", "schwab", "tx.json"]
            if aw is not None: open(os.path.join(wd, "aw.json"), "w").write(json.dumps(aw)); args += ["--awards", "aw.json"]
            p = subprocess.run([build.CLI] + args, cwd=wd, stdout=subprocess.PIPE, stderr=subprocess.PIPE, text=True, env=dict(build.ENV, HOME=wd), timeout=120)
            ctx.evaluations += 1; ctx.count("cli_convert_exit", p.returncode)
            body = "\n".join(l for l in p.stdout.split("\n") if not l.startswith("# Converted: ")).rstrip("\n")
            bad = None
            if lib.get("ok") != (p.returncode == 0): bad = "library %s, command exit %d: %s" % ("accepts" if lib.get("ok") else "refuses (%s)" % lib.get("kind"), p.returncode, p.stderr[-160:])
            elif lib.get("ok") and body != lib["content"].rstrip("\n"): bad = "output differs"
            elif lib.get("ok") and p.stderr.count("WARNING:") != len(lib.get("warnings", [])): bad = "%d warnings on stderr, the library returns %d" % (p.stderr.count("WARNING:"), len(lib.get("warnings", [])))
            if bad:
                ctx.violation("`cgt-tool convert schwab` does not deliver what the library converter returns: %s" % bad,
                              {"rows": rows, "awards": aw, "cli_stdout": p.stdout[-1200:], "cli_stderr": p.stderr[-400:], "library": lib}, found_input=True); return
    finally:
        shutil.rmtree(root, ignore_errors=True)

def kf_cancel_sell_ambiguous_fees(rows):
    """D21: for some (date, symbol, quantity, price) there are fewer Cancel Sell rows than Sell rows and those sells differ in fees"""
    sells = {}; cancels = Counter()
    try:
        for r in rows:
            a = (r.get("Action") or "").strip()
            if a not in ("Sell", "Cancel Sell"): continue
            key = (clean_date(r["Date"]), r["Symbol"].strip().upper(), clean_amount(r.get("Quantity")), clean_amount(r.get("Price")))
            if a == "Sell":
                f = clean_amount(r.get("Fees & Comm")) or F(0)
                sells.setdefault(key, []).append(f if f > 0 else F(0))
            else: cancels[key] += 1
    except (ValueError, KeyError, AttributeError):
        return False
    return any(0 < cancels[k] < len(fs) and len(set(fs)) > 1 for k, fs in sells.items())

def cancel_fee_probe(ctx):
    """the reproducer of D21 on every run: the same four rows in two orders"""
    import os
    pa, pb = (os.path.join(build.ROOT, "corpus", "d21_cancel_fees_order_%s.json" % x) for x in "ab")
    if not (os.path.exists(pa) and os.path.exists(pb)): return
    cases = {x: (json.load(open(p))["BrokerageTransactions"], None) for x, p in (("a", pa), ("b", pb))}
    _, vr = both_code(cases); ctx.evaluations += 2
    a, b = vr["a"], vr["b"]
    def sem(t): return (trades_of(t), dividends_of(t))
    if a.get("ok") and b.get("ok") and sem(a["txns"]) != sem(b["txns"]):
        kt = load_known_text("C18", "kf_cancel_sell_ambiguous_fees")
        if kt: ctx.known(kt)
        else: ctx.violation("order of rows changes the conversion (a Cancel Sell among sells that differ only in fees)", {"rows": cases["a"][0], "permuted": cases["b"][0], "code_base": a, "code_permuted": b}, found_input=True)

def k_c18(ctx):
    cancel_fee_probe(ctx)
    rng = ctx.rng
    cases = {}
    for i in range(ctx.n(1200, 30000)):
        cases["e%d" % i] = gen_export(rng, with_rsu=(i % 5 == 0), hostile=0.04 if i % 3 == 0 else 0)
    m, r = both(cases)
    cli_convert_same(ctx, cases, r)
    variants = {}
    for cid, (rows, aw) in cases.items():
        ctx.evaluations += 1; ctx.traces += 1
        mm, rr = m[cid], r[cid]
        for row in rows: ctx.count("action", (row.get("Action") or "(none)").strip() if isinstance(row.get("Action"), str) else "(none)")
        ctx.count("code_outcome", "ok" if rr.get("ok") else rr.get("kind"))
        ctx.nontrivial.add(json.dumps(rows, sort_keys=True))
        ctx.sample({"id": cid, "rows": rows[:3], "awards": aw and aw["Transactions"][:1]}, limit=3)
        if not mm.get("ok") and mm.get("kind") == "Unsupported":
            ctx.count("model_unsupported_spelling", 1); continue
        # ---- oracle on the code alone
        bad = None
        if rr.get("ok"):
            if simple_symbols(rows) and not rr.get("parses"):
                bad = ("valid_dsl", "converter output is not valid DSL: %s" % (rr.get("parse_error") or "")[:200])
            elif rr.get("parses"):
                tx = rr["txns"]
                dates = [t.split("|")[0] for t in tx]
                if dates != sorted(dates): bad = ("chronological", "converted lines are not in date order: %s" % dates[:6])
                exp = expected_trades(rows) if aw is None and not any((x.get("Action") or "").strip() == "Stock Plan Activity" for x in rows if isinstance(x.get("Action"), str)) else None
                if bad is None and exp is not None:
                    want, unmatched = exp
                    got = trades_of(tx)
                    if got != want:
                        diff = (got - want) + (want - got)
                        bad = ("rows_conserved", "BUY/SELL lines differ from the Buy/Sell rows less cancelled sells: %s" % [tuple(map(str, k)) for k in list(diff)[:3]])
                ed = expected_dividends(rows)
                if bad is None and ed is not None:
                    want, orphans = ed
                    got = dividends_of(tx)
                    if got != want:
                        bad = ("dividend_totals", "dividend/withholding totals per day and symbol differ: got %s want %s" % ({str(k): tuple(map(str, v)) for k, v in list(got.items())[:2]}, {str(k): tuple(map(str, v)) for k, v in list(want.items())[:2]}))
                    else:
                        # everything else is accounted for
                        other = sum(1 for x in rows if isinstance(x.get("Action"), str) and x["Action"].strip() and x["Action"].strip() not in ("Buy", "Sell", "Cancel Sell", "Stock Plan Activity", "NRA Tax Adj", "NRA Withholding") + tuple(DIVS))
                        if rr["skipped"] != other + orphans:
                            bad = ("accounted", "skipped count %d but %d rows are neither trades, dividends nor withholdings and %d withholdings have no dividend" % (rr["skipped"], other, orphans))
        if bad:
            ctx.disagreements_checked += 1
            ctx.violation("%s: %s" % bad, {"rows": rows, "awards": aw, "code": rr, "model": mm, "case_id": cid}, found_input=True); continue
        # ---- K
        kd = None
        if mm.get("ok") != rr.get("ok"): kd = "accept: model %s, code %s" % (mm.get("kind") or "ok", rr.get("kind") or "ok")
        elif not mm["ok"] and mm["kind"] != rr["kind"]: kd = "error kind: model %s, code %s (%s)" % (mm["kind"], rr["kind"], rr.get("error", "")[:100])
        elif mm["ok"]:
            ml = [binascii.unhexlify(h).decode("utf-8", "replace") for h in mm["lines_hex"]]
            rl = rr["content"].split("\n")
            if ml != rl:
                i = next((i for i, (a, b) in enumerate(zip(ml, rl)) if a != b), min(len(ml), len(rl)))
                kd = "output line %d: model %r, code %r" % (i, ml[i] if i < len(ml) else None, rl[i] if i < len(rl) else None)
            elif mm["warnings"] != len(rr["warnings"]): kd = "warnings: model %d, code %d %s" % (mm["warnings"], len(rr["warnings"]), rr["warnings"][:2])
            elif mm["skipped"] != rr["skipped"]: kd = "skipped: model %d, code %d" % (mm["skipped"], rr["skipped"])
        if kd:
            ctx.disagreements_checked += 1
            ctx.violation("correspondence K.C18.convert broken: %s" % kd, {"rows": rows, "awards": aw, "code": rr, "model": mm, "correspondence": "K.C18.convert", "case_id": cid}, found_input=False); continue
        # ---- variants for order independence and chunking (code only)
        if rr.get("ok") and rr.get("parses") and len(variants) < ctx.n(400, 6000):
            perm = list(rows); rng.shuffle(perm)
            variants[cid + "#perm"] = (perm, aw)
            try:
                ds = sorted({clean_date(x["Date"]) for x in rows})
                if len(ds) > 1:
                    cut = rng.choice(ds[1:])
                    a = [x for x in rows if clean_date(x["Date"]) < cut]; b = [x for x in rows if clean_date(x["Date"]) >= cut]
                    # withholdings dated a day after their dividend and lookback-dated RSUs make chunks interact; keep them whole
                    variants[cid + "#c1"] = (a, aw); variants[cid + "#c2"] = (b, aw)
            except Exception: pass
    if variants:
        _, vr = both_code(variants)
        for vid, (rows, aw) in variants.items():
            if not vid.endswith("#perm"): continue
            cid = vid[:-5]; base = r[cid]; ctx.evaluations += 1
            v = vr[vid]
            # the transactions as the property counts them: the multiset of trades, dividend and withholding totals per day and symbol
            def sem(txns): return (trades_of(txns), dividends_of(txns))
            if (not v.get("ok") or sem(v["txns"]) != sem(base["txns"])) and kf_cancel_sell_ambiguous_fees(cases[cid][0]) and load_known_text("C18", "kf_cancel_sell_ambiguous_fees"):
                ctx.known(load_known_text("C18", "kf_cancel_sell_ambiguous_fees")); ctx.count("order_dependence_of_known_class", 1)
            elif not v.get("ok") or sem(v["txns"]) != sem(base["txns"]):
                ctx.violation("order of rows changes the conversion: %s vs %s" % (sorted(v.get("txns", []))[:3], sorted(base["txns"])[:3]),
                              {"rows": cases[cid][0], "permuted": rows, "code_base": base, "code_permuted": v}, found_input=True)
            if cid + "#c1" in vr:
                a, b = vr[cid + "#c1"], vr[cid + "#c2"]; ctx.evaluations += 2
                if a.get("ok") and b.get("ok") and sem(a["txns"] + b["txns"]) != sem(base["txns"]):
                    ctx.violation("converting date-disjoint chunks differs from converting the whole", {"rows": cases[cid][0], "chunk1": variants[cid + "#c1"][0], "chunk2": variants[cid + "#c2"][0],
                                  "code_whole": base, "code_chunk1": a, "code_chunk2": b}, found_input=True)

def both_code(cases):
    rc = []
    for cid, (rows, aw) in cases.items():
        c = {"id": cid, "op": "schwab", "transactions_json": json.dumps({"BrokerageTransactions": rows})}
        if aw is not None: c["awards_json"] = json.dumps(aw)
        rc.append(c)
    return None, run.run_harness(rc)

# ---------------- C19 ----------------
def gen_awards_case(rng, exhaustive_offsets=None):
    sym = rng.choice(["ACME", "Xyz", "vti"])
    dep = rng.choice([datetime.date(2023, 1, 3), datetime.date(2024, 3, 2), datetime.date(2023, 12, 31), datetime.date(2024, 2, 29), datetime.date(2022, 7, 15)])
    dep = dep + datetime.timedelta(days=rng.randint(0, 3))
    offs = exhaustive_offsets if exhaustive_offsets is not None else sorted(rng.sample(range(-9, 3), rng.randint(0, 4)))
    aw = []
    for j, o in enumerate(offs):
        vd = dep + datetime.timedelta(days=o)
        fm = "%d.%02d" % (100 + 10 * (o + 9), j)
        kind = rng.random()
        details = {"VestDate": vd.strftime("%m/%d/%Y"), "VestFairMarketValue": "$" + fm}
        if kind < 0.25: details = {"FairMarketValuePrice": "$" + fm}        # fallback price keyed by the parent date
        if kind > 0.85: details["FairMarketValuePrice"] = "$1.11"           # both present: vest-specific wins
        parent = vd if "VestDate" not in details or rng.random() < 0.5 else vd + datetime.timedelta(days=rng.choice([0, 1, 4]))
        dets = [{"Details": details}]
        r2 = rng.random()
        if r2 < 0.2: dets.insert(0, {"Details": {"FairMarketValuePrice": "$7.77"}})        # a fallback-only detail listed first
        elif r2 < 0.3: dets.append({"Details": {"FairMarketValuePrice": "$8.88"}})         # ... or last
        elif r2 < 0.4: dets.append({"Details": {"VestDate": (vd - datetime.timedelta(days=rng.choice([1, 2, 9]))).strftime("%m/%d/%Y"), "VestFairMarketValue": "$55.5"}})   # two grants in one record
        elif r2 < 0.45: dets.insert(0, {"Details": {}})
        aw.append({"Date": parent.strftime("%m/%d/%Y"), "Action": rng.choice(["Deposit", "Lapse", "Sale", "Forced Quick Sell"]),
                   "Symbol": rng.choice([sym, sym.upper(), sym.lower()]), "TransactionDetails": dets})
    if rng.random() < 0.3: aw.append({"Date": dep.strftime("%m/%d/%Y"), "Action": rng.choice(["Wire Transfer", "Tax Withholding", "Forced Disbursement"]), "Symbol": sym, "TransactionDetails": []})
    if rng.random() < 0.2 and aw and aw[0]["TransactionDetails"]: aw.append(dict(aw[0], TransactionDetails=[{"Details": {"VestDate": aw[0]["TransactionDetails"][0]["Details"].get("VestDate", aw[0]["Date"]), "VestFairMarketValue": "$999.99"}}]))   # duplicate key, later wins
    if rng.random() < 0.3: aw.append({"Date": (dep - datetime.timedelta(days=2)).strftime("%m/%d/%Y"), "Action": "Deposit", "Symbol": "OTHER", "TransactionDetails": [{"Details": {"VestDate": (dep - datetime.timedelta(days=2)).strftime("%m/%d/%Y"), "VestFairMarketValue": "$5"}}]})
    rng.shuffle(aw) if rng.random() < 0.3 else None
    rows = [{"Action": "Stock Plan Activity", "Date": dep.strftime("%m/%d/%Y"), "Symbol": rng.choice([sym, sym.upper()]), "Description": "RS", "Quantity": "10", "Price": "", "Fees & Comm": "", "Amount": ""}]
    return rows, {"Transactions": aw}, dep, sym

def expected_fmv(aw, dep, sym):
    """independent statement of the rule: the entry for the symbol (case-insensitively) whose key date equals the deposit
    date or is the closest earlier date at most 7 days back; vest-specific value over fallback; later records win"""
    table = {}
    for a in aw["Transactions"]:
        parent = datetime.datetime.strptime(a["Date"], "%m/%d/%Y").date()
        ins = False; fb = None
        for d in a.get("TransactionDetails", []):
            x = d["Details"]
            if x.get("VestFairMarketValue") is not None:
                vd = datetime.datetime.strptime(x["VestDate"], "%m/%d/%Y").date() if x.get("VestDate") else parent
                v = clean_amount(x["VestFairMarketValue"])
                if v is not None:
                    table[(a["Symbol"].upper(), vd)] = v; ins = True
                    if fb is None: fb = (vd, v)
            elif x.get("FairMarketValuePrice") is not None:
                v = clean_amount(x["FairMarketValuePrice"])
                if v is not None and fb is None: fb = (parent, v)
        if not ins and fb: table[(a["Symbol"].upper(), fb[0])] = fb[1]
    for back in range(0, 8):
        k = (sym.upper(), dep - datetime.timedelta(days=back))
        if k in table: return k[1], table[k]
    return None

def k_c19(ctx):
    rng = ctx.rng
    cases = {}; meta = {}
    for i in range(ctx.n(1500, 20000)):
        rows, aw, dep, sym = gen_awards_case(rng); cases["a%d" % i] = (rows, aw); meta["a%d" % i] = (dep, sym)
    # exhaustive small scope: every subset of vest-day offsets {-9..+2} around one deposit date
    offs = list(range(-9, 3)); nsub = 0
    for mask in range(1 << len(offs)):
        if not ctx.thorough() and mask % 4 != 1 and mask != 0: continue
        sub = [o for b, o in enumerate(offs) if mask >> b & 1]
        rows, aw, dep, sym = gen_awards_case(rng, exhaustive_offsets=sub); cases["s%d" % mask] = (rows, aw); meta["s%d" % mask] = (dep, sym); nsub += 1
    ctx.count("offset_subsets", nsub)
    cases["noawards"] = (gen_awards_case(rng)[0], None); meta["noawards"] = (None, None)
    # several deposits of one symbol a few days apart (each is looked up on its own, whatever the row order)
    multi = {}
    for i in range(ctx.n(500, 6000)):
        rows, aw, dep, sym = gen_awards_case(rng, exhaustive_offsets=sorted(rng.sample(range(-9, 9), rng.randint(1, 5))))
        deps = [(dep, "10")]
        for j, dlt in enumerate(rng.sample([1, 2, 4, 5, 6, 8, -3], rng.randint(1, 2))):
            d2 = dep + datetime.timedelta(days=dlt); q = str(20 + 10 * j)
            rows.append(dict(rows[0], Date=d2.strftime("%m/%d/%Y"), Quantity=q)); deps.append((d2, q))
        order = rng.choice(["asc", "desc", "shuffle"])
        if order == "shuffle": rng.shuffle(rows)
        else: rows.sort(key=lambda r: clean_date(r["Date"]), reverse=(order == "desc"))
        ctx.count("multi_deposit_row_order", order)
        multi["m%d" % i] = (rows, aw, deps, sym)
    mm_, mr_ = both({k: (v[0], v[1]) for k, v in multi.items()})
    for cid, (rows, aw, deps, sym) in multi.items():
        ctx.evaluations += 1; ctx.traces += 1; rr = mr_[cid]; mdl = mm_[cid]
        exps = [(expected_fmv(aw, d, sym), q) for d, q in deps]
        bad = None
        if any(e is None for e, _ in exps):
            if rr.get("ok") or rr.get("kind") != "MissingFmv": bad = ("never_a_guess", "a deposit has no vest entry within 7 days back but the conversion %s" % ("succeeds" if rr.get("ok") else "fails with " + str(rr.get("kind"))))
        elif not rr.get("ok"): bad = ("lookup", "every deposit has a vest entry but the conversion fails: %s" % rr.get("error"))
        else:
            got = sorted((t.split("|")[0], str(F(t.split("|")[4])), str(F(t.split("|")[3]))) for t in rr["txns"] if "|BUY|" in t)
            want = sorted((e[0].isoformat(), str(e[1]), str(F(q))) for e, q in exps)
            if got != want: bad = ("lookup", "acquisitions (date, price, quantity) %s, expected %s" % (got, want))
        if bad:
            ctx.disagreements_checked += 1
            ctx.violation("%s: %s" % bad, {"rows": rows, "awards": aw, "code": rr, "model": mdl, "case_id": cid}, found_input=True); continue
        if mdl.get("ok") != rr.get("ok"):
            ctx.violation("correspondence K.C19.lookup broken: accept: model %s, code %s" % (mdl.get("kind") or "ok", rr.get("kind") or "ok"), {"rows": rows, "awards": aw, "code": rr, "model": mdl, "correspondence": "K.C19.lookup"}, found_input=False)
        elif mdl.get("ok"):
            ml = [binascii.unhexlify(h).decode("utf-8", "replace") for h in mdl["lines_hex"]]
            if ml != rr["content"].split("\n"):
                ctx.violation("correspondence K.C19.lookup broken: output differs: model %r, code %r" % (ml[-3:], rr["content"].split("\n")[-3:]), {"rows": rows, "awards": aw, "code": rr, "model": mdl, "correspondence": "K.C19.lookup"}, found_input=False)
    m, r = both(cases)
    for cid, (rows, aw) in cases.items():
        ctx.evaluations += 1; ctx.traces += 1
        mm, rr = m[cid], r[cid]; dep, sym = meta[cid]
        ctx.count("code_outcome", "ok" if rr.get("ok") else rr.get("kind"))
        ctx.nontrivial.add(json.dumps((rows, aw), sort_keys=True))
        ctx.sample({"id": cid, "rows": rows, "awards": aw and aw["Transactions"][:2]}, limit=3)
        bad = None
        if aw is None:
            if rr.get("ok") or rr.get("kind") != "MissingFmv" or rows[0]["Symbol"] not in rr.get("error", ""): bad = ("missing_awards", "RSU row without awards file: %s" % (rr.get("error") or "accepted"))
        else:
            exp = expected_fmv(aw, dep, sym)
            ctx.count("expected", "found" if exp else "missing")
            if exp is None:
                if rr.get("ok") or rr.get("kind") != "MissingFmv": bad = ("never_a_guess", "no vest entry within 7 days back but the conversion %s" % ("succeeds: %s" % rr.get("txns") if rr.get("ok") else "fails with " + str(rr.get("kind"))))
                elif rows[0]["Symbol"] not in rr.get("error", "") or dep.isoformat() not in rr.get("error", ""): bad = ("names_symbol_date", "error does not name symbol and date: %s" % rr.get("error"))
            else:
                if not rr.get("ok"): bad = ("lookup", "a vest entry dated %s exists but the conversion fails: %s" % (exp[0], rr.get("error")))
                else:
                    buys = [t.split("|") for t in rr["txns"] if "|BUY|" in t]
                    if len(buys) != 1 or buys[0][0] != exp[0].isoformat() or F(buys[0][4]) != exp[1]:
                        bad = ("lookup", "acquisition dated/priced %s, expected %s at %s" % ([b[0] + " @ " + b[4] for b in buys], exp[0], exp[1]))
        if bad:
            ctx.disagreements_checked += 1
            ctx.violation("%s: %s" % bad, {"rows": rows, "awards": aw, "code": rr, "model": mm, "case_id": cid}, found_input=True); continue
        kd = None
        if mm.get("ok") != rr.get("ok"): kd = "accept: model %s, code %s" % (mm.get("kind") or "ok", rr.get("kind") or "ok")
        elif not mm["ok"] and mm["kind"] != rr["kind"] and mm["kind"] != "Unsupported": kd = "error kind: model %s, code %s" % (mm["kind"], rr["kind"])
        elif mm["ok"]:
            ml = [binascii.unhexlify(h).decode("utf-8", "replace") for h in mm["lines_hex"]]
            if ml != rr["content"].split("\n"): kd = "output differs: model %r, code %r" % (ml[-2:], rr["content"].split("\n")[-2:])
        if kd:
            ctx.disagreements_checked += 1
            ctx.violation("correspondence K.C19.lookup broken: %s" % kd, {"rows": rows, "awards": aw, "code": rr, "model": mm, "correspondence": "K.C19.lookup", "case_id": cid}, found_input=False)
