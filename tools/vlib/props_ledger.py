"""Property checks C01-C04 (matching, share conservation, cost conservation, report arithmetic)."""
import datetime
from fractions import Fraction as F
from collections import defaultdict
from . import ledgerk as K, compare, ledger, gen, classes

TOLQ = F(1, 10**12)
TOLM = F(1, 10**9)

def case_diffs(lines, m, r, what):
    """K comparison of one case restricted to the observables in `what`.
    Returns (diffs, rust_canonical or None)."""
    if r.get("stage") == "parse":
        return [("harness", "generated ledger did not parse", r.get("error", "")[:200])], None
    out = compare.compare_outcome(m, r)
    acc = [d for d in out if d[0] in ("accept", "error")]
    if acc or not m["ok"] or not r["ok"]:
        return ([d for d in acc if d[0] in what]), None
    cm = compare.canon_model(m); cr = compare.canon_rust(r["report"])
    w = set(what)
    if "cost_if_no_events" in w and not classes.has_events(lines): w |= {"cost", "proceeds", "dgain"}
    exact = bool(w & {"legs", "holdings"}) and classes.residue_site(lines) is None
    diffs = compare.compare_reports(cm, cr, what=tuple(w), exact_qty=exact)
    if "dgain" in w:
        for ym, yr in zip(cm["years"], cr["years"]):
            for dm, dr in zip(ym["disposals"], yr["disposals"]):
                gm = sum(l["gain"] for l in dm["legs"]); gr = sum(l["gain"] for l in dr["legs"])
                if not compare.near(gm, gr): diffs.append(("dgain", ((dm["date"], dm["tick"]), float(gm)), float(gr)))
    return diffs, cr

def run_k(ctx, cases, what, oracle=None, k_decides=False, year=None, label="K"):
    """Run both sides on cases, compare, apply the code-only oracle.  Reports violations."""
    m, r = K.both(cases, year=year)
    for cid, lines in cases.items():
        ctx.evaluations += 1
        mm, rr = m[cid], r[cid]
        diffs, cr = case_diffs(lines, mm, rr, what)
        ctx.traces += 1
        ctx.count("outcome", "ok" if rr.get("ok") else ("panic" if rr.get("stage") == "panic" else "error:" + compare.classify_error(rr.get("error", ""))[0]))
        if mm["ok"] != rr.get("ok"): ctx.count("accept_mismatch(other property's observable)", compare.classify_error(rr.get("error", ""))[0] if mm["ok"] else "code-accepts")
        nt = K.stats(ctx, lines, cr)
        if nt or (not rr.get("ok") and rr.get("stage") == "calculate" and mm["ok"] is False):
            ctx.nontrivial.add(K.signature(lines))
        ctx.sample({"id": cid, "dsl": ledger.render(lines), "code_ok": rr.get("ok")})
        fails = []
        if oracle and cr is not None:
            fails = oracle(lines, cr, rr)
        if not diffs and not fails: continue
        ctx.disagreements_checked += 1
        handle(ctx, cid, lines, diffs, fails, what, oracle, k_decides, year, label)

def handle(ctx, cid, lines, diffs, fails, what, oracle, k_decides, year, label):
    obs = (fails[0][0] if fails else diffs[0][0])
    def still(cands):
        cs = {"s%d" % i: c for i, c in enumerate(cands)}
        m, r = K.both(cs, year=year)
        res = []
        for i, c in enumerate(cands):
            d, cr = case_diffs(c, m["s%d" % i], r["s%d" % i], what)
            f = oracle(c, cr, r["s%d" % i]) if (oracle and cr is not None) else []
            res.append(any(x[0] == obs for x in (f if fails else d)))
        return res
    small = K.shrink(lines, still)
    cs = {"x": small}
    m, r = K.both(cs, year=year)
    d2, cr2 = case_diffs(small, m["x"], r["x"], what)
    f2 = oracle(small, cr2, r["x"]) if (oracle and cr2 is not None) else []
    replay = {"input_dsl": ledger.render(lines), "shrunk_dsl": ledger.render(small), "year": year,
              "model": m["x"], "code": r["x"], "k_diffs": [list(map(str, x)) for x in d2[:6]], "oracle_failures": [list(map(str, x)) for x in f2[:6]],
              "correspondence": "%s.%s.%s" % (label, ctx.pid, obs), "case_id": cid}
    if f2 or fails:
        ctx.violation("oracle on the code fails (%s): %s" % (obs, (f2 or fails)[0][1:]), replay, found_input=True)
    elif k_decides:
        ctx.violation("code differs from the exact evaluation (%s): %s" % (obs, (d2 or diffs)[0][1:]), replay, found_input=True)
    else:
        ctx.violation("correspondence %s.%s.%s broken: model and code differ (%s) while the property oracle is green" % (label, ctx.pid, obs, (d2 or diffs)[0][1:]), replay, found_input=False)

def gen_cases(ctx, n, kinds):
    cases = {}
    for i in range(n):
        kind = kinds[i % len(kinds)]
        cases["g%d:%s" % (i, kind)] = gen.family(ctx.rng, kind)
    return cases

# ---------------- oracles on the code alone ----------------
def oracle_c02(lines, cr, rr):
    fails = []
    for t in K.ticks_of(lines):
        days = K.per_day(lines, t)
        sd = defaultdict(lambda: F(0)); claimed = defaultdict(lambda: F(0))
        for y in cr["years"]:
            for d in y["disposals"]:
                if d["tick"] != t: continue
                tot = sum(l["qty"] for l in d["legs_raw"])
                sold = days.get(d["date"], {}).get("s", F(0))
                if abs(tot - sold) > TOLQ: fails.append(("legs_sum", t, d["date"], str(tot), str(sold)))
                if abs(d["qty"] - sold) > TOLQ: fails.append(("legs_sum", t, d["date"], "disposal.quantity", str(d["qty"]), str(sold)))
                for l in d["legs_raw"]:
                    if l["rule"] == "SameDay": sd[d["date"]] += l["qty"]
                    elif l["rule"] == "BedAndBreakfast": claimed[l["acq"]] += l["qty"] * K.rho(days, d["date"], l["acq"])
        for e in set(sd) | set(claimed):
            b = days.get(e, {}).get("b", F(0))
            if sd[e] + claimed[e] > b + TOLQ: fails.append(("acq_overused", t, e, str(sd[e] + claimed[e]), str(b)))
        exp = sum((x["b"] - x["s"]) * K.rho(days, z, 10**9) for z, x in days.items())
        h = [h for h in cr["holdings"] if h["tick"] == t]
        got = h[0]["qty"] if h else F(0)
        tolq = 0 if classes.residue_site([l for l in lines if l.tick.upper() == t]) is None else TOLQ * max(1, abs(exp))
        if abs(got - exp) > tolq: fails.append(("closing_holding", t, str(got), str(exp)))
    return fails

def effective_events(lines, t):
    """signed net amounts of the CAPRETURN/ACCUMULATION lines of t that take effect: a purchase dated
    strictly earlier exists and shares are held at the start of the event's day."""
    days = K.per_day(lines, t)
    tot = F(0)
    for l in lines:
        if l.tick.upper() != t or l.kind not in ("CAPRETURN", "ACCUMULATION"): continue
        z = l.date.toordinal()
        bought_before = any(x["hasbuy"] and zz < z for zz, x in days.items())
        held = sum((x["b"] - x["s"]) * K.rho(days, zz, z) for zz, x in days.items() if zz < z)
        if bought_before and held > 0:
            tot += (F(l.v) if l.kind == "ACCUMULATION" else -(F(l.v) - F(l.x or 0)))
    return tot

def oracle_c03(lines, cr, rr):
    fails = []
    if classes.kf_event_after_split(lines): return fails     # D5: the pre-pass is not split-aware (known finding, judged under C10/C11)
    for t in K.ticks_of(lines):
        days = K.per_day(lines, t)
        spent = sum(x["bc"] for x in days.values()) + effective_events(lines, t)
        used = F(0)
        for y in cr["years"]:
            for d in y["disposals"]:
                if d["tick"] == t: used += sum(l["cost"] for l in d["legs_raw"])
        h = [h for h in cr["holdings"] if h["tick"] == t]
        left = h[0]["cost"] if h else F(0)
        if abs(used + left - spent) > TOLM: fails.append(("cost_conservation", t, float(used + left), float(spent)))
    return fails

def round10_ok(x, exact):
    return abs(x - exact) <= F(5, 10**11) + F(1, 10**15)

def oracle_c04(lines, cr, rr, ex=None, year=None):
    fails = []
    ex = K.exemptions() if ex is None else ex
    alld = []
    for y in cr["years"]:
        g = F(0); lo = F(0)
        for d in y["disposals"]:
            days = K.per_day(lines, d["tick"])
            x = days.get(d["date"], dict(s=F(0), sg=F(0), sf=F(0)))
            if not round10_ok(d["gross"], x["sg"]): fails.append(("disposal_gross", d["tick"], d["date"], float(d["gross"]), float(x["sg"])))
            if not round10_ok(d["net"], x["sg"] - x["sf"]): fails.append(("disposal_net", d["tick"], d["date"], float(d["net"]), float(x["sg"] - x["sf"])))
            q = sum(l["qty"] for l in d["legs_raw"])
            if abs(q - d["qty"]) > TOLQ: fails.append(("disposal_qty", d["tick"], d["date"], str(d["qty"]), str(q)))
            gsum = sum(l["gain"] for l in d["legs_raw"]); csum = sum(l["cost"] for l in d["legs_raw"])
            if abs(gsum - (d["net"] - csum)) > TOLM: fails.append(("leg_gains", d["tick"], d["date"], float(gsum), float(d["net"] - csum)))
            if gsum > 0: g += gsum
            elif gsum < 0: lo += -gsum
            if K.tax_year(datetime.date.fromordinal(d["date"])) != y["year"]: fails.append(("year_of_disposal", d["tick"], d["date"], y["year"]))
            alld.append((d["date"], d["tick"]))
        if abs(y["gain"] - g) > TOLM: fails.append(("year_gain", y["year"], float(y["gain"]), float(g)))
        if abs(y["loss"] - lo) > TOLM: fails.append(("year_loss", y["year"], float(y["loss"]), float(lo)))
        if abs(y["net"] - (y["gain"] - y["loss"])) > TOLM: fails.append(("year_net", y["year"], float(y["net"])))
        if y["count"] != len(y["disposals"]): fails.append(("year_count", y["year"], y["count"], len(y["disposals"])))
        if y["year"] not in ex or F(ex[y["year"]]) != y["exempt"]: fails.append(("exemption", y["year"], str(y["exempt"]), str(ex.get(y["year"]))))
        if y["taxable"] != max(F(0), y["net"] - y["exempt"]): fails.append(("taxable", y["year"], str(y["taxable"])))
        di = sum(F(l.v) for l in lines if l.kind == "DIVIDEND" and l.vcur == "GBP" and K.tax_year(l.date) == y["year"])
        dtx = sum(F(l.x or 0) for l in lines if l.kind == "DIVIDEND" and l.xcur == "GBP" and K.tax_year(l.date) == y["year"])
        if ledger.is_gbp(lines):
            if abs(y["div_income"] - di) > TOLM: fails.append(("dividend_income", y["year"], float(y["div_income"]), float(di)))
            if abs(y["div_tax"] - dtx) > TOLM: fails.append(("dividend_tax", y["year"], float(y["div_tax"]), float(dtx)))
    # every sale day appears as exactly one disposal
    sold = sorted({(l.date.toordinal(), l.tick.upper()) for l in lines if l.kind == "SELL" and (year is None or K.tax_year(l.date) == year)})
    if year is not None and [y["year"] for y in cr["years"]] != [year]: fails.append(("year_filter", year, [y["year"] for y in cr["years"]]))
    if sorted(alld) != sold: fails.append(("disposals_vs_sales", str(sorted(alld)[:5]), str(sold[:5])))
    return fails

# ---------------- the four checks ----------------
def k_c01(ctx):
    what = ("legs", "years", "cost_if_no_events")
    run_k(ctx, K.corpus_ledgers(), what, k_decides=True)
    run_k(ctx, gen_cases(ctx, ctx.n(4000, 60000), ["competition", "noevents", "noevents", "mixed", "splits"]), what, k_decides=True)

def k_c02(ctx):
    what = ("legs", "holdings", "years")
    run_k(ctx, K.corpus_ledgers(), what, oracle=oracle_c02)
    run_k(ctx, gen_cases(ctx, ctx.n(4000, 60000), ["mixed", "splits", "competition", "noevents"]), what, oracle=oracle_c02)

def k_c03(ctx):
    what = ("cost", "holdings", "years")
    run_k(ctx, K.corpus_ledgers(), what, oracle=oracle_c03)
    run_k(ctx, gen_cases(ctx, ctx.n(4000, 60000), ["events", "mixed", "competition", "splits"]), what, oracle=oracle_c03)

def k_c04(ctx):
    what = ("proceeds", "totals", "years", "dgain")
    run_k(ctx, K.corpus_ledgers(), what, oracle=oracle_c04)
    cases = gen_cases(ctx, ctx.n(4000, 60000), ["mixed", "plain", "events", "noevents"])
    # histories that skip whole tax years: everything after a random point moved two or three years on
    for cid in list(cases)[::7]:
        ls = sorted(cases[cid], key=lambda l: l.date)
        if len(ls) < 3: continue
        k = ctx.rng.randint(1, len(ls) - 1); gap = datetime.timedelta(days=ctx.rng.choice([731, 1096, 1461]))
        moved = [l if i < k else l.copy(date=l.date + gap) for i, l in enumerate(ls)]
        if max(l.date for l in moved).year <= 2025: cases[cid + ":gap"] = moved; ctx.count("gap_year_histories", True)
    run_k(ctx, cases, what, oracle=oracle_c04)
    # foreign currency, each amount in its own: the same arithmetic on the amounts converted at the HMRC rate of their own month
    # (rates read from the HMRC files themselves, not from the code)
    from . import props_fx
    xt = props_fx.xml_table()
    def to_gbp_lines(ls):
        out = []
        for l in ls:
            def cv(v, c):
                if v is None or c == "GBP": return v
                r = xt.get((c, l.date.year, l.date.month))
                if not r or len(r) != 1: raise KeyError((c, l.date))
                q = F(v) / next(iter(r)); return "%d/%d" % (q.numerator, q.denominator)
            out.append(l.copy(v=cv(l.v, l.vcur), vcur="GBP", x=cv(l.x, l.xcur), xcur="GBP"))
        return out
    fcases = {}
    for i in range(ctx.n(600, 8000)):
        base = gen.gen_ledger(ctx.rng, events=0.1, splits=0.05, dividends=0.2, max_year=2025)
        base = [l.copy(date=max(l.date, datetime.date(2015, 1, 1))) for l in base]
        fl = props_fx.foreignize(ctx.rng, base)
        try: fcases["fx%d" % i] = (fl, to_gbp_lines(fl))
        except KeyError: continue
    fr = K.code_only({k: v[0] for k, v in fcases.items()})
    for cid, (fl, gl) in fcases.items():
        ctx.evaluations += 1; rr = fr[cid]
        ctx.count("foreign_ledger_outcome", "ok" if rr.get("ok") else rr.get("stage"))
        if not rr.get("ok"): continue
        cr = compare.canon_rust(rr["report"])
        fails = oracle_c04(gl, cr, rr)
        if fails:
            ctx.disagreements_checked += 1
            ctx.violation("oracle on the code fails (%s) on a foreign-currency ledger: %s" % (fails[0][0], fails[0][1:]),
                          {"input_dsl": ledger.render(fl), "gbp_equivalent": ledger.render(gl), "fails": [list(map(str, f)) for f in fails[:6]], "code": rr, "case_id": cid}, found_input=True)
    # "in every report": the same arithmetic in reports filtered to one tax year
    byyear = defaultdict(dict)
    for cid, lines in list(K.corpus_ledgers().items()) + list(cases.items())[:ctx.n(1200, 20000)]:
        ys = sorted({K.tax_year(l.date) for l in lines if l.kind == "SELL"})
        if ys: byyear[ctx.rng.choice(ys)][cid + "@y"] = lines
    for y, cs in sorted(byyear.items()):
        ctx.count("year_filtered_reports", y)
        run_k(ctx, cs, what, oracle=(lambda l, cr, rr, y=y: oracle_c04(l, cr, rr, year=y)), year=y)
