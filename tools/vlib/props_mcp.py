"""C20: the MCP server answers every request, statelessly, whatever came before."""
import os, json, re, datetime, subprocess, shutil, time
from fractions import Fraction as F
from . import run, build, ledger, gen, mcp, ledgerk as K
from .ledger import Line
from .props_ledger2 import load_known_text

def canon(resp):
    """what the answer says, without the id"""
    if "error" in resp: return ("error", resp["error"].get("code"), resp["error"].get("message"))
    return ("result", json.dumps(resp["result"], sort_keys=True))

def to_json_txns(lines):
    out = []
    for l in lines:
        def money(v, c): return v if c == "GBP" else {"amount": v, "currency": c}
        t = {"date": l.date.isoformat(), "ticker": l.tick, "action": l.kind}
        if l.kind in ("BUY", "SELL"): t.update(amount=l.a, price=money(l.v, l.vcur)); 
        if l.kind in ("BUY", "SELL", "CAPRETURN") and l.x is not None: t["fees"] = money(l.x, l.xcur)
        if l.kind in ("DIVIDEND", "ACCUMULATION", "CAPRETURN"): t["total_value"] = money(l.v, l.vcur)
        if l.kind in ("ACCUMULATION", "CAPRETURN"): t["amount"] = l.a
        if l.kind in ("DIVIDEND", "ACCUMULATION") and l.x is not None: t["tax_paid"] = money(l.x, l.xcur)
        if l.kind in ("SPLIT", "UNSPLIT"): t["ratio"] = l.a
        out.append(t)
    return json.dumps(out)

def broken_json(rng, ls):
    """the ledger as one long JSON line with one field turned into text that cannot be a number, made of multi-byte
    characters of varying length (the error position then falls among them)"""
    recs = json.loads(to_json_txns(ls))
    if not recs: return "[{]"
    r = rng.choice(recs)
    fields = [k for k in ("price", "amount", "ratio", "total_value", "fees") if k in r] or ["date"]
    k = rng.choice(fields)
    r[k] = rng.choice(["£", "é", "€", "日本", "ß"]) * rng.randint(1, 70) + rng.choice(["131.40", "", " 5", "x"])
    if rng.random() < 0.5:
        for q in recs: q["ticker"] = q.get("ticker", "A") + rng.choice(["", "Ö", "ÖÖÖ", "X" * rng.randint(0, 9)])
    return json.dumps(recs, ensure_ascii=False, separators=rng.choice([(",", ":"), (", ", ": ")]))

def gen_requests(rng, n, ledgers):
    """list of (kind, request-without-id) ; ledgers: list of (lines, dsl)"""
    reqs = []
    ls, dsl = rng.choice(ledgers)
    for _ in range(n):
        if rng.random() < 0.45: ls, dsl = rng.choice(ledgers)      # otherwise stay on the same ledger: related requests follow each other
        r = rng.random()
        if r < 0.22:
            y = rng.choice([None, None] + sorted({K.tax_year(l.date) for l in ls}) + [1980, 2030])
            args = {"transactions": dsl if rng.random() < 0.7 else to_json_txns(ls)}
            if y is not None: args["year"] = y
            reqs.append(("calculate", ("tools/call", {"name": "calculate_report", "arguments": args})))
        elif r < 0.34:
            sells = [l for l in ls if l.kind == "SELL"]
            if sells and rng.random() < 0.8: s = rng.choice(sells); d, t = s.date.isoformat(), rng.choice([s.tick, s.tick.lower()])
            else: d, t = rng.choice(["2024-06-01", "01/06/2024", "2024-13-01"]), "NOPE"
            reqs.append(("explain", ("tools/call", {"name": "explain_matching", "arguments": {"transactions": dsl, "disposal_date": d, "ticker": t}})))
        elif r < 0.44:
            reqs.append(("parse", ("tools/call", {"name": "parse_transactions", "arguments": {"transactions": rng.choice([dsl, to_json_txns(ls), "garbage here", "", "[{\"date\":\"2024-01-01\"}]"])}})))
        elif r < 0.52:
            reqs.append(("fx", ("tools/call", {"name": "get_fx_rate", "arguments": {"currency": rng.choice(["USD", "usd", "EUR", "XXX", "ZZ"]), "year": rng.choice([2015, 2024, 2031, 1999]), "month": rng.choice([1, 6, 12, 0, 13])}})))
        elif r < 0.60:
            reqs.append(("todsl", ("tools/call", {"name": "convert_to_dsl", "arguments": {"transactions": rng.choice([to_json_txns(ls), "not json", "[]", dsl])}})))
        elif r < 0.64:
            name = rng.choice(["parse_transactions", "calculate_report", "convert_to_dsl", "explain_matching"])
            args = {"transactions": broken_json(rng, ls)}
            if name == "explain_matching": args.update(disposal_date="2024-06-01", ticker="A")
            reqs.append(("broken_json", ("tools/call", {"name": name, "arguments": args})))
        elif r < 0.66: reqs.append(("list", ("tools/list", {})))
        elif r < 0.72: reqs.append(("resources", (rng.choice(["resources/list", "ping"]), {})))
        elif r < 0.78: reqs.append(("read", ("resources/read", {"uri": rng.choice(["cgt://docs/dsl-syntax", "cgt://docs/tax-rules", "cgt://nope", "file:///etc/passwd"])})))
        elif r < 0.84: reqs.append(("unknown_tool", ("tools/call", {"name": rng.choice(["nosuchtool", "", "calculate"]), "arguments": {}})))
        elif r < 0.92: reqs.append(("bad_args", ("tools/call", {"name": rng.choice(["calculate_report", "explain_matching", "get_fx_rate"]), "arguments": rng.choice([{}, {"transactions": 5}, {"transactions": None}, {"currency": "USD", "year": "x", "month": 1}, {"transactions": dsl, "year": "2024"}])})))
        else:
            bad = [Line(datetime.date(2024, 1, 1), "A", "BUY", "10", "1", "GBP", None), Line(datetime.date(2024, 2, 1), "A", "SELL", "20", "1", "GBP", None)]
            reqs.append(("failing_calc", ("tools/call", {"name": "calculate_report", "arguments": {"transactions": ledger.render(bad)}})))
    return reqs

def run_session(workdir, reqs, pipelined, id_style):
    s = mcp.Session(workdir)
    ok = mcp.init(s)
    ids = []
    def mk(i):
        return i if id_style == "int" else "req-%d" % i
    t0 = time.time(); got = {}
    if ok:
        if pipelined:
            for i, (_, (method, params)) in enumerate(reqs):
                ids.append(mk(i)); s.send({"jsonrpc": "2.0", "id": mk(i), "method": method, "params": params})
            got, stray, eof = s.collect([json.dumps(x) for x in ids], timeout=60)
        else:
            stray = []
            for i, (_, (method, params)) in enumerate(reqs):
                ids.append(mk(i)); s.send({"jsonrpc": "2.0", "id": mk(i), "method": method, "params": params})
                g, st, eof = s.collect([json.dumps(mk(i))], timeout=30)
                got.update(g); stray += st
                if eof: break
    extra = s.drain(0.3)
    alive = s.alive()
    rc = s.close()
    return {"init": ok, "ids": ids, "got": got, "alive_before_close": alive, "exit": rc, "extra_lines": len(extra), "stderr": b"".join(s.err)[-300:].decode("utf-8", "replace"), "wall": time.time() - t0}

def cli_json(workdir, dsl, year):
    os.makedirs(workdir, exist_ok=True)
    open(os.path.join(workdir, "in.cgt"), "w").write(dsl)
    env = dict(build.ENV, HOME=workdir)
    cmd = [build.CLI, "report", "in.cgt", "--format", "json"] + (["--year", str(year)] if year is not None else [])
    return subprocess.run(cmd, cwd=workdir, stdout=subprocess.PIPE, stderr=subprocess.PIPE, text=True, env=env, timeout=120)

# ---------------- the tool layer against Model/McpTools.v (K.C20.tools) ----------------
RUST_ASCII_SPACE = " \t\n\x0b\x0c\r"
def tool_layer(ctx, root, ledgers):
    """What each tool does around the computations: trimming, JSON sniffing by a leading '[', the empty-list refusal, explain_matching's date
    reading, derived tax year and look-up.  The readers' and the calculator's outcomes come from the library (harness); the model
    (extracted McpTools) predicts answer / error; the built server is asked the same."""
    import binascii
    from . import run
    rng = ctx.rng
    hx = lambda t: "x" + binascii.hexlify(t.encode("utf-8")).decode()
    def pad(): return "".join(rng.choice(RUST_ASCII_SPACE) for _ in range(rng.choice([0, 0, 1, 2, 4])))
    cases = []
    for i in range(ctx.n(60, 1500)):
        ls, dsl = rng.choice(ledgers)
        form = rng.choice(["dsl", "dsl", "json", "special"])
        if form == "dsl": body = dsl
        elif form == "json": body = to_json_txns(ls)
        else: body = rng.choice(["", "[", "[]", "[ ]", "garbage", "[garbage", "# only a comment", "[]x", " " + dsl, dsl + " ", "\u00a0" + dsl, dsl + "\u2003", "[{\"date\":\"2024-01-01\"}]"])
        text = pad() + body + pad()
        tool = rng.choice(["parse", "parse", "calc", "calc", "explain", "explain", "todsl"])
        c = {"id": "tl%d" % i, "tool": tool, "text": text, "form": form}
        years = sorted({K.tax_year(l.date) for l in ls})
        if tool == "calc": c["year"] = rng.choice([None, None] + years + [1980])
        if tool == "explain":
            sells = [l for l in ls if l.kind == "SELL"]
            if sells and rng.random() < 0.8:
                sl = rng.choice(sells); d = sl.date
                c["date"] = rng.choice([d.isoformat()] * 4 + ["%d-%d-%d" % (d.year, d.month, d.day), d.strftime("%d/%m/%Y"), d.isoformat() + " ", "%04d-%02d-31" % (d.year, 2)])
                c["tick"] = rng.choice([sl.tick, sl.tick.lower(), sl.tick.upper(), sl.tick + "X"])
            else:
                c["date"] = rng.choice(["2024-06-01", "2024-13-01", "", "2023-02-29"]); c["tick"] = "NOPE"
        cases.append(c)
    # oracles
    hc = []; seen = set()
    def want(kind, t, year=None):
        key = (kind, t, year)
        if key in seen: return
        seen.add(key)
        if kind == "dsl": hc.append({"id": "pd:" + hx(t), "op": "parse", "text_hex": hx(t)[1:]})
        elif kind == "json": hc.append({"id": "pj:" + hx(t), "op": "json_read", "json_text": t})
        else: hc.append({"id": "rp:%s:%s" % (hx(t), year), "op": "report", **({"json": t} if t.startswith("[") else {"dsl": t}), **({"year": year} if year is not None else {})})
    def iso_year(dstr):
        m = re.fullmatch(r"(\d{4})-(\d\d)-(\d\d)", dstr)
        if not m: return None
        try: return K.tax_year(datetime.date(int(m.group(1)), int(m.group(2)), int(m.group(3))))
        except ValueError: return None
    for c in cases:
        t = c["text"].strip(RUST_ASCII_SPACE); c["trimmed"] = t
        want("dsl", t); want("json", t)
        ys = [c.get("year")] if c["tool"] == "calc" else ([iso_year(c["date"])] if c["tool"] == "explain" and iso_year(c["date"]) is not None else [])
        c["years"] = ys
        for y in ys: want("report", t, y)
    hr = run.run_harness(hc)
    mc = []
    for c in cases:
        t = c["trimmed"]; lines = []
        pdr = hr.get("pd:" + hx(t), {}); pjr = hr.get("pj:" + hx(t), {})
        lines.append("MD %s %d" % (hx(t), len(pdr.get("txns", [])) if pdr.get("ok") else -1))
        lines.append("MJ %s %d" % (hx(t), len(pjr.get("txns", [])) if pjr.get("ok") else -1))
        for y in c["years"]:
            rp = hr.get("rp:%s:%s" % (hx(t), y), {}); ya = "-" if y is None else str(y)
            lines.append("MC %s %d" % (ya, 1 if rp.get("ok") else 0))
            if rp.get("ok"):
                for yy in rp["report"]["years"]:
                    for d in yy["disposals"]:
                        dd = datetime.date.fromordinal(d["date"]) if isinstance(d["date"], int) else datetime.date.fromisoformat(d["date"]); lines.append("MDS %s %d %d %d %s" % (ya, dd.year, dd.month, dd.day, hx(d["tick"])))
        if c["tool"] in ("parse", "todsl"): lines.append("RUN mcp_tool parse %s" % hx(c["text"]))
        elif c["tool"] == "calc": lines.append("RUN mcp_tool calc %s %s" % (hx(c["text"]), "-" if c["year"] is None else c["year"]))
        else: lines.append("RUN mcp_tool explain %s %s %s" % (hx(c["text"]), hx(c["date"]), hx(c["tick"])))
        mc.append((c["id"], lines))
    mr = run.run_model(mc)
    reqs = []
    for c in cases:
        if c["tool"] == "parse": a = ("parse_transactions", {"transactions": c["text"]})
        elif c["tool"] == "todsl": a = ("convert_to_dsl", {"transactions": c["text"]})
        elif c["tool"] == "calc": a = ("calculate_report", dict({"transactions": c["text"]}, **({"year": c["year"]} if c["year"] is not None else {})))
        else: a = ("explain_matching", {"transactions": c["text"], "disposal_date": c["date"], "ticker": c["tick"]})
        reqs.append((c["id"], ("tools/call", {"name": a[0], "arguments": a[1]})))
    res = run_session(os.path.join(root, "tools"), reqs, False, "int")
    for k, c in enumerate(cases):
        mm = mr[c["id"]]; ctx.evaluations += 1
        ctx.count("tool_layer_" + c["tool"], mm["res"]); ctx.count("tool_layer_input", c["form"])
        if mm["res"] == "unmodelled": continue
        rr = res["got"].get(json.dumps(res["ids"][k]), [None])[0] if k < len(res["ids"]) else None
        txt, iserr = mcp.tool_text(rr) if rr else (None, True)
        failed = rr is None or "error" in rr or iserr
        what = None
        if mm["unknown"]: what = "the model trimmed the argument differently from the check's oracle: %s" % mm["unknown"][:2]
        elif rr is None: what = "no answer"
        elif (mm["res"] == "ok") == failed: what = "model says %s, the server %s: %s" % (mm["res"], "refuses" if failed else "answers", str((rr.get("error") or {}).get("message") or txt)[:160])
        elif mm["res"] == "ok":
            try:
                if c["tool"] == "parse":
                    n = len(json.loads(txt))
                    if n != mm["count"]: what = "parse_transactions returns %d transactions, the %s reader finds %d" % (n, mm["reader"], mm["count"])
                elif c["tool"] == "todsl":
                    n = len([l for l in txt.split("\n") if l.strip() and not l.lstrip().startswith("#")])
                    if n != mm["count"]: what = "convert_to_dsl writes %d lines for %d transactions" % (n, mm["count"])
                elif c["tool"] == "explain":
                    j = json.loads(txt); y, mth, d = (int(x) for x in mm["date"].split("-"))
                    if j["disposal_date"] != "%04d-%02d-%02d" % (y, mth, d) or j["ticker"] != binascii.unhexlify(mm["tick"]).decode(): what = "explain_matching explains %s %s, the model finds %s %s" % (j["disposal_date"], j["ticker"], mm["date"], binascii.unhexlify(mm["tick"]).decode())
            except Exception as e: what = "unreadable answer (%s): %s" % (e, str(txt)[:120])
        if what:
            ctx.disagreements_checked += 1
            ctx.violation("correspondence K.C20.tools broken (%s on a %s input): %s" % (c["tool"], c["form"], what), {"case": c, "model": mm, "answer": rr, "correspondence": "K.C20.tools"}, found_input=False)

def k_c20(ctx):
    rng = ctx.rng
    root = os.path.join(build.CACHE, "run", "c20-%d" % os.getpid()); shutil.rmtree(root, ignore_errors=True); os.makedirs(root)
    try:
        ledgers = []
        for i in range(12):
            ls = gen.gen_ledger(rng, events=0.05, splits=0.05, uncovered=0.02, dividends=0.1)
            ledgers.append((ls, ledger.render(ls)))
        for k, v in list(K.corpus_ledgers(gbp_only=False).items())[:8]: ledgers.append((v, ledger.render(v)))
        # histories that go on for years: a capital return or accumulation long after an earlier disposal of the same security
        late = []
        for i in range(6):
            ls = gen.gen_ledger(rng, events=0, splits=0, uncovered=0, dividends=0.05, nsec=1, max_year=2022)
            t = ls[0].tick; last = max(l.date for l in ls)
            days = K.per_day(ls, t.upper()); held = sum(x["b"] - x["s"] for x in days.values())
            if held > 0:
                ls = ls + [Line(last + datetime.timedelta(days=rng.choice([200, 500, 800])), t, rng.choice(["CAPRETURN", "ACCUMULATION"]), gen.dec_str(held), rng.choice(["5", "12.5"]), "GBP", None)]
            ledgers.append((ls, ledger.render(ls))); late.append((ls, ledger.render(ls)))
        # ledgers that also hold disposals in tax years the exemption table does not cover: a report of a covered year must still be
        # answered, equal the CLI's and have each of its disposals explained
        special = []
        for i in range(4):
            ls = gen.gen_ledger(rng, events=0, splits=0, uncovered=0, dividends=0.05, nsec=rng.choice([1, 2]))
            oy = rng.choice([2009, 2011, 2012, 2027, 2029])
            ls = ls + [Line(datetime.date(oy, 5, 3), "OLDCO", "BUY", "10", "1", "GBP", None), Line(datetime.date(oy, 9, 1), rng.choice(["OLDCO", ls[0].tick]) if oy > 2026 else "OLDCO", "SELL", "1", "2", "GBP", None)]
            if i % 2 == 0:      # several uncovered years: the refusal of the all-years report must name the same one in every process
                ls = ls + [Line(datetime.date(2005, 5, 3), "ELDER", "BUY", "10", "1", "GBP", None)] + [Line(datetime.date(y, 9, 1), "ELDER", "SELL", "1", "2", "GBP", None) for y in (2005, 2006, 2007, 2008)]
            ledgers.append((ls, ledger.render(ls))); special.append((ls, ledger.render(ls)))
        # a ledger that sells many securities: whatever a tool lists about it (e.g. the tickers an error message offers) must not come out in hash order
        many = []
        for i, t in enumerate(["ALPHA", "BRAVO", "CHARLIE", "DELTA", "ECHO", "FOXTROT", "GOLF"]):
            many += [Line(datetime.date(2023, 5, 2 + i), t, "BUY", "10", "3", "GBP", None), Line(datetime.date(2023, 9, 3 + i), t, "SELL", "4", "5", "GBP", None)]
        ledgers.append((many, ledger.render(many))); special.append((many, ledger.render(many)))
        answers = {}       # canonical request -> set of canonical answers seen (statelessness)
        nsess = ctx.n(24, 1200)
        for si in range(nsess):
            reqs = gen_requests(rng, rng.randint(5, 40 if ctx.thorough() else 25), ledgers)
            # a scripted opening on one of the ledgers the generator built for a purpose: the overview first, then single years of the same
            # ledger, then an explanation - what a client does, and what a cache keyed too coarsely or a shortcut in one tool gets wrong
            script = special + late
            if si < len(script):
                sl, sd = script[si]
                ys = sorted({K.tax_year(l.date) for l in sl if l.kind == "SELL" and 2014 <= K.tax_year(l.date) <= 2025})
                block = [("calculate", ("tools/call", {"name": "calculate_report", "arguments": {"transactions": sd}}))]
                for y in (ys[:1] + ys[-1:] if len(ys) > 1 else ys):
                    block.append(("calculate", ("tools/call", {"name": "calculate_report", "arguments": {"transactions": sd, "year": y}})))
                sells = [l for l in sl if l.kind == "SELL"]
                if sells:
                    block.append(("explain", ("tools/call", {"name": "explain_matching", "arguments": {"transactions": sd, "disposal_date": sells[0].date.isoformat(), "ticker": sells[0].tick}})))
                    block.append(("explain", ("tools/call", {"name": "explain_matching", "arguments": {"transactions": sd, "disposal_date": sells[0].date.isoformat(), "ticker": "NOPE"}})))
                    block.append(("explain", ("tools/call", {"name": "explain_matching", "arguments": {"transactions": sd, "disposal_date": "2001-01-01", "ticker": sells[0].tick}})))
                reqs = block + reqs
            pipelined = (si % 2 == 1); id_style = rng.choice(["int", "str"])
            res = run_session(os.path.join(root, "s%d" % si), reqs, pipelined, id_style)
            ctx.evaluations += len(reqs); ctx.traces += 1
            ctx.count("session_mode", "pipelined" if pipelined else "sequential"); ctx.count("session_length", len(reqs))
            ctx.nontrivial.add(json.dumps([r[1] for r in reqs], sort_keys=True)[:2000])
            ctx.sample({"session": si, "pipelined": pipelined, "requests": [r[1] for r in reqs[:2]]}, limit=2)
            replay = {"session": si, "pipelined": pipelined, "id_style": id_style, "requests": [r[1] for r in reqs], "summary": {k: v for k, v in res.items() if k != "got"}}
            if not res["init"]:
                ctx.violation("server did not answer initialize", replay, found_input=True); continue
            missing = [i for i in res["ids"] if json.dumps(i) not in res["got"]]
            dup = [i for i, v in res["got"].items() if len(v) > 1]
            if missing or dup:
                kinds = [reqs[res["ids"].index(i)][0] for i in missing]
                ctx.violation("requests without exactly one response: unanswered %s (%s), answered twice %s" % (missing[:5], kinds[:5], dup[:5]), dict(replay, responses={k: v for k, v in list(res["got"].items())[:3]}), found_input=True); continue
            if not res["alive_before_close"] or res["exit"] != 0 or res["extra_lines"]:
                ctx.violation("server not running until its input closed / exit status %s / %d unsolicited lines; stderr: %s" % (res["exit"], res["extra_lines"], res["stderr"][-160:]), replay, found_input=True); continue
            for i, (kind, (method, params)) in zip(res["ids"], reqs):
                resp = res["got"][json.dumps(i)][0]
                ctx.count("request_kind", kind); ctx.count("answer", "error" if "error" in resp else ("tool-error" if resp["result"].get("isError") else "result"))
                key = json.dumps([method, params], sort_keys=True)
                a = canon(resp)
                if method == "tools/list":      # the listing order varies per process (hash map); compare as a set
                    a = ("result", json.dumps(sorted(json.dumps(t, sort_keys=True) for t in resp.get("result", {}).get("tools", []))))
                answers.setdefault(key, {}).setdefault(a, []).append((si, i))
            # the same requests in reverse order in a fresh session: every request now has a different history
            if si % (1 if ctx.thorough() else 2) == 0:
                rev = list(reversed(reqs))
                res2 = run_session(os.path.join(root, "r%d" % si), rev, not pipelined, id_style); ctx.evaluations += len(rev); ctx.traces += 1
                for i, (kind, (method, params)) in zip(res2["ids"], rev):
                    rr = res2["got"].get(json.dumps(i))
                    if not rr: continue
                    key = json.dumps([method, params], sort_keys=True); a = canon(rr[0])
                    if method == "tools/list": a = ("result", json.dumps(sorted(json.dumps(t, sort_keys=True) for t in rr[0].get("result", {}).get("tools", []))))
                    answers.setdefault(key, {}).setdefault(a, []).append(("reversed-%d" % si, i))
        for key, seen in answers.items():
            if len(seen) > 1:
                ctx.violation("the same request received different answers depending on the session/history: %s" % key[:200], {"request": json.loads(key), "answers": [{"answer": list(a)[:3], "where": w[:3]} for a, w in seen.items()]}, found_input=True); break
        ctx.count("distinct_requests", len(answers)); ctx.count("requests_seen_more_than_once", sum(1 for s in answers.values() if sum(len(w) for w in s.values()) > 1))
        # ---- equals the CLI; explain covers every listed disposal
        ncli = 0
        sp = {d for _, d in special + late}
        def first(kv):
            try: a = json.loads(kv[0])[1]["arguments"]; return 0 if a.get("transactions") in sp and (a.get("year") is None or isinstance(a.get("year"), int) and 2014 <= a["year"] <= 2025) else 1
            except Exception: return 1
        for key, seen in sorted(answers.items(), key=first):
            method, params = json.loads(key)
            if method != "tools/call" or params.get("name") != "calculate_report" or not isinstance(params["arguments"].get("transactions"), str): continue
            if params["arguments"]["transactions"].lstrip().startswith("["): continue
            if ncli >= ctx.n(45, 400): break
            a = next(iter(seen))
            year = params["arguments"].get("year")
            if year is not None and not isinstance(year, int): continue
            p = cli_json(os.path.join(root, "cli%d" % ncli), params["arguments"]["transactions"], year); ncli += 1; ctx.evaluations += 1
            if a[0] == "result":
                payload = json.loads(a[1]); txt = payload["content"][0]["text"] if payload.get("content") else None
                if payload.get("isError"):
                    if p.returncode == 0: ctx.violation("calculate_report reports an error where the CLI produces a report", {"request": params, "mcp": payload, "cli_stdout": p.stdout[:300]}, found_input=True)
                    continue
                if p.returncode != 0:
                    ctx.violation("calculate_report answers where the CLI fails: %s" % p.stderr[-160:], {"request": params, "mcp": txt[:400]}, found_input=True); continue
                mj = json.loads(txt); cj = json.loads(p.stdout)
                if mj.get("tax_years") != cj.get("tax_years") or mj.get("holdings") != cj.get("holdings"):
                    ctx.violation("calculate_report differs from `report --format json` on the same input", {"request": params, "mcp": mj, "cli": {k: cj[k] for k in ("tax_years", "holdings")}}, found_input=True); continue
                # explain every listed disposal in a fresh session
                disp = [(d["date"], d["ticker"], d["quantity"]) for y in mj["tax_years"] for d in y["disposals"]]
                if disp:
                    ex = [("explain", ("tools/call", {"name": "explain_matching", "arguments": {"transactions": params["arguments"]["transactions"], "disposal_date": d, "ticker": t}})) for d, t, q in disp[:12]]
                    r2 = run_session(os.path.join(root, "ex%d" % ncli), ex, True, "int"); ctx.evaluations += len(ex)
                    for (d, t, q), i in zip(disp, r2["ids"]):
                        rr = r2["got"].get(json.dumps(i), [None])[0]
                        txt2, iserr = mcp.tool_text(rr) if rr else (None, True)
                        if rr is None or "error" in rr or iserr or json.loads(txt2)["quantity"] != q:
                            ctx.violation("explain_matching cannot explain the disposal of %s on %s that calculate_report lists: %s" % (t, d, (rr or {}).get("error")), {"ledger": params["arguments"]["transactions"], "disposal": [d, t, q], "answer": rr}, found_input=True); break
                        # ... and explains it with the legs calculate_report lists: rule, quantity, acquisition date, cost and gain (the report shows pence)
                        listed = [x for y in mj["tax_years"] for x in y["disposals"] if x["date"] == d and x["ticker"] == t][0]["matches"]
                        told = json.loads(txt2)["matches"]
                        RULES = {"SameDay": "Same Day", "BedAndBreakfast": "Bed & Breakfast", "Section104": "Section 104"}
                        from fractions import Fraction as F
                        def close(a, b): return abs(F(a) - F(b)) <= F(1, 200) + F(1, 10**9)
                        same = len(listed) == len(told) and all(RULES.get(a["rule"], a["rule"]) == b["rule"] and F(a["quantity"]) == F(b["quantity"]) and a.get("acquisition_date") == b.get("acquisition_date")
                                                               and close(a["allowable_cost"], b["allowable_cost"]) and close(a["gain_or_loss"], b["gain_or_loss"]) for a, b in zip(listed, told))
                        if not same:
                            ctx.violation("explain_matching explains the disposal of %s on %s with other legs than calculate_report lists" % (t, d),
                                          {"ledger": params["arguments"]["transactions"], "disposal": [d, t, q], "calculate_report": listed, "explain_matching": told}, found_input=True); break
            else:
                if p.returncode == 0 and params["arguments"]["transactions"].strip():
                    ctx.violation("calculate_report answers with an error where the CLI produces a report: %s" % str(a[2])[:200], {"request": params, "cli_stdout": p.stdout[:300]}, found_input=True)
        ctx.count("compared_with_cli", ncli)
        tool_layer(ctx, root, ledgers)
        # ---- known findings of the transport (rmcp): reproduced on every run while they persist
        hostile(ctx, root)
    finally:
        shutil.rmtree(root, ignore_errors=True)

def hostile(ctx, root):
    def probe(name, lines_before, cls, expect_unanswered):
        s = mcp.Session(os.path.join(root, "h-" + name)); ok = mcp.init(s)
        for l in lines_before: s.send_raw(l)
        time.sleep(0.3)
        s.send({"jsonrpc": "2.0", "id": 99, "method": "tools/list"})
        got, stray, eof = s.collect(["99"] + expect_unanswered, timeout=6)
        alive = s.alive(); rc = s.close()
        ctx.evaluations += 1
        good = ("99" in got) and alive and all(i in got for i in expect_unanswered)
        ctx.count("hostile_" + name, "handled" if good else "fails")
        if not good:
            kt = load_known_text("C20", cls)
            if kt: ctx.known(kt)
            else: ctx.violation("hostile line (%s): later request answered=%s, server alive=%s, unanswered ids=%s" % (name, "99" in got, alive, [i for i in expect_unanswered if i not in got]),
                                {"lines": [l.decode("utf-8", "replace") for l in lines_before]}, found_input=True)
    probe("not-json", [b"this is not json\n"], "kf_mcp_undecodable_line", [])
    probe("json-not-a-request", [b"[1,2,3]\n"], "kf_mcp_undecodable_line", [])
    probe("params-not-an-object", [b'{"jsonrpc":"2.0","id":7,"method":"tools/call","params":"oops"}\n'], "kf_mcp_undecodable_line", ["7"])
    probe("unknown-method", [b'{"jsonrpc":"2.0","id":8,"method":"bogus/method"}\n'], "kf_mcp_unknown_method", ["8"])
    big = "2024-01-01 BUY A 1000000000000000 @ 1000000000000000\\n2024-01-02 SELL A 1000000000000000 @ 1000000000000000"
    probe("overflow", [('{"jsonrpc":"2.0","id":9,"method":"tools/call","params":{"name":"calculate_report","arguments":{"transactions":"%s"}}}\n' % big).encode()], "kf_decimal_overflow", ["9"])
