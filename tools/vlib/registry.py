"""Property registry: Coq target, K function, evidence text."""
from . import props_ledger as PL, props_ledger2 as PL2, props_dsl as PD, props_fmt as PF, props_schwab as PS, props_fx as PX, props_mcp as PM, props_robust as PR

def spec(pid, k, rule, need_cli=False, not_proved="", trusted_extra=None, assumptions=None):
    return {"pid": pid, "target": "Props/P_%s.vo" % pid, "vfile": "Props/P_%s.v" % pid, "module": "Props.P_%s" % pid,
            "k": k, "rule": rule, "need_cli": need_cli, "not_proved": not_proved,
            "trusted_extra": trusted_extra or [], "assumptions": assumptions or []}

LEDGER_RULE = ("corpus (46 repository fixtures + /verif/corpus) first, then scenario-shaped random ledgers from one seeded PRNG "
               "(1-3 securities, 3-14 lines, calendar anchors, day gaps {0,0,1,1,2,5,10,29,30,31,40}, sales sized against the holding, "
               "competing disposals, splits, events, 30% shuffled); distinct = distinct after shifting dates and renaming tickers; "
               "non-trivial = the code accepts it and some disposal has a leg other than a lone Section-104 leg, or both sides reject it in calculate")

VAR_RULE = (" Each base ledger is also run in variants (permutations, fills, projections, rescaled twins, with/without an event, "
            "extensions) through the code alone; evaluations counts every run.")
PROPS = {
    "C01": spec("C01", PL.k_c01, LEDGER_RULE),
    "C02": spec("C02", PL.k_c02, LEDGER_RULE),
    "C03": spec("C03", PL.k_c03, LEDGER_RULE),
    "C04": spec("C04", PL.k_c04, LEDGER_RULE),
    "C05": spec("C05", PL2.k_c05, LEDGER_RULE + " C05 histories: truncated exports, duplicated sale rows, forward-matched companions, split/unsplit edge oversells; non-trivial also when some sale is uncovered."),
    "C06": spec("C06", PL2.k_c06, LEDGER_RULE + VAR_RULE + " File split also through the built CLI: 2-3 files (sometimes an empty one) with every kind of file ending, report and parse, against the same lines in one file.", need_cli=True),
    "C07": spec("C07", PL2.k_c07, LEDGER_RULE + " Plus the complete sweep of day numbers 1899-01-01..2101-12-31 (model vs chrono vs 6-April rule) and every year filter around each ledger's years."),
    "C08": spec("C08", PX.k_c08, "scenario ledgers with a random currency (GBP, USD, EUR, JPY, CHF, AUD, SEK) on each price / total and a possibly different one on each fee / tax, every operation kind, dates 2015-01 .. last bundled month, plus the foreign-currency fixtures; ledgers needing a month before the first or after the last bundled month; rate folders through the CLI (override, another currency, new month, mislabelled period, zero and negative rate, two files for one month with both modification-time orders, unreadable file name)", need_cli=True),
    "C09": spec("C09", PL2.k_c09, LEDGER_RULE + VAR_RULE),
    "C10": spec("C10", PL2.k_c10, LEDGER_RULE + VAR_RULE),
    "C11": spec("C11", PL2.k_c11, LEDGER_RULE + VAR_RULE),
    "C12": spec("C12", PL2.k_c12, LEDGER_RULE + VAR_RULE),
    "C13": spec("C13", PD.k_c13, "DSL texts: 40 hand-written PEG corner cases; then for each random transaction list (1-6 lines, all seven kinds, ISO currencies, keyword-like tickers) its plain rendering, a rendering with random layout (blank/comment lines, spaces/tabs, keyword/ticker/currency case, explicit GBP / zero clause, trailing comments, LF/CRLF/CR, missing final newline) and a single-token corruption; distinct non-trivial = distinct decorated or corrupted texts"),
    "C15": spec("C15", PR.k_c15, "validator: 1-6 API-level transactions of all kinds with quantities/prices/fees/ratios from {-1, 0, 0.00, 1, 2.5, -0.01, 100} against the rule as the property words it; library: bit flips, deletions, insertions, splices and truncations of repository fixtures (DSL, Schwab JSON, rate XML), random bytes, and ledgers drawn from 23 hostile lines (zero quantities and ratios, sells first, calendar ends, 96-bit magnitudes, unknown currencies, years outside 1900-2100) through parse, calculate, validate, the writer, serde, the Schwab converter and the rate-file reader; process: the same inputs through cgt-tool parse/report (plain, json, pdf, --output), nine fault cases and the default-PDF overwrite protection with one and several input files", need_cli=True),
    "C16": spec("C16", PR.k_c16, "ledgers with 4-14 securities, several same-date disposals and 2-8 tax years (and scenario ledgers), each command (report plain, report json, parse, convert schwab, report pdf for every third ledger) run in 6 (thorough: 30) fresh processes and compared byte for byte (converter timestamp line masked, warnings included); orders checked on the output: years, disposals by date then ticker, holdings, echoed transactions, converted lines", need_cli=True),
    "C17": dict(spec("C17", PF.k_c17, "ledgers built for display edge cases (sale prices x.xx5 giving exact half-pence results, fees 0.005/0.015, amounts of a million and more, losses, zero results, quantities with 6+ decimals, foreign-currency echoes) plus scenario ledgers and the repository fixtures; every shown figure of the plain text, the JSON and (for a subset) the PDF text runs is compared with the full-precision value; distinct non-trivial = distinct ledgers with at least one disposal; the built CLI's plain and JSON output (all years and one tax year) compared byte for byte with the library formatters", need_cli=True), need_pdf=True),
    "C18": spec("C18", PS.k_c18, "generated Schwab exports: Buy/Sell/Cancel Sell (before and after their sells, duplicates, non-matching), four dividend kinds with same-day and next-day NRA withholdings, Stock Split, eight non-CGT actions, unknown actions, RSU rows with awards; amounts as $1,234.56 / -$x / blank / -- / missing; plain and 'as of' dates; descriptions with quotes, #, tabs, CR/LF; occasional corrupted fields; rows shuffled; plus a row permutation and a date-disjoint two-chunk split of accepted exports"),
    "C19": spec("C19", PS.k_c19, "awards files with 0-4 vest entries per symbol at offsets -9..+2 days around the deposit date, vest-specific and fallback price fields, duplicates, non-vesting cash actions with empty details, other symbols, mixed-case symbols, month/year/leap ends; plus subsets of the offset set {-9..+2} (every fourth subset in the quick tier, all 4096 in the thorough tier)"),
    "C20": spec("C20", PM.k_c20, "MCP sessions over stdio against the built binary: 5-25 (thorough: 5-40) requests per session mixing the five tools (valid, failing and malformed arguments, DSL and JSON ledgers, years inside and outside the table), tools/list, resources/list, resources/read, ping, unknown tools; alternately sequential and pipelined, integer and string ids; every distinct request's answers are compared across all positions and sessions; calculate_report is compared with `report --format json` and every listed disposal is explained in a fresh session; five transport probes (undecodable lines, unknown method, overflow) for the known findings", need_cli=True),
    "C14": spec("C14", PD.k_c14, "API-level transaction lists of all seven kinds: decimals of scale 0..28 up to 2^96-1, every ISO-4217 code, zero and non-zero optional clauses; every tenth case also compares the reports of the original, its DSL and its JSON rendering; distinct non-trivial = distinct lists"),
}
