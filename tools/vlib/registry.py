"""Property registry: Coq target, K function, evidence text."""
from . import props_ledger as PL

def spec(pid, k, rule, need_cli=False, not_proved="", trusted_extra=None, assumptions=None):
    return {"pid": pid, "target": "Props/P_%s.vo" % pid, "vfile": "Props/P_%s.v" % pid, "module": "Props.P_%s" % pid,
            "k": k, "rule": rule, "need_cli": need_cli, "not_proved": not_proved,
            "trusted_extra": trusted_extra or [], "assumptions": assumptions or []}

LEDGER_RULE = ("corpus (46 repository fixtures + /verif/corpus) first, then scenario-shaped random ledgers from one seeded PRNG "
               "(1-3 securities, 3-14 lines, calendar anchors, day gaps {0,0,1,1,2,5,10,29,30,31,40}, sales sized against the holding, "
               "competing disposals, splits, events, 30% shuffled); distinct = distinct after shifting dates and renaming tickers; "
               "non-trivial = the code accepts it and some disposal has a leg other than a lone Section-104 leg, or both sides reject it in calculate")

PROPS = {
    "C02": spec("C02", PL.k_c02, LEDGER_RULE),
}
