"""./check Cxx --replay <file>: re-execute a recorded violation against the current tree.
Exit 1 while the recorded disagreement / failing oracle still shows, 0 when it no longer does."""
import json, binascii
from . import ledger, ledgerk as K, compare, run
from .props_ledger import oracle_c02, oracle_c03, oracle_c04, case_diffs
from .props_ledger2 import uncovered_sales

def run_replay(ctx, spec, path):
    r = json.load(open(path))
    print("replay of %s: %s" % (r.get("property"), r.get("what", "")[:400]))
    bad = False
    if "input_dsl" in r or "shrunk_dsl" in r:
        for key in ("shrunk_dsl", "input_dsl"):
            if key not in r: continue
            try: lines = ledger.parse_simple(r[key])
            except Exception as e: print("  cannot re-read %s: %s" % (key, e)); continue
            year = r.get("year")
            try: m, c = K.both({"replay": lines}, year=year)
            except ValueError: m, c = {}, K.code_only({"replay": lines}, year=year)
            mm, rr = m.get("replay"), c["replay"]
            print("--- %s\n%s" % (key, r[key]))
            print("  code : %s" % ("ok" if rr.get("ok") else rr.get("error", rr.get("stage"))))
            if mm is not None:
                print("  model: %s" % ("ok" if mm.get("ok") else mm.get("errors")))
                d, cr = case_diffs(lines, mm, rr, ("accept", "error", "legs", "cost", "gain", "proceeds", "holdings", "totals", "years"))
                for x in d[:6]: print("  model/code differ:", x)
                bad = bad or bool(d)
            else: cr = compare.canon_rust(rr["report"]) if rr.get("ok") else None
            if cr is not None:
                for name, o in (("C02", oracle_c02), ("C03", oracle_c03), ("C04", oracle_c04)):
                    f = o(lines, cr, rr)
                    for x in f[:4]: print("  oracle %s fails:" % name, x)
                    bad = bad or bool(f)
            unc = uncovered_sales(lines)
            if unc and rr.get("ok"): print("  uncovered sale accepted:", unc[:2]); bad = True
            if not unc and not rr.get("ok") and rr.get("stage") == "calculate" and "exceeds" in rr.get("error", ""): print("  covered ledger refused"); bad = True
            break
        for vname, vdsl in list((r.get("variants") or {}).items())[:6]:
            lines = ledger.parse_simple(vdsl); c = K.code_only({"v": lines})["v"]
            print("  variant %s: code %s" % (vname, "ok" if c.get("ok") else c.get("error", "")[:100]))
    elif "text_hex" in r:
        from . import props_dsl as PD
        t = binascii.unhexlify(r["text_hex"])
        m = PD.model_parse({"x": t})["x"]; c = PD.code_parse({"x": t})["x"]
        print("  model:", m); print("  code :", {k: c.get(k) for k in ("ok", "txns", "error")})
        bad = (m.get("ok") != c.get("ok")) or (m.get("ok") and m["txns"] != c["txns"]) or (not m.get("ok") and PD.err_line(c.get("error", "")) != m.get("line"))
    elif "rows" in r:
        from . import props_schwab as PS
        m, c = PS.both({"x": (r["rows"], r.get("awards"))})
        print("  model:", m["x"]); print("  code :", {k: c["x"].get(k) for k in ("ok", "kind", "content", "skipped", "warnings")})
        bad = m["x"].get("ok") != c["x"].get("ok")
        if m["x"].get("ok") and c["x"].get("ok"):
            bad = [binascii.unhexlify(h).decode("utf-8", "replace") for h in m["x"]["lines_hex"]] != c["x"]["content"].split("\n")
    else:
        print(json.dumps({k: v for k, v in r.items() if k not in ("code", "model")}, indent=1)[:3000])
        print("  (this kind of replay records the failing session / files; re-run ./check %s to re-execute it)" % r.get("property"))
        bad = True
    print("REPRODUCED" if bad else "NOT REPRODUCED on the current tree")
    return 1 if bad else 0
