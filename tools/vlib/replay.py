"""./check Cxx --replay <file>: re-execute a recorded violation against the current tree.
Exit 1 while the recorded disagreement / failing oracle still shows, 0 when it no longer does."""
import json, binascii
from . import ledger, ledgerk as K, compare, run
from .props_ledger import oracle_c02, oracle_c03, oracle_c04, case_diffs
from .props_ledger2 import uncovered_sales

def run_replay(ctx, spec, path):
    r = json.load(open(path))
    print("replay of %s: %s" % (r.get("property"), r.get("what", "")[:400]))
    bad = False
    if "input_dsl" in r or "shrunk_dsl" in r:
        for key in ("shrunk_dsl", "input_dsl"):
            if key not in r: continue
            try: lines = ledger.parse_simple(r[key])
            except Exception as e: print("  cannot re-read %s: %s" % (key, e)); continue
            year = r.get("year")
            try: m, c = K.both({"replay": lines}, year=year)
            except ValueError: m, c = {}, K.code_only({"replay": lines}, year=year)
            mm, rr = m.get("replay"), c["replay"]
            print("--- %s\n%s" % (key, r[key]))
            print("  code : %s" % ("ok" if rr.get("ok") else rr.get("error", rr.get("stage"))))
            if mm is not None:
                print("  model: %s" % ("ok" if mm.get("ok") else mm.get("errors")))
                d, cr = case_diffs(lines, mm, rr, ("accept", "error", "legs", "cost", "gain", "proceeds", "holdings", "totals", "years"))
                for x in d[:6]: print("  model/code differ:", x)
                bad = bad or bool(d)
            else: cr = compare.canon_rust(rr["report"]) if rr.get("ok") else None
            if cr is not None:
                for name, o in (("C02", oracle_c02), ("C03", oracle_c03), ("C04", oracle_c04)):
                    f = o(lines, cr, rr)
                    for x in f[:4]: print("  oracle %s fails:" % name, x)
                    bad = bad or bool(f)
            unc = uncovered_sales(lines)
            if unc and rr.get("ok"): print("  uncovered sale accepted:", unc[:2]); bad = True
            if not unc and not rr.get("ok") and rr.get("stage") == "calculate" and "exceeds" in rr.get("error", ""): print("  covered ledger refused"); bad = True
            break
        for vname, vdsl in list((r.get("variants") or {}).items())[:6]:
            lines = ledger.parse_simple(vdsl); c = K.code_only({"v": lines})["v"]
            print("  variant %s: code %s" % (vname, "ok" if c.get("ok") else c.get("error", "")[:100]))
    elif "text_hex" in r:
        from . import props_dsl as PD
        t = binascii.unhexlify(r["text_hex"])
        m = PD.model_parse({"x": t})["x"]; c = PD.code_parse({"x": t})["x"]
        print("  model:", m); print("  code :", {k: c.get(k) for k in ("ok", "txns", "error")})
        bad = (m.get("ok") != c.get("ok")) or (m.get("ok") and m["txns"] != c["txns"]) or (not m.get("ok") and PD.err_line(c.get("error", "")) != m.get("line"))
    elif "rows" in r:
        from . import props_schwab as PS
        m, c = PS.both({"x": (r["rows"], r.get("awards"))})
        print("  model:", m["x"]); print("  code :", {k: c["x"].get(k) for k in ("ok", "kind", "content", "skipped", "warnings")})
        bad = m["x"].get("ok") != c["x"].get("ok")
        if m["x"].get("ok") and c["x"].get("ok"):
            bad = [binascii.unhexlify(h).decode("utf-8", "replace") for h in m["x"]["lines_hex"]] != c["x"]["content"].split("\n")
    elif "json_text" in r:
        # a JSON transaction list: the reader model (Model/Json.v) against serde, then the code's own round trip
        from . import props_dsl as PD
        def tree(v): return PD.tree_of_python(v)
        text = r["json_text"]; c = run.run_harness([{"id": "x", "op": "json_read", "json_text": text}])["x"]
        try: vals = json.loads(text, object_pairs_hook=lambda kv: ("__obj__", kv))
        except Exception: vals = None
        def conv(v):
            if isinstance(v, tuple) and v and v[0] == "__obj__": return ("O", [(k, conv(x)) for k, x in v[1]])
            if isinstance(v, str): return ("S", v)
            return ("X", v)
        if isinstance(vals, list):
            toks = ["L%d" % len(vals)]
            for v in vals: toks += PD.tree_tokens(conv(v))
            m = run.run_model([("x", ["CUR " + " ".join(PD.currencies()), "RUN json_read " + " ".join(toks)])])["x"]
        else: m = {"res": "unmodelled"}
        print("  model:", m); print("  code :", {k: c.get(k) for k in ("ok", "txns", "error")})
        bad = (m["res"] == "ok" and (not c.get("ok") or m["txns"] != c["txns"])) or (m["res"] == "reject" and c.get("ok"))
    elif "txns" in r and isinstance(r["txns"], list) and r["txns"] and isinstance(r["txns"][0], dict) and "kind" in r["txns"][0]:
        # an API-level transaction list: the DSL and JSON round trips through the code
        c = run.run_harness([{"id": "x", "op": "roundtrip", "txns": r["txns"], "reports": True}])["x"]
        if not c.get("ok"): print("  harness:", c); bad = True
        else:
            db, jb = c["dsl_back"], c["json_back"]
            print("  original :", c["orig"]); print("  DSL back :", db.get("txns", db.get("error"))); print("  JSON back:", jb.get("txns", jb.get("error")))
            zero_label = lambda t: t
            bad = (not db.get("ok")) or (not jb.get("ok")) or jb.get("txns") != c["orig"] or not jb.get("equal") or c.get("dsl_twice_equal") is False
            if db.get("ok") and db["txns"] != c["orig"]:
                # only the currency label of a zero fee or tax may differ
                for a, b in zip(c["orig"], db["txns"]):
                    fa, fb = a.split("|"), b.split("|")
                    if fa != fb and not (fa[:-1] == fb[:-1] and fb[-1] == "GBP" and float(fa[-2]) == 0): bad = True
                if len(db["txns"]) != len(c["orig"]): bad = True
    elif "args" in r and "scenario" in r:
        # a command-layer scenario: the files are rebuilt in a scratch directory and the command is run again
        import os, shutil, subprocess
        from . import build, props_robust as PR
        wd = os.path.join(build.CACHE, "run", "replay-cli"); shutil.rmtree(wd, ignore_errors=True); os.makedirs(os.path.join(wd, "sub.d")); os.makedirs(os.path.join(wd, "fx"))
        files = PR.cli_files()
        for f, c in files.items(): open(os.path.join(wd, f), "wb").write(c)
        open(os.path.join(wd, "old.txt"), "wb").write(b"OLD")
        dp = r["scenario"].get("default_pdf_path")
        if dp: open(os.path.join(wd, dp), "wb").write(b"SENTINEL")
        before = PR.snapshot(wd); rc, out, err = PR.cli(r["args"], wd); after = PR.snapshot(wd)
        changed = sorted(k for k, v in after.items() if before.get(k) != v)
        print("  command: cgt-tool %s\n  exit %s, %d bytes on standard output, files changed %s\n  stderr: %s" % (" ".join(r["args"]), rc, len(out), changed, err[-200:].decode("utf-8", "replace")))
        mm = r.get("model") or {}
        m_wr = sorted(binascii.unhexlify(e["write"]).decode() for e in mm.get("effects", []) if "write" in e)
        print("  model  : %s, writes %s" % ("success" if mm.get("ok") else "failure", m_wr))
        bad = (rc == 0) != bool(mm.get("ok")) or (rc != 0 and (bool(out.strip()) or bool(changed))) or (rc == 0 and changed != m_wr)
        shutil.rmtree(wd, ignore_errors=True)
    else:
        print(json.dumps({k: v for k, v in r.items() if k not in ("code", "model")}, indent=1)[:3000])
        print("  (this kind of replay records the failing session / files; re-run ./check %s to re-execute it)" % r.get("property"))
        bad = True
    print("REPRODUCED" if bad else "NOT REPRODUCED on the current tree")
    return 1 if bad else 0
