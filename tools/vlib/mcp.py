"""Driver for `cgt-tool mcp` over stdio (newline-delimited JSON-RPC 2.0)."""
import json, os, subprocess, threading, time, queue, shutil
from . import build

class Session:
    def __init__(self, workdir):
        os.makedirs(workdir, exist_ok=True)
        env = dict(build.ENV, HOME=workdir)
        self.p = subprocess.Popen([build.CLI, "mcp"], cwd=workdir, stdin=subprocess.PIPE, stdout=subprocess.PIPE, stderr=subprocess.PIPE, env=env)
        self.q = queue.Queue(); self.lines = []
        self.t = threading.Thread(target=self._reader, daemon=True); self.t.start()
        self.err = []
        self.te = threading.Thread(target=self._err_reader, daemon=True); self.te.start()
    def _reader(self):
        for line in self.p.stdout:
            self.q.put(line)
        self.q.put(None)
    def _err_reader(self):
        for line in self.p.stderr: self.err.append(line)
    def send_raw(self, data):
        try:
            self.p.stdin.write(data); self.p.stdin.flush(); return True
        except (BrokenPipeError, OSError):
            return False
    def send(self, obj): return self.send_raw((json.dumps(obj) + "\n").encode())
    def collect(self, want_ids, timeout=30.0):
        """read until every id in want_ids has a response (or timeout / EOF); returns {id: [responses]} and stray messages"""
        got = {}; stray = []; deadline = time.time() + timeout; eof = False
        while time.time() < deadline and not all(i in got for i in want_ids):
            try: line = self.q.get(timeout=max(0.01, deadline - time.time()))
            except queue.Empty: break
            if line is None: eof = True; break
            try: msg = json.loads(line)
            except Exception: stray.append(line.decode("utf-8", "replace")); continue
            if isinstance(msg, dict) and "id" in msg and ("result" in msg or "error" in msg): got.setdefault(json.dumps(msg["id"]), []).append(msg)
            else: stray.append(msg)
        return got, stray, eof
    def drain(self, wait=0.5):
        extra = []; end = time.time() + wait
        while time.time() < end:
            try: line = self.q.get(timeout=0.05)
            except queue.Empty: continue
            if line is None: break
            extra.append(line)
        return extra
    def alive(self): return self.p.poll() is None
    def close(self, timeout=10.0):
        try: self.p.stdin.close()
        except Exception: pass
        try: rc = self.p.wait(timeout=timeout)
        except subprocess.TimeoutExpired:
            self.p.kill(); rc = None
        return rc

def init(sess):
    sess.send({"jsonrpc": "2.0", "id": "init", "method": "initialize", "params": {"protocolVersion": "2024-11-05", "capabilities": {}, "clientInfo": {"name": "verif", "version": "0"}}})
    got, stray, eof = sess.collect(['"init"'], timeout=20)
    sess.send({"jsonrpc": "2.0", "method": "notifications/initialized"})
    return '"init"' in got

def call(i, tool, args): return {"jsonrpc": "2.0", "id": i, "method": "tools/call", "params": {"name": tool, "arguments": args}}

def tool_text(resp):
    """the text payload of a tools/call result, or None; and whether it is flagged as an error"""
    if "result" in resp:
        r = resp["result"]; c = r.get("content") or []
        txt = c[0].get("text") if c and isinstance(c[0], dict) else None
        return txt, bool(r.get("isError"))
    return None, True
