"""Abstract ledgers: the one representation every generator produces; rendered to DSL
for the code and to model-driver lines (exact fractions) for the model."""
import datetime, re
from fractions import Fraction as F
from decimal import Decimal

class Line:
    __slots__ = ("date", "tick", "kind", "a", "v", "vcur", "x", "xcur")
    def __init__(self, date, tick, kind, a=None, v=None, vcur="GBP", x=None, xcur="GBP"):
        # a: quantity (BUY/SELL/CAPRETURN/ACCUMULATION) or ratio (SPLIT/UNSPLIT); v: price or total value
        # x: fees or tax.  Numbers are decimal strings.
        self.date, self.tick, self.kind, self.a, self.v, self.vcur, self.x, self.xcur = date, tick, kind, a, v, vcur, x, xcur
    def copy(self, **kw):
        l = Line(self.date, self.tick, self.kind, self.a, self.v, self.vcur, self.x, self.xcur)
        for k, val in kw.items(): setattr(l, k, val)
        return l
    def key(self):
        return (self.date, self.tick, self.kind, self.a, self.v, self.vcur, self.x, self.xcur)
    def __repr__(self): return render_line(self)

def money(v, cur):
    return v if cur == "GBP" else "%s %s" % (v, cur)

def render_line(l):
    d = l.date.isoformat()
    k = l.kind
    if k in ("BUY", "SELL"):
        s = "%s %s %s %s @ %s" % (d, k, l.tick, l.a, money(l.v, l.vcur))
        if l.x is not None: s += " FEES " + money(l.x, l.xcur)
    elif k == "DIVIDEND":
        s = "%s DIVIDEND %s TOTAL %s" % (d, l.tick, money(l.v, l.vcur))
        if l.x is not None: s += " TAX " + money(l.x, l.xcur)
    elif k == "ACCUMULATION":
        s = "%s ACCUMULATION %s %s TOTAL %s" % (d, l.tick, l.a, money(l.v, l.vcur))
        if l.x is not None: s += " TAX " + money(l.x, l.xcur)
    elif k == "CAPRETURN":
        s = "%s CAPRETURN %s %s TOTAL %s" % (d, l.tick, l.a, money(l.v, l.vcur))
        if l.x is not None: s += " FEES " + money(l.x, l.xcur)
    elif k in ("SPLIT", "UNSPLIT"):
        s = "%s %s %s RATIO %s" % (d, k, l.tick, l.a)
    else:
        raise ValueError(k)
    return s

def render(lines):
    return "".join(render_line(l) + "\n" for l in lines)

def fr(x):
    x = F(x)
    return "%d/%d" % (x.numerator, x.denominator) if x.denominator != 1 else str(x.numerator)

def ordinal(d):
    return d.toordinal()   # == chrono num_days_from_ce

def model_lines(lines, rate=None):
    """Model-driver T lines for a GBP ledger.  `rate(cur, date) -> Fraction` converts foreign amounts
    (amount / rate); None means every amount must be GBP."""
    out = []
    def g(v, cur, d):
        if v is None: return F(0)
        if cur == "GBP": return F(v)
        if rate is None: raise ValueError("foreign amount without rates")
        return F(v) / rate(cur, d)
    for l in lines:
        h = "T %d %s " % (ordinal(l.date), l.tick.upper())
        k = l.kind
        if k in ("BUY", "SELL"):
            out.append(h + "%s %s %s %s" % (k, fr(l.a), fr(g(l.v, l.vcur, l.date)), fr(g(l.x, l.xcur, l.date))))
        elif k == "DIVIDEND":
            out.append(h + "DIV %s %s" % (fr(g(l.v, l.vcur, l.date)), fr(g(l.x, l.xcur, l.date))))
        elif k == "CAPRETURN":
            out.append(h + "CAP %s %s %s" % (fr(l.a), fr(g(l.v, l.vcur, l.date)), fr(g(l.x, l.xcur, l.date))))
        elif k == "ACCUMULATION":
            out.append(h + "ACC %s %s %s" % (fr(l.a), fr(g(l.v, l.vcur, l.date)), fr(g(l.x, l.xcur, l.date))))
        elif k in ("SPLIT", "UNSPLIT"):
            out.append(h + "%s %s" % (k, fr(l.a)))
    return out

_KW = {"FEES", "TAX", "TOTAL", "RATIO", "BUY", "SELL"}
def parse_simple(text):
    """A deliberately simple reader for well-formed corpus files (fixtures, reproducers):
    whitespace-separated tokens, '#' comments.  Not a model of the grammar (that is Dsl.v)."""
    lines = []
    for raw in re.split(r"\r\n|\n|\r", text):
        s = raw.split("#")[0].strip()
        if not s: continue
        t = s.split()
        d = datetime.date.fromisoformat(t[0]); kind = t[1].upper(); tick = t[2].upper()
        up = [x.upper() for x in t]
        def mon(i):
            v = t[i]; cur = "GBP"
            if i + 1 < len(t) and re.fullmatch(r"[A-Za-z]{3}", t[i + 1]) and up[i + 1] not in _KW:
                cur = up[i + 1]
            return v, cur
        def clause(key):
            if key in up[3:]:
                return mon(up.index(key, 3) + 1)
            return None, "GBP"
        if kind in ("BUY", "SELL"):
            v, vc = mon(up.index("@") + 1); x, xc = clause("FEES")
            lines.append(Line(d, tick, kind, t[3], v, vc, x, xc))
        elif kind == "DIVIDEND":
            v, vc = clause("TOTAL"); x, xc = clause("TAX")
            lines.append(Line(d, tick, kind, None, v, vc, x, xc))
        elif kind == "ACCUMULATION":
            v, vc = clause("TOTAL"); x, xc = clause("TAX")
            lines.append(Line(d, tick, kind, t[3], v, vc, x, xc))
        elif kind == "CAPRETURN":
            v, vc = clause("TOTAL"); x, xc = clause("FEES")
            lines.append(Line(d, tick, kind, t[3], v, vc, x, xc))
        elif kind in ("SPLIT", "UNSPLIT"):
            lines.append(Line(d, tick, kind, t[up.index("RATIO") + 1]))
        else:
            raise ValueError("kind " + kind)
    return lines

def is_gbp(lines):
    return all(l.vcur == "GBP" and l.xcur == "GBP" for l in lines)
