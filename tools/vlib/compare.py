"""Canonical forms of the two sides' reports and their comparison, observable by observable."""
import re
from fractions import Fraction as F

TOL = F(1, 10**9)

def fq(s): return F(s)

def classify_error(msg):
    """Map a cgt-tool error string to (class, ticker|None, date-iso|None, extra)."""
    m = re.search(r"SELL (\S+) on (\d{4}-\d\d-\d\d): disposal of .* exceeds holding", msg)
    if m: return ("ExceedsHolding", m.group(1), m.group(2), None)
    m = re.search(r"SELL (\S+) on (\d{4}-\d\d-\d\d) has no prior acquisitions", msg)
    if m: return ("NoPrior", m.group(1), m.group(2), None)
    m = re.search(r"SELL (\S+) on (\d{4}-\d\d-\d\d) exceeds holding", msg)
    if m: return ("Unmatched", m.group(1), m.group(2), None)
    m = re.search(r"B&B reservation exceeds buy amount for (\S+) on (\d{4}-\d\d-\d\d)", msg)
    if m: return ("ResvExceeds", m.group(1), m.group(2), None)
    m = re.search(r"SELL (\S+) on (\d{4}-\d\d-\d\d): a split ratio of 0 applies", msg)
    if m: return ("ZeroRatio", m.group(1), m.group(2), None)
    m = re.search(r"CAPRETURN (\S+) on (\d{4}-\d\d-\d\d): capital distribution", msg)
    if m: return ("CapExceeds", m.group(1), m.group(2), None)
    m = re.search(r"Unsupported tax year (\d+)", msg)
    if m: return ("NoExemption", None, None, int(m.group(1)))
    m = re.search(r"Missing FX rate for (\S+) in (\d+)-(\d+)", msg)
    if m: return ("MissingFx", None, None, (m.group(1), int(m.group(2)), int(m.group(3))))
    if "Invalid tax year" in msg or "Invalid date" in msg: return ("TaxYear", None, None, None)
    # wording this table does not know, but a refusal that names a transaction: its security and date are what the properties ask for
    m = re.search(r"\b(?:SELL|BUY|CAPRETURN|ACCUMULATION|SPLIT|UNSPLIT|DIVIDEND)\s+(\S+?)\s+on\s+(\d{4}-\d\d-\d\d)", msg)
    if m and "Parsing error" not in msg and "-->" not in msg: return ("Refusal", m.group(1), m.group(2), None)
    if "Parsing error" in msg or "-->" in msg: return ("Parse", None, None, None)
    return ("Other", None, None, msg[:200])

def merge_legs(legs):
    """Merge consecutive legs with the same rule and acquisition date (the code emits one leg
    per SELL line group, the model one per day)."""
    out = []
    for l in legs:
        if out and out[-1]["rule"] == l["rule"] and out[-1]["acq"] == l["acq"]:
            p = out[-1]
            for k in ("qty", "cost", "gain"): p[k] = p[k] + l[k]
        else:
            out.append(dict(l))
    return out

def canon_rust(rep):
    """harness 'report' json -> canonical dict with Fractions"""
    years = []
    for y in rep["years"]:
        ds = []
        for d in y["disposals"]:
            legs = [{"rule": l["rule"], "qty": fq(l["qty"]), "acq": l["acq"], "cost": fq(l["cost"]), "gain": fq(l["gain"])} for l in d["legs"]]
            ds.append({"date": d["date"], "tick": d["tick"], "qty": fq(d["qty"]), "gross": fq(d["gross"]), "net": fq(d["net"]),
                       "legs_raw": legs, "legs": merge_legs(legs)})
        years.append({"year": y["year"], "gain": fq(y["gain"]), "loss": fq(y["loss"]), "net": fq(y["net"]), "exempt": fq(y["exempt"]),
                      "taxable": fq(y["taxable"]), "count": y["count"], "div_income": fq(y["div_income"]), "div_tax": fq(y["div_tax"]),
                      "disposals": ds})
    hs = [{"tick": h["tick"], "qty": fq(h["qty"]), "cost": fq(h["cost"])} for h in rep["holdings"]]
    return {"years": years, "holdings": hs}

def canon_model(res):
    years = []
    for y in res["years"]:
        ds = []
        for d in y["disposals"]:
            legs = [{"rule": l["rule"], "qty": fq(l["qty"]), "acq": l["acq"], "cost": fq(l["cost"]), "gain": fq(l["gain"])} for l in d["legs"]]
            ds.append({"date": d["date"], "tick": d["tick"], "qty": fq(d["qty"]), "gross": fq(d["gross"]), "net": fq(d["net"]),
                       "legs_raw": legs, "legs": legs})
        years.append({"year": y["year"], "gain": fq(y["gain"]), "loss": fq(y["loss"]), "net": fq(y["net"]), "exempt": fq(y["exempt"]),
                      "taxable": fq(y["taxable"]), "count": len(ds), "div_income": fq(y["div_income"]), "div_tax": fq(y["div_tax"]),
                      "disposals": ds})
    hs = [{"tick": h["tick"], "qty": fq(h["qty"]), "cost": fq(h["cost"])} for h in res["holdings"]]
    return {"years": years, "holdings": hs}

def near(a, b, tol=TOL): return abs(a - b) <= tol

def iso_of_ordinal(n):
    import datetime
    return datetime.date.fromordinal(n).isoformat()

def compare_outcome(model, rust):
    """accept/reject agreement and error class.  Returns list of diffs (observable 'accept')."""
    diffs = []
    if rust.get("stage") == "panic":
        diffs.append(("accept", "code panics: %s" % rust["error"][:120], "model: %s" % ("ok" if model["ok"] else model["errors"][:2])))
        return diffs
    if model["ok"] != rust["ok"]:
        diffs.append(("accept", "model ok=%s%s" % (model["ok"], "" if model["ok"] else " " + str(model["errors"][:2])),
                      "code ok=%s%s" % (rust["ok"], "" if rust["ok"] else " " + rust.get("error", "")[:160])))
        return diffs
    if not model["ok"]:
        cls, tick, date, extra = classify_error(rust.get("error", ""))
        errs = model["errors"]
        ok = False
        for e in errs:
            k = e["kind"]
            if k in ("ExceedsHolding", "NoPrior", "Unmatched"):
                # the position test and the ledger+pool test are one class for the property
                if cls in ("ExceedsHolding", "NoPrior", "Unmatched") and tick == e["tick"] and date == iso_of_ordinal(e["date"]): ok = True
            elif k == "CrashDivZero":     # the model's name for "a zero cumulative ratio reached the look-ahead's division"
                if cls == "ZeroRatio" and tick == e["tick"] and date == iso_of_ordinal(e["date"]): ok = True
            elif k in ("ResvExceeds", "CapExceeds"):
                if cls == k and tick == e["tick"] and date == iso_of_ordinal(e["date"]): ok = True
            elif k == "NoExemption":
                if cls == "NoExemption" and extra == e["year"]: ok = True
            elif k in ("TaxYear", "BadYear"):
                if cls == "TaxYear": ok = True
        if not ok and cls == "Refusal":
            # a reworded message is not a defect: the refusal still has to name the security and the date the model's error names
            for e in errs:
                if e.get("tick") and e.get("date") is not None and tick == e["tick"] and date == iso_of_ordinal(e["date"]): ok = True
        if not ok:
            diffs.append(("error", "model errors %s" % errs[:3], "code error %s" % rust.get("error", "")[:200]))
    return diffs

def compare_reports(m, r, what=("legs", "cost", "gain", "proceeds", "holdings", "totals", "years"), exact_qty=False):
    """m, r canonical.  Returns list of (observable, model-side, code-side).  exact_qty: share counts must be equal, not near
    (used when every share-count operation of the ledger is exact in 28-digit decimals, see classes.residue_site)."""
    diffs = []
    nearq = (lambda a, b: a == b) if exact_qty else near
    my = [y["year"] for y in m["years"]]; ry = [y["year"] for y in r["years"]]
    if my != ry:
        diffs.append(("years", my, ry)); return diffs
    for ym, yr in zip(m["years"], r["years"]):
        km = [(d["date"], d["tick"]) for d in ym["disposals"]]; kr = [(d["date"], d["tick"]) for d in yr["disposals"]]
        if km != kr:
            diffs.append(("years", ("disposals", ym["year"], km), kr)); continue
        for dm, dr in zip(ym["disposals"], yr["disposals"]):
            tag = (dm["date"], dm["tick"])
            if "legs" in what:
                sm = [(l["rule"], l["acq"]) for l in dm["legs"]]; sr = [(l["rule"], l["acq"]) for l in dr["legs"]]
                if sm != sr:
                    diffs.append(("legs", (tag, sm), sr)); continue
                for lm, lr in zip(dm["legs"], dr["legs"]):
                    if not nearq(lm["qty"], lr["qty"]): diffs.append(("legs", (tag, lm["rule"], "qty", str(lm["qty"])), str(lr["qty"])))
                if not nearq(dm["qty"], dr["qty"]): diffs.append(("legs", (tag, "disposal qty", str(dm["qty"])), str(dr["qty"])))
            else:
                if len(dm["legs"]) != len(dr["legs"]): continue
            for lm, lr in zip(dm["legs"], dr["legs"]):
                if "cost" in what and not near(lm["cost"], lr["cost"]): diffs.append(("cost", (tag, lm["rule"], float(lm["cost"])), float(lr["cost"])))
                if "gain" in what and not near(lm["gain"], lr["gain"]): diffs.append(("gain", (tag, lm["rule"], float(lm["gain"])), float(lr["gain"])))
            if "proceeds" in what:
                if not near(dm["gross"], dr["gross"]): diffs.append(("proceeds", (tag, "gross", float(dm["gross"])), float(dr["gross"])))
                if not near(dm["net"], dr["net"]): diffs.append(("proceeds", (tag, "net", float(dm["net"])), float(dr["net"])))
        if "totals" in what:
            for k in ("gain", "loss", "net", "exempt", "taxable", "div_income", "div_tax"):
                if not near(ym[k], yr[k]): diffs.append(("totals", (ym["year"], k, float(ym[k])), float(yr[k])))
            if ym["count"] != yr["count"]: diffs.append(("totals", (ym["year"], "count", ym["count"]), yr["count"]))
    if "holdings" in what:
        hm = [h["tick"] for h in m["holdings"]]; hr = [h["tick"] for h in r["holdings"]]
        if hm != hr: diffs.append(("holdings", hm, hr))
        else:
            for a, b in zip(m["holdings"], r["holdings"]):
                if not nearq(a["qty"], b["qty"]): diffs.append(("holdings", (a["tick"], "qty", str(a["qty"])), str(b["qty"])))
                if "cost" in what and not near(a["cost"], b["cost"]): diffs.append(("holdings", (a["tick"], "cost", float(a["cost"])), float(b["cost"])))
    return diffs
