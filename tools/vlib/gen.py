"""Ledger generators.  Every random choice comes from the one rng passed in."""
import datetime, random
from fractions import Fraction as F
from .ledger import Line

GAPS = [0, 0, 1, 1, 2, 5, 10, 29, 30, 31, 40]
ANCHORS = [(1, 31), (2, 27), (2, 28), (3, 1), (4, 4), (4, 5), (4, 6), (12, 30), (12, 31), (6, 15), (9, 30)]
QTY = ["1", "2", "5", "10", "10", "20", "25", "50", "100", "0.5", "2.5", "12.5", "40", "8", "0.25"]
SMALLQ = ["0.000001", "0.00001", "0.0001", "0.125"]
PRICE = ["1", "2", "2.5", "3", "7", "10.10", "0.5", "12.34", "100", "4.2", "19.99"]
FEES = [None, None, "1", "2.50", "0", "0.75", "12.5"]
RATIOS = ["2", "4", "5", "10"]
FRAC_RATIOS = ["2.5", "1.25", "0.5"]
AWKWARD_RATIOS = ["3", "7", "1.5", "0.3"]
TICKS = ["AAA", "BBB", "CCC", "ZED", "Q1"]

def start_date(rng, lo=2016, hi=2024):
    y = rng.randint(lo, hi)
    if rng.random() < 0.5:
        m, d = rng.choice(ANCHORS)
        if (m, d) == (2, 28) and rng.random() < 0.5 and y % 4 == 0: d = 29
        return datetime.date(y, m, d)
    return datetime.date(y, rng.randint(1, 12), rng.randint(1, 28))

def gen_ledger(rng, events=0.12, splits=0.10, nsec=None, nlines=None, shuffle=0.3, fees=0.6, uncovered=0.08,
               small=0.05, dividends=0.05, ratios=RATIOS, frac_ratio=0.2, max_year=2025):
    """Scenario-shaped random ledger: sales sized against the running holding, competing disposals,
    same-day buy+sell, splits/events anywhere."""
    nsec = nsec or rng.choice([1, 1, 1, 2, 2, 3])
    ticks = rng.sample(TICKS, nsec)
    n = nlines or rng.randint(3, 14)
    day = start_date(rng)
    held = {t: F(0) for t in ticks}
    lines = []
    for i in range(n):
        day = day + datetime.timedelta(days=rng.choice(GAPS))
        if day.year > max_year: day = datetime.date(max_year, 12, 31)
        t = rng.choice(ticks)
        r = rng.random()
        q = rng.choice(SMALLQ if rng.random() < small else QTY)
        p = rng.choice(PRICE)
        f = rng.choice(FEES) if rng.random() < fees else None
        if held[t] == 0 and r < 0.8:
            lines.append(Line(day, t, "BUY", q, p, "GBP", f)); held[t] += F(q)
        elif r < 0.38:
            lines.append(Line(day, t, "BUY", q, p, "GBP", f)); held[t] += F(q)
        elif r < 0.38 + 0.40:
            if rng.random() >= uncovered and F(q) > held[t]:
                # cover: sell a fraction of the holding
                frac = rng.choice([F(1), F(1, 2), F(1, 4), F(1, 5), F(1)])
                qq = held[t] * frac
                if qq == 0: qq = held[t]
                q = dec_str(qq)
            if F(q) == 0:
                lines.append(Line(day, t, "BUY", rng.choice(QTY), p, "GBP", f)); held[t] += F(lines[-1].a); continue
            lines.append(Line(day, t, "SELL", q, p, "GBP", f)); held[t] = max(F(0), held[t] - F(q))
        elif r < 0.78 + splits:
            k = rng.choice(["SPLIT", "SPLIT", "UNSPLIT"])
            ra = rng.choice(FRAC_RATIOS if rng.random() < frac_ratio else ratios)
            lines.append(Line(day, t, k, ra))
            held[t] = held[t] * F(ra) if k == "SPLIT" else held[t] / F(ra)
        elif r < 0.78 + splits + events:
            k = rng.choice(["CAPRETURN", "ACCUMULATION"])
            hq = dec_str(held[t]) if held[t] > 0 else "1"
            lines.append(Line(day, t, k, hq, rng.choice(["1", "5", "10", "0.5", "25"]), "GBP",
                              rng.choice([None, None, "0.5"]) ))
        elif r < 0.78 + splits + events + dividends:
            lines.append(Line(day, t, "DIVIDEND", None, rng.choice(["5", "12.5", "100"]), "GBP", rng.choice([None, "1.5"])))
        else:
            lines.append(Line(day, t, "BUY", q, p, "GBP", f)); held[t] += F(q)
    if rng.random() < shuffle:
        rng.shuffle(lines)
    return lines

def dec_str(x):
    """exact decimal string of a Fraction with a 2^a5^b denominator, else 12-place truncation"""
    x = F(x)
    n, d = x.numerator, x.denominator
    k = 0; dd = d
    while dd % 10 == 0 and dd > 1: dd //= 10; k += 1
    t = dd; a = 0
    while t % 2 == 0: t //= 2; a += 1
    b = 0
    while t % 5 == 0: t //= 5; b += 1
    if t == 1:
        sc = k + max(a, b)
        v = n * 10**sc // d
        s = str(v).rjust(sc + 1, "0")
        out = (s[:-sc] + "." + s[-sc:]) if sc else s
        if "." in out: out = out.rstrip("0").rstrip(".")
        return out
    v = n * 10**12 // d
    s = str(v).rjust(13, "0")
    return (s[:-12] + "." + s[-12:]).rstrip("0").rstrip(".")

def gen_competition(rng):
    """Several disposals competing for one later acquisition that also has a same-day disposal;
    optional split inside the window."""
    t = "AAA"; d0 = start_date(rng)
    lines = [Line(d0, t, "BUY", "1000", rng.choice(PRICE), "GBP", rng.choice(FEES))]
    d = d0 + datetime.timedelta(days=rng.choice([40, 100, 31]))
    sells = rng.randint(2, 4)
    for i in range(sells):
        d = d + datetime.timedelta(days=rng.choice([0, 1, 1, 2, 3]))
        lines.append(Line(d, t, "SELL", rng.choice(["10", "30", "50", "100"]), rng.choice(PRICE), "GBP", rng.choice(FEES)))
    if rng.random() < 0.4:
        ds = d + datetime.timedelta(days=rng.choice([0, 1, 2]))
        lines.append(Line(ds, t, rng.choice(["SPLIT", "UNSPLIT"]), rng.choice(RATIOS)))
    e = d + datetime.timedelta(days=rng.choice([1, 2, 5, 25, 28, 29, 30, 31]))
    lines.append(Line(e, t, "BUY", rng.choice(["20", "50", "80", "200"]), rng.choice(PRICE), "GBP", rng.choice(FEES)))
    if rng.random() < 0.7:
        if rng.random() < 0.3: lines.append(Line(e, "BBB", "BUY", "1", "1", "GBP", None))
        lines.append(Line(e, t, "SELL", rng.choice(["5", "20", "60"]), rng.choice(PRICE), "GBP", rng.choice(FEES)))
        if rng.random() < 0.4:      # buy / sell / buy within the day, at another price
            lines.append(Line(e, t, "BUY", rng.choice(["10", "40", "25"]), rng.choice(PRICE), "GBP", rng.choice(FEES)))
        if rng.random() < 0.2:      # a second, separate sale row the same day
            lines.append(Line(e, "BBB", "BUY", "2", "1", "GBP", None))
            lines.append(Line(e, t, "SELL", rng.choice(["5", "10"]), rng.choice(PRICE), "GBP", None))
    if rng.random() < 0.5:
        e2 = e + datetime.timedelta(days=rng.choice([1, 3, 10]))
        lines.append(Line(e2, t, "BUY", rng.choice(["10", "40"]), rng.choice(PRICE), "GBP", None))
    if rng.random() < 0.3: rng.shuffle(lines)
    return lines

def gen_awkward_exact(rng):
    """Splits and consolidations by ratios whose inverse does not terminate (3, 7, 1.5 ...) applied to holdings that
    divide exactly, then a sale of the whole (or half, or one share too many) of the holding: every share count the
    code computes is an exact decimal, so no 28-digit residue can excuse a difference."""
    t = rng.choice(TICKS); d = start_date(rng); r = rng.choice(["3", "6", "7", "9", "1.5", "0.3", "12"])
    k = rng.choice(["UNSPLIT", "UNSPLIT", "SPLIT"])
    unit = F(r) if k == "UNSPLIT" else F(1)
    q0 = unit * rng.choice([1, 2, 5, 10, 40]) * rng.choice([1, 3])
    lines = [Line(d, t, "BUY", dec_str(q0), rng.choice(PRICE), "GBP", rng.choice(FEES))]
    held = q0
    if rng.random() < 0.4:
        d = d + datetime.timedelta(days=rng.choice([1, 10, 45]))
        q1 = unit * rng.choice([1, 4]); lines.append(Line(d, t, "BUY", dec_str(q1), rng.choice(PRICE), "GBP", None)); held += q1
    d = d + datetime.timedelta(days=rng.choice([0, 1, 20, 40]))
    lines.append(Line(d, t, k, r)); held = held / F(r) if k == "UNSPLIT" else held * F(r)
    if rng.random() < 0.25:
        d = d + datetime.timedelta(days=rng.choice([0, 1, 5]))
        k2 = "SPLIT" if k == "UNSPLIT" else "UNSPLIT"
        lines.append(Line(d, t, k2, r)); held = held * F(r) if k2 == "SPLIT" else held / F(r)
    d = d + datetime.timedelta(days=rng.choice([1, 3, 35, 60]))
    sell = rng.choice([held, held, held / 2, held + 1, held - 1])
    if sell <= 0: sell = held
    lines.append(Line(d, t, "SELL", dec_str(sell), rng.choice(PRICE), "GBP", rng.choice(FEES)))
    if rng.random() < 0.4:
        d = d + datetime.timedelta(days=rng.choice([2, 10, 31]))
        lines.append(Line(d, t, "BUY", rng.choice(["3", "10", "21"]), rng.choice(PRICE), "GBP", None))
    if rng.random() < 0.2: rng.shuffle(lines)
    return lines

def family(rng, kind="mixed"):
    r = rng.random()
    if kind in ("mixed", "splits", "noevents") and r > 0.92: return gen_awkward_exact(rng)
    if kind == "plain":     # no splits, no events
        return gen_ledger(rng, events=0, splits=0)
    if kind == "noevents":
        return gen_competition(rng) if r < 0.25 else gen_ledger(rng, events=0)
    if kind == "competition":
        return gen_competition(rng)
    if kind == "events":
        return gen_ledger(rng, events=0.25, splits=0.05)
    if kind == "splits":
        return gen_ledger(rng, events=0.0, splits=0.25)
    return gen_competition(rng) if r < 0.2 else gen_ledger(rng)
