"""C13 (lexical invariance of the DSL reader) and C14 (DSL / JSON round trips)."""
import re, datetime, binascii, json
from fractions import Fraction as F
from . import run, build, compare, ledger, gen
from .ledger import Line

_CODES = None; _INFO = None
def currencies():
    global _CODES, _INFO
    if _CODES is None:
        r = run.run_harness([{"id": "c", "op": "currencies"}])["c"]
        _CODES = r["codes"]; _INFO = r["info"]
    return _CODES
def currency_info():
    currencies(); return _INFO

def hexs(s): return binascii.hexlify(s.encode("utf-8") if isinstance(s, str) else s).decode()

def model_parse(texts):
    """texts: {id: str|bytes} -> {id: result}"""
    cur = "CUR " + " ".join(currencies())
    cases = [(cid, [cur, "RUN dsl_parse x" + hexs(t)]) for cid, t in texts.items()]
    return run.run_model(cases)

def code_parse(texts):
    return run.run_harness([{"id": cid, "op": "parse", "text_hex": hexs(t)} for cid, t in texts.items()])

def err_line(msg):
    m = re.search(r"-->\s*(\d+):(\d+)", msg)
    return int(m.group(1)) if m else None

# ---------------- generators ----------------
KINDS = ["BUY", "SELL", "DIVIDEND", "ACCUMULATION", "CAPRETURN", "SPLIT", "UNSPLIT"]
def rand_dec(rng, small=True):
    if small or rng.random() < 0.6:
        return rng.choice(["1", "10", "0.5", "12.34", "100", "0.001", "7.50", "1000000", "0.10", "3"])
    nd = rng.randint(1, 28); sc = rng.randint(0, min(28, nd + 3))
    m = rng.randrange(10 ** (nd - 1), 10 ** nd)
    if rng.random() < 0.1: m = 2 ** 96 - 1 - rng.randrange(0, 3); sc = rng.randint(0, 28)
    s = str(m).rjust(sc + 1, "0")
    return (s[:-sc] + "." + s[-sc:]) if sc else s

def rand_date(rng):
    if rng.random() < 0.1: return rng.choice([datetime.date(2024, 2, 29), datetime.date(2000, 2, 29), datetime.date(1999, 12, 31), datetime.date(1, 1, 1), datetime.date(9999, 12, 31), datetime.date(2023, 4, 5)])
    return datetime.date(rng.randint(2015, 2025), rng.randint(1, 12), rng.randint(1, 28))

def rand_tick(rng):
    return rng.choice(["AAPL", "A", "VOD", "X9", "7UP", "BUYER", "SELLCO", "TAXI", "FEES", "TOTAL1", "GBP", "USD", "RATIO", "SPLITX", "Q", "ABCDEFGHIJ"])

def rand_lines(rng, n=None, big=False, fx=True):
    codes = currencies()
    def cur():
        if not fx or rng.random() < 0.5: return "GBP"
        return rng.choice(["USD", "EUR", "JPY", "CHF"]) if rng.random() < 0.7 else rng.choice(codes)
    out = []
    for i in range(n or rng.randint(1, 6)):
        k = rng.choice(KINDS); d = rand_date(rng); t = rand_tick(rng)
        x = rng.choice([None, None, "0", rand_dec(rng, not big)])
        if k in ("BUY", "SELL"): out.append(Line(d, t, k, rand_dec(rng, not big), rand_dec(rng, not big), cur(), x, cur()))
        elif k == "DIVIDEND": out.append(Line(d, t, k, None, rand_dec(rng, not big), cur(), x, cur()))
        elif k in ("ACCUMULATION", "CAPRETURN"): out.append(Line(d, t, k, rand_dec(rng, not big), rand_dec(rng, not big), cur(), x, cur()))
        else: out.append(Line(d, t, k, rand_dec(rng, not big)))
    return out

def rcase(rng, s): return "".join(c.lower() if rng.random() < 0.5 else c.upper() for c in s)
def ws(rng, minimum=1):
    n = rng.choice([minimum, minimum, 1, 2, 3]); return "".join(rng.choice(" \t") for _ in range(max(n, minimum)))
COMMENT_CHARS = "abc XYZ 0123 #@!$%^&*()-_=+[]{};:'\",.<>/?|\\~`é€"
def comment(rng): return "#" + "".join(rng.choice(COMMENT_CHARS) for _ in range(rng.randint(0, 12)))

def decorate(rng, lines):
    """a rendering of the same transaction list with random layout, case, comments, line endings"""
    out = []
    def money(v, c):
        s = v
        if c != "GBP" or rng.random() < 0.3: s += ws(rng) + rcase(rng, c)
        return s
    def nl(): return rng.choice(["\n", "\n", "\r\n", "\r"])
    for l in lines:
        while rng.random() < 0.25:
            out.append(rng.choice(["", ws(rng, 0), comment(rng), ws(rng) + comment(rng)]) + nl())
        kw = lambda k: rcase(rng, k)
        toks = [l.date.isoformat(), kw(l.kind), rcase(rng, l.tick)]
        if l.kind in ("BUY", "SELL"):
            toks += [l.a, "@", money(l.v, l.vcur)]
            if l.x is not None: toks += [kw("FEES"), money(l.x, l.xcur)]
            elif rng.random() < 0.15: toks += [kw("FEES"), money("0", "GBP")]
        elif l.kind == "DIVIDEND":
            toks += [kw("TOTAL"), money(l.v, l.vcur)]
            if l.x is not None: toks += [kw("TAX"), money(l.x, l.xcur)]
        elif l.kind in ("ACCUMULATION", "CAPRETURN"):
            toks += [l.a, kw("TOTAL"), money(l.v, l.vcur)]
            if l.x is not None: toks += [kw("TAX" if l.kind == "ACCUMULATION" else "FEES"), money(l.x, l.xcur)]
        else:
            toks += [kw("RATIO"), l.a]
        s = ws(rng, 0) + toks[0]
        for t in toks[1:]: s += ws(rng) + t
        s += ws(rng, 0)
        if rng.random() < 0.35: s += (ws(rng, 0) + comment(rng))
        out.append(s + nl())
    while rng.random() < 0.2: out.append(rng.choice(["", comment(rng)]) + nl())
    text = "".join(out)
    if rng.random() < 0.4: text = text.rstrip("\r\n")     # missing final newline
    return text

def corrupt(rng, text):
    """corrupt one token of a valid file; returns (text, line_number_of_the_corruption)"""
    ls = re.split(r"(\r\n|\n|\r)", text)
    idx = [i for i in range(0, len(ls), 2) if ls[i].strip() and not ls[i].strip().startswith("#")]
    if not idx: return text, None
    i = rng.choice(idx); line = ls[i]
    toks = re.findall(r"\S+|\s+", line)
    ti = [j for j, t in enumerate(toks) if t.strip()]
    j = rng.choice(ti); t = toks[j]
    how = rng.choice(["drop", "garble", "dup", "alpha", "minus", "date", "badcur"])
    if how == "drop": toks[j] = ""
    elif how == "garble": toks[j] = t[:-1] + "!"
    elif how == "dup": toks[j] = t + " " + t
    elif how == "alpha": toks[j] = "x" + t if t[0].isdigit() else t + "-"
    elif how == "minus": toks[j] = "-" + t
    elif how == "date": toks[ti[0]] = rng.choice(["2024-13-01", "2024-02-30", "24-01-01", "2024/01/01", "2023-02-29"])
    elif how == "badcur": toks[j] = t + " XQZ" if re.fullmatch(r"[0-9.]+", t) else t + "Q"
    ls[i] = "".join(toks)
    return "".join(ls), i // 2 + 1

RAW = [
 "2024-01-01 BUYAAPL 1@2", "2024-01-01 buy a 1 @2usd", "2024-01-01 BUY A 1 @ 2 USDFEES 1", "2024-01-01 BUY A 1. @ 2", "2024-01-01 BUY A .5 @ 2",
 "2024-01-01 BUY A 1 @ 2 FEES", "2024-01-01 BUY A 1 @ 2 FEES 1 TAX 2", "2024-01-01 BUY TAX 1 @ 2 TAX", "2024-01-01 BUY A 1 @ 2 BUY", "2024-01-01 DIVIDEND A TOTAL 5 TAX",
 "2024-01-01 DIVIDEND A TOTAL 5 TAX 1 EUR#c", "2024-01-01 SPLIT A RATIO 2 3", "2024-01-01 SPLIT A RATIO2", "2024-01-01 UNSPLITA RATIO 2", "2024-01-01 SPLIT A 2",
 "2024-01-01\tSELL\tA\t1\t@\t2\tGBP\tFEES\t0", "2024-01-01 SELL A 1 @ 2 gbp-", "2024-01-01 SELL A 1 @ 2 GBPX", "2024-01-01 SELL A 1 @ 2 GB", "2024-01-01 SELL A 1 @ 2 ZZZ",
 "2024-01-01 BUY A 1 @ 0.0000000000000000000000000001", "2024-01-01 BUY A 1 @ 0.00000000000000000000000000001", "2024-01-01 BUY A 79228162514264337593543950335 @ 1",
 "2024-01-01 BUY A 79228162514264337593543950336 @ 1", "2024-01-01 BUY A 1 @ 1\r2024-01-02 BUY A 1 @ 1\r", "#only\r\n\r\n", "", "\n\n\n", "2024-01-01 BUY A 1 @ 1 #x\n#y\n \t\n2024-01-02 SELL A 1 @ 2",
 "2024-01-01 BUY A 1 @ 1\n2024-01-02 BUY A @ 1\n2024-13-01 BUY A 1 @ 1", "2024-13-01 BUY A 1 @ 1\n2024-01-02 BUY A @ 1", "2024-01-01 CAPRETURN A 5 TOTAL 1 TAX 1", "2024-01-01 ACCUMULATION A 5 TOTAL 1 FEES 1",
 "0000-01-01 BUY A 1 @ 1", "2024-02-29 BUY A 1 @ 1", "2023-02-29 BUY A 1 @ 1", "2024-01-01  BUY  A  001.500  @  02", "2024-01-01 BUY A 1 @ 1 EUR FEES 2 usd # t", "2024-01-01 BUY é 1 @ 1", "2024-01-01 BUY A 1 @ 1 # € comment",
]

# ---------------- C13 ----------------
def c13_through_cli(ctx, texts, meta, r):
    """`cgt-tool parse`, the property's second observation point: a decorated text in one file, and the same text cut at a line boundary into
    two files of which the first has lost its final newline, must print the transactions the library reads from the text."""
    import os, shutil, subprocess
    rng = ctx.rng
    root = os.path.join(build.CACHE, "run", "c13cli-%d" % os.getpid()); shutil.rmtree(root, ignore_errors=True); os.makedirs(root)
    try:
        ids = [c for c in texts if meta[c][0] == "decorated" and r[c].get("ok") and len(r[c].get("txns", [])) >= 2][:ctx.n(25, 400)]
        for n, cid in enumerate(ids):
            t = texts[cid]; t = t if isinstance(t, str) else t.decode("utf-8")
            wd = os.path.join(root, "t%d" % n); os.makedirs(wd)
            open(os.path.join(wd, "one.cgt"), "w", newline="").write(t)
            # cut after a line terminator; the first file drops that terminator (a file without final newline), the CLI's join restores a line break
            cuts = [m.end() for m in re.finditer(r"\r\n|\n|\r", t) if 0 < m.end() < len(t)]
            cmds = [(["parse", "one.cgt"], "one file")]
            if cuts:
                k = rng.choice(cuts); head = t[:k]
                head = head[:-2] if head.endswith("\r\n") else head[:-1]
                open(os.path.join(wd, "a.cgt"), "w", newline="").write(head); open(os.path.join(wd, "b.cgt"), "w", newline="").write(t[k:])
                cmds.append((["parse", "a.cgt", "b.cgt"], "two files, the first without final newline"))
            want = json.loads(r[cid]["json_pretty"]) if r[cid].get("json_pretty") else None
            for args, what in cmds:
                p = subprocess.run([build.CLI] + args, cwd=wd, stdout=subprocess.PIPE, stderr=subprocess.PIPE, env=dict(build.ENV, HOME=wd), timeout=60)
                ctx.evaluations += 1; ctx.count("cli_parse", what)
                got = None
                if p.returncode == 0:
                    try: got = json.loads(p.stdout)
                    except Exception: got = None
                if p.returncode != 0 or got != want:
                    ctx.disagreements_checked += 1
                    ctx.violation("`cgt-tool %s` (%s) does not print the transactions read from the text: exit %s, %s transactions instead of %s; %s" %
                                  (" ".join(args), what, p.returncode, len(got) if isinstance(got, list) else "?", len(want) if want is not None else "?", p.stderr[-160:].decode("utf-8", "replace")),
                                  {"text": t, "text_hex": hexs(t), "files": {a: open(os.path.join(wd, a), newline="").read() for a in args[1:]}, "stdout": p.stdout[-600:].decode("utf-8", "replace"), "case_id": cid}, found_input=True)
                    return
    finally:
        shutil.rmtree(root, ignore_errors=True)

def k_c13(ctx):
    rng = ctx.rng
    texts = {}; meta = {}
    for i, t in enumerate(RAW):
        texts["raw%d" % i] = t; meta["raw%d" % i] = ("raw", None, None)
    n = ctx.n(2500, 60000)
    for i in range(n):
        ls = rand_lines(rng, big=(rng.random() < 0.2))
        canon = ledger.render(ls)
        deco = decorate(rng, ls)
        texts["c%d" % i] = canon; meta["c%d" % i] = ("canon", None, None)
        texts["d%d" % i] = deco; meta["d%d" % i] = ("decorated", "c%d" % i, None)
        if rng.random() < 0.5:
            bad, ln = corrupt(rng, deco)
            texts["x%d" % i] = bad; meta["x%d" % i] = ("corrupted", None, ln)
    m = model_parse(texts); r = code_parse(texts)
    for cid, t in texts.items():
        ctx.evaluations += 1; ctx.traces += 1
        mm, rr = m[cid], r[cid]; kind, ref, ln = meta[cid]
        ctx.count("text_kind", kind)
        ctx.count("code_outcome", "ok" if rr.get("ok") else "reject")
        if kind != "canon": ctx.nontrivial.add(t)
        ctx.sample({"id": cid, "text": t, "code_ok": rr.get("ok")}, limit=6)
        if not mm["ok"] and mm.get("why") == "Unsupported":
            ctx.count("model_unsupported_decimal", 1); continue
        # oracle on the code alone
        bad = None
        if kind == "decorated":
            base = r[ref]
            if base.get("ok") != rr.get("ok") or (rr.get("ok") and norm_show(base["txns"]) != norm_show(rr["txns"])):
                bad = ("layout_invariance", "decorated text parses differently from the plain rendering: %s vs %s" % (brief(rr), brief(base)))
        if kind == "corrupted" and not mm["ok"] and rr.get("ok"):
            bad = ("nothing_skipped", "text with a corrupted line %s is accepted" % ln)
        if bad is None and not rr.get("ok") and not mm["ok"]:
            el = err_line(rr.get("error", ""))
            if el != mm["line"] and "\r" not in t.replace("\r\n", ""):
                bad = ("error_line", "error reported at line %s, the offending line is %s" % (el, mm["line"]))
            elif el != mm["line"]:
                ctx.count("cr_only_line_number_differs", 1)
                from .props_ledger2 import load_known_text
                kt = load_known_text("C13", "kf_cr_only_error_line")
                if kt: ctx.known(kt)
                else: bad = ("error_line", "CR-only file: error reported at line %s, the offending line is %s" % (el, mm["line"]))
        if bad:
            ctx.disagreements_checked += 1
            ctx.violation("%s: %s" % bad, {"text": t, "text_hex": hexs(t), "model": mm, "code": rr, "case_id": cid}, found_input=True); continue
        # K: model vs code
        kd = None
        if mm["ok"] != rr.get("ok"): kd = "accept: model %s, code %s" % (brief(mm), brief(rr))
        elif mm["ok"] and mm["txns"] != rr["txns"]: kd = "transactions differ: model %s, code %s" % (mm["txns"][:3], rr["txns"][:3])
        if kd:
            ctx.disagreements_checked += 1
            ctx.violation("correspondence K.C13.parse broken: %s" % kd, {"text": t, "text_hex": hexs(t), "model": mm, "code": rr, "correspondence": "K.C13.parse", "case_id": cid}, found_input=False)
    c13_through_cli(ctx, texts, meta, r)

def brief(x):
    if x.get("ok"): return "ok %d txns" % len(x.get("txns", []))
    return "reject(%s)" % (x.get("why") or (x.get("error", "")[:80]))
def norm_show(ts):
    # an explicit zero clause (FEES 0) and an omitted one denote the same transaction
    return ts

# ---------------- C14 ----------------
def dec_parts(s):
    if "." in s: ip, fp = s.split(".")
    else: ip, fp = s, ""
    return str(int(ip + fp)), str(len(fp))

def api_case(rng, n=None, big=True, report=False):
    ls = rand_lines(rng, n=n, big=big and not report, fx=True)
    if report:
        for l in ls:
            l.date = datetime.date(rng.randint(2016, 2024), rng.randint(1, 12), rng.randint(1, 28))
            if l.vcur not in ("GBP", "USD", "EUR"): l.vcur = "USD"
            if l.xcur not in ("GBP", "USD", "EUR"): l.xcur = "EUR"
    spec = []; drv = []
    for l in ls:
        x = l.x if l.x is not None else "0"
        xc = l.xcur if l.x is not None else rng.choice(["GBP", l.xcur])
        spec.append({"date": l.date.isoformat(), "tick": l.tick, "kind": l.kind, "a": l.a or "0", "v": l.v or "0", "vcur": l.vcur, "x": x, "xcur": xc})
        h = "DTX %d %d %d %s %s " % (l.date.year, l.date.month, l.date.day, l.tick, l.kind)
        if l.kind in ("BUY", "SELL", "ACCUMULATION", "CAPRETURN"):
            drv.append(h + " ".join(dec_parts(l.a) + (dec_parts(l.v)[0], dec_parts(l.v)[1], l.vcur) + (dec_parts(x)[0], dec_parts(x)[1], xc)))
        elif l.kind == "DIVIDEND":
            drv.append(h + " ".join((dec_parts(l.v)[0], dec_parts(l.v)[1], l.vcur) + (dec_parts(x)[0], dec_parts(x)[1], xc)))
        else:
            drv.append(h + " ".join(dec_parts(l.a)))
    return spec, drv

# ---------------- JSON trees (K.C14.json: Model/Json.v against models.rs / amount.rs serde) ----------------
# tree = ("S", str) | ("O", [(key, tree), ...]) | ("X", python value written with json.dumps: number / null / bool)
def S(x): return ("S", x)
def O(*fs): return ("O", list(fs))
def tree_text(t):
    if t[0] == "S": return json.dumps(t[1])
    if t[0] == "X": return json.dumps(t[1])
    return "{" + ",".join(json.dumps(k) + ":" + tree_text(v) for k, v in t[1]) + "}"
def tree_tokens(t):
    if t[0] == "S": return ["S" + hexs(t[1])]
    if t[0] == "X": return ["X"]
    out = ["O%d" % len(t[1])]
    for k, v in t[1]: out += ["K" + hexs(k)] + tree_tokens(v)
    return out
def tree_of_python(v):
    """json.loads value -> tree (object key order kept; arrays do not occur inside a transaction)"""
    if isinstance(v, str): return ("S", v)
    if isinstance(v, dict): return ("O", [(k, tree_of_python(x)) for k, x in v.items()])
    return ("X", v)
def tree_of_model(v):
    """driver json_write output (hex-coded strings) -> tree"""
    unh = lambda h: binascii.unhexlify(h).decode("utf-8", "replace")
    if isinstance(v, str): return ("S", unh(v))
    if isinstance(v, dict): return ("O", [(unh(k), tree_of_model(x)) for k, x in v.items()])
    return ("X", v)
def tree_canon(t):
    """order-insensitive form for comparing what the two writers wrote"""
    if t[0] == "O": return ("O", sorted((k, tree_canon(v)) for k, v in t[1]))
    return (t[0], json.dumps(t[1]))

def spec_tree(t):
    m = lambda v, c: O(("amount", S(v)), ("currency", S(c)))
    h = [("date", S(t["date"])), ("ticker", S(t["tick"])), ("action", S(t["kind"]))]
    k = t["kind"]
    if k in ("BUY", "SELL"): h += [("amount", S(t["a"])), ("price", m(t["v"], t["vcur"])), ("fees", m(t["x"], t["xcur"]))]
    elif k == "DIVIDEND": h += [("total_value", m(t["v"], t["vcur"])), ("tax_paid", m(t["x"], t["xcur"]))]
    elif k == "ACCUMULATION": h += [("amount", S(t["a"])), ("total_value", m(t["v"], t["vcur"])), ("tax_paid", m(t["x"], t["xcur"]))]
    elif k == "CAPRETURN": h += [("amount", S(t["a"])), ("total_value", m(t["v"], t["vcur"])), ("fees", m(t["x"], t["xcur"]))]
    else: h += [("ratio", S(t["a"]))]
    return ("O", h)

DEC_ODD = ["0", "0.00", "-1", "+2", "1e3", "", "abc", "1.", ".5", "007.50", "1_000", " 1", "1.0000000000000000000000000000",
           "0.00000000000000000000000000001", "79228162514264337593543950335", "79228162514264337593543950336", "1.5.2"]
def mutate_tree(rng, tree, codes):
    """one reader-facing variation of a written transaction: the lenient forms the reader accepts, the forms it must
    refuse, and forms the model leaves to the libraries.  Returns (tree, label)."""
    if tree[0] != "O": return tree, "none"
    fs = list(tree[1]); keys = [k for k, _ in fs]
    act = dict(fs).get("action"); act = act[1] if act and act[0] == "S" else None
    def setk(k, v): return ("O", [(a, (v if a == k else b)) for a, b in fs])
    def getk(k): return dict(fs).get(k)
    money_keys = [k for k, v in fs if k in ("price", "fees", "total_value", "tax_paid") and v[0] == "O" and {"amount", "currency"} <= set(dict(v[1]))]
    dec_keys = [k for k in keys if k in ("amount", "ratio")]
    choice = rng.choice(["plain", "drop_opt", "drop_req", "case", "cap_return", "bad_action", "extra", "extra_money", "gbp_key", "cur",
                         "dec_odd", "money_odd", "number", "date", "ticker", "dup", "not_object", "no_action", "action_type", "reorder", "none"])
    if choice == "plain" and money_keys:
        k = rng.choice(money_keys); v = getk(k)
        if v[0] == "O" and dict(v[1]).get("amount", ("X", 0))[0] == "S": return setk(k, S(dict(v[1])["amount"][1])), "plain"
    if choice == "drop_opt":
        ks = [k for k in keys if k in ("fees", "tax_paid")]
        if ks: return ("O", [(a, b) for a, b in fs if a != ks[0]]), "drop_opt"
    if choice == "drop_req":
        req = [k for k in keys if k not in ("fees", "tax_paid")]
        if not req: return tree, "none"
        k = rng.choice(req)
        return ("O", [(a, b) for a, b in fs if a != k]), "drop_req"
    if choice == "case" and act is not None:
        a = act; return setk("action", S(rcase(rng, a))), "case"
    if choice == "cap_return" and act == "CAPRETURN":
        return setk("action", S(rcase(rng, "CAP_RETURN"))), "cap_return"
    if choice == "bad_action":
        return setk("action", S(rng.choice(["HOLD", "", "BUY ", "SPLITS", "CAP-RETURN", "buy_", "DIV"]))), "bad_action"
    if choice == "extra":
        i = rng.randint(0, len(fs)); g = list(fs); g.insert(i, (rng.choice(["note", "gbp", "Amount", "currency", "id"]), rng.choice([S("x"), ("X", 1), ("X", None), O(("a", S("b")))])))
        return ("O", g), "extra"
    if choice == "extra_money" and money_keys:
        k = rng.choice(money_keys); v = getk(k); g = list(v[1]); g.insert(rng.randint(0, len(g)), (rng.choice(["note", "Currency", "rate"]), rng.choice([S("x"), ("X", 2.5), ("X", None)])))
        return setk(k, ("O", g)), "extra_money"
    if choice == "gbp_key" and money_keys:
        k = rng.choice(money_keys); v = getk(k); g = list(v[1]); g.insert(rng.randint(0, len(g)), ("gbp", S("1")))
        return setk(k, ("O", g)), "gbp_key"
    if choice == "cur" and money_keys:
        k = rng.choice(money_keys); v = getk(k); d = dict(v[1])
        c = rng.choice(["usd", "Gbp", "ZZZ", "", "US", "USDX", "EU R", rng.choice(codes), rng.choice(codes).lower(), None, 7])
        if c is None: return setk(k, O(("amount", d["amount"]))), "cur_missing"
        if c == 7: return setk(k, O(("amount", d["amount"]), ("currency", ("X", 7)))), "cur_number"
        return setk(k, O(("amount", d["amount"]), ("currency", S(c)))), "cur"
    if choice == "dec_odd" and dec_keys:
        return setk(rng.choice(dec_keys), S(rng.choice(DEC_ODD))), "dec_odd"
    if choice == "money_odd" and money_keys:
        k = rng.choice(money_keys); v = getk(k); d = dict(v[1]); z = S(rng.choice(DEC_ODD))
        return (setk(k, z) if rng.random() < 0.5 else setk(k, O(("amount", z), ("currency", d["currency"])))), "money_odd"
    if choice == "number":
        k = rng.choice(dec_keys + money_keys) if dec_keys + money_keys else None
        if k: return setk(k, ("X", rng.choice([1, 2.5, 0, -3, None, True]))), "number"
    if choice == "date":
        return setk("date", rng.choice([S("2024-02-30"), S("2023-13-01"), S("2023-00-10"), S("2024-2-3"), S("20240203"), S(""), S("2024-02-29T00:00:00"),
                                        S("2024-02-29 "), S("0000-01-01"), S("9999-12-31"), S("1900-02-29"), ("X", 20240229), ("X", None)])), "date"
    if choice == "ticker":
        return setk("ticker", rng.choice([S("vod"), S("Brk.b"), S("a b"), S(""), S("café"), S("straße"), S("X" * 40), ("X", 5), ("X", None)])), "ticker"
    if choice == "dup" and keys:
        k = rng.choice(keys); g = list(fs); g.insert(rng.randint(0, len(g)), (k, getk(k)))
        return ("O", g), "dup"
    if choice == "not_object":
        return rng.choice([S("BUY"), ("X", 3), ("X", None), ("X", True)]), "not_object"
    if choice == "no_action":
        return ("O", [(a, b) for a, b in fs if a != "action"]), "no_action"
    if choice == "action_type":
        return setk("action", rng.choice([("X", 1), ("X", None), O(("a", S("BUY")))])), "action_type"
    if choice == "reorder":
        g = list(fs); rng.shuffle(g); return ("O", g), "reorder"
    return tree, "none"

def k_c14_json(ctx, specs, model_w, code_r):
    """writer: the tree Model/Json.v's to_json builds against the tree serde_json writes; reader: read_txns against
    serde_json::from_str::<Vec<Transaction>> on the written trees and on variations of them."""
    rng = ctx.rng; codes = currencies()
    cur = "CUR " + " ".join(codes)
    for cid, spec in specs.items():
        w = model_w.get("w" + cid); rr = code_r[cid]
        if w is None or not rr.get("ok") or rr.get("json_text") is None: continue
        mt = [tree_canon(tree_of_model(t)) for t in w["trees"]]
        ct = [tree_canon(tree_of_python(t)) for t in json.loads(rr["json_text"])]
        ctx.count("json_write", mt == ct)
        if mt != ct:
            ctx.disagreements_checked += 1
            ctx.violation("correspondence K.C14.json broken: the JSON the code writes differs from Model/Json.v to_json: code %s, model %s" % (rr["json_text"][:300], [tree_text(tree_of_model(t)) for t in w["trees"]][:2]),
                          {"txns": spec, "code_json": rr["json_text"], "model_trees": w["trees"], "correspondence": "K.C14.json", "case_id": cid}, found_input=False)
    # reader
    mc = []; rc = []; meta = {}
    ids = list(specs)
    n = ctx.n(3000, 60000)
    for i in range(n):
        spec = specs[ids[i % len(ids)]]
        trees = [spec_tree(t) for t in spec]; label = "written"
        if i >= len(ids) // 4 and trees:
            j = rng.randrange(len(trees)); trees[j], label = mutate_tree(rng, trees[j], codes)
            if rng.random() < 0.2:
                j = rng.randrange(len(trees)); trees[j], l2 = mutate_tree(rng, trees[j], codes); label += "+" + l2
        cid = "j%d" % i
        text = "[" + ",".join(tree_text(t) for t in trees) + "]"
        toks = ["L%d" % len(trees)]
        for t in trees: toks += tree_tokens(t)
        mc.append((cid, [cur, "RUN json_read " + " ".join(toks)])); rc.append({"id": cid, "op": "json_read", "json_text": text})
        meta[cid] = (label, text)
    m = run.run_model(mc); r = run.run_harness(rc)
    for cid, (label, text) in meta.items():
        ctx.evaluations += 1
        mm, rr = m[cid], r[cid]
        ctx.count("json_read_model", mm["res"]); ctx.count("json_variation", label.split("+")[0])
        if mm["res"] == "unmodelled": continue
        ctx.nontrivial.add(text)
        kd = None
        if rr.get("stage") == "panic": kd = "the reader panics: %s" % rr.get("error", "")[:120]
        elif mm["res"] == "ok" and not rr.get("ok"): kd = "model reads it, code refuses: %s" % rr.get("error", "")[:200]
        elif mm["res"] == "reject" and rr.get("ok"): kd = "model refuses it, code reads %s" % rr["txns"][:2]
        elif mm["res"] == "ok" and mm["txns"] != rr["txns"]: kd = "read differently: model %s, code %s" % (mm["txns"][:3], rr["txns"][:3])
        if kd:
            ctx.disagreements_checked += 1
            ctx.violation("correspondence K.C14.json broken (%s): %s on %s" % (label, kd, text[:300]),
                          {"json_text": text, "variation": label, "code": rr, "model": mm, "correspondence": "K.C14.json", "case_id": cid}, found_input=False)

def mcp_renderings(ctx, specs, code_r):
    """the property's last clause at the MCP tools: convert_to_dsl of the JSON rendering is the DSL rendering, parse_transactions of either
    rendering gives the transactions back, calculate_report of the two renderings is the same answer"""
    import os, shutil
    from . import props_mcp as PM, mcp as MCP
    picked = [cid for cid in specs if code_r[cid].get("ok") and code_r[cid].get("json_text") and code_r[cid]["json_back"].get("ok")]
    picked = [c for c in picked if code_r[c].get("report_orig") is not None][:ctx.n(12, 150)] + [c for c in picked if code_r[c].get("report_orig") is None][:ctx.n(12, 150)]
    if not picked: return
    root = os.path.join(build.CACHE, "run", "c14mcp-%d" % os.getpid()); shutil.rmtree(root, ignore_errors=True)
    try:
        reqs = []
        for cid in picked:
            rr = code_r[cid]; dsl = binascii.unhexlify(rr["dsl_hex"]).decode("utf-8"); js = rr["json_text"]
            for tool, arg in (("convert_to_dsl", js), ("parse_transactions", js), ("parse_transactions", dsl), ("calculate_report", js), ("calculate_report", dsl)):
                reqs.append((cid, ("tools/call", {"name": tool, "arguments": {"transactions": arg}})))
        res = PM.run_session(root, reqs, True, "int")
        if not res["init"]:
            ctx.violation("MCP server did not answer initialize", {"summary": {k: v for k, v in res.items() if k != "got"}}, found_input=True); return
        def text_of(k):
            rr = res["got"].get(json.dumps(res["ids"][k]), [None])[0] if k < len(res["ids"]) else None
            if rr is None: return None, "unanswered"
            if "error" in rr: return None, "error: %s" % str(rr["error"].get("message"))[:160]
            t, iserr = MCP.tool_text(rr)
            return (None, "tool error: %s" % (t or "")[:160]) if iserr else (t, None)
        def strip_zero_labels(v):
            # the DSL writer omits a zero fee or tax, so its currency label may come back as GBP
            out = []
            for t in v:
                t = json.loads(json.dumps(t))
                for k in ("fees", "tax_paid"):
                    if isinstance(t.get(k), dict) and F(t[k]["amount"]) == 0: t[k] = {"amount": str(F(t[k]["amount"])), "currency": "-"}
                out.append(t)
            return out
        for n, cid in enumerate(picked):
            rr = code_r[cid]; dsl = binascii.unhexlify(rr["dsl_hex"]).decode("utf-8"); js = rr["json_text"]
            conv, e1 = text_of(5 * n); pj, e2 = text_of(5 * n + 1); pd, e3 = text_of(5 * n + 2); cj, e4 = text_of(5 * n + 3); cd, e5 = text_of(5 * n + 4)
            ctx.evaluations += 5; ctx.count("mcp_renderings", "compared")
            bad = None
            if e1 or e2 or e3: bad = "a tool refuses the tool's own rendering: convert_to_dsl %s, parse(JSON) %s, parse(DSL) %s" % (e1, e2, e3)
            elif conv.rstrip("\n") != dsl.rstrip("\n"): bad = "convert_to_dsl of the JSON rendering is not the DSL rendering: %r vs %r" % (conv[:200], dsl[:200])
            elif json.loads(pj) != json.loads(js): bad = "parse_transactions of the JSON rendering changes the transactions"
            elif strip_zero_labels(json.loads(pd)) != strip_zero_labels(json.loads(js)): bad = "parse_transactions of the DSL rendering differs from the JSON rendering"
            elif rr.get("report_orig") is None: pass     # arbitrary dates and currencies: a rate may be missing for a zero fee whose label the DSL drops (the property's own exception); reports are compared on the cases built for it
            elif (e4 is None) != (e5 is None): bad = "calculate_report answers one rendering and refuses the other: JSON %s, DSL %s" % (e4, e5)
            elif e4 is None and json.loads(cj) != json.loads(cd): bad = "calculate_report differs between the JSON and the DSL rendering"
            if bad:
                ctx.disagreements_checked += 1
                ctx.violation("MCP tools: %s" % bad, {"txns": specs[cid], "dsl": dsl, "json_text": js, "convert_to_dsl": conv, "parse_json": pj, "parse_dsl": pd, "case_id": cid}, found_input=True)
    finally:
        shutil.rmtree(root, ignore_errors=True)

def k_c14(ctx):
    rng = ctx.rng
    n = ctx.n(2500, 60000)
    cur = "CUR " + " ".join(currencies())
    mc = []; rc = []; specs = {}
    for i in range(n):
        rep = (i % 10 == 0)
        spec, drv = api_case(rng, report=rep)
        cid = "a%d" % i; specs[cid] = spec
        mc.append((cid, [cur] + drv + ["RUN dsl_print"]))
        mc.append(("w" + cid, drv + ["RUN json_write"]))
        rc.append({"id": cid, "op": "roundtrip", "txns": spec, "reports": rep})
    m = run.run_model(mc); r = run.run_harness(rc)
    for cid, spec in specs.items():
        ctx.evaluations += 1; ctx.traces += 1
        mm, rr = m[cid], r[cid]
        for t in spec:
            ctx.count("kind", t["kind"]); ctx.count("scale", len(t["v"].split(".")[1]) if "." in t["v"] else 0)
        ctx.nontrivial.add(json.dumps(spec, sort_keys=True))
        ctx.sample({"id": cid, "txns": spec[:3]}, limit=4)
        if not rr.get("ok"):
            ctx.notes.append("harness could not build %s: %s" % (cid, rr.get("error"))); continue
        bad = None
        db = rr["dsl_back"]; jb = rr["json_back"]
        exp_norm = mm["norm"]
        if not db.get("ok"): bad = ("dsl_roundtrip", "written DSL does not parse back: %s" % db.get("error", "")[:160])
        elif db["txns"] != exp_norm and db["txns"] != rr["orig"]: bad = ("dsl_roundtrip", "DSL round trip changes the transactions: %s -> %s" % (rr["orig"][:2], db["txns"][:2]))
        elif rr.get("dsl_twice_equal") is False: bad = ("idempotent", "writing the parsed-back transactions gives different text")
        elif not jb.get("ok"): bad = ("json_roundtrip", "JSON does not read back: %s" % jb.get("error", "")[:160])
        elif jb["txns"] != rr["orig"] or not jb.get("equal"): bad = ("json_roundtrip", "JSON round trip changes the transactions: %s -> %s" % (rr["orig"][:2], jb["txns"][:2]))
        if bad is None and rr.get("report_orig") is not None:
            a, b, c = rr["report_orig"], rr["report_dsl"], jb.get("report")
            for name, x in (("dsl", b), ("json", c)):
                if x is None: continue
                if a.get("ok") != x.get("ok"): bad = ("same_report", "report of the %s rendering: %s vs original %s" % (name, x.get("error", "ok")[:100], a.get("error", "ok")[:100])); break
                if a.get("ok") and compare.compare_reports(compare.canon_rust(a["report"]), compare.canon_rust(x["report"])): bad = ("same_report", "report of the %s rendering differs" % name); break
            ctx.count("report_compared", bool(a.get("ok")))
        if bad:
            ctx.disagreements_checked += 1
            ctx.violation("%s: %s" % bad, {"txns": spec, "code": rr, "model": mm, "case_id": cid}, found_input=True); continue
        kd = None
        if rr["orig"] != mm["orig"]: kd = "API rendering differs (harness/driver glue): %s vs %s" % (rr["orig"][:2], mm["orig"][:2])
        elif rr["dsl_hex"] != mm["printed_hex"]: kd = "written DSL differs: code %r, model %r" % (binascii.unhexlify(rr["dsl_hex"])[:200], binascii.unhexlify(mm["printed_hex"])[:200])
        elif mm["back"].get("ok") != db.get("ok") or (db.get("ok") and mm["back"]["txns"] != db["txns"]): kd = "parse of the written DSL differs"
        if kd:
            ctx.disagreements_checked += 1
            ctx.violation("correspondence K.C14.print broken: %s" % kd, {"txns": spec, "code": rr, "model": mm, "correspondence": "K.C14.print", "case_id": cid}, found_input=False)
    k_c14_json(ctx, specs, m, r)
    mcp_renderings(ctx, specs, r)
