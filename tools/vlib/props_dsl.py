"""C13 (lexical invariance of the DSL reader) and C14 (DSL / JSON round trips)."""
import re, datetime, binascii, json
from fractions import Fraction as F
from . import run, build, compare, ledger, gen
from .ledger import Line

_CODES = None; _INFO = None
def currencies():
    global _CODES, _INFO
    if _CODES is None:
        r = run.run_harness([{"id": "c", "op": "currencies"}])["c"]
        _CODES = r["codes"]; _INFO = r["info"]
    return _CODES
def currency_info():
    currencies(); return _INFO

def hexs(s): return binascii.hexlify(s.encode("utf-8") if isinstance(s, str) else s).decode()

def model_parse(texts):
    """texts: {id: str|bytes} -> {id: result}"""
    cur = "CUR " + " ".join(currencies())
    cases = [(cid, [cur, "RUN dsl_parse x" + hexs(t)]) for cid, t in texts.items()]
    return run.run_model(cases)

def code_parse(texts):
    return run.run_harness([{"id": cid, "op": "parse", "text_hex": hexs(t)} for cid, t in texts.items()])

def err_line(msg):
    m = re.search(r"-->\s*(\d+):(\d+)", msg)
    return int(m.group(1)) if m else None

# ---------------- generators ----------------
KINDS = ["BUY", "SELL", "DIVIDEND", "ACCUMULATION", "CAPRETURN", "SPLIT", "UNSPLIT"]
def rand_dec(rng, small=True):
    if small or rng.random() < 0.6:
        return rng.choice(["1", "10", "0.5", "12.34", "100", "0.001", "7.50", "1000000", "0.10", "3"])
    nd = rng.randint(1, 28); sc = rng.randint(0, min(28, nd + 3))
    m = rng.randrange(10 ** (nd - 1), 10 ** nd)
    if rng.random() < 0.1: m = 2 ** 96 - 1 - rng.randrange(0, 3); sc = rng.randint(0, 28)
    s = str(m).rjust(sc + 1, "0")
    return (s[:-sc] + "." + s[-sc:]) if sc else s

def rand_date(rng):
    if rng.random() < 0.1: return rng.choice([datetime.date(2024, 2, 29), datetime.date(2000, 2, 29), datetime.date(1999, 12, 31), datetime.date(1, 1, 1), datetime.date(9999, 12, 31), datetime.date(2023, 4, 5)])
    return datetime.date(rng.randint(2015, 2025), rng.randint(1, 12), rng.randint(1, 28))

def rand_tick(rng):
    return rng.choice(["AAPL", "A", "VOD", "X9", "7UP", "BUYER", "SELLCO", "TAXI", "FEES", "TOTAL1", "GBP", "USD", "RATIO", "SPLITX", "Q", "ABCDEFGHIJ"])

def rand_lines(rng, n=None, big=False, fx=True):
    codes = currencies()
    def cur():
        if not fx or rng.random() < 0.5: return "GBP"
        return rng.choice(["USD", "EUR", "JPY", "CHF"]) if rng.random() < 0.7 else rng.choice(codes)
    out = []
    for i in range(n or rng.randint(1, 6)):
        k = rng.choice(KINDS); d = rand_date(rng); t = rand_tick(rng)
        x = rng.choice([None, None, "0", rand_dec(rng, not big)])
        if k in ("BUY", "SELL"): out.append(Line(d, t, k, rand_dec(rng, not big), rand_dec(rng, not big), cur(), x, cur()))
        elif k == "DIVIDEND": out.append(Line(d, t, k, None, rand_dec(rng, not big), cur(), x, cur()))
        elif k in ("ACCUMULATION", "CAPRETURN"): out.append(Line(d, t, k, rand_dec(rng, not big), rand_dec(rng, not big), cur(), x, cur()))
        else: out.append(Line(d, t, k, rand_dec(rng, not big)))
    return out

def rcase(rng, s): return "".join(c.lower() if rng.random() < 0.5 else c.upper() for c in s)
def ws(rng, minimum=1):
    n = rng.choice([minimum, minimum, 1, 2, 3]); return "".join(rng.choice(" \t") for _ in range(max(n, minimum)))
COMMENT_CHARS = "abc XYZ 0123 #@!$%^&*()-_=+[]{};:'\",.<>/?|\\~`é€"
def comment(rng): return "#" + "".join(rng.choice(COMMENT_CHARS) for _ in range(rng.randint(0, 12)))

def decorate(rng, lines):
    """a rendering of the same transaction list with random layout, case, comments, line endings"""
    out = []
    def money(v, c):
        s = v
        if c != "GBP" or rng.random() < 0.3: s += ws(rng) + rcase(rng, c)
        return s
    def nl(): return rng.choice(["\n", "\n", "\r\n", "\r"])
    for l in lines:
        while rng.random() < 0.25:
            out.append(rng.choice(["", ws(rng, 0), comment(rng), ws(rng) + comment(rng)]) + nl())
        kw = lambda k: rcase(rng, k)
        toks = [l.date.isoformat(), kw(l.kind), rcase(rng, l.tick)]
        if l.kind in ("BUY", "SELL"):
            toks += [l.a, "@", money(l.v, l.vcur)]
            if l.x is not None: toks += [kw("FEES"), money(l.x, l.xcur)]
            elif rng.random() < 0.15: toks += [kw("FEES"), money("0", "GBP")]
        elif l.kind == "DIVIDEND":
            toks += [kw("TOTAL"), money(l.v, l.vcur)]
            if l.x is not None: toks += [kw("TAX"), money(l.x, l.xcur)]
        elif l.kind in ("ACCUMULATION", "CAPRETURN"):
            toks += [l.a, kw("TOTAL"), money(l.v, l.vcur)]
            if l.x is not None: toks += [kw("TAX" if l.kind == "ACCUMULATION" else "FEES"), money(l.x, l.xcur)]
        else:
            toks += [kw("RATIO"), l.a]
        s = ws(rng, 0) + toks[0]
        for t in toks[1:]: s += ws(rng) + t
        s += ws(rng, 0)
        if rng.random() < 0.35: s += (ws(rng, 0) + comment(rng))
        out.append(s + nl())
    while rng.random() < 0.2: out.append(rng.choice(["", comment(rng)]) + nl())
    text = "".join(out)
    if rng.random() < 0.4: text = text.rstrip("\r\n")     # missing final newline
    return text

def corrupt(rng, text):
    """corrupt one token of a valid file; returns (text, line_number_of_the_corruption)"""
    ls = re.split(r"(\r\n|\n|\r)", text)
    idx = [i for i in range(0, len(ls), 2) if ls[i].strip() and not ls[i].strip().startswith("#")]
    if not idx: return text, None
    i = rng.choice(idx); line = ls[i]
    toks = re.findall(r"\S+|\s+", line)
    ti = [j for j, t in enumerate(toks) if t.strip()]
    j = rng.choice(ti); t = toks[j]
    how = rng.choice(["drop", "garble", "dup", "alpha", "minus", "date", "badcur"])
    if how == "drop": toks[j] = ""
    elif how == "garble": toks[j] = t[:-1] + "!"
    elif how == "dup": toks[j] = t + " " + t
    elif how == "alpha": toks[j] = "x" + t if t[0].isdigit() else t + "-"
    elif how == "minus": toks[j] = "-" + t
    elif how == "date": toks[ti[0]] = rng.choice(["2024-13-01", "2024-02-30", "24-01-01", "2024/01/01", "2023-02-29"])
    elif how == "badcur": toks[j] = t + " XQZ" if re.fullmatch(r"[0-9.]+", t) else t + "Q"
    ls[i] = "".join(toks)
    return "".join(ls), i // 2 + 1

RAW = [
 "2024-01-01 BUYAAPL 1@2", "2024-01-01 buy a 1 @2usd", "2024-01-01 BUY A 1 @ 2 USDFEES 1", "2024-01-01 BUY A 1. @ 2", "2024-01-01 BUY A .5 @ 2",
 "2024-01-01 BUY A 1 @ 2 FEES", "2024-01-01 BUY A 1 @ 2 FEES 1 TAX 2", "2024-01-01 BUY TAX 1 @ 2 TAX", "2024-01-01 BUY A 1 @ 2 BUY", "2024-01-01 DIVIDEND A TOTAL 5 TAX",
 "2024-01-01 DIVIDEND A TOTAL 5 TAX 1 EUR#c", "2024-01-01 SPLIT A RATIO 2 3", "2024-01-01 SPLIT A RATIO2", "2024-01-01 UNSPLITA RATIO 2", "2024-01-01 SPLIT A 2",
 "2024-01-01\tSELL\tA\t1\t@\t2\tGBP\tFEES\t0", "2024-01-01 SELL A 1 @ 2 gbp-", "2024-01-01 SELL A 1 @ 2 GBPX", "2024-01-01 SELL A 1 @ 2 GB", "2024-01-01 SELL A 1 @ 2 ZZZ",
 "2024-01-01 BUY A 1 @ 0.0000000000000000000000000001", "2024-01-01 BUY A 1 @ 0.00000000000000000000000000001", "2024-01-01 BUY A 79228162514264337593543950335 @ 1",
 "2024-01-01 BUY A 79228162514264337593543950336 @ 1", "2024-01-01 BUY A 1 @ 1\r2024-01-02 BUY A 1 @ 1\r", "#only\r\n\r\n", "", "\n\n\n", "2024-01-01 BUY A 1 @ 1 #x\n#y\n \t\n2024-01-02 SELL A 1 @ 2",
 "2024-01-01 BUY A 1 @ 1\n2024-01-02 BUY A @ 1\n2024-13-01 BUY A 1 @ 1", "2024-13-01 BUY A 1 @ 1\n2024-01-02 BUY A @ 1", "2024-01-01 CAPRETURN A 5 TOTAL 1 TAX 1", "2024-01-01 ACCUMULATION A 5 TOTAL 1 FEES 1",
 "0000-01-01 BUY A 1 @ 1", "2024-02-29 BUY A 1 @ 1", "2023-02-29 BUY A 1 @ 1", "2024-01-01  BUY  A  001.500  @  02", "2024-01-01 BUY A 1 @ 1 EUR FEES 2 usd # t", "2024-01-01 BUY é 1 @ 1", "2024-01-01 BUY A 1 @ 1 # € comment",
]

# ---------------- C13 ----------------
def k_c13(ctx):
    rng = ctx.rng
    texts = {}; meta = {}
    for i, t in enumerate(RAW):
        texts["raw%d" % i] = t; meta["raw%d" % i] = ("raw", None, None)
    n = ctx.n(2500, 60000)
    for i in range(n):
        ls = rand_lines(rng, big=(rng.random() < 0.2))
        canon = ledger.render(ls)
        deco = decorate(rng, ls)
        texts["c%d" % i] = canon; meta["c%d" % i] = ("canon", None, None)
        texts["d%d" % i] = deco; meta["d%d" % i] = ("decorated", "c%d" % i, None)
        if rng.random() < 0.5:
            bad, ln = corrupt(rng, deco)
            texts["x%d" % i] = bad; meta["x%d" % i] = ("corrupted", None, ln)
    m = model_parse(texts); r = code_parse(texts)
    for cid, t in texts.items():
        ctx.evaluations += 1; ctx.traces += 1
        mm, rr = m[cid], r[cid]; kind, ref, ln = meta[cid]
        ctx.count("text_kind", kind)
        ctx.count("code_outcome", "ok" if rr.get("ok") else "reject")
        if kind != "canon": ctx.nontrivial.add(t)
        ctx.sample({"id": cid, "text": t, "code_ok": rr.get("ok")}, limit=6)
        if not mm["ok"] and mm.get("why") == "Unsupported":
            ctx.count("model_unsupported_decimal", 1); continue
        # oracle on the code alone
        bad = None
        if kind == "decorated":
            base = r[ref]
            if base.get("ok") != rr.get("ok") or (rr.get("ok") and norm_show(base["txns"]) != norm_show(rr["txns"])):
                bad = ("layout_invariance", "decorated text parses differently from the plain rendering: %s vs %s" % (brief(rr), brief(base)))
        if kind == "corrupted" and not mm["ok"] and rr.get("ok"):
            bad = ("nothing_skipped", "text with a corrupted line %s is accepted" % ln)
        if bad is None and not rr.get("ok") and not mm["ok"]:
            el = err_line(rr.get("error", ""))
            if el != mm["line"] and "\r" not in t.replace("\r\n", ""):
                bad = ("error_line", "error reported at line %s, the offending line is %s" % (el, mm["line"]))
            elif el != mm["line"]:
                ctx.count("cr_only_line_number_differs", 1)
                from .props_ledger2 import load_known_text
                kt = load_known_text("C13", "kf_cr_only_error_line")
                if kt: ctx.known(kt)
                else: bad = ("error_line", "CR-only file: error reported at line %s, the offending line is %s" % (el, mm["line"]))
        if bad:
            ctx.disagreements_checked += 1
            ctx.violation("%s: %s" % bad, {"text": t, "text_hex": hexs(t), "model": mm, "code": rr, "case_id": cid}, found_input=True); continue
        # K: model vs code
        kd = None
        if mm["ok"] != rr.get("ok"): kd = "accept: model %s, code %s" % (brief(mm), brief(rr))
        elif mm["ok"] and mm["txns"] != rr["txns"]: kd = "transactions differ: model %s, code %s" % (mm["txns"][:3], rr["txns"][:3])
        if kd:
            ctx.disagreements_checked += 1
            ctx.violation("correspondence K.C13.parse broken: %s" % kd, {"text": t, "text_hex": hexs(t), "model": mm, "code": rr, "correspondence": "K.C13.parse", "case_id": cid}, found_input=False)

def brief(x):
    if x.get("ok"): return "ok %d txns" % len(x.get("txns", []))
    return "reject(%s)" % (x.get("why") or (x.get("error", "")[:80]))
def norm_show(ts):
    # an explicit zero clause (FEES 0) and an omitted one denote the same transaction
    return ts

# ---------------- C14 ----------------
def dec_parts(s):
    if "." in s: ip, fp = s.split(".")
    else: ip, fp = s, ""
    return str(int(ip + fp)), str(len(fp))

def api_case(rng, n=None, big=True, report=False):
    ls = rand_lines(rng, n=n, big=big and not report, fx=True)
    if report:
        for l in ls:
            l.date = datetime.date(rng.randint(2016, 2024), rng.randint(1, 12), rng.randint(1, 28))
            if l.vcur not in ("GBP", "USD", "EUR"): l.vcur = "USD"
            if l.xcur not in ("GBP", "USD", "EUR"): l.xcur = "EUR"
    spec = []; drv = []
    for l in ls:
        x = l.x if l.x is not None else "0"
        xc = l.xcur if l.x is not None else rng.choice(["GBP", l.xcur])
        spec.append({"date": l.date.isoformat(), "tick": l.tick, "kind": l.kind, "a": l.a or "0", "v": l.v or "0", "vcur": l.vcur, "x": x, "xcur": xc})
        h = "DTX %d %d %d %s %s " % (l.date.year, l.date.month, l.date.day, l.tick, l.kind)
        if l.kind in ("BUY", "SELL", "ACCUMULATION", "CAPRETURN"):
            drv.append(h + " ".join(dec_parts(l.a) + (dec_parts(l.v)[0], dec_parts(l.v)[1], l.vcur) + (dec_parts(x)[0], dec_parts(x)[1], xc)))
        elif l.kind == "DIVIDEND":
            drv.append(h + " ".join((dec_parts(l.v)[0], dec_parts(l.v)[1], l.vcur) + (dec_parts(x)[0], dec_parts(x)[1], xc)))
        else:
            drv.append(h + " ".join(dec_parts(l.a)))
    return spec, drv

def k_c14(ctx):
    rng = ctx.rng
    n = ctx.n(2500, 60000)
    cur = "CUR " + " ".join(currencies())
    mc = []; rc = []; specs = {}
    for i in range(n):
        rep = (i % 10 == 0)
        spec, drv = api_case(rng, report=rep)
        cid = "a%d" % i; specs[cid] = spec
        mc.append((cid, [cur] + drv + ["RUN dsl_print"]))
        rc.append({"id": cid, "op": "roundtrip", "txns": spec, "reports": rep})
    m = run.run_model(mc); r = run.run_harness(rc)
    for cid, spec in specs.items():
        ctx.evaluations += 1; ctx.traces += 1
        mm, rr = m[cid], r[cid]
        for t in spec:
            ctx.count("kind", t["kind"]); ctx.count("scale", len(t["v"].split(".")[1]) if "." in t["v"] else 0)
        ctx.nontrivial.add(json.dumps(spec, sort_keys=True))
        ctx.sample({"id": cid, "txns": spec[:3]}, limit=4)
        if not rr.get("ok"):
            ctx.notes.append("harness could not build %s: %s" % (cid, rr.get("error"))); continue
        bad = None
        db = rr["dsl_back"]; jb = rr["json_back"]
        exp_norm = mm["norm"]
        if not db.get("ok"): bad = ("dsl_roundtrip", "written DSL does not parse back: %s" % db.get("error", "")[:160])
        elif db["txns"] != exp_norm and db["txns"] != rr["orig"]: bad = ("dsl_roundtrip", "DSL round trip changes the transactions: %s -> %s" % (rr["orig"][:2], db["txns"][:2]))
        elif rr.get("dsl_twice_equal") is False: bad = ("idempotent", "writing the parsed-back transactions gives different text")
        elif not jb.get("ok"): bad = ("json_roundtrip", "JSON does not read back: %s" % jb.get("error", "")[:160])
        elif jb["txns"] != rr["orig"] or not jb.get("equal"): bad = ("json_roundtrip", "JSON round trip changes the transactions: %s -> %s" % (rr["orig"][:2], jb["txns"][:2]))
        if bad is None and rr.get("report_orig") is not None:
            a, b, c = rr["report_orig"], rr["report_dsl"], jb.get("report")
            for name, x in (("dsl", b), ("json", c)):
                if x is None: continue
                if a.get("ok") != x.get("ok"): bad = ("same_report", "report of the %s rendering: %s vs original %s" % (name, x.get("error", "ok")[:100], a.get("error", "ok")[:100])); break
                if a.get("ok") and compare.compare_reports(compare.canon_rust(a["report"]), compare.canon_rust(x["report"])): bad = ("same_report", "report of the %s rendering differs" % name); break
            ctx.count("report_compared", bool(a.get("ok")))
        if bad:
            ctx.disagreements_checked += 1
            ctx.violation("%s: %s" % bad, {"txns": spec, "code": rr, "model": mm, "case_id": cid}, found_input=True); continue
        kd = None
        if rr["orig"] != mm["orig"]: kd = "API rendering differs (harness/driver glue): %s vs %s" % (rr["orig"][:2], mm["orig"][:2])
        elif rr["dsl_hex"] != mm["printed_hex"]: kd = "written DSL differs: code %r, model %r" % (binascii.unhexlify(rr["dsl_hex"])[:200], binascii.unhexlify(mm["printed_hex"])[:200])
        elif mm["back"].get("ok") != db.get("ok") or (db.get("ok") and mm["back"]["txns"] != db["txns"]): kd = "parse of the written DSL differs"
        if kd:
            ctx.disagreements_checked += 1
            ctx.violation("correspondence K.C14.print broken: %s" % kd, {"txns": spec, "code": rr, "model": mm, "correspondence": "K.C14.print", "case_id": cid}, found_input=False)
