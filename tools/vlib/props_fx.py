"""C08: foreign amounts convert at the HMRC rate of their own month, or the run fails."""
import os, json, re, datetime, subprocess, shutil, tempfile, calendar
from fractions import Fraction as F
from collections import defaultdict
from . import run, build, compare, ledger, gen, ledgerk as K
from .ledger import Line

_RATES = None
def rates():
    global _RATES
    if _RATES is None:
        r = run.run_harness([{"id": "r", "op": "rates"}])["r"]
        _RATES = {(c, y, m): F(v) for c, y, m, v in r["rates"]}
    return _RATES

def xml_table():
    """The bundled HMRC files read independently of the code: {(code, year, month): set of rates listed under that code}"""
    import glob
    out = defaultdict(set)
    for p in sorted(glob.glob(os.path.join(build.REPO, "crates/cgt-money/resources/rates/*.xml"))):
        mt = re.fullmatch(r"(\d{4})-(\d{2})\.xml", os.path.basename(p))
        if not mt: continue
        y, m = int(mt.group(1)), int(mt.group(2))
        for blk in re.findall(r"<exchangeRate>(.*?)</exchangeRate>", open(p, encoding="utf-8", errors="replace").read(), re.S):
            c = re.search(r"<currencyCode>(.*?)</currencyCode>", blk, re.S); r = re.search(r"<rateNew>(.*?)</rateNew>", blk, re.S)
            if c and r:
                try: out[(c.group(1).strip().upper(), y, m)].add(F(r.group(1).strip()))
                except Exception: pass
    return out

CURS = ["USD", "EUR", "JPY", "CHF", "AUD", "SEK"]
def foreignize(rng, lines, months_ok=True):
    out = []
    for l in lines:
        if l.kind in ("SPLIT", "UNSPLIT"): out.append(l); continue
        vc = rng.choice(["GBP"] + CURS) if rng.random() < 0.7 else "GBP"
        xc = rng.choice(["GBP", vc] + CURS) if l.x is not None else "GBP"
        out.append(l.copy(vcur=vc, xcur=xc))
    return out

def ftx_lines(lines):
    out = []
    for l in lines:
        h = "FTX %d %d %d %s %s " % (l.date.year, l.date.month, l.date.day, l.tick.upper(), l.kind)
        x = l.x if l.x is not None else "0"; xc = l.xcur if l.x is not None else "GBP"
        if l.kind in ("BUY", "SELL", "CAPRETURN", "ACCUMULATION"): out.append(h + " ".join([ledger.fr(l.a), ledger.fr(l.v), l.vcur, ledger.fr(x), xc]))
        elif l.kind == "DIVIDEND": out.append(h + " ".join([ledger.fr(l.v), l.vcur, ledger.fr(x), xc]))
        else: out.append(h + ledger.fr(l.a))
    return out

def needed_keys(lines):
    ks = set()
    for l in lines:
        for c, v in ((l.vcur, l.v), (l.xcur, l.x)):
            if v is not None and c != "GBP": ks.add((c, l.date.year, l.date.month))
    return ks

def fx_lines(keys, table, drop=None):
    """rates for the needed keys and the neighbouring months (so that a wrong-month lookup would find a different rate)"""
    out = []; seen = set()
    for (c, y, m) in keys:
        for dm in (-1, 0, 1):
            mm = m + dm; yy = y
            if mm == 0: mm = 12; yy -= 1
            if mm == 13: mm = 1; yy += 1
            k = (c, yy, mm)
            if k in table and k not in seen and k != drop:
                seen.add(k); out.append("FX %s %d %d %s" % (c, yy, mm, ledger.fr(table[k])))
    return out

def rel_close(a, b, tol=F(1, 10**22)):
    return abs(a - b) <= tol * max(1, abs(a), abs(b))

XML_HEAD = '<?xml version="1.0" encoding="UTF-8"?>\n'
def month_xml(y, m, entries, period=None):
    last = calendar.monthrange(y, m)[1]; mon = calendar.month_abbr[m]
    period = period or "01/%s/%d to %d/%s/%d" % (mon, y, last, mon, y)
    body = "".join("  <exchangeRate>\n    <countryName>X</countryName>\n    <countryCode>XX</countryCode>\n    <currencyName>X</currencyName>\n    <currencyCode>%s</currencyCode>\n    <rateNew>%s</rateNew>\n  </exchangeRate>\n" % (c, r) for c, r in entries)
    return XML_HEAD + '<exchangeRateMonthList Period="%s">\n%s</exchangeRateMonthList>\n' % (period, body)

def pipeline_k(ctx, cases, table):
    """K.pipeline: the extracted Model/Pipeline.v reads the ledger's TEXT (a decorated rendering: random layout, letter case, comments, line endings),
    turns each decimal into its exact value, converts at the monthly rates, matches and summarises; the code's report of the same text is
    compared observable by observable.  Unlike the other correspondences nothing between the text and the report is done by the check's own glue."""
    import binascii
    from . import props_dsl as PD
    from .props_ledger import case_diffs
    rng = ctx.rng
    ex = K.exemptions()
    cur = "CUR " + " ".join(PD.currencies())
    ids = list(cases)[:ctx.n(250, 4000)]
    mc = []; rc = []; texts = {}
    for cid in ids:
        ls = cases[cid]
        text = PD.decorate(rng, ls) if rng.random() < 0.7 else ledger.render(ls)
        texts[cid] = text
        year = rng.choice([None, None, None] + sorted({K.tax_year(l.date) for l in ls}))
        lines = [cur] + fx_lines(needed_keys(ls), table) + ["X %d %s" % (y, ledger.fr(v)) for y, v in sorted(ex.items())]
        if year is not None: lines.append("Y %d" % year)
        lines.append("RUN pipeline x" + binascii.hexlify(text.encode("utf-8")).decode())
        mc.append((cid, lines)); rc.append({"id": cid, "op": "report", "dsl": text, "year": year})
    m = run.run_model(mc); r = run.run_harness(rc)
    for cid in ids:
        mm, rr = m[cid], r[cid]; ls = cases[cid]
        ctx.evaluations += 1; ctx.count("pipeline_model_outcome", "ok" if mm["ok"] else mm["stage"])
        kd = None
        if rr.get("stage") == "panic": continue          # judged elsewhere (C15)
        if not mm["ok"] and mm["stage"] == "parse":
            if rr.get("stage") != "parse": kd = "the model's reader refuses the text (line %s, %s), the code %s" % (mm["line"], mm["why"], "reports" if rr.get("ok") else rr.get("error", "")[:120])
        elif not mm["ok"] and mm["stage"] == "fx":
            c = compare.classify_error(rr.get("error", "")) if not rr.get("ok") else ("ok",)
            if c[0] != "MissingFx" or c[3] != (mm["cur"], int(mm["year"]), int(mm["month"])): kd = "model: no rate for %s %s-%s; code: %s" % (mm["cur"], mm["year"], mm["month"], "reports" if rr.get("ok") else rr.get("error", "")[:120])
        else:
            d, _ = case_diffs(ls, mm, rr, ("accept", "error", "legs", "cost_if_no_events", "holdings", "totals", "years"))
            if d: kd = "%s" % (d[0],)
        if kd:
            ctx.disagreements_checked += 1
            ctx.violation("correspondence K.pipeline broken (text to report in one model call): %s" % kd, {"text": texts[cid], "input_dsl": ledger.render(ls), "model": mm, "code": {k: rr.get(k) for k in ("ok", "stage", "error")}, "correspondence": "K.pipeline", "case_id": cid}, found_input=False)

def k_c08(ctx):
    rng = ctx.rng; table = rates()
    ctx.count("bundled_rates", len(table))
    months = sorted({(y, m) for (_, y, m) in table})
    # ---------- (0) the bundled table against the HMRC files themselves ----------
    xt = xml_table(); codes = {c for (c, _, _) in table} | {c for (c, _, _) in xt if len(c) == 3}
    valid = {c["code"] if isinstance(c, dict) else c for c in run.run_harness([{"id": "c", "op": "currencies"}])["c"].get("codes", [])} or None
    ctx.count("hmrc_file_rows", sum(len(v) for v in xt.values()))
    bad_keys = []
    for k, v in table.items():
        ctx.evaluations += 1
        if k not in xt: bad_keys.append((k, "the file for that month has no row for this currency code", v))
        elif v not in xt[k]: bad_keys.append((k, "the file lists %s" % sorted(map(str, xt[k])), v))
    for k in xt:
        if k not in table and (valid is None or k[0] in valid) and (k[1], k[2]) in months and len(xt[k]) == 1: bad_keys.append((k, "listed in the file but not loaded", None))
    for k, why, v in bad_keys[:3]:
        c, y, m = k
        dsl = "%04d-%02d-10 BUY PROBE 1 @ 1000000 %s\n" % (y, m, c)
        x = run.run_harness([{"id": "p", "op": "to_gbp", "dsl": dsl}])["p"]
        ctx.violation("bundled rate for %s %d-%02d is %s but %s" % (c, y, m, v, why), {"input_dsl": dsl, "code": x, "hmrc_file": "crates/cgt-money/resources/rates/%04d-%02d.xml" % (y, m)}, found_input=True)
    # ---------- (1) conversions and twins ----------
    cases = {}
    for i in range(ctx.n(700, 15000)):
        base = gen.gen_ledger(rng, events=0.15, splits=0.05, dividends=0.15, max_year=2025)
        base = [l.copy(date=max(l.date, datetime.date(2015, 1, 1))) for l in base]
        cases["x%d" % i] = foreignize(rng, base)
    for k, v in K.corpus_ledgers(gbp_only=False).items():
        if not ledger.is_gbp(v): cases[k] = v
    mc = []; rc = []; rep = []
    for cid, ls in cases.items():
        mc.append((cid, fx_lines(needed_keys(ls), table) + ftx_lines(ls) + ["RUN fx_convert"]))
        rc.append({"id": cid, "op": "to_gbp", "dsl": ledger.render(ls)})
        rep.append({"id": cid + "#rep", "op": "report", "dsl": ledger.render(ls)})
    m = run.run_model(mc); r = run.run_harness(rc + rep)
    pipeline_k(ctx, cases, table)
    twins = []
    for cid, ls in cases.items():
        ctx.evaluations += 1; ctx.traces += 1
        mm, rr = m[cid], r[cid]
        ncur = len({c for l in ls for c in (l.vcur, l.xcur)} - {"GBP"})
        ctx.count("foreign_currencies_in_ledger", ncur); ctx.count("code_outcome", "ok" if rr.get("ok") else rr.get("stage"))
        if ncur: ctx.nontrivial.add(K.signature(ls))
        ctx.sample({"id": cid, "dsl": ledger.render(ls)}, limit=3)
        if rr.get("stage") == "parse": ctx.notes.append("generated ledger did not parse: %s" % cid); continue
        # oracle: every converted amount = amount / rate(own currency, own month), GBP unchanged
        bad = None
        if rr.get("ok"):
            for l, op in zip(ls, rr["ops"]):
                exp = []
                def conv(v, c):
                    if v is None: return F(0)
                    return F(v) if c == "GBP" else F(v) / table[(c, l.date.year, l.date.month)]
                try:
                    if l.kind in ("BUY", "SELL", "CAPRETURN", "ACCUMULATION"): exp = [F(l.a), conv(l.v, l.vcur), conv(l.x, l.xcur)]
                    elif l.kind == "DIVIDEND": exp = [conv(l.v, l.vcur), conv(l.x, l.xcur)]
                    else: exp = [F(l.a)]
                except KeyError:
                    bad = ("missing_rate", "no bundled rate for a needed month but the conversion succeeds: %s" % ledger.render_line(l)); break
                got = [F(x) for x in op[1:]]
                if op[0] != l.kind or len(got) != len(exp) or not all(rel_close(a, b) for a, b in zip(got, exp)):
                    bad = ("own_month_rate", "%s converts to %s, expected %s" % (ledger.render_line(l), [float(x) for x in got], [float(x) for x in exp])); break
        else:
            miss = [(c, y, mth) for (c, y, mth) in needed_keys(ls) if (c, y, mth) not in table]
            mt = re.search(r"Missing FX rate for (\S+) in (\d+)-(\d+)", rr.get("error", ""))
            if not miss: bad = ("refused", "every needed rate is bundled but the conversion fails: %s" % rr.get("error", "")[:160])
            elif not mt or (mt.group(1), int(mt.group(2)), int(mt.group(3))) not in miss: bad = ("error_names_rate", "missing %s but the error says: %s" % (miss[:3], rr.get("error", "")[:160]))
        if bad:
            ctx.disagreements_checked += 1
            ctx.violation("%s: %s" % bad, {"input_dsl": ledger.render(ls), "code": rr, "model": mm, "case_id": cid}, found_input=True); continue
        # K
        kd = None
        if mm["ok"] != rr.get("ok"): kd = "accept: model %s, code %s" % (mm, rr.get("error", "ok")[:100])
        elif mm["ok"]:
            for a, b in zip(mm["ops"], rr["ops"]):
                if a[0] != b[0] or not all(rel_close(F(x), F(y)) for x, y in zip(a[1:], b[1:])): kd = "converted op: model %s, code %s" % (a, b); break
        else:
            mt = re.search(r"Missing FX rate for (\S+) in (\d+)-(\d+)", rr.get("error", ""))
            if not mt or (mm["cur"], mm["year"], mm["month"]) != (mt.group(1), int(mt.group(2)), int(mt.group(3))): kd = "error: model %s, code %s" % (mm, rr.get("error", "")[:100])
        if kd:
            ctx.disagreements_checked += 1
            ctx.violation("correspondence K.C08.convert broken: %s" % kd, {"input_dsl": ledger.render(ls), "code": rr, "model": mm, "correspondence": "K.C08.convert", "case_id": cid}, found_input=False); continue
        # the pre-converted twin
        if rr.get("ok"):
            tw = []
            for l, op in zip(ls, rr["ops"]):
                if l.kind in ("BUY", "SELL", "CAPRETURN", "ACCUMULATION"): tw.append(l.copy(v=op[2], vcur="GBP", x=op[3] if l.x is not None else None, xcur="GBP"))
                elif l.kind == "DIVIDEND": tw.append(l.copy(v=op[1], vcur="GBP", x=op[2] if l.x is not None else None, xcur="GBP"))
                else: tw.append(l)
            twins.append({"id": cid + "#twin", "op": "report", "dsl": ledger.render(tw)})
    tr = run.run_harness(twins)
    for t in twins:
        cid = t["id"][:-5]; a = r[cid + "#rep"]; b = tr[t["id"]]; ctx.evaluations += 1
        if b.get("stage") == "parse": continue
        if a.get("ok") != b.get("ok"):
            ctx.violation("twin: the foreign ledger %s but its pre-converted GBP twin %s" % ("is accepted" if a.get("ok") else "fails: " + a.get("error", "")[:100], "is accepted" if b.get("ok") else "fails: " + b.get("error", "")[:100]),
                          {"input_dsl": ledger.render(cases[cid]), "twin_dsl": t["dsl"], "code": a, "code_twin": b}, found_input=True)
        elif a.get("ok"):
            d = compare.compare_reports(compare.canon_rust(a["report"]), compare.canon_rust(b["report"]))
            if d: ctx.violation("twin: report of the foreign ledger differs from that of its pre-converted GBP twin: %s" % (d[0],),
                                {"input_dsl": ledger.render(cases[cid]), "twin_dsl": t["dsl"], "code": a, "code_twin": b}, found_input=True)
    # ---------- (2) missing rates ----------
    miss = {}
    first = months[0]; last = months[-1]
    for i in range(ctx.n(60, 600)):
        cur = rng.choice(CURS); kind = rng.choice(["before", "after", "field"])
        if kind == "before": d = datetime.date(first[0] - 1, rng.randint(1, 12), 10)
        elif kind == "after": d = datetime.date(last[0] + 1, rng.randint(1, 12), 10)
        else: d = datetime.date(last[0] + 1, 6, 1)
        other = datetime.date(2020, 5, 5)
        k2 = rng.choice(["BUY", "SELL", "DIVIDEND", "CAPRETURN", "ACCUMULATION"])
        ls = [Line(other, "AAA", "BUY", "10", "5", cur, "1", cur),
              Line(d, "AAA", k2, None if k2 == "DIVIDEND" else "1", "2", rng.choice(["GBP", cur]) if kind == "field" else cur, "0.5", cur)]
        miss["m%d" % i] = (ls, (cur, d.year, d.month))
    mr = run.run_harness([{"id": cid, "op": "report", "dsl": ledger.render(ls)} for cid, (ls, _) in miss.items()])
    for cid, (ls, want) in miss.items():
        ctx.evaluations += 1; x = mr[cid]
        mt = re.search(r"Missing FX rate for (\S+) in (\d+)-(\d+)", x.get("error", ""))
        if x.get("ok") or not mt or (mt.group(1), int(mt.group(2)), int(mt.group(3))) != want:
            ctx.violation("a rate for %s %d-%02d does not exist but the run %s" % (want + (("succeeds",) if x.get("ok") else ("fails with: " + x.get("error", "")[:120],))),
                          {"input_dsl": ledger.render(ls), "code": x}, found_input=True)
    ctx.count("missing_rate_cases", len(miss))
    # ---------- (2b) the CLI front-end itself: foreign amounts in any field, without a rates folder ----------
    cli_conversions(ctx, table)
    # ---------- (3) rate folders through the CLI ----------
    folders(ctx, table, months)

def cli_conversions(ctx, table):
    """`cgt-tool report` (bundled rates, no folder) on ledgers whose foreign amounts sit in any one field only - a price, a total,
    a fee, a tax - or in several: it must succeed wherever the library converts, and show the same holdings cost."""
    rng = ctx.rng
    root = os.path.join(build.CACHE, "run", "c08cli-%d" % os.getpid()); shutil.rmtree(root, ignore_errors=True); os.makedirs(root)
    try:
        cases = {}
        for i in range(ctx.n(40, 500)):
            y, m = rng.choice(sorted({(yy, mm) for (c, yy, mm) in table if c == "USD" and yy >= 2016}))
            d = datetime.date(y, m, 5); cur = rng.choice(["USD", "EUR", "JPY"])
            where = rng.choice(["fees_only", "fees_only", "tax_only", "price_only", "total_only", "all"])
            f = lambda on: cur if (where == "all" or where == on) else "GBP"
            ls = [Line(d, "AAA", "BUY", "100", "2", f("price_only"), "4.95", f("fees_only")),
                  Line(d + datetime.timedelta(days=2), "AAA", "DIVIDEND", None, "10", f("total_only"), "1.5", f("tax_only")),
                  Line(d + datetime.timedelta(days=3), "AAA", "SELL", "40", "3", f("price_only"), "2", f("fees_only"))]
            if rng.random() < 0.5: ls.append(Line(d + datetime.timedelta(days=4), "AAA", "CAPRETURN", "60", "5", f("total_only"), "0.5", f("fees_only")))
            cases["c%d" % i] = (ls, where)
        lib = run.run_harness([{"id": cid, "op": "report", "dsl": ledger.render(ls)} for cid, (ls, _) in cases.items()])
        for cid, (ls, where) in cases.items():
            wd = os.path.join(root, cid); os.makedirs(wd); open(os.path.join(wd, "in.cgt"), "w").write(ledger.render(ls))
            p = cli_report_json(wd, ["in.cgt"], []); x = lib[cid]
            ctx.evaluations += 1; ctx.count("cli_foreign_field", where); ctx.count("cli_foreign_exit", p.returncode)
            replay = {"input_dsl": ledger.render(ls), "foreign_field": where, "cli_exit": p.returncode, "stderr": p.stderr[-300:], "library": x}
            if x.get("ok") and p.returncode != 0:
                ctx.violation("the library converts this ledger but `cgt-tool report` fails: %s" % p.stderr.strip().splitlines()[0][:160], replay, found_input=True); continue
            if not x.get("ok") or p.returncode != 0: continue
            hold = {h["ticker"]: F(h["total_cost"]) for h in json.loads(p.stdout)["holdings"]}
            for h in x["report"]["holdings"]:
                if abs(hold.get(h["tick"], F(-1)) - F(h["cost"])) > F(1, 100):
                    ctx.violation("`cgt-tool report` shows cost %s for %s, the library computes %s" % (float(hold.get(h["tick"], -1)), h["tick"], float(F(h["cost"]))), replay, found_input=True); break
    finally:
        shutil.rmtree(root, ignore_errors=True)

def cli_report_json(workdir, files, extra):
    env = dict(build.ENV, HOME=workdir)
    p = subprocess.run([build.CLI, "report"] + files + ["--format", "json"] + extra, cwd=workdir, stdout=subprocess.PIPE, stderr=subprocess.PIPE, text=True, env=env, timeout=120)
    return p

def folders(ctx, table, months):
    rng = ctx.rng
    root = os.path.join(build.CACHE, "run", "c08-%d" % os.getpid())
    shutil.rmtree(root, ignore_errors=True); os.makedirs(root)
    try:
        last = months[-1]
        for i in range(ctx.n(25, 400)):
            wd = os.path.join(root, "f%d" % i); fx = os.path.join(wd, "fx"); os.makedirs(fx)
            y, mth = rng.choice([mo for mo in months if mo[0] >= 2016]); y2, m2 = rng.choice([mo for mo in months if mo != (y, mth) and mo[0] >= 2016])
            newm = (last[0] + 1, rng.randint(1, 12))
            kind = rng.choice(["override", "override", "add", "mislabel", "zero", "negative", "two_files", "badname", "override_other_cur"])
            files = []      # (filename, name_ym, period_ym, entries, mtime)
            r1 = rng.choice(["1.5", "2.25", "0.75"]); r2 = rng.choice(["3.5", "1.125"])
            if kind == "override": files.append(("%04d-%02d.xml" % (y, mth), (y, mth), (y, mth), [("USD", r1)], 100))
            elif kind == "override_other_cur": files.append(("%04d-%02d.xml" % (y, mth), (y, mth), (y, mth), [("CHF", r1), ("usd ", r2)], 100))
            elif kind == "add": files.append(("monthly_xml_%04d-%02d.xml" % newm, newm, newm, [("USD", r1), ("EUR", r2)], 100))
            elif kind == "mislabel": files.append(("%04d-%02d.xml" % (y, mth), (y, mth), (y2, m2), [("USD", r1)], 100))
            elif kind == "zero": files.append(("%04d-%02d.xml" % (y, mth), (y, mth), (y, mth), [("USD", "0")], 100))
            elif kind == "negative": files.append(("%04d-%02d.xml" % (y, mth), (y, mth), (y, mth), [("EUR", r1), ("USD", "-1.5")], 100))
            elif kind == "two_files":
                t1, t2 = rng.sample([100, 200], 2)
                files.append(("%04d-%02d.xml" % (y, mth), (y, mth), (y, mth), [("USD", r1)], t1)); files.append(("monthly_xml_%04d-%02d.xml" % (y, mth), (y, mth), (y, mth), [("USD", r2)], t2))
            elif kind == "badname": files.append(("rates.xml", None, (y, mth), [("USD", r1)], 100))
            for name, nym, pym, entries, mt in files:
                p = os.path.join(fx, name); open(p, "w").write(month_xml(pym[0], pym[1], entries)); os.utime(p, (1700000000 + mt, 1700000000 + mt))
            if rng.random() < 0.3: open(os.path.join(fx, "notes.txt"), "w").write("not xml")
            probe_month = newm if kind == "add" else (y, mth)
            ls = [Line(datetime.date(probe_month[0], probe_month[1], 10), "AAA", "BUY", "1", "1000000", "USD", None),
                  Line(datetime.date(probe_month[0], probe_month[1], 11), "BBB", "BUY", "1", "1000000", "EUR", None),
                  Line(datetime.date(y2, m2, 12), "CCC", "BUY", "1", "1000000", "USD", None)]
            open(os.path.join(wd, "in.cgt"), "w").write(ledger.render(ls))
            drv = ["FX %s %d %d %s" % (c, yy, mm, ledger.fr(v)) for (c, yy, mm), v in table.items() if c in ("USD", "EUR") and (yy, mm) in (probe_month, (y2, m2))]
            for name, nym, pym, entries, mt in files:
                for c, rv in entries: drv.append("RR %s %s" % (c.strip().upper(), ledger.fr(rv)))
                drv.append("RF %d %s %s" % (mt, ("%d %d" % nym) if nym else "- -", "%d %d" % pym))
            q = ["USD:%d:%d" % probe_month, "EUR:%d:%d" % probe_month, "USD:%d:%d" % (y2, m2)]
            mm = run.run_model([("f%d" % i, drv + ["RUN fx_load " + " ".join(q)])])["f%d" % i]
            p = cli_report_json(wd, ["in.cgt"], ["--fx-folder", "fx"])
            ctx.evaluations += 1; ctx.traces += 1; ctx.count("folder_kind", kind); ctx.count("cli_exit", p.returncode)
            ctx.nontrivial.add(("folder", kind, y, mth, r1, r2))
            expect_fail = kind in ("mislabel", "zero", "negative", "badname")
            replay = {"folder_kind": kind, "files": [(f[0], f[1], f[2], f[3], f[4]) for f in files], "ledger": ledger.render(ls), "cli_exit": p.returncode, "stderr": p.stderr[-400:], "stdout": p.stdout[-600:], "model": mm}
            if expect_fail:
                if p.returncode == 0: ctx.violation("rates folder with a %s file is accepted" % kind, replay, found_input=True)
                elif mm["ok"]: ctx.violation("correspondence K.C08.load broken: model accepts a %s folder" % kind, dict(replay, correspondence="K.C08.load"), found_input=False)
                continue
            if not mm["ok"]:
                ctx.violation("correspondence K.C08.load broken: model rejects (%s), cli exit %d" % (mm.get("why"), p.returncode), dict(replay, correspondence="K.C08.load"), found_input=False); continue
            exp = {"AAA": table.get(("USD",) + probe_month), "BBB": table.get(("EUR",) + probe_month), "CCC": table.get(("USD", y2, m2))}
            for name, nym, pym, entries, mt in sorted(files, key=lambda f: f[4]):
                for c, rv in entries:
                    c = c.strip().upper()
                    if c == "USD" and pym == probe_month: exp["AAA"] = F(rv)
                    if c == "EUR" and pym == probe_month: exp["BBB"] = F(rv)
                    if c == "USD" and pym == (y2, m2): exp["CCC"] = F(rv)
            if any(v is None for v in exp.values()):
                if p.returncode == 0: ctx.violation("a needed rate is absent yet the report is produced", replay, found_input=True)
                continue
            if p.returncode != 0:
                ctx.violation("valid rates folder (%s) refused: %s" % (kind, p.stderr[-200:]), replay, found_input=True); continue
            hold = {h["ticker"]: F(h["total_cost"]) for h in json.loads(p.stdout)["holdings"]}
            mrates = [F(x) if x is not None else None for x in mm["rates"]]
            for t, mr_, in zip(("AAA", "BBB", "CCC"), mrates):
                want = F(10**6) / exp[t]
                if abs(hold[t] - want) > F(1, 100):
                    ctx.violation("with the %s folder %s costs %s, expected %s (rate %s)" % (kind, t, float(hold[t]), float(want), float(exp[t])), replay, found_input=True); break
                if mr_ != exp[t]:
                    ctx.violation("correspondence K.C08.load broken: model rate %s for %s, expected %s" % (mr_, t, exp[t]), dict(replay, correspondence="K.C08.load"), found_input=False); break
        # a folder file whose rows carry codes that are not (or no longer) ISO currencies replaces nothing:
        # the report of a ledger in other currencies of that month is the same with and without the folder
        pool = sorted({c for (c, yy, mm) in table if c not in ("USD", "EUR")})
        for i in range(ctx.n(12, 150)):
            wd = os.path.join(root, "u%d" % i); fx = os.path.join(wd, "fx"); os.makedirs(fx)
            y, mth = rng.choice([mo for mo in months if mo[0] >= 2016])
            here = [c for c in pool if (c, y, mth) in table]
            probes = rng.sample(here, min(4, len(here))) + [c for c in ("MRU", "STN", "VES", "BYN", "ZWG", "SLE") if (c, y, mth) in table]
            odd = rng.sample(["MRO", "STD", "VEF", "BYR", "ZWD", "XXZ", "QQQ", "LTL", "EEK", "US", "EURO"], 4)
            open(os.path.join(fx, "%04d-%02d.xml" % (y, mth)), "w").write(month_xml(y, mth, [(c, rng.choice(["1.5", "7", "123.45"])) for c in odd]))
            ls = [Line(datetime.date(y, mth, 10 + j), "P%d" % j, "BUY", "1", "1000000", c, None) for j, c in enumerate(probes)]
            if not ls: continue
            open(os.path.join(wd, "in.cgt"), "w").write(ledger.render(ls))
            a = cli_report_json(wd, ["in.cgt"], []); b = cli_report_json(wd, ["in.cgt"], ["--fx-folder", "fx"])
            ctx.evaluations += 2; ctx.count("folder_kind", "unknown_codes")
            if a.returncode != b.returncode or (a.returncode == 0 and json.loads(a.stdout)["holdings"] != json.loads(b.stdout)["holdings"]):
                ctx.violation("a rates file with only the codes %s changes the conversion of %s in %d-%02d" % (odd, probes, y, mth),
                              {"ledger": ledger.render(ls), "folder_codes": odd, "without": (a.returncode, a.stdout[-400:], a.stderr[-200:]), "with": (b.returncode, b.stdout[-400:], b.stderr[-200:])}, found_input=True)
    finally:
        shutil.rmtree(root, ignore_errors=True)
