"""Run the extracted model and the Rust harness on batches of cases, sharded over cores."""
import json, subprocess, os
from concurrent.futures import ThreadPoolExecutor
from . import build

NPROC = 16

def _run(cmd, text):
    p = subprocess.run(cmd, input=text, stdout=subprocess.PIPE, stderr=subprocess.PIPE, text=True, env=build.ENV, timeout=900)
    return p.returncode, p.stdout, p.stderr

def _shard(items, n):
    k = max(1, (len(items) + n - 1) // n)
    return [items[i:i + k] for i in range(0, len(items), k)]

def run_model(cases):
    """cases: list of (id, [driver lines ending with a RUN line]) -> {id: json}"""
    res = {}
    def work(chunk):
        text = "".join("CASE %s\n%s\n" % (cid, "\n".join(lines)) for cid, lines in chunk)
        rc, out, err = _run([build.DRIVER], text)
        if rc != 0: raise RuntimeError("model driver failed: " + err[-500:])
        return [json.loads(l) for l in out.splitlines() if l.startswith("{")]
    with ThreadPoolExecutor(NPROC) as ex:
        for part in ex.map(work, _shard(cases, NPROC)):
            for r in part: res[r["id"]] = r
    return res

def run_model_raw(lines):
    rc, out, err = _run([build.DRIVER], "\n".join(lines) + "\n")
    if rc != 0: raise RuntimeError("model driver failed: " + err[-500:])
    return out

def run_harness(cases):
    """cases: list of dicts with id and op -> {id: json}"""
    res = {}
    def work(chunk):
        text = "".join(json.dumps(c) + "\n" for c in chunk)
        rc, out, err = _run([build.HARNESS], text)
        if rc != 0: raise RuntimeError("harness failed rc=%d: %s" % (rc, err[-500:]))
        return [json.loads(l) for l in out.splitlines() if l.strip()]
    with ThreadPoolExecutor(NPROC) as ex:
        for part in ex.map(work, _shard(cases, NPROC)):
            for r in part: res[r["id"]] = r
    return res
